package main

import (
	"context"
	"errors"
	"fmt"
	"sort"
	"strings"
	"sync"
	"sync/atomic"
	"time"

	otter "github.com/maypok86/otter/v2"
	"github.com/maypok86/otter/v2/stats"
)

// Engine "load" (C08 C09 and the in-flight part of C11): scripted interleavings of loader-backed
// Get / Refresh callers with explicit writes and invalidations, with a gated loader: the harness
// decides when each loader invocation returns and with which outcome, so every position of a write
// relative to a load (before the loader starts, while it runs, between its return and the
// installation) is reached deterministically.  Every step is written as an event of the Coq
// protocol model (Load.v) with the implementation's observations; the model must predict who
// joins, who loads, what is installed, who is released, and the cache's value after every step.
func init() { engines["load"] = runLoad }

type gate struct {
	id      int
	key     int
	reload  bool
	old     int
	release chan loadOutcome
}

type loadOutcome struct {
	kind string // V E N P
	val  int
}

type gatedLoader struct {
	mu      sync.Mutex
	started chan *gate
	n       int
}

func (g *gatedLoader) enter(key int, reload bool, old int) (int, error) {
	g.mu.Lock()
	g.n++
	gt := &gate{id: g.n, key: key, reload: reload, old: old, release: make(chan loadOutcome, 1)}
	g.mu.Unlock()
	g.started <- gt
	oc := <-gt.release
	switch oc.kind {
	case "V":
		return oc.val, nil
	case "E":
		return oc.val, errLoader
	case "N":
		return 0, otter.ErrNotFound
	default:
		panic("loader panic")
	}
}
func (g *gatedLoader) Load(ctx context.Context, k int) (int, error) { return g.enter(k, false, 0) }
func (g *gatedLoader) Reload(ctx context.Context, k int, old int) (int, error) {
	return g.enter(k, true, old)
}

// hookClock is the real monotonic clock, except that the first sample taken after [hook] was armed runs
// the hook first.  The load engine arms it just before it lets a loader return: the next sample is the
// one afterDeleteCall takes between the loader's return and the publication of its result, so the hook
// runs inside exactly that window.
type hookClock struct {
	start time.Time
	hook  atomic.Pointer[func()]
}

func (h *hookClock) NowNano() int64 {
	if f := h.hook.Swap(nil); f != nil {
		(*f)()
	}
	return int64(time.Since(h.start))
}
func (h *hookClock) Tick(d time.Duration) <-chan time.Time { return time.Tick(d) }

// gatedBulk lets BulkGet callers take part in the protocol: each requested key goes through the same gate
// as a single load (the engine only ever passes one key, so one gate = one bulk loader invocation).
type gatedBulk struct{ g *gatedLoader }

func (b gatedBulk) BulkLoad(ctx context.Context, keys []int) (map[int]int, error) {
	m := map[int]int{}
	for _, k := range keys {
		v, err := b.g.enter(k, false, 0)
		if err != nil {
			if errors.Is(err, otter.ErrNotFound) {
				continue
			}
			return nil, err
		}
		m[k] = v
	}
	return m, nil
}
func (b gatedBulk) BulkReload(ctx context.Context, keys []int, olds []int) (map[int]int, error) {
	m := map[int]int{}
	for i, k := range keys {
		v, err := b.g.enter(k, true, olds[i])
		if err != nil {
			if errors.Is(err, otter.ErrNotFound) {
				continue
			}
			return nil, err
		}
		m[k] = v
	}
	return m, nil
}

type getResult struct {
	thread int
	val    int
	err    string // "" | E | N | P
}

func runLoad(seed uint64, scale int, out string, _ string) *summary {
	r := &rng{s: seed}
	sum := newSummary("load", seed)
	t := newTrace(out)
	defer t.close()
	seen := map[string]bool{}
	nCases := 120 * scale
	stuckCases := 0
	for cn := 0; cn < nCases && stuckCases < 4; cn++ {
		withRefresh := r.chance(40)
		clk := &hookClock{start: time.Now()}
		counter := stats.NewCounter()
		opts := &otter.Options[int, int]{Logger: &otter.NoopLogger{}, Clock: clk, StatsRecorder: counter}
		if withRefresh {
			opts.RefreshCalculator = otter.RefreshWriting[int, int](time.Hour)
		}
		c := otter.Must(opts)
		gl := &gatedLoader{started: make(chan *gate, 64)}
		nkeys := 1 + r.intn(3)
		t.line("N %d", nkeys)
		sum.Cases++
		nextVal := 1000 * (cn + 1)
		val := func() int { nextVal++; return nextVal }
		results := make(chan getResult, 256)
		thread := 0
		// shadow of the protocol, only to know what to wait for (the Coq model is the judge)
		type flight struct {
			g          *gate
			superseded bool
			waiters    []int
			refresh    bool // the loader runs inside an executor task
		}
		inflight := map[int]*flight{}   // loader id -> flight
		registered := map[int]*flight{} // key -> registered flight
		pendingThreads := map[int]bool{}
		refreshThreads := map[int]bool{}
		desc := fmt.Sprintf("case %d refresh=%v keys=%d", cn, withRefresh, nkeys)
		collect := func(wait time.Duration) []getResult {
			var rs []getResult
			deadline := time.After(wait)
			for {
				select {
				case gr := <-results:
					rs = append(rs, gr)
					delete(pendingThreads, gr.thread)
				case <-deadline:
					return rs
				}
			}
		}
		value := func(k int) string {
			if e, ok := c.GetEntryQuietly(k); ok {
				return fmt.Sprintf("1 %d", e.Value)
			}
			return "0 0"
		}
		nsteps := 6 + r.intn(14)
		for st := 0; st < nsteps; st++ {
			sum.Ops++
			k := r.intn(nkeys)
			x := r.intn(100)
			switch {
			case x < 38:
				// a loader-backed read (or an explicit refresh) of k
				thread++
				th := thread
				refresh := withRefresh && r.chance(30)
				present := false
				if _, ok := c.GetEntryQuietly(k); ok {
					present = true
				}
				if present && !refresh {
					// hit: no protocol event
					v, err := c.Get(context.Background(), k, gl)
					if err != nil {
						sum.fail("C08", "hit-error", "Get on a present entry returned an error", desc)
					}
					t.line("HIT %d %d", k, v)
					continue
				}
				pendingThreads[th] = true
				if refresh {
					refreshThreads[th] = true
				}
				viaBulk := !refresh && registered[k] != nil && r.chance(50)
				if viaBulk {
					sum.Dist["joiner_via_BulkGet"]++
				}
				go func() {
					defer func() {
						if rec := recover(); rec != nil {
							results <- getResult{th, 0, "P"}
						}
					}()
					if refresh {
						ch := c.Refresh(context.Background(), k, gl)
						res := <-ch
						es := ""
						if res.Err != nil {
							es = "E"
							if errors.Is(res.Err, otter.ErrNotFound) {
								es = "N"
							}
						}
						results <- getResult{th, res.Value, es}
						return
					}
					if viaBulk {
						// a BulkGet of the single key: a joiner of the in-flight load like any other reader
						res, err := c.BulkGet(context.Background(), []int{k}, gatedBulk{gl})
						v, ok := res[k]
						es := ""
						switch {
						case err != nil:
							es = "E"
						case !ok:
							es = "N"
						}
						results <- getResult{th, v, es}
						return
					}
					v, err := c.Get(context.Background(), k, gl)
					es := ""
					if err != nil {
						es = "E"
						if errors.Is(err, otter.ErrNotFound) {
							es = "N"
						}
					}
					results <- getResult{th, v, es}
				}()
				expectJoin := registered[k] != nil
				var started *gate
				if expectJoin {
					select {
					case started = <-gl.started:
					case <-time.After(25 * time.Millisecond):
					}
				} else {
					select {
					case started = <-gl.started:
					case <-time.After(5 * time.Second):
					}
				}
				rf := 0
				if refresh {
					rf = 1
				}
				if started != nil {
					fl := &flight{g: started, waiters: []int{th}, refresh: refresh}
					if registered[k] != nil && !registered[k].superseded {
						sum.fail("C08", "overlap", "a second loader invocation started while a load of the same key was in flight and the key had not been written",
							fmt.Sprintf("%s key=%d running=%d new=%d", desc, k, registered[k].g.id, started.id))
					}
					inflight[started.id] = fl
					registered[k] = fl
					t.line("LS %d %d %d L %d", th, k, rf, started.id)
					sum.Dist["load_started"]++
					if started.key != k {
						sum.fail("C08", "loader-key", "the loader was invoked for another key", desc)
					}
				} else if expectJoin {
					registered[k].waiters = append(registered[k].waiters, th)
					t.line("LS %d %d %d J %d", th, k, rf, registered[k].g.id)
					sum.Dist["joined"]++
				} else {
					sum.fail("C08", "no-load", "a miss neither joined a load nor started one", desc)
					t.line("LS %d %d %d X 0", th, k, rf)
				}
				seen[fmt.Sprintf("LS/%v/%v", expectJoin, refresh)] = true
			case x < 62:
				// finish one running loader
				if len(inflight) == 0 {
					continue
				}
				ids := make([]int, 0, len(inflight))
				for id := range inflight {
					ids = append(ids, id)
				}
				sort.Ints(ids)
				id := ids[r.intn(len(ids))]
				fl := inflight[id]
				oc := loadOutcome{kind: []string{"V", "V", "V", "E", "N", "P"}[r.intn(6)], val: val()}
				if (fl.g.reload || fl.refresh) && oc.kind == "P" {
					oc.kind = "E" // a panic inside an executor task is the executor's business
				}
				// a late arrival: a Get of the same key that starts after the loader has returned but
				// before its result is published (the clock sample afterDeleteCall takes lies in that
				// window).  It must still join this load.
				var lateGate *gate
				var lateDone chan struct{}
				lateTh, lateJoined := 0, false
				kLate := fl.g.key
				if _, present := c.GetEntryQuietly(kLate); !present && !fl.g.reload && registered[kLate] == fl && r.chance(45) {
					thread++
					lateTh = thread
					th := lateTh
					pendingThreads[th] = true
					hookDone := make(chan struct{})
					lateDone = hookDone
					fn := func() {
						defer close(hookDone)
						go func() {
							defer func() {
								if rec := recover(); rec != nil {
									results <- getResult{th, 0, "P"}
								}
							}()
							v, err := c.Get(context.Background(), kLate, gl)
							es := ""
							if err != nil {
								es = "E"
								if errors.Is(err, otter.ErrNotFound) {
									es = "N"
								}
							}
							results <- getResult{th, v, es}
						}()
						// a late reader that is slow to get going and arrives after a FAILED load has been
						// cleaned up would legitimately start a load of its own: give it ample time then
						patience := 3 * time.Millisecond
						if oc.kind != "V" {
							patience = 80 * time.Millisecond
						}
						select {
						case lateGate = <-gl.started:
						case <-time.After(patience):
							lateJoined = true
						}
					}
					clk.hook.Store(&fn)
				}
				if kw := fl.g.key; lateTh == 0 && registered[kw] == fl && r.chance(25) {
					// a writer is INSIDE the key's bucket critical section (its Compute function is running)
					// when the loader returns: the load's store step has to wait for the bucket, the write
					// takes effect first and supersedes the load, whose value must then not be installed
					wv := val()
					inval := r.chance(35)
					inside := make(chan struct{})
					releaseW := make(chan struct{})
					doneW := make(chan struct{})
					go func() {
						defer close(doneW)
						c.Compute(kw, func(int, bool) (int, otter.ComputeOp) {
							close(inside)
							<-releaseW
							if inval {
								return 0, otter.InvalidateOp
							}
							return wv, otter.WriteOp
						})
					}()
					select {
					case <-inside:
					case <-time.After(5 * time.Second):
					}
					fl.g.release <- oc
					time.Sleep(3 * time.Millisecond)
					close(releaseW)
					<-doneW
					fl.superseded = true
					delete(registered, kw)
					if inval {
						t.line("LI %d", kw)
					} else {
						t.line("LW %d %d", kw, wv)
					}
					sum.Dist["write_parked_across_loader_return"]++
				} else {
					fl.g.release <- oc
				}
				rs := collect(40 * time.Millisecond)
				if lateTh != 0 {
					if clk.hook.Swap(nil) != nil {
						// the window was not reached (no clock sample): the read never started
						delete(pendingThreads, lateTh)
						lateTh = 0
					} else {
						<-lateDone // the callback ran (or is running): wait for its verdict
					}
					if lateTh == 0 {
					} else if lateGate != nil {
						sum.fail("C08", "overlap", "a second loader invocation started for a key whose load had returned but was not yet published",
							fmt.Sprintf("%s key=%d running=%d new=%d", desc, kLate, fl.g.id, lateGate.id))
						nf := &flight{g: lateGate, waiters: []int{lateTh}}
						inflight[lateGate.id] = nf
						registered[kLate] = nf
						t.line("LS %d %d 0 L %d", lateTh, kLate, lateGate.id)
						sum.Dist["late_arrival_loaded"]++
					} else if lateJoined {
						fl.waiters = append(fl.waiters, lateTh)
						t.line("LS %d %d 0 J %d", lateTh, kLate, fl.g.id)
						sum.Dist["late_arrival_joined"]++
					}
				}
				// every waiter of this flight must have been released by now
				want := map[int]bool{}
				for _, w := range fl.waiters {
					want[w] = true
				}
				for tries := 0; tries < 100; tries++ {
					missing := false
					got := map[int]bool{}
					for _, x := range rs {
						got[x.thread] = true
					}
					for w := range want {
						if !got[w] {
							missing = true
						}
					}
					if !missing {
						break
					}
					rs = append(rs, collect(50*time.Millisecond)...)
				}
				sort.Slice(rs, func(i, j int) bool { return rs[i].thread < rs[j].thread })
				var sb strings.Builder
				for _, x := range rs {
					e := x.err
					if e == "" {
						e = "-"
					}
					fmt.Fprintf(&sb, " %d %d %s", x.thread, x.val, e)
					if !want[x.thread] {
						sum.fail("C08", "released-wrong-waiter", "a caller returned although the load it waits for has not finished", fmt.Sprintf("%s thread=%d", desc, x.thread))
					}
					delete(want, x.thread)
					// every waiter receives the call's result
					okRes := false
					switch oc.kind {
					case "V":
						okRes = x.err == "" && x.val == oc.val
					case "E":
						okRes = x.err == "E"
					case "N":
						okRes = x.err == "N"
					case "P":
						okRes = x.err == "P" || x.err == "E"
					}
					if !okRes {
						sum.fail("C08", "waiter-result", "a waiter did not receive the result of the load it joined",
							fmt.Sprintf("%s thread=%d got=(%d,%q) outcome=%s %d", desc, x.thread, x.val, x.err, oc.kind, oc.val))
					}
				}
				if len(want) != 0 {
					sum.fail("C08", "stuck-waiter", "a waiter was not released when its load finished", fmt.Sprintf("%s stuck=%v outcome=%s", desc, want, oc.kind))
					for w := range want {
						if refreshThreads[w] {
							sum.fail("C11", "refresh-no-result", "an explicit Refresh returned a channel that delivered no result although the load it was deduplicated onto has finished",
								fmt.Sprintf("%s thread=%d key=%d outcome=%s", desc, w, fl.g.key, oc.kind))
						}
					}
					stuckCases++
				}
				t.line("LF %d %s %d %d%s", id, oc.kind, oc.val, len(rs), sb.String())
				sum.Dist["load_finished_"+oc.kind]++
				k2 := fl.g.key
				// C09: a superseded load must not have installed its value
				if e, ok := c.GetEntryQuietly(k2); ok && fl.superseded && oc.kind == "V" && e.Value == oc.val {
					sum.fail("C09", "stale-install", "a load overwrote a newer write or invalidation", fmt.Sprintf("%s key=%d loaded=%d", desc, k2, oc.val))
				}
				seen[fmt.Sprintf("LF/%s/%v/%d", oc.kind, fl.superseded, len(fl.waiters))] = true
				delete(inflight, id)
				if registered[k2] == fl {
					delete(registered, k2)
				}
				_ = lateTh
			case x < 80:
				v := val()
				switch r.intn(3) {
				case 0:
					c.Set(k, v)
				case 1:
					c.Compute(k, func(int, bool) (int, otter.ComputeOp) { return v, otter.WriteOp })
				default:
					if _, ok := c.GetEntryQuietly(k); ok {
						c.Set(k, v)
					} else {
						c.SetIfAbsent(k, v)
					}
				}
				if fl := registered[k]; fl != nil {
					fl.superseded = true
					delete(registered, k)
					sum.Dist["write_during_load"]++
				}
				t.line("LW %d %d", k, v)
			default:
				if r.chance(50) {
					c.Invalidate(k)
				} else {
					c.Compute(k, func(int, bool) (int, otter.ComputeOp) { return 0, otter.InvalidateOp })
				}
				if fl := registered[k]; fl != nil {
					fl.superseded = true
					delete(registered, k)
					sum.Dist["invalidate_during_load"]++
				}
				t.line("LI %d", k)
			}
			// the cache's value for every key after the step
			var sb strings.Builder
			for kk := 0; kk < nkeys; kk++ {
				fmt.Fprintf(&sb, " %s", value(kk))
			}
			t.line("V%s", sb.String())
		}
		// finish everything still running
		ids := make([]int, 0, len(inflight))
		for id := range inflight {
			ids = append(ids, id)
		}
		sort.Ints(ids)
		for _, id := range ids {
			fl := inflight[id]
			v := val()
			fl.g.release <- loadOutcome{kind: "V", val: v}
			rs := collect(30 * time.Millisecond)
			for tries := 0; tries < 100 && len(rs) < len(fl.waiters); tries++ {
				rs = append(rs, collect(50*time.Millisecond)...)
			}
			sort.Slice(rs, func(i, j int) bool { return rs[i].thread < rs[j].thread })
			var sb strings.Builder
			for _, x := range rs {
				e := x.err
				if e == "" {
					e = "-"
				}
				fmt.Fprintf(&sb, " %d %d %s", x.thread, x.val, e)
			}
			t.line("LF %d V %d %d%s", id, v, len(rs), sb.String())
			var vb strings.Builder
			for kk := 0; kk < nkeys; kk++ {
				fmt.Fprintf(&vb, " %s", value(kk))
			}
			t.line("V%s", vb.String())
		}
		time.Sleep(2 * time.Millisecond)
		if len(pendingThreads) != 0 {
			rs := collect(200 * time.Millisecond)
			_ = rs
		}
		if len(pendingThreads) != 0 {
			sum.fail("C08", "stuck-waiter", "callers never returned", fmt.Sprintf("%s stuck=%v", desc, pendingThreads))
		}
		if n := otter.VerifInFlight(c); n != 0 {
			sum.fail("C08", "table-not-clean", "in-flight records are left behind after every load has finished", fmt.Sprintf("%s records=%d", desc, n))
		}
		// C20 under concurrency: one load success or failure per loader invocation — not per waiter
		gl.mu.Lock()
		invoked := gl.n
		gl.mu.Unlock()
		if snap := counter.Snapshot(); len(pendingThreads) == 0 && int(snap.LoadSuccesses+snap.LoadFailures) != invoked {
			sum.fail("C20", "loads-concurrent", "LoadSuccesses + LoadFailures differs from the number of loader invocations",
				fmt.Sprintf("%s successes=%d failures=%d loader invocations=%d", desc, snap.LoadSuccesses, snap.LoadFailures, invoked))
		}
		t.line("END %d", otter.VerifInFlight(c))
		if len(sum.Samples) < 3 {
			sum.Samples = append(sum.Samples, fmt.Sprintf("load %s steps=%d", desc, nsteps))
		}
	}
	bulkWindows(r, scale, sum, seen)
	sum.Distinct = len(seen)
	return sum
}

// windowBulk is the bulk loader of the bulk windows: it records the key sets it is invoked with, waits at
// its gate, and returns the prepared map (which may volunteer keys nobody asked it for).
type windowBulk struct {
	mu      sync.Mutex
	calls   [][]int
	entered chan struct{}
	gate    chan struct{}
	result  func(keys []int) (map[int]int, error)
}

func (b *windowBulk) BulkLoad(ctx context.Context, keys []int) (map[int]int, error) {
	b.mu.Lock()
	b.calls = append(b.calls, append([]int(nil), keys...))
	b.mu.Unlock()
	b.entered <- struct{}{}
	<-b.gate
	return b.result(keys)
}
func (b *windowBulk) BulkReload(ctx context.Context, keys []int, olds []int) (map[int]int, error) {
	return b.BulkLoad(ctx, keys)
}

// bulkWindows: implementation-only windows of C08 for bulk calls over OVERLAPPING key sets (the protocol
// model's events are per key: a bulk call is a run of LStart events, one loader invocation, and a run of
// LFinish events, so its theorems cover these interleavings; here the code is held to them).
// A single Get of k is in flight (its loader blocked); a BulkGet of {j, k} must join it for k and invoke
// the bulk loader with [j] only; the bulk loader returns j — and in half of the windows volunteers a value
// for k too; the BulkGet must not return while k's load is in flight, and must hand out that load's result
// for k.  Second shape: two BulkGets over {j, k} and {k, m}: the second joins k.
func bulkWindows(r *rng, scale int, sum *summary, seen map[string]bool) {
	for it := 0; it < 24*scale; it++ {
		c := otter.Must(&otter.Options[int, int]{Logger: &otter.NoopLogger{}})
		j, k, m := 10, 20, 30
		volunteer := r.chance(50)
		shape := r.intn(2)
		outcome := r.intn(3) // the first load of k: 0 value, 1 not found, 2 error
		desc := fmt.Sprintf("bulk window %d shape=%d volunteer=%v first-load-outcome=%d", it, shape, volunteer, outcome)
		seen[fmt.Sprintf("BW/%d/%v/%d", shape, volunteer, outcome)] = true
		sum.Ops++
		sum.Dist["bulk_windows"]++
		firstEntered := make(chan struct{}, 1)
		firstGate := make(chan struct{})
		firstLoads := 0
		var fmu sync.Mutex
		firstResult := func() (int, error) {
			switch outcome {
			case 1:
				return 0, otter.ErrNotFound
			case 2:
				return 0, errors.New("boom")
			}
			return 2000, nil
		}
		type res struct {
			m   map[int]int
			v   int
			err error
		}
		firstDone := make(chan res, 1)
		var firstBulk *windowBulk
		if shape == 0 {
			go func() {
				v, err := c.Get(context.Background(), k, otter.LoaderFunc[int, int](func(ctx context.Context, key int) (int, error) {
					fmu.Lock()
					firstLoads++
					fmu.Unlock()
					firstEntered <- struct{}{}
					<-firstGate
					return firstResult()
				}))
				firstDone <- res{v: v, err: err}
			}()
		} else {
			firstBulk = &windowBulk{entered: make(chan struct{}, 4), gate: make(chan struct{}), result: func(keys []int) (map[int]int, error) {
				out := map[int]int{}
				for _, key := range keys {
					if key == k {
						v, err := firstResult()
						if err != nil {
							if errors.Is(err, otter.ErrNotFound) {
								continue
							}
							return nil, err
						}
						out[key] = v
					} else {
						out[key] = 100 * key
					}
				}
				return out, nil
			}}
			go func() {
				mp, err := c.BulkGet(context.Background(), []int{j, k}, firstBulk)
				firstDone <- res{m: mp, err: err}
			}()
		}
		select {
		case <-firstEntered:
		case <-func() chan struct{} {
			if firstBulk != nil {
				return firstBulk.entered
			}
			return nil
		}():
		case <-time.After(5 * time.Second):
			sum.fail("C08", "bulk-window-setup", "the first load never started", desc)
			continue
		}
		// the second, overlapping bulk call
		second := &windowBulk{entered: make(chan struct{}, 4), gate: make(chan struct{}), result: func(keys []int) (map[int]int, error) {
			out := map[int]int{}
			for _, key := range keys {
				out[key] = 100 * key
			}
			if volunteer {
				out[k] = 7777
			}
			return out, nil
		}}
		other := j
		if shape == 1 {
			other = m
		}
		secondDone := make(chan res, 1)
		go func() {
			mp, err := c.BulkGet(context.Background(), []int{other, k}, second)
			secondDone <- res{m: mp, err: err}
		}()
		select {
		case <-second.entered:
		case <-time.After(5 * time.Second):
			sum.fail("C08", "bulk-no-load", "a BulkGet with one missing key of its own never invoked its loader", desc)
		}
		second.mu.Lock()
		for _, ks := range second.calls {
			for _, key := range ks {
				if key == k {
					sum.fail("C08", "overlap", "a second loader invocation started while a load of the same key was in flight and the key had not been written",
						fmt.Sprintf("%s: the overlapping BulkGet's loader was asked for %v while key %d was being loaded", desc, ks, k))
				}
			}
		}
		second.mu.Unlock()
		close(second.gate) // the second call's own load finishes; k's first load is still in flight
		select {
		case got := <-secondDone:
			sum.fail("C08", "bulk-early-return", "a BulkGet returned while the load of one of its keys, which it had joined, was still in flight",
				fmt.Sprintf("%s: returned (%v, %v)", desc, got.m, got.err))
			secondDone <- got
		case <-time.After(30 * time.Millisecond):
		}
		// now the first load finishes
		if firstBulk != nil {
			close(firstBulk.gate)
		} else {
			close(firstGate)
		}
		var first, sec res
		select {
		case first = <-firstDone:
		case <-time.After(5 * time.Second):
			sum.fail("C08", "stuck-waiter", "callers never returned", desc+" (first caller)")
			continue
		}
		select {
		case sec = <-secondDone:
		case <-time.After(5 * time.Second):
			sum.fail("C08", "stuck-waiter", "callers never returned", desc+" (overlapping BulkGet)")
			continue
		}
		_ = first
		// the joiner receives the joined load's result for k
		switch outcome {
		case 0:
			if v, ok := sec.m[k]; sec.err != nil || !ok || v != 2000 {
				sum.fail("C08", "bulk-joined-value", "a BulkGet that joined an in-flight load did not receive that load's result for the key",
					fmt.Sprintf("%s: got (%v, %v), the joined load returned 2000", desc, sec.m, sec.err))
			}
		case 1:
			if _, ok := sec.m[k]; sec.err != nil || ok {
				sum.fail("C08", "bulk-joined-value", "a BulkGet that joined an in-flight load did not receive that load's result for the key",
					fmt.Sprintf("%s: got (%v, %v), the joined load reported not-found", desc, sec.m, sec.err))
			}
		case 2:
			if sec.err == nil {
				sum.fail("C08", "bulk-joined-value", "a BulkGet that joined an in-flight load did not receive that load's result for the key",
					fmt.Sprintf("%s: got (%v, nil), the joined load failed", desc, sec.m))
			}
		}
		// what is left in the cache for k, by the protocol model's events: LVolunteer k 7777 (if volunteered)
		// happened when the overlapping call's own load finished, LFinish of the joined load afterwards:
		// a value overwrites it, not-found removes it (the call is still the registered one), an error
		// leaves it
		wantV, wantOK := 0, false
		switch {
		case outcome == 0:
			wantV, wantOK = 2000, true
		case outcome == 2 && volunteer:
			wantV, wantOK = 7777, true
		}
		if e, ok := c.GetEntryQuietly(k); ok != wantOK || (ok && e.Value != wantV) {
			sum.fail("C08", "bulk-final-state", "after a bulk load that volunteered a key another load was in flight for, the cache does not hold what the protocol's events leave",
				fmt.Sprintf("%s: cache holds (%v,%v), expected (%d,%v)", desc, e.Value, ok, wantV, wantOK))
		}
		if v, ok := sec.m[other]; sec.err == nil && (!ok || v != 100*other) {
			sum.fail("C08", "bulk-own-value", "a BulkGet did not return the value its own loader produced", fmt.Sprintf("%s: got %v", desc, sec.m))
		}
		if n := otter.VerifInFlight(c); n != 0 {
			sum.fail("C08", "table-not-clean", "in-flight records are left behind after every load has finished", fmt.Sprintf("%s records=%d", desc, n))
		}
		fmu.Lock()
		if shape == 0 && firstLoads != 1 {
			sum.fail("C08", "overlap", "a second loader invocation started while a load of the same key was in flight and the key had not been written", fmt.Sprintf("%s: loader of key %d ran %d times", desc, k, firstLoads))
		}
		fmu.Unlock()
	}
}
