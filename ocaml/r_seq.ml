(* r_seq.ml — replays a "seq" engine trace.
   Correspondence: the extracted concrete model (Seq.step) must produce the implementation's
   return values, atomic deletion events, callback arguments, executor submissions, and after
   every operation the same per-key entries (value, weight, both deadlines), physical size and
   statistics.
   Property oracle: the extracted abstract map (Spec.spec_step) is run on the same operations;
   the implementation's visible results are compared with it directly (PROPFAIL lines). *)
open Util
module M = Model

let z = mz_of_string
let zi = mz_of_int
let s_of = string_of_mz

(* ---- token cursor *)
type cur = { mutable toks : string list }
let next c = match c.toks with t :: r -> c.toks <- r; t | [] -> failwith "trace: unexpected end of line"
let nexti c = int_of_string (next c)
let nextz c = z (next c)
let peek c = match c.toks with t :: _ -> t | [] -> ""
let tokens (s : string) = List.filter (fun t -> t <> "") (String.split_on_char ' ' s)

let split_semis (l : string) : string list =
  (* split on " ; " *)
  let parts = ref [] and buf = Buffer.create 64 in
  let toks = String.split_on_char ' ' l in
  List.iter (fun t -> if t = ";" then (parts := Buffer.contents buf :: !parts; Buffer.clear buf)
                      else (Buffer.add_string buf t; Buffer.add_char buf ' ')) toks;
  parts := Buffer.contents buf :: !parts;
  List.rev !parts

(* ---- configuration *)
let read_tbl c = let n = nexti c in Array.init n (fun _ -> nextz c)
let tbl_get (t : M.z array) (k : M.z) (cur : M.z) : M.z =
  let n = Array.length t in
  let i = ((int_of_mz k mod n) + n) mod n in
  let x = t.(i) in
  if s_of x = "-1" then cur else x

let parse_cfg (toks : string list) : M.cfg =
  let c = { toks } in
  let b () = next c = "1" in
  let we = b () in let wr = b () in let weighted = b () in let bounded = b () in
  if next c <> "E" then failwith "cfg E";
  let ek = nexti c in
  let ec, eu, er =
    match ek with
    | 0 -> (fun _ _ cur -> cur), (fun _ _ _ cur -> cur), (fun _ _ cur -> cur)
    | 1 -> let d = nextz c in (fun _ _ _ -> d), (fun _ _ _ cur -> cur), (fun _ _ cur -> cur)
    | 2 -> let d = nextz c in (fun _ _ _ -> d), (fun _ _ _ _ -> d), (fun _ _ cur -> cur)
    | 3 -> let d = nextz c in (fun _ _ _ -> d), (fun _ _ _ _ -> d), (fun _ _ _ -> d)
    | _ -> let tc = read_tbl c in let tu = read_tbl c in let tr = read_tbl c in
           (fun k _ cur -> tbl_get tc k cur), (fun k _ _ cur -> tbl_get tu k cur), (fun k _ cur -> tbl_get tr k cur)
  in
  if next c <> "R" then failwith "cfg R";
  let rk = nexti c in
  let rc, ru, rr, rf =
    match rk with
    | 0 -> (fun _ _ cur -> cur), (fun _ _ _ cur -> cur), (fun _ _ _ cur -> cur), (fun _ _ cur -> cur)
    | 1 -> let d = nextz c in (fun _ _ _ -> d), (fun _ _ _ cur -> cur), (fun _ _ _ cur -> cur), (fun _ _ cur -> cur)
    | 2 -> let d = nextz c in (fun _ _ _ -> d), (fun _ _ _ _ -> d), (fun _ _ _ _ -> d), (fun _ _ cur -> cur)
    | _ -> let tc = read_tbl c in let tu = read_tbl c in let tr = read_tbl c in let tf = read_tbl c in
           (fun k _ cur -> tbl_get tc k cur), (fun k _ _ cur -> tbl_get tu k cur),
           (fun k _ _ cur -> tbl_get tr k cur), (fun k _ cur -> tbl_get tf k cur)
  in
  if next c <> "W" then failwith "cfg W";
  let wt = if peek c = "0" then [||] else read_tbl c in
  let weigher k v =
    let n = Array.length wt in
    if n = 0 then zi 1 else
      let i = (((int_of_mz k + 3 * int_of_mz v) mod n) + n) mod n in wt.(i) in
  { M.with_exp = we; with_refr = wr; weighted; bounded; weigher;
    exp_create = ec; exp_update = eu; exp_read = er;
    refr_create = rc; refr_update = ru; refr_reload = rr; refr_fail = rf }

(* ---- printing model results in the trace's own format *)
let b01 b = if b then "1" else "0"
let cause_code = function M.CInvalidation -> 1 | M.CReplacement -> 2 | M.COverflow -> 3 | M.CExpiration -> 4
let cause_of_code = function 1 -> M.CInvalidation | 2 -> M.CReplacement | 3 -> M.COverflow | _ -> M.CExpiration

let sort_pairs l = List.sort compare (List.map (fun (k, v) -> (Z.to_int (z_of_mz k), s_of v)) l)

let ret_str (r : M.ret) : string =
  match r with
  | M.RNone -> "N"
  | M.RVal (v, b) -> Printf.sprintf "V %s %s" (s_of v) (b01 b)
  | M.REntry e -> Printf.sprintf "T %s %s %s %s %s" (s_of e.M.en_val) (s_of e.M.en_weight) (s_of e.M.en_exp) (s_of e.M.en_refr) (s_of e.M.en_snap)
  | M.RLoad (v, e) -> Printf.sprintf "L %s %s" (s_of v) (s_of e)
  | M.RBulk (res, e) ->
      let ps = sort_pairs res in
      Printf.sprintf "K %s %d%s" (s_of e) (List.length ps) (String.concat "" (List.map (fun (k, v) -> Printf.sprintf " %d %s" k v) ps))
  | M.RIter res ->
      let ps = sort_pairs res in
      Printf.sprintf "I %d%s" (List.length ps) (String.concat "" (List.map (fun (k, v) -> Printf.sprintf " %d %s" k v) ps))
  | M.RChan b -> "C " ^ b01 b
  | M.RRefreshes _ -> "-"
  | M.RPanicked -> "P"
  | M.RBadAuto -> "BADAUTO"

let ev_triples (es : M.event list) = List.map (fun e -> (Z.to_int (z_of_mz e.M.ekey), s_of e.M.evalue, cause_code e.M.ecause)) es

let parse_events (s : string) : (int * string * int) list =
  let c = { toks = tokens s } in
  if next c <> "E" then failwith "events";
  let n = nexti c in
  List.init n (fun _ -> let k = nexti c in let v = next c in let cs = nexti c in (k, v, cs))

let ev_str es = String.concat " " (List.map (fun (k, v, c) -> Printf.sprintf "(%d,%s,%d)" k v c) es)

let cb_str (cbs : M.cbcall list) : string =
  let ints l = Printf.sprintf "%d%s" (List.length l) (String.concat "" (List.map (fun x -> " " ^ s_of x) l)) in
  let item = function
    | M.CbRemap _ -> ""
    | M.CbLoad k -> " L " ^ s_of k
    | M.CbReload (k, o) -> Printf.sprintf " R %s %s" (s_of k) (s_of o)
    | M.CbBulkLoad ks -> " BL " ^ ints (List.sort (fun a b -> Z.compare (z_of_mz a) (z_of_mz b)) ks)
    | M.CbBulkReload (ks, os) ->
        let kos = List.sort (fun (a, _) (b, _) -> Z.compare (z_of_mz a) (z_of_mz b)) (List.combine ks os) in
        Printf.sprintf " BR %s %s" (ints (List.map fst kos)) (ints (List.map snd kos))
  in
  let loads = List.filter (function M.CbRemap _ -> false | _ -> true) cbs in
  Printf.sprintf "B %d%s" (List.length loads) (String.concat "" (List.map item loads))

(* ---- op parsing *)
let parse_outcome c : M.outcome =
  match next c with
  | "V" -> M.LValue (nextz c)
  | "E" -> M.LError (nextz c)
  | "N" -> M.LNotFound
  | "P" -> M.LPanic
  | "-" -> M.LNotFound (* loader not invoked *)
  | t -> failwith ("outcome " ^ t)

let parse_bulk_outcome c : M.bulk_outcome =
  match next c with
  | "M" -> let n = nexti c in M.BMap (List.init n (fun _ -> let k = nextz c in let v = nextz c in (k, v)))
  | "E" -> M.BError
  | "P" -> M.BPanic
  | "-" -> M.BMap []
  | t -> failwith ("bulk outcome " ^ t)

let opc_of = function
  | "W" -> M.OpWrite | "I" -> M.OpInvalidate | "C" -> M.OpCancel | "X" -> M.OpInvalid | t -> failwith ("opc " ^ t)

type parsed = { name : string; key : M.z option; mop : M.op option (* None: needs the spawn queue *);
                now : M.z; run_single : (M.outcome) option; run_bulk : (M.bulk_outcome * M.bulk_outcome) option }

let parse_op (s : string) : parsed =
  let c = { toks = tokens s } in
  if next c <> "O" then failwith "op";
  let name = next c in
  let mk ?key mop now = { name; key; mop = Some mop; now; run_single = None; run_bulk = None } in
  match name with
  | "SET" -> let k = nextz c in let v = nextz c in let now = nextz c in mk ~key:k (M.OSet (k, v, now)) now
  | "SIA" -> let k = nextz c in let v = nextz c in let now = nextz c in mk ~key:k (M.OSetIfAbsent (k, v, now)) now
  | "GIP" -> let k = nextz c in let now = nextz c in mk ~key:k (M.OGetIfPresent (k, now)) now
  | "GE" -> let k = nextz c in let now = nextz c in mk ~key:k (M.OGetEntry (k, now)) now
  | "GEQ" -> let k = nextz c in let now = nextz c in mk ~key:k (M.OGetEntryQuietly (k, now)) now
  | "CMP" ->
      let k = nextz c in let res = next c in let v = nextz c in let now = nextz c in
      let f = if res = "P" then (fun _ _ -> M.RPanic) else (fun _ _ -> M.RRes (v, opc_of res)) in
      mk ~key:k (M.OCompute (k, f, now)) now
  | "CIA" ->
      let k = nextz c in let res = next c in let v = nextz c in let now = nextz c in
      let f = if res = "P" then (fun () -> M.RPanic) else (fun () -> M.RRes (v, opc_of res)) in
      mk ~key:k (M.OComputeIfAbsent (k, f, now)) now
  | "CIP" ->
      let k = nextz c in let res = next c in let v = nextz c in let now = nextz c in
      let f = if res = "P" then (fun _ -> M.RPanic) else (fun _ -> M.RRes (v, opc_of res)) in
      mk ~key:k (M.OComputeIfPresent (k, f, now)) now
  | "INV" -> let k = nextz c in let now = nextz c in mk ~key:k (M.OInvalidate (k, now)) now
  | "INVALL" -> let now = nextz c in mk (M.OInvalidateAll now) now
  | "SEA" -> let k = nextz c in let d = nextz c in let now = nextz c in mk ~key:k (M.OSetExpiresAfter (k, d, now)) now
  | "SRA" -> let k = nextz c in let d = nextz c in let now = nextz c in mk ~key:k (M.OSetRefreshableAfter (k, d, now)) now
  | "GET" -> let k = nextz c in let oc = parse_outcome c in let now = nextz c in mk ~key:k (M.OGet (k, oc, now, now)) now
  | "BGET" ->
      let n = nexti c in let ks = List.init n (fun _ -> nextz c) in
      if next c <> "|" then failwith "bget |";
      let bo = parse_bulk_outcome c in
      if next c <> "|" then failwith "bget | 2";
      let now = nextz c in mk (M.OBulkGet (ks, bo, now, now)) now
  | "REF" -> let k = nextz c in let now = nextz c in mk ~key:k (M.ORefresh (k, now)) now
  | "BREF" ->
      let n = nexti c in let ks = List.init n (fun _ -> nextz c) in
      if next c <> "|" then failwith "bref |";
      let now = nextz c in mk (M.OBulkRefresh (ks, now)) now
  | "ITER" -> let now = nextz c in mk (M.OIter now) now
  | "AUTO" -> let k = nextz c in let v = nextz c in let cs = nexti c in let now = nextz c in
      mk ~key:k (M.OAuto (k, v, cause_of_code cs, now)) now
  | "RUN" ->
      let k = nextz c in let _old = next c in let oc = parse_outcome c in let now = nextz c in
      { name; key = Some k; mop = None; now; run_single = Some oc; run_bulk = None }
  | "BRUN" ->
      let bl = parse_bulk_outcome c in
      if next c <> "|" then failwith "brun |";
      let br = parse_bulk_outcome c in
      if next c <> "|" then failwith "brun | 2";
      let now = nextz c in
      { name; key = None; mop = None; now; run_single = None; run_bulk = Some (bl, br) }
  | t -> failwith ("unknown op " ^ t)

let c_bounded_of (c : M.cfg option) = match c with Some c -> c.M.bounded | None -> false

let bulk_names = [ "BGET"; "BREF"; "BRUN"; "INVALL" ]

(* properties a deviation from the abstract map is reported under *)
let props_for (name : string) (dead : bool) (aspect : string) : string list =
  let base = [ "C01" ] in
  let base = if dead then "C03" :: base else base in
  let base = match name with
    | "GET" | "BGET" -> "C10" :: base
    | "RUN" | "BRUN" | "REF" | "BREF" -> "C11" :: "C10" :: base
    | _ -> base in
  let base = match aspect with
    | "deadline" -> "C12" :: base
    | "stats" -> "C20" :: base
    | "events" -> "C06" :: base
    | _ -> base in
  base

let run (path : string) : unit =
  let cfg = ref None in
  let st = ref M.cstate0 in        (* concrete model state *)
  let sp = ref M.cstate0 in        (* abstract map *)
  let spawns : M.spawn Queue.t = Queue.create () in
  let last_name = ref "" and last_dead = ref false in
  (* the next operation sampled the clock before a maintenance run that happened at a later clock value
     (a two-thread interleaving): the concrete model must still agree exactly, the sequential abstract
     map is not an oracle for it and is resynchronised from the concrete state afterwards *)
  let stale = ref false in
  (* --- closed-loop policy replay (maint mode) *)
  let maint = ref false in
  let cur_max : Z.t option ref = ref None in
  let ms = ref (M.mstate0 false false false) in
  let rnd = ref M.Z0 in
  let exp_of : (string, M.z) Hashtbl.t = Hashtbl.create 64 in      (* node id (= value) -> current ExpiresAt *)
  let key_of : (string, M.z) Hashtbl.t = Hashtbl.create 64 in
  let hashes : (string, M.z array) Hashtbl.t = Hashtbl.create 8 in (* sketch table length -> hash of each key *)
  let expected : (int * string * int) Queue.t = Queue.create () in (* predicted automatic removals *)
  let case_no = ref 0 in
  (* pre-pass: the hash of every key under each sketch seed (one seed per table length) of each case *)
  let all_hashes : (int * string, M.z array) Hashtbl.t = Hashtbl.create 64 in
  (let cn = ref 0 in
   iter_lines path (fun _ toks ->
       match toks with
       | "C" :: _ -> incr cn
       | "A" :: rest ->
           let rec find_c = function
             | "C" :: _ :: _ :: _ :: _ :: _ :: _ :: _ :: sklen :: "|" :: "H" :: n :: tl -> Some (sklen, int_of_string n, tl)
             | _ :: tl -> find_c tl
             | [] -> None in
           (match find_c rest with
            | Some (sklen, n, tl) ->
                if not (Hashtbl.mem all_hashes (!cn, sklen)) then begin
                  let arr = Array.make n M.Z0 in
                  List.iteri (fun i t -> if i < n then arr.(i) <- mz_of_string t) tl;
                  Hashtbl.replace all_hashes (!cn, sklen) arr
                end
            | None -> ())
       | _ -> ()));
  let hashf (len : M.z) (k : M.z) : M.z =
    match Hashtbl.find_opt all_hashes (!case_no, s_of len) with
    | Some arr -> let i = int_of_mz k in if i >= 0 && i < Array.length arr then arr.(i) else M.Z0
    | None -> M.Z0 in
  let cur (id : M.z) : M.z = match Hashtbl.find_opt exp_of (s_of id) with Some e -> e | None -> mz_of_string "9223372036854775807" in
  let ignore_hashes = hashes in ignore ignore_hashes;
  let refresh_exps () =
    List.iter (fun (k, n) -> Hashtbl.replace exp_of (s_of n.M.nval) n.M.nexp; Hashtbl.replace key_of (s_of n.M.nval) k) (M.cmap !st) in
  let flush_expected ln =
    if not (Queue.is_empty expected) then begin
      let (k, v, cs) = Queue.peek expected in
      mismatch "maint" ln "the model's maintenance removes (key %d, value %s, cause %d) but the implementation did not (%d pending)" k v cs (Queue.length expected);
      List.iter (fun p -> propfail p "missing-automatic-removal" ln "maintenance did not remove (key %d, value %s, cause %d) although the policy model must" k v cs)
        (if cs = 4 then [ "C13" ] else [ "C04" ]);
      Queue.clear expected
    end in
  let getcfg () = match !cfg with Some c -> c | None -> failwith "no cfg" in
  let pf ln name dead aspect fmt =
    Printf.ksprintf (fun s ->
        List.iter (fun p -> propfail p (name ^ "-" ^ aspect ^ (if dead then "-on-expired" else "")) ln "%s" s)
          (props_for name dead aspect)) fmt in
  iter_lines path (fun ln toks ->
      match toks with
      | "#" :: _ -> ()
      | "STALE" :: _ -> stale := true; count "stale_writes"
      | "C" :: rest ->
          if not (Queue.is_empty spawns) then
            mismatch "seq" ln "a refresh task the model expects was never executed (%d pending)" (Queue.length spawns);
          Queue.clear spawns;
          flush_expected ln;
          incr case_no; maint := false; cur_max := None; Hashtbl.clear exp_of; Hashtbl.clear key_of;
          cfg := Some (parse_cfg rest); st := M.cstate0; sp := M.cstate0; count "cases"
      | "MODE" :: "maint" :: r :: ic :: _ ->
          let c = getcfg () in
          maint := true;
          ms := M.mstate0 c.M.bounded c.M.with_exp c.M.weighted;
          (match String.split_on_char '=' r with [ _; v ] -> rnd := z v | _ -> ());
          (match String.split_on_char '=' ic with
           | [ _; v ] when v <> "-1" -> ms := M.m_init_sketch !ms (z v)
           | _ -> ())
      | [ "X"; mx; wm; pm ] ->
          cur_max := Some (Z.of_string mx);
          if !maint then ms := M.m_set_maximum !ms (z mx) (z wm) (z pm)
      | "P" :: n :: order ->
          (* the write buffer's events re-queued in another order *)
          if !maint then begin
            let old = Array.of_list (M.wbuf !ms) in
            if Array.length old <> int_of_string n then
              mismatch "maint" ln "write buffer permuted: model holds %d events, implementation %s" (Array.length old) n
            else begin
              ms := { !ms with M.wbuf = List.map (fun i -> old.(int_of_string i)) order };
              count "write_buffer_permuted"
            end
          end
      | [ "M"; now; adj ] ->
          if !maint then begin
            refresh_exps ();
            if adj <> "0" then count "maintenance_with_climber_amount";
            let (((m', expired), ev_tasks), evicted) = M.m_maintenance hashf cur !rnd (z now) (z adj) !ms in
            ms := m';
            count "maintenance_replayed";
            let expect cs ids =
              List.iter (fun id ->
                  match Hashtbl.find_opt key_of (s_of id) with
                  | Some k ->
                      (* reported only if that very node is still the key's current node; successive
                         removals in one run concern distinct keys' current nodes *)
                      (match M.lookup k (M.cmap !st) with
                       | Some n when s_of n.M.nval = s_of id ->
                           if not (Queue.fold (fun acc (_, v, _) -> acc || v = s_of id) false expected) then
                             Queue.push (int_of_mz k, s_of id, cs) expected
                       | _ -> ())
                  | None -> ()) ids in
            expect 3 ev_tasks; expect 4 expired; expect 3 evicted
          end
      | "O" :: _ ->
          let line = String.concat " " toks in
          let parts = split_semis line in
          let p = parse_op (List.nth parts 0) in
          let c = getcfg () in
          count ("op_" ^ p.name);
          let is_auto = p.name = "AUTO" in
          (* C07 / C04: an Overflow removal needs total weight > maximum (or an oversized entry) and a positive weight *)
          (if is_auto then
             match p.key, p.mop, !cur_max with
             | Some k, Some (M.OAuto (_, v, M.COverflow, _)), Some mx ->
                 let total = List.fold_left (fun acc (_, n) -> Z.add acc (z_of_mz n.M.nweight)) Z.zero (M.cmap !st) in
                 (match M.lookup k (M.cmap !st) with
                  | Some n when s_of n.M.nval = s_of v ->
                      let w = z_of_mz n.M.nweight in
                      count "overflow_removals_checked";
                      if Z.equal w Z.zero then
                        List.iter (fun pr -> propfail pr "zero-weight-evicted" ln "entry (key %s, value %s) of weight 0 was evicted for size" (s_of k) (s_of v)) [ "C04"; "C07" ];
                      if not (Z.gt total mx || Z.gt w mx) then
                        propfail "C07" "overflow-unjustified" ln "Overflow removal of (key %s, value %s) while total weight %s <= maximum %s" (s_of k) (s_of v) (Z.to_string total) (Z.to_string mx)
                  | _ -> ())
             | _ -> ());
          if !maint then begin
            if is_auto then begin
              (match p.key, List.nth parts 0 with
               | Some k, l ->
                   let toks = tokens l in
                   let v = List.nth toks 3 and cs = int_of_string (List.nth toks 4) in
                   if Queue.is_empty expected then begin
                     mismatch "maint" ln "automatic removal %s not predicted by the policy model" l;
                     List.iter (fun pr -> propfail pr "unpredicted-automatic-removal" ln "automatic removal %s: the policy model removes nothing here" l) [ "C07" ]
                   end else begin
                     let (ek, ev, ecs) = Queue.pop expected in
                     if (ek, ev, ecs) <> (int_of_mz k, v, cs) then
                       mismatch "maint" ln "automatic removal: model (key %d, value %s, cause %d) impl %s" ek ev ecs l
                   end
               | _ -> ())
            end else flush_expected ln
          end;
          (* the model op *)
          let mop =
            match p.mop with
            | Some o -> Some o
            | None ->
                if Queue.is_empty spawns then (mismatch "seq" ln "%s: the implementation ran a refresh task the model did not submit" p.name; None)
                else
                  match Queue.pop spawns, p.run_single, p.run_bulk with
                  | M.SpRefresh (k, old), Some oc, _ ->
                      (match p.key with Some k' when s_of k' <> s_of k -> mismatch "seq" ln "RUN key model=%s impl=%s" (s_of k) (s_of k') | _ -> ());
                      Some (M.ORunRefresh (k, old, oc, p.now))
                  | M.SpBulkRefresh rks, _, Some (bl, br) -> Some (M.ORunBulkRefresh (rks, bl, br, p.now))
                  | _ -> mismatch "seq" ln "%s: kind of refresh task differs from the model's" p.name; None
          in
          (match mop with
           | None -> ()
           | Some o ->
               (* was the key an expired-but-unswept node when the op started? *)
               let dead = match p.key with
                 | Some k -> (match M.lookup k (M.cmap !st) with Some n -> M.has_expired c n p.now | None -> false)
                 | None -> List.exists (fun (_, n) -> M.has_expired c n p.now) (M.cmap !st) in
               if dead then count ("on_expired_" ^ p.name);
               last_name := p.name; last_dead := dead;
               let (st', r) = M.step c !st o in
               let (sp', rs) = M.spec_step c !sp o in
               let st_before = !st in
               let was_stale = !stale && not is_auto in
               if was_stale then stale := false;
               let rs = if was_stale then r else rs in
               st := st'; sp := (if was_stale then st' else sp');
               if !maint && not is_auto then begin
                 (match p.key with
                  | Some k ->
                      let oldn = M.lookup k (M.cmap st_before) and newn = M.lookup k (M.cmap st') in
                      let live n = not (M.has_expired c n p.now) in
                      (* afterRead: which operations hand the node they found to the read buffer *)
                      let reads =
                        match p.name, oldn with
                        | ("GIP" | "GE" | "GET" | "CIA" | "CIP" | "SIA"), Some n when live n -> true
                        | "SEA", Some n when live n && c.M.with_exp ->
                            (match p.mop with Some (M.OSetExpiresAfter (_, d, _)) -> Z.sign (z_of_mz d) > 0 | _ -> false)
                        | _ -> false in
                      if reads then (match oldn with Some n -> ms := fst (M.m_read !ms n.M.nval) | None -> ());
                      (match oldn, newn with
                       | Some o, Some n when s_of o.M.nval <> s_of n.M.nval ->
                           ms := M.m_new !ms n.M.nval k n.M.nweight; ms := M.m_retire !ms o.M.nval;
                           ms := M.m_push !ms (M.TUpd (n.M.nval, o.M.nval))
                       | None, Some n ->
                           ms := M.m_new !ms n.M.nval k n.M.nweight; ms := M.m_push !ms (M.TAdd n.M.nval)
                       | Some o, None ->
                           ms := M.m_retire !ms o.M.nval; ms := M.m_push !ms (M.TDel o.M.nval)
                       | _ -> ())
                  | None -> ());
                 refresh_exps ()
               end;
               if !maint && is_auto then begin
                 (* deleteNodeFromMap retires the node it removes *)
                 (match p.key with
                  | Some k -> (match M.lookup k (M.cmap st_before) with Some o -> ms := M.m_retire !ms o.M.nval | None -> ())
                  | None -> ())
               end;
               List.iter (fun s -> Queue.push s spawns) r.M.r_spawn;
               if is_auto then begin
                 (match r.M.r_ret with
                  | M.RBadAuto ->
                      mismatch "seq" ln "automatic removal not possible in the model state: %s" (List.nth parts 0);
                      (* an entry vanished (or was reported) without justification *)
                      pf ln "AUTO" false "unjustified" "automatic removal %s has no matching entry / passed deadline / size bound" (List.nth parts 0);
                      propfail "C07" "AUTO-unjustified" ln "automatic removal %s is not justified" (List.nth parts 0)
                  | _ -> ())
               end else begin
                 let impl_ret = String.concat " " (tokens (let s = List.nth parts 1 in
                                   let t = tokens s in match t with "R" :: r -> String.concat " " r | _ -> s)) in
                 let impl_ev = parse_events (List.nth parts 2) in
                 let impl_cb = String.concat " " (tokens (List.nth parts 3)) in
                 let bulk = List.mem p.name bulk_names in
                 let norm es = if bulk then List.sort compare es else es in
                 (* --- correspondence with the concrete model *)
                 let m_ret = ret_str r.M.r_ret in
                 let is_run = p.name = "RUN" || p.name = "BRUN" in
                 let ret_ok = if is_run then ((m_ret = "P") = (impl_ret = "P")) else m_ret = impl_ret in
                 if not ret_ok then mismatch "seq" ln "%s result model=[%s] impl=[%s]" (List.nth parts 0) m_ret impl_ret;
                 let m_ev = ev_triples r.M.r_events in
                 if norm m_ev <> norm impl_ev then mismatch "seq" ln "%s events model=[%s] impl=[%s]" (List.nth parts 0) (ev_str m_ev) (ev_str impl_ev);
                 (match tokens impl_cb with
                  | "F" :: called :: found :: old :: _ ->
                      let m_called, m_found, m_old =
                        match List.filter_map (function M.CbRemap (f, o) -> Some (f, o) | _ -> None) r.M.r_cb with
                        | (f, o) :: _ ->
                            (match p.name with
                             | "CIA" -> ((if f then "0" else "1"), "0", "0")
                             | "CIP" -> ((if f then "1" else "0"), "1", (if f then s_of o else "0"))
                             | _ -> ("1", b01 f, s_of o))
                        | [] -> ("0", (if p.name = "CIP" then "1" else "0"), "0") in
                      if (called, found, old) <> (m_called, m_found, m_old) then
                        mismatch "seq" ln "%s callback model=(called %s found %s old %s) impl=(called %s found %s old %s)"
                          (List.nth parts 0) m_called m_found m_old called found old;
                      if called <> "0" && called <> "1" then
                        propfail "C02" "compute-fn-count" ln "compute callback invoked %s times" called
                  | _ ->
                      let m_cb = cb_str r.M.r_cb in
                      if m_cb <> impl_cb then mismatch "seq" ln "%s loader calls model=[%s] impl=[%s]" (List.nth parts 0) m_cb impl_cb);
                 (* --- property oracle: the abstract map *)
                 let s_ret = ret_str rs.M.r_ret in
                 let sret_ok = if is_run then ((s_ret = "P") = (impl_ret = "P")) else s_ret = impl_ret in
                 if not sret_ok then
                   pf ln p.name dead "result" "%s returned [%s]; the abstract map returns [%s]" (List.nth parts 0) impl_ret s_ret;
                 let vis es = List.filter (fun (_, _, c) -> c <> 4) es in
                 let s_ev = ev_triples rs.M.r_events in
                 if norm (vis s_ev) <> norm (vis impl_ev) then
                   pf ln p.name dead "events" "%s reported [%s]; the abstract map reports [%s]" (List.nth parts 0) (ev_str (vis impl_ev)) (ev_str (vis s_ev));
                 (match tokens impl_cb with
                  | "F" :: _ -> ()
                  | _ -> let s_cb = cb_str rs.M.r_cb in
                         if s_cb <> impl_cb then pf ln p.name dead "loader" "%s invoked loaders [%s]; the abstract map requires [%s]" (List.nth parts 0) impl_cb s_cb)
               end)
      | "S" :: rest ->
          let c = getcfg () in
          let cu = { toks = rest } in
          let now = nextz cu in
          let size = nexti cu in
          let n = nexti cu in
          count "snapshots";
          let msize = List.length (M.cmap !st) in
          if msize <> size then begin
            mismatch "seq" ln "EstimatedSize model=%d impl=%d" msize size;
            if size < msize then
              pf ln !last_name !last_dead "lost" "an entry disappeared without a deletion event (EstimatedSize %d, expected %d)" size msize
          end;
          let spst = M.purge_st c now !sp in
          for _ = 1 to n do
            let k = nextz cu in
            let present = next cu = "1" in
            let v = next cu in let w = next cu in let e = next cu in let r = next cu in
            let show = function
              | None -> "absent"
              | Some nd -> let en = M.node_to_entry c nd now in
                           Printf.sprintf "%s w=%s exp=%s refr=%s" (s_of en.M.en_val) (s_of en.M.en_weight) (s_of en.M.en_exp) (s_of en.M.en_refr) in
            let impl = if present then Printf.sprintf "%s w=%s exp=%s refr=%s" v w e r else "absent" in
            let m = show (M.get_node_quietly c !st k now) in
            if m <> impl then mismatch "seq" ln "key %s after %s: model=[%s] impl=[%s]" (s_of k) !last_name m impl;
            let a = show (M.get_node_quietly c spst k now) in
            if a <> impl then begin
              (* which aspect? *)
              let aspect =
                if (a = "absent") <> (impl = "absent") then "presence"
                else (match M.get_node_quietly c spst k now with
                      | Some nd when present && s_of nd.M.nval = v && s_of nd.M.nweight = w -> "deadline"
                      | _ -> "value") in
              pf ln !last_name !last_dead aspect "key %s after %s: cache holds [%s]; the abstract map holds [%s]" (s_of k) !last_name impl a
            end
          done;
          if next cu <> "T" then failwith "snapshot T";
          let h = next cu in let mi = next cu in let ls = next cu in let lf = next cu in let ev = next cu in let ew = next cu in
          let ms = M.cst !st in
          let mstr = Printf.sprintf "%s %s %s %s %s %s" (s_of ms.M.hits) (s_of ms.M.misses) (s_of ms.M.lsucc) (s_of ms.M.lfail) (s_of ms.M.evictions) (s_of ms.M.evweight) in
          let istr = Printf.sprintf "%s %s %s %s %s %s" h mi ls lf ev ew in
          if mstr <> istr then begin
            mismatch "seq" ln "stats after %s model=[%s] impl=[%s]" !last_name mstr istr;
            let ss = M.cst !sp in
            let sstr = Printf.sprintf "%s %s %s %s" (s_of ss.M.hits) (s_of ss.M.misses) (s_of ss.M.lsucc) (s_of ss.M.lfail) in
            let i4 = Printf.sprintf "%s %s %s %s" h mi ls lf in
            if sstr <> i4 || s_of ms.M.evictions <> ev || s_of ms.M.evweight <> ew then
              pf ln !last_name !last_dead "stats" "statistics after %s: cache [%s]; expected [%s]" !last_name istr mstr;
            (* resynchronise the counters so that one slip is reported once *)
            let fix (s : M.cstate) = { s with M.cst = { M.hits = z h; misses = z mi; lsucc = z ls; lfail = z lf; evictions = z ev; evweight = z ew } } in
            st := fix !st; sp := fix !sp
          end
      | "A" :: rest ->
          if !maint then begin
            count "audits_compared";
            let cu = { toks = rest } in
            let _ds = next cu in
            let wb = nexti cu in let rb = nexti cu in
            let m = !ms in
            if List.length (M.wbuf m) <> wb then mismatch "maint" ln "write buffer size model=%d impl=%d" (List.length (M.wbuf m)) wb;
            if List.length (M.rbuf m) <> rb then mismatch "maint" ln "read buffer length model=%d impl=%d" (List.length (M.rbuf m)) rb;
            let ids l = String.concat " " (List.map s_of l) in
            let read_list () = let n = nexti cu in String.concat " " (List.init n (fun _ -> next cu)) in
            let p = M.pol m in
            let rec sections () =
              match cu.toks with
              | [] -> ()
              | "|" :: _ -> ignore (next cu); sections ()
              | "W" :: _ -> ignore (next cu); let l = read_list () in
                  if l <> ids (M.qwin p) then mismatch "maint" ln "window deque model=[%s] impl=[%s]" (ids (M.qwin p)) l; sections ()
              | "P" :: _ -> ignore (next cu); let l = read_list () in
                  if l <> ids (M.qprob p) then mismatch "maint" ln "probation deque model=[%s] impl=[%s]" (ids (M.qprob p)) l; sections ()
              | "T" :: _ -> ignore (next cu); let l = read_list () in
                  if l <> ids (M.qprot p) then mismatch "maint" ln "protected deque model=[%s] impl=[%s]" (ids (M.qprot p)) l; sections ()
              | "C" :: _ -> ignore (next cu);
                  let impl = String.concat " " (List.init 8 (fun _ -> next cu)) in
                  let sk = M.sk p in
                  let model = Printf.sprintf "%s %s %s %s %s %s %s %d" (s_of (M.maxi p)) (s_of (M.wsize p)) (s_of (M.wmax p)) (s_of (M.wwsize p))
                                (s_of (M.pmax p)) (s_of (M.pwsize p)) (b01 (M.inited sk)) (List.length (M.tbl sk)) in
                  if impl <> model then mismatch "maint" ln "policy counters (max wsize wmax wwsize pmax pwsize sketchInit sketchLen) model=[%s] impl=[%s]" model impl;
                  sections ()
              | "H" :: _ -> ignore (next cu); let n = nexti cu in for _ = 1 to n do ignore (next cu) done; sections ()
              | "WH" :: _ -> ignore (next cu);
                  let t = next cu in
                  let w = M.whl m in
                  if s_of (M.wtime w) <> t then mismatch "maint" ln "wheel time model=%s impl=%s" (s_of (M.wtime w)) t;
                  let nb = nexti cu in
                  let impl = List.init nb (fun _ -> let i = nexti cu in let j = nexti cu in let n = nexti cu in
                                            (i, j, String.concat " " (List.init n (fun _ -> next cu)))) in
                  let model = List.concat (List.mapi (fun i lvl -> List.concat (List.mapi (fun j b ->
                                  if b = [] then [] else [ (i, j, String.concat " " (List.map (fun t -> s_of t.M.tid) b)) ]) lvl)) (M.wlevels w)) in
                  if impl <> model then
                    mismatch "maint" ln "timer wheel buckets model=[%s] impl=[%s]"
                      (String.concat "; " (List.map (fun (i, j, l) -> Printf.sprintf "%d/%d: %s" i j l) model))
                      (String.concat "; " (List.map (fun (i, j, l) -> Printf.sprintf "%d/%d: %s" i j l) impl));
                  sections ()
              | "N" :: _ -> ignore (next cu);
                  let n = nexti cu in
                  for _ = 1 to n do
                    let v = next cu in let stt = next cu in let q = next cu in
                    let nd = M.node_of p (z v) in
                    if s_of nd.M.pstate <> stt then mismatch "maint" ln "node %s state model=%s impl=%s" v (s_of nd.M.pstate) stt;
                    if c_bounded_of !cfg && s_of nd.M.pqueue <> q then mismatch "maint" ln "node %s queue tag model=%s impl=%s" v (s_of nd.M.pqueue) q
                  done; sections ()
              | t :: _ -> ignore (next cu); ignore t; sections () in
            sections ()
          end
      | _ -> mismatch "seq" ln "unparsed trace line");
  flush_expected 0
