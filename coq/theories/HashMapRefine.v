(* HashMapRefine.v — the sequential hash-table model (HashMap.v) is a finite map: lookups, updates,
   deletions, growth, shrinking and clearing against the list of bindings it iterates (C15). *)
From Otter Require Import Base HashMap HashMapFacts HashMapBytes.
From Coq Require Import ZifyBool ZifyNat Permutation.
Local Open Scope Z_scope.
Ltac Zify.zify_post_hook ::= idtac.

(* ------------------------------------------------------------------ *)
(* bindings held by a slot, a bucket, a chain, the table *)

Definition slot_entries (s : option (Z * Z)) : list (Z * Z) := match s with Some kv => [kv] | None => [] end.
Definition bk_entries (b : bk) : list (Z * Z) := flat_map slot_entries (bslots b).
Definition chain_entries (c : list bk) : list (Z * Z) := flat_map bk_entries c.

Lemma range_eq m : hmap_range m = flat_map chain_entries (htbl m).
Proof. reflexivity. Qed.

Lemma in_slots_nth (slots : list (option (Z * Z))) k v :
  In (k, v) (flat_map slot_entries slots) <-> exists i, (i < length slots)%nat /\ nth i slots None = Some (k, v).
Proof.
  induction slots as [|s rest IH]; cbn [flat_map length].
  - split; [intros []|intros (i & Hi & _); lia].
  - rewrite in_app_iff, IH. split.
    + intros [H|(i & Hi & Hn)].
      * destruct s as [kv|]; cbn [slot_entries] in H; [|destruct H].
        destruct H as [->|[]]. exists 0%nat. split; [lia|reflexivity].
      * exists (S i). split; [lia|exact Hn].
    + intros (i & Hi & Hn). destruct i as [|i].
      * left. cbn [nth] in Hn. subst s. left. reflexivity.
      * right. exists i. split; [lia|exact Hn].
Qed.

Lemma NoDup_app_inv {A} (l1 l2 : list A) :
  NoDup (l1 ++ l2) -> NoDup l1 /\ NoDup l2 /\ (forall x, In x l1 -> ~ In x l2).
Proof.
  induction l1 as [|a l1 IH]; cbn [app]; intros H.
  - split; [constructor|]. split; [assumption|]. intros x [].
  - inversion H as [|? ? Hn Hnd]; subst. destruct (IH Hnd) as (H1 & H2 & H3).
    split; [constructor; [rewrite in_app_iff in Hn; tauto|assumption]|]. split; [assumption|].
    intros x [->|Hx]; [rewrite in_app_iff in Hn; tauto|apply H3; assumption].
Qed.

Lemma NoDup_app_intro {A} (l1 l2 : list A) :
  NoDup l1 -> NoDup l2 -> (forall x, In x l1 -> ~ In x l2) -> NoDup (l1 ++ l2).
Proof.
  induction l1 as [|a l1 IH]; cbn [app]; intros H1 H2 H3; [assumption|].
  inversion H1 as [|? ? Hn Hnd]; subst. constructor.
  - rewrite in_app_iff. intros [H|H]; [contradiction|]. eapply H3; [left; reflexivity|exact H].
  - apply IH; [assumption|assumption|]. intros x Hx. apply H3. right. assumption.
Qed.

Lemma slots_unique (slots : list (option (Z * Z))) :
  NoDup (map fst (flat_map slot_entries slots)) ->
  forall i j k v v', nth i slots None = Some (k, v) -> nth j slots None = Some (k, v') -> i = j.
Proof.
  induction slots as [|s rest IH]; intros Hnd i j k v v' Hi Hj.
  - destruct i; discriminate Hi.
  - cbn [flat_map] in Hnd. rewrite map_app in Hnd.
    assert (Hrest : NoDup (map fst (flat_map slot_entries rest))) by (apply NoDup_app_inv in Hnd; tauto).
    assert (Hin : forall n w, nth n rest None = Some (k, w) -> In k (map fst (flat_map slot_entries rest))).
    { intros n w Hn. apply in_map_iff. exists (k, w). split; [reflexivity|].
      apply in_slots_nth. exists n. split; [|exact Hn].
      destruct (Nat.lt_ge_cases n (length rest)) as [Hlt|Hge]; [assumption|].
      rewrite nth_overflow in Hn by assumption. discriminate Hn. }
    destruct i as [|i], j as [|j]; cbn [nth] in Hi, Hj.
    + reflexivity.
    + subst s. cbn [slot_entries map app fst] in Hnd. inversion Hnd as [|? ? Hnot _]; subst.
      exfalso. apply Hnot. eapply Hin; eassumption.
    + subst s. cbn [slot_entries map app fst] in Hnd. inversion Hnd as [|? ? Hnot _]; subst.
      exfalso. apply Hnot. eapply Hin; eassumption.
    + f_equal. eapply IH; eassumption.
Qed.

(* replacing the i-th element under a flat_map *)
Lemma flat_map_upd_perm {A B} (f : A -> list B) (l : list A) i x d :
  (i < length l)%nat ->
  exists rest, Permutation (flat_map f l) (f (nth i l d) ++ rest) /\
               Permutation (flat_map f (upd i x l)) (f x ++ rest).
Proof.
  revert i. induction l as [|a l IH]; intros i Hi; cbn [length] in Hi; [lia|].
  destruct i as [|i].
  - exists (flat_map f l). cbn [upd nth flat_map]. split; apply Permutation_refl.
  - destruct (IH i ltac:(lia)) as (rest & P1 & P2). exists (f a ++ rest).
    cbn [upd nth flat_map]. split.
    + rewrite P1. apply Permutation_app_swap_app.
    + rewrite P2. apply Permutation_app_swap_app.
Qed.

(* ------------------------------------------------------------------ *)
(* well-formed buckets *)

Definition BW (hf : Z -> Z) (b : bk) : Prop :=
  length (bslots b) = 5%nat /\ 0 <= bmeta b < two64 /\
  forall i, 0 <= i < 5 ->
    match nth (Z.to_nat i) (bslots b) None with
    | Some (k, _) => byte (bmeta b) i = h2 (hf k)
    | None => byte (bmeta b) i = 128
    end.

Lemma BW_empty hf : BW hf empty_bk.
Proof.
  split; [reflexivity|]. split; [apply defaultMeta_range|].
  intros i Hi. cbn [empty_bk bslots bmeta].
  assert (nth (Z.to_nat i) [None; None; None; None; None] None = (None : option (Z * Z))) as ->.
  { destruct (Z.to_nat i) as [|[|[|[|[|n]]]]]; try reflexivity. destruct n; reflexivity. }
  apply byte_defaultMeta. lia.
Qed.

Lemma BW_set hf b i k v :
  BW hf b -> 0 <= i < 5 ->
  BW hf (mkBk (setByte (bmeta b) (h2 (hf k)) i) (upd (Z.to_nat i) (Some (k, v)) (bslots b))).
Proof.
  intros (Hl & Hr & Hb) Hi. pose proof (h2_range (hf k)) as Hh.
  split; [cbn [bslots]; rewrite upd_length; exact Hl|].
  split; [cbn [bmeta]; apply setByte_range; lia|].
  intros j Hj. cbn [bslots bmeta]. rewrite byte_setByte by lia.
  destruct (Z.eqb_spec j i) as [->|Hne].
  - rewrite nth_upd_same by lia. reflexivity.
  - rewrite nth_upd_other by lia. apply Hb. assumption.
Qed.

Lemma BW_del hf b i :
  BW hf b -> 0 <= i < 5 ->
  BW hf (mkBk (setByte (bmeta b) emptyMetaSlot i) (upd (Z.to_nat i) None (bslots b))).
Proof.
  intros (Hl & Hr & Hb) Hi.
  split; [cbn [bslots]; rewrite upd_length; exact Hl|].
  split; [cbn [bmeta]; apply setByte_range; unfold emptyMetaSlot; lia|].
  intros j Hj. cbn [bslots bmeta]. rewrite byte_setByte by (unfold emptyMetaSlot; lia).
  destruct (Z.eqb_spec j i) as [->|Hne].
  - rewrite nth_upd_same by lia. reflexivity.
  - rewrite nth_upd_other by lia. apply Hb. assumption.
Qed.

Lemma BW_setval hf b i k old v :
  BW hf b -> 0 <= i < 5 -> nth (Z.to_nat i) (bslots b) None = Some (k, old) ->
  BW hf (mkBk (bmeta b) (upd (Z.to_nat i) (Some (k, v)) (bslots b))).
Proof.
  intros (Hl & Hr & Hb) Hi Hn.
  split; [cbn [bslots]; rewrite upd_length; exact Hl|]. split; [exact Hr|].
  intros j Hj. cbn [bslots bmeta].
  destruct (Z.eq_dec j i) as [->|Hne].
  - rewrite nth_upd_same by lia. specialize (Hb i Hi). rewrite Hn in Hb. exact Hb.
  - rewrite nth_upd_other by lia. apply Hb. assumption.
Qed.

Lemma BW_new hf k v :
  BW hf (mkBk (setByte defaultMeta (h2 (hf k)) 0) [Some (k, v); None; None; None; None]).
Proof.
  pose proof (BW_set hf empty_bk 0 k v (BW_empty hf) ltac:(lia)) as H. exact H.
Qed.

(* ------------------------------------------------------------------ *)
(* the search inside a bucket *)

Fixpoint scan (slots : list (option (Z * Z))) (key : Z) (idxs : list Z) : option (Z * Z) :=
  match idxs with
  | [] => None
  | i :: rest => match nth (Z.to_nat i) slots None with
                 | Some (k, v) => if k =? key then Some (i, v) else scan slots key rest
                 | None => scan slots key rest
                 end
  end.

Definition marks (b : bk) (h2v : Z) : list Z :=
  marked_indices 8 (Z.land (markZeroBytes (Z.lxor (bmeta b) (broadcast h2v))) metaMask).

Lemma find_in_bucket_scan b h2v key : find_in_bucket b h2v key = scan (bslots b) key (marks b h2v).
Proof.
  unfold find_in_bucket, marks. generalize (marked_indices 8 (Z.land (markZeroBytes (Z.lxor (bmeta b) (broadcast h2v))) metaMask)).
  intros l. induction l as [|i rest IH]; [reflexivity|]. cbn [scan]. rewrite <- IH. reflexivity.
Qed.

Lemma scan_sound slots key L i v :
  scan slots key L = Some (i, v) -> In i L /\ nth (Z.to_nat i) slots None = Some (key, v).
Proof.
  induction L as [|j rest IH]; cbn [scan]; [discriminate|].
  destruct (nth (Z.to_nat j) slots None) as [[k w]|] eqn:E.
  - destruct (Z.eqb_spec k key) as [->|Hne].
    + intros H. injection H as <- <-. split; [left; reflexivity|exact E].
    + intros H. destruct (IH H) as [H1 H2]. split; [right; exact H1|exact H2].
  - intros H. destruct (IH H) as [H1 H2]. split; [right; exact H1|exact H2].
Qed.

Lemma scan_complete slots key L i0 v :
  In i0 L -> nth (Z.to_nat i0) slots None = Some (key, v) ->
  (forall i w, In i L -> nth (Z.to_nat i) slots None = Some (key, w) -> i = i0) ->
  scan slots key L = Some (i0, v).
Proof.
  induction L as [|j rest IH]; intros Hin Hn Hu; [destruct Hin|]. cbn [scan].
  destruct (nth (Z.to_nat j) slots None) as [[k w]|] eqn:E.
  - destruct (Z.eqb_spec k key) as [->|Hne].
    + assert (j = i0) by (eapply Hu; [left; reflexivity|exact E]). subst j.
      rewrite Hn in E. injection E as <-. reflexivity.
    + destruct Hin as [->|Hin]; [rewrite Hn in E; injection E as <- _; contradiction|].
      apply IH; [assumption|assumption|]. intros i w' Hi. apply Hu. right. assumption.
  - destruct Hin as [->|Hin]; [rewrite Hn in E; discriminate E|].
    apply IH; [assumption|assumption|]. intros i w' Hi. apply Hu. right. assumption.
Qed.

Lemma marks_range b h2v i : In i (marks b h2v) -> 0 <= i < 5.
Proof.
  unfold marks. rewrite markedw_mk5, marked_mk5. unfold sel.
  repeat match goal with |- context [if ?c then _ else _] => destruct c end;
    cbn [app In]; intuition lia.
Qed.

Lemma marks_contains hf b key i0 v :
  BW hf b -> 0 <= i0 < 5 -> nth (Z.to_nat i0) (bslots b) None = Some (key, v) ->
  In i0 (marks b (h2 (hf key))).
Proof.
  intros (Hl & Hr & Hb) Hi Hn.
  pose proof (h2_range (hf key)) as Hh.
  specialize (Hb i0 Hi). rewrite Hn in Hb.
  set (X := Z.lxor (bmeta b) (broadcast (h2 (hf key)))).
  assert (HX : 0 <= X < two64).
  { unfold X. change two64 with (2 ^ 64) in *. apply lxor_lt_pow2; [lia|assumption|apply broadcast_range]. }
  assert (Hz : (X / 2 ^ (8 * i0)) mod 256 = 0) by (apply byte_xor_match; [assumption|lia|assumption]).
  pose proof (mark_zero_byte X i0 HX ltac:(lia) Hz) as Hbit.
  unfold marks. fold X. rewrite markedw_mk5, marked_mk5.
  assert (C : i0 = 0 \/ i0 = 1 \/ i0 = 2 \/ i0 = 3 \/ i0 = 4) by lia.
  destruct C as [->|[->|[->|[->| ->]]]]; cbn [Z.mul Z.add Pos.mul Pos.add] in Hbit; rewrite Hbit; unfold sel;
    rewrite ?in_app_iff; cbn [In]; tauto.
Qed.

Lemma find_spec hf b key :
  BW hf b -> NoDup (map fst (bk_entries b)) ->
  match find_in_bucket b (h2 (hf key)) key with
  | Some (i, v) => 0 <= i < 5 /\ nth (Z.to_nat i) (bslots b) None = Some (key, v)
  | None => forall v, ~ In (key, v) (bk_entries b)
  end.
Proof.
  intros Hbw Hnd. rewrite find_in_bucket_scan.
  destruct (scan (bslots b) key (marks b (h2 (hf key)))) as [[i v]|] eqn:E.
  - destruct (scan_sound _ _ _ _ _ E) as [Hin Hn]. split; [eapply marks_range; eassumption|exact Hn].
  - intros v Hin. apply in_slots_nth in Hin. destruct Hin as (n & Hlt & Hn).
    destruct Hbw as (Hl & Hr & Hb). rewrite Hl in Hlt.
    assert (Hn' : nth (Z.to_nat (Z.of_nat n)) (bslots b) None = Some (key, v)) by (rewrite Nat2Z.id; exact Hn).
    assert (scan (bslots b) key (marks b (h2 (hf key))) = Some (Z.of_nat n, v)) as E2.
    { apply scan_complete.
      - eapply marks_contains; [split; [exact Hl|split; [exact Hr|exact Hb]]|lia|exact Hn'].
      - exact Hn'.
      - intros i w Hi Hw. pose proof (marks_range _ _ _ Hi).
        assert (Z.to_nat i = n) by (eapply (slots_unique _ Hnd); eassumption). lia. }
    rewrite E in E2. discriminate E2.
Qed.

(* ------------------------------------------------------------------ *)
(* chains *)

Fixpoint chain_get (c : list bk) (h2v key : Z) : option Z :=
  match c with
  | [] => None
  | b :: c' => match find_in_bucket b h2v key with
               | Some (_, v) => Some v
               | None => chain_get c' h2v key
               end
  end.

Lemma hmap_get_chain hashf m key :
  hmap_get hashf m key =
  chain_get (nth (bucket_index m (hashf (hgen m) key)) (htbl m) []) (h2 (hashf (hgen m) key)) key.
Proof.
  unfold hmap_get. generalize (nth (bucket_index m (hashf (hgen m) key)) (htbl m) []).
  intros c. induction c as [|b c IH]; [reflexivity|]. cbn [chain_get]. rewrite <- IH. reflexivity.
Qed.

Lemma chain_entries_cons b c : chain_entries (b :: c) = bk_entries b ++ chain_entries c.
Proof. reflexivity. Qed.

Lemma nodup_keys_cons b c :
  NoDup (map fst (chain_entries (b :: c))) ->
  NoDup (map fst (bk_entries b)) /\ NoDup (map fst (chain_entries c)) /\
  (forall k v w, In (k, v) (bk_entries b) -> ~ In (k, w) (chain_entries c)).
Proof.
  rewrite chain_entries_cons, map_app. intros H. apply NoDup_app_inv in H. destruct H as (H1 & H2 & H3).
  split; [assumption|]. split; [assumption|].
  intros k v w Hb Hc. apply (H3 k).
  - apply in_map_iff. exists (k, v). split; [reflexivity|assumption].
  - apply in_map_iff. exists (k, w). split; [reflexivity|assumption].
Qed.

Lemma chain_get_spec hf c key :
  Forall (BW hf) c -> NoDup (map fst (chain_entries c)) ->
  match chain_get c (h2 (hf key)) key with
  | Some v => In (key, v) (chain_entries c)
  | None => forall v, ~ In (key, v) (chain_entries c)
  end.
Proof.
  induction c as [|b c IH]; intros Hbw Hnd; cbn [chain_get].
  - intros v [].
  - inversion Hbw as [|? ? Hb Hc]; subst.
    destruct (nodup_keys_cons b c Hnd) as (N1 & N2 & N3).
    pose proof (find_spec hf b key Hb N1) as Hf.
    destruct (find_in_bucket b (h2 (hf key)) key) as [[i v]|].
    + destruct Hf as [Hi Hn]. rewrite chain_entries_cons. apply in_or_app. left.
      apply in_slots_nth. exists (Z.to_nat i). split; [|exact Hn].
      destruct Hb as (Hl & _). rewrite Hl. lia.
    + specialize (IH Hc N2). destruct (chain_get c (h2 (hf key)) key) as [v|].
      * rewrite chain_entries_cons. apply in_or_app. right. exact IH.
      * intros v. rewrite chain_entries_cons, in_app_iff. intros [H|H]; [eapply Hf; exact H|eapply IH; exact H].
Qed.

(* the bucket-level effect of replacing slot i *)
Lemma bk_entries_upd b i x :
  (i < length (bslots b))%nat ->
  exists rest, Permutation (bk_entries b) (slot_entries (nth i (bslots b) None) ++ rest) /\
               forall meta, Permutation (bk_entries (mkBk meta (upd i x (bslots b)))) (slot_entries x ++ rest).
Proof.
  intros Hi. destruct (flat_map_upd_perm slot_entries (bslots b) i x None Hi) as (rest & P1 & P2).
  exists rest. split; [exact P1|]. intros meta. exact P2.
Qed.

Definition apply_res (r : cres) (key old : Z) (rest : list (Z * Z)) : list (Z * Z) :=
  match r with CKeep => (key, old) :: rest | CSet v => (key, v) :: rest | CDel => rest end.

Lemma compute_chain_spec hf key f : forall c e,
  Forall (BW hf) c -> NoDup (map fst (chain_entries c)) ->
  match compute_chain c (h2 (hf key)) key f e with
  | Some (c', d, sh, o) =>
      exists old rest, o = Some old /\ Permutation (chain_entries c) ((key, old) :: rest) /\
        Permutation (chain_entries c') (apply_res (f (Some old)) key old rest) /\
        d = (match f (Some old) with CDel => -1 | _ => 0 end) /\ Forall (BW hf) c'
  | None => forall v, ~ In (key, v) (chain_entries c)
  end.
Proof.
  induction c as [|b c IH]; intros e Hbw Hnd; cbn [compute_chain].
  - intros v [].
  - inversion Hbw as [|? ? Hb Hc]; subst.
    destruct (nodup_keys_cons b c Hnd) as (N1 & N2 & N3).
    pose proof (find_spec hf b key Hb N1) as Hf.
    destruct (find_in_bucket b (h2 (hf key)) key) as [[i old]|].
    + destruct Hf as [Hi Hn].
      assert (Hlt : (Z.to_nat i < length (bslots b))%nat) by (destruct Hb as (Hl & _); rewrite Hl; lia).
      destruct (f (Some old)) as [|v|] eqn:Ef.
      * exists old. destruct (bk_entries_upd b (Z.to_nat i) None Hlt) as (rest & P1 & _).
        rewrite Hn in P1. cbn [slot_entries app] in P1.
        exists (rest ++ chain_entries c). split; [reflexivity|]. rewrite Ef. cbn [apply_res].
        rewrite chain_entries_cons. split; [rewrite P1; reflexivity|]. split; [rewrite P1; reflexivity|].
        split; [reflexivity|assumption].
      * exists old. destruct (bk_entries_upd b (Z.to_nat i) (Some (key, v)) Hlt) as (rest & P1 & P2).
        rewrite Hn in P1. cbn [slot_entries app] in P1, P2.
        exists (rest ++ chain_entries c). split; [reflexivity|]. rewrite Ef. cbn [apply_res].
        rewrite !chain_entries_cons. split; [rewrite P1; reflexivity|]. split; [rewrite (P2 (bmeta b)); reflexivity|].
        split; [reflexivity|]. constructor; [eapply BW_setval; eassumption|assumption].
      * exists old. destruct (bk_entries_upd b (Z.to_nat i) None Hlt) as (rest & P1 & P2).
        rewrite Hn in P1. cbn [slot_entries app] in P1, P2.
        exists (rest ++ chain_entries c). split; [reflexivity|]. rewrite Ef. cbn [apply_res].
        rewrite !chain_entries_cons. split; [rewrite P1; reflexivity|].
        split; [rewrite (P2 (setByte (bmeta b) emptyMetaSlot i)); reflexivity|].
        split; [reflexivity|]. constructor; [apply BW_del; assumption|assumption].
    + specialize (IH (e || negb (Z.land (bmeta b) (Z.land defaultMeta metaMask) =? 0)) Hc N2).
      destruct (compute_chain c (h2 (hf key)) key f _) as [[[[c'' d] sh] o]|].
      * destruct IH as (old & rest & Ho & P1 & P2 & Hd & Hbw').
        exists old, (bk_entries b ++ rest). split; [assumption|]. rewrite !chain_entries_cons.
        split; [rewrite P1; symmetry; apply Permutation_middle|].
        split; [|split; [assumption|constructor; assumption]].
        rewrite P2. destruct (f (Some old)); cbn [apply_res]; try reflexivity; symmetry; apply Permutation_middle.
      * intros v. rewrite chain_entries_cons, in_app_iff. intros [H|H]; [eapply Hf; exact H|eapply IH; exact H].
Qed.

(* ------------------------------------------------------------------ *)
(* insertion into a chain *)

(* the first marked "empty" byte of a well-formed bucket is a free slot *)
Lemma empty_slot_free hf b :
  BW hf b ->
  let emptyw := Z.land (bmeta b) (Z.land defaultMeta metaMask) in
  (emptyw =? 0) = false ->
  let i := firstMarkedByteIndex emptyw in
  0 <= i < 5 /\ nth (Z.to_nat i) (bslots b) None = None.
Proof.
  intros (Hl & Hr & Hb) emptyw Hne i. unfold emptyw in *. unfold i. clear i emptyw.
  rewrite emptyw_mk5 in *. rewrite first_mk5. rewrite mk5_zero in Hne.
  assert (Hslot : forall j, 0 <= j < 5 -> Z.testbit (bmeta b) (8 * j + 7) = true ->
                  nth (Z.to_nat j) (bslots b) None = None).
  { intros j Hj Hbit. specialize (Hb j Hj). destruct (nth (Z.to_nat j) (bslots b) None) as [[k v]|]; [|reflexivity].
    rewrite top_bit_byte in Hbit by lia. rewrite Hb in Hbit. rewrite top_bit_small in Hbit by apply h2_range.
    discriminate Hbit. }
  destruct (Z.testbit (bmeta b) 7) eqn:E0; [split; [lia|apply (Hslot 0); [lia|exact E0]]|].
  destruct (Z.testbit (bmeta b) 15) eqn:E1; [split; [lia|apply (Hslot 1); [lia|exact E1]]|].
  destruct (Z.testbit (bmeta b) 23) eqn:E2; [split; [lia|apply (Hslot 2); [lia|exact E2]]|].
  destruct (Z.testbit (bmeta b) 31) eqn:E3; [split; [lia|apply (Hslot 3); [lia|exact E3]]|].
  destruct (Z.testbit (bmeta b) 39) eqn:E4; [split; [lia|apply (Hslot 4); [lia|exact E4]]|].
  discriminate Hne.
Qed.

Lemma insert_first_empty_shape c h2v kv kv' :
  insert_first_empty c h2v kv = None -> insert_first_empty c h2v kv' = None.
Proof.
  induction c as [|b c IH]; cbn [insert_first_empty]; [reflexivity|].
  destruct (Z.land (bmeta b) (Z.land defaultMeta metaMask) =? 0); [|discriminate].
  destruct (insert_first_empty c h2v kv); [discriminate|]. intros _. rewrite IH; reflexivity.
Qed.

Lemma insert_first_empty_spec hf k v : forall c c',
  Forall (BW hf) c -> insert_first_empty c (h2 (hf k)) (k, v) = Some c' ->
  Permutation (chain_entries c') ((k, v) :: chain_entries c) /\ Forall (BW hf) c'.
Proof.
  induction c as [|b c IH]; intros c' Hbw; cbn [insert_first_empty]; [discriminate|].
  inversion Hbw as [|? ? Hb Hc]; subst.
  destruct (Z.land (bmeta b) (Z.land defaultMeta metaMask) =? 0) eqn:E.
  - destruct (insert_first_empty c (h2 (hf k)) (k, v)) as [c''|] eqn:E2; [|discriminate].
    intros H. injection H as <-. destruct (IH c'' Hc eq_refl) as [P Hbw'].
    split; [|constructor; assumption]. rewrite !chain_entries_cons. rewrite P. symmetry. apply Permutation_middle.
  - intros H. injection H as <-. change 551911719040 with (Z.land defaultMeta metaMask).
    destruct (empty_slot_free hf b Hb E) as [Hi Hn].
    set (i := firstMarkedByteIndex (Z.land (bmeta b) (Z.land defaultMeta metaMask))) in *.
    assert (Hlt : (Z.to_nat i < length (bslots b))%nat) by (destruct Hb as (Hl & _); rewrite Hl; lia).
    destruct (bk_entries_upd b (Z.to_nat i) (Some (k, v)) Hlt) as (rest & P1 & P2).
    rewrite Hn in P1. cbn [slot_entries app] in P1, P2.
    split; [|constructor; [apply BW_set; assumption|assumption]].
    rewrite !chain_entries_cons. rewrite (P2 _), P1. reflexivity.
Qed.

Lemma first_nil_spec (s : list (option (Z * Z))) : forall j i,
  first_nil s j = Some i -> j <= i < j + Z.of_nat (length s) /\ nth (Z.to_nat (i - j)) s None = None.
Proof.
  induction s as [|x s IH]; intros j i; cbn [first_nil]; [discriminate|].
  destruct x as [kv|].
  - intros H. destruct (IH _ _ H) as [H1 H2]. cbn [length]. split; [lia|].
    replace (Z.to_nat (i - j)) with (S (Z.to_nat (i - (j + 1)))) by lia. exact H2.
  - intros H. injection H as <-. cbn [length]. split; [lia|]. replace (Z.to_nat (j - j)) with 0%nat by lia. reflexivity.
Qed.

Lemma append_to_chain_spec hf k v : forall c,
  Forall (BW hf) c ->
  Permutation (chain_entries (append_to_chain c (h2 (hf k)) (k, v))) ((k, v) :: chain_entries c) /\
  Forall (BW hf) (append_to_chain c (h2 (hf k)) (k, v)).
Proof.
  induction c as [|b c IH]; intros Hbw; cbn [append_to_chain].
  - split; [reflexivity|]. constructor; [apply BW_new|constructor].
  - inversion Hbw as [|? ? Hb Hc]; subst.
    destruct (first_nil (bslots b) 0) as [i|] eqn:E.
    + destruct (first_nil_spec _ _ _ E) as [Hi Hn]. replace (i - 0) with i in Hn by lia.
      assert (Hl5 : length (bslots b) = 5%nat) by (destruct Hb as (Hl & _); exact Hl).
      assert (Hlt : (Z.to_nat i < length (bslots b))%nat) by lia.
      destruct (bk_entries_upd b (Z.to_nat i) (Some (k, v)) Hlt) as (rest & P1 & P2).
      rewrite Hn in P1. cbn [slot_entries app] in P1, P2.
      split; [|constructor; [apply BW_set; [assumption|lia]|assumption]].
      rewrite !chain_entries_cons. rewrite (P2 _), P1. reflexivity.
    + destruct (IH Hc) as [P Hbw']. split; [|constructor; assumption].
      rewrite !chain_entries_cons. rewrite P. symmetry. apply Permutation_middle.
Qed.

Lemma chain_entries_app c1 c2 : chain_entries (c1 ++ c2) = chain_entries c1 ++ chain_entries c2.
Proof. unfold chain_entries. apply flat_map_app. Qed.

(* ------------------------------------------------------------------ *)
(* the table *)

Definition idx_of (n : Z) (hash : Z) : nat := Z.to_nat (Z.land (n - 1) (h1 hash)).

Lemma land_le_l a b : 0 <= a -> 0 <= Z.land a b <= a.
Proof.
  intros Ha. split; [apply Z.land_nonneg; left; assumption|].
  assert (E : a - Z.land a b = Z.ldiff a (Z.land a b)).
  { apply Z.sub_nocarry_ldiff. apply Z.bits_inj'. intros n Hn.
    rewrite Z.ldiff_spec, Z.land_spec, Z.bits_0. destruct (Z.testbit a n), (Z.testbit b n); reflexivity. }
  assert (0 <= Z.ldiff a (Z.land a b)) by (apply Z.ldiff_nonneg; left; assumption). lia.
Qed.

Lemma idx_of_lt n hash : 1 <= n -> (idx_of n hash < Z.to_nat n)%nat.
Proof. intros Hn. unfold idx_of. pose proof (land_le_l (n - 1) (h1 hash) ltac:(lia)). lia. Qed.

Definition keys (l : list (Z * Z)) : list Z := map fst l.
Definition trange (tbl : list (list bk)) : list (Z * Z) := flat_map chain_entries tbl.

Definition TOK (hf : Z -> Z) (tbl : list (list bk)) : Prop :=
  (0 < length tbl)%nat /\
  Forall (Forall (BW hf)) tbl /\
  (forall ci k v, (ci < length tbl)%nat -> In (k, v) (chain_entries (nth ci tbl [])) ->
                  idx_of (Z.of_nat (length tbl)) (hf k) = ci) /\
  NoDup (keys (trange tbl)).

Lemma in_trange tbl k v :
  In (k, v) (trange tbl) <-> exists ci, (ci < length tbl)%nat /\ In (k, v) (chain_entries (nth ci tbl [])).
Proof.
  unfold trange. rewrite in_flat_map. split.
  - intros (c & Hc & Hin). destruct (In_nth _ _ [] Hc) as (ci & Hci & E). exists ci. rewrite E. tauto.
  - intros (ci & Hci & Hin). exists (nth ci tbl []). split; [apply nth_In; assumption|assumption].
Qed.

Lemma TOK_lookup hf tbl k v :
  TOK hf tbl ->
  (In (k, v) (trange tbl) <-> In (k, v) (chain_entries (nth (idx_of (Z.of_nat (length tbl)) (hf k)) tbl []))).
Proof.
  intros (Hlen & Hbw & Hpl & Hnd). rewrite in_trange. split.
  - intros (ci & Hci & Hin). rewrite (Hpl ci k v Hci Hin). exact Hin.
  - intros Hin. exists (idx_of (Z.of_nat (length tbl)) (hf k)). split; [|exact Hin].
    pose proof (idx_of_lt (Z.of_nat (length tbl)) (hf k) ltac:(lia)). lia.
Qed.

Lemma chain_nodup hf tbl ci : TOK hf tbl -> (ci < length tbl)%nat -> NoDup (keys (chain_entries (nth ci tbl []))).
Proof.
  intros (Hlen & Hbw & Hpl & Hnd) Hci.
  destruct (flat_map_upd_perm chain_entries tbl ci [] [] Hci) as (rest & P1 & _).
  unfold trange in Hnd. unfold keys in *. rewrite P1 in Hnd. rewrite map_app in Hnd.
  apply NoDup_app_inv in Hnd. tauto.
Qed.

Lemma Forall_upd {A} (P : A -> Prop) i x (l : list A) : Forall P l -> P x -> Forall P (upd i x l).
Proof.
  revert i. induction l as [|a l IH]; intros i Hl Hx; [destruct i; constructor|].
  inversion Hl; subst. destruct i; cbn [upd]; constructor; auto.
Qed.

(* replacing chain ci by a chain holding E' instead of E *)
Lemma table_update hf tbl ci c' E E' :
  TOK hf tbl -> (ci < length tbl)%nat ->
  Permutation (chain_entries (nth ci tbl [])) E -> Permutation (chain_entries c') E' ->
  Forall (BW hf) c' ->
  (forall k v, In (k, v) E' -> idx_of (Z.of_nat (length tbl)) (hf k) = ci) ->
  (forall R, Permutation (trange tbl) (E ++ R) -> NoDup (keys (E' ++ R))) ->
  TOK hf (upd ci c' tbl) /\
  exists R, Permutation (trange tbl) (E ++ R) /\ Permutation (trange (upd ci c' tbl)) (E' ++ R).
Proof.
  intros (Hlen & Hbw & Hpl & Hnd) Hci PE PE' Hbw' Hpl' Hnd'.
  destruct (flat_map_upd_perm chain_entries tbl ci c' [] Hci) as (R & P1 & P2).
  assert (Q1 : Permutation (trange tbl) (E ++ R)) by (unfold trange; rewrite P1, PE; reflexivity).
  assert (Q2 : Permutation (trange (upd ci c' tbl)) (E' ++ R)) by (unfold trange; rewrite P2, PE'; reflexivity).
  split; [|exists R; split; assumption].
  split; [rewrite upd_length; assumption|].
  split; [apply Forall_upd; assumption|].
  split.
  - intros cj k v Hcj Hin. rewrite upd_length in *.
    destruct (Nat.eq_dec cj ci) as [->|Hne].
    + rewrite nth_upd_same in Hin by assumption. apply (Hpl' k v).
      eapply Permutation_in; [exact PE'|exact Hin].
    + rewrite nth_upd_other in Hin by lia. eapply Hpl; eassumption.
  - unfold keys in *. rewrite Q2. apply Hnd'. exact Q1.
Qed.

(* the empty table *)
Lemma nth_repeat_lt {A} (x d : A) k : forall i, (i < k)%nat -> nth i (repeat x k) d = x.
Proof. induction k as [|k IH]; intros i Hi; [lia|]. destruct i; cbn [repeat nth]; [reflexivity|apply IH; lia]. Qed.

Lemma new_table_nth n ci : (ci < Z.to_nat n)%nat -> nth ci (new_table n) [] = [empty_bk].
Proof. intros H. unfold new_table. apply nth_repeat_lt. assumption. Qed.

Lemma trange_new_table n : trange (new_table n) = [].
Proof.
  unfold new_table, trange. induction (Z.to_nat n) as [|k IH]; [reflexivity|].
  cbn [repeat flat_map]. rewrite IH. reflexivity.
Qed.

Lemma TOK_new_table hf n : 1 <= n -> TOK hf (new_table n).
Proof.
  intros Hn. unfold TOK. rewrite trange_new_table.
  assert (Hl : length (new_table n) = Z.to_nat n) by (unfold new_table; apply repeat_length).
  rewrite Hl. split; [lia|]. split.
  - unfold new_table. apply Forall_forall. intros c Hc. apply repeat_spec in Hc. subst c.
    constructor; [apply BW_empty|constructor].
  - split; [|constructor]. intros ci k v Hci Hin. rewrite new_table_nth in Hin by assumption. destruct Hin.
Qed.

(* ------------------------------------------------------------------ *)
(* resize: every binding of the old table is re-inserted into a fresh one *)

Definition put (hf : Z -> Z) (n : Z) (dest : list (list bk)) (kv : Z * Z) : list (list bk) :=
  let hash := hf (fst kv) in
  let bidx := Z.to_nat (Z.land (n - 1) (h1 hash)) in
  upd bidx (append_to_chain (nth bidx dest []) (h2 hash) kv) dest.

Lemma copy_all_fold hashf gen' n old :
  copy_all hashf gen' n old = fold_left (put (hashf gen') n) (trange old) (new_table n).
Proof.
  unfold copy_all. generalize (new_table n). unfold trange.
  induction old as [|chain old IH]; intros dest; [reflexivity|].
  cbn [fold_left flat_map]. rewrite fold_left_app. rewrite <- IH. f_equal.
  clear IH. revert dest. induction chain as [|b chain IHc]; intros dest; [reflexivity|].
  cbn [fold_left chain_entries flat_map]. fold (chain_entries chain). rewrite fold_left_app. rewrite <- IHc. f_equal.
  clear IHc. unfold bk_entries. generalize (bslots b). intros slots. revert dest.
  induction slots as [|s slots IHs]; intros dest; [reflexivity|].
  cbn [fold_left flat_map]. rewrite fold_left_app. rewrite <- IHs. f_equal.
  destruct s as [[k v]|]; reflexivity.
Qed.

Lemma keys_perm (l l' : list (Z * Z)) : Permutation l l' -> Permutation (keys l) (keys l').
Proof. apply Permutation_map. Qed.

Lemma put_spec hf n dest k v :
  TOK hf dest -> Z.of_nat (length dest) = n -> ~ In k (keys (trange dest)) ->
  TOK hf (put hf n dest (k, v)) /\ Permutation (trange (put hf n dest (k, v))) ((k, v) :: trange dest) /\
  length (put hf n dest (k, v)) = length dest.
Proof.
  intros Htok <- Hnew. pose proof Htok as (Hlen & Hbw & Hpl & Hnd).
  set (n := Z.of_nat (length dest)).
  unfold put. cbn [fst]. fold (idx_of n (hf k)). set (ci := idx_of n (hf k)).
  assert (Hci : (ci < length dest)%nat).
  { pose proof (idx_of_lt n (hf k) ltac:(lia)). unfold ci. lia. }
  assert (Hc : Forall (BW hf) (nth ci dest [])).
  { rewrite Forall_forall in Hbw. apply Hbw. apply nth_In. assumption. }
  destruct (append_to_chain_spec hf k v _ Hc) as [P Hbw'].
  destruct (table_update hf dest ci _ (chain_entries (nth ci dest [])) ((k, v) :: chain_entries (nth ci dest []))
              Htok Hci (Permutation_refl _) P Hbw') as (Htok' & R & Q1 & Q2).
  - intros k' v' [E|Hin]; [injection E as <- <-; reflexivity|].
    eapply Hpl; eassumption.
  - intros R Q. cbn [app keys map fst]. constructor.
    + intros Hin. apply Hnew. eapply Permutation_in; [symmetry; apply keys_perm; exact Q|exact Hin].
    + unfold keys in *. rewrite <- Q. exact Hnd.
  - split; [assumption|]. split; [|apply upd_length].
    rewrite Q2, Q1. reflexivity.
Qed.

Lemma copy_fold_spec hf n : forall L dest,
  TOK hf dest -> Z.of_nat (length dest) = n -> NoDup (keys L) ->
  (forall k, In k (keys L) -> ~ In k (keys (trange dest))) ->
  TOK hf (fold_left (put hf n) L dest) /\
  Permutation (trange (fold_left (put hf n) L dest)) (L ++ trange dest) /\
  length (fold_left (put hf n) L dest) = length dest.
Proof.
  induction L as [|[k v] L IH]; intros dest Htok Hn Hnd Hdis; cbn [fold_left].
  - split; [assumption|]. split; reflexivity.
  - cbn [keys map fst] in Hnd. inversion Hnd as [|? ? Hk HndL]; subst.
    destruct (put_spec hf (Z.of_nat (length dest)) dest k v Htok eq_refl) as (Htok1 & P1 & Hl1).
    { apply Hdis. left. reflexivity. }
    destruct (IH (put hf (Z.of_nat (length dest)) dest (k, v)) Htok1 ltac:(lia) HndL) as (Htok2 & P2 & Hl2).
    { intros k' Hk' Hin. apply (Permutation_in _ (keys_perm _ _ P1)) in Hin. cbn [keys map fst] in Hin.
      destruct Hin as [->|Hin]; [contradiction|]. eapply Hdis; [right; exact Hk'|exact Hin]. }
    split; [assumption|]. split; [|lia].
    rewrite P2, P1. cbn [app]. symmetry. apply Permutation_middle.
Qed.

Lemma copy_all_spec hashf gen' n old :
  1 <= n -> NoDup (keys (trange old)) ->
  TOK (hashf gen') (copy_all hashf gen' n old) /\
  Permutation (trange (copy_all hashf gen' n old)) (trange old) /\
  length (copy_all hashf gen' n old) = Z.to_nat n.
Proof.
  intros Hn Hnd. rewrite copy_all_fold.
  assert (Hl : length (new_table n) = Z.to_nat n) by (unfold new_table; apply repeat_length).
  destruct (copy_fold_spec (hashf gen') n (trange old) (new_table n) (TOK_new_table _ n Hn) ltac:(lia) Hnd)
    as (H1 & H2 & H3).
  - intros k _. rewrite trange_new_table. intros [].
  - split; [assumption|]. split; [|lia]. rewrite H2, trange_new_table, app_nil_r. reflexivity.
Qed.

(* ------------------------------------------------------------------ *)
(* the map invariant *)

Definition HInv (hashf : Z -> Z -> Z) (m : hmap) : Prop :=
  TOK (hashf (hgen m)) (htbl m) /\
  hsize m = Z.of_nat (length (hmap_range m)) /\
  1 <= minlen m /\ exists j, 0 <= j /\ htlen m = minlen m * 2 ^ j.

Lemma HInv_new hashf n : 1 <= n -> HInv hashf (hmap_new n) /\ hmap_range (hmap_new n) = [].
Proof.
  intros Hn. unfold HInv, hmap_new. cbn [htbl hsize hgen minlen]. rewrite range_eq. cbn [htbl].
  fold (trange (new_table n)). rewrite trange_new_table.
  split; [|reflexivity]. split; [apply TOK_new_table; assumption|]. split; [reflexivity|]. split; [assumption|].
  exists 0. split; [lia|]. unfold htlen. cbn [htbl]. unfold new_table. rewrite repeat_length. lia.
Qed.

Lemma HInv_copy hashf m n' j' :
  HInv hashf m -> 0 <= j' -> n' = minlen m * 2 ^ j' ->
  let m' := mkHmap (copy_all hashf (hgen m + 1) n' (htbl m)) (hsize m) (hgen m + 1) (minlen m) in
  HInv hashf m' /\ Permutation (hmap_range m') (hmap_range m).
Proof.
  intros (Htok & Hsz & Hmin & j & Hj & Hlen) Hj' Hn' m'.
  pose proof Htok as (Hlen0 & _ & _ & Hnd).
  assert (Hp : 0 < 2 ^ j') by (apply Z.pow_pos_nonneg; lia).
  destruct (copy_all_spec hashf (hgen m + 1) n' (htbl m) ltac:(nia) Hnd) as (T & P & L).
  unfold HInv, m'. rewrite !range_eq in *. cbn [htbl hsize hgen minlen].
  split; [|exact P]. split; [exact T|].
  split; [rewrite Hsz; f_equal; apply Permutation_length; symmetry; exact P|].
  split; [assumption|]. exists j'. split; [assumption|]. unfold htlen. cbn [htbl]. rewrite L. nia.
Qed.

Lemma resize_spec hashf m h :
  HInv hashf m ->
  HInv hashf (hmap_resize hashf m h) /\
  Permutation (hmap_range (hmap_resize hashf m h)) (match h with Clear => [] | _ => hmap_range m end).
Proof.
  intros HI. pose proof HI as (Htok & Hsz & Hmin & j & Hj & Hlen).
  assert (Hp : 0 < 2 ^ j) by (apply Z.pow_pos_nonneg; lia).
  unfold hmap_resize. destruct h.
  - (* grow *)
    apply (HInv_copy hashf m (2 * htlen m) (j + 1) HI); [lia|].
    rewrite Hlen. rewrite Z.pow_add_r by lia. change (2 ^ 1) with 2. lia.
  - (* shrink *)
    destruct ((minlen m =? htlen m) || (hsize m >? htlen m * 5 / 128)) eqn:E.
    + split; [assumption|reflexivity].
    + apply orb_false_iff in E. destruct E as [E1 _].
      assert (Hj1 : 1 <= j).
      { destruct (Z.eq_dec j 0) as [->|]; [|lia]. change (2 ^ 0) with 1 in Hlen. lia. }
      apply (HInv_copy hashf m (htlen m / 2) (j - 1) HI); [lia|].
      rewrite Hlen. replace j with (j - 1 + 1) at 1 by lia. rewrite Z.pow_add_r by lia. change (2 ^ 1) with 2.
      rewrite Z.mul_assoc. apply Z.div_mul. lia.
  - (* clear *)
    unfold HInv. rewrite !range_eq. cbn [htbl hsize hgen minlen]. fold (trange (new_table (minlen m))). rewrite trange_new_table.
    split; [|reflexivity]. split; [apply TOK_new_table; assumption|]. split; [reflexivity|]. split; [assumption|].
    exists 0. split; [lia|]. unfold htlen. cbn [htbl]. unfold new_table. rewrite repeat_length. lia.
Qed.

(* ------------------------------------------------------------------ *)
(* Get *)

Lemma bucket_index_idx m hash : bucket_index m hash = idx_of (htlen m) hash.
Proof. reflexivity. Qed.

Lemma chain_bw hf tbl ci : TOK hf tbl -> (ci < length tbl)%nat -> Forall (BW hf) (nth ci tbl []).
Proof. intros (_ & Hbw & _) Hci. rewrite Forall_forall in Hbw. apply Hbw. apply nth_In. assumption. Qed.

Theorem get_spec hashf m key :
  HInv hashf m ->
  match hmap_get hashf m key with
  | Some v => In (key, v) (hmap_range m)
  | None => forall v, ~ In (key, v) (hmap_range m)
  end.
Proof.
  intros (Htok & _). rewrite hmap_get_chain, bucket_index_idx. rewrite range_eq. fold (trange (htbl m)).
  set (hf := hashf (hgen m)) in *. set (ci := idx_of (htlen m) (hf key)).
  assert (Hci : (ci < length (htbl m))%nat).
  { pose proof Htok as (Hlen & _). pose proof (idx_of_lt (htlen m) (hf key) ltac:(unfold htlen; lia)). unfold ci, htlen in *. lia. }
  pose proof (chain_get_spec hf (nth ci (htbl m) []) key (chain_bw _ _ _ Htok Hci) (chain_nodup _ _ _ Htok Hci)) as H.
  destruct (chain_get (nth ci (htbl m) []) (h2 (hf key)) key) as [v|].
  - apply (TOK_lookup hf (htbl m) key v Htok). exact H.
  - intros v Hin. apply (TOK_lookup hf (htbl m) key v Htok) in Hin. eapply H. exact Hin.
Qed.

(* ------------------------------------------------------------------ *)
(* Compute *)

Definition bind (key : Z) (o : option Z) (rest : list (Z * Z)) : list (Z * Z) :=
  match o with Some v => (key, v) :: rest | None => rest end.
Definition res_of (f : option Z -> cres) (o : option Z) : option Z :=
  match f o with CKeep => o | CSet v => Some v | CDel => None end.

Definition once_post (hashf : Z -> Z -> Z) (m : hmap) (key : Z) (f : option Z -> cres)
    (r : hmap * bool * option (option Z)) : Prop :=
  let '(m', retry, seen) := r in
  HInv hashf m' /\
  if retry then
    Permutation (hmap_range m') (hmap_range m) /\ htlen m' = 2 * htlen m /\ hsize m' = hsize m /\
    hsize m > htlen m * 5 * 3 / 4
  else
    exists old rest, seen = Some old /\ Permutation (hmap_range m) (bind key old rest) /\
      Permutation (hmap_range m') (bind key (res_of f old) rest) /\ ~ In key (keys rest).

Lemma HInv_size_nonneg hashf m : HInv hashf m -> 0 <= hsize m.
Proof. intros (_ & -> & _). lia. Qed.

Lemma compute_once_spec hashf m key f :
  HInv hashf m -> once_post hashf m key f (hmap_compute_once hashf m key f).
Proof.
  intros HI. pose proof HI as (Htok & Hsz & Hmin & j & Hj & Hlen).
  pose proof Htok as (Hlen0 & Hbwt & Hpl & Hnd).
  unfold hmap_compute_once. rewrite bucket_index_idx.
  set (hf := hashf (hgen m)) in *. set (ci := idx_of (htlen m) (hf key)).
  assert (Hci : (ci < length (htbl m))%nat).
  { pose proof (idx_of_lt (htlen m) (hf key) ltac:(unfold htlen; lia)). unfold ci, htlen in *. lia. }
  set (chain := nth ci (htbl m) []).
  assert (Hcbw : Forall (BW hf) chain) by (apply chain_bw; assumption).
  assert (Hcnd : NoDup (keys (chain_entries chain))) by (apply chain_nodup with (hf := hf); assumption).
  assert (Hrange : hmap_range m = trange (htbl m)) by apply range_eq.
  pose proof (compute_chain_spec hf key f chain false Hcbw Hcnd) as Hcc.
  destruct (compute_chain chain (h2 (hf key)) key f false) as [[[[chain' d] sh] o]|].
  - (* present *)
    destruct Hcc as (old & rest0 & -> & P1 & P2 & Hd & Hbw').
    destruct (table_update hf (htbl m) ci chain' ((key, old) :: rest0) (apply_res (f (Some old)) key old rest0)
                Htok Hci P1 P2 Hbw') as (Htok' & R & Q1 & Q2).
    { intros k v Hin. assert (k = key \/ In (k, v) rest0) as [->|Hr].
      { destruct (f (Some old)); cbn [apply_res] in Hin.
        - destruct Hin as [E|Hin]; [injection E as <- _; left; reflexivity|right; assumption].
        - destruct Hin as [E|Hin]; [injection E as <- _; left; reflexivity|right; assumption].
        - right. assumption. }
      - reflexivity.
      - apply (Hpl ci k v Hci). eapply Permutation_in; [symmetry; exact P1|]. right. assumption. }
    { intros R Q. assert (N : NoDup (keys (((key, old) :: rest0) ++ R))).
      { unfold keys. rewrite <- Q. exact Hnd. }
      cbn [app keys map fst] in N. inversion N as [|? ? Hk Hn]; subst.
      destruct (f (Some old)); cbn [apply_res app keys map fst]; [constructor; assumption|constructor; assumption|assumption]. }
    set (m1 := mkHmap (upd ci chain' (htbl m)) (Z.max 0 (hsize m + d)) (hgen m) (minlen m)).
    assert (N : NoDup (key :: keys (rest0 ++ R))).
    { assert (N : NoDup (keys (((key, old) :: rest0) ++ R))) by (unfold keys; rewrite <- Q1; exact Hnd). exact N. }
    inversion N as [|? ? Hk Hn]; subst.
    assert (HI1 : HInv hashf m1 /\ Permutation (hmap_range m1) (bind key (res_of f (Some old)) (rest0 ++ R))).
    { assert (Pr : Permutation (hmap_range m1) (bind key (res_of f (Some old)) (rest0 ++ R))).
      { rewrite range_eq. unfold m1. cbn [htbl]. fold (trange (upd ci chain' (htbl m))). rewrite Q2.
        unfold res_of. destruct (f (Some old)); cbn [apply_res bind app]; reflexivity. }
      split; [|exact Pr]. split; [exact Htok'|]. split.
      - rewrite (Permutation_length Pr). unfold m1. cbn [hsize]. rewrite Hsz, Hrange.
        rewrite (Permutation_length Q1). unfold res_of.
        destruct (f (Some old)); cbn [bind app length]; lia.
      - split; [assumption|]. exists j. split; [assumption|]. unfold htlen, m1 in *. cbn [htbl minlen]. rewrite upd_length. assumption. }
    destruct HI1 as [HI1 Pr1].
    assert (Hpost : forall m', HInv hashf m' -> Permutation (hmap_range m') (hmap_range m1) ->
                    once_post hashf m key f (m', false, Some (Some old))).
    { intros m' HI' P'. split; [exact HI'|]. exists (Some old), (rest0 ++ R).
      split; [reflexivity|]. split; [rewrite Hrange, Q1; reflexivity|]. split; [rewrite P', Pr1; reflexivity|assumption]. }
    destruct sh.
    + destruct (resize_spec hashf m1 Shrink HI1) as [HI2 P2']. apply Hpost; assumption.
    + apply Hpost; [assumption|reflexivity].
  - (* absent *)
    assert (Habs : ~ In key (keys (hmap_range m))).
    { rewrite Hrange. intros Hin. apply in_map_iff in Hin. destruct Hin as ([k v] & E & Hin). cbn [fst] in E. subst k.
      apply (TOK_lookup hf (htbl m) key v Htok) in Hin. eapply Hcc. exact Hin. }
    assert (Hsame : (forall v, f None <> CSet v) -> once_post hashf m key f (m, false, Some None)).
    { intros Hn. split; [exact HI|]. exists None, (hmap_range m). split; [reflexivity|].
      split; [reflexivity|]. split; [|exact Habs].
      unfold res_of. destruct (f None) as [|v|]; [reflexivity|exfalso; apply (Hn v); reflexivity|reflexivity]. }
    assert (Hins : forall chain' v, f None = CSet v -> Forall (BW hf) chain' ->
                   Permutation (chain_entries chain') ((key, v) :: chain_entries chain) ->
                   once_post hashf m key f (mkHmap (upd ci chain' (htbl m)) (hsize m + 1) (hgen m) (minlen m), false, Some None)).
    { intros chain' v Ef Hbw' P'.
      destruct (table_update hf (htbl m) ci chain' (chain_entries chain) ((key, v) :: chain_entries chain)
                  Htok Hci (Permutation_refl _) P' Hbw') as (Htok' & R & Q1 & Q2).
      { intros k w [E|Hin]; [injection E as <- _; reflexivity|]. eapply Hpl; eassumption. }
      { intros R Q. cbn [app keys map fst]. constructor.
        - intros Hin. apply Habs. rewrite Hrange. eapply Permutation_in; [symmetry; apply keys_perm; exact Q|exact Hin].
        - unfold keys in *. rewrite <- Q. exact Hnd. }
      assert (Pr : Permutation (hmap_range (mkHmap (upd ci chain' (htbl m)) (hsize m + 1) (hgen m) (minlen m)))
                               ((key, v) :: hmap_range m)).
      { rewrite range_eq. cbn [htbl]. fold (trange (upd ci chain' (htbl m))). rewrite Q2, Hrange, Q1. reflexivity. }
      split.
      - split; [exact Htok'|]. split; [rewrite (Permutation_length Pr); cbn [hsize length]; lia|].
        split; [assumption|]. exists j. split; [assumption|]. unfold htlen in *. cbn [htbl]. rewrite upd_length. assumption.
      - exists None, (hmap_range m). split; [reflexivity|]. split; [reflexivity|].
        split; [unfold res_of; rewrite Ef; exact Pr|exact Habs]. }
    destruct (insert_first_empty chain (h2 (hf key)) (key, 0)) as [c0|] eqn:E0.
    + destruct (f None) as [|v|] eqn:Ef.
      * apply Hsame. intros v. discriminate.
      * destruct (insert_first_empty chain (h2 (hf key)) (key, v)) as [chain'|] eqn:E1.
        -- destruct (insert_first_empty_spec hf key v chain chain' Hcbw E1) as [P' Hbw']. apply (Hins chain' v eq_refl Hbw' P').
        -- rewrite (insert_first_empty_shape _ _ _ (key, 0) E1) in E0. discriminate E0.
      * apply Hsame. intros v. discriminate.
    + destruct (hsize m >? htlen m * 5 * 3 / 4) eqn:Eg.
      * destruct (resize_spec hashf m Grow HI) as [HI2 P2]. split; [exact HI2|].
        split; [exact P2|]. unfold hmap_resize, htlen. cbn [htbl hsize].
        destruct (copy_all_spec hashf (hgen m + 1) (2 * htlen m) (htbl m)) as (_ & _ & L); [unfold htlen; lia|exact Hnd|].
        fold (htlen m). rewrite L. split; [unfold htlen; lia|]. split; [reflexivity|lia].
      * destruct (f None) as [|v|] eqn:Ef.
        -- apply Hsame. intros v. discriminate.
        -- apply (Hins (chain ++ [mkBk (setByte defaultMeta (h2 (hf key)) 0) [Some (key, v); None; None; None; None]]) v eq_refl).
           ++ apply Forall_app. split; [assumption|]. constructor; [apply BW_new|constructor].
           ++ rewrite chain_entries_app. cbn [chain_entries flat_map bk_entries bslots slot_entries app].
              symmetry. apply Permutation_cons_append.
        -- apply Hsame. intros v. discriminate.
Qed.

Definition final_post (hashf : Z -> Z -> Z) (m : hmap) (key : Z) (f : option Z -> cres)
    (r : hmap * option (option Z)) : Prop :=
  let '(m', seen) := r in
  HInv hashf m' /\
  exists old rest, seen = Some old /\ Permutation (hmap_range m) (bind key old rest) /\
    Permutation (hmap_range m') (bind key (res_of f old) rest) /\ ~ In key (keys rest).

Lemma htlen_pos hashf m : HInv hashf m -> 1 <= htlen m.
Proof. intros ((Hl & _) & _). unfold htlen. lia. Qed.

Lemma compute_fuel_spec hashf key f : forall fuel m,
  HInv hashf m -> hsize m <= 3 * htlen m * 2 ^ Z.of_nat fuel ->
  final_post hashf m key f (hmap_compute_fuel (S fuel) hashf m key f).
Proof.
  induction fuel as [|fuel IH]; intros m HI Hb; cbn [hmap_compute_fuel];
    pose proof (compute_once_spec hashf m key f HI) as Hs;
    destruct (hmap_compute_once hashf m key f) as [[m1 retry] seen]; destruct Hs as [HI1 Hs]; destruct retry.
  - destruct Hs as (_ & _ & _ & Hgt). exfalso. pose proof (htlen_pos _ _ HI).
    change (2 ^ Z.of_nat 0) with 1 in Hb.
    assert (3 * htlen m <= htlen m * 5 * 3 / 4) by (apply Z.div_le_lower_bound; lia). lia.
  - split; [exact HI1|exact Hs].
  - destruct Hs as (P & Hl & Hsz & Hgt).
    assert (Hb1 : hsize m1 <= 3 * htlen m1 * 2 ^ Z.of_nat fuel).
    { rewrite Hl, Hsz. rewrite Nat2Z.inj_succ, Z.pow_succ_r in Hb by lia. lia. }
    specialize (IH m1 HI1 Hb1). cbn [hmap_compute_fuel] in IH.
    destruct (hmap_compute_once hashf m1 key f) as [[m2 retry2] seen2].
    destruct retry2.
    + destruct (hmap_compute_fuel fuel hashf m2 key f) as [m3 seen3].
      destruct IH as (HI3 & old & rest & Hseen & Q1 & Q2 & Hk). split; [exact HI3|].
      exists old, rest. split; [assumption|]. split; [rewrite <- P; exact Q1|]. split; assumption.
    + destruct IH as (HI3 & old & rest & Hseen & Q1 & Q2 & Hk). split; [exact HI3|].
      exists old, rest. split; [assumption|]. split; [rewrite <- P; exact Q1|]. split; assumption.
  - split; [exact HI1|exact Hs].
Qed.

Theorem compute_spec hashf m key f :
  HInv hashf m -> hsize m <= 2 ^ 63 -> final_post hashf m key f (hmap_compute hashf m key f).
Proof.
  intros HI Hb. unfold hmap_compute. change 64%nat with (S 63).
  apply compute_fuel_spec; [assumption|]. pose proof (htlen_pos _ _ HI).
  change (Z.of_nat 63) with 63. assert (0 < 2 ^ 63) by (apply Z.pow_pos_nonneg; lia). nia.
Qed.

(* ------------------------------------------------------------------ *)
(* the table against a finite map (a function from keys to optional values), over operation lists *)

Inductive hop := HGet (k : Z) | HCompute (k : Z) (f : option Z -> cres) | HClear.
Inductive hout := OGet (r : option Z) | OSeen (r : option Z) | OFuel | OUnit.

Definition mstep (hashf : Z -> Z -> Z) (m : hmap) (o : hop) : hmap * hout :=
  match o with
  | HGet k => (m, OGet (hmap_get hashf m k))
  | HCompute k f => let '(m', seen) := hmap_compute hashf m k f in
                    (m', match seen with Some r => OSeen r | None => OFuel end)
  | HClear => (hmap_clear hashf m, OUnit)
  end.

Definition smap := Z -> option Z.
Definition sstep (s : smap) (o : hop) : smap * hout :=
  match o with
  | HGet k => (s, OGet (s k))
  | HCompute k f => ((fun k' => if k' =? k then res_of f (s k) else s k'), OSeen (s k))
  | HClear => ((fun _ => None), OUnit)
  end.

Fixpoint mrun hashf (m : hmap) (ops : list hop) : list hout :=
  match ops with [] => [] | o :: t => let '(m', out) := mstep hashf m o in out :: mrun hashf m' t end.
Fixpoint srun (s : smap) (ops : list hop) : list hout :=
  match ops with [] => [] | o :: t => let '(s', out) := sstep s o in out :: srun s' t end.
Definition mfinal hashf (m : hmap) (ops : list hop) : hmap := fold_left (fun m o => fst (mstep hashf m o)) ops m.
Definition sfinal (s : smap) (ops : list hop) : smap := fold_left (fun s o => fst (sstep s o)) ops s.

Definition Rel (hashf : Z -> Z -> Z) (m : hmap) (s : smap) : Prop :=
  HInv hashf m /\ forall k v, In (k, v) (hmap_range m) <-> s k = Some v.

Lemma rel_get hashf m s k : Rel hashf m s -> hmap_get hashf m k = s k.
Proof.
  intros [HI Hs]. pose proof (get_spec hashf m k HI) as H.
  destruct (hmap_get hashf m k) as [v|].
  - symmetry. apply Hs. exact H.
  - destruct (s k) as [v|] eqn:E; [|reflexivity]. exfalso. apply (H v). apply Hs. exact E.
Qed.

Lemma in_bind key o rest k v :
  ~ In key (keys rest) ->
  (In (k, v) (bind key o rest) <-> (k = key /\ o = Some v) \/ (k <> key /\ In (k, v) rest)).
Proof.
  intros Hk. assert (Hr : forall w, In (key, w) rest -> False).
  { intros w Hin. apply Hk. apply in_map_iff. exists (key, w). split; [reflexivity|assumption]. }
  destruct o as [w|]; cbn [bind In].
  - split.
    + intros [E|Hin]; [injection E as <- <-; left; split; reflexivity|].
      right. split; [intros ->; eapply Hr; exact Hin|exact Hin].
    + intros [[-> E]|[_ Hin]]; [injection E as <-; left; reflexivity|right; exact Hin].
  - split.
    + intros Hin. right. split; [intros ->; eapply Hr; exact Hin|exact Hin].
    + intros [[_ E]|[_ Hin]]; [discriminate E|exact Hin].
Qed.

Lemma Permutation_in_iff {A} (l l' : list A) x : Permutation l l' -> (In x l <-> In x l').
Proof. intros P. split; apply Permutation_in; [exact P|symmetry; exact P]. Qed.

Lemma rel_compute hashf m s key f :
  Rel hashf m s -> hsize m <= 2 ^ 63 ->
  snd (hmap_compute hashf m key f) = Some (s key) /\
  Rel hashf (fst (hmap_compute hashf m key f)) (fst (sstep s (HCompute key f))) /\
  hsize (fst (hmap_compute hashf m key f)) <= hsize m + 1.
Proof.
  intros [HI Hs] Hb. pose proof (compute_spec hashf m key f HI Hb) as H.
  destruct (hmap_compute hashf m key f) as [m' seen]. cbn [fst snd].
  destruct H as (HI' & old & rest & -> & P1 & P2 & Hk).
  assert (Hold : old = s key).
  { destruct old as [o|].
    - symmetry. apply Hs. eapply Permutation_in; [symmetry; exact P1|]. left. reflexivity.
    - destruct (s key) as [v|] eqn:E; [|reflexivity]. exfalso. apply Hs in E.
      apply (Permutation_in _ P1) in E. cbn [bind] in E. apply Hk. apply in_map_iff. exists (key, v). tauto. }
  split; [rewrite Hold; reflexivity|]. split.
  - split; [exact HI'|]. intros k v. cbn [sstep fst].
    rewrite (Permutation_in_iff _ _ _ P2). rewrite in_bind by assumption.
    destruct (Z.eqb_spec k key) as [->|Hne].
    + rewrite Hold. split; [intros [[_ E]|[C _]]; [exact E|contradiction]|intros E; left; split; [reflexivity|exact E]].
    + rewrite <- Hs. rewrite (Permutation_in_iff _ _ _ P1). rewrite in_bind by assumption.
      split; [intros [[C _]|[_ Hin]]; [contradiction|right; split; assumption]|intros [[C _]|[_ Hin]]; [contradiction|right; split; assumption]].
  - destruct HI as (_ & Hsz & _). destruct HI' as (_ & Hsz' & _). rewrite Hsz, Hsz'.
    rewrite (Permutation_length P1), (Permutation_length P2).
    destruct old, (res_of f _); cbn [bind length]; lia.
Qed.

Lemma rel_clear hashf m s : Rel hashf m s -> Rel hashf (hmap_clear hashf m) (fun _ => None) /\ hsize (hmap_clear hashf m) = 0.
Proof.
  intros [HI _]. unfold hmap_clear. destruct (resize_spec hashf m Clear HI) as [HI' P].
  split; [|reflexivity]. split; [exact HI'|]. intros k v. symmetry in P. apply Permutation_nil in P. rewrite P. split; [intros []|discriminate].
Qed.

Lemma rel_new hashf n : 1 <= n -> Rel hashf (hmap_new n) (fun _ => None) /\ hsize (hmap_new n) = 0.
Proof.
  intros Hn. destruct (HInv_new hashf n Hn) as [HI E]. split; [|reflexivity].
  split; [exact HI|]. intros k v. rewrite E. split; [intros []|discriminate].
Qed.

Theorem run_refines hashf : forall ops m s B,
  Rel hashf m s -> hsize m <= B -> B + Z.of_nat (length ops) <= 2 ^ 63 ->
  mrun hashf m ops = srun s ops /\ Rel hashf (mfinal hashf m ops) (sfinal s ops).
Proof.
  induction ops as [|o t IH]; intros m s B HR Hb HB; [split; [reflexivity|exact HR]|].
  cbn [length] in HB. unfold mfinal, sfinal. cbn [mrun srun fold_left]. destruct o as [k|k f|].
  - cbn [mstep sstep fst]. rewrite (rel_get hashf m s k HR).
    destruct (IH m s B HR Hb ltac:(lia)) as [E R]. split; [rewrite E; reflexivity|exact R].
  - destruct (rel_compute hashf m s k f HR ltac:(lia)) as (Hseen & HR' & Hsz).
    cbn [mstep]. destruct (hmap_compute hashf m k f) as [m' seen]. cbn [fst snd] in *. subst seen.
    destruct (IH m' _ (B + 1) HR' ltac:(lia) ltac:(lia)) as [E R]. cbn [sstep fst] in *.
    split; [rewrite E; reflexivity|exact R].
  - destruct (rel_clear hashf m s HR) as [HR' Hsz]. cbn [mstep sstep fst].
    destruct (IH _ _ B HR' ltac:(pose proof (proj1 HR) as HI; apply HInv_size_nonneg in HI; lia) ltac:(lia)) as [E R].
    split; [rewrite E; reflexivity|exact R].
Qed.

(* what iteration (Range) sees in any state related to a finite map: every binding exactly once *)
Lemma rel_range hashf m s :
  Rel hashf m s ->
  NoDup (keys (hmap_range m)) /\ (forall k v, In (k, v) (hmap_range m) <-> s k = Some v) /\
  hsize m = Z.of_nat (length (hmap_range m)).
Proof.
  intros [((_ & _ & _ & Hnd) & Hsz & _) Hs]. rewrite range_eq. split; [exact Hnd|]. rewrite <- range_eq. split; assumption.
Qed.
