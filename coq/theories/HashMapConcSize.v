(* HashMapConcSize.v — the size counter of the hash table's concurrency protocol (HashMapConc.v): for
   every schedule, the current table's counter plus what the writers that have updated it still owe it
   equals the number of keys bound in it; the counter a resize computes while copying is the number of
   keys it has copied.  So once every call has returned, Size() is the number of keys. *)
From Coq Require Import List Arith Bool ZArith Lia.
Import ListNotations.
From Otter Require Import HashMapConc HashMapConcProofs.
Local Open Scope nat_scope.

Definition pending (t : hthread) : bool := pc_in (hpc_ t) [W5; Wadd].
Definition rd (t : hthread) : bool := pc_in (hpc_ t) [G0; G1; GDone; I0; I1; IDone].
Definition zsum (f : hthread -> Z) (l : list hthread) : Z := fold_right (fun t a => (f t + a)%Z) 0%Z l.
Definition b2z (b : bool) : Z := if b then 1%Z else 0%Z.

Lemma zsum_cons f h l : zsum f (h :: l) = (f h + zsum f l)%Z.
Proof. reflexivity. Qed.

Lemma zsum_upd f x : forall l i old, nth_error l i = Some old -> zsum f (upd_nth i x l) = (zsum f l - f old + f x)%Z.
Proof.
  induction l as [|h t IH]; intros i old H; [destruct i; discriminate H|].
  destruct i as [|i]; cbn [nth_error upd_nth] in *.
  - injection H as ->. rewrite !zsum_cons. lia.
  - rewrite !zsum_cons, (IH i old H). lia.
Qed.

Lemma zsum_ext f g l : (forall j t, nth_error l j = Some t -> f t = g t) -> zsum f l = zsum g l.
Proof.
  induction l as [|h t IH]; intros H; [reflexivity|]. rewrite !zsum_cons, (H 0 h eq_refl).
  f_equal. apply IH. intros j u Hj. apply (H (S j) u Hj).
Qed.

Lemma zsum_zero f l : (forall j t, nth_error l j = Some t -> f t = 0%Z) -> zsum f l = 0%Z.
Proof.
  induction l as [|h t IH]; intros H; [reflexivity|]. rewrite zsum_cons, (H 0 h eq_refl).
  rewrite IH; [reflexivity|]. intros j u Hj. apply (H (S j) u Hj).
Qed.

(* counting a predicate over a duplicate-free list when it changes at one key *)
Lemma count_upd (p p' : Z -> bool) k0 : forall l, NoDup l -> In k0 l -> (forall k, k <> k0 -> p' k = p k) ->
  Z.of_nat (length (filter p' l)) = (Z.of_nat (length (filter p l)) + b2z (p' k0) - b2z (p k0))%Z.
Proof.
  induction l as [|h t IH]; intros Hn Hin Hext; [destruct Hin|].
  inversion Hn as [|? ? Hnot Hn']; subst. cbn [filter].
  destruct (Z.eq_dec h k0) as [->|Hne].
  - assert (Ht : filter p' t = filter p t).
    { apply filter_ext_in. intros a Ha. apply Hext. intros ->. apply Hnot. exact Ha. }
    rewrite Ht. destruct (p' k0), (p k0); cbn [length b2z]; lia.
  - destruct Hin as [->|Hin]; [congruence|]. rewrite (Hext h Hne). specialize (IH Hn' Hin Hext).
    destruct (p h); cbn [length]; lia.
Qed.

Lemma count_ext (p p' : Z -> bool) l : (forall k, p' k = p k) -> filter p' l = filter p l.
Proof. intros H. induction l as [|h t IH]; [reflexivity|]. cbn [filter]. rewrite H, IH. reflexivity. Qed.

Lemma count_split (a b c : Z -> bool) : forall l, (forall k, a k && b k = false) ->
  length (filter (fun k => (a k || b k) && c k) l) = length (filter (fun k => a k && c k) l) + length (filter (fun k => b k && c k) l).
Proof.
  intros l Hd. induction l as [|h t IH]; [reflexivity|]. cbn [filter]. specialize (Hd h).
  destruct (a h), (b h), (c h); cbn [andb orb length] in *; try discriminate Hd; lia.
Qed.

Ltac thr H Hi := apply nth_upd_cases in H; [destruct H as [[-> ->]|[? H]]|exact Hi].

Section Size.
Variable hidx : nat -> Z -> nat.
Variable KU : list Z.
Hypothesis KU_nodup : NoDup KU.

Definition owed (s : hcstate) (t : hthread) : Z := if pending t && Nat.eqb (hsnap t) (hcur s) then hdelta t else 0%Z.
Definition nb (s : hcstate) (g : nat) : Z := Z.of_nat (length (filter (fun k => is_some (stores s g k)) KU)).
Definition copied_count (s : hcstate) (r : hthread) : Z :=
  Z.of_nat (length (filter (fun k => hcop r (bidx_of hidx s (hsnap r) k) && is_some (stores s (hsnap r) k)) KU)).

Record HSInv (s : hcstate) : Prop := {
  z_tk : forall j t, nth_error (hths s) j = Some t -> rd t = false -> In (hkey t) KU;
  z_snap : forall j t, nth_error (hths s) j = Some t -> pending t = true -> hsnap t < length (lens s);
  z_cur : (cnt s (hcur s) + zsum (owed s) (hths s))%Z = nb s (hcur s);
  z_rs : forall jr r, nth_error (hths s) jr = Some r -> pc_in (hpc_ r) [R1; R2] = true -> hncnt r = copied_count s r;
  z_keys : forall g k, stores s g k <> None -> In k KU
}.

Lemma hs_frame s s' i t t' :
  HSInv s -> nth_error (hths s) i = Some t ->
  lens s' = lens s -> stores s' = stores s -> hcur s' = hcur s -> cnt s' = cnt s -> hths s' = upd_nth i t' (hths s) ->
  hkey t' = hkey t -> rd t' = rd t -> owed s t' = owed s t ->
  (pending t' = true -> hsnap t' < length (lens s)) ->
  (pc_in (hpc_ t') [R1; R2] = true -> hncnt t' = copied_count s t') ->
  HSInv s'.
Proof.
  intros Z Hi El Es Ec En Et Hk Hrd Ho Hs Hr. pose proof (nth_error_lt _ _ _ Hi) as Hlt.
  assert (Eo : forall u, owed s' u = owed s u) by (intros u; unfold owed; rewrite Ec; reflexivity).
  assert (Ecc : forall u, copied_count s' u = copied_count s u).
  { intros u. unfold copied_count, bidx_of, len_of. rewrite El, Es. reflexivity. }
  constructor.
  - intros j u Hj Hu. rewrite Et in Hj. thr Hj Hlt; [rewrite Hk; apply (z_tk s Z i t Hi); rewrite <- Hrd; exact Hu|apply (z_tk s Z j u Hj Hu)].
  - intros j u Hj Hp. rewrite El. rewrite Et in Hj. thr Hj Hlt; [apply Hs; exact Hp|apply (z_snap s Z j u Hj Hp)].
  - rewrite En, Ec, Et. unfold nb. rewrite Es. rewrite (zsum_ext (owed s') (owed s)) by (intros; apply Eo).
    rewrite (zsum_upd (owed s) t' _ i t Hi), Ho. pose proof (z_cur s Z) as Hc. unfold nb in Hc. lia.
  - intros jr r Hjr Hp. rewrite Ecc. rewrite Et in Hjr. thr Hjr Hlt; [apply Hr; exact Hp|apply (z_rs s Z jr r Hjr Hp)].
  - rewrite Es. apply (z_keys s Z).
Qed.

Lemma delta_b2z old new : delta_of old new = (b2z (is_some new) - b2z (is_some old))%Z.
Proof. destruct old, new; reflexivity. Qed.

Lemma filter_false {A} (l : list A) : filter (fun _ => false) l = [].
Proof. induction l; [reflexivity|assumption]. Qed.

Ltac sframe s i t Z Hi Hp :=
  eapply (hs_frame s _ i t); [exact Z|exact Hi|reflexivity|reflexivity|reflexivity|reflexivity|reflexivity|reflexivity
    |unfold rd; cbn [set_pc hpc_]; rewrite Hp; reflexivity
    |unfold owed, pending; cbn [set_pc hpc_ hsnap hdelta]; rewrite Hp; reflexivity
    |unfold pending; cbn [set_pc hpc_]; try (intros; discriminate)
    |cbn [set_pc hpc_]; try (intros; discriminate)].

Lemma ret_pc_owed s t : pc_in (hpc_ t) [Rwait; R3] = true -> owed s (ret_pc t) = owed s t.
Proof.
  intros H. unfold owed, pending, ret_pc. cbn [hpc_ hsnap hdelta].
  destruct (hpc_ t); try discriminate H; destruct (hretry t); reflexivity.
Qed.

Lemma ret_pc_rd t : pc_in (hpc_ t) [Rwait; R3] = true -> rd (ret_pc t) = rd t.
Proof. intros H. unfold rd, ret_pc. cbn [hpc_]. destruct (hpc_ t); try discriminate H; destruct (hretry t); reflexivity. Qed.

Ltac sframe_ret s i t Z Hi Hp :=
  eapply (hs_frame s _ i t); [exact Z|exact Hi|reflexivity|reflexivity|reflexivity|reflexivity|reflexivity|reflexivity
    |apply ret_pc_rd; rewrite Hp; reflexivity
    |apply ret_pc_owed; rewrite Hp; reflexivity
    |unfold pending; intros Hq; exfalso; destruct (ret_pc_cases t) as [Erp|Erp]; rewrite Erp in Hq; discriminate Hq
    |intros Hq; exfalso; destruct (ret_pc_cases t) as [Erp|Erp]; rewrite Erp in Hq; discriminate Hq].

Lemma bidx_of_ext2 s' s g k : lens s' = lens s -> bidx_of hidx s' g k = bidx_of hidx s g k.
Proof. intros H. unfold bidx_of, len_of. rewrite H. reflexivity. Qed.

Theorem HSInv_step s i o : HCInv hidx s -> HSInv s -> HSInv (hstep hidx KU s i o).
Proof.
  intros I Z. destruct (nth_error (hths s) i) as [t|] eqn:Hi; [|unfold hstep; rewrite Hi; exact Z].
  pose proof (nth_error_lt _ _ _ Hi) as Hlt.
  destruct (hpc_ t) eqn:Hp; unfold hstep; rewrite Hi, Hp.
  - (* W0 *) sframe s i t Z Hi Hp.
  - (* W1 *) destruct (lk s (hsnap t) (hbi t)); [exact Z|sframe s i t Z Hi Hp].
  - (* W2 *) destruct (resizing s); sframe s i t Z Hi Hp.
  - (* Wwait *) destruct (resizing s); [exact Z|sframe s i t Z Hi Hp].
  - (* W3 *) destruct (Nat.eqb (hcur s) (hsnap t)); sframe s i t Z Hi Hp.
  - (* W4 *)
    destruct o as [|o]; [|sframe s i t Z Hi Hp].
    pose proof (iv_w4 hidx s I i t Hi Hp) as Hsn.
    assert (Hpw : pc_in (hpc_ t) [W1; W2; W3; W4; W5] = true) by (rewrite Hp; reflexivity).
    destruct (iv_bi hidx s I i t Hi Hpw) as [Hb Hsl].
    match goal with |- context [upd_nth i ?x _] => set (t5 := x) end.
    assert (Hkin : In (hkey t) KU) by (apply (z_tk s Z i t Hi); unfold rd; rewrite Hp; reflexivity).
    constructor; cbn [lens stores lk hcur resizing spec hist froz cnt hths].
    + intros j u Hj Hu. thr Hj Hlt; [exact Hkin|apply (z_tk s Z j u Hj Hu)].
    + intros j u Hj Hpu. thr Hj Hlt; [exact Hsl|apply (z_snap s Z j u Hj Hpu)].
    + set (old := stores s (hsnap t) (hkey t)). set (new := hfun t old).
      match goal with |- (_ + zsum ?f _)%Z = _ => rewrite (zsum_ext f (owed s)) by (intros; reflexivity) end.
      rewrite (zsum_upd (owed s) t5 _ i t Hi).
      assert (Ho : owed s t = 0%Z) by (unfold owed, pending; rewrite Hp; reflexivity).
      assert (Ho5 : owed s t5 = delta_of old new).
      { unfold owed, pending, t5, new, old. cbn [hpc_ hsnap hdelta pc_in existsb orb andb]. rewrite Hsn, Nat.eqb_refl. reflexivity. }
      rewrite Ho, Ho5, delta_b2z. pose proof (z_cur s Z) as Hc. unfold nb in *. cbn [stores].
      rewrite (count_upd (fun k => is_some (stores s (hcur s) k))
                         (fun k => is_some (upd_store (stores s) (hsnap t) (upd_fun (stores s (hsnap t)) (hkey t) new) (hcur s) k))
                         (hkey t) KU KU_nodup Hkin).
      * unfold upd_store. rewrite Hsn, Nat.eqb_refl. unfold upd_fun. rewrite Z.eqb_refl.
        unfold old. rewrite Hsn. lia.
      * intros k Hk. unfold upd_store. rewrite Hsn, Nat.eqb_refl. unfold upd_fun.
        destruct (Z.eqb_spec k (hkey t)); [contradiction|reflexivity].
    + intros jr r Hjr Hpr. thr Hjr Hlt; [discriminate Hpr|].
      rewrite (z_rs s Z jr r Hjr Hpr). unfold copied_count. f_equal. f_equal.
      destruct (iv_rs hidx s I jr r Hjr Hpr) as (Hrs & _).
      assert (Hnc : hcop r (hbi t) = false) by (apply (iv_adm hidx s I i t jr r Hi Hjr); [rewrite Hp; reflexivity|exact Hsn|exact Hpr]).
      apply filter_ext. intros k. cbn [stores]. unfold upd_store. rewrite Hrs, Hsn, Nat.eqb_refl. unfold upd_fun.
      match goal with |- context [bidx_of hidx ?s' _ _] =>
        lazymatch s' with mkHcs _ _ _ _ _ _ _ _ _ _ _ => rewrite (bidx_of_ext2 s' s) by reflexivity end end.
      destruct (Z.eqb_spec k (hkey t)) as [->|]; [|reflexivity].
      rewrite Hb, Hsn in Hnc. rewrite !Hnc. reflexivity.
    + intros g k. unfold upd_store. destruct (Nat.eqb g (hsnap t)) eqn:Eg; [|apply (z_keys s Z)].
      unfold upd_fun. destruct (Z.eqb_spec k (hkey t)) as [->|]; [intros _; exact Hkin|apply (z_keys s Z)].
  - (* W5 *)
    eapply (hs_frame s _ i t); [exact Z|exact Hi|reflexivity|reflexivity|reflexivity|reflexivity|reflexivity|reflexivity
      |unfold rd; cbn [set_pc hpc_]; rewrite Hp; reflexivity
      |unfold owed, pending; cbn [set_pc hpc_ hsnap hdelta]; rewrite Hp; reflexivity| |cbn [set_pc hpc_]; intros; discriminate].
    intros _. cbn [set_pc hsnap]. apply (z_snap s Z i t Hi). unfold pending. rewrite Hp. reflexivity.
  - (* Wadd *)
    assert (Hpd : pending t = true) by (unfold pending; rewrite Hp; reflexivity).
    constructor; cbn [lens stores lk hcur resizing spec hist froz cnt hths].
    + intros j u Hj Hu. thr Hj Hlt; [apply (z_tk s Z i t Hi); unfold rd; rewrite Hp; reflexivity|apply (z_tk s Z j u Hj Hu)].
    + intros j u Hj Hpu. thr Hj Hlt; [discriminate Hpu|apply (z_snap s Z j u Hj Hpu)].
    + match goal with |- (_ + zsum ?f _)%Z = _ => rewrite (zsum_ext f (owed s)) by (intros; reflexivity) end.
      rewrite (zsum_upd (owed s) (set_pc t W6) _ i t Hi).
      assert (Ho6 : owed s (set_pc t W6) = 0%Z) by reflexivity. rewrite Ho6.
      pose proof (z_cur s Z) as Hc. unfold nb in *. cbn [stores]. unfold owed at 2. rewrite Hpd. cbn [andb].
      rewrite (Nat.eqb_sym (hcur s) (hsnap t)). destruct (Nat.eqb (hsnap t) (hcur s)); lia.
    + intros jr r Hjr Hpr. thr Hjr Hlt; [discriminate Hpr|]. apply (z_rs s Z jr r Hjr Hpr).
    + apply (z_keys s Z).
  - (* W6 *) destruct o as [|o]; sframe s i t Z Hi Hp.
  - (* R0 *)
    destruct (resizing s); [sframe s i t Z Hi Hp|]. destruct o as [|o]; [cbv zeta|sframe s i t Z Hi Hp].
    eapply (hs_frame s _ i t); [exact Z|exact Hi|reflexivity|reflexivity|reflexivity|reflexivity|reflexivity|reflexivity
      |unfold rd; cbn [hpc_]; rewrite Hp; reflexivity
      |unfold owed, pending; cbn [hpc_ hsnap hdelta]; rewrite Hp; reflexivity|unfold pending; cbn [hpc_]; intros; discriminate|].
    intros _. cbn [hncnt]. unfold copied_count. cbn [hcop]. rewrite filter_false. reflexivity.
  - (* Rwait *) destruct (resizing s); [exact Z|sframe_ret s i t Z Hi Hp].
  - (* R1 *)
    assert (Hpr : pc_in (hpc_ t) [R1; R2] = true) by (rewrite Hp; reflexivity).
    pose proof (z_rs s Z i t Hi Hpr) as Hcnt.
    destruct (forallb (hcop t) (seq 0 (len_of s (hsnap t)))).
    + eapply (hs_frame s _ i t); [exact Z|exact Hi|reflexivity|reflexivity|reflexivity|reflexivity|reflexivity|reflexivity
        |unfold rd; cbn [set_pc hpc_]; rewrite Hp; reflexivity
        |unfold owed, pending; cbn [set_pc hpc_ hsnap hdelta]; rewrite Hp; reflexivity|unfold pending; cbn [set_pc hpc_]; intros; discriminate|].
      intros _. exact Hcnt.
    + destruct (Nat.ltb o (len_of s (hsnap t))); cbn [andb]; [|exact Z].
      destruct (hcop t o) eqn:Eco; cbn [negb andb]; [exact Z|].
      destruct (lk s (hsnap t) o); cbn [negb]; [exact Z|].
      eapply (hs_frame s _ i t); [exact Z|exact Hi|reflexivity|reflexivity|reflexivity|reflexivity|reflexivity|reflexivity
        |unfold rd; cbn [hpc_]; rewrite Hp; reflexivity
        |unfold owed, pending; cbn [hpc_ hsnap hdelta]; rewrite Hp; reflexivity|unfold pending; cbn [hpc_]; intros; discriminate|].
      intros _. cbn [hncnt]. rewrite Hcnt. unfold copied_count. cbn [hcop hsnap]. rewrite <- Nat2Z.inj_add. f_equal.
      rewrite <- (count_split (fun k => hcop t (bidx_of hidx s (hsnap t) k)) (fun k => Nat.eqb (bidx_of hidx s (hsnap t) k) o)
                              (fun k => is_some (stores s (hsnap t) k)) KU).
      * f_equal. apply filter_ext. intros k. destruct (Nat.eqb_spec (bidx_of hidx s (hsnap t) k) o) as [->|]; [rewrite Eco|rewrite orb_false_r]; reflexivity.
      * intros k. destruct (Nat.eqb_spec (bidx_of hidx s (hsnap t) k) o) as [->|]; [rewrite Eco; reflexivity|apply andb_false_r].
  - (* R2 *)
    assert (Hpr : pc_in (hpc_ t) [R1; R2] = true) by (rewrite Hp; reflexivity).
    destruct (iv_rs hidx s I i t Hi Hpr) as (Hsn & Hfull & _ & Hnt). specialize (Hfull Hp).
    assert (Hrt : resz t = true) by (unfold resz; rewrite Hp; reflexivity).
    constructor; cbn [lens stores lk hcur resizing spec hist froz cnt hths].
    + intros j u Hj Hu. thr Hj Hlt; [apply (z_tk s Z i t Hi); unfold rd; rewrite Hp; reflexivity|apply (z_tk s Z j u Hj Hu)].
    + intros j u Hj Hpu. rewrite app_length. cbn [length]. thr Hj Hlt; [discriminate Hpu|]. pose proof (z_snap s Z j u Hj Hpu). lia.
    + rewrite Nat.eqb_refl. rewrite zsum_zero.
      * rewrite (z_rs s Z i t Hi Hpr). unfold copied_count, nb. cbn [stores]. rewrite Z.add_0_r. f_equal. f_equal.
        apply filter_ext. intros k. unfold upd_store. rewrite Nat.eqb_refl, Hnt.
        pose proof (bidx_lt hidx s (hcur s) k (iv_len hidx s I)) as Hl. rewrite Hsn. rewrite (Hfull _ Hl). reflexivity.
      * intros j u Hj. thr Hj Hlt; [reflexivity|]. unfold owed. cbn [hcur].
        destruct (pending u) eqn:Epu; [|reflexivity]. pose proof (z_snap s Z j u Hj Epu) as Hl.
        destruct (Nat.eqb_spec (hsnap u) (length (lens s))); [lia|reflexivity].
    + intros jr r Hjr Hpr'. thr Hjr Hlt; [discriminate Hpr'|]. exfalso.
      assert (Hrr : resz r = true) by (unfold resz; destruct (hpc_ r); try discriminate Hpr'; reflexivity).
      pose proof (resz_one hidx s I jr r i t Hjr Hi Hrr Hrt). lia.
    + intros g k. unfold upd_store. destruct (Nat.eqb g (length (lens s))); [|apply (z_keys s Z)].
      rewrite Hnt. destruct (hcop t (bidx_of hidx s (hsnap t) k)); [apply (z_keys s Z)|intros Hc; contradiction].
  - (* R3 *) sframe_ret s i t Z Hi Hp.
  - (* HDone *) exact Z.
  - (* G0 *) sframe s i t Z Hi Hp.
  - (* G1 *) sframe s i t Z Hi Hp.
  - (* GDone *) exact Z.
  - (* I0 *) sframe s i t Z Hi Hp.
  - (* I1 *) destruct (Nat.ltb (hbi t) (len_of s (hsnap t))); [destruct (lk s (hsnap t) (hbi t)); [exact Z|]|]; sframe s i t Z Hi Hp.
  - (* IDone *) exact Z.
Qed.

Lemma HSInv_run sched : forall s, HCInv hidx s -> HSInv s -> HSInv (hrun hidx KU s sched).
Proof.
  induction sched as [|e sched IH]; intros s I Z; [exact Z|]. cbn [hrun fold_left].
  apply IH; [apply HCInv_step; exact I|apply HSInv_step; assumption].
Qed.

Definition writes_in (o : hop) : Prop := match o with HCompute k _ => In k KU | _ => True end.

Lemma HSInv_init n0 ops : Forall writes_in ops -> HSInv (hinit n0 ops).
Proof.
  intros Hk.
  assert (Hall : forall j t, nth_error (hths (hinit n0 ops)) j = Some t ->
                 pc_in (hpc_ t) [W0; G0; I0] = true /\ (rd t = false -> In (hkey t) KU)).
  { intros j t Hj. apply nth_error_In in Hj. cbn [hinit hths] in Hj. apply in_map_iff in Hj.
    destruct Hj as (op & <- & Hin). rewrite Forall_forall in Hk. specialize (Hk op Hin).
    destruct op as [k f|k|]; (split; [reflexivity|]); cbn; intros H; try discriminate H. exact Hk. }
  constructor.
  - intros j t Hj Hu. apply (Hall j t Hj). exact Hu.
  - intros j t Hj Hp. destruct (Hall j t Hj) as [E _]. unfold pending in Hp. destruct (hpc_ t); discriminate.
  - cbn [hinit cnt hcur hths]. rewrite zsum_zero.
    + unfold nb. cbn [hinit stores]. rewrite filter_false. reflexivity.
    + intros j t Hj. fold (hths (hinit n0 ops)) in Hj. destruct (Hall j t Hj) as [E _]. unfold owed, pending.
      destruct (hpc_ t); try discriminate E; reflexivity.
  - intros jr r Hjr Hp. destruct (Hall jr r Hjr) as [E _]. destruct (hpc_ r); discriminate.
  - intros g k H. cbn in H. contradiction.
Qed.

(* once every call has returned, the counter of the current table — what Size() reports — is the
   number of keys bound in it *)
Theorem conc_size_exact n0 ops sched : 1 <= n0 -> Forall writes_in ops ->
  let s := hrun hidx KU (hinit n0 ops) sched in
  (forall j t, nth_error (hths s) j = Some t -> pending t = false) ->
  cnt s (hcur s) = nb s (hcur s).
Proof.
  intros Hn Hk s Hq. pose proof (HSInv_run sched _ (HCInv_init hidx n0 ops Hn) (HSInv_init n0 ops Hk)) as Z. fold s in Z.
  pose proof (z_cur s Z) as Hc. rewrite zsum_zero in Hc; [lia|].
  intros j t Hj. unfold owed. rewrite (Hq j t Hj). reflexivity.
Qed.

(* ... and [nb] really is the number of keys: no key outside the run's key set is ever bound *)
Theorem conc_bound_keys_known n0 ops sched g k : 1 <= n0 -> Forall writes_in ops ->
  stores (hrun hidx KU (hinit n0 ops) sched) g k <> None -> In k KU.
Proof.
  intros Hn Hk. apply (z_keys _ (HSInv_run sched _ (HCInv_init hidx n0 ops Hn) (HSInv_init n0 ops Hk))).
Qed.

(* at every moment: the counter plus what the writers that updated the current table still owe it *)
Theorem conc_size_accounted n0 ops sched : 1 <= n0 -> Forall writes_in ops ->
  let s := hrun hidx KU (hinit n0 ops) sched in
  (cnt s (hcur s) + zsum (owed s) (hths s))%Z = nb s (hcur s).
Proof.
  intros Hn Hk s. apply (z_cur s). apply HSInv_run; [apply HCInv_init; exact Hn|apply HSInv_init; exact Hk].
Qed.

End Size.
