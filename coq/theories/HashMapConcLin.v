(* HashMapConcLin.v — the linearization of the hash table's concurrency protocol, stated without
   reference to how the ghosts are computed: [ulog] lists the threads in the order of their update
   steps; replaying their functions in that order, one after the other, from the empty map gives every
   value the abstract map ever had ([hist]) and in particular its present value — which is the content of
   the published table (HashMapConcProofs.conc_table_is_spec); and every thread occurs in the log as
   many times as it has applied its function (exactly once when its Compute has returned). *)
From Coq Require Import List Arith Bool ZArith Lia.
Import ListNotations.
From Otter Require Import HashMapConc HashMapConcProofs.
Local Open Scope nat_scope.

Ltac thr H Hi := apply nth_upd_cases in H; [destruct H as [[-> ->]|[? H]]|exact Hi].

(* the sequential map: apply the functions one after the other *)
Definition apply_one (m : Z -> option Z) (kf : Z * (option Z -> option Z)) : Z -> option Z :=
  upd_fun m (fst kf) (snd kf (m (fst kf))).
Definition replay (l : list (Z * (option Z -> option Z))) : Z -> option Z :=
  fold_left apply_one l (fun _ => None).

Definition kf_of (ths : list hthread) (j : nat) : Z * (option Z -> option Z) :=
  match nth_error ths j with Some t => (hkey t, hfun t) | None => (0%Z, fun v => v) end.

Section Lin.
Variable hidx : nat -> Z -> nat.
Variable KU : list Z.

Record HLInv (s : hcstate) : Prop := {
  l_len : length (hist s) = S (length (ulog s));
  l_valid : forall n, n < length (ulog s) -> nth n (ulog s) 0 < length (hths s);
  l_step : forall n k, n < length (ulog s) ->
           nth (S n) (hist s) dflt k = apply_one (nth n (hist s) dflt) (kf_of (hths s) (nth n (ulog s) 0)) k;
  l_first : forall k, nth 0 (hist s) dflt k = None;
  l_count : forall j t, nth_error (hths s) j = Some t -> count_occ Nat.eq_dec (ulog s) j = happ t
}.

Lemma kf_of_upd ths i t t' j : nth_error ths i = Some t -> hkey t' = hkey t -> hfun t' = hfun t ->
  kf_of (upd_nth i t' ths) j = kf_of ths j.
Proof.
  intros Hi Hk Hf. unfold kf_of. pose proof (nth_error_lt _ _ _ Hi) as Hlt.
  destruct (Nat.eq_dec i j) as [<-|Hne].
  - rewrite nth_error_upd_nth_eq by exact Hlt. rewrite Hi, Hk, Hf. reflexivity.
  - rewrite nth_error_upd_nth_neq by exact Hne. reflexivity.
Qed.

Lemma length_upd_nth {A} (x : A) : forall l i, length (upd_nth i x l) = length l.
Proof. induction l as [|h t IH]; intros i; [destruct i; reflexivity|]. destruct i; cbn; [reflexivity|rewrite IH; reflexivity]. Qed.

Lemma hl_frame s s' i t t' :
  HLInv s -> nth_error (hths s) i = Some t ->
  hist s' = hist s -> ulog s' = ulog s -> hths s' = upd_nth i t' (hths s) ->
  hkey t' = hkey t -> hfun t' = hfun t -> happ t' = happ t -> HLInv s'.
Proof.
  intros L Hi Eh Eu Et Hk Hf Ha. pose proof (nth_error_lt _ _ _ Hi) as Hlt.
  constructor; rewrite ?Eh, ?Eu, ?Et.
  - apply (l_len s L).
  - intros n Hn. rewrite length_upd_nth. apply (l_valid s L n Hn).
  - intros n k Hn. rewrite (kf_of_upd _ i t t' _ Hi Hk Hf). apply (l_step s L n k Hn).
  - apply (l_first s L).
  - intros j u Hj. thr Hj Hlt; [rewrite Ha; apply (l_count s L i t Hi)|apply (l_count s L j u Hj)].
Qed.

Ltac lframe s i t L Hi := eapply (hl_frame s _ i t); [exact L|exact Hi|reflexivity|reflexivity|reflexivity|reflexivity|reflexivity|reflexivity].

Lemma count_occ_snoc l (x j : nat) : count_occ Nat.eq_dec (l ++ [x]) j = count_occ Nat.eq_dec l j + (if Nat.eq_dec x j then 1 else 0).
Proof. rewrite count_occ_app. cbn [count_occ]. destruct (Nat.eq_dec x j); reflexivity. Qed.

Theorem HLInv_step s i o : HRInv hidx s -> HLInv s -> HLInv (hstep hidx KU s i o).
Proof.
  intros R L. destruct (nth_error (hths s) i) as [t|] eqn:Hi; [|unfold hstep; rewrite Hi; exact L].
  pose proof (nth_error_lt _ _ _ Hi) as Hlt.
  destruct (hpc_ t) eqn:Hp; unfold hstep; rewrite Hi, Hp.
  - lframe s i t L Hi.
  - destruct (lk s (hsnap t) (hbi t)); [exact L|lframe s i t L Hi].
  - destruct (resizing s); lframe s i t L Hi.
  - destruct (resizing s); [exact L|lframe s i t L Hi].
  - destruct (Nat.eqb (hcur s) (hsnap t)); lframe s i t L Hi.
  - (* W4 *)
    destruct o as [|o]; [|lframe s i t L Hi].
    match goal with |- context [upd_nth i ?x _] => set (t5 := x) end.
    pose proof (l_len s L) as Hlen.
    constructor; cbn [lens stores lk hcur resizing spec hist froz cnt ulog hths].
    + rewrite !app_length. cbn [length]. lia.
    + intros n Hn. rewrite length_upd_nth. rewrite app_length in Hn. cbn [length] in Hn.
      destruct (Nat.eq_dec n (length (ulog s))) as [->|Hne].
      * rewrite app_nth2 by lia. rewrite Nat.sub_diag. exact Hlt.
      * rewrite app_nth1 by lia. apply (l_valid s L). lia.
    + intros n k Hn. rewrite app_length in Hn. cbn [length] in Hn.
      rewrite (kf_of_upd _ i t t5 _ Hi eq_refl eq_refl).
      destruct (Nat.eq_dec n (length (ulog s))) as [->|Hne].
      * rewrite (app_nth2 (ulog s)) by lia. rewrite Nat.sub_diag. cbn [nth].
        rewrite (app_nth2 (hist s)) by lia. replace (S (length (ulog s)) - length (hist s)) with 0 by lia. cbn [nth].
        rewrite (app_nth1 (hist s)) by lia.
        unfold apply_one, kf_of. rewrite Hi. cbn [fst snd]. unfold upd_fun.
        assert (Hs : forall k', spec s k' = nth (length (ulog s)) (hist s) dflt k').
        { intros k'. rewrite (r_spec hidx s R). f_equal. lia. }
        rewrite <- !Hs. reflexivity.
      * rewrite (app_nth1 (ulog s)) by lia. rewrite !(app_nth1 (hist s)) by lia. apply (l_step s L). lia.
    + intros k. rewrite app_nth1 by lia. apply (l_first s L).
    + intros j u Hj. rewrite count_occ_snoc. thr Hj Hlt.
      * unfold t5. cbn [happ]. rewrite (l_count s L i t Hi). destruct (Nat.eq_dec i i); [lia|contradiction].
      * rewrite (l_count s L j u Hj). destruct (Nat.eq_dec i j); [congruence|lia].
  - lframe s i t L Hi.
  - lframe s i t L Hi.
  - destruct o as [|o]; lframe s i t L Hi.
  - destruct (resizing s); [lframe s i t L Hi|destruct o as [|o]; [cbv zeta|]; lframe s i t L Hi].
  - destruct (resizing s); [exact L|lframe s i t L Hi].
  - destruct (forallb (hcop t) (seq 0 (len_of s (hsnap t)))); [lframe s i t L Hi|].
    destruct (Nat.ltb o (len_of s (hsnap t)) && negb (hcop t o) && negb (lk s (hsnap t) o)); [lframe s i t L Hi|exact L].
  - lframe s i t L Hi.
  - lframe s i t L Hi.
  - exact L.
  - lframe s i t L Hi.
  - lframe s i t L Hi.
  - exact L.
  - lframe s i t L Hi.
  - destruct (Nat.ltb (hbi t) (len_of s (hsnap t))); [destruct (lk s (hsnap t) (hbi t)); [exact L|]|]; lframe s i t L Hi.
  - exact L.
Qed.

Lemma HLInv_init n0 ops : HLInv (hinit n0 ops).
Proof.
  constructor.
  - reflexivity.
  - intros n Hn. cbn in Hn. lia.
  - intros n k Hn. cbn in Hn. lia.
  - intros k. reflexivity.
  - intros j t Hj. apply nth_error_In in Hj. cbn [hinit hths] in Hj. apply in_map_iff in Hj.
    destruct Hj as ([k f|k|] & <- & _); reflexivity.
Qed.

Lemma all_run sched : forall s, HCInv hidx s -> HRInv hidx s -> HLInv s ->
  HCInv hidx (hrun hidx KU s sched) /\ HRInv hidx (hrun hidx KU s sched) /\ HLInv (hrun hidx KU s sched).
Proof.
  induction sched as [|e sched IH]; intros s I R L; [split; [exact I|split; [exact R|exact L]]|]. cbn [hrun fold_left].
  apply IH.
  - apply HCInv_step. exact I.
  - apply HRInv_step; assumption.
  - apply HLInv_step; assumption.
Qed.

(* every value the abstract map has had is the replay of a prefix of the log *)
Lemma hist_is_replay s : HLInv s -> forall n, n <= length (ulog s) -> forall k,
  nth n (hist s) dflt k = replay (map (kf_of (hths s)) (firstn n (ulog s))) k.
Proof.
  intros L. induction n as [|n IH]; intros Hn k.
  - cbn. apply (l_first s L).
  - rewrite (l_step s L n k ltac:(lia)).
    assert (Hf : firstn (S n) (ulog s) = firstn n (ulog s) ++ [nth n (ulog s) 0]).
    { clear -Hn. revert n Hn. induction (ulog s) as [|h t IHt]; intros n Hn; [cbn in Hn; lia|].
      destruct n; [reflexivity|]. cbn [firstn nth app]. f_equal. apply IHt. cbn in Hn. lia. }
    rewrite Hf, map_app. unfold replay. rewrite fold_left_app. cbn [map fold_left].
    unfold apply_one at 1 3. unfold upd_fun.
    specialize (IH ltac:(lia)). unfold replay in IH. rewrite !IH. reflexivity.
Qed.

(* the content of the published table is the replay of the whole log; every thread is in the log as
   many times as it has applied its function *)
Theorem conc_linearization n0 ops sched : 1 <= n0 ->
  let s := hrun hidx KU (hinit n0 ops) sched in
  (forall k, stores s (hcur s) k = replay (map (kf_of (hths s)) (ulog s)) k) /\
  (forall j t, nth_error (hths s) j = Some t -> count_occ Nat.eq_dec (ulog s) j = b2n (applied t)).
Proof.
  intros Hn s.
  destruct (all_run sched _ (HCInv_init hidx n0 ops Hn) (HRInv_init hidx n0 ops) (HLInv_init n0 ops)) as (I & R & L).
  fold s in I, R, L. split.
  - intros k. rewrite (iv_spec hidx s I), (r_spec hidx s R).
    replace (length (hist s) - 1) with (length (ulog s)) by (rewrite (l_len s L); lia).
    rewrite (hist_is_replay s L (length (ulog s)) (le_n _) k), firstn_all. reflexivity.
  - intros j t Hj. rewrite (l_count s L j t Hj). apply (r_app hidx s R j t Hj).
Qed.

End Lin.
