(* HashMap.v — executable sequential model of internal/hashmap/map.go (CLHT-style table).

   A table is a list of bucket chains (root bucket first); a bucket has a meta word (one byte per
   slot: the low 7 bits of the key's hash, or 0x80 for "empty"; bytes 5..7 always 0x80) and five
   slots.  Buckets are never unlinked.  [hashf gen key] is the hash the table of generation [gen]
   gives a key (every table has its own seed; the generation counts resizes).  The 0.75 load factor
   of the grow test is applied as in the code (tableLen*5*3/4 compared with the size, which is exact
   for the power-of-two table lengths that occur).  No proofs here. *)
From Otter Require Import Base.

Definition defaultMeta : Z := 0x8080808080808080.
Definition metaMask : Z := 0xffffffffff.
Definition emptyMetaSlot : Z := 0x80.

Definition h1 (h : Z) : Z := Z.shiftr h 7.
Definition h2 (h : Z) : Z := Z.land h 0x7f.
Definition broadcast (b : Z) : Z := wrapu (0x101010101010101 * b).
Definition markZeroBytes (w : Z) : Z :=
  Z.land (Z.land (wrapu (w - 0x0101010101010101)) (Z.lxor w (two64 - 1))) 0x8080808080808080.
(* index of the lowest marked byte (bits.TrailingZeros64(w) >> 3), for w <> 0 *)
Fixpoint first_marked_fuel (n : nat) (w : Z) (i : Z) : Z :=
  match n with
  | O => i
  | S n' => if Z.land w 0xff =? 0 then first_marked_fuel n' (Z.shiftr w 8) (i + 1) else i
  end.
Definition firstMarkedByteIndex (w : Z) : Z := first_marked_fuel 8 w 0.
Definition setByte (w b idx : Z) : Z :=
  let shift := Z.shiftl idx 3 in
  Z.lor (Z.land w (Z.lxor (Z.shiftl 0xff shift) (two64 - 1))) (Z.shiftl b shift).
Definition getByte (w idx : Z) : Z := Z.land (Z.shiftr w (Z.shiftl idx 3)) 0xff.

Record bk := mkBk { bmeta : Z; bslots : list (option (Z * Z)) }.   (* 5 slots of (key, value) *)
Definition empty_bk : bk := mkBk defaultMeta [None; None; None; None; None].

Record hmap := mkHmap {
  htbl : list (list bk);    (* chains *)
  hsize : Z;               (* sum of the size counters *)
  hgen : Z;                (* table generation: number of resizes so far *)
  minlen : Z               (* m.minTableLen *)
}.

Definition htlen (m : hmap) : Z := Z.of_nat (length (htbl m)).

Definition new_table (n : Z) : list (list bk) := repeat [empty_bk] (Z.to_nat n).

(* newMap(sizeHint): the table length is an input (the code derives it with floating point) *)
Definition hmap_new (tablelen : Z) : hmap := mkHmap (new_table tablelen) 0 0 tablelen.

Definition bucket_index (m : hmap) (hash : Z) : nat := Z.to_nat (Z.land (htlen m - 1) (h1 hash)).

(* the marked slot indices of a bucket for a given h2, in the order the code visits them *)
Fixpoint marked_indices (fuel : nat) (markedw : Z) : list Z :=
  match fuel with
  | O => []
  | S f => if markedw =? 0 then []
           else firstMarkedByteIndex markedw :: marked_indices f (Z.land markedw (markedw - 1))
  end.

Definition find_in_bucket (b : bk) (h2v key : Z) : option (Z * Z) :=   (* (slot index, value) *)
  let markedw := Z.land (markZeroBytes (Z.lxor (bmeta b) (broadcast h2v))) metaMask in
  let fix go (idxs : list Z) :=
    match idxs with
    | [] => None
    | i :: rest => match nth (Z.to_nat i) (bslots b) None with
                   | Some (k, v) => if k =? key then Some (i, v) else go rest
                   | None => go rest
                   end
    end in
  go (marked_indices 8 markedw).

(* m.Get *)
Definition hmap_get (hashf : Z -> Z -> Z) (m : hmap) (key : Z) : option Z :=
  let hash := hashf (hgen m) key in
  let chain := nth (bucket_index m hash) (htbl m) [] in
  let fix go (c : list bk) :=
    match c with
    | [] => None
    | b :: c' => match find_in_bucket b (h2 hash) key with
                 | Some (_, v) => Some v
                 | None => go c'
                 end
    end in
  go chain.

(* appendToBucket: first nil slot in the chain, else a new bucket *)
Fixpoint first_nil (s : list (option (Z * Z))) (i : Z) : option Z :=
  match s with
  | [] => None
  | None :: _ => Some i
  | Some _ :: s' => first_nil s' (i + 1)
  end.

Fixpoint append_to_chain (c : list bk) (h2v : Z) (kv : Z * Z) : list bk :=
  match c with
  | [] => [mkBk (setByte defaultMeta h2v 0) [Some kv; None; None; None; None]]
  | b :: c' =>
      match first_nil (bslots b) 0 with
      | Some i => mkBk (setByte (bmeta b) h2v i) (upd (Z.to_nat i) (Some kv) (bslots b)) :: c'
      | None => b :: append_to_chain c' h2v kv
      end
  end.

(* resize: copy every node of the old table, bucket by bucket, into a fresh table of length n *)
Definition copy_all (hashf : Z -> Z -> Z) (gen' n : Z) (old : list (list bk)) : list (list bk) :=
  fold_left
    (fun dest chain =>
       fold_left
         (fun dest b =>
            fold_left
              (fun dest s =>
                 match s with
                 | Some (k, v) =>
                     let hash := hashf gen' k in
                     let bidx := Z.to_nat (Z.land (n - 1) (h1 hash)) in
                     upd bidx (append_to_chain (nth bidx dest []) (h2 hash) (k, v)) dest
                 | None => dest
                 end)
              (bslots b) dest)
         chain dest)
    old (new_table n).

Inductive hint := Grow | Shrink | Clear.

Definition hmap_resize (hashf : Z -> Z -> Z) (m : hmap) (h : hint) : hmap :=
  let n := htlen m in
  match h with
  | Grow => mkHmap (copy_all hashf (hgen m + 1) (2 * n) (htbl m)) (hsize m) (hgen m + 1) (minlen m)
  | Shrink =>
      if (minlen m =? n) || (hsize m >? (n * 5) / 128) then m
      else mkHmap (copy_all hashf (hgen m + 1) (n / 2) (htbl m)) (hsize m) (hgen m + 1) (minlen m)
  | Clear => mkHmap (new_table (minlen m)) 0 (hgen m + 1) (minlen m)
  end.

(* what the caller's function decided *)
Inductive cres := CKeep | CSet (v : Z) | CDel.

(* Compute on the chain of the key's bucket.  Returns the new chain, the size delta, whether the
   bucket the deletion happened in became completely empty (shrink hint), the (found, old) the
   function was called with, and "needs grow" (no free slot and over the load factor). *)
Fixpoint compute_chain (c : list bk) (h2v key : Z) (f : option Z -> cres) (emptyseen : bool)
  : option (list bk * Z * bool * option Z) :=     (* None: chain exhausted without a decision *)
  match c with
  | [] => None
  | b :: c' =>
      match find_in_bucket b h2v key with
      | Some (i, old) =>
          match f (Some old) with
          | CDel =>
              let m' := setByte (bmeta b) emptyMetaSlot i in
              Some (mkBk m' (upd (Z.to_nat i) None (bslots b)) :: c', -1, m' =? defaultMeta, Some old)
          | CSet v => Some (mkBk (bmeta b) (upd (Z.to_nat i) (Some (key, v)) (bslots b)) :: c', 0, false, Some old)
          | CKeep => Some (b :: c', 0, false, Some old)
          end
      | None =>
          match compute_chain c' h2v key f (emptyseen || negb (Z.land (bmeta b) (Z.land defaultMeta metaMask) =? 0)) with
          | Some (c'', d, sh, o) => Some (b :: c'', d, sh, o)
          | None => None
          end
      end
  end.

(* insertion into the first bucket of the chain that has an empty meta slot *)
Fixpoint insert_first_empty (c : list bk) (h2v : Z) (kv : Z * Z) : option (list bk) :=
  match c with
  | [] => None
  | b :: c' =>
      let emptyw := Z.land (bmeta b) (Z.land defaultMeta metaMask) in
      if emptyw =? 0 then
        match insert_first_empty c' h2v kv with Some c'' => Some (b :: c'') | None => None end
      else
        let i := firstMarkedByteIndex emptyw in
        Some (mkBk (setByte (bmeta b) h2v i) (upd (Z.to_nat i) (Some kv) (bslots b)) :: c')
  end.

(* m.Compute; returns the map, the number of times f was called, and the argument it saw *)
Definition hmap_compute_once (hashf : Z -> Z -> Z) (m : hmap) (key : Z) (f : option Z -> cres)
  : hmap * bool (* retry after grow *) * option (option Z) :=
  let hash := hashf (hgen m) key in
  let bidx := bucket_index m hash in
  let chain := nth bidx (htbl m) [] in
  match compute_chain chain (h2 hash) key f false with
  | Some (chain', d, sh, o) =>
      let m1 := mkHmap (upd bidx chain' (htbl m)) (Z.max 0 (hsize m + d)) (hgen m) (minlen m) in
      ((if sh then hmap_resize hashf m1 Shrink else m1), false, Some o)
  | None =>
      (* absent *)
      match insert_first_empty chain (h2 hash) (key, 0) with
      | Some _ =>
          match f None with
          | CSet v =>
              match insert_first_empty chain (h2 hash) (key, v) with
              | Some chain' => (mkHmap (upd bidx chain' (htbl m)) (hsize m + 1) (hgen m) (minlen m), false, Some None)
              | None => (m, false, Some None)
              end
          | _ => (m, false, Some None)
          end
      | None =>
          if hsize m >? (htlen m * 5 * 3) / 4 then (hmap_resize hashf m Grow, true, None)
          else
            match f None with
            | CSet v =>
                let nb := mkBk (setByte defaultMeta (h2 hash) 0) [Some (key, v); None; None; None; None] in
                (mkHmap (upd bidx (chain ++ [nb]) (htbl m)) (hsize m + 1) (hgen m) (minlen m), false, Some None)
            | _ => (m, false, Some None)
            end
      end
  end.

Fixpoint hmap_compute_fuel (fuel : nat) (hashf : Z -> Z -> Z) (m : hmap) (key : Z) (f : option Z -> cres)
  : hmap * option (option Z) :=
  match fuel with
  | O => (m, None)
  | S n => let '(m1, retry, seen) := hmap_compute_once hashf m key f in
           if retry then hmap_compute_fuel n hashf m1 key f else (m1, seen)
  end.
Definition hmap_compute := hmap_compute_fuel 64.

(* m.Range: table order, chain order, slot order *)
Definition hmap_range (m : hmap) : list (Z * Z) :=
  flat_map (fun chain => flat_map (fun b => flat_map (fun s => match s with Some kv => [kv] | None => [] end) (bslots b)) chain) (htbl m).

Definition hmap_clear (hashf : Z -> Z -> Z) (m : hmap) : hmap := hmap_resize hashf m Clear.

(* layout summary compared with the implementation: per root bucket (chain length, occupied slots) *)
Definition hmap_layout (m : hmap) : list (Z * Z) :=
  map (fun chain => (Z.of_nat (length chain),
                     sumZ (map (fun b => Z.of_nat (length (filter (fun s => match s with Some _ => true | None => false end) (bslots b)))) chain)))
      (htbl m).
