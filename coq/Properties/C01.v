(* C01 — Sequential conformance to a map-with-deadlines model.
   [step]/[run]: concrete model of cache_impl.go (dead nodes physically present; Seq.v).
   [spec_step]/[spec_run]: the abstract map in which an entry whose deadline has passed does not exist (Spec.v).
   cfg (feature combination, calculators, weigher), operation sequence, keys/values/durations and
   clock values are universally quantified; automatic removals enter only as reported events (OAuto). *)
From Otter Require Import Base Seq Spec SeqRefine SeqFacts.

(* one step: equal results, callbacks, executor submissions, deletion events up to Expiration
   reports, lookup/load statistics, and equal live contents afterwards *)
Theorem C01_step_refines : forall c, cfg_ok c -> forall s a o,
  op_ok o -> R c (op_now o) s a ->
  res_sim o (snd (step c s o)) (snd (spec_step c a o)) /\
  R c (op_now o) (fst (step c s o)) (fst (spec_step c a o)).
Proof. exact step_refines. Qed.
Print Assumptions C01_step_refines.

(* every finite operation sequence with a non-decreasing clock, from the empty cache *)
Theorem C01_refines : forall c, cfg_ok c -> forall ops t,
  clock_ok t ops ->
  sim_list ops (snd (run c cstate0 ops)) (snd (spec_run c cstate0 ops)) /\
  R c (last_time t ops) (fst (run c cstate0 ops)) (fst (spec_run c cstate0 ops)).
Proof. intros c CO ops t H. exact (run_refines c CO ops t cstate0 cstate0 H (R_init c t)). Qed.
Print Assumptions C01_refines.

(* the concrete step is a congruence for "same live contents": whatever dead nodes are physically
   present (whenever maintenance happened to run) cannot influence any result *)
Theorem C01_maintenance_timing_irrelevant : forall c, cfg_ok c -> forall s a o,
  op_ok o -> is_auto o = false -> R c (op_now o) s a -> SR c (op_now o) (step c s o) (step c a o).
Proof. exact step_congruence. Qed.
Print Assumptions C01_maintenance_timing_irrelevant.

(* an automatic removal is accepted by the model only for the very node the table holds, with a
   passed deadline (Expiration) or a size bound (Overflow): anything else is flagged *)
Theorem C01_auto_legal : forall c s k v cs now,
  r_ret (snd (step c s (OAuto k v cs now))) = RNone ->
  exists n, lookup k (cmap s) = Some n /\ nval n = v /\
            match cs with COverflow => bounded c = true | CExpiration => has_expired c n now = true | _ => False end.
Proof.
  intros c s k v cs now. cbn [step]. unfold do_auto.
  destruct (lookup k (cmap s)) as [n|]; [|intros H; discriminate H].
  destruct (nval n =? v) eqn:E; cbn [andb]; [|intros H; discriminate H].
  destruct cs; try (intros H; discriminate H).
  - destruct (bounded c) eqn:B; [|intros H; discriminate H]. intros _. exists n. repeat split; try reflexivity; lia.
  - destruct (has_expired c n now) eqn:X; [|intros H; discriminate H]. intros _. exists n. repeat split; try reflexivity; lia.
Qed.
Print Assumptions C01_auto_legal.

(* non-vacuity: a concrete configuration and trace (write, expiry without sweep, overwrite of the
   expired-unswept entry, sweep report, reload) satisfy every hypothesis *)
Definition ex_cfg : cfg :=
  mkCfg true true false true (fun _ _ => 1)
        (fun _ _ _ => 100) (fun _ _ _ _ => 100) (fun _ _ cur => cur)
        (fun _ _ _ => 50) (fun _ _ _ cur => cur) (fun _ _ _ cur => cur) (fun _ _ cur => cur).

Definition ex_ops : list op :=
  [OSet 1 11 1000; OGetIfPresent 1 1050; OSet 2 21 1090; OSet 1 12 1100; OAuto 2 21 CExpiration 1300;
   OGet 1 (LValue 13) 1300 1300; OIter 1301].

Example C01_nonvacuous :
  clock_ok 0 ex_ops /\
  map r_ret (snd (run ex_cfg cstate0 ex_ops)) =
    [RVal 11 true; RVal 11 true; RVal 21 true; RVal 12 true; RNone; RLoad 13 0; RIter [(1, 13)]].
Proof.
  split; [|vm_compute; reflexivity].
  unfold ex_ops. cbn [clock_ok op_now]. unfold op_ok, time_ok. cbn [op_now]. unfold MaxInt64. repeat split; try lia.
Qed.

Example C01_nonvacuous_cfg : cfg_ok ex_cfg.
Proof. constructor; intros; cbn; unfold MaxInt64 in *; lia. Qed.
