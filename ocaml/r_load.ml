(* r_load.ml — replays a "load" engine trace on the extracted single-flight protocol model. *)
open Util
module M = Model

let run (path : string) : unit =
  let z = mz_of_string in
  let s = ref M.lstate0 in
  let idmap : (string, M.z) Hashtbl.t = Hashtbl.create 16 in   (* implementation loader id -> model call id *)
  let nkeys = ref 0 in
  iter_lines path (fun ln toks ->
      match toks with
      | [ "N"; n ] -> s := M.lstate0; Hashtbl.clear idmap; nkeys := int_of_string n; count "cases"
      | [ "HIT"; k; v ] ->
          count "hits";
          (match M.alookup (z k) (M.lmap !s) with
           | Some mv when string_of_mz mv = v -> ()
           | Some mv -> mismatch "load" ln "hit on key %s returned %s; the model holds %s" k v (string_of_mz mv)
           | None -> mismatch "load" ln "hit on key %s but the model holds nothing" k)
      | [ "LS"; th; k; rf; kind; id ] ->
          count "starts";
          let (s', obs) = M.lstep !s (M.LStart (z th, z k, rf = "1")) in
          s := s';
          (match obs, kind with
           | M.ObsLoads mid, "L" -> Hashtbl.replace idmap id mid
           | M.ObsJoined mid, "J" ->
               (match Hashtbl.find_opt idmap id with
                | Some m when string_of_mz m = string_of_mz mid -> ()
                | _ -> mismatch "load" ln "thread %s joined load %s; the model joins call %s" th id (string_of_mz mid))
           | M.ObsLoads _, "J" ->
               mismatch "load" ln "thread %s waits for a load of key %s but no call is registered in the model" th k
           | M.ObsJoined _, "L" ->
               mismatch "load" ln "thread %s started a second loader for key %s while the model has a registered call" th k;
               propfail "C08" "overlap" ln "a second loader invocation for key %s started while a load is registered (no write in between)" k
           | _ -> mismatch "load" ln "start of thread %s: unexpected observation" th)
      | "LF" :: id :: oc :: v :: n :: rest ->
          count "finishes";
          let mid = match Hashtbl.find_opt idmap id with Some m -> m | None -> mz_of_int (-1) in
          let moc = match oc with "V" -> M.OValue (z v) | "E" -> M.OError | "N" -> M.ONotFound | _ -> M.OPanic in
          let (s', obs) = M.lstep !s (M.LFinish (mid, moc)) in
          s := s';
          let rec threads = function th :: _ :: _ :: tl -> th :: threads tl | _ -> [] in
          let impl_rel = List.sort compare (threads rest) in
          ignore n;
          (match obs with
           | M.ObsFinished (_, released) ->
               let m_rel = List.sort compare (List.map string_of_mz released) in
               if m_rel <> impl_rel then begin
                 mismatch "load" ln "finish of load %s released threads [%s]; the model releases [%s]" id (String.concat " " impl_rel) (String.concat " " m_rel);
                 if List.exists (fun t -> not (List.mem t impl_rel)) m_rel then
                   propfail "C08" "stuck-waiter" ln "a waiter of load %s was not released" id
               end
           | _ -> mismatch "load" ln "finish of load %s: the model has no such pending call" id)
      | [ "LW"; k; v ] -> count "writes"; s := fst (M.lstep !s (M.LWrite (z k, z v)))
      | [ "LI"; k ] -> count "invalidations"; s := fst (M.lstep !s (M.LInvalidate (z k)))
      | "V" :: rest ->
          count "values_compared";
          let rec go k = function
            | p :: v :: tl ->
                let m = match M.alookup (mz_of_int k) (M.lmap !s) with Some x -> "1 " ^ string_of_mz x | None -> "0 0" in
                if m <> p ^ " " ^ v then begin
                  mismatch "load" ln "key %d: cache holds [%s %s]; the model holds [%s]" k p v m;
                  propfail "C09" "wrong-value-after-load" ln "key %d: cache holds [%s %s]; writes and completed loads determine [%s]" k p v m
                end;
                go (k + 1) tl
            | _ -> () in
          go 0 rest
      | [ "END"; n ] ->
          let mt = List.length (M.ltable !s) in
          if string_of_int mt <> n then mismatch "load" ln "registered calls at the end: model=%d impl=%s" mt n
      | _ -> mismatch "load" ln "unparsed trace line")
