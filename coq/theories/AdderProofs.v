(* AdderProofs.v — the striped counter for all schedules, any number of threads, every choice of
   probe indices:
     adder_inv            the sum of the stripes (mod 2^64) is the sum of the deltas whose CAS
                          succeeded; every invoked Add is applied or still in flight — never
                          twice, never dropped (sums and counts);
     adder_quiescent      with no call in flight the stripes sum to the deltas of all Adds invoked;
     and, for runs whose total stays below 2^64 with non-negative deltas (what stats.Counter does),
     scan_bounds          a Value() that overlaps Adds returns something between the sum when it
                          began and the sum when it returned;
     value_never_decreases   a Value() invoked after another one returned is not smaller. *)
From Otter Require Import Base Adder.
From Coq Require Import Lia ZArith List.
Import ListNotations.
Local Open Scope Z_scope.

(* ---------- list facts ---------- *)

Lemma sumZ_map_upd {A} (f : A -> Z) (d : A) t x l :
  (t < length l)%nat -> sumZ (map f (upd t x l)) = sumZ (map f l) - f (nth t l d) + f x.
Proof.
  revert t; induction l as [|h l IH]; intros [|t] H; simpl in *; try lia.
  rewrite IH by lia. lia.
Qed.

Lemma sumZ_upd t x l : (t < length l)%nat -> sumZ (upd t x l) = sumZ l - nth t l 0 + x.
Proof.
  intros H. pose proof (sumZ_map_upd (fun z => z) 0 t x l H) as E. rewrite !map_id in E. exact E.
Qed.

Lemma Forall_upd {A} (P : A -> Prop) t x l : Forall P l -> P x -> Forall P (upd t x l).
Proof.
  revert t; induction l as [|h l IH]; intros [|t] Hl Hx; simpl; auto; inversion Hl; subst; constructor; auto.
Qed.

Lemma Forall_nth_Z (P : Z -> Prop) l i : Forall P l -> (i < length l)%nat -> P (nth i l 0).
Proof.
  revert i; induction l as [|h l IH]; intros [|i] Hl Hi; simpl in *; try lia; inversion Hl; subst; auto.
  apply IH; auto; lia.
Qed.

Lemma deltas_app a b : deltas (a ++ b) = deltas a ++ deltas b.
Proof. unfold deltas. apply map_app. Qed.

Lemma sumZ_repeat0 n : sumZ (repeat 0 n) = 0.
Proof. induction n; simpl; lia. Qed.

Lemma sumZ_nonneg l : Forall (fun z => 0 <= z) l -> 0 <= sumZ l.
Proof. induction 1; simpl; lia. Qed.

Lemma nth_le_sumZ l i : Forall (fun z => 0 <= z) l -> nth i l 0 <= sumZ l.
Proof.
  revert i; induction l as [|h l IH]; intros i Hl; simpl.
  - destruct i; lia.
  - inversion Hl; subst. pose proof (sumZ_nonneg l H2). destruct i; [lia|]. specialize (IH i H2). lia.
Qed.

Lemma wrapu_add_l a b : wrapu (wrapu a + b) = wrapu (a + b).
Proof. unfold wrapu. rewrite Zplus_mod_idemp_l. reflexivity. Qed.

Lemma wrapu_congr a b c : wrapu a = wrapu b -> wrapu (a + c) = wrapu (b + c).
Proof. intros H. rewrite <- (wrapu_add_l a), <- (wrapu_add_l b), H. reflexivity. Qed.

Ltac zl := unfold sumZ, deltas, pending_sum, pending_cnt in *; cbn in *; lia.

(* ---------- the invariant for all schedules ---------- *)

Definition th_ok (n : nat) (x : athread) : Prop :=
  match x with
  | TLoad _ i | TCas _ i _ => (i < n)%nat
  | _ => True
  end.

Record AInv (a : adder) : Prop := {
  ai_n : (0 < length (cells a))%nat;
  ai_rng : Forall in_u64 (cells a);
  ai_sum : wrapu (sumZ (cells a)) = wrapu (sumZ (deltas (applied a)));
  ai_acc : sumZ (deltas (started a)) = sumZ (deltas (applied a)) + pending_sum (aths a);
  ai_cnt : Z.of_nat (length (started a)) = Z.of_nat (length (applied a)) + pending_cnt (aths a);
  ai_ths : Forall (th_ok (length (cells a))) (aths a)
}.

Lemma adder_init_inv n k : (0 < n)%nat -> AInv (adder_init n k).
Proof.
  intros Hn. constructor; cbn.
  - rewrite repeat_length. exact Hn.
  - clear. induction n; simpl; constructor; auto. unfold in_u64, two64. lia.
  - rewrite sumZ_repeat0. reflexivity.
  - unfold pending_sum. clear. induction k; simpl in *; lia.
  - unfold pending_cnt. clear. induction k; simpl in *; lia.
  - clear. induction k; simpl; constructor; simpl; auto.
Qed.

Lemma th_ok_nth n l t : Forall (th_ok n) l -> th_ok n (nth t l TIdle).
Proof.
  revert t; induction l as [|h l IH]; intros [|t] H; simpl; auto; inversion H; subst; auto.
Qed.

Lemma not_running_pending x : is_running x = false -> pending_delta x = 0 /\ pending_one x = 0.
Proof. destruct x; simpl; intros H; try discriminate; auto. Qed.

Lemma astep_inv a inp : AInv a -> AInv (astep a inp).
Proof.
  intros [Hn Hr Hs Ha Hc Ht]. destruct inp as [t x]. unfold astep.
  destruct (t <? length (aths a))%nat eqn:Et; cbn [negb]; [|constructor; assumption].
  apply Nat.ltb_lt in Et.
  pose proof (th_ok_nth _ _ t Ht) as Hth.
  destruct x as [d i| |fresh].
  - (* invoke Add *)
    destruct (is_running (nth t (aths a) TIdle)) eqn:Er; [constructor; assumption|].
    destruct (not_running_pending _ Er) as [Ep1 Ep2].
    constructor; cbn; auto.
    + rewrite deltas_app, sumZ_app. cbn. unfold pending_sum in *.
      rewrite (sumZ_map_upd pending_delta TIdle) by exact Et. zl.
    + rewrite app_length. cbn. unfold pending_cnt in *.
      rewrite (sumZ_map_upd pending_one TIdle) by exact Et. zl.
    + apply Forall_upd; auto. cbn. apply Nat.mod_upper_bound. lia.
  - (* invoke Value *)
    destruct (is_running (nth t (aths a) TIdle)) eqn:Er; [constructor; assumption|].
    destruct (not_running_pending _ Er) as [Ep1 Ep2].
    constructor; cbn; auto.
    + unfold pending_sum in *. rewrite (sumZ_map_upd pending_delta TIdle) by exact Et. zl.
    + unfold pending_cnt in *. rewrite (sumZ_map_upd pending_one TIdle) by exact Et. zl.
    + apply Forall_upd; cbn; auto.
  - destruct (nth t (aths a) TIdle) as [|d i|d i c|d|i acc st|v st] eqn:Eth; try (constructor; assumption).
    + (* load *)
      constructor; cbn; auto.
      * unfold pending_sum in *. rewrite (sumZ_map_upd pending_delta TIdle) by exact Et. rewrite Eth. zl.
      * unfold pending_cnt in *. rewrite (sumZ_map_upd pending_one TIdle) by exact Et. rewrite Eth. zl.
      * apply Forall_upd; cbn; auto.
    + (* CAS *)
      cbn in Hth.
      destruct (nth i (cells a) 0 =? c) eqn:Ec.
      * apply Z.eqb_eq in Ec.
        constructor; cbn.
        -- rewrite upd_length. exact Hn.
        -- apply Forall_upd; auto. apply wrapu_range.
        -- rewrite sumZ_upd by exact Hth. rewrite deltas_app, sumZ_app. cbn. rewrite Ec.
           replace (sumZ (cells a) - c + wrapu (c + d)) with (wrapu (c + d) + (sumZ (cells a) - c)) by lia.
           rewrite wrapu_add_l.
           replace (c + d + (sumZ (cells a) - c)) with (sumZ (cells a) + (d + 0)) by lia.
           apply wrapu_congr. exact Hs.
        -- rewrite deltas_app, sumZ_app. cbn. unfold pending_sum in *.
           rewrite (sumZ_map_upd pending_delta TIdle) by exact Et. rewrite Eth. zl.
        -- rewrite app_length. cbn. unfold pending_cnt in *.
           rewrite (sumZ_map_upd pending_one TIdle) by exact Et. rewrite Eth. zl.
        -- rewrite upd_length. apply Forall_upd; cbn; auto.
      * constructor; cbn; auto.
        -- unfold pending_sum in *. rewrite (sumZ_map_upd pending_delta TIdle) by exact Et. rewrite Eth. zl.
        -- unfold pending_cnt in *. rewrite (sumZ_map_upd pending_one TIdle) by exact Et. rewrite Eth. zl.
        -- apply Forall_upd; cbn; auto. apply Nat.mod_upper_bound. lia.
    + (* scan *)
      destruct (i <? length (cells a))%nat; constructor; cbn; auto.
      * unfold pending_sum in *. rewrite (sumZ_map_upd pending_delta TIdle) by exact Et. rewrite Eth. zl.
      * unfold pending_cnt in *. rewrite (sumZ_map_upd pending_one TIdle) by exact Et. rewrite Eth. zl.
      * apply Forall_upd; cbn; auto.
      * unfold pending_sum in *. rewrite (sumZ_map_upd pending_delta TIdle) by exact Et. rewrite Eth. zl.
      * unfold pending_cnt in *. rewrite (sumZ_map_upd pending_one TIdle) by exact Et. rewrite Eth. zl.
      * apply Forall_upd; cbn; auto.
Qed.

Theorem adder_inv sch a : AInv a -> AInv (arun sch a).
Proof.
  unfold arun. revert a; induction sch as [|x sch IH]; intros a H; cbn [fold_left]; [exact H|].
  apply IH, astep_inv, H.
Qed.

Lemma quiescent_pending l : (forall x, In x l -> is_running x = false) -> pending_sum l = 0 /\ pending_cnt l = 0.
Proof.
  unfold pending_sum, pending_cnt. induction l as [|h l IH]; intros H; cbn; [auto|].
  destruct (not_running_pending h (H h (or_introl eq_refl))) as [E1 E2].
  destruct IH as [I1 I2]; [intros x Hx; apply H; right; exact Hx|]. zl.
Qed.

(* with no call in flight: the counter is the sum of every Add ever invoked, each applied once *)
Theorem adder_quiescent n k sch :
  (0 < n)%nat ->
  let a := arun sch (adder_init n k) in
  quiescent a ->
  wrapu (sumZ (cells a)) = wrapu (sumZ (deltas (started a))) /\
  length (applied a) = length (started a) /\
  sumZ (deltas (applied a)) = sumZ (deltas (started a)).
Proof.
  intros Hn a Hq. pose proof (adder_inv sch _ (adder_init_inv n k Hn)) as [_ _ Hs Ha Hc _].
  fold a in Hs, Ha, Hc. destruct (quiescent_pending _ Hq) as [P1 P2].
  rewrite P1 in Ha. rewrite P2 in Hc. split; [rewrite Ha, Z.add_0_r; exact Hs|]. split; lia.
Qed.

(* ---------- counters that do not wrap: monotone stripes, bounded scans ---------- *)

Definition NoWrap (a : adder) : Prop :=
  Forall (fun d => 0 <= d) (deltas (started a)) /\ sumZ (deltas (started a)) < two64.

Fixpoint le_all (a b : list Z) : Prop :=
  match a, b with
  | [], [] => True
  | x :: a', y :: b' => x <= y /\ le_all a' b'
  | _, _ => False
  end.

Lemma le_all_refl l : le_all l l.
Proof. induction l; simpl; auto. split; [lia|auto]. Qed.

Lemma le_all_upd a b i x : le_all a b -> nth i b 0 <= x -> le_all a (upd i x b).
Proof.
  revert b i; induction a as [|h a IH]; intros [|k b] i H Hx; simpl in *; try contradiction.
  - destruct i; exact I.
  - destruct H as [H1 H2]. destruct i; simpl in *; split; auto; lia.
Qed.

Lemma le_all_firstn a b i : le_all a b -> sumZ (firstn i a) <= sumZ (firstn i b).
Proof.
  revert b i; induction a as [|h a IH]; intros [|k b] i H; simpl in *; try contradiction.
  - destruct i; simpl; lia.
  - destruct H as [H1 H2]. destruct i; simpl; [lia|]. specialize (IH b i H2). lia.
Qed.

Lemma le_all_sum a b : le_all a b -> sumZ a <= sumZ b.
Proof.
  revert b; induction a as [|h a IH]; intros [|k b] H; simpl in *; try contradiction; [lia|].
  destruct H as [H1 H2]. specialize (IH b H2). lia.
Qed.

Lemma le_all_length a b : le_all a b -> length a = length b.
Proof.
  revert b; induction a as [|h a IH]; intros [|k b] H; simpl in *; try contradiction; auto.
  destruct H as [_ H]. f_equal. auto.
Qed.

Lemma firstn_S_sum l i : (i < length l)%nat -> sumZ (firstn (S i) l) = sumZ (firstn i l) + nth i l 0.
Proof.
  revert i; induction l as [|h l IH]; intros i H; simpl in *; [lia|].
  destruct i; simpl; [lia|]. rewrite <- Z.add_assoc. f_equal. specialize (IH i). simpl in IH. apply IH. lia.
Qed.

Lemma firstn_upd_le l i j x : nth j l 0 <= x -> sumZ (firstn i l) <= sumZ (firstn i (upd j x l)).
Proof.
  revert i j; induction l as [|h l IH]; intros i j H.
  - destruct i, j; cbn; lia.
  - destruct j; destruct i; cbn in *; try lia. specialize (IH i j H). unfold sumZ in IH. lia.
Qed.

Definition scan_ok (cs : list Z) (x : athread) : Prop :=
  match x with
  | TScan i acc st => le_all st cs /\ (i <= length cs)%nat /\ 0 <= acc /\ sumZ (firstn i st) <= acc <= sumZ (firstn i cs)
  | TVal v st => le_all st cs /\ sumZ st <= v <= sumZ cs
  | _ => True
  end.

Record MInv (a : adder) : Prop := {
  mi_pos : Forall (fun z => 0 <= z) (cells a);
  mi_sum : sumZ (cells a) = sumZ (deltas (applied a));
  mi_pend : Forall (fun x => 0 <= pending_delta x) (aths a);
  mi_scan : Forall (scan_ok (cells a)) (aths a)
}.

Lemma NoWrap_step a inp : NoWrap (astep a inp) -> NoWrap a.
Proof.
  destruct inp as [t x]. unfold astep, NoWrap.
  destruct (negb _); [auto|].
  destruct x as [d i| |fresh].
  - destruct (is_running _); [auto|]. cbn. rewrite deltas_app, sumZ_app. cbn.
    intros [H1 H2]. apply Forall_app in H1. destruct H1 as [H1 H1']. inversion H1'; subst. split; [exact H1|lia].
  - destruct (is_running _); auto.
  - destruct (nth t (aths a) TIdle); auto.
    + destruct (_ =? _); auto.
    + destruct (_ <? _)%nat; auto.
Qed.

Lemma pending_nonneg_sum l : Forall (fun x => 0 <= pending_delta x) l -> 0 <= pending_sum l.
Proof. unfold pending_sum. induction 1; [cbn; lia|]. cbn [map sumZ fold_right] in *. unfold sumZ in *. lia. Qed.

Lemma pending_nth_le l t : Forall (fun x => 0 <= pending_delta x) l -> pending_delta (nth t l TIdle) <= pending_sum l.
Proof.
  revert t; induction l as [|h l IH]; intros t H.
  - destruct t; cbn; lia.
  - inversion H; subst. pose proof (pending_nonneg_sum l H3) as P.
    assert (E : pending_sum (h :: l) = pending_delta h + pending_sum l) by reflexivity.
    rewrite E. destruct t; cbn [nth]; [lia|]. specialize (IH t H3). lia.
Qed.

Lemma scan_ok_mono cs cs' x : le_all cs cs' -> (forall i, sumZ (firstn i cs) <= sumZ (firstn i cs')) ->
  scan_ok cs x -> scan_ok cs' x.
Proof.
  intros Hle Hf. pose proof (le_all_length _ _ Hle) as El.
  assert (Htr : forall st, le_all st cs -> le_all st cs').
  { clear -Hle. revert cs' Hle. induction cs as [|c cs IH]; intros [|c' cs'] Hle [|s st] H; simpl in *; try contradiction; auto.
    destruct Hle, H. split; [lia|]. eapply IH; eauto. }
  destruct x; simpl; auto.
  - intros [H1 [H2 [H0 H3]]]. split; [auto|]. split; [lia|]. split; [exact H0|]. specialize (Hf i). lia.
  - intros [H1 H2]. split; [auto|]. pose proof (le_all_sum _ _ Hle). lia.
Qed.

Lemma Forall_nth_th (P : athread -> Prop) l t : Forall P l -> P TIdle -> P (nth t l TIdle).
Proof.
  revert t; induction l as [|h l IH]; intros [|t] H H0; simpl; auto; inversion H; subst; auto.
Qed.

Lemma astep_minv a inp : AInv a -> MInv a -> NoWrap (astep a inp) -> MInv (astep a inp).
Proof.
  intros HA [Hp Hs Hd Hsc] HN.
  pose proof (NoWrap_step _ _ HN) as HN0.
  destruct HA as [Hn Hr _ Hacc _ Ht].
  destruct inp as [t x]. unfold astep in *.
  destruct (t <? length (aths a))%nat eqn:Et; cbn [negb] in *; [|constructor; assumption].
  apply Nat.ltb_lt in Et.
  pose proof (th_ok_nth _ _ t Ht) as Hth.
  destruct x as [d i| |fresh].
  - destruct (is_running (nth t (aths a) TIdle)) eqn:Er; [constructor; assumption|].
    destruct HN as [HN1 _]. cbn in HN1. rewrite deltas_app in HN1. apply Forall_app in HN1.
    destruct HN1 as [_ HN1]. inversion HN1; subst.
    constructor; cbn; auto; apply Forall_upd; cbn; auto; try lia.
  - destruct (is_running (nth t (aths a) TIdle)) eqn:Er; [constructor; assumption|].
    constructor; cbn; auto; apply Forall_upd; cbn; auto; try lia.
    split; [apply le_all_refl|]. split; [lia|]. split; [lia|]. cbn. lia.
  - destruct (nth t (aths a) TIdle) as [|d i|d i c|d|i acc st|v st] eqn:Eth; try (constructor; assumption).
    + constructor; cbn; auto; apply Forall_upd; cbn; auto; try lia.
      pose proof (Forall_nth_th _ _ t Hd) as X. rewrite Eth in X. cbn in X. apply X. lia.
    + cbn in Hth.
      pose proof (Forall_nth_th _ _ t Hd) as Hd0. rewrite Eth in Hd0. cbn in Hd0. specialize (Hd0 ltac:(lia)).
      destruct (nth i (cells a) 0 =? c) eqn:Ec.
      * apply Z.eqb_eq in Ec.
        (* c + d stays below 2^64: c <= sum cells = sum applied, and applied + d <= started *)
        pose proof (nth_le_sumZ _ i Hp) as Hci. rewrite Ec in Hci.
        pose proof (pending_nth_le _ t Hd) as Hpt. rewrite Eth in Hpt. cbn in Hpt.
        destruct HN0 as [_ HN2].
        assert (Hc0 : 0 <= c) by (rewrite <- Ec; apply (Forall_nth_Z (fun z => 0 <= z)); auto).
        assert (Ew : wrapu (c + d) = c + d) by (apply wrapu_id; unfold in_u64; lia).
        assert (Hge : nth i (cells a) 0 <= wrapu (c + d)) by (rewrite Ew, Ec; lia).
        constructor; cbn.
        -- apply Forall_upd; auto. rewrite Ew. lia.
        -- rewrite sumZ_upd by exact Hth. rewrite deltas_app, sumZ_app. cbn. rewrite Ew, Ec. lia.
        -- apply Forall_upd; cbn; auto. lia.
        -- apply Forall_upd; cbn; auto.
           eapply Forall_impl; [|exact Hsc]. intros x Hx.
           eapply scan_ok_mono; [| |exact Hx].
           ++ apply le_all_upd; [apply le_all_refl|exact Hge].
           ++ intros j. apply firstn_upd_le. exact Hge.
      * constructor; cbn; auto; apply Forall_upd; cbn; auto; try lia.
    + pose proof (Forall_nth_th _ _ t Hsc I) as Hx. rewrite Eth in Hx. cbn in Hx.
      destruct Hx as [H1 [H2 [Hacc0 H3]]].
      pose proof (le_all_length _ _ H1) as El.
      destruct (i <? length (cells a))%nat eqn:Ei.
      * apply Nat.ltb_lt in Ei.
        constructor; cbn [cells aths set_th]; auto; apply Forall_upd; cbn [scan_ok pending_delta cells aths set_th]; auto; try lia.
        split; [exact H1|]. split; [lia|].
        rewrite (firstn_S_sum st) by lia. rewrite (firstn_S_sum (cells a)) by lia.
        (* acc + cell stays below 2^64 *)
        assert (Hci : 0 <= nth i (cells a) 0) by (apply (Forall_nth_Z (fun z => 0 <= z)); auto).
        assert (Hup : sumZ (firstn (S i) (cells a)) <= sumZ (cells a)).
        { rewrite <- (firstn_skipn (S i) (cells a)) at 2. rewrite sumZ_app.
          assert (0 <= sumZ (skipn (S i) (cells a))).
          { apply sumZ_nonneg. rewrite <- (firstn_skipn (S i) (cells a)) in Hp. apply Forall_app in Hp. tauto. }
          lia. }
        rewrite (firstn_S_sum (cells a)) in Hup by lia.
        pose proof (pending_nonneg_sum _ Hd) as Hpn.
        destruct HN0 as [_ HN2].
        assert (Ew : wrapu (acc + nth i (cells a) 0) = acc + nth i (cells a) 0) by (apply wrapu_id; unfold in_u64; lia).
        rewrite Ew.
        assert (Hsti : nth i st 0 <= nth i (cells a) 0).
        { clear -H1. revert i H1. generalize (cells a) as cs. induction st as [|h st IH]; intros [|c cs] i H; simpl in *; try contradiction.
          - destruct i; lia.
          - destruct H as [Ha Hb]. destruct i; [lia|]. apply IH; auto. }
        split; lia.
      * constructor; cbn; auto; apply Forall_upd; cbn; auto; try lia.
        apply Nat.ltb_ge in Ei. assert (i = length (cells a)) by lia. subst i.
        split; [exact H1|].
        assert (E1 : firstn (length (cells a)) st = st) by (rewrite <- El; apply firstn_all).
        rewrite E1, firstn_all in H3. exact H3.
Qed.

Lemma adder_init_minv n k : MInv (adder_init n k).
Proof.
  constructor; cbn.
  - induction n; cbn; constructor; auto; lia.
  - rewrite sumZ_repeat0. reflexivity.
  - induction k; cbn; constructor; cbn; auto; lia.
  - induction k; cbn; constructor; cbn; auto.
Qed.

Lemma arun_snoc sch x a : arun (sch ++ [x]) a = astep (arun sch a) x.
Proof. unfold arun. rewrite fold_left_app. reflexivity. Qed.

Lemma NoWrap_run sch a : NoWrap (arun sch a) -> NoWrap a.
Proof.
  revert a; induction sch as [|x sch IH]; intros a H; [exact H|].
  unfold arun in *. cbn [fold_left] in H. apply IH in H. eapply NoWrap_step; exact H.
Qed.

(* both invariants for every run whose final state has not wrapped *)
Theorem adder_minv sch a : AInv a -> MInv a -> NoWrap (arun sch a) -> MInv (arun sch a).
Proof.
  induction sch as [|x sch IH] using rev_ind; intros HA HM HN; [exact HM|].
  rewrite arun_snoc in *. apply astep_minv; [apply adder_inv; exact HA| |exact HN].
  apply IH; auto. eapply NoWrap_step; exact HN.
Qed.

(* the stripes never decrease along a run that does not wrap *)
Lemma astep_cells_le a inp : AInv a -> MInv a -> NoWrap (astep a inp) -> le_all (cells a) (cells (astep a inp)).
Proof.
  intros HA HM HN. pose proof (NoWrap_step _ _ HN) as HN0.
  destruct HA as [Hn Hr _ Hacc _ Ht]. destruct HM as [Hp Hs Hd Hsc].
  destruct inp as [t x]. unfold astep.
  destruct (t <? length (aths a))%nat eqn:Et; cbn [negb]; [|apply le_all_refl].
  destruct x as [d i| |fresh].
  - destruct (is_running _); apply le_all_refl.
  - destruct (is_running _); apply le_all_refl.
  - destruct (nth t (aths a) TIdle) as [|d i|d i c|d|i acc st|v st] eqn:Eth; try apply le_all_refl.
    + destruct (nth i (cells a) 0 =? c) eqn:Ec; [|apply le_all_refl].
      apply Z.eqb_eq in Ec. cbn [cells].
      pose proof (th_ok_nth _ _ t Ht) as Hth. rewrite Eth in Hth. cbn in Hth.
      apply le_all_upd; [apply le_all_refl|].
      pose proof (Forall_nth_th _ _ t Hd) as Hd0. rewrite Eth in Hd0. cbn in Hd0. specialize (Hd0 ltac:(lia)).
      pose proof (nth_le_sumZ _ i Hp) as Hci. rewrite Ec in Hci.
      pose proof (pending_nth_le _ t Hd) as Hpt. rewrite Eth in Hpt. cbn in Hpt.
      destruct HN0 as [_ HN2].
      assert (Hc0 : 0 <= c) by (rewrite <- Ec; apply (Forall_nth_Z (fun z => 0 <= z)); auto).
      rewrite wrapu_id by (unfold in_u64; lia). lia.
    + destruct (i <? length (cells a))%nat; apply le_all_refl.
Qed.

Lemma le_all_trans a b c : le_all a b -> le_all b c -> le_all a c.
Proof.
  revert b c; induction a as [|x a IH]; intros [|y b] [|z c] H1 H2; simpl in *; try contradiction; auto.
  destruct H1, H2. split; [lia|]. eapply IH; eauto.
Qed.

Theorem cells_monotone sch a : AInv a -> MInv a -> NoWrap (arun sch a) -> le_all (cells a) (cells (arun sch a)).
Proof.
  induction sch as [|x sch IH] using rev_ind; intros HA HM HN; [apply le_all_refl|].
  rewrite arun_snoc in *. pose proof (NoWrap_step _ _ HN) as HN0.
  eapply le_all_trans; [apply IH; auto|].
  apply astep_cells_le; auto; [apply adder_inv; exact HA|apply adder_minv; auto].
Qed.

(* a Value() that overlapped any Adds returned something between the total when it was invoked
   and the total when it returned (and the total now) *)
Theorem scan_bounds n k sch t v st :
  (0 < n)%nat ->
  let a := arun sch (adder_init n k) in
  NoWrap a -> nth t (aths a) TIdle = TVal v st ->
  sumZ st <= v <= sumZ (cells a).
Proof.
  intros Hn a HN Et.
  pose proof (adder_minv sch _ (adder_init_inv n k Hn) (adder_init_minv n k) HN) as [_ _ _ Hsc].
  pose proof (Forall_nth_th _ _ t Hsc I) as X. fold a in X. rewrite Et in X. cbn in X. tauto.
Qed.

(* the ghost really is the stripes at the invocation *)
Lemma scan_start_snapshot a t :
  (t < length (aths a))%nat -> is_running (nth t (aths a) TIdle) = false ->
  nth t (aths (astep a (t, IScan))) TIdle = TScan 0 0 (cells a).
Proof.
  intros Ht Hr. unfold astep. apply Nat.ltb_lt in Ht. rewrite Ht. cbn [negb]. rewrite Hr. cbn.
  apply nth_upd_same. apply Nat.ltb_lt. exact Ht.
Qed.

(* a scan's ghost is not touched by anybody else, nor by its own steps *)
Definition same_scan (st : list Z) (x : athread) : Prop :=
  match x with TScan _ _ s | TVal _ s => s = st | _ => False end.

Lemma astep_same_scan a inp t st :
  same_scan st (nth t (aths a) TIdle) -> ~ (fst inp = t /\ snd inp = IScan) ->
  (forall d i, ~ (fst inp = t /\ snd inp = IAdd d i)) ->
  same_scan st (nth t (aths (astep a inp)) TIdle).
Proof.
  intros Hs Hno Hno2. destruct inp as [u x]. unfold astep.
  destruct (u <? length (aths a))%nat eqn:Eu; cbn [negb]; [|exact Hs].
  apply Nat.ltb_lt in Eu.
  destruct (Nat.eq_dec u t) as [->|Hne].
  - destruct x as [d i| |fresh].
    + exfalso. eapply Hno2. split; reflexivity.
    + exfalso. apply Hno. split; reflexivity.
    + destruct (nth t (aths a) TIdle) as [|d i|d i c|d|i acc s|v s] eqn:Eth; cbn in Hs; try contradiction.
      * destruct (_ <? _)%nat; cbn; rewrite nth_upd_same by exact Eu; cbn; exact Hs.
      * rewrite Eth. cbn. exact Hs.
  - destruct x as [d i| |fresh].
    + destruct (is_running _); [exact Hs|]. cbn. rewrite nth_upd_other by exact Hne. exact Hs.
    + destruct (is_running _); [exact Hs|]. cbn. rewrite nth_upd_other by exact Hne. exact Hs.
    + destruct (nth u (aths a) TIdle) as [|d i|d i c|d|i acc s|v s]; try exact Hs.
      * cbn. rewrite nth_upd_other by exact Hne. exact Hs.
      * destruct (_ =? _); cbn; rewrite nth_upd_other by exact Hne; exact Hs.
      * destruct (_ <? _)%nat; cbn; rewrite nth_upd_other by exact Hne; exact Hs.
Qed.

Definition no_restart (t : nat) (sch : list (nat * ainp)) : Prop :=
  Forall (fun inp => ~ (fst inp = t /\ snd inp = IScan) /\ forall d i, ~ (fst inp = t /\ snd inp = IAdd d i)) sch.

Lemma arun_same_scan sch a t st :
  same_scan st (nth t (aths a) TIdle) -> no_restart t sch -> same_scan st (nth t (aths (arun sch a)) TIdle).
Proof.
  revert a; induction sch as [|x sch IH]; intros a Hs Hn; [exact Hs|].
  inversion Hn; subst. unfold arun. cbn [fold_left]. apply IH; [|assumption].
  destruct H1. apply astep_same_scan; auto.
Qed.

(* "counters never decrease": a Value() invoked after another Value() had returned v1 — whatever
   Adds and other scans overlap either of them — does not return less *)
Theorem value_never_decreases n k sch1 sch2 sch3 t1 t2 v1 st1 v2 st2 :
  (0 < n)%nat ->
  let a1 := arun sch1 (adder_init n k) in
  let a2 := arun sch2 a1 in
  let a3 := astep a2 (t2, IScan) in
  let a4 := arun sch3 a3 in
  NoWrap a4 ->
  nth t1 (aths a1) TIdle = TVal v1 st1 ->                       (* the first Value() has returned v1 *)
  (t2 < length (aths a2))%nat -> is_running (nth t2 (aths a2) TIdle) = false ->   (* the second is invoked later *)
  no_restart t2 sch3 ->
  nth t2 (aths a4) TIdle = TVal v2 st2 ->                       (* ... and has returned v2 *)
  v1 <= v2.
Proof.
  intros Hn a1 a2 a3 a4 HN E1 Ht2 Hr2 Hnr E2.
  pose proof (adder_init_inv n k Hn) as HA0. pose proof (adder_init_minv n k) as HM0.
  assert (HN3 : NoWrap a3) by (eapply NoWrap_run; exact HN).
  assert (HN2 : NoWrap a2) by (eapply NoWrap_step; exact HN3).
  assert (HN1 : NoWrap a1) by (eapply NoWrap_run; exact HN2).
  pose proof (adder_inv sch1 _ HA0) as HA1. fold a1 in HA1.
  pose proof (adder_minv sch1 _ HA0 HM0 HN1) as HM1. fold a1 in HM1.
  pose proof (adder_inv sch2 _ HA1) as HA2. fold a2 in HA2.
  pose proof (adder_minv sch2 _ HA1 HM1 HN2) as HM2. fold a2 in HM2.
  pose proof (astep_inv _ (t2, IScan) HA2) as HA3. fold a3 in HA3.
  pose proof (astep_minv _ (t2, IScan) HA2 HM2 HN3) as HM3. fold a3 in HM3.
  pose proof (adder_minv sch3 _ HA3 HM3 HN) as HM4. fold a4 in HM4.
  (* v1 <= total at a1 <= total at a2 = start of the second scan <= v2 *)
  destruct HM1 as [_ _ _ Hsc1]. pose proof (Forall_nth_th _ _ t1 Hsc1 I) as X1. rewrite E1 in X1. cbn in X1.
  pose proof (le_all_sum _ _ (cells_monotone sch2 _ HA1 (adder_minv sch1 _ HA0 HM0 HN1) HN2)) as M12. fold a1 a2 in M12.
  pose proof (scan_start_snapshot a2 t2 Ht2 Hr2) as S3. fold a3 in S3.
  assert (SS : same_scan (cells a2) (nth t2 (aths a4) TIdle)).
  { apply arun_same_scan; [rewrite S3; reflexivity|exact Hnr]. }
  rewrite E2 in SS. cbn in SS. subst st2.
  destruct HM4 as [_ _ _ Hsc4]. pose proof (Forall_nth_th _ _ t2 Hsc4 I) as X4. rewrite E2 in X4. cbn in X4.
  lia.
Qed.

(* non-vacuity: two Adds collide on one stripe (the second CAS fails and moves on), a scan overlaps *)
Definition adder_example_run : adder :=
  arun [(0, IAdd 5 0); (1, IAdd 7 0); (0, IGo 0); (1, IGo 0); (2, IScan); (2, IGo 0); (0, IGo 0); (1, IGo 1);
        (1, IGo 0); (1, IGo 0); (2, IGo 0); (2, IGo 0)]%nat (adder_init 2 3).

Example adder_example :
  cells adder_example_run = [5; 7] /\ nth 2 (aths adder_example_run) TIdle = TVal 7 [0; 0] /\
  deltas (started adder_example_run) = [5; 7] /\
  forallb (fun x => negb (is_running x)) (aths adder_example_run) = true.
Proof. vm_compute. repeat split; reflexivity. Qed.
