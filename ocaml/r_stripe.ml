(* r_stripe.ml — replays a "stripe" engine trace on the extracted striped-table model (Striped.v).
   A macro step of the implementation (one goroutine from hook point to hook point) is one to four
   small steps of the model; their inputs (ring.add outcome, fresh probe index, whether a pre-check let
   the caller try the CAS) are not observable one by one, so the replayer searches the few candidates
   for a continuation that ends in exactly the observed configuration. *)
open Util
module M = Model

let pc_label (p : M.spc) : string =
  match p with
  | M.A0 -> "P10" | M.A1 -> "P11" | M.A2 -> "R3a"
  | M.E1 -> "P13" | M.E2 -> "P14" | M.E3 -> "P2" | M.E4 -> "P15" | M.E5 -> "P16"
  | M.E6 -> "R3e" | M.E6b -> "P18" | M.E7 -> "E7" | M.E7c -> "P20" | M.E8 -> "P21"
  | M.E9 -> "E9" | M.E9c -> "P23" | M.E9r -> "P24"
  | M.SDone M.SrSuccess -> "D0" | M.SDone M.SrFailed -> "D-1" | M.SDone M.SrFull -> "D1"

let nth_opt l i = try Some (List.nth l i) with _ -> None

(* split "P13:123" into ("P13", Some 123) *)
let split_obs (s : string) : string * int option =
  match String.index_opt s ':' with
  | Some k -> (String.sub s 0 k, Some (int_of_string (String.sub s (k + 1) (String.length s - k - 1))))
  | None -> (s, None)

let cur_len (s : M.sstate) : int =
  match M.cur s with
  | Some g -> (match nth_opt (M.tables s) (int_of_nat g) with Some tb -> List.length tb | None -> 0)
  | None -> 0

let matches (s : M.sstate) (busy : string) (len : string) (att : string) (ths : string list) : bool =
  (if M.busy s then "1" else "0") = busy
  && string_of_int (cur_len s) = len
  && string_of_int (List.length (M.rings s)) = att
  && List.length ths = List.length (M.sths s)
  && List.for_all2 (fun o t ->
         let (lbl, pr) = split_obs o in
         lbl = pc_label (M.spc_ t)
         && (match pr with Some p -> int_of_nat (M.idx t) = p | None -> true))
       ths (M.sths s)

let run (path : string) : unit =
  let s = ref (M.sstate0 (nat_of_int 1)) in
  let dead = ref false in
  let pending : [ `None | `New of string | `Step of int ] ref = ref `None in
  iter_lines path (fun ln toks ->
      match toks with
      | [ "CASE"; _; maxl ] -> s := M.sstate0 (nat_of_int (int_of_string maxl)); dead := false; pending := `None; count "schedules"
      | _ when !dead -> ()
      | [ "N"; v ] -> pending := `New v
      | [ "S"; i ] -> pending := `Step (int_of_string i)
      | "O" :: busy :: len :: att :: ths ->
          count "states_compared";
          (match !pending with
           | `None -> mismatch "stripe" ln "observation without an action"; dead := true
           | `New v ->
               (* the new thread's probe index is in its own observation *)
               let me = List.nth ths (List.length ths - 1) in
               let (_, pr) = split_obs me in
               let probe = match pr with Some p -> p | None -> 0 in
               s := M.sadd !s (mz_of_string v) (nat_of_int probe);
               if not (matches !s busy len att ths) then begin
                 mismatch "stripe" ln "after starting a thread the model differs from [%s]" (String.concat " " ths); dead := true
               end
           | `Step i ->
               count "macro_steps";
               let target_probe =
                 match nth_opt ths i with
                 | Some o -> (match split_obs o with (_, Some p) -> p | _ -> 0)
                 | None -> 0 in
               let cands = [ 0; 1; 2; target_probe ] in
               (* shortest continuation first: all one-step continuations, then two steps, ... *)
               let rec search (st : M.sstate) (left : int) : M.sstate option =
                 if left = 0 then (if matches st busy len att ths then Some st else None)
                 else
                   List.fold_left (fun acc o ->
                       match acc with
                       | Some _ -> acc
                       | None -> search (M.sstep st (nat_of_int i) (nat_of_int o)) (left - 1))
                     None cands in
               let rec deepen d = if d > 4 then None else match search !s d with Some st -> Some st | None -> deepen (d + 1) in
               (match deepen 1 with
                | Some st -> s := st
                | None ->
                    let cur = match nth_opt (M.sths !s) i with
                      | Some t -> Printf.sprintf "%s attempt=%d idx=%d snap=%s model-busy=%b model-len=%d model-rings=%d" (pc_label (M.spc_ t)) (int_of_nat (M.attempt t)) (int_of_nat (M.idx t))
                                    (match M.snap t with Some g -> string_of_int (int_of_nat g) | None -> "nil") (M.busy !s) (cur_len !s) (List.length (M.rings !s))
                      | None -> "?" in
                    mismatch "stripe" ln "no model continuation of thread %d (at %s) reaches [busy=%s len=%s rings=%s %s]" i cur busy len att (String.concat " " ths);
                    dead := true));
          pending := `None
      | "END" :: drained ->
          let recorded = List.sort compare (List.map (fun z -> string_of_mz z) (List.concat (M.rings !s))) in
          let got = List.sort compare drained in
          if recorded <> got then
            mismatch "stripe" ln "drained [%s], the model's rings hold [%s]" (String.concat " " got) (String.concat " " recorded)
      | [ "ABORT" ] -> dead := true
      | _ -> mismatch "stripe" ln "unparsed trace line")
