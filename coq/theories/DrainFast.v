(* DrainFast.v — the same exhaustive exploration as Drain.v's [explore], on a positive-keyed map:
   configurations are stored under a compact numeric key; a key that is already taken by a DIFFERENT
   configuration makes the check fail (so injectivity of the key is not assumed).  With it the
   populations of DrainBounded.v take seconds and larger ones become feasible. *)
From stdpp Require Import gmap pmap.
From Coq Require Import List.
Import ListNotations.
From Otter Require Import Drain DrainProofs.

Definition enc_thread (acc : N) (t : thread) : N :=
  (N.of_nat (pc_to_nat t.1) + 32 * (N.of_nat t.2 + 32 * acc))%N.

Definition enc (s : dstate) : positive :=
  N.succ_pos (N.of_nat (ds_of s) + 4 * ((if lock_of s then 1 else 0) + 2 * (N.of_nat (wb_of s) + 64 * fold_left enc_thread (ths_of s) 1)))%N.

Definition mem (m : Pmap dstate) (s : dstate) : bool :=
  match m !! enc s with Some s' => bool_decide (s' = s) | None => false end.

(* add the successors of the frontier; None = key collision *)
Fixpoint add_all (l : list dstate) (fr : list dstate) (m : Pmap dstate) : option (list dstate * Pmap dstate) :=
  match l with
  | [] => Some (fr, m)
  | s :: l' =>
      match m !! enc s with
      | Some s' => if bool_decide (s' = s) then add_all l' fr m else None
      | None => add_all l' (s :: fr) (<[enc s := s]> m)
      end
  end.

Fixpoint explore_fast (fuel : nat) (frontier : list dstate) (m : Pmap dstate) : option (Pmap dstate) :=
  match fuel with
  | O => None
  | S f =>
      match frontier with
      | [] => Some m
      | _ => match add_all (flat_map succs frontier) [] m with
             | Some (fr, m') => explore_fast f fr m'
             | None => None
             end
      end
  end.

Definition values (m : Pmap dstate) : list dstate := map snd (map_to_list m).

Definition closed_fast (m : Pmap dstate) : bool :=
  forallb (fun s => forallb (mem m) (succs s)) (values m).

Definition terminals_drained_fast (m : Pmap dstate) : bool :=
  forallb (fun s => implb (terminal s) (drained s)) (values m).

Definition check_fast (w c fuel : nat) : bool :=
  let s0 := dinit w c in
  match explore_fast fuel [s0] {[enc s0 := s0]} with
  | Some m => mem m s0 && closed_fast m && terminals_drained_fast m
  | None => false
  end.

Definition size_fast (w c fuel : nat) : option nat :=
  let s0 := dinit w c in
  match explore_fast fuel [s0] {[enc s0 := s0]} with Some m => Some (length (values m)) | None => None end.

(* ---- soundness *)
Lemma mem_values m s : mem m s = true -> In s (values m).
Proof.
  unfold mem, values. destruct (m !! enc s) as [s'|] eqn:E; [|discriminate].
  intros H. apply bool_decide_eq_true in H. subst s'.
  apply in_map_iff. exists (enc s, s). split; [reflexivity|].
  apply elem_of_list_In. apply elem_of_map_to_list. exact E.
Qed.

Lemma closed_fast_spec m : closed_fast m = true -> forall s s', mem m s = true -> In s' (succs s) -> mem m s' = true.
Proof.
  unfold closed_fast. intros H s s' Hs Hs'. rewrite forallb_forall in H.
  specialize (H s (mem_values m s Hs)). rewrite forallb_forall in H. exact (H s' Hs').
Qed.

Theorem closed_fast_contains_reachable m s0 :
  mem m s0 = true -> closed_fast m = true -> forall s, reachable s0 s -> mem m s = true.
Proof.
  intros H0 Hc s R. induction R as [|s i s' R IH Hs]; [assumption|].
  eapply closed_fast_spec; [eassumption|eassumption|]. eapply succs_complete. eassumption.
Qed.

Theorem check_fast_sound w c fuel : check_fast w c fuel = true ->
  forall sched, let s := run_sched (dinit w c) sched in terminal s = true -> drained s = true.
Proof.
  unfold check_fast. destruct (explore_fast fuel [dinit w c] _) as [m|]; [|discriminate].
  intros H sched. cbv zeta. intros T.
  apply andb_true_iff in H. destruct H as [H Hd]. apply andb_true_iff in H. destruct H as [H0 Hc].
  assert (R : reachable (dinit w c) (run_sched (dinit w c) sched)) by (apply run_sched_reachable; constructor).
  pose proof (closed_fast_contains_reachable m (dinit w c) H0 Hc _ R) as Hm.
  unfold terminals_drained_fast in Hd. rewrite forallb_forall in Hd.
  specialize (Hd _ (mem_values m _ Hm)). rewrite T in Hd. exact Hd.
Qed.
