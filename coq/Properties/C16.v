(* C16 — Write buffer: each event delivered exactly once, in producer order, bounded.
   Model: Mpsc.v — the chunked MPSC queue with a push split into "reserve" (up to the winning
   producer-index CAS) and "publish" (the slot store).  The implementation is compared with the
   model after every call over all capacity pairs, including states with a producer parked between
   reserve and publish; exactly-once / per-producer order / bound are checked on free-running runs.

   Proved here (theories/MpscFifo.v), for EVERY pair of capacities NewMPSC accepts and EVERY
   sequence of complete pushes and pops — through every growth step (a new buffer of twice the
   size, JUMP marker, link) and every move of the consumer into the next buffer:
     - C16_seq_fifo: the queue answers exactly like a FIFO list of capacity roundup32(maximum):
       every accepted element is returned exactly once, in the order accepted, nothing else is
       ever returned, "empty" is reported exactly when the list is empty;
     - C16_refused_exactly_when_full / C16_size_bounded: an offer is refused exactly when the
       queue holds its maximum, and the size never exceeds it.
   CONCURRENT producers (theories/MpscConc.v), at the granularity the code offers — a push is
   "reserve" (everything up to and including the winning producer-index CAS; a growth step is part
   of it) and, later, "publish" (the slot store); any number of producers may sit between the two
   while others reserve, publish or grow the queue and the consumer pops:
     - C16_concurrent_fifo: every interleaving of reservations, publications and pops is explained
       by a FIFO of RESERVATIONS of capacity roundup32(maximum): elements are delivered exactly
       once, in reservation order (hence in every producer's program order), the consumer waits
       at a reserved, unpublished cell and never passes it, "empty" is reported only when nothing is
       reserved, and an offer is refused exactly when the queue holds its maximum.
   Not modelled: the individual loads inside "reserve" (the producers' retry loop on a failed CAS
   and their spinning while another producer's growth step is in progress are atomic here; the
   engine's parked-resize windows exercise them). *)
From Otter Require Import Base Sketch Mpsc MpscFacts MpscFifo MpscConc MpscIndex MpscIndexProofs.

Theorem C16_seq_fifo : forall initial maximum ops,
  2 <= initial <= 2 ^ 31 -> 4 <= maximum <= 2 ^ 31 -> roundup32 initial <= roundup32 maximum ->
  qrun (mpsc_new initial maximum) ops = frun (roundup32 maximum) [] ops.
Proof.
  intros initial maximum ops Hi Hm Hle. destruct (inv_new initial maximum Hi Hm Hle) as [HI Hc].
  rewrite <- Hc. exact (fifo_refinement ops _ _ HI).
Qed.
Print Assumptions C16_seq_fifo.

Theorem C16_size_bounded : forall initial maximum ops,
  2 <= initial <= 2 ^ 31 -> 4 <= maximum <= 2 ^ 31 -> roundup32 initial <= roundup32 maximum ->
  let q := qstate (mpsc_new initial maximum) ops in
  0 <= mpsc_size q <= mpsc_capacity q.
Proof.
  intros initial maximum ops Hi Hm Hle. destruct (inv_new initial maximum Hi Hm Hle) as [HI _].
  destruct (inv_reachable ops _ _ HI) as (segs' & HI'). exact (size_bounded _ _ HI').
Qed.
Print Assumptions C16_size_bounded.

Theorem C16_refused_exactly_when_full : forall initial maximum ops v,
  2 <= initial <= 2 ^ 31 -> 4 <= maximum <= 2 ^ 31 -> roundup32 initial <= roundup32 maximum ->
  let q := qstate (mpsc_new initial maximum) ops in
  snd (try_push q v) = false <-> mpsc_size q = mpsc_capacity q.
Proof.
  intros initial maximum ops v Hi Hm Hle. destruct (inv_new initial maximum Hi Hm Hle) as [HI _].
  destruct (inv_reachable ops _ _ HI) as (segs' & HI'). exact (refused_iff_full _ _ v HI').
Qed.
Print Assumptions C16_refused_exactly_when_full.

Theorem C16_concurrent_fifo : forall initial maximum ops,
  2 <= initial <= 2 ^ 31 -> 4 <= maximum <= 2 ^ 31 -> roundup32 initial <= roundup32 maximum ->
  explained (roundup32 maximum) (mpsc_new initial maximum, []) (0, []) ops.
Proof. exact conc_fifo. Qed.
Print Assumptions C16_concurrent_fifo.

(* one step of the concurrent machine from any state related to the specification *)
Theorem C16_concurrent_step : forall c a o,
  CR c a ->
  let '(c', out) := cstep c o in
  exists a', astep (mpsc_capacity (fst c)) a o out = Some a' /\ CR c' a' /\
             mpsc_capacity (fst c') = mpsc_capacity (fst c).
Proof. exact sim_step. Qed.
Print Assumptions C16_concurrent_step.

(* non-vacuity: two producers reserve, the second publishes first, the consumer must wait for the
   first; then both values come out in reservation order *)
Example C16_concurrent_instance :
  let c0 : cstate := (mpsc_new 4 8, []) in
  let '(c1, o1) := cstep c0 (CReserve 10) in
  let '(c2, o2) := cstep c1 (CReserve 20) in
  let '(c3, o3) := cstep c2 (CPublish 1) in
  let '(c4, o4) := cstep c3 CPop in
  let '(c5, o5) := cstep c4 (CPublish 0) in
  let '(c6, o6) := cstep c5 CPop in
  let '(c7, o7) := cstep c6 CPop in
  (o1, o2, o3, o4, o5, o6, o7) =
  (OTicket 0 false, OTicket 1 false, OPublished true, OPopped PopWait, OPublished true,
   OPopped (PopElem 10), OPopped (PopElem 20)).
Proof. vm_compute. reflexivity. Qed.

(* the rounding NewMPSC applies: the least power of two >= x *)
Theorem C16_capacity_rounding : forall x, 1 < x <= 2 ^ 31 -> roundup32 x = 2 ^ Z.log2_up x.
Proof. exact roundup32_spec. Qed.
Print Assumptions C16_capacity_rounding.

(* in ANY state (no invariant needed): refusal needs a full index range, "empty" needs the consumer
   to have caught up, a reserved-but-unpublished slot makes the consumer wait, a pop returns only
   what is stored *)
Theorem C16_refused_only_when_full : forall q v q',
  push_reserve q v = (q', RFull) -> q' = q /\ maxcap q - (pidx q - cidx q) <= 0.
Proof. exact refuse_only_when_full. Qed.
Print Assumptions C16_refused_only_when_full.

Theorem C16_empty_only_when_caught_up : forall q q', try_pop q = (q', PopEmpty) -> cidx q = pidx q.
Proof. exact pop_empty_only_when_caught_up. Qed.
Print Assumptions C16_empty_only_when_caught_up.

Theorem C16_consumer_waits_for_reserved_slot : forall q,
  buf_get q (cbuf q) (offset_of (cidx q) (cmask q)) = SNil -> cidx q <> pidx q -> try_pop q = (q, PopWait).
Proof. exact pop_waits_for_reserved_slot. Qed.
Print Assumptions C16_consumer_waits_for_reserved_slot.

Theorem C16_no_phantom : forall q q' v,
  try_pop q = (q', PopElem v) ->
  buf_get q (cbuf q) (offset_of (cidx q) (cmask q)) = SElem v \/ buf_get q (cbuf q) (offset_of (cidx q) (cmask q)) = SJump.
Proof. exact pop_returns_stored. Qed.
Print Assumptions C16_no_phantom.

(* across every growth step from capacity 2 to 8: nothing lost, nothing duplicated, order kept,
   the ninth offer refused, and the freed space reusable *)
Example C16_growth_instance :
  let push q v := fst (try_push q v) in
  let q8 := fold_left push [1; 2; 3; 4; 5; 6; 7; 8] (mpsc_new 2 8) in
  snd (try_push q8 9) = false /\ mpsc_size q8 = 8 /\
  (let '(q, r1) := try_pop q8 in let '(q, r2) := try_pop q in let '(q, r3) := try_pop q in
   let q := push (push q 10) 11 in
   let '(q, r4) := try_pop q in
   (r1, r2, r3, r4, mpsc_size q)) = (PopElem 1, PopElem 2, PopElem 3, PopElem 4, 6).
Proof. vm_compute. repeat split. Qed.

(* ---- the index protocol of TryPush at the granularity of its individual loads and CASes (MpscIndex.v):
   the producer limit, the producer index, the mask and the consumer index are read one after the other and
   may all be stale when used.  For any number of producers, every schedule and any consumer progress:
   the queue never holds more than its capacity, and whenever the CAS on the producer index succeeds the
   mask read earlier is still the current buffer's and the slot lies in that buffer's free window — also
   when a resize happened since the limit was read (buffers only grow).  This is what justifies the atomic
   reserve step of C16_concurrent_fifo. ---- *)
Theorem C16_index_protocol_safe : forall b0 mx n es, 1 <= b0 <= mx ->
  let s := irun (iinit b0 mx n) es in
  0 <= ip s - ic s <= imax s /\
  forall i t, nth_error (iths s) i = Some t -> ipc_ t = P4 -> irz s = false -> ip s = l_p t ->
    l_gen t = igen s /\ l_bcap t = ibcap s /\
    Z.max (ic s) (ibase s) <= l_p t < Z.max (ic s) (ibase s) + ibcap s /\ l_p t - ic s < imax s.
Proof. exact mpsc_index_safe. Qed.
Print Assumptions C16_index_protocol_safe.

Theorem C16_producer_limit_never_decreases : forall s i, IInv s -> ilim s <= ilim (istep s i).
Proof. exact limit_never_decreases. Qed.
Print Assumptions C16_producer_limit_never_decreases.

(* producers 0 and 1 claim slots 0 and 1 of the first buffer (capacity 2); producer 3 reads the limit (2)
   early; producer 2 finds the buffer full and grows the queue (new buffer from index 2, capacity 4, limit
   6); the consumer takes two; producer 3 goes on with its stale limit, takes the slow path, loses the CAS
   on the limit (it has moved), starts over and claims slot 3 of the new buffer *)
Example C16_index_protocol_instance :
  let rp := fun (i n : nat) => repeat (EvP i) n in
  let es := rp 0%nat 5%nat ++ rp 1%nat 5%nat ++ [EvP 3%nat] ++ rp 2%nat 8%nat ++ [EvC; EvC] ++ rp 3%nat 12%nat in
  let fin := irun (iinit 2 8 4) es in
  (ip fin, ic fin, ilim fin, ibase fin, ibcap fin, igen fin, irz fin) = (4, 2, 6, 2, 4, 1%nat, false) /\
  map ipc_ (iths fin) = [IClaimed 0 0; IClaimed 1 0; IGrown 2 1; IClaimed 3 1].
Proof. vm_compute. split; reflexivity. Qed.
