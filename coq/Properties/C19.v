(* C19 — Saving and reloading a cache reproduces its live contents and deadlines.
   Model: Persist.v — LoadCacheFrom's per-entry program over the concrete cache model. *)
From Otter Require Import Base Seq Spec SeqRefine SeqFacts Persist.

(* an entry not expired at load time is loaded with its key, value and saved expiration deadline,
   for any number of warm-up reads and any read calculator (access-reset included) *)
Theorem C19_entry_roundtrip : forall c, cfg_ok c -> forall s e reads now,
  with_exp c = true -> time_ok now -> now < sv_exp e < MaxInt64 -> lookup (sv_key e) (cmap s) = None ->
  exists n, lookup (sv_key e) (cmap (load_entry c s e reads now)) = Some n /\ nval n = sv_val e /\ nexp n = sv_exp e.
Proof. exact load_entry_exp. Qed.
Print Assumptions C19_entry_roundtrip.

(* nothing that is expired at load time (deadline <= now) is loaded *)
Theorem C19_nothing_expired_loaded : forall c s e reads now,
  with_exp c = true -> sv_exp e <= now -> load_entry c s e reads now = s.
Proof. exact load_entry_skips_expired. Qed.
Print Assumptions C19_nothing_expired_loaded.

Example C19_nonvacuous :
  let c := mkCfg true true false false (fun _ _ => 1) (fun _ _ _ => 100) (fun _ _ _ _ => 100) (fun _ _ _ => 100)
                 (fun _ _ _ => 30) (fun _ _ _ _ => 30) (fun _ _ _ _ => 30) (fun _ _ cur => cur) in
  let s := load_entry c cstate0 (mkSaved 1 11 1 5000 4000) 2 2000 in
  match lookup 1 (cmap s) with Some n => (nval n, nexp n, nrefr n) | None => (0, 0, 0) end = (11, 5000, 4000) /\
  load_entry c cstate0 (mkSaved 1 11 1 2000 4000) 2 2000 = cstate0.
Proof. vm_compute. split; reflexivity. Qed.
