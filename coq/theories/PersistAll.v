(* PersistAll.v — SaveCacheTo / LoadCacheFrom over a whole file (persistence.go): the loop with its size
   cut-off around the per-entry program of Persist.v.  Every saved entry that is not expired at load
   time and not cut off is present afterwards with its key, value and deadline; nothing else appears;
   when the saved contents fit the target's maximum nothing is cut off. *)
From Otter Require Import Base Seq Spec SeqRefine SeqFacts Persist.
From Coq Require Import ZifyBool.
Local Open Scope Z_scope.

Arguments wraps : simpl never.
Arguments satadd : simpl never.

(* the entries the loop hands to the per-entry program, with the size reached before each of them *)
Fixpoint taken (c : cfg) (maxi size : Z) (es : list saved) (now : Z) : list saved :=
  match es with
  | [] => []
  | e :: rest =>
      if (size >=? maxi) && (sv_weight e >? 0) then taken c maxi size rest now
      else if with_exp c && (sv_exp e <=? now) then taken c maxi size rest now
      else e :: taken c maxi (size + sv_weight e) rest now
  end.

Fixpoint load_all (c : cfg) (maxi : Z) (reads : Z -> nat) (s : cstate) (size : Z) (es : list saved) (now : Z) : cstate :=
  match es with
  | [] => s
  | e :: rest =>
      if (size >=? maxi) && (sv_weight e >? 0) then load_all c maxi reads s size rest now
      else if with_exp c && (sv_exp e <=? now) then load_all c maxi reads s size rest now
      else load_all c maxi reads (load_entry c s e (reads (size + sv_weight e)) now) (size + sv_weight e) rest now
  end.

(* SaveCacheTo: the same cut-off over the Hottest enumeration *)
Fixpoint save_list (maxi size : Z) (hot : list saved) : list saved :=
  match hot with
  | [] => []
  | e :: rest => if (size >=? maxi) && (sv_weight e >? 0) then save_list maxi size rest
                 else e :: save_list maxi (size + sv_weight e) rest
  end.

Lemma lookup_put_other k k' n m : k <> k' -> lookup k' (put k n m) = lookup k' m.
Proof.
  intros H. unfold put. cbn [lookup fst]. replace (k =? k') with false by lia. apply lookup_remove_other. exact H.
Qed.

Section F.
Variable c : cfg.

Lemma warm_frame k k' : k <> k' -> forall reads s now, lookup k' (cmap (warm c s k reads now)) = lookup k' (cmap s).
Proof.
  intros H. induction reads as [|r IH]; intros s now; [reflexivity|]. cbn [warm]. rewrite IH.
  unfold get_node. destruct (lookup k (cmap s)) as [n|]; [|reflexivity].
  destruct (has_expired c n now); [reflexivity|]. cbn [fst cmap upd_st upd_map]. apply lookup_mutate_other. exact H.
Qed.

Lemma sea_frame k k' d now s : k <> k' -> lookup k' (cmap (do_set_expires_after c s k d now)) = lookup k' (cmap s).
Proof.
  intros H. unfold do_set_expires_after. destruct (negb (with_exp c) || (d <=? 0)); [reflexivity|].
  destruct (lookup k (cmap s)) as [n|]; [|reflexivity]. destruct (has_expired c n now); [reflexivity|].
  cbn [cmap upd_map]. apply lookup_mutate_other. exact H.
Qed.

Lemma sra_frame k k' d now s : k <> k' -> lookup k' (cmap (do_set_refreshable_after c s k d now)) = lookup k' (cmap s).
Proof.
  intros H. unfold do_set_refreshable_after. destruct (negb (with_refr c) || (d <=? 0)); [reflexivity|].
  destruct (lookup k (cmap s)) as [n|]; [|reflexivity]. destruct (negb (wraps (nrefr n - now) =? d)); [|reflexivity].
  cbn [cmap upd_map]. apply lookup_mutate_other. exact H.
Qed.

Lemma set_frame k k' v now s : k <> k' -> lookup k' (cmap (fst (do_set c s k v false now))) = lookup k' (cmap s).
Proof.
  intros H. unfold do_set. cbn [andb]. destruct (atomic_set c k v (lookup k (cmap s)) NoCall now) as [n evs].
  cbn [fst cmap upd_map]. apply lookup_put_other. exact H.
Qed.

Lemma load_entry_frame s e reads now k' :
  sv_key e <> k' -> lookup k' (cmap (load_entry c s e reads now)) = lookup k' (cmap s).
Proof.
  intros H. unfold load_entry. destruct (with_exp c && (sv_exp e <=? now)); [reflexivity|].
  destruct (with_refr c && negb (sv_refr e =? MaxInt64)); [rewrite sra_frame by exact H|];
    (destruct (with_exp c && negb (sv_exp e =? MaxInt64)); [rewrite sea_frame by exact H|];
     rewrite warm_frame by exact H; apply set_frame; exact H).
Qed.

(* keys that are not in the file are not touched *)
Lemma load_all_frame maxi reads now k' : forall es s size,
  ~ In k' (map sv_key es) -> lookup k' (cmap (load_all c maxi reads s size es now)) = lookup k' (cmap s).
Proof.
  induction es as [|e rest IH]; intros s size Hn; [reflexivity|]. cbn [load_all map] in *.
  assert (H1 : sv_key e <> k') by (intros E; apply Hn; left; exact E).
  assert (H2 : ~ In k' (map sv_key rest)) by (intros E; apply Hn; right; exact E).
  destruct ((size >=? maxi) && (sv_weight e >? 0)); [apply IH; exact H2|].
  destruct (with_exp c && (sv_exp e <=? now)); [apply IH; exact H2|].
  rewrite IH by exact H2. apply load_entry_frame. exact H1.
Qed.

Lemma taken_incl maxi now : forall es size e, In e (taken c maxi size es now) -> In e es.
Proof.
  induction es as [|x rest IH]; intros size e H; [destruct H|]. cbn [taken] in H.
  destruct ((size >=? maxi) && (sv_weight x >? 0)); [right; eapply IH; exact H|].
  destruct (with_exp c && (sv_exp x <=? now)); [right; eapply IH; exact H|].
  destruct H as [<-|H]; [left; reflexivity|right; eapply IH; exact H].
Qed.

Hypothesis CO : cfg_ok c.

(* every entry the loop takes, with a deadline in the future, is present afterwards with its key, value and
   deadline — whatever was loaded before and after it *)
Theorem load_all_present maxi reads now :
  with_exp c = true -> time_ok now ->
  forall es s size e,
  NoDup (map sv_key es) -> (forall k, In k (map sv_key es) -> lookup k (cmap s) = None) ->
  In e (taken c maxi size es now) -> sv_exp e < MaxInt64 ->
  exists n, lookup (sv_key e) (cmap (load_all c maxi reads s size es now)) = Some n /\ nval n = sv_val e /\ nexp n = sv_exp e.
Proof.
  intros Hw Ht. induction es as [|x rest IH]; intros s size e Hnd Habs Hin Hlt; [destruct Hin|].
  cbn [map] in Hnd. inversion Hnd as [|? ? Hx Hnd']; subst.
  cbn [taken load_all] in *.
  assert (Habs' : forall k, In k (map sv_key rest) -> lookup k (cmap s) = None) by (intros k Hk; apply Habs; right; exact Hk).
  destruct ((size >=? maxi) && (sv_weight x >? 0)); [apply IH; assumption|].
  rewrite Hw in *. cbn [andb] in *.
  destruct (sv_exp x <=? now) eqn:Ex; [apply IH; assumption|].
  assert (Habs'' : forall k, In k (map sv_key rest) ->
            lookup k (cmap (load_entry c s x (reads (size + sv_weight x)) now)) = None).
  { intros k Hk. rewrite load_entry_frame; [apply Habs'; exact Hk|]. intros E. apply Hx. rewrite E. exact Hk. }
  destruct Hin as [<-|Hin].
  - rewrite load_all_frame by exact Hx.
    apply (load_entry_exp c CO); [exact Hw|exact Ht|lia|apply Habs; left; reflexivity].
  - apply IH; assumption.
Qed.

End F.

(* when the saved contents fit the target's maximum nothing is cut off: the loop takes every entry that is not
   expired *)
Lemma taken_all_when_fits c maxi now : forall es size,
  (forall e, In e es -> 0 <= sv_weight e) ->
  size + fold_right (fun e acc => sv_weight e + acc) 0 es <= maxi ->
  taken c maxi size es now = filter (fun e => negb (with_exp c && (sv_exp e <=? now))) es.
Proof.
  induction es as [|x rest IH]; intros size Hw Hfit; [reflexivity|]. cbn [taken filter fold_right] in *.
  assert (Hx : 0 <= sv_weight x) by (apply Hw; left; reflexivity).
  assert (Hr : forall e, In e rest -> 0 <= sv_weight e) by (intros e He; apply Hw; right; exact He).
  assert (Hs : 0 <= fold_right (fun e acc => sv_weight e + acc) 0 rest).
  { clear -Hr. induction rest as [|y r IHr]; cbn [fold_right]; [lia|].
    assert (0 <= sv_weight y) by (apply Hr; left; reflexivity).
    assert (0 <= fold_right (fun e acc => sv_weight e + acc) 0 r) by (apply IHr; intros e He; apply Hr; right; exact He). lia. }
  replace ((size >=? maxi) && (sv_weight x >? 0)) with false by lia.
  destruct (with_exp c && (sv_exp x <=? now)); cbn [negb].
  - apply IH; [exact Hr|lia].
  - f_equal. apply IH; [exact Hr|lia].
Qed.

Lemma save_list_incl maxi : forall hot size e, In e (save_list maxi size hot) -> In e hot.
Proof.
  induction hot as [|x rest IH]; intros size e H; [destruct H|]. cbn [save_list] in H.
  destruct ((size >=? maxi) && (sv_weight x >? 0)); [right; eapply IH; exact H|].
  destruct H as [<-|H]; [left; reflexivity|right; eapply IH; exact H].
Qed.

Lemma save_list_all_when_fits maxi : forall hot size,
  (forall e, In e hot -> 0 <= sv_weight e) ->
  size + fold_right (fun e acc => sv_weight e + acc) 0 hot <= maxi ->
  save_list maxi size hot = hot.
Proof.
  induction hot as [|x rest IH]; intros size Hw Hfit; [reflexivity|]. cbn [save_list fold_right] in *.
  assert (Hx : 0 <= sv_weight x) by (apply Hw; left; reflexivity).
  assert (Hr : forall e, In e rest -> 0 <= sv_weight e) by (intros e He; apply Hw; right; exact He).
  assert (Hs : 0 <= fold_right (fun e acc => sv_weight e + acc) 0 rest).
  { clear -Hr. induction rest as [|y r IHr]; cbn [fold_right]; [lia|].
    assert (0 <= sv_weight y) by (apply Hr; left; reflexivity).
    assert (0 <= fold_right (fun e acc => sv_weight e + acc) 0 r) by (apply IHr; intros e He; apply Hr; right; exact He). lia. }
  replace ((size >=? maxi) && (sv_weight x >? 0)) with false by lia.
  f_equal. apply IH; [exact Hr|lia].
Qed.

(* entries of weight zero (pinned) are never cut off, by either loop *)
Lemma save_list_keeps_pinned maxi : forall hot size e, In e hot -> sv_weight e = 0 -> In e (save_list maxi size hot).
Proof.
  induction hot as [|x rest IH]; intros size e H Hz; [destruct H|]. cbn [save_list].
  destruct H as [->|H].
  - replace (sv_weight e >? 0) with false by lia. rewrite andb_false_r. left. reflexivity.
  - destruct ((size >=? maxi) && (sv_weight x >? 0)); [apply IH; assumption|right; apply IH; assumption].
Qed.
