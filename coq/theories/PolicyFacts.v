(* PolicyFacts.v — facts about the eviction loops of Policy.v used by C04 / C07. *)
From Otter Require Import Base Sketch Policy.
From Coq Require Import ZifyBool.
Local Open Scope Z_scope.

Arguments wrapu : simpl never.

(* one iteration of evictFromMain evicts only a node of positive weight, and only while the total
   weight exceeds the maximum *)
Lemma ef_step_evict hashf rnd p cu id cu' :
  ef_step hashf rnd p cu = EfEvict id cu' ->
  pweight (node_of p id) <> 0 /\ wsize p > maxi p.
Proof.
  unfold ef_step. destruct (negb (wsize p >? maxi p)) eqn:Eg; [discriminate|].
  assert (Hgt : wsize p > maxi p) by lia. clear Eg.
  destruct (match c_cand cu with
            | Some c => (Some c, c_cq cu)
            | None => if c_cq cu =? QPROBATION then (dq_head (qwin p), QWINDOW) else (None, c_cq cu)
            end) as [candidate cq].
  destruct candidate as [c|]; destruct (c_victim cu) as [v|].
  - destruct (pweight (node_of p v) =? 0) eqn:Ev; [discriminate|].
    destruct (pweight (node_of p c) =? 0) eqn:Ec; [discriminate|].
    destruct (c =? v) eqn:Ecv.
    + intros H; injection H as <- _. split; [lia|assumption].
    + destruct (negb (pstate (node_of p v) =? ALIVE)); [intros H; injection H as <- _; split; [lia|assumption]|].
      destruct (negb (pstate (node_of p c) =? ALIVE)); [intros H; injection H as <- _; split; [lia|assumption]|].
      destruct (pweight (node_of p c) >? maxi p); [intros H; injection H as <- _; split; [lia|assumption]|].
      destruct (accept _ _ _ _); intros H; injection H as <- _; (split; [lia|assumption]).
  - destruct (pweight (node_of p c) =? 0) eqn:Ec; [discriminate|].
    intros H; injection H as <- _. split; [lia|assumption].
  - destruct (pweight (node_of p v) =? 0) eqn:Ev; [discriminate|].
    intros H; injection H as <- _. split; [lia|assumption].
  - destruct (c_vq cu =? QPROBATION); [discriminate|]. destruct (c_vq cu =? QPROTECTED); discriminate.
Qed.

(* the loop stops only because the bound is restored or both cursors ran off the end of the last
   queue they can visit (or fuel ran out, excluded separately) *)
Lemma ef_step_stop hashf rnd p cu :
  ef_step hashf rnd p cu = EfStop ->
  wsize p <= maxi p \/ (c_victim cu = None /\ c_cand cu = None).
Proof.
  unfold ef_step. destruct (negb (wsize p >? maxi p)) eqn:Eg; [intros _; left; lia|].
  destruct (c_cand cu) as [c|] eqn:Ecand.
  - destruct (c_victim cu) as [v|].
    + destruct (pweight (node_of p v) =? 0); [discriminate|]. destruct (pweight (node_of p c) =? 0); [discriminate|].
      destruct (c =? v); [discriminate|]. destruct (negb (pstate (node_of p v) =? ALIVE)); [discriminate|].
      destruct (negb (pstate (node_of p c) =? ALIVE)); [discriminate|]. destruct (pweight (node_of p c) >? maxi p); [discriminate|].
      destruct (accept _ _ _ _); discriminate.
    + destruct (pweight (node_of p c) =? 0); discriminate.
  - destruct (c_cq cu =? QPROBATION) eqn:Ecq.
    + destruct (dq_head (qwin p)) as [c|] eqn:Eh.
      * destruct (c_victim cu) as [v|].
        -- destruct (pweight (node_of p v) =? 0); [discriminate|]. destruct (pweight (node_of p c) =? 0); [discriminate|].
           destruct (c =? v); [discriminate|]. destruct (negb (pstate (node_of p v) =? ALIVE)); [discriminate|].
           destruct (negb (pstate (node_of p c) =? ALIVE)); [discriminate|]. destruct (pweight (node_of p c) >? maxi p); [discriminate|].
           destruct (accept _ _ _ _); discriminate.
        -- destruct (pweight (node_of p c) =? 0); discriminate.
      * destruct (c_victim cu) as [v|].
        -- destruct (pweight (node_of p v) =? 0); discriminate.
        -- intros _. right. split; reflexivity.
    + destruct (c_victim cu) as [v|].
      * destruct (pweight (node_of p v) =? 0); discriminate.
      * intros _. right. split; reflexivity.
Qed.

(* a simpler, directly usable statement: all evicted nodes have positive weight in the state in
   which they were evicted; since weights are immutable this is their weight throughout *)
Lemma pol_evict_weight p id x : pweight (node_of (pol_evict p id) x) = pweight (node_of p x).
Proof.
  assert (MD : forall q i y, pweight (node_of (make_dead q i) y) = pweight (node_of q y)).
  { intros q i y. unfold make_dead. destruct (pstate (node_of q i) =? DEAD); [reflexivity|].
    unfold set_state_of, set_node, node_of, with_store, with_sizes; cbn [store].
    set (st := store q). set (n := match sget st i with Some n => n | None => mkPnode 0 0 DEAD QWINDOW end).
    assert (G : forall st0, sget (sset st0 i (mkPnode (pkey n) (pweight n) DEAD (pqueue n))) y =
                            if y =? i then Some (mkPnode (pkey n) (pweight n) DEAD (pqueue n)) else sget st0 y).
    { induction st0 as [|[j m] st0 IH]; cbn [sset sget].
      - rewrite (Z.eqb_sym i y). reflexivity.
      - destruct (j =? i) eqn:Eji; cbn [sget].
        + apply Z.eqb_eq in Eji. subst j. rewrite (Z.eqb_sym i y). destruct (y =? i); reflexivity.
        + destruct (j =? y) eqn:Ejy.
          * apply Z.eqb_eq in Ejy. subst j. replace (y =? i) with false by lia. reflexivity.
          * apply IH. }
    rewrite G. destruct (y =? i) eqn:Eyi; [|reflexivity].
    apply Z.eqb_eq in Eyi. subst y. reflexivity. }
  unfold pol_evict. rewrite MD. unfold pol_delete. rewrite MD.
  unfold set_queue. destruct (own_queue p id =? QWINDOW); [reflexivity|]. destruct (own_queue p id =? QPROBATION); reflexivity.
Qed.

Lemma evict_from_main_nonzero fuel hashf rnd : forall p cu acc,
  (forall id, In id acc -> pweight (node_of p id) <> 0) ->
  let '(p1, acc1) := evict_from_main fuel hashf rnd p cu acc in
  forall id, In id acc1 -> pweight (node_of p1 id) <> 0.
Proof.
  induction fuel as [|f IH]; intros p cu acc Hacc; cbn [evict_from_main]; [assumption|].
  destruct (ef_step hashf rnd p cu) as [|cu'|id cu'] eqn:Es.
  - assumption.
  - apply IH. assumption.
  - apply IH. intros x Hx. rewrite pol_evict_weight. apply in_app_iff in Hx. destruct Hx as [Hx|[<-|[]]].
    + apply Hacc. assumption.
    + apply (ef_step_evict _ _ _ _ _ _ Es).
Qed.

(* oversized nodes are evicted by add right away (they never enter a queue) *)
Lemma pol_add_oversized hashf p id :
  pstate (node_of p id) = ALIVE -> pweight (node_of p id) > maxi p ->
  snd (pol_add hashf p id) = [id].
Proof.
  intros Ha Hw. unfold pol_add.
  set (p3 := with_sketch _ _).
  assert (E1 : pstate (node_of p id) =? ALIVE = true) by lia. rewrite E1. cbn [negb].
  assert (M : maxi p3 = maxi p).
  { unfold p3. destruct (wsize (with_sizes p _ _ _) >=? _); reflexivity. }
  rewrite M. replace (pweight (node_of p id) >? maxi p) with true by lia. reflexivity.
Qed.
