(* C15 — Concurrent table: nothing lost across resizes, weakly consistent iteration.
   Model: HashMap.v — an executable sequential model of the CLHT table (meta words, chains,
   first-free-slot insertion, grow / shrink / clear with per-table hash seeds).  The implementation is
   replayed on it call by call (results, how often the update function ran and what it saw, size,
   table length, per-bucket chain length and occupancy, exact iteration order), through growth to
   hundreds of buckets and back.  Concurrent behaviour (lookups / updates / iteration during resizes)
   is checked by implementation oracles only.  Proved here: the SWAR byte search has no false
   negatives, for every 64-bit word and byte position; C15_seq_refines_map (the model is a finite map
   for all operation sequences) is not yet a Coq theorem. *)
From Otter Require Import Base HashMap HashMapFacts.

(* markZeroBytes marks every zero byte of every 64-bit word: a slot whose meta byte equals the
   broadcast hash byte is always visited (false positives are filtered by the key comparison) *)
Theorem C15_swar_no_false_negative : forall w i,
  0 <= w < two64 -> 0 <= i < 8 -> (w / 2 ^ (8 * i)) mod 256 = 0 ->
  Z.testbit (markZeroBytes w) (8 * i + 7) = true.
Proof. exact mark_zero_byte. Qed.
Print Assumptions C15_swar_no_false_negative.

Theorem C15_xor_matches_bytewise : forall a b i,
  0 <= i -> (Z.lxor a b / 2 ^ (8 * i)) mod 256 = Z.lxor ((a / 2 ^ (8 * i)) mod 256) ((b / 2 ^ (8 * i)) mod 256).
Proof. exact lxor_byte. Qed.
Print Assumptions C15_xor_matches_bytewise.

(* a concrete run through growth, collision chains, deletion and shrink: every binding is found,
   the size is exact, iteration yields each binding once *)
Example C15_instance :
  let hashf := fun (g k : Z) => (k * 2654435761 + g * 40503) mod 18446744073709551616 in
  let set m k := fst (hmap_compute hashf m k (fun _ => CSet (k + 1000))) in
  let del m k := fst (hmap_compute hashf m k (fun _ => CDel)) in
  let keys := map Z.of_nat (seq 0 200) in
  let m1 := fold_left set keys (hmap_new 32) in
  let m2 := fold_left del (map Z.of_nat (seq 0 198)) m1 in
  htlen m1 = 64 /\ hsize m1 = 200 /\ length (hmap_range m1) = 200%nat /\
  forallb (fun k => match hmap_get hashf m1 k with Some v => v =? k + 1000 | None => false end) keys = true /\
  hsize m2 = 2 /\ htlen m2 = 32 /\ hmap_get hashf m2 199 = Some 1199 /\ hmap_get hashf m2 5 = None.
Proof. vm_compute. repeat split. Qed.
