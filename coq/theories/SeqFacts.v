(* SeqFacts.v — direct facts about the concrete model's functions, used by the property files
   C03 (dead entries), C10 (load outcomes), C11 (refresh), C12 (deadlines), C20 (statistics). *)
From Otter Require Import Base Seq Spec SeqRefine.
From Coq Require Import ZifyBool.
Local Open Scope Z_scope.

Arguments wraps : simpl never.
Arguments wrapu : simpl never.
Arguments satadd : simpl never.
Arguments abs64 : simpl never.
Arguments Z.modulo : simpl never.
Arguments Z.div : simpl never.

Ltac sts := cbn [fst snd cst cmap upd_st upd_map st_miss st_hit st_lsucc st_lfail st_evict hits misses lsucc lfail evictions evweight negb andb orb].

Section Facts.
Variable c : cfg.
Hypothesis CO : cfg_ok c.

(* ------------------------------------------------------------------ C12: deadlines *)

Lemma satadd_no_wrap now d : time_ok now -> 0 < d <= MaxInt64 ->
  now < satadd now d <= MaxInt64 /\ satadd now d = Z.min MaxInt64 (now + d) /\
  (d = MaxInt64 -> satadd now d = MaxInt64).
Proof.
  unfold time_ok. intros Hn Hd. rewrite satadd_spec by lia. repeat split; lia.
Qed.

Lemma wraps_sub_small a b : 0 <= a <= MaxInt64 -> 0 <= b <= MaxInt64 -> wraps (a - b) = a - b.
Proof. intros. apply wraps_small. lia. Qed.

(* creation (no old node, or an expired one): exp = now + ExpireAfterCreate *)
Lemma create_exp k v old cl now :
  with_exp c = true -> time_ok now ->
  (old = None \/ exists o, old = Some o /\ has_expired c o now = true /\ node_ok o) ->
  nexp (fst (atomic_set c k v old cl now)) = satadd now (exp_create c k v 0).
Proof.
  intros Hw Ht G.
  assert (E : fst (atomic_set c k v old cl now) = fst (atomic_set c k v None cl now)).
  { destruct G as [->|(o & -> & X & O)]; [reflexivity|]. apply (atomic_set_dead c CO); assumption. }
  rewrite E. unfold atomic_set. cbn [fst]. rewrite calc_refr_keeps_exp.
  unfold calc_exp_write, new_node. rewrite Hw. cbn [negb nexp nval].
  rewrite (ec_ind c CO k v _ 0). pose proof (ec_pos c CO k v 0). pose proof (ec_rng c CO k v 0).
  unfold time_ok in Ht. rewrite wraps_small by lia.
  replace (0 <? exp_create c k v 0) with true by lia. cbn [andb].
  destruct (MaxInt64 - now =? exp_create c k v 0) eqn:Eq; cbn [negb nexp]; [|reflexivity].
  rewrite satadd_spec by lia. lia.
Qed.

(* update of a live entry: exp = now + ExpireAfterUpdate when that is a positive duration,
   unchanged when the calculator returns a non-positive duration *)
Lemma update_exp k v o cl now :
  with_exp c = true -> time_ok now -> node_ok o -> has_expired c o now = false ->
  let d := exp_update c k v (nval o) (nexp o - now) in
  nexp (fst (atomic_set c k v (Some o) cl now)) = if 0 <? d then satadd now d else nexp o.
Proof.
  intros Hw Ht [He Hr] X d.
  unfold atomic_set. cbn [fst]. rewrite calc_refr_keeps_exp.
  unfold calc_exp_write, new_node. rewrite Hw, X. cbn [negb nexp nval].
  unfold has_expired in X. rewrite Hw in X. cbn [andb] in X. unfold time_ok in Ht.
  rewrite wraps_small by lia. fold d.
  pose proof (eu_rng c CO k v (nval o) (nexp o - now) ltac:(lia)) as H. fold d in H.
  destruct (0 <? d) eqn:Ed; cbn [andb]; [|reflexivity].
  destruct (nexp o - now =? d) eqn:Eq; cbn [negb nexp]; [|reflexivity].
  rewrite satadd_spec by lia. lia.
Qed.

(* read of a live entry *)
Lemma read_exp k n now :
  with_exp c = true -> time_ok now -> node_ok n -> has_expired c n now = false ->
  let d := exp_read c k (nval n) (nexp n - now) in
  nexp (calc_exp_read c k n now) = if 0 <? d then satadd now d else nexp n.
Proof.
  intros Hw Ht [He Hr] X d. unfold calc_exp_read, set_exp_after_read. rewrite Hw. cbn [negb].
  unfold has_expired in X. rewrite Hw in X. cbn [andb] in X. unfold time_ok in Ht.
  rewrite !(wraps_small (nexp n - now)) by lia. fold d.
  pose proof (er_rng c CO k (nval n) (nexp n - now) ltac:(lia)) as H. fold d in H.
  destruct (d <=? 0) eqn:Ed.
  - replace (0 <? d) with false by lia. reflexivity.
  - replace (0 <? d) with true by lia.
    assert (Hd : - MaxInt64 <= d - (nexp n - now) <= MaxInt64) by lia.
    rewrite (wraps_small (d - (nexp n - now))) by lia.
    unfold abs64.
    destruct (d - (nexp n - now) <? 0) eqn:Es.
    + rewrite wraps_small by lia. replace (0 <? - (d - (nexp n - now))) with true by lia. reflexivity.
    + destruct (0 <? d - (nexp n - now)) eqn:Ep; cbn [nexp]; [reflexivity|].
      rewrite satadd_spec by lia. lia.
Qed.

(* SetExpiresAfter: overrides the deadline of a live entry, leaves everything else alone *)
Lemma set_expires_after_live s k d n now :
  with_exp c = true -> time_ok now -> 0 < d <= MaxInt64 -> node_ok n ->
  lookup k (cmap s) = Some n -> has_expired c n now = false ->
  lookup k (cmap (do_set_expires_after c s k d now)) =
  Some (mkNode (nval n) (nweight n) (satadd now d) (nrefr n)).
Proof.
  intros Hw Ht Hd [He Hr] L X. unfold do_set_expires_after. rewrite Hw. cbn [negb orb].
  replace (d <=? 0) with false by lia. rewrite L, X. unfold upd_map; cbn [cmap].
  rewrite lookup_mutate_same, L. f_equal.
  unfold set_exp_after_read. replace (d <=? 0) with false by lia.
  unfold has_expired in X. rewrite Hw in X. cbn [andb] in X. unfold time_ok in Ht.
  rewrite (wraps_small (nexp n - now)) by lia. rewrite (wraps_small (d - (nexp n - now))) by lia.
  unfold abs64. destruct (d - (nexp n - now) <? 0) eqn:Es.
  - rewrite wraps_small by lia. replace (0 <? - (d - (nexp n - now))) with true by lia. reflexivity.
  - destruct (0 <? d - (nexp n - now)) eqn:Ep; [reflexivity|].
    destruct n as [nv nw ne nr]; cbn [nval nweight nexp nrefr] in *. f_equal.
    rewrite satadd_spec by lia. lia.
Qed.

Lemma set_expires_after_dead s k d now :
  (lookup k (cmap s) = None \/ exists n, lookup k (cmap s) = Some n /\ has_expired c n now = true) ->
  do_set_expires_after c s k d now = s.
Proof.
  intros G. unfold do_set_expires_after. destruct (negb (with_exp c) || (d <=? 0)); [reflexivity|].
  destruct G as [L|(n & L & X)]; rewrite L; [reflexivity|]. rewrite X. reflexivity.
Qed.

(* visibility: an entry is visible exactly while the clock is before its expiration time *)
Lemma visible_iff s k now :
  with_exp c = true ->
  (exists n, get_node_quietly c s k now = Some n) <->
  (exists n, lookup k (cmap s) = Some n /\ now < nexp n).
Proof.
  intros Hw. unfold get_node_quietly, has_expired. rewrite Hw. cbn [andb]. split.
  - intros (n & H). destruct (lookup k (cmap s)) as [n0|]; [|discriminate].
    destruct (nexp n0 <=? now) eqn:E; [discriminate|]. exists n0. split; [reflexivity|lia].
  - intros (n & L & H). rewrite L. replace (nexp n <=? now) with false by lia. eauto.
Qed.

(* ------------------------------------------------------------------ C20: statistics *)

Definition lookups (s : cstate) : Z := hits (cst s) + misses (cst s).
Definition loads (s : cstate) : Z := lsucc (cst s) + lfail (cst s).

Lemma get_node_counts s k now :
  lookups (fst (get_node c s k now)) = lookups s + 1 /\
  loads (fst (get_node c s k now)) = loads s /\
  evictions (cst (fst (get_node c s k now))) = evictions (cst s) /\
  (hits (cst (fst (get_node c s k now))) = hits (cst s) + 1 <->
   exists n, lookup k (cmap s) = Some n /\ has_expired c n now = false).
Proof.
  unfold get_node, lookups, loads. destruct (lookup k (cmap s)) as [n|] eqn:L.
  - destruct (has_expired c n now) eqn:X; sts.
    + split; [lia|]. split; [lia|]. split; [lia|]. split.
      * intros H. exfalso. lia.
      * intros (n0 & H1 & H2). injection H1 as <-. congruence.
    + split; [lia|]. split; [lia|]. split; [lia|]. split; [|lia]. intros _. eauto.
  - sts. split; [lia|]. split; [lia|]. split; [lia|]. split.
    + intros H. exfalso. lia.
    + intros (n0 & H1 & _). discriminate.
Qed.


Lemma finish_call_stats s k oc ir now : cst (fst (finish_call c s k oc ir now)) = cst s.
Proof.
  unfold finish_call. destruct oc as [v|v| |]; cbn [fst].
  - destruct (atomic_set c k v (lookup k (cmap s)) (Call ir false false) now); reflexivity.
  - destruct (lookup k (cmap s)); [destruct ir|]; reflexivity.
  - reflexivity.
  - destruct (lookup k (cmap s)); [destruct ir|]; reflexivity.
Qed.

Lemma run_load_counts s k old oc ir now :
  loads (fst (fst (run_load c s k old oc ir now))) = loads s + 1 /\
  lookups (fst (fst (run_load c s k old oc ir now))) = lookups s /\
  evictions (cst (fst (fst (run_load c s k old oc ir now)))) = evictions (cst s) /\
  (lfail (cst (fst (fst (run_load c s k old oc ir now)))) = lfail (cst s) + 1 <-> outcome_failed oc = true).
Proof.
  unfold run_load. pose proof (finish_call_stats s k oc ir now) as St.
  destruct (finish_call c s k oc ir now) as [s1 e1]. cbn [fst snd] in *.
  unfold load_stat, loads, lookups. destruct (outcome_failed oc); sts; rewrite St.
  - split; [lia|]. split; [lia|]. split; [lia|]. split; [reflexivity|lia].
  - split; [lia|]. split; [lia|]. split; [lia|]. split; [intros H; exfalso; lia|discriminate].
Qed.

(* ------------------------------------------------------------------ C10 / C11: load outcomes *)

(* a miss followed by each loader outcome *)
Lemma get_miss_value s k v now :
  (lookup k (cmap s) = None \/ exists n, lookup k (cmap s) = Some n /\ has_expired c n now = true) ->
  let r := do_get c s k (LValue v) now now in
  r_ret (snd r) = RLoad v 0 /\ r_cb (snd r) = [CbLoad k] /\
  exists n, lookup k (cmap (fst r)) = Some n /\ nval n = v.
Proof.
  intros G. unfold do_get, get_node.
  assert (E : (match lookup k (cmap s) with
               | Some n => if has_expired c n now then (upd_st s st_miss, None)
                           else (upd_st (upd_map s (mutate k (fun _ => calc_exp_read c k n now) (cmap s))) st_hit, Some (calc_exp_read c k n now))
               | None => (upd_st s st_miss, None) end) = (upd_st s st_miss, @None node)).
  { destruct G as [L|(n & L & X)]; rewrite L; [reflexivity|rewrite X; reflexivity]. }
  rewrite E. unfold run_load, finish_call.
  destruct (atomic_set c k v (lookup k (cmap (upd_st s st_miss))) (Call false false false) now) as [nn evs] eqn:EA.
  cbn. repeat split. exists nn. rewrite Z.eqb_refl. split; [reflexivity|].
  replace nn with (fst (atomic_set c k v (lookup k (cmap (upd_st s st_miss))) (Call false false false) now)) by (rewrite EA; reflexivity).
  unfold atomic_set. cbn [fst].
  unfold calc_refr, calc_exp_write, new_node.
  repeat match goal with |- context [match ?x with _ => _ end] => destruct x end; reflexivity.
Qed.

Lemma finish_call_error_keeps s k v now :
  cmap (fst (finish_call c s k (LError v) false now)) = cmap s /\ snd (finish_call c s k (LError v) false now) = [].
Proof. unfold finish_call. destruct (lookup k (cmap s)); split; reflexivity. Qed.

Lemma finish_call_notfound_removes s k ir now :
  lookup k (cmap (fst (finish_call c s k LNotFound ir now))) = None.
Proof. unfold finish_call. cbn [fst]. unfold upd_map; cbn [cmap]. apply lookup_remove_same. Qed.

Lemma finish_call_panic_keeps s k now :
  cmap (fst (finish_call c s k LPanic false now)) = cmap s.
Proof. unfold finish_call. destruct (lookup k (cmap s)); reflexivity. Qed.

(* a failed reload leaves value and expiration deadline untouched (only the refresh time may move) *)
Lemma reload_failure_keeps s k v n now :
  lookup k (cmap s) = Some n ->
  exists n', lookup k (cmap (fst (finish_call c s k (LError v) true now))) = Some n' /\
             nval n' = nval n /\ nexp n' = nexp n /\ nweight n' = nweight n.
Proof.
  intros L. unfold finish_call. rewrite L. cbn [fst]. unfold upd_map; cbn [cmap].
  rewrite lookup_mutate_same, L. eexists. split; [reflexivity|].
  rewrite calc_refr_keeps_exp. unfold calc_refr.
  repeat match goal with |- context [match ?x with _ => _ end] => destruct x end; auto.
Qed.

(* Get on a live entry: serves the cached value; hands exactly one reload (carrying that value)
   to the executor iff the entry is stale, nothing otherwise *)
Lemma get_hit s k oc n now :
  lookup k (cmap s) = Some n -> has_expired c n now = false ->
  let r := do_get c s k oc now now in
  r_ret (snd r) = RLoad (nval n) 0 /\ r_cb (snd r) = [] /\ r_events (snd r) = [] /\
  r_spawn (snd r) = (if is_fresh c n now then [] else [SpRefresh k (Some (nval n))]).
Proof.
  intros L X. unfold do_get, get_node. rewrite L, X. cbn [fst snd r_ret r_cb r_events r_spawn].
  destruct (calc_exp_read_fields c k n now) as (E1 & E2 & E3).
  rewrite E1. unfold is_fresh. rewrite E3. auto.
Qed.

(* BulkGet: what it returns *)
Lemma loaded_pairs_spec ks m k v :
  In (k, v) (loaded_pairs ks m) <-> In k ks /\ assoc k m = Some v.
Proof.
  unfold loaded_pairs. rewrite in_flat_map. split.
  - intros (x & Hx & Hin). destruct (assoc x m) as [v0|] eqn:A; [|contradiction].
    destruct Hin as [E|[]]. injection E as <- <-. auto.
  - intros [Hk A]. exists k. split; [assumption|]. rewrite A. left; reflexivity.
Qed.

Lemma memZ_In k l : memZ k l = true <-> In k l.
Proof.
  unfold memZ. rewrite existsb_exists. split.
  - intros (x & Hx & E). apply Z.eqb_eq in E. subst. assumption.
  - intros H. exists k. split; [assumption|apply Z.eqb_refl].
Qed.

Lemma dedup_spec l : forall seen,
  NoDup (dedup l seen) /\ (forall k, In k (dedup l seen) <-> In k l /\ ~ In k seen).
Proof.
  induction l as [|x l IH]; intros seen; cbn [dedup].
  - split; [constructor|]. intros k. cbn. tauto.
  - destruct (memZ x seen) eqn:M.
    + apply memZ_In in M. destruct (IH seen) as [N S]. split; [assumption|].
      intros k. rewrite S. cbn. split; [tauto|]. intros [[->|H] H2]; [contradiction|tauto].
    + assert (Hn : ~ In x seen) by (intros H; apply memZ_In in H; congruence).
      destruct (IH (x :: seen)) as [N S]. split.
      * constructor; [|assumption]. rewrite S. cbn. tauto.
      * intros k. cbn. rewrite S. cbn. split.
        -- intros [->|[H1 H2]]; [tauto|]. tauto.
        -- intros [[->|H1] H2]; [tauto|]. destruct (Z.eq_dec x k); [tauto|]. right. tauto.
Qed.

Lemma bulk_read_partition now ks : forall s, NoDup ks ->
  let '(_, hits, stale, miss) := bulk_read c s ks now in
  (forall k, In k ks <-> In k (map fst hits) \/ In k miss) /\
  (forall k, In k (map fst stale) -> In k (map fst hits)) /\
  NoDup (map fst hits) /\ NoDup miss /\ (forall k, In k (map fst hits) -> ~ In k miss).
Proof.
  induction ks as [|k ks IH]; intros s Hnd; cbn [bulk_read].
  - cbn. split; [tauto|]. split; [tauto|]. split; [constructor|]. split; [constructor|]. tauto.
  - inversion Hnd as [|? ? Hn Hd]; subst.
    destruct (get_node c s k now) as [s1 g]. specialize (IH s1 Hd).
    destruct (bulk_read c s1 ks now) as [[[s2 h] st] m]. destruct IH as (P & S & N1 & N2 & D).
    assert (Hk : ~ In k (map fst h) /\ ~ In k m).
    { split; intros H; apply Hn; apply P; tauto. }
    destruct g as [n|]; cbn [map fst].
    + split; [intros x; cbn; rewrite P; tauto|]. split.
      { intros x. destruct (is_fresh c n now); cbn; intros H; [right; apply S; assumption|].
        destruct H as [H|H]; [left; assumption|right; apply S; assumption]. }
      split; [constructor; tauto|]. split; [assumption|].
      intros x [<-|H]; [tauto|apply D; assumption].
    + split; [intros x; cbn; rewrite P; tauto|]. split; [assumption|]. split; [assumption|].
      split; [constructor; tauto|].
      intros x H [<-|H2]; [tauto|]. apply (D x H H2).
Qed.

(* BulkGet returns exactly: the requested keys that were cached (hits) plus the requested missing
   keys the loader supplied; each distinct key at most once; the loader is invoked at most once
   and with exactly the distinct missing keys *)
Lemma bulk_get_result s ks m now :
  let '(s1, hits, stale, miss) := bulk_read c s (dedup ks []) now in
  let r := snd (do_bulk_get c s ks (BMap m) now now) in
  r_ret r = RBulk (hits ++ match miss with [] => [] | _ => loaded_pairs miss m end) 0 /\
  r_cb r = match miss with [] => [] | _ => [CbBulkLoad miss] end /\
  NoDup (map fst hits ++ miss) /\
  (forall k, In k ks <-> In k (map fst hits) \/ In k miss).
Proof.
  pose proof (dedup_spec ks []) as [ND DS].
  pose proof (bulk_read_partition now (dedup ks []) s ND) as BP.
  unfold do_bulk_get.
  destruct (bulk_read c s (dedup ks []) now) as [[[s1 h] st] mi].
  destruct BP as (P & S & N1 & N2 & D).
  assert (NDapp : NoDup (map fst h ++ mi)).
  { clear -N1 N2 D. induction (map fst h) as [|x l IH]; cbn; [assumption|].
    inversion N1; subst. constructor.
    - rewrite in_app_iff. intros [H|H]; [tauto|]. apply (D x (or_introl eq_refl) H).
    - apply IH; [assumption|]. intros y Hy. apply D. right. assumption. }
  assert (Hall : forall k, In k ks <-> In k (map fst h) \/ In k mi).
  { intros k. rewrite <- P. rewrite DS. cbn. tauto. }
  destruct mi as [|k0 mi].
  - cbn [snd r_ret r_cb]. rewrite app_nil_r. auto.
  - destruct (run_bulk c s1 (k0 :: mi) (BMap m) false now) as [s2 evs]. cbn [snd r_ret r_cb]. auto.
Qed.

End Facts.
