package main

import (
	"fmt"
	"runtime"
	"sync"
	"sync/atomic"
	"time"

	otter "github.com/maypok86/otter/v2"
)

// Engine "drain" (C14): writers, readers and the maintenance task race over the drain-status
// protocol with the DEFAULT executor (goroutines). Hook points inside the protocol (start and end
// of maintenance, scheduleAfterWrite, after the try-lock, drainBuffers, reschedule) inject random
// yields and short sleeps to widen the race windows. After all calls have returned the harness makes
// NO further cache call: it only reads the drain status and the write-buffer size (atomic loads)
// and waits for quiescence; then it checks that nothing is left: status idle, buffer empty, size
// bound restored, every deletion notification delivered.
func init() { engines["drain"] = runDrain }

// noTickClock: the harness owns the ticks of this clock and fires none.
type noTickClock struct{ *hookClock }

func (noTickClock) Tick(d time.Duration) <-chan time.Time { return make(chan time.Time) }


func runDrain(seed uint64, scale int, out string, _ string) *summary {
	r := &rng{s: seed}
	sum := newSummary("drain", seed)
	t := newTrace(out)
	defer t.close()
	seen := map[string]bool{}
	rounds := 400 * scale
	var hookSeed atomic.Uint64
	var delays atomic.Int64
	// ---- (a) scripted windows of the protocol, reached by parking goroutines at hook points:
	//   V1  the maintainer is parked just before its final status transition (hook 2); a writer pushes
	//       its event, loads the status (processing-to-idle) and is parked before acting on it (hook 8);
	//       the maintainer finishes (status idle, lock released, nothing to reschedule); the writer
	//       resumes: its transition to processing-to-required fails and it must start over;
	//   V2  the same without parking the writer (its transition wins; the maintainer must reschedule);
	//   V3  the writer is parked after loading "idle" while another writer runs a complete cycle;
	//   V4  writes made from inside a Hottest / Coldest iteration (the view holds the eviction lock);
	//   V5  the executor task has to wait for the eviction lock (held by an explicit CleanUp), then a
	//       writer flags more work during its maintenance: it must unlock before it reschedules;
	//   V6  the caller-runs fallback: the write buffer (shrunk to 4 for this cache) is full while the
	//       eviction lock is held, a writer exhausts its retries and waits for the lock to run the
	//       maintenance itself; during that run another write is recorded: the writer must hand over.
	//   V7  a write made by another goroutine while InvalidateAll holds the eviction lock (past its own
	//       drain of the write buffer: the window is reached through the Clock sample InvalidateAll
	//       takes under the lock): the writer cannot start maintenance, InvalidateAll must hand over.
	scripted := 60 * scale
	stranded := 0
	for sc := 0; sc < scripted && stranded < 6; sc++ {
		variant := sc % 7
		var armed2, armed8, armed5 atomic.Int32
		arrived5 := make(chan struct{}, 1)
		release5 := make(chan struct{})
		var passed6 atomic.Int64
		arrived2, arrived8 := make(chan struct{}, 1), make(chan struct{}, 1)
		release2, release8 := make(chan struct{}), make(chan struct{})
		otter.VerifHook = func(id int) {
			switch id {
			case 2:
				if armed2.CompareAndSwap(1, 0) {
					arrived2 <- struct{}{}
					<-release2
				}
			case 8:
				if armed8.CompareAndSwap(1, 0) {
					arrived8 <- struct{}{}
					<-release8
				}
			case 5:
				if armed5.CompareAndSwap(1, 0) {
					arrived5 <- struct{}{}
					<-release5
				}
			case 6:
				passed6.Add(1)
			}
		}
		var atomicEv, asyncEv atomic.Int64
		var xGoid atomic.Int64 // V6: the goroutine of the writer that falls back to running the maintenance
		armed2x := &atomic.Int32{}
		arrived2x, release2x := make(chan struct{}, 1), make(chan struct{})
		if variant == 5 {
			prev := otter.VerifHook
			otter.VerifHook = func(id int) {
				if id == 2 && armed2x.Load() == 1 && goid() == xGoid.Load() && armed2x.CompareAndSwap(1, 0) {
					arrived2x <- struct{}{}
					<-release2x
					return
				}
				prev(id)
			}
		}
		oldMaxWB := uint32(0)
		if variant == 5 {
			oldMaxWB = otter.VerifSetMaxWriteBufferSize(4)
		}
		dopts := &otter.Options[int, int]{
			MaximumSize:      1 + sc%4,
			OnAtomicDeletion: func(e otter.DeletionEvent[int, int]) { atomicEv.Add(1) },
			OnDeletion:       func(e otter.DeletionEvent[int, int]) { asyncEv.Add(1) },
			Logger:           &otter.NoopLogger{},
		}
		clk7 := &hookClock{start: time.Now()}
		if variant == 6 {
			dopts.Clock = noTickClock{clk7} // consulted only by caches that track time; its ticks never fire, so the periodic clean-up cannot come to the rescue a second later
			dopts.ExpiryCalculator = otter.ExpiryWriting[int, int](time.Hour)
		}
		c := otter.Must(dopts)
		if variant == 5 {
			otter.VerifSetMaxWriteBufferSize(oldMaxWB)
		}
		desc := fmt.Sprintf("scripted window %d variant V%d", sc, variant+1)
		ok := true
		waitCh := func(ch chan struct{}) bool {
			select {
			case <-ch:
				return true
			case <-time.After(2 * time.Second):
				return false
			}
		}
		doneB := make(chan struct{})
		switch variant {
		case 0, 1:
			armed2.Store(1)
			c.Set(1, 1)
			if !waitCh(arrived2) {
				armed2.Store(0)
				ok = false
				break
			}
			if variant == 0 {
				armed8.Store(1)
			}
			go func() { c.Set(2, 2); close(doneB) }()
			if variant == 0 {
				if !waitCh(arrived8) {
					armed8.Store(0)
				}
			} else {
				waitCh(doneB)
			}
			p6 := passed6.Load()
			close(release2)
			for i := 0; i < 4000 && passed6.Load() == p6; i++ {
				time.Sleep(50 * time.Microsecond)
			}
			time.Sleep(300 * time.Microsecond)
			if variant == 0 {
				close(release8)
			}
			waitCh(doneB)
		case 4:
			// V5: the executor task finds the eviction lock held by an explicit CleanUp and has to wait for
			// it (the token already taken by its spawner); when it finally runs maintenance a writer flags
			// "more work" (processing-to-required); the task must release the lock BEFORE it reschedules
			armed5.Store(1)
			c.Set(1, 1) // spawns the task, which parks at the start of drainBuffers
			if !waitCh(arrived5) {
				armed5.Store(0)
				ok = false
				break
			}
			armed2.Store(1)
			doneC := make(chan struct{})
			go func() { c.CleanUp(); close(doneC) }() // takes the lock, drains, parks before its final transition
			if !waitCh(arrived2) {
				armed2.Store(0)
				close(release5)
				ok = false
				break
			}
			close(release5) // the task: TryLock fails, token taken -> waits for the lock
			time.Sleep(500 * time.Microsecond)
			release2b := make(chan struct{})
			arrived2b := make(chan struct{}, 1)
			var armed2b atomic.Int32
			armed2b.Store(1)
			prev := otter.VerifHook
			otter.VerifHook = func(id int) {
				if id == 2 && armed2b.CompareAndSwap(1, 0) {
					arrived2b <- struct{}{}
					<-release2b
					return
				}
				prev(id)
			}
			close(release2) // CleanUp finishes; the task gets the lock and parks before ITS final transition
			waitCh(doneC)
			if waitCh(arrived2b) {
				c.Set(2, 2) // a write during the task's maintenance: processing-to-idle -> processing-to-required
				close(release2b)
			} else {
				armed2b.Store(0)
				ok = false
			}
			close(doneB)
		case 5:
			// V6: the caller-runs fallback
			otter.VerifLockEviction(c)
			var wg sync.WaitGroup
			for i := 0; i < 4; i++ {
				wg.Add(1)
				go func(i int) { defer wg.Done(); c.Set(10+i, i) }(i)
			}
			wg.Wait() // four events buffered, the buffer is full, nobody could take the lock
			doneX := make(chan struct{})
			go func() {
				xGoid.Store(goid())
				c.Set(99, 99) // a hundred refused offers, then performCleanUp: waits for the lock
				close(doneX)
			}()
			blocked := false
			for i := 0; i < 4000 && !blocked; i++ {
				if g := xGoid.Load(); g != 0 {
					if st, found := goroutineStates()[g]; found && lockWait(st) {
						blocked = true
					}
				}
				time.Sleep(100 * time.Microsecond)
			}
			armed2x.Store(1)
			otter.VerifUnlockEviction(c)
			if !blocked || !waitCh(arrived2x) {
				armed2x.Store(0)
				ok = false
				select {
				case <-doneX:
				case <-time.After(2 * time.Second):
				}
				close(doneB)
				break
			}
			// the writer is inside its own maintenance run, past the drain: one more write is recorded
			c.Set(100, 100)
			close(release2x)
			waitCh(doneX)
			close(doneB)
		case 3:
			// V4: a write made while an eviction-order view (Hottest / Coldest: SaveCacheTo iterates one)
			// holds the eviction lock cannot start maintenance itself; the view must hand over when it ends
			c.Set(1, 1)
			c.Set(2, 2)
			for i := 0; i < 4000; i++ {
				if st, wb := otter.VerifDrainState(c); st == 0 && wb == 0 {
					break
				}
				time.Sleep(50 * time.Microsecond)
			}
			view := c.Hottest()
			if sc%8 >= 4 {
				view = c.Coldest()
			}
			n := 0
			for range view {
				c.Set(10+n, n)
				n++
			}
			close(doneB)
		case 6:
			// V7: InvalidateAll holds the eviction lock and has already drained the write buffer itself when
			// another goroutine's write is recorded (that writer's TryLock fails); nothing else will run the
			// maintenance unless InvalidateAll reschedules after unlocking
			c.Set(1, 1)
			c.Set(2, 2)
			for i := 0; i < 4000; i++ {
				if st, wb := otter.VerifDrainState(c); st == 0 && wb == 0 {
					break
				}
				time.Sleep(50 * time.Microsecond)
			}
			reached := false
			f := func() {
				dw := make(chan struct{})
				go func() { c.Set(50, 50); close(dw) }()
				reached = waitCh(dw)
			}
			clk7.hook.Store(&f)
			c.InvalidateAll()
			if !reached {
				ok = false
			}
			close(doneB)
		default:
			armed8.Store(1)
			go func() { c.Set(2, 2); close(doneB) }()
			if waitCh(arrived8) {
				c.Set(3, 3) // a complete cycle by another writer while the first one holds a stale "idle"
				for i := 0; i < 4000; i++ {
					if st, wb := otter.VerifDrainState(c); st == 0 && wb == 0 {
						break
					}
					time.Sleep(50 * time.Microsecond)
				}
				close(release8)
			}
			waitCh(doneB)
		}
		sum.Cases++
		sum.Ops += 2
		if !ok {
			sum.Dist["scripted_window_not_reached"]++
			otter.VerifHook = nil
			continue
		}
		// all calls have returned: only atomic loads from here on
		stable := 0
		var st uint32
		var wb uint64
		deadline := time.Now().Add(6 * time.Second)
		for time.Now().Before(deadline) {
			st, wb = otter.VerifDrainState(c)
			if st == 0 && wb == 0 {
				stable++
				if stable >= 3 {
					break
				}
			} else {
				stable = 0
			}
			time.Sleep(200 * time.Microsecond)
		}
		otter.VerifHook = nil
		if stable < 3 {
			sum.fail("C14", "stranded", "maintenance is stranded: writes were recorded but the cache reports outstanding maintenance and nothing will run it",
				fmt.Sprintf("%s drainStatus=%d writeBuffer=%d", desc, st, wb))
			t.line("W %d %d stranded %d %d", sc, variant, st, wb)
			stranded++
			continue
		}
		for i := 0; i < 2000 && asyncEv.Load() != atomicEv.Load(); i++ {
			time.Sleep(200 * time.Microsecond)
		}
		if asyncEv.Load() != atomicEv.Load() {
			sum.fail("C14", "notifications-pending", "deletion notifications are still pending although maintenance is idle", desc)
		}
		if a := otter.VerifAudit(c); len(a.Window)+len(a.Probation)+len(a.Protected) != len(a.Table) || uint64(len(a.Table)) > a.Maximum {
			sum.fail("C14", "writes-not-applied", "a recorded write was not applied to the eviction policy", fmt.Sprintf("%s table=%d", desc, len(a.Table)))
		}
		t.line("W %d %d ok", sc, variant)
		sum.Dist[fmt.Sprintf("scripted_window_V%d", variant+1)]++
		seen[fmt.Sprintf("scripted/%d", variant)] = true
	}
	for rd := 0; rd < rounds && stranded < 12; rd++ {
		maximum := 2 + r.intn(20)
		writers := 1 + r.intn(6)
		readers := r.intn(3)
		per := 1 + r.intn(12)
		if r.chance(15) {
			per = 100 + r.intn(400) // long bursts: the write buffer fills and writers help
		}
		mode := r.intn(4) // 0 no perturbation, 1 yields, 2 sleeps, 3 both
		hookSeed.Store(seed*7919 + uint64(rd))
		otter.VerifHook = func(id int) {
			if mode == 0 {
				return
			}
			x := hookSeed.Add(0x9e3779b97f4a7c15)
			x ^= x >> 31
			switch {
			case mode != 2 && x%3 == 0:
				runtime.Gosched()
				delays.Add(1)
			case mode >= 2 && x%11 == 0:
				time.Sleep(time.Duration(1+x%40) * time.Microsecond)
				delays.Add(1)
			}
		}
		var atomicEv, asyncEv atomic.Int64
		c := otter.Must(&otter.Options[int, int]{
			MaximumSize:      maximum,
			OnAtomicDeletion: func(e otter.DeletionEvent[int, int]) { atomicEv.Add(1) },
			OnDeletion:       func(e otter.DeletionEvent[int, int]) { asyncEv.Add(1) },
			Logger:           &otter.NoopLogger{},
		})
		var wg sync.WaitGroup
		start := make(chan struct{})
		for w := 0; w < writers; w++ {
			wg.Add(1)
			go func(w int) {
				defer wg.Done()
				<-start
				for i := 0; i < per; i++ {
					k := w*100000 + i
					switch (w + i) % 5 {
					case 0:
						c.SetIfAbsent(k%50, i)
					case 1:
						c.Invalidate((k + 1) % 50)
					default:
						c.Set(k, i)
					}
				}
			}(w)
		}
		for rdr := 0; rdr < readers; rdr++ {
			wg.Add(1)
			go func(rdr int) {
				defer wg.Done()
				<-start
				for i := 0; i < per*2; i++ {
					c.GetIfPresent(i % 50)
				}
			}(rdr)
		}
		close(start)
		wg.Wait()
		// --- all calls have returned: from here on only atomic loads
		deadline := time.Now().Add(8 * time.Second)
		stable := 0
		var st uint32
		var wb uint64
		for time.Now().Before(deadline) {
			st, wb = otter.VerifDrainState(c)
			if st == 0 && wb == 0 {
				stable++
				if stable >= 3 {
					break
				}
			} else {
				stable = 0
			}
			time.Sleep(300 * time.Microsecond)
		}
		sum.Cases++
		sum.Ops += writers*per + readers*per*2
		desc := fmt.Sprintf("round %d: maximum=%d writers=%d x %d readers=%d perturbation=%d", rd, maximum, writers, per, readers, mode)
		if stable < 3 {
			sum.fail("C14", "stranded", "maintenance is stranded: writes were recorded but the cache reports outstanding maintenance and nothing will run it",
				fmt.Sprintf("%s drainStatus=%d writeBuffer=%d", desc, st, wb))
			t.line("R %d %d %d %d %d stranded %d %d", rd, maximum, writers, per, mode, st, wb)
			otter.VerifHook = nil
			stranded++ // every stranded round costs its whole time limit: a handful of witnesses is enough
			continue
		}
		// notifications are delivered by executor goroutines: give them time, still without cache calls
		for i := 0; i < 2000 && asyncEv.Load() != atomicEv.Load(); i++ {
			time.Sleep(500 * time.Microsecond)
		}
		otter.VerifHook = nil
		a := otter.VerifAudit(c) // quiescent: safe to read
		var sumW uint64
		for _, n := range a.Table {
			sumW += uint64(n.Weight)
		}
		if sumW > a.Maximum {
			sum.fail("C14", "bound-not-restored", "all calls returned and maintenance went idle but the size bound is not restored",
				fmt.Sprintf("%s entries=%d maximum=%d", desc, sumW, a.Maximum))
		}
		if asyncEv.Load() != atomicEv.Load() {
			sum.fail("C14", "notifications-pending", "deletion notifications are still pending although maintenance is idle",
				fmt.Sprintf("%s atomic=%d async=%d", desc, atomicEv.Load(), asyncEv.Load()))
		}
		if a.WriteBufferSize != 0 || a.DrainStatus != 0 {
			sum.fail("C14", "stranded", "outstanding maintenance at quiescence", desc)
		}
		inQ := len(a.Window) + len(a.Probation) + len(a.Protected)
		if inQ != len(a.Table) {
			sum.fail("C14", "writes-not-applied", "a recorded write was not applied to the eviction policy", fmt.Sprintf("%s table=%d linked=%d", desc, len(a.Table), inQ))
		}
		t.line("R %d %d %d %d %d ok %d %d", rd, maximum, writers, per, mode, len(a.Table), atomicEv.Load())
		seen[fmt.Sprintf("%d/%d/%d/%v", writers, readers, mode, per > 50)] = true
		if len(sum.Samples) < 3 {
			sum.Samples = append(sum.Samples, desc)
		}
	}
	sum.Dist["hook_delays_injected"] = int(delays.Load())
	sum.Distinct = len(seen)
	return sum
}
