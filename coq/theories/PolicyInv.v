(* PolicyInv.v — the bookkeeping invariant of the eviction policy (Policy.v / Maint.v) over ALL
   orders in which write tasks reach the maintenance thread (C05, and the basis of C04):

   every node has a life cycle (created -> its add/update task consumed ("counted") -> retired ->
   its delete/update-as-old task consumed or evicted -> dead); tasks may be consumed in any order.
   The three wrapping weight counters are, modulo 2^64, sums over the node store with a coefficient
   [counted] - [dead] in {-1, 0, 1} per node (a node made dead before it was counted is a debt, a
   node counted while no longer alive a credit), the deques hold each linked node once, under the
   queue tag of the deque, never a dead one, and an alive counted node is linked.
   At quiescence (no pending task) the debts and credits vanish: see [quiescent_*]. *)
From Otter Require Import Base Sketch Policy Wheel Maint.
From Coq Require Import ZifyBool Lia.
Local Open Scope Z_scope.

Arguments wrapu : simpl never.

(* ---- the node store *)
Definition skeys (st : list (Z * pnode)) : list Z := map fst st.

Lemma sget_sset_same st id n : sget (sset st id n) id = Some n.
Proof.
  induction st as [|[i m] st IH]; cbn [sset sget].
  - rewrite Z.eqb_refl. reflexivity.
  - destruct (i =? id) eqn:E; cbn [sget]; rewrite E; [reflexivity|exact IH].
Qed.

Lemma sget_sset_other st id id' n : id' <> id -> sget (sset st id n) id' = sget st id'.
Proof.
  intros Hne. induction st as [|[i m] st IH]; cbn [sset sget].
  - replace (id =? id') with false by lia. reflexivity.
  - destruct (i =? id) eqn:E; cbn [sget].
    + replace (i =? id') with false by lia. reflexivity.
    + destruct (i =? id'); [reflexivity|exact IH].
Qed.

Lemma sget_in_keys st id n : sget st id = Some n -> In id (skeys st).
Proof.
  induction st as [|[i m] st IH]; cbn [sget skeys map fst]; [discriminate|].
  destruct (i =? id) eqn:E; [intros _; left; lia|intros H; right; apply IH; exact H].
Qed.

Lemma sget_none_keys st id : sget st id = None -> ~ In id (skeys st).
Proof.
  induction st as [|[i m] st IH]; cbn [sget skeys map fst]; [intros _ []|].
  destruct (i =? id) eqn:E; [discriminate|]. intros H [C|C]; [lia|exact (IH H C)].
Qed.

Lemma sset_keys st id n : forall x, In x (skeys (sset st id n)) <-> In x (skeys st) \/ x = id.
Proof.
  unfold skeys. induction st as [|[i m] st IH]; intros x; cbn [sset map fst].
  - cbn. split; [intros [A|[]]; right; symmetry; exact A|intros [[]|A]; left; symmetry; exact A].
  - destruct (i =? id) eqn:E; cbn [map fst In].
    + assert (i = id) by lia. subst i.
      split; [intros [A|A]; [left; left; exact A|left; right; exact A]|intros [[A|A]|A]; [left; exact A|right; exact A|left; symmetry; exact A]].
    + rewrite (IH x).
      split; [intros [A|[A|A]]; [left; left; exact A|left; right; exact A|right; exact A]|intros [[A|A]|A]; [left; exact A|right; left; exact A|right; right; exact A]].
Qed.

Lemma sset_keys_nodup st id n : NoDup (skeys st) -> NoDup (skeys (sset st id n)).
Proof.
  induction st as [|[i m] st IH]; cbn [sset skeys map fst]; intros H.
  - constructor; [intros []|constructor].
  - inversion H as [|? ? Hni Hnd]; subst. destruct (i =? id) eqn:E; cbn [skeys map fst].
    + constructor; assumption.
    + constructor; [|apply IH; exact Hnd]. intros C. apply (sset_keys st id n) in C. destruct C as [C|C]; [exact (Hni C)|lia].
Qed.

Fixpoint ssum (f : Z -> pnode -> Z) (st : list (Z * pnode)) : Z :=
  match st with [] => 0 | (i, n) :: st' => f i n + ssum f st' end.

Lemma ssum_ext_off f g st id : ~ In id (skeys st) -> (forall i nd, i <> id -> g i nd = f i nd) -> ssum g st = ssum f st.
Proof.
  unfold skeys. intros Hni Hfg. induction st as [|[i m] st IH]; cbn [ssum]; [reflexivity|].
  cbn [map fst In] in Hni. rewrite IH by tauto. rewrite Hfg by (intros C; apply Hni; left; exact C). reflexivity.
Qed.

(* one node changes (its record and/or its coefficient): the sum changes by the difference *)
Lemma ssum_step f g st id n' : NoDup (skeys st) -> (forall i nd, i <> id -> g i nd = f i nd) ->
  ssum g (sset st id n') = ssum f st - (match sget st id with Some o => f id o | None => 0 end) + g id n'.
Proof.
  intros Hnd Hfg. induction st as [|[i m] st IH]; cbn [sset sget ssum].
  - lia.
  - inversion Hnd as [|? ? Hni Hnd']; subst. destruct (i =? id) eqn:E.
    + assert (i = id) by lia. subst i. cbn [ssum]. rewrite (ssum_ext_off f g st id Hni Hfg). lia.
    + cbn [ssum]. rewrite IH by exact Hnd'. rewrite Hfg by lia. lia.
Qed.

Lemma sset_same st id n : sget st id = Some n -> sset st id n = st.
Proof.
  induction st as [|[i m] st IH]; cbn [sget sset]; [discriminate|].
  destruct (i =? id) eqn:E; [intros H; injection H as ->; reflexivity|intros H; rewrite IH by exact H; reflexivity].
Qed.

(* only the coefficient function changes, at one id *)
Lemma ssum_coef_step f g st id : NoDup (skeys st) -> (forall i nd, i <> id -> g i nd = f i nd) ->
  ssum g st = ssum f st + (match sget st id with Some o => g id o - f id o | None => 0 end).
Proof.
  intros Hnd Hfg. destruct (sget st id) as [o|] eqn:E.
  - pose proof (ssum_step f g st id o Hnd Hfg) as H. rewrite (sset_same st id o E), E in H. lia.
  - apply sget_none_keys in E. rewrite (ssum_ext_off f g st id E Hfg). lia.
Qed.

(* ---- wrapping arithmetic *)
Lemma wrapu_add_l a b : wrapu (wrapu a + b) = wrapu (a + b).
Proof. unfold wrapu. apply Zplus_mod_idemp_l. Qed.
Lemma wrapu_sub_l a b : wrapu (wrapu a - b) = wrapu (a - b).
Proof. unfold wrapu. apply Zminus_mod_idemp_l. Qed.
Lemma wrapu_idem a : wrapu (wrapu a) = wrapu a.
Proof. unfold wrapu. apply Z.mod_mod. unfold two64. lia. Qed.

(* ---- the invariant *)
Definition linked (p : policy) (id : Z) : Prop := In id (qwin p) \/ In id (qprob p) \/ In id (qprot p).

(* [cn id] / [co id]: number of pending tasks that mention id as the new node (TAdd id, TUpd id _) /
   as the node going away (TDel id, TUpd _ id) *)
Definition coef (cn : Z -> Z) (id : Z) (nd : pnode) : Z :=
  (if cn id =? 0 then 1 else 0) - (if pstate nd =? DEAD then 1 else 0).

Definition f_all (cn : Z -> Z) (id : Z) (nd : pnode) : Z := coef cn id nd * pweight nd.
Definition f_win (cn : Z -> Z) (id : Z) (nd : pnode) : Z := if pqueue nd =? QWINDOW then coef cn id nd * pweight nd else 0.
Definition f_prot (cn : Z -> Z) (id : Z) (nd : pnode) : Z := if pqueue nd =? QPROTECTED then coef cn id nd * pweight nd else 0.

Definition in_queue_ok (p : policy) (cn : Z -> Z) (d : list Z) (q : Z) : Prop :=
  forall id, In id d -> exists nd, sget (store p) id = Some nd /\ pqueue nd = q /\ pstate nd <> DEAD /\ cn id = 0.

Section Offsets.
(* weight still to be added to the three counters in the middle of an operation (zero between operations) *)
Variables dw dww dpw : Z.

(* [ex]: nodes temporarily exempt from "alive and counted implies linked" in the middle of an operation *)
Record PIX (ex : Z -> Prop) (p : policy) (cn co : Z -> Z) : Prop := mkPIX {
  pi_keys : NoDup (skeys (store p));
  pi_nodup : NoDup (qwin p ++ qprob p ++ qprot p);
  pi_win : in_queue_ok p cn (qwin p) QWINDOW;
  pi_prob : in_queue_ok p cn (qprob p) QPROBATION;
  pi_prot : in_queue_ok p cn (qprot p) QPROTECTED;
  pi_absent : forall id, sget (store p) id = None -> cn id = 0 /\ co id = 0;
  pi_range : forall id, 0 <= cn id <= 1 /\ 0 <= co id <= 1;
  pi_alive : forall id nd, sget (store p) id = Some nd -> pstate nd = ALIVE ->
               co id = 0 /\ (cn id = 0 -> ~ ex id -> linked p id);
  pi_retired : forall id nd, sget (store p) id = Some nd -> pstate nd = RETIRED -> co id = 1;
  pi_fresh : forall id nd, sget (store p) id = Some nd -> cn id = 1 -> pqueue nd = QWINDOW;
  pi_states : forall id nd, sget (store p) id = Some nd ->
               (pstate nd = ALIVE \/ pstate nd = RETIRED \/ pstate nd = DEAD) /\
               (pqueue nd = QWINDOW \/ pqueue nd = QPROBATION \/ pqueue nd = QPROTECTED);
  pi_wsize : wsize p = wrapu (ssum (f_all cn) (store p) + dw);
  pi_wwsize : wwsize p = wrapu (ssum (f_win cn) (store p) + dww);
  pi_pwsize : pwsize p = wrapu (ssum (f_prot cn) (store p) + dpw)
}.


(* only these components matter *)
Lemma PIX_ext ex p p' cn co :
  store p' = store p -> qwin p' = qwin p -> qprob p' = qprob p -> qprot p' = qprot p ->
  wsize p' = wsize p -> wwsize p' = wwsize p -> pwsize p' = pwsize p ->
  PIX ex p cn co -> PIX ex p' cn co.
Proof.
  intros E1 E2 E3 E4 E5 E6 E7 [H1 H2 H3 H4 H5 H6 H7 H8 H9 H10 H11 H12 H13 H14].
  unfold in_queue_ok, linked in *.
  constructor; unfold in_queue_ok, linked; rewrite ?E1, ?E2, ?E3, ?E4, ?E5, ?E6, ?E7; assumption.
Qed.

Lemma PIX_weaken_ex (ex ex' : Z -> Prop) p cn co : (forall id, ex id -> ex' id) -> PIX ex p cn co -> PIX ex' p cn co.
Proof.
  intros Hex [H1 H2 H3 H4 H5 H6 H7 H8 H9 H10 H11 H12 H13 H14]. constructor; try assumption.
  intros id nd Hs Ha. destruct (H8 id nd Hs Ha) as [A B]. split; [exact A|]. intros C D. apply B; [exact C|]. intros E. apply D. apply Hex. exact E.
Qed.

Lemma node_of_some p id nd : sget (store p) id = Some nd -> node_of p id = nd.
Proof. unfold node_of. intros ->. reflexivity. Qed.

Lemma node_of_none p id : sget (store p) id = None -> node_of p id = mkPnode 0 0 DEAD QWINDOW.
Proof. unfold node_of. intros ->. reflexivity. Qed.

Lemma linked_dec p id : {linked p id} + {~ linked p id}.
Proof.
  unfold linked.
  destruct (in_dec Z.eq_dec id (qwin p)); [left; tauto|].
  destruct (in_dec Z.eq_dec id (qprob p)); [left; tauto|].
  destruct (in_dec Z.eq_dec id (qprot p)); [left; tauto|right; tauto].
Qed.

Lemma PIX_shrink_ex (ex ex' : Z -> Prop) p cn co :
  (forall x nd, sget (store p) x = Some nd -> pstate nd = ALIVE -> cn x = 0 -> ex x -> ex' x \/ linked p x) ->
  PIX ex p cn co -> PIX ex' p cn co.
Proof.
  intros Hex [H1 H2 H3 H4 H5 H6 H7 H8 H9 H10 H11 H12 H13 H14]. constructor; try assumption.
  intros id nd Hs Ha. destruct (H8 id nd Hs Ha) as [A B]. split; [exact A|]. intros C D.
  destruct (linked_dec p id) as [L|L]; [exact L|]. exfalso.
  assert (NE : ~ ex id). { intros E. destruct (Hex id nd Hs Ha C E) as [E'|E']; [exact (D E')|exact (L E')]. }
  exact (L (B C NE)).
Qed.

Lemma f_all_app cn id nd : f_all cn id nd = coef cn id nd * pweight nd.
Proof. reflexivity. Qed.
Lemma f_win_app cn id nd : f_win cn id nd = if pqueue nd =? QWINDOW then coef cn id nd * pweight nd else 0.
Proof. reflexivity. Qed.
Lemma f_prot_app cn id nd : f_prot cn id nd = if pqueue nd =? QPROTECTED then coef cn id nd * pweight nd else 0.
Proof. reflexivity. Qed.

(* ---- makeDead *)
Lemma coef_cases cn id nd : coef cn id nd = 1 \/ coef cn id nd = 0 \/ coef cn id nd = -1.
Proof. unfold coef. destruct (cn id =? 0); destruct (pstate nd =? DEAD); lia. Qed.

Lemma PIX_make_dead ex p cn co id :
  PIX ex p cn co -> ~ linked p id -> PIX (fun x => ex x /\ x <> id) (make_dead p id) cn co.
Proof.
  intros HP Hnl. pose proof HP as [H1 H2 H3 H4 H5 H6 H7 H8 H9 H10 H11 H12 H13 H14].
  unfold make_dead. destruct (sget (store p) id) as [nd|] eqn:Es.
  2:{ rewrite (node_of_none p id Es). cbn [pstate]. change (DEAD =? DEAD) with true. cbv iota.
      apply (PIX_shrink_ex ex); [|exact HP]. intros x nd' Hs Ha _ Hx. left. split; [exact Hx|]. intros ->. congruence. }
  rewrite (node_of_some p id nd Es).
  destruct (pstate nd =? DEAD) eqn:Ed.
  { apply (PIX_shrink_ex ex); [|exact HP]. intros x nd' Hs Ha _ Hx. left. split; [exact Hx|]. intros ->.
    rewrite Es in Hs. injection Hs as <-. unfold ALIVE, DEAD in *. lia. }
  set (nd' := mkPnode (pkey nd) (pweight nd) DEAD (pqueue nd)).
  assert (Hst : forall x, sget (store (make_dead p id)) x = if x =? id then Some nd' else sget (store p) x).
  { intros x. unfold make_dead. rewrite (node_of_some p id nd Es), Ed.
    unfold set_state_of, set_node, with_store, with_sizes, node_of. cbn [store]. rewrite Es.
    destruct (x =? id) eqn:E; [assert (x = id) by lia; subst x; apply sget_sset_same|apply sget_sset_other; lia]. }
  unfold set_state_of, set_node, with_store, with_sizes, node_of. cbn [store]. rewrite Es. fold nd'.
  constructor; unfold in_queue_ok, linked; cbn [store qwin qprob qprot wsize wwsize pwsize].
  - apply sset_keys_nodup. exact H1.
  - exact H2.
  - intros x Hx. destruct (H3 x Hx) as (n0 & A & B). exists n0. split; [|exact B].
    rewrite sget_sset_other; [exact A|]. intros ->. apply Hnl. left. exact Hx.
  - intros x Hx. destruct (H4 x Hx) as (n0 & A & B). exists n0. split; [|exact B].
    rewrite sget_sset_other; [exact A|]. intros ->. apply Hnl. right. left. exact Hx.
  - intros x Hx. destruct (H5 x Hx) as (n0 & A & B). exists n0. split; [|exact B].
    rewrite sget_sset_other; [exact A|]. intros ->. apply Hnl. right. right. exact Hx.
  - intros x Hx. destruct (Z.eq_dec x id) as [->|N]; [rewrite sget_sset_same in Hx; discriminate|].
    rewrite sget_sset_other in Hx by exact N. apply H6. exact Hx.
  - exact H7.
  - intros x n0 Hx Ha. destruct (Z.eq_dec x id) as [->|N].
    + rewrite sget_sset_same in Hx. injection Hx as <-. unfold nd' in *. cbn [pstate] in Ha. unfold ALIVE, DEAD in Ha. lia.
    + rewrite sget_sset_other in Hx by exact N. destruct (H8 x n0 Hx Ha) as [A B]. split; [exact A|].
      intros C D. apply B; [exact C|]. intros E. apply D. split; [exact E|exact N].
  - intros x n0 Hx Ha. destruct (Z.eq_dec x id) as [->|N].
    + rewrite sget_sset_same in Hx. injection Hx as <-. unfold nd' in *. cbn [pstate] in Ha. unfold RETIRED, DEAD in Ha. lia.
    + rewrite sget_sset_other in Hx by exact N. apply (H9 x n0 Hx Ha).
  - intros x n0 Hx Hc. destruct (Z.eq_dec x id) as [->|N].
    + rewrite sget_sset_same in Hx. injection Hx as <-. unfold nd' in *. cbn [pqueue]. apply (H10 id nd Es Hc).
    + rewrite sget_sset_other in Hx by exact N. apply (H10 x n0 Hx Hc).
  - intros x n0 Hx. destruct (Z.eq_dec x id) as [->|N].
    + rewrite sget_sset_same in Hx. injection Hx as <-. unfold nd' in *. cbn [pstate pqueue]. split; [right; right; reflexivity|apply (H11 id nd Es)].
    + rewrite sget_sset_other in Hx by exact N. apply (H11 x n0 Hx).
  - rewrite H12, wrapu_sub_l. f_equal.
    rewrite (ssum_step (f_all cn) (f_all cn) (store p) id nd' H1) by reflexivity. rewrite Es.
    rewrite !f_all_app. unfold coef, nd'. cbn [pstate pweight]. rewrite Ed. change (DEAD =? DEAD) with true. destruct (cn id =? 0); lia.
  - rewrite (ssum_step (f_win cn) (f_win cn) (store p) id nd' H1) by reflexivity. rewrite Es.
    rewrite !f_win_app. unfold coef, nd'. cbn [pstate pweight pqueue]. rewrite Ed. change (DEAD =? DEAD) with true.
    destruct (pqueue nd =? QWINDOW).
    + rewrite H13, wrapu_sub_l. f_equal. destruct (cn id =? 0); lia.
    + rewrite H13. f_equal. lia.
  - rewrite (ssum_step (f_prot cn) (f_prot cn) (store p) id nd' H1) by reflexivity. rewrite Es.
    rewrite !f_prot_app. unfold coef, nd'. cbn [pstate pweight pqueue]. rewrite Ed. change (DEAD =? DEAD) with true.
    destruct (pqueue nd =? QPROTECTED).
    + rewrite H14, wrapu_sub_l. f_equal. destruct (cn id =? 0); lia.
    + rewrite H14. f_equal. lia.
Qed.

(* ---- deque facts *)
Lemma in_dq_delete d id x : In x (dq_delete d id) <-> In x d /\ x <> id.
Proof. unfold dq_delete. rewrite filter_In. split; intros [A B]; (split; [exact A|lia]). Qed.

Lemma nodup_app_iff (a b : list Z) : NoDup (a ++ b) <-> NoDup a /\ NoDup b /\ (forall x, In x a -> ~ In x b).
Proof.
  induction a as [|h a IH]; cbn [app].
  - split; [intros H; repeat split; [constructor|exact H|intros x []]|intros (_ & H & _); exact H].
  - split.
    + intros H. inversion H as [|? ? Hni Hnd]; subst. apply IH in Hnd. destruct Hnd as (A & B & C).
      split; [constructor; [intros X; apply Hni; apply in_or_app; left; exact X|exact A]|].
      split; [exact B|]. intros x [<-|Hx]; [intros X; apply Hni; apply in_or_app; right; exact X|apply C; exact Hx].
    + intros (A & B & C). inversion A as [|? ? Hni Hnd]; subst. constructor.
      * intros X. apply in_app_or in X. destruct X as [X|X]; [exact (Hni X)|exact (C h (or_introl eq_refl) X)].
      * apply IH. split; [exact Hnd|]. split; [exact B|]. intros x Hx. apply C. right. exact Hx.
Qed.

Lemma nodup3_iff (a b c : list Z) : NoDup (a ++ b ++ c) <->
  NoDup a /\ NoDup b /\ NoDup c /\ (forall x, In x a -> ~ In x b) /\ (forall x, In x a -> ~ In x c) /\ (forall x, In x b -> ~ In x c).
Proof.
  rewrite nodup_app_iff. rewrite nodup_app_iff. split.
  - intros (A & (B & C & D) & E). repeat split; try assumption.
    + intros x Hx X. apply (E x Hx). apply in_or_app. left. exact X.
    + intros x Hx X. apply (E x Hx). apply in_or_app. right. exact X.
  - intros (A & B & C & D & E & F). repeat split; try assumption.
    intros x Hx X. apply in_app_or in X. destruct X as [X|X]; [exact (D x Hx X)|exact (E x Hx X)].
Qed.

Lemma nodup_dq_delete d id : NoDup d -> NoDup (dq_delete d id).
Proof. unfold dq_delete. apply NoDup_filter. Qed.

(* the tag of a linked node names its deque *)
Lemma own_queue_cases p id :
  (own_queue p id = QWINDOW /\ pqueue (node_of p id) = QWINDOW) \/
  (own_queue p id = QPROBATION /\ pqueue (node_of p id) = QPROBATION) \/
  (own_queue p id = QPROTECTED /\ pqueue (node_of p id) <> QWINDOW /\ pqueue (node_of p id) <> QPROBATION).
Proof.
  unfold own_queue, QWINDOW, QPROBATION, QPROTECTED.
  destruct (pqueue (node_of p id) =? 0) eqn:E0; [left; split; [reflexivity|lia]|].
  destruct (pqueue (node_of p id) =? 1) eqn:E1; [right; left; split; [reflexivity|lia]|].
  right; right. split; [reflexivity|lia].
Qed.

(* the deques shrink (only [id] may disappear from them) *)
Lemma PIX_sub_queues ex p cn co a b c id :
  PIX ex p cn co ->
  NoDup a -> (forall x, In x a -> In x (qwin p)) -> (forall x, In x (qwin p) -> x <> id -> In x a) ->
  NoDup b -> (forall x, In x b -> In x (qprob p)) -> (forall x, In x (qprob p) -> x <> id -> In x b) ->
  NoDup c -> (forall x, In x c -> In x (qprot p)) -> (forall x, In x (qprot p) -> x <> id -> In x c) ->
  PIX (fun x => ex x \/ x = id) (with_queues p a b c) cn co.
Proof.
  intros [H1 H2 H3 H4 H5 H6 H7 H8 H9 H10 H11 H12 H13 H14] Na Ia Sa Nb Ib Sb Nc Ic Sc.
  apply nodup3_iff in H2. destruct H2 as (_ & _ & _ & Dab & Dac & Dbc).
  unfold with_queues. constructor; unfold in_queue_ok, linked; cbn [store qwin qprob qprot wsize wwsize pwsize]; try assumption.
  - apply nodup3_iff. repeat split; try assumption.
    + intros x Hx Hy. exact (Dab x (Ia x Hx) (Ib x Hy)).
    + intros x Hx Hy. exact (Dac x (Ia x Hx) (Ic x Hy)).
    + intros x Hx Hy. exact (Dbc x (Ib x Hx) (Ic x Hy)).
  - intros x Hx. exact (H3 x (Ia x Hx)).
  - intros x Hx. exact (H4 x (Ib x Hx)).
  - intros x Hx. exact (H5 x (Ic x Hx)).
  - intros x nd Hs Ha. destruct (H8 x nd Hs Ha) as [A B]. split; [exact A|]. intros C D.
    assert (Nx : x <> id) by (intros ->; apply D; right; reflexivity).
    assert (L : linked p x) by (apply B; [exact C|intros E; apply D; left; exact E]).
    destruct L as [L|[L|L]]; [left; apply Sa|right; left; apply Sb|right; right; apply Sc]; assumption.
Qed.

(* unlink a node from the deque its tag names: afterwards it is linked nowhere *)
Lemma PIX_unlink ex p cn co id :
  PIX ex p cn co ->
  let p' := set_queue p (own_queue p id) (dq_delete (queue_of p (own_queue p id)) id) in
  PIX (fun x => ex x \/ x = id) p' cn co /\ ~ linked p' id.
Proof.
  intros HP. pose proof HP as [H1 H2 H3 H4 H5 H6 H7 H8 H9 H10 H11 H12 H13 H14]. cbv zeta.
  apply nodup3_iff in H2. destruct H2 as (Na & Nb & Nc & Dab & Dac & Dbc).
  assert (Ta : In id (qwin p) -> own_queue p id = QWINDOW).
  { intros Hin. destruct (H3 id Hin) as (n0 & A & B & _). unfold own_queue. rewrite (node_of_some p id n0 A), B. reflexivity. }
  assert (Tb : In id (qprob p) -> own_queue p id = QPROBATION).
  { intros Hin. destruct (H4 id Hin) as (n0 & A & B & _). unfold own_queue. rewrite (node_of_some p id n0 A), B. reflexivity. }
  assert (Tc : In id (qprot p) -> own_queue p id = QPROTECTED).
  { intros Hin. destruct (H5 id Hin) as (n0 & A & B & _). unfold own_queue. rewrite (node_of_some p id n0 A), B. reflexivity. }
  destruct (own_queue_cases p id) as [[Eq _]|[[Eq _]|[Eq _]]]; rewrite Eq in *;
    unfold set_queue, queue_of, QWINDOW, QPROBATION, QPROTECTED in *; cbn [Z.eqb Pos.eqb] in *.
  - split.
    + apply PIX_sub_queues; try assumption; try (intros x Hx; exact Hx); try (intros x Hx _; exact Hx).
      * apply nodup_dq_delete. exact Na.
      * intros x Hx. apply in_dq_delete in Hx. apply Hx.
      * intros x Hx Nx. apply in_dq_delete. split; assumption.
    + unfold linked, with_queues. cbn [qwin qprob qprot]. rewrite in_dq_delete.
      intros [[_ L]|[L|L]]; [congruence|specialize (Tb L); discriminate|specialize (Tc L); discriminate].
  - split.
    + apply PIX_sub_queues; try assumption; try (intros x Hx; exact Hx); try (intros x Hx _; exact Hx).
      * apply nodup_dq_delete. exact Nb.
      * intros x Hx. apply in_dq_delete in Hx. apply Hx.
      * intros x Hx Nx. apply in_dq_delete. split; assumption.
    + unfold linked, with_queues. cbn [qwin qprob qprot]. rewrite in_dq_delete.
      intros [L|[[_ L]|L]]; [specialize (Ta L); discriminate|congruence|specialize (Tc L); discriminate].
  - split.
    + apply PIX_sub_queues; try assumption; try (intros x Hx; exact Hx); try (intros x Hx _; exact Hx).
      * apply nodup_dq_delete. exact Nc.
      * intros x Hx. apply in_dq_delete in Hx. apply Hx.
      * intros x Hx Nx. apply in_dq_delete. split; assumption.
    + unfold linked, with_queues. cbn [qwin qprob qprot]. rewrite in_dq_delete.
      intros [L|[L|[_ L]]]; [specialize (Ta L); discriminate|specialize (Tb L); discriminate|congruence].
Qed.

(* p.delete *)
Lemma PIX_pol_delete ex p cn co id : PIX ex p cn co -> PIX (fun x => ex x /\ x <> id) (pol_delete p id) cn co /\ ~ linked (pol_delete p id) id.
Proof.
  intros HP. unfold pol_delete.
  destruct (PIX_unlink ex p cn co id HP) as [H1 H2]. cbv zeta in H1, H2.
  set (p1 := set_queue p (own_queue p id) (dq_delete (queue_of p (own_queue p id)) id)) in *.
  split.
  - apply (PIX_shrink_ex (fun x => (ex x \/ x = id) /\ x <> id)); [|apply PIX_make_dead; assumption].
    intros x nd Hs Ha _ [[E|E] N]; [left; split; assumption|contradiction].
  - intros L. apply H2. unfold linked in *. unfold make_dead in L.
    destruct (pstate (node_of p1 id) =? DEAD); [exact L|].
    unfold set_state_of, set_node, with_store, with_sizes in L. cbn [qwin qprob qprot] in L. exact L.
Qed.

(* evictNode's policy side *)
Lemma PIX_pol_evict ex p cn co id : PIX ex p cn co -> PIX (fun x => ex x /\ x <> id) (pol_evict p id) cn co /\ ~ linked (pol_evict p id) id.
Proof.
  intros HP. unfold pol_evict. destruct (PIX_pol_delete ex p cn co id HP) as [H1 H2]. split.
  - apply (PIX_shrink_ex (fun x => (ex x /\ x <> id) /\ x <> id)); [|apply PIX_make_dead; assumption].
    intros x nd _ _ _ [E _]. left. exact E.
  - intros L. apply H2. unfold linked in *. unfold make_dead in L.
    destruct (pstate (node_of (pol_delete p id) id) =? DEAD); [exact L|].
    unfold set_state_of, set_node, with_store, with_sizes in L. cbn [qwin qprob qprot] in L. exact L.
Qed.

(* ---- consuming the task that counts node n: the weight enters the counters *)
Definition cn_clear (cn : Z -> Z) (n : Z) : Z -> Z := fun x => if x =? n then 0 else cn x.

Lemma PIX_count ex p cn co n nd :
  PIX ex p cn co -> sget (store p) n = Some nd -> cn n = 1 ->
  PIX (fun x => ex x \/ x = n)
      (with_sizes p (wrapu (wsize p + pweight nd)) (wrapu (wwsize p + pweight nd)) (pwsize p)) (cn_clear cn n) co.
Proof.
  intros [H1 H2 H3 H4 H5 H6 H7 H8 H9 H10 H11 H12 H13 H14] Es Hc.
  assert (Htag : pqueue nd = QWINDOW) by exact (H10 n nd Es Hc).
  assert (Hoff : forall (f : (Z -> Z) -> Z -> pnode -> Z), True) by (intros; exact I).
  unfold with_sizes, cn_clear. constructor; unfold in_queue_ok, linked; cbn [store qwin qprob qprot wsize wwsize pwsize]; try assumption.
  - intros x Hx. destruct (H3 x Hx) as (n0 & A & B & C & D). exists n0. repeat split; try assumption. destruct (x =? n); [reflexivity|exact D].
  - intros x Hx. destruct (H4 x Hx) as (n0 & A & B & C & D). exists n0. repeat split; try assumption. destruct (x =? n); [reflexivity|exact D].
  - intros x Hx. destruct (H5 x Hx) as (n0 & A & B & C & D). exists n0. repeat split; try assumption. destruct (x =? n); [reflexivity|exact D].
  - intros x Hx. destruct (H6 x Hx) as [A B]. split; [destruct (x =? n); [reflexivity|exact A]|exact B].
  - intros x. destruct (H7 x) as [A B]. split; [destruct (x =? n); lia|exact B].
  - intros x n0 Hs Ha. destruct (H8 x n0 Hs Ha) as [A B]. split; [exact A|]. intros C D.
    destruct (x =? n) eqn:E; [exfalso; apply D; right; lia|]. apply B; [exact C|]. intros F. apply D. left. exact F.
  - intros x n0 Hs C. destruct (x =? n) eqn:E; [lia|]. exact (H10 x n0 Hs C).
  - rewrite H12, wrapu_add_l. f_equal.
    rewrite (ssum_coef_step (f_all cn) (f_all (fun x => if x =? n then 0 else cn x)) (store p) n H1).
    + rewrite Es, !f_all_app. unfold coef. rewrite Z.eqb_refl. replace (cn n =? 0) with false by lia. cbn [Z.eqb]. lia.
    + intros i m Hi. rewrite !f_all_app. unfold coef. replace (i =? n) with false by lia. reflexivity.
  - rewrite H13, wrapu_add_l. f_equal.
    rewrite (ssum_coef_step (f_win cn) (f_win (fun x => if x =? n then 0 else cn x)) (store p) n H1).
    + rewrite Es, !f_win_app. unfold coef. rewrite (Z.eqb_refl n), Htag. change (QWINDOW =? QWINDOW) with true.
      replace (cn n =? 0) with false by lia. cbn [Z.eqb]. lia.
    + intros i m Hi. rewrite !f_win_app. unfold coef. replace (i =? n) with false by lia. reflexivity.
  - rewrite H14. f_equal.
    rewrite (ssum_coef_step (f_prot cn) (f_prot (fun x => if x =? n then 0 else cn x)) (store p) n H1).
    + rewrite Es, !f_prot_app. rewrite Htag. change (QWINDOW =? QPROTECTED) with false. cbv iota. lia.
    + intros i m Hi. rewrite !f_prot_app. unfold coef. replace (i =? n) with false by lia. reflexivity.
Qed.

(* the deques grow by one node that is alive, counted, tagged for that deque and linked nowhere *)
Lemma PIX_super_queues ex p cn co a b c n nd :
  PIX ex p cn co -> sget (store p) n = Some nd -> pstate nd <> DEAD -> cn n = 0 -> ~ linked p n ->
  NoDup (a ++ b ++ c) ->
  (forall x, In x a <-> In x (qwin p) \/ (x = n /\ pqueue nd = QWINDOW)) ->
  (forall x, In x b <-> In x (qprob p) \/ (x = n /\ pqueue nd = QPROBATION)) ->
  (forall x, In x c <-> In x (qprot p) \/ (x = n /\ pqueue nd = QPROTECTED)) ->
  linked (with_queues p a b c) n ->
  PIX (fun x => ex x /\ x <> n) (with_queues p a b c) cn co.
Proof.
  intros [H1 H2 H3 H4 H5 H6 H7 H8 H9 H10 H11 H12 H13 H14] Es Hd Hc Hnl Nd Ia Ib Ic Hl.
  unfold with_queues in *. unfold linked in Hl. cbn [qwin qprob qprot] in Hl.
  constructor; unfold in_queue_ok, linked; cbn [store qwin qprob qprot wsize wwsize pwsize]; try assumption.
  - intros x Hx. apply Ia in Hx. destruct Hx as [Hx|[-> Hq]]; [exact (H3 x Hx)|]. exists nd. repeat split; assumption.
  - intros x Hx. apply Ib in Hx. destruct Hx as [Hx|[-> Hq]]; [exact (H4 x Hx)|]. exists nd. repeat split; assumption.
  - intros x Hx. apply Ic in Hx. destruct Hx as [Hx|[-> Hq]]; [exact (H5 x Hx)|]. exists nd. repeat split; assumption.
  - intros x n0 Hs Ha. destruct (H8 x n0 Hs Ha) as [A B]. split; [exact A|]. intros C D.
    destruct (Z.eq_dec x n) as [->|N]; [exact Hl|].
    assert (L : linked p x) by (apply B; [exact C|intros E; apply D; split; assumption]).
    destruct L as [L|[L|L]]; [left; apply Ia|right; left; apply Ib|right; right; apply Ic]; left; exact L.
Qed.

Lemma pending_not_linked ex p cn co n : PIX ex p cn co -> cn n <> 0 -> ~ linked p n.
Proof.
  intros [H1 H2 H3 H4 H5 H6 H7 H8 H9 H10 H11 H12 H13 H14] Hc [L|[L|L]];
    [destruct (H3 n L) as (? & _ & _ & _ & D)|destruct (H4 n L) as (? & _ & _ & _ & D)|destruct (H5 n L) as (? & _ & _ & _ & D)]; lia.
Qed.

Lemma pending_present ex p cn co n : PIX ex p cn co -> cn n <> 0 -> exists nd, sget (store p) n = Some nd.
Proof.
  intros HP Hc. destruct (sget (store p) n) as [nd|] eqn:E; [exists nd; reflexivity|].
  destruct (pi_absent _ _ _ _ HP n E) as [A _]. lia.
Qed.

Lemma nodup_cons_queues (a b c : list Z) n : NoDup (a ++ b ++ c) -> ~ In n a -> ~ In n b -> ~ In n c -> NoDup ((n :: a) ++ b ++ c).
Proof.
  intros H Ha Hb Hc. cbn [app]. constructor; [|exact H].
  intros X. apply in_app_or in X. destruct X as [X|X]; [exact (Ha X)|]. apply in_app_or in X. destruct X as [X|X]; [exact (Hb X)|exact (Hc X)].
Qed.

Lemma nodup_snoc_queues (a b c : list Z) n : NoDup (a ++ b ++ c) -> ~ In n a -> ~ In n b -> ~ In n c -> NoDup ((a ++ [n]) ++ b ++ c).
Proof.
  intros H Ha Hb Hc. apply nodup3_iff in H. destruct H as (Na & Nb & Nc & Dab & Dac & Dbc).
  apply nodup3_iff. repeat split; try assumption.
  - apply nodup_app_iff. repeat split; [exact Na|constructor; [intros []|constructor]|]. intros x Hx [<-|[]]. exact (Ha Hx).
  - intros x Hx. apply in_app_or in Hx. destruct Hx as [Hx|[<-|[]]]; [exact (Dab x Hx)|exact Hb].
  - intros x Hx. apply in_app_or in Hx. destruct Hx as [Hx|[<-|[]]]; [exact (Dac x Hx)|exact Hc].
Qed.

(* p.add, consuming the task that counts n *)
Lemma PIX_pol_add hashf ex p cn co n :
  PIX ex p cn co -> cn n = 1 ->
  PIX (fun x => ex x /\ x <> n) (fst (pol_add hashf p n)) (cn_clear cn n) co.
Proof.
  intros HP Hc.
  destruct (pending_present ex p cn co n HP ltac:(lia)) as [nd Es].
  pose proof (pending_not_linked ex p cn co n HP ltac:(lia)) as Hnl.
  pose proof (PIX_count ex p cn co n nd HP Es Hc) as H1.
  unfold pol_add. rewrite (node_of_some p n nd Es).
  set (p1 := with_sizes p (wrapu (wsize p + pweight nd)) (wrapu (wwsize p + pweight nd)) (pwsize p)) in *.
  set (p2 := if wsize p1 >=? Z.shiftr (maxi p1) 1 then _ else p1).
  set (p3 := with_sketch p2 _).
  assert (H3 : PIX (fun x => ex x \/ x = n) p3 (cn_clear cn n) co).
  { apply (PIX_ext _ p1); try reflexivity; try exact H1;
      unfold p3, p2; destruct (wsize p1 >=? Z.shiftr (maxi p1) 1); reflexivity. }
  assert (Es3 : sget (store p3) n = Some nd).
  { unfold p3, p2. destruct (wsize p1 >=? Z.shiftr (maxi p1) 1); exact Es. }
  assert (Hnl3 : ~ linked p3 n).
  { unfold linked, p3, p2. destruct (wsize p1 >=? Z.shiftr (maxi p1) 1); exact Hnl. }
  assert (Hcc : cn_clear cn n n = 0) by (unfold cn_clear; rewrite Z.eqb_refl; reflexivity).
  destruct (negb (pstate nd =? ALIVE)) eqn:Ea; cbn [fst].
  - apply (PIX_shrink_ex (fun x => ex x \/ x = n)); [|exact H3].
    intros x n0 Hs Ha _ [E|E]; [destruct (Z.eq_dec x n) as [N|N]; [subst x|left; split; assumption]|subst x];
      rewrite Es3 in Hs; injection Hs as <-; unfold ALIVE in *; lia.
  - assert (Halive : pstate nd = ALIVE) by lia.
    destruct (pweight nd >? maxi p3) eqn:Eo; cbn [fst].
    + destruct (PIX_pol_evict _ p3 _ co n H3) as [H4 _].
      apply (PIX_shrink_ex (fun x => (ex x \/ x = n) /\ x <> n)); [|exact H4].
      intros x n0 _ _ _ [[E|E] N]; [left; split; assumption|contradiction].
    + assert (Htag : pqueue nd = QWINDOW) by exact (pi_fresh _ _ _ _ HP n nd Es Hc).
      assert (Hnd : pstate nd <> DEAD) by (unfold ALIVE, DEAD in *; lia).
      pose proof (pi_nodup _ _ _ _ H3) as Nd.
      destruct (pweight nd >? wmax p3); cbn [fst].
      * apply (PIX_shrink_ex (fun x => (ex x \/ x = n) /\ x <> n));
          [intros x n0 _ _ _ [[E|E] N]; [left; split; assumption|contradiction]|].
        apply (PIX_super_queues _ p3 _ co _ _ _ n nd H3 Es3 Hnd Hcc Hnl3).
        -- unfold dq_push_front. apply nodup_cons_queues; [exact Nd|..]; intros X; apply Hnl3; unfold linked; tauto.
        -- intros x. unfold dq_push_front. cbn [In]. split; [intros [<-|X]; [right; split; [reflexivity|exact Htag]|left; exact X]|intros [X|[-> _]]; [right; exact X|left; reflexivity]].
        -- intros x. split; [intros X; left; exact X|intros [X|[_ X]]; [exact X|rewrite Htag in X; discriminate]].
        -- intros x. split; [intros X; left; exact X|intros [X|[_ X]]; [exact X|rewrite Htag in X; discriminate]].
        -- unfold linked, with_queues, dq_push_front. cbn [qwin In]. left. left. reflexivity.
      * apply (PIX_shrink_ex (fun x => (ex x \/ x = n) /\ x <> n));
          [intros x n0 _ _ _ [[E|E] N]; [left; split; assumption|contradiction]|].
        apply (PIX_super_queues _ p3 _ co _ _ _ n nd H3 Es3 Hnd Hcc Hnl3).
        -- unfold dq_push_back. apply nodup_snoc_queues; [exact Nd|..]; intros X; apply Hnl3; unfold linked; tauto.
        -- intros x. unfold dq_push_back. rewrite in_app_iff. cbn [In]. split; [intros [X|[<-|[]]]; [left; exact X|right; split; [reflexivity|exact Htag]]|intros [X|[-> _]]; [left; exact X|right; left; reflexivity]].
        -- intros x. split; [intros X; left; exact X|intros [X|[_ X]]; [exact X|rewrite Htag in X; discriminate]].
        -- intros x. split; [intros X; left; exact X|intros [X|[_ X]]; [exact X|rewrite Htag in X; discriminate]].
        -- unfold linked, with_queues, dq_push_back. cbn [qwin]. left. apply in_or_app. right. left. reflexivity.
Qed.

End Offsets.

Definition PI (p : policy) (cn co : Z -> Z) : Prop := PIX 0 0 0 (fun _ => False) p cn co.

(* ---- changing counters / offsets only *)
Lemma PIX_counters dw dww dpw dw' dww' dpw' ex p p' cn co :
  store p' = store p -> qwin p' = qwin p -> qprob p' = qprob p -> qprot p' = qprot p ->
  (forall S, wsize p = wrapu (S + dw) -> wsize p' = wrapu (S + dw')) ->
  (forall S, wwsize p = wrapu (S + dww) -> wwsize p' = wrapu (S + dww')) ->
  (forall S, pwsize p = wrapu (S + dpw) -> pwsize p' = wrapu (S + dpw')) ->
  PIX dw dww dpw ex p cn co -> PIX dw' dww' dpw' ex p' cn co.
Proof.
  intros E1 E2 E3 E4 E5 E6 E7 [H1 H2 H3 H4 H5 H6 H7 H8 H9 H10 H11 H12 H13 H14].
  constructor; unfold in_queue_ok, linked in *; rewrite ?E1, ?E2, ?E3, ?E4; try assumption.
  - apply E5. exact H12.
  - apply E6. exact H13.
  - apply E7. exact H14.
Qed.

(* the deques are permuted (reorder / MoveToBack / MoveToFront) *)
Lemma PIX_perm_queues dw dww dpw ex p cn co a b c :
  PIX dw dww dpw ex p cn co -> NoDup (a ++ b ++ c) ->
  (forall x, In x a <-> In x (qwin p)) -> (forall x, In x b <-> In x (qprob p)) -> (forall x, In x c <-> In x (qprot p)) ->
  PIX dw dww dpw ex (with_queues p a b c) cn co.
Proof.
  intros [H1 H2 H3 H4 H5 H6 H7 H8 H9 H10 H11 H12 H13 H14] Nd Ia Ib Ic.
  unfold with_queues. constructor; unfold in_queue_ok, linked; cbn [store qwin qprob qprot wsize wwsize pwsize]; try assumption.
  - intros x Hx. apply H3. apply Ia. exact Hx.
  - intros x Hx. apply H4. apply Ib. exact Hx.
  - intros x Hx. apply H5. apply Ic. exact Hx.
  - intros x nd Hs Ha. destruct (H8 x nd Hs Ha) as [A B]. split; [exact A|]. intros C D.
    destruct (B C D) as [L|[L|L]]; [left; apply Ia|right; left; apply Ib|right; right; apply Ic]; exact L.
Qed.

(* the pending "as old" task of a dead node is consumed *)
Definition co_clear (co : Z -> Z) (old : Z) : Z -> Z := fun x => if x =? old then 0 else co x.

Lemma PIX_co_clear dw dww dpw ex p cn co old :
  PIX dw dww dpw ex p cn co -> (forall nd, sget (store p) old = Some nd -> pstate nd <> RETIRED) ->
  PIX dw dww dpw ex p cn (co_clear co old).
Proof.
  intros [H1 H2 H3 H4 H5 H6 H7 H8 H9 H10 H11 H12 H13 H14] Hd. unfold co_clear.
  constructor; try assumption.
  - intros x Hx. destruct (H6 x Hx) as [A B]. split; [exact A|]. destruct (x =? old); [reflexivity|exact B].
  - intros x. destruct (H7 x) as [A B]. split; [exact A|]. destruct (x =? old); lia.
  - intros x nd Hs Ha. destruct (H8 x nd Hs Ha) as [A B]. split; [destruct (x =? old); [reflexivity|exact A]|exact B].
  - intros x nd Hs Hr. destruct (x =? old) eqn:E; [|exact (H9 x nd Hs Hr)].
    assert (x = old) by lia. subst x. exfalso. exact (Hd nd Hs Hr).
Qed.

(* the task that counts n is consumed, its weight still owed to the counters *)
Lemma PIX_count_virtual dw dww dpw ex p cn co n nd :
  PIX dw dww dpw ex p cn co -> sget (store p) n = Some nd -> cn n = 1 ->
  PIX (dw - pweight nd) (dww - pweight nd) dpw (fun x => ex x \/ x = n) p (cn_clear cn n) co.
Proof.
  intros [H1 H2 H3 H4 H5 H6 H7 H8 H9 H10 H11 H12 H13 H14] Es Hc.
  assert (Htag : pqueue nd = QWINDOW) by exact (H10 n nd Es Hc).
  unfold cn_clear. constructor; unfold in_queue_ok, linked; try assumption.
  - intros x Hx. destruct (H3 x Hx) as (n0 & A & B & C & D). exists n0. repeat split; try assumption. destruct (x =? n); [reflexivity|exact D].
  - intros x Hx. destruct (H4 x Hx) as (n0 & A & B & C & D). exists n0. repeat split; try assumption. destruct (x =? n); [reflexivity|exact D].
  - intros x Hx. destruct (H5 x Hx) as (n0 & A & B & C & D). exists n0. repeat split; try assumption. destruct (x =? n); [reflexivity|exact D].
  - intros x Hx. destruct (H6 x Hx) as [A B]. split; [destruct (x =? n); [reflexivity|exact A]|exact B].
  - intros x. destruct (H7 x) as [A B]. split; [destruct (x =? n); lia|exact B].
  - intros x n0 Hs Ha. destruct (H8 x n0 Hs Ha) as [A B]. split; [exact A|]. intros C D.
    destruct (x =? n) eqn:E; [exfalso; apply D; right; lia|]. apply B; [exact C|]. intros F. apply D. left. exact F.
  - intros x n0 Hs C. destruct (x =? n) eqn:E; [lia|]. exact (H10 x n0 Hs C).
  - rewrite H12. f_equal.
    rewrite (ssum_coef_step (f_all cn) (f_all (fun x => if x =? n then 0 else cn x)) (store p) n H1).
    + rewrite Es, !f_all_app. unfold coef. rewrite Z.eqb_refl. replace (cn n =? 0) with false by lia. cbn [Z.eqb]. lia.
    + intros i m Hi. rewrite !f_all_app. unfold coef. replace (i =? n) with false by lia. reflexivity.
  - rewrite H13. f_equal.
    rewrite (ssum_coef_step (f_win cn) (f_win (fun x => if x =? n then 0 else cn x)) (store p) n H1).
    + rewrite Es, !f_win_app. unfold coef. rewrite (Z.eqb_refl n), Htag. change (QWINDOW =? QWINDOW) with true.
      replace (cn n =? 0) with false by lia. cbn [Z.eqb]. lia.
    + intros i m Hi. rewrite !f_win_app. unfold coef. replace (i =? n) with false by lia. reflexivity.
  - rewrite H14. f_equal.
    rewrite (ssum_coef_step (f_prot cn) (f_prot (fun x => if x =? n then 0 else cn x)) (store p) n H1).
    + rewrite Es, !f_prot_app. rewrite Htag. change (QWINDOW =? QPROTECTED) with false. cbv iota. lia.
    + intros i m Hi. rewrite !f_prot_app. unfold coef. replace (i =? n) with false by lia. reflexivity.
Qed.

(* a node that is linked nowhere, counted and not dead changes its queue tag: its weight moves
   between the per-queue sums *)
Definition tagw (q t w : Z) : Z := if t =? q then w else 0.

Lemma PIX_retag dw dww dpw ex p cn co n nd q :
  PIX dw dww dpw ex p cn co -> sget (store p) n = Some nd -> ~ linked p n -> cn n = 0 -> pstate nd <> DEAD ->
  (q = QWINDOW \/ q = QPROBATION \/ q = QPROTECTED) ->
  PIX dw (dww + tagw QWINDOW (pqueue nd) (pweight nd) - tagw QWINDOW q (pweight nd))
         (dpw + tagw QPROTECTED (pqueue nd) (pweight nd) - tagw QPROTECTED q (pweight nd))
      ex (set_queue_of p n q) cn co.
Proof.
  intros [H1 H2 H3 H4 H5 H6 H7 H8 H9 H10 H11 H12 H13 H14] Es Hnl Hc Hd Hq.
  unfold set_queue_of, set_node, with_store. rewrite (node_of_some p n nd Es).
  set (nd' := mkPnode (pkey nd) (pweight nd) (pstate nd) q).
  assert (Hcoef : coef cn n nd = 1).
  { unfold coef. replace (cn n =? 0) with true by lia. replace (pstate nd =? DEAD) with false by lia. reflexivity. }
  constructor; unfold in_queue_ok, linked; cbn [store qwin qprob qprot wsize wwsize pwsize]; try assumption.
  - apply sset_keys_nodup. exact H1.
  - intros x Hx. destruct (H3 x Hx) as (n0 & A & B). exists n0. split; [|exact B].
    rewrite sget_sset_other; [exact A|]. intros ->. apply Hnl. left. exact Hx.
  - intros x Hx. destruct (H4 x Hx) as (n0 & A & B). exists n0. split; [|exact B].
    rewrite sget_sset_other; [exact A|]. intros ->. apply Hnl. right. left. exact Hx.
  - intros x Hx. destruct (H5 x Hx) as (n0 & A & B). exists n0. split; [|exact B].
    rewrite sget_sset_other; [exact A|]. intros ->. apply Hnl. right. right. exact Hx.
  - intros x Hx. destruct (Z.eq_dec x n) as [->|N]; [rewrite sget_sset_same in Hx; discriminate|].
    rewrite sget_sset_other in Hx by exact N. apply H6. exact Hx.
  - intros x n0 Hx Ha. destruct (Z.eq_dec x n) as [->|N].
    + rewrite sget_sset_same in Hx. injection Hx as <-. unfold nd' in Ha. cbn [pstate] in Ha. exact (H8 n nd Es Ha).
    + rewrite sget_sset_other in Hx by exact N. exact (H8 x n0 Hx Ha).
  - intros x n0 Hx Ha. destruct (Z.eq_dec x n) as [->|N].
    + rewrite sget_sset_same in Hx. injection Hx as <-. unfold nd' in Ha. cbn [pstate] in Ha. exact (H9 n nd Es Ha).
    + rewrite sget_sset_other in Hx by exact N. exact (H9 x n0 Hx Ha).
  - intros x n0 Hx C. destruct (Z.eq_dec x n) as [->|N]; [lia|].
    rewrite sget_sset_other in Hx by exact N. exact (H10 x n0 Hx C).
  - intros x n0 Hx. destruct (Z.eq_dec x n) as [->|N].
    + rewrite sget_sset_same in Hx. injection Hx as <-. unfold nd'. cbn [pstate pqueue]. split; [apply (H11 n nd Es)|exact Hq].
    + rewrite sget_sset_other in Hx by exact N. exact (H11 x n0 Hx).
  - rewrite H12. f_equal.
    rewrite (ssum_step (f_all cn) (f_all cn) (store p) n nd' H1) by reflexivity. rewrite Es, !f_all_app.
    unfold coef, nd'. cbn [pstate pweight]. lia.
  - rewrite H13. f_equal.
    rewrite (ssum_step (f_win cn) (f_win cn) (store p) n nd' H1) by reflexivity. rewrite Es, !f_win_app.
    assert (C' : coef cn n nd' = 1) by (unfold coef, nd'; cbn [pstate]; exact Hcoef).
    rewrite Hcoef, C'. unfold tagw, nd'. cbn [pqueue pweight].
    destruct (pqueue nd =? QWINDOW); destruct (q =? QWINDOW); lia.
  - rewrite H14. f_equal.
    rewrite (ssum_step (f_prot cn) (f_prot cn) (store p) n nd' H1) by reflexivity. rewrite Es, !f_prot_app.
    assert (C' : coef cn n nd' = 1) by (unfold coef, nd'; cbn [pstate]; exact Hcoef).
    rewrite Hcoef, C'. unfold tagw, nd'. cbn [pqueue pweight].
    destruct (pqueue nd =? QPROTECTED); destruct (q =? QPROTECTED); lia.
Qed.

(* ---- UpdateNode: n takes old's place in the deque *)
Lemma in_dq_update d n old x : In x (dq_update d n old) <-> (In x d /\ x <> old) \/ (x = n /\ In old d).
Proof.
  unfold dq_update. rewrite in_map_iff. split.
  - intros (y & E & Hy). destruct (y =? old) eqn:Ey.
    + right. split; [symmetry; exact E|]. assert (y = old) by lia. subst y. exact Hy.
    + left. subst x. split; [exact Hy|lia].
  - intros [[Hx N]|[-> Ho]].
    + exists x. split; [replace (x =? old) with false by lia; reflexivity|exact Hx].
    + exists old. split; [rewrite Z.eqb_refl; reflexivity|exact Ho].
Qed.

Lemma nodup_dq_update d n old : NoDup d -> ~ In n d -> NoDup (dq_update d n old).
Proof.
  unfold dq_update. intros Hd Hn. induction d as [|h d IH]; cbn [map]; [constructor|].
  inversion Hd as [|? ? Hni Hnd]; subst. constructor.
  - rewrite in_map_iff. intros (y & E & Hy). destruct (h =? old) eqn:Eh; destruct (y =? old) eqn:Ey.
    + assert (h = old) by lia. assert (y = old) by lia. subst. exact (Hni Hy).
    + subst y. apply Hn. right. exact Hy.
    + subst h. apply Hn. left. reflexivity.
    + subst y. exact (Hni Hy).
  - apply IH; [exact Hnd|]. intros X. apply Hn. right. exact X.
Qed.

Lemma PIX_replace_gen dw dww dpw ex p cn co n nd old a b c :
  PIX dw dww dpw ex p cn co -> sget (store p) n = Some nd -> pstate nd <> DEAD -> cn n = 0 -> ~ linked p n -> n <> old ->
  (forall od, sget (store p) old = Some od -> pstate od <> ALIVE) ->
  NoDup (a ++ b ++ c) ->
  (forall x, In x a <-> (In x (qwin p) /\ x <> old) \/ (x = n /\ pqueue nd = QWINDOW)) ->
  (forall x, In x b <-> (In x (qprob p) /\ x <> old) \/ (x = n /\ pqueue nd = QPROBATION)) ->
  (forall x, In x c <-> (In x (qprot p) /\ x <> old) \/ (x = n /\ pqueue nd = QPROTECTED)) ->
  linked (with_queues p a b c) n ->
  PIX dw dww dpw (fun x => ex x /\ x <> n) (with_queues p a b c) cn co.
Proof.
  intros HP Es Hd Hc Hnl Hne Hold Nd Ia Ib Ic Hl.
  pose proof HP as [H1 H2 H3 H4 H5 H6 H7 H8 H9 H10 H11 H12 H13 H14].
  unfold with_queues in *. unfold linked in Hl. cbn [qwin qprob qprot] in Hl.
  constructor; unfold in_queue_ok, linked; cbn [store qwin qprob qprot wsize wwsize pwsize]; try assumption.
  - intros x Hx. apply Ia in Hx. destruct Hx as [[Hx _]|[-> Hq]]; [exact (H3 x Hx)|]. exists nd. repeat split; assumption.
  - intros x Hx. apply Ib in Hx. destruct Hx as [[Hx _]|[-> Hq]]; [exact (H4 x Hx)|]. exists nd. repeat split; assumption.
  - intros x Hx. apply Ic in Hx. destruct Hx as [[Hx _]|[-> Hq]]; [exact (H5 x Hx)|]. exists nd. repeat split; assumption.
  - intros x n0 Hs Ha. destruct (H8 x n0 Hs Ha) as [A B]. split; [exact A|]. intros C D.
    destruct (Z.eq_dec x n) as [->|N]; [exact Hl|].
    assert (No : x <> old) by (intros ->; exact (Hold n0 Hs Ha)).
    assert (L : linked p x) by (apply B; [exact C|intros E; apply D; split; assumption]).
    destruct L as [L|[L|L]]; [left; apply Ia|right; left; apply Ib|right; right; apply Ic]; left; split; assumption.
Qed.

Lemma queue_tag_of_linked dw dww dpw ex p cn co id q :
  PIX dw dww dpw ex p cn co -> (q = QWINDOW \/ q = QPROBATION \/ q = QPROTECTED) -> In id (queue_of p q) ->
  exists nd, sget (store p) id = Some nd /\ pqueue nd = q /\ pstate nd <> DEAD /\ cn id = 0.
Proof.
  intros HP [-> | [-> | ->]] Hin; unfold queue_of, QWINDOW, QPROBATION, QPROTECTED in *; cbn [Z.eqb Pos.eqb] in Hin.
  - exact (pi_win _ _ _ _ _ _ _ HP id Hin).
  - exact (pi_prob _ _ _ _ _ _ _ HP id Hin).
  - exact (pi_prot _ _ _ _ _ _ _ HP id Hin).
Qed.

Lemma PIX_replace dw dww dpw ex p cn co n nd old q :
  PIX dw dww dpw ex p cn co -> sget (store p) n = Some nd -> pqueue nd = q -> pstate nd <> DEAD -> cn n = 0 ->
  ~ linked p n -> n <> old ->
  (forall od, sget (store p) old = Some od -> pstate od <> ALIVE) ->
  (q = QWINDOW \/ q = QPROBATION \/ q = QPROTECTED) -> In old (queue_of p q) ->
  let p' := set_queue p q (dq_update (queue_of p q) n old) in
  PIX dw dww dpw (fun x => ex x /\ x <> n) p' cn co /\ ~ linked p' old /\ linked p' n.
Proof.
  intros HP Es Hq Hd Hc Hnl Hne Hold Hqq Hin. cbv zeta.
  pose proof (pi_nodup _ _ _ _ _ _ _ HP) as Nd. apply nodup3_iff in Nd. destruct Nd as (Na & Nb & Nc & Dab & Dac & Dbc).
  assert (Hna : ~ In n (qwin p)) by (intros X; apply Hnl; left; exact X).
  assert (Hnb : ~ In n (qprob p)) by (intros X; apply Hnl; right; left; exact X).
  assert (Hnc : ~ In n (qprot p)) by (intros X; apply Hnl; right; right; exact X).
  destruct Hqq as [-> | [-> | ->]]; unfold set_queue, queue_of, QWINDOW, QPROBATION, QPROTECTED in *; cbn [Z.eqb Pos.eqb] in *.
  - assert (Ob : ~ In old (qprob p)) by (apply Dab; exact Hin). assert (Oc : ~ In old (qprot p)) by (apply Dac; exact Hin).
    split; [|split].
    + apply (PIX_replace_gen dw dww dpw ex p cn co n nd old); try assumption.
      * apply nodup3_iff. repeat split; try assumption; [apply nodup_dq_update; assumption|..];
          intros x Hx Hy; apply in_dq_update in Hx; destruct Hx as [[Hx _]|[-> _]];
          first [exact (Dab x Hx Hy)|exact (Dac x Hx Hy)|exact (Hnb Hy)|exact (Hnc Hy)].
      * intros x. rewrite in_dq_update. rewrite Hq. split; [intros [X|[X _]]; [left; exact X|right; split; [exact X|reflexivity]]|intros [X|[X _]]; [left; exact X|right; split; assumption]].
      * intros x. rewrite Hq. split; [intros X; left; split; [exact X|intros ->; exact (Ob X)]|intros [[X _]|[_ X]]; [exact X|discriminate]].
      * intros x. rewrite Hq. split; [intros X; left; split; [exact X|intros ->; exact (Oc X)]|intros [[X _]|[_ X]]; [exact X|discriminate]].
      * unfold linked, with_queues. cbn [qwin]. left. apply in_dq_update. right. split; [reflexivity|exact Hin].
    + unfold linked, with_queues. cbn [qwin qprob qprot]. rewrite in_dq_update. intros [[[_ X]|[X _]]|[X|X]]; [congruence|congruence|exact (Ob X)|exact (Oc X)].
    + unfold linked, with_queues. cbn [qwin]. left. apply in_dq_update. right. split; [reflexivity|exact Hin].
  - assert (Oa : ~ In old (qwin p)) by (intros X; exact (Dab old X Hin)). assert (Oc : ~ In old (qprot p)) by (apply Dbc; exact Hin).
    split; [|split].
    + apply (PIX_replace_gen dw dww dpw ex p cn co n nd old); try assumption.
      * apply nodup3_iff. repeat split; try assumption; [apply nodup_dq_update; assumption|..].
        -- intros x Hx Hy. apply in_dq_update in Hy. destruct Hy as [[Hy _]|[-> _]]; [exact (Dab x Hx Hy)|exact (Hna Hx)].
        -- intros x Hx Hy. apply in_dq_update in Hx. destruct Hx as [[Hx _]|[-> _]]; [exact (Dbc x Hx Hy)|exact (Hnc Hy)].
      * intros x. rewrite Hq. split; [intros X; left; split; [exact X|intros ->; exact (Oa X)]|intros [[X _]|[_ X]]; [exact X|discriminate]].
      * intros x. rewrite in_dq_update. rewrite Hq. split; [intros [X|[X _]]; [left; exact X|right; split; [exact X|reflexivity]]|intros [X|[X _]]; [left; exact X|right; split; assumption]].
      * intros x. rewrite Hq. split; [intros X; left; split; [exact X|intros ->; exact (Oc X)]|intros [[X _]|[_ X]]; [exact X|discriminate]].
      * unfold linked, with_queues. cbn [qwin qprob]. right. left. apply in_dq_update. right. split; [reflexivity|exact Hin].
    + unfold linked, with_queues. cbn [qwin qprob qprot]. rewrite in_dq_update. intros [X|[[[_ X]|[X _]]|X]]; [exact (Oa X)|congruence|congruence|exact (Oc X)].
    + unfold linked, with_queues. cbn [qwin qprob]. right. left. apply in_dq_update. right. split; [reflexivity|exact Hin].
  - assert (Oa : ~ In old (qwin p)) by (intros X; exact (Dac old X Hin)). assert (Ob : ~ In old (qprob p)) by (intros X; exact (Dbc old X Hin)).
    split; [|split].
    + apply (PIX_replace_gen dw dww dpw ex p cn co n nd old); try assumption.
      * apply nodup3_iff. repeat split; try assumption; [apply nodup_dq_update; assumption|..];
          intros x Hx Hy; apply in_dq_update in Hy; destruct Hy as [[Hy _]|[-> _]];
          first [exact (Dac x Hx Hy)|exact (Dbc x Hx Hy)|exact (Hna Hx)|exact (Hnb Hx)].
      * intros x. rewrite Hq. split; [intros X; left; split; [exact X|intros ->; exact (Oa X)]|intros [[X _]|[_ X]]; [exact X|discriminate]].
      * intros x. rewrite Hq. split; [intros X; left; split; [exact X|intros ->; exact (Ob X)]|intros [[X _]|[_ X]]; [exact X|discriminate]].
      * intros x. rewrite in_dq_update. rewrite Hq. split; [intros [X|[X _]]; [left; exact X|right; split; [exact X|reflexivity]]|intros [X|[X _]]; [left; exact X|right; split; assumption]].
      * unfold linked, with_queues. cbn [qwin qprob qprot]. right. right. apply in_dq_update. right. split; [reflexivity|exact Hin].
    + unfold linked, with_queues. cbn [qwin qprob qprot]. rewrite in_dq_update. intros [X|[X|[[_ X]|[X _]]]]; [exact (Oa X)|exact (Ob X)|congruence|congruence].
    + unfold linked, with_queues. cbn [qwin qprob qprot]. right. right. apply in_dq_update. right. split; [reflexivity|exact Hin].
Qed.

(* ---- reorder within a deque *)
Lemma nodup3_perm (a b c a' b' c' : list Z) :
  NoDup (a ++ b ++ c) -> NoDup a' -> NoDup b' -> NoDup c' ->
  (forall x, In x a' <-> In x a) -> (forall x, In x b' <-> In x b) -> (forall x, In x c' <-> In x c) ->
  NoDup (a' ++ b' ++ c').
Proof.
  intros H Na Nb Nc Ia Ib Ic. apply nodup3_iff in H. destruct H as (_ & _ & _ & Dab & Dac & Dbc).
  apply nodup3_iff. repeat split; try assumption; intros x Hx Hy.
  - apply (Dab x); [apply Ia|apply Ib]; assumption.
  - apply (Dac x); [apply Ia|apply Ic]; assumption.
  - apply (Dbc x); [apply Ib|apply Ic]; assumption.
Qed.

Lemma dq_contains_in d id : dq_contains d id = true <-> In id d.
Proof.
  unfold dq_contains. rewrite existsb_exists. split; [intros (x & Hx & E); assert (x = id) by lia; subst; exact Hx|intros H; exists id; split; [exact H|lia]].
Qed.

Lemma in_move_to_back d id x : In id d -> (In x (dq_move_to_back d id) <-> In x d).
Proof.
  intros Hid. unfold dq_move_to_back, dq_push_back. rewrite in_app_iff, in_dq_delete. cbn [In].
  split; [intros [[A _]|[<-|[]]]; assumption|intros A; destruct (Z.eq_dec x id) as [->|N]; [right; left; reflexivity|left; split; assumption]].
Qed.

Lemma nodup_move_to_back d id : NoDup d -> NoDup (dq_move_to_back d id).
Proof.
  intros H. unfold dq_move_to_back, dq_push_back. apply nodup_app_iff. repeat split.
  - apply nodup_dq_delete. exact H.
  - constructor; [intros []|constructor].
  - intros x Hx [<-|[]]. apply in_dq_delete in Hx. destruct Hx as [_ Hx]. congruence.
Qed.

Lemma in_move_to_front d id x : In id d -> (In x (dq_move_to_front d id) <-> In x d).
Proof.
  intros Hid. unfold dq_move_to_front, dq_push_front. cbn [In]. rewrite in_dq_delete.
  split; [intros [<-|[A _]]; assumption|intros A; destruct (Z.eq_dec x id) as [->|N]; [left; reflexivity|right; split; assumption]].
Qed.

Lemma nodup_move_to_front d id : NoDup d -> NoDup (dq_move_to_front d id).
Proof.
  intros H. unfold dq_move_to_front, dq_push_front. constructor; [|apply nodup_dq_delete; exact H].
  intros X. apply in_dq_delete in X. destruct X as [_ X]. congruence.
Qed.

Lemma PIX_reorder dw dww dpw ex p cn co q id :
  PIX dw dww dpw ex p cn co -> PIX dw dww dpw ex (reorder p q id) cn co.
Proof.
  intros HP. unfold reorder. destruct (dq_contains (queue_of p q) id) eqn:E; [|exact HP].
  apply dq_contains_in in E.
  pose proof (pi_nodup _ _ _ _ _ _ _ HP) as Nd. pose proof Nd as Nd'. apply nodup3_iff in Nd'. destruct Nd' as (Na & Nb & Nc & _).
  unfold set_queue, queue_of in *.
  destruct (q =? QWINDOW); [|destruct (q =? QPROBATION)]; apply PIX_perm_queues; try exact HP; try (intros x; reflexivity).
  - apply (nodup3_perm _ _ _ _ _ _ Nd); try assumption; try (intros x; reflexivity); [apply nodup_move_to_back; exact Na|intros x; apply in_move_to_back; exact E].
  - intros x. apply in_move_to_back. exact E.
  - apply (nodup3_perm _ _ _ _ _ _ Nd); try assumption; try (intros x; reflexivity); [apply nodup_move_to_back; exact Nb|intros x; apply in_move_to_back; exact E].
  - intros x. apply in_move_to_back. exact E.
  - apply (nodup3_perm _ _ _ _ _ _ Nd); try assumption; try (intros x; reflexivity); [apply nodup_move_to_back; exact Nc|intros x; apply in_move_to_back; exact E].
  - intros x. apply in_move_to_back. exact E.
Qed.

Lemma own_queue_valid p id :
  (pqueue (node_of p id) = QWINDOW \/ pqueue (node_of p id) = QPROBATION \/ pqueue (node_of p id) = QPROTECTED) ->
  own_queue p id = pqueue (node_of p id).
Proof. unfold own_queue, QWINDOW, QPROBATION, QPROTECTED. intros [-> | [-> | ->]]; reflexivity. Qed.

(* ---- a linked node moves to the back of another deque *)
Lemma PIX_move dw dww dpw ex p cn co id nd q2 :
  PIX dw dww dpw ex p cn co -> sget (store p) id = Some nd -> linked p id ->
  (q2 = QWINDOW \/ q2 = QPROBATION \/ q2 = QPROTECTED) -> q2 <> pqueue nd ->
  let pm := set_queue p (pqueue nd) (dq_delete (queue_of p (pqueue nd)) id) in
  let pr := set_queue_of pm id q2 in
  let pf := set_queue pr q2 (dq_push_back (queue_of pr q2) id) in
  PIX dw (dww + tagw QWINDOW (pqueue nd) (pweight nd) - tagw QWINDOW q2 (pweight nd))
         (dpw + tagw QPROTECTED (pqueue nd) (pweight nd) - tagw QPROTECTED q2 (pweight nd)) ex pf cn co.
Proof.
  intros HP Es Hl Hq2 Hne. cbv zeta.
  assert (Hin : exists nd0, sget (store p) id = Some nd0 /\ pstate nd0 <> DEAD /\ cn id = 0).
  { destruct Hl as [L|[L|L]];
      [destruct (pi_win _ _ _ _ _ _ _ HP id L) as (n0 & A & _ & C & D)|destruct (pi_prob _ _ _ _ _ _ _ HP id L) as (n0 & A & _ & C & D)
      |destruct (pi_prot _ _ _ _ _ _ _ HP id L) as (n0 & A & _ & C & D)]; exists n0; repeat split; assumption. }
  destruct Hin as (nd0 & Es0 & Hd & Hc). rewrite Es in Es0. injection Es0 as <-.
  assert (Hvalid : pqueue nd = QWINDOW \/ pqueue nd = QPROBATION \/ pqueue nd = QPROTECTED) by apply (pi_states _ _ _ _ _ _ _ HP id nd Es).
  assert (Hown : own_queue p id = pqueue nd).
  { rewrite <- (node_of_some p id nd Es) in Hvalid |- *. apply own_queue_valid. exact Hvalid. }
  destruct (PIX_unlink dw dww dpw ex p cn co id HP) as [H1 H2]. cbv zeta in H1, H2. rewrite Hown in H1, H2.
  set (pm := set_queue p (pqueue nd) (dq_delete (queue_of p (pqueue nd)) id)) in *.
  assert (Esm : sget (store pm) id = Some nd).
  { unfold pm, set_queue. destruct (pqueue nd =? QWINDOW); [|destruct (pqueue nd =? QPROBATION)]; exact Es. }
  pose proof (PIX_retag _ _ _ _ pm cn co id nd q2 H1 Esm H2 Hc Hd Hq2) as H3.
  set (pr := set_queue_of pm id q2) in *.
  set (nd' := mkPnode (pkey nd) (pweight nd) (pstate nd) q2).
  assert (Esr : sget (store pr) id = Some nd').
  { unfold pr, set_queue_of, set_node, with_store. cbn [store]. rewrite (node_of_some pm id nd Esm). apply sget_sset_same. }
  assert (Hnlr : ~ linked pr id).
  { unfold pr, set_queue_of, set_node, with_store, linked. cbn [qwin qprob qprot]. exact H2. }
  pose proof (pi_nodup _ _ _ _ _ _ _ H3) as Nd.
  apply (PIX_shrink_ex _ _ _ (fun x => (ex x \/ x = id) /\ x <> id));
    [intros x n0 _ _ _ [[E|E] N]; [left; exact E|contradiction]|].
  assert (Hna : ~ In id (qwin pr)) by (intros X; apply Hnlr; left; exact X).
  assert (Hnb : ~ In id (qprob pr)) by (intros X; apply Hnlr; right; left; exact X).
  assert (Hnc : ~ In id (qprot pr)) by (intros X; apply Hnlr; right; right; exact X).
  destruct Hq2 as [-> | [-> | ->]]; unfold set_queue, queue_of, QWINDOW, QPROBATION, QPROTECTED in *; cbn [Z.eqb Pos.eqb] in *.
  - apply (PIX_super_queues _ _ _ _ pr cn co _ _ _ id nd' H3 Esr); try assumption.
    + unfold dq_push_back. apply nodup_snoc_queues; assumption.
    + intros x. unfold dq_push_back. rewrite in_app_iff. cbn [In]. unfold nd'. cbn [pqueue].
      split; [intros [X|[<-|[]]]; [left; exact X|right; split; reflexivity]|intros [X|[-> _]]; [left; exact X|right; left; reflexivity]].
    + intros x. unfold nd'. cbn [pqueue]. split; [intros X; left; exact X|intros [X|[_ X]]; [exact X|discriminate]].
    + intros x. unfold nd'. cbn [pqueue]. split; [intros X; left; exact X|intros [X|[_ X]]; [exact X|discriminate]].
    + unfold linked, with_queues, dq_push_back. cbn [qwin]. left. apply in_or_app. right. left. reflexivity.
  - apply (PIX_super_queues _ _ _ _ pr cn co _ _ _ id nd' H3 Esr); try assumption.
    + unfold dq_push_back. apply nodup3_iff in Nd. destruct Nd as (Na & Nb & Nc & Dab & Dac & Dbc).
      apply nodup3_iff. repeat split; try assumption.
      * apply nodup_app_iff. repeat split; [exact Nb|constructor; [intros []|constructor]|]. intros x Hx [<-|[]]. exact (Hnb Hx).
      * intros x Hx Hy. apply in_app_or in Hy. destruct Hy as [Hy|[<-|[]]]; [exact (Dab x Hx Hy)|exact (Hna Hx)].
      * intros x Hx. apply in_app_or in Hx. destruct Hx as [Hx|[<-|[]]]; [exact (Dbc x Hx)|exact Hnc].
    + intros x. unfold nd'. cbn [pqueue]. split; [intros X; left; exact X|intros [X|[_ X]]; [exact X|discriminate]].
    + intros x. unfold dq_push_back. rewrite in_app_iff. cbn [In]. unfold nd'. cbn [pqueue].
      split; [intros [X|[<-|[]]]; [left; exact X|right; split; reflexivity]|intros [X|[-> _]]; [left; exact X|right; left; reflexivity]].
    + intros x. unfold nd'. cbn [pqueue]. split; [intros X; left; exact X|intros [X|[_ X]]; [exact X|discriminate]].
    + unfold linked, with_queues, dq_push_back. cbn [qwin qprob]. right. left. apply in_or_app. right. left. reflexivity.
  - apply (PIX_super_queues _ _ _ _ pr cn co _ _ _ id nd' H3 Esr); try assumption.
    + unfold dq_push_back. apply nodup3_iff in Nd. destruct Nd as (Na & Nb & Nc & Dab & Dac & Dbc).
      apply nodup3_iff. repeat split; try assumption.
      * apply nodup_app_iff. repeat split; [exact Nc|constructor; [intros []|constructor]|]. intros x Hx [<-|[]]. exact (Hnc Hx).
      * intros x Hx Hy. apply in_app_or in Hy. destruct Hy as [Hy|[<-|[]]]; [exact (Dac x Hx Hy)|exact (Hna Hx)].
      * intros x Hx Hy. apply in_app_or in Hy. destruct Hy as [Hy|[<-|[]]]; [exact (Dbc x Hx Hy)|exact (Hnb Hx)].
    + intros x. unfold nd'. cbn [pqueue]. split; [intros X; left; exact X|intros [X|[_ X]]; [exact X|discriminate]].
    + intros x. unfold nd'. cbn [pqueue]. split; [intros X; left; exact X|intros [X|[_ X]]; [exact X|discriminate]].
    + intros x. unfold dq_push_back. rewrite in_app_iff. cbn [In]. unfold nd'. cbn [pqueue].
      split; [intros [X|[<-|[]]]; [left; exact X|right; split; reflexivity]|intros [X|[-> _]]; [left; exact X|right; left; reflexivity]].
    + unfold linked, with_queues, dq_push_back. cbn [qwin qprob qprot]. right. right. apply in_or_app. right. left. reflexivity.
Qed.

(* ---- p.access *)
Lemma promote_shape p id nd :
  sget (store p) id = Some nd -> pqueue nd = QPROBATION ->
  let pm := set_queue p (pqueue nd) (dq_delete (queue_of p (pqueue nd)) id) in
  let pr := set_queue_of pm id QPROTECTED in
  let pf := set_queue pr QPROTECTED (dq_push_back (queue_of pr QPROTECTED) id) in
  let p1 := with_sizes p (wsize p) (wwsize p) (wrapu (pwsize p + pweight nd)) in
  let p2 := with_queues p1 (qwin p1) (dq_delete (qprob p1) id) (dq_push_back (qprot p1) id) in
  store (set_queue_of p2 id QPROTECTED) = store pf /\ qwin (set_queue_of p2 id QPROTECTED) = qwin pf /\
  qprob (set_queue_of p2 id QPROTECTED) = qprob pf /\ qprot (set_queue_of p2 id QPROTECTED) = qprot pf /\
  wsize (set_queue_of p2 id QPROTECTED) = wsize pf /\ wwsize (set_queue_of p2 id QPROTECTED) = wwsize pf /\
  pwsize (set_queue_of p2 id QPROTECTED) = wrapu (pwsize pf + pweight nd).
Proof.
  intros Es Hq. rewrite Hq. cbv zeta.
  unfold set_queue, queue_of, set_queue_of, set_node, with_store, with_queues, with_sizes, node_of, QPROBATION, QPROTECTED, QWINDOW.
  cbn [Z.eqb Pos.eqb store qwin qprob qprot wsize wwsize pwsize]. rewrite Es. repeat split; reflexivity.
Qed.

Lemma PIX_reorder_probation dw dww dpw ex p cn co id :
  PIX dw dww dpw ex p cn co -> PIX dw dww dpw ex (reorder_probation p id) cn co.
Proof.
  intros HP. unfold reorder_probation.
  destruct (dq_contains (qprob p) id) eqn:Ec; cbn [negb]; [|exact HP].
  apply dq_contains_in in Ec.
  destruct (pi_prob _ _ _ _ _ _ _ HP id Ec) as (nd & Es & Hq & Hd & Hc).
  rewrite (node_of_some p id nd Es).
  destruct (pweight nd >? pmax p); [apply PIX_reorder; exact HP|].
  assert (Hl : linked p id) by (right; left; exact Ec).
  pose proof (PIX_move dw dww dpw ex p cn co id nd QPROTECTED HP Es Hl ltac:(right; right; reflexivity)
                ltac:(rewrite Hq; discriminate)) as HM. cbv zeta in HM.
  destruct (promote_shape p id nd Es Hq) as (E1 & E2 & E3 & E4 & E5 & E6 & E7). cbv zeta in E1, E2, E3, E4, E5, E6, E7.
  set (pf := set_queue (set_queue_of (set_queue p (pqueue nd) (dq_delete (queue_of p (pqueue nd)) id)) id QPROTECTED) QPROTECTED
               (dq_push_back (queue_of (set_queue_of (set_queue p (pqueue nd) (dq_delete (queue_of p (pqueue nd)) id)) id QPROTECTED) QPROTECTED) id)) in *.
  apply (PIX_counters _ _ _ _ _ _ _ pf) with (8 := HM); try assumption.
  - intros S HS. rewrite E5. rewrite HS. reflexivity.
  - intros S HS. rewrite E6. rewrite HS. f_equal. rewrite Hq. unfold tagw. cbn. lia.
  - intros S HS. rewrite E7, HS, wrapu_add_l. f_equal. rewrite Hq. unfold tagw. cbn. lia.
Qed.

Lemma PIX_pol_access hashf dw dww dpw ex p cn co id :
  PIX dw dww dpw ex p cn co -> PIX dw dww dpw ex (pol_access hashf p id) cn co.
Proof.
  intros HP. unfold pol_access.
  set (p1 := with_sketch p _).
  assert (H1 : PIX dw dww dpw ex p1 cn co) by (apply (PIX_ext _ _ _ _ p); try reflexivity; exact HP).
  destruct (pqueue (node_of p id) =? QWINDOW); [apply PIX_reorder; exact H1|].
  destruct (pqueue (node_of p id) =? QPROBATION); [apply PIX_reorder_probation; exact H1|].
  destruct (pqueue (node_of p id) =? QPROTECTED); [apply PIX_reorder; exact H1|exact H1].
Qed.

Lemma make_dead_state p id x : sget (store (make_dead p id)) id = Some x -> pstate x = DEAD.
Proof.
  unfold make_dead. destruct (sget (store p) id) as [o|] eqn:E.
  - rewrite (node_of_some p id o E). destruct (pstate o =? DEAD) eqn:Ed.
    + rewrite E. intros H. injection H as <-. lia.
    + unfold set_state_of, set_node, with_store, with_sizes, node_of. cbn [store]. rewrite E. rewrite sget_sset_same.
      intros H. injection H as <-. reflexivity.
  - rewrite (node_of_none p id E). cbn [pstate]. change (DEAD =? DEAD) with true. cbv iota. rewrite E. discriminate.
Qed.

(* ---- p.updateNode + the bookkeeping of consuming TUpd n old on the regular path *)
Lemma contains_linked dw dww dpw ex p cn co old :
  PIX dw dww dpw ex p cn co -> pol_contains p old = true ->
  exists od, sget (store p) old = Some od /\ In old (queue_of p (pqueue od)) /\
             (pqueue od = QWINDOW \/ pqueue od = QPROBATION \/ pqueue od = QPROTECTED) /\ pstate od <> DEAD /\ cn old = 0 /\ linked p old.
Proof.
  intros HP Hc. unfold pol_contains in Hc. apply dq_contains_in in Hc.
  assert (Hl : linked p old).
  { unfold linked. destruct (own_queue_cases p old) as [[E _]|[[E _]|[E _]]]; rewrite E in Hc;
      unfold queue_of, QWINDOW, QPROBATION, QPROTECTED in Hc; cbn [Z.eqb Pos.eqb] in Hc; tauto. }
  assert (Hp : exists od, sget (store p) old = Some od /\ pstate od <> DEAD /\ cn old = 0).
  { destruct Hl as [L|[L|L]];
      [destruct (pi_win _ _ _ _ _ _ _ HP old L) as (n0 & A & _ & C & D)|destruct (pi_prob _ _ _ _ _ _ _ HP old L) as (n0 & A & _ & C & D)
      |destruct (pi_prot _ _ _ _ _ _ _ HP old L) as (n0 & A & _ & C & D)]; exists n0; repeat split; assumption. }
  destruct Hp as (od & Es & Hd & Hcn). exists od.
  assert (Hv : pqueue od = QWINDOW \/ pqueue od = QPROBATION \/ pqueue od = QPROTECTED) by apply (pi_states _ _ _ _ _ _ _ HP old od Es).
  assert (Hown : own_queue p old = pqueue od).
  { rewrite <- (node_of_some p old od Es) in Hv |- *. apply own_queue_valid. exact Hv. }
  rewrite Hown in Hc. repeat split; assumption.
Qed.

Lemma PIX_update_node dw dww dpw ex p cn co n ndn old :
  PIX dw dww dpw ex p cn co -> sget (store p) n = Some ndn -> pstate ndn = ALIVE -> cn n = 1 -> co old = 1 ->
  pol_contains p old = true ->
  exists q, (q = QWINDOW \/ q = QPROBATION \/ q = QPROTECTED) /\
    pqueue (node_of (pol_update_node p n old) n) = q /\
    pweight (node_of (pol_update_node p n old) n) = pweight ndn /\
    linked (pol_update_node p n old) n /\
    PIX (dw - pweight ndn) (dww - tagw QWINDOW q (pweight ndn)) (dpw - tagw QPROTECTED q (pweight ndn)) ex
        (pol_update_node p n old) (cn_clear cn n) (co_clear co old).
Proof.
  intros HP Esn Ha Hcn Hco Hcont.
  destruct (contains_linked _ _ _ _ _ _ _ old HP Hcont) as (od & Eso & Hino & Hv & Hdo & Hcno & Hlo).
  assert (Hne : n <> old) by (intros ->; lia).
  assert (Hnl : ~ linked p n) by (apply (pending_not_linked _ _ _ _ p cn co n HP); lia).
  assert (Holdna : pstate od <> ALIVE).
  { intros A. destruct (pi_alive _ _ _ _ _ _ _ HP old od Eso A) as [B _]. lia. }
  exists (pqueue od). split; [exact Hv|].
  pose proof (PIX_count_virtual _ _ _ _ _ _ _ n ndn HP Esn Hcn) as HA.
  assert (Htagn : pqueue ndn = QWINDOW) by exact (pi_fresh _ _ _ _ _ _ _ HP n ndn Esn Hcn).
  assert (Hcc : cn_clear cn n n = 0) by (unfold cn_clear; rewrite Z.eqb_refl; reflexivity).
  assert (Hdn : pstate ndn <> DEAD) by (unfold ALIVE, DEAD in *; lia).
  pose proof (PIX_retag _ _ _ _ p _ co n ndn (pqueue od) HA Esn Hnl Hcc Hdn Hv) as HB.
  unfold pol_update_node. rewrite (node_of_some p old od Eso).
  set (p1 := set_queue_of p n (pqueue od)) in *.
  set (ndn' := mkPnode (pkey ndn) (pweight ndn) (pstate ndn) (pqueue od)).
  assert (Esn1 : sget (store p1) n = Some ndn').
  { unfold p1, set_queue_of, set_node, with_store. cbn [store]. rewrite (node_of_some p n ndn Esn). apply sget_sset_same. }
  assert (Eso1 : forall x, sget (store p1) old = Some x -> pstate x <> ALIVE).
  { intros x Hx. unfold p1, set_queue_of, set_node, with_store in Hx. cbn [store] in Hx.
    rewrite sget_sset_other in Hx by congruence. rewrite Eso in Hx. injection Hx as <-. exact Holdna. }
  assert (Hown : own_queue p1 n = pqueue od).
  { assert (E : pqueue (node_of p1 n) = pqueue od) by (rewrite (node_of_some p1 n ndn' Esn1); reflexivity).
    rewrite <- E. apply own_queue_valid. rewrite E. exact Hv. }
  rewrite Hown.
  assert (Hnl1 : ~ linked p1 n) by exact Hnl.
  assert (Hino1 : In old (queue_of p1 (pqueue od))) by exact Hino.
  destruct (PIX_replace _ _ _ _ p1 _ co n ndn' old (pqueue od) HB Esn1 eq_refl Hdn Hcc Hnl1 Hne Eso1 Hv Hino1) as (HC & Hnlo & Hln).
  cbv zeta in HC, Hnlo, Hln.
  set (p2 := set_queue p1 (pqueue od) (dq_update (queue_of p1 (pqueue od)) n old)) in *.
  pose proof (PIX_make_dead _ _ _ _ p2 _ co old HC Hnlo) as HD.
  assert (Esn3 : sget (store (make_dead p2 old)) n = Some ndn').
  { assert (E2 : sget (store p2) n = Some ndn').
    { unfold p2, set_queue. destruct (pqueue od =? QWINDOW); [|destruct (pqueue od =? QPROBATION)]; exact Esn1. }
    unfold make_dead. destruct (pstate (node_of p2 old) =? DEAD); [exact E2|].
    unfold set_state_of, set_node, with_store, with_sizes. cbn [store]. rewrite sget_sset_other by exact Hne. exact E2. }
  split; [rewrite (node_of_some _ n ndn' Esn3); reflexivity|].
  split; [rewrite (node_of_some _ n ndn' Esn3); reflexivity|].
  split.
  { unfold linked, make_dead in *. destruct (pstate (node_of p2 old) =? DEAD); [exact Hln|].
    unfold set_state_of, set_node, with_store, with_sizes. cbn [qwin qprob qprot]. exact Hln. }
  assert (HE : PIX (dw - pweight ndn) (dww - pweight ndn + tagw QWINDOW (pqueue ndn) (pweight ndn) - tagw QWINDOW (pqueue od) (pweight ndn))
                   (dpw + tagw QPROTECTED (pqueue ndn) (pweight ndn) - tagw QPROTECTED (pqueue od) (pweight ndn))
                   ex (make_dead p2 old) (cn_clear cn n) co).
  { apply (PIX_shrink_ex _ _ _ (fun x => (((ex x \/ x = n) /\ x <> n) /\ x <> old))); [|exact HD].
    intros x n0 _ _ _ [[[E|E] N] _]; [left; exact E|contradiction]. }
  assert (HF : PIX (dw - pweight ndn) (dww - pweight ndn + tagw QWINDOW (pqueue ndn) (pweight ndn) - tagw QWINDOW (pqueue od) (pweight ndn))
                   (dpw + tagw QPROTECTED (pqueue ndn) (pweight ndn) - tagw QPROTECTED (pqueue od) (pweight ndn))
                   ex (make_dead p2 old) (cn_clear cn n) (co_clear co old)).
  { apply PIX_co_clear; [exact HE|]. intros x Hx. rewrite (make_dead_state p2 old x Hx). unfold DEAD, RETIRED. lia. }
  apply (PIX_counters _ _ _ _ _ _ _ (make_dead p2 old)) with (8 := HF); try reflexivity.
  - intros S HS. exact HS.
  - intros S HS. rewrite HS. f_equal. rewrite Htagn. unfold tagw at 1. change (QWINDOW =? QWINDOW) with true. cbv iota. lia.
  - intros S HS. rewrite HS. f_equal. rewrite Htagn. unfold tagw at 1. change (QWINDOW =? QPROTECTED) with false. cbv iota. lia.
Qed.

(* ---- p.update, consuming TUpd n old *)
Lemma PIX_pol_update hashf dw dww dpw ex p cn co n old :
  PIX dw dww dpw ex p cn co -> cn n = 1 -> co old = 1 ->
  PIX dw dww dpw ex (fst (pol_update hashf p n old)) (cn_clear cn n) (co_clear co old).
Proof.
  intros HP Hcn Hco. unfold pol_update.
  destruct (pending_present _ _ _ _ p cn co n HP ltac:(lia)) as [ndn Esn].
  destruct (negb (pstate (node_of p n) =? ALIVE) || negb (pol_contains p old)) eqn:Ecase.
  - (* out of order: delete old, add n *)
    destruct (PIX_pol_delete _ _ _ ex p cn co old HP) as [H1 _].
    assert (H2 : PIX dw dww dpw (fun x => ex x /\ x <> old) (pol_delete p old) cn (co_clear co old)).
    { apply PIX_co_clear; [exact H1|]. intros x Hx. unfold pol_delete in Hx. rewrite (make_dead_state _ old x Hx). unfold DEAD, RETIRED. lia. }
    pose proof (PIX_pol_add _ _ _ hashf _ (pol_delete p old) cn (co_clear co old) n H2 Hcn) as H3.
    apply (PIX_weaken_ex _ _ _ (fun x => (ex x /\ x <> old) /\ x <> n)); [|exact H3]. intros x [[E _] _]. exact E.
  - apply orb_false_iff in Ecase. destruct Ecase as [Ea Ec].
    rewrite (node_of_some p n ndn Esn) in Ea |- *.
    assert (Halive : pstate ndn = ALIVE) by lia.
    assert (Hcont : pol_contains p old = true) by (destruct (pol_contains p old); [reflexivity|discriminate]).
    destruct (PIX_update_node _ _ _ ex p cn co n ndn old HP Esn Halive Hcn Hco Hcont) as (q & Hq & Etag & Ew & Hln & HU).
    set (p1 := pol_update_node p n old) in *.
    rewrite Etag.
    assert (Hfin : forall p2, PIX (dw - pweight ndn) dww dpw ex p2 (cn_clear cn n) (co_clear co old) ->
              PIX dw dww dpw ex (with_sizes p2 (wrapu (wsize p2 + pweight ndn)) (wwsize p2) (pwsize p2)) (cn_clear cn n) (co_clear co old)).
    { intros p2 H2. apply (PIX_counters _ _ _ _ _ _ _ p2) with (8 := H2); try reflexivity.
      - intros S HS. cbn [with_sizes wsize]. rewrite HS, wrapu_add_l. f_equal. lia.
      - intros S HS. exact HS.
      - intros S HS. exact HS. }
    assert (Hevict : forall p2, PIX (dw - pweight ndn) dww dpw ex p2 (cn_clear cn n) (co_clear co old) ->
              PIX (dw - pweight ndn) dww dpw ex (pol_evict p2 n) (cn_clear cn n) (co_clear co old)).
    { intros p2 H2. destruct (PIX_pol_evict _ _ _ ex p2 _ _ n H2) as [H3 _].
      apply (PIX_weaken_ex _ _ _ (fun x => ex x /\ x <> n)); [|exact H3]. intros x [E _]. exact E. }
    destruct Hq as [-> | [-> | ->]]; unfold QWINDOW, QPROBATION, QPROTECTED in *; cbn [Z.eqb Pos.eqb].
    + (* window *)
      set (p1w := with_sizes p1 (wsize p1) (wrapu (wwsize p1 + pweight ndn)) (pwsize p1)).
      assert (HW : PIX (dw - pweight ndn) dww dpw ex p1w (cn_clear cn n) (co_clear co old)).
      { apply (PIX_counters _ _ _ _ _ _ _ p1) with (8 := HU); try reflexivity.
        - intros S HS. exact HS.
        - intros S HS. cbn [p1w with_sizes wwsize]. rewrite HS, wrapu_add_l. f_equal. unfold tagw. cbn. lia.
        - intros S HS. cbn [p1w with_sizes pwsize]. rewrite HS. f_equal. unfold tagw. cbn. lia. }
      destruct (pweight ndn >? maxi p1w); [cbn [fst]; apply Hfin; apply Hevict; exact HW|].
      destruct (pweight ndn <=? wmax p1w); [cbn [fst]; apply Hfin; apply PIX_pol_access; exact HW|].
      destruct (dq_contains (qwin p1w) n) eqn:Ecw; [|cbn [fst]; apply Hfin; exact HW].
      cbn [fst]. apply Hfin. apply dq_contains_in in Ecw.
      pose proof (pi_nodup _ _ _ _ _ _ _ HW) as Nd. pose proof Nd as Nd'. apply nodup3_iff in Nd'. destruct Nd' as (Na & Nb & Nc & _).
      apply PIX_perm_queues; try exact HW; try (intros x; reflexivity).
      * apply (nodup3_perm _ _ _ _ _ _ Nd); try assumption; try (intros x; reflexivity); [apply nodup_move_to_front; exact Na|intros x; apply in_move_to_front; exact Ecw].
      * intros x. apply in_move_to_front. exact Ecw.
    + (* probation *)
      assert (HW : PIX (dw - pweight ndn) dww dpw ex p1 (cn_clear cn n) (co_clear co old)).
      { apply (PIX_counters _ _ _ _ _ _ _ p1) with (8 := HU); try reflexivity.
        - intros S HS. exact HS.
        - intros S HS. rewrite HS. f_equal. unfold tagw. cbn. lia.
        - intros S HS. rewrite HS. f_equal. unfold tagw. cbn. lia. }
      destruct (pweight ndn <=? maxi p1); cbn [fst]; apply Hfin; [apply PIX_pol_access|apply Hevict]; exact HW.
    + (* protected *)
      set (p1p := with_sizes p1 (wsize p1) (wwsize p1) (wrapu (pwsize p1 + pweight ndn))).
      assert (HW : PIX (dw - pweight ndn) dww dpw ex p1p (cn_clear cn n) (co_clear co old)).
      { apply (PIX_counters _ _ _ _ _ _ _ p1) with (8 := HU); try reflexivity.
        - intros S HS. exact HS.
        - intros S HS. cbn [p1p with_sizes wwsize]. rewrite HS. f_equal. unfold tagw. cbn. lia.
        - intros S HS. cbn [p1p with_sizes pwsize]. rewrite HS, wrapu_add_l. f_equal. unfold tagw. cbn. lia. }
      destruct (pweight ndn <=? maxi p1p); cbn [fst]; apply Hfin; [apply PIX_pol_access|apply Hevict]; exact HW.
Qed.

(* ---- the eviction loops *)
Lemma dq_next_in d id x : NoDup d -> dq_next d id = Some x -> In x d /\ x <> id.
Proof.
  induction d as [|h d IH]; cbn [dq_next]; [discriminate|]. intros Hd.
  inversion Hd as [|? ? Hni Hnd]; subst.
  destruct (h =? id) eqn:E.
  - assert (h = id) by lia. subst h. destruct d as [|y d']; cbn [dq_head]; [discriminate|].
    intros H. injection H as <-. split; [right; left; reflexivity|]. intros ->. apply Hni. left. reflexivity.
  - intros H. destruct (IH Hnd H) as [A B]. split; [right; exact A|exact B].
Qed.

Lemma dq_head_in d x : dq_head d = Some x -> In x d.
Proof. destruct d as [|h d]; cbn [dq_head]; [discriminate|]. intros H. injection H as <-. left. reflexivity. Qed.

Lemma window_to_probation_shape p id nd :
  sget (store p) id = Some nd -> pqueue nd = QWINDOW ->
  let pm := set_queue p (pqueue nd) (dq_delete (queue_of p (pqueue nd)) id) in
  let pr := set_queue_of pm id QPROBATION in
  let pf := set_queue pr QPROBATION (dq_push_back (queue_of pr QPROBATION) id) in
  let p1 := set_queue_of p id QPROBATION in
  let p2 := with_queues p1 (dq_delete (qwin p1) id) (dq_push_back (qprob p1) id) (qprot p1) in
  let p3 := with_sizes p2 (wsize p2) (wrapu (wwsize p2 - pweight nd)) (pwsize p2) in
  store p3 = store pf /\ qwin p3 = qwin pf /\ qprob p3 = qprob pf /\ qprot p3 = qprot pf /\
  wsize p3 = wsize pf /\ wwsize p3 = wrapu (wwsize pf - pweight nd) /\ pwsize p3 = pwsize pf /\
  wmax p3 = wmax p /\ maxi p3 = maxi p /\ pmax p3 = pmax p.
Proof.
  intros Es Hq. rewrite Hq. cbv zeta.
  unfold set_queue, queue_of, set_queue_of, set_node, with_store, with_queues, with_sizes, node_of, QPROBATION, QPROTECTED, QWINDOW.
  cbn [Z.eqb Pos.eqb store qwin qprob qprot wsize wwsize pwsize wmax maxi pmax]. rewrite Es. repeat split; reflexivity.
Qed.

Lemma PIX_evict_from_window dw dww dpw ex cn co fuel : forall p cursor first,
  PIX dw dww dpw ex p cn co -> (forall id, cursor = Some id -> In id (qwin p)) ->
  PIX dw dww dpw ex (fst (evict_from_window fuel p cursor first)) cn co.
Proof.
  induction fuel as [|f IH]; intros p cursor first HP Hcur; cbn [evict_from_window]; [exact HP|].
  destruct (wwsize p >? wmax p); [|exact HP].
  destruct cursor as [id|]; [|exact HP].
  specialize (Hcur id eq_refl).
  destruct (pi_win _ _ _ _ _ _ _ HP id Hcur) as (nd & Es & Hq & Hd & Hc).
  pose proof (pi_nodup _ _ _ _ _ _ _ HP) as Nd. apply nodup3_iff in Nd. destruct Nd as (Na & _).
  rewrite (node_of_some p id nd Es).
  destruct (negb (pweight nd =? 0)) eqn:Ew.
  - assert (Hl : linked p id) by (left; exact Hcur).
    pose proof (PIX_move dw dww dpw ex p cn co id nd QPROBATION HP Es Hl ltac:(right; left; reflexivity) ltac:(rewrite Hq; discriminate)) as HM.
    cbv zeta in HM.
    destruct (window_to_probation_shape p id nd Es Hq) as (E1 & E2 & E3 & E4 & E5 & E6 & E7 & _). cbv zeta in E1, E2, E3, E4, E5, E6, E7.
    apply IH.
    + match type of HM with PIX _ _ _ _ ?pf _ _ => apply (PIX_counters _ _ _ _ _ _ _ pf) with (8 := HM); try assumption end.
      * intros S HS. rewrite E5. exact HS.
      * intros S HS. rewrite E6, HS, wrapu_sub_l. f_equal. rewrite Hq. unfold tagw. cbn. lia.
      * intros S HS. rewrite E7, HS. f_equal. rewrite Hq. unfold tagw. cbn. lia.
    + intros x Hx. destruct (dq_next_in (qwin p) id x Na Hx) as [A B].
      unfold set_queue_of, set_node, with_store, with_queues, with_sizes. cbn [qwin]. apply in_dq_delete. split; assumption.
  - apply IH; [exact HP|]. intros x Hx. apply (dq_next_in (qwin p) id x Na Hx).
Qed.

Lemma PIX_evict_from_main dw dww dpw ex cn co hashf rnd fuel : forall p cu acc,
  PIX dw dww dpw ex p cn co -> PIX dw dww dpw ex (fst (evict_from_main fuel hashf rnd p cu acc)) cn co.
Proof.
  induction fuel as [|f IH]; intros p cu acc HP; cbn [evict_from_main]; [exact HP|].
  destruct (ef_step hashf rnd p cu) as [|cu'|id cu']; [exact HP|apply IH; exact HP|].
  apply IH. destruct (PIX_pol_evict _ _ _ ex p cn co id HP) as [H _].
  apply (PIX_weaken_ex _ _ _ (fun x => ex x /\ x <> id)); [|exact H]. intros x [E _]. exact E.
Qed.

Lemma PIX_pol_evict_nodes dw dww dpw ex cn co hashf rnd p :
  PIX dw dww dpw ex p cn co -> PIX dw dww dpw ex (fst (pol_evict_nodes hashf rnd p)) cn co.
Proof.
  intros HP. unfold pol_evict_nodes.
  pose proof (PIX_evict_from_window dw dww dpw ex cn co (2 * store_size p + 8) p (dq_head (qwin p)) None HP
                ltac:(intros id H; apply dq_head_in; exact H)) as H1.
  destruct (evict_from_window (2 * store_size p + 8) p (dq_head (qwin p)) None) as [p1 first]. cbn [fst] in H1.
  apply PIX_evict_from_main. exact H1.
Qed.

(* ---- demotion from the protected deque *)
Lemma dq_delete_notin l id : ~ In id l -> dq_delete l id = l.
Proof.
  unfold dq_delete. induction l as [|h r IH]; cbn [filter]; [reflexivity|]. intros Hni.
  destruct (h =? id) eqn:E; [exfalso; apply Hni; left; lia|]. cbn [negb]. f_equal. apply IH. intros X. apply Hni. right. exact X.
Qed.

Lemma dq_delete_head rest id : ~ In id rest -> dq_delete (id :: rest) id = rest.
Proof.
  intros Hni. unfold dq_delete. cbn [filter]. rewrite Z.eqb_refl. cbn [negb]. apply (dq_delete_notin rest id Hni).
Qed.

Lemma protected_to_probation_shape p id rest nd :
  sget (store p) id = Some nd -> pqueue nd = QPROTECTED -> qprot p = id :: rest -> ~ In id rest ->
  let pm := set_queue p (pqueue nd) (dq_delete (queue_of p (pqueue nd)) id) in
  let pr := set_queue_of pm id QPROBATION in
  let pf := set_queue pr QPROBATION (dq_push_back (queue_of pr QPROBATION) id) in
  let p1 := with_queues p (qwin p) (dq_push_back (qprob p) id) rest in
  let p2 := set_queue_of p1 id QPROBATION in
  store p2 = store pf /\ qwin p2 = qwin pf /\ qprob p2 = qprob pf /\ qprot p2 = qprot pf /\
  wsize p2 = wsize pf /\ wwsize p2 = wwsize pf /\ pwsize p2 = pwsize pf /\ pmax p2 = pmax p.
Proof.
  intros Es Hq Hp Hni. rewrite Hq. cbv zeta.
  unfold set_queue, queue_of, set_queue_of, set_node, with_store, with_queues, with_sizes, node_of, QPROBATION, QPROTECTED, QWINDOW.
  cbn [Z.eqb Pos.eqb store qwin qprob qprot wsize wwsize pwsize pmax]. rewrite Es, Hp.
  rewrite (dq_delete_head rest id Hni). repeat split; reflexivity.
Qed.

Lemma PIX_demote_loop dw dww ex cn co fuel : forall p pws dpw d,
  PIX dw dww (dpw + d) ex p cn co -> pws = wrapu (pwsize p - d) ->
  let r := demote_loop fuel p pws in
  exists d', PIX dw dww (dpw + d') ex (fst r) cn co /\ snd r = wrapu (pwsize (fst r) - d').
Proof.
  induction fuel as [|f IH]; intros p pws dpw d HP Hpws; cbn [demote_loop]; cbv zeta.
  - exists d. split; assumption.
  - destruct (pws <=? pmax p); [exists d; split; assumption|].
    destruct (qprot p) as [|id rest] eqn:Eq; [exists d; split; assumption|].
    assert (Hin : In id (qprot p)) by (rewrite Eq; left; reflexivity).
    destruct (pi_prot _ _ _ _ _ _ _ HP id Hin) as (nd & Es & Hq & Hd & Hc).
    pose proof (pi_nodup _ _ _ _ _ _ _ HP) as Nd. apply nodup3_iff in Nd. destruct Nd as (_ & _ & Nc & _).
    assert (Hni : ~ In id rest) by (rewrite Eq in Nc; inversion Nc; assumption).
    assert (Hl : linked p id) by (right; right; exact Hin).
    pose proof (PIX_move dw dww (dpw + d) ex p cn co id nd QPROBATION HP Es Hl ltac:(right; left; reflexivity) ltac:(rewrite Hq; discriminate)) as HM.
    cbv zeta in HM.
    destruct (protected_to_probation_shape p id rest nd Es Hq Eq Hni) as (E1 & E2 & E3 & E4 & E5 & E6 & E7 & E8). cbv zeta in E1, E2, E3, E4, E5, E6, E7, E8.
    rewrite (node_of_some p id nd Es).
    apply (IH _ _ dpw (d + pweight nd)).
    + match type of HM with PIX _ _ _ _ ?pf _ _ => apply (PIX_counters _ _ _ _ _ _ _ pf) with (8 := HM); try assumption end.
      * intros S HS. rewrite E5. exact HS.
      * intros S HS. rewrite E6, HS. f_equal. rewrite Hq. unfold tagw. cbn. lia.
      * intros S HS. rewrite E7, HS. f_equal. rewrite Hq. unfold tagw. cbn. lia.
    + rewrite Hpws, wrapu_sub_l. f_equal.
      match goal with |- _ = pwsize ?x - _ => change (pwsize x) with (pwsize p) end. lia.
Qed.

Lemma PIX_pol_climb dw dww dpw ex cn co p : PIX dw dww dpw ex p cn co -> PIX dw dww dpw ex (pol_climb p) cn co.
Proof.
  intros HP. unfold pol_climb, pol_demote. destruct (pwsize p <=? pmax p); [exact HP|].
  assert (H0 : PIX dw dww (dpw + 0) ex p cn co) by (replace (dpw + 0) with dpw by lia; exact HP).
  destruct (PIX_demote_loop dw dww ex cn co 1000 p (pwsize p) dpw 0 H0) as (d' & H1 & H2).
  { rewrite (pi_pwsize _ _ _ _ _ _ _ HP). rewrite wrapu_sub_l. replace (ssum (f_prot cn) (store p) + dpw - 0) with (ssum (f_prot cn) (store p) + dpw) by lia. reflexivity. }
  cbv zeta in H1, H2. destruct (demote_loop 1000 p (pwsize p)) as [p1 pws]. cbn [fst snd] in *.
  apply (PIX_counters _ _ _ _ _ _ _ p1) with (8 := H1); try reflexivity.
  - intros S HS. exact HS.
  - intros S HS. exact HS.
  - intros S HS. cbn [with_sizes pwsize]. rewrite H2, HS, wrapu_sub_l. f_equal. lia.
Qed.

(* ---- the hill climber's transfers keep the bookkeeping invariant, whatever the amount *)
Lemma PIX_move_to dw dww dpw ex p cn co id nd q2 :
  PIX dw dww dpw ex p cn co -> sget (store p) id = Some nd -> linked p id ->
  (q2 = QWINDOW \/ q2 = QPROBATION \/ q2 = QPROTECTED) -> q2 <> pqueue nd ->
  PIX dw (dww + tagw QWINDOW (pqueue nd) (pweight nd) - tagw QWINDOW q2 (pweight nd))
         (dpw + tagw QPROTECTED (pqueue nd) (pweight nd) - tagw QPROTECTED q2 (pweight nd)) ex (move_to p id q2) cn co.
Proof.
  intros HP Es Hl Hq Hne. unfold move_to. rewrite (node_of_some p id nd Es).
  exact (PIX_move dw dww dpw ex p cn co id nd q2 HP Es Hl Hq Hne).
Qed.

Lemma PIX_with_maxima dw dww dpw ex p cn co m wm pm :
  PIX dw dww dpw ex p cn co -> PIX dw dww dpw ex (with_maxima p m wm pm) cn co.
Proof.
  intros HP. apply (PIX_counters _ _ _ _ _ _ _ p) with (8 := HP); try reflexivity; intros S HS; exact HS.
Qed.

Lemma PIX_increase_loop dw dww dpw ex cn co fuel : forall p quota,
  PIX dw dww dpw ex p cn co -> PIX dw dww dpw ex (fst (increase_loop fuel p quota)) cn co.
Proof.
  induction fuel as [|f IH]; intros p quota HP; cbn [increase_loop]; [exact HP|].
  (* the candidate, the deque it heads, its node *)
  assert (Hcase : forall c (isprob : bool), (if isprob then In c (qprob p) else In c (qprot p)) ->
            PIX dw dww dpw ex (fst (let w := pweight (node_of p c) in
                 if quota <? w then (p, quota) else
                 let p1 := move_to p c QWINDOW in
                 let p2 := with_sizes p1 (wsize p1) (wrapu (wwsize p1 + w)) (if isprob then pwsize p1 else wrapu (pwsize p1 - w)) in
                 increase_loop f p2 (quota - w))) cn co).
  { intros c isprob Hin. cbv zeta.
    assert (Hnd : exists nd, sget (store p) c = Some nd /\ pqueue nd = (if isprob then QPROBATION else QPROTECTED) /\ linked p c).
    { destruct isprob.
      - destruct (pi_prob _ _ _ _ _ _ _ HP c Hin) as (nd & Es & Hq & _). exists nd. repeat split; [exact Es|exact Hq|right; left; exact Hin].
      - destruct (pi_prot _ _ _ _ _ _ _ HP c Hin) as (nd & Es & Hq & _). exists nd. repeat split; [exact Es|exact Hq|right; right; exact Hin]. }
    destruct Hnd as (nd & Es & Hq & Hl). rewrite (node_of_some p c nd Es).
    destruct (quota <? pweight nd); [exact HP|]. apply IH.
    pose proof (PIX_move_to dw dww dpw ex p cn co c nd QWINDOW HP Es Hl ltac:(left; reflexivity)
                  ltac:(rewrite Hq; destruct isprob; discriminate)) as HM.
    apply (PIX_counters _ _ _ _ _ _ _ (move_to p c QWINDOW)) with (8 := HM); try reflexivity.
    - intros S HS. exact HS.
    - intros S HS. cbn [with_sizes wwsize]. rewrite HS, wrapu_add_l. f_equal. rewrite Hq. unfold tagw, QWINDOW, QPROBATION, QPROTECTED.
      destruct isprob; cbn; lia.
    - intros S HS. cbn [with_sizes pwsize]. rewrite Hq in HS.
      assert (T1 : forall x, tagw QPROTECTED QPROBATION x = 0) by reflexivity.
      assert (T2 : forall x, tagw QPROTECTED QWINDOW x = 0) by reflexivity.
      assert (T3 : forall x, tagw QPROTECTED QPROTECTED x = x) by reflexivity.
      destruct isprob; rewrite ?T1, ?T2, ?T3 in HS; [rewrite HS; f_equal; lia|rewrite HS, wrapu_sub_l; f_equal; lia]. }
  destruct (dq_head (qprob p)) as [c|] eqn:Eh.
  - destruct (quota <? pweight (node_of p c)).
    + destruct (dq_head (qprot p)) as [c2|] eqn:Eh2; [|exact HP]. apply (Hcase c2 false). apply dq_head_in. exact Eh2.
    + apply (Hcase c true). apply dq_head_in. exact Eh.
  - destruct (dq_head (qprot p)) as [c2|] eqn:Eh2; [|exact HP]. apply (Hcase c2 false). apply dq_head_in. exact Eh2.
Qed.

Lemma PIX_decrease_loop dw dww dpw ex cn co fuel : forall p quota,
  PIX dw dww dpw ex p cn co -> PIX dw dww dpw ex (fst (decrease_loop fuel p quota)) cn co.
Proof.
  induction fuel as [|f IH]; intros p quota HP; cbn [decrease_loop]; [exact HP|].
  destruct (dq_head (qwin p)) as [c|] eqn:Eh; [|exact HP]. cbv zeta.
  assert (Hin : In c (qwin p)) by (apply dq_head_in; exact Eh).
  destruct (pi_win _ _ _ _ _ _ _ HP c Hin) as (nd & Es & Hq & _). rewrite (node_of_some p c nd Es).
  destruct (quota <? pweight nd); [exact HP|]. apply IH.
  pose proof (PIX_move_to dw dww dpw ex p cn co c nd QPROBATION HP Es ltac:(left; exact Hin) ltac:(right; left; reflexivity)
                ltac:(rewrite Hq; discriminate)) as HM.
  apply (PIX_counters _ _ _ _ _ _ _ (move_to p c QPROBATION)) with (8 := HM); try reflexivity.
  - intros S HS. exact HS.
  - intros S HS. cbn [with_sizes wwsize]. rewrite HS, wrapu_sub_l. f_equal. rewrite Hq. unfold tagw, QWINDOW, QPROBATION. cbn. lia.
  - intros S HS. cbn [with_sizes pwsize]. rewrite HS. f_equal. rewrite Hq. unfold tagw, QWINDOW, QPROBATION, QPROTECTED. cbn. lia.
Qed.

Lemma PIX_pol_climb_adj dw dww dpw ex cn co adj p :
  PIX dw dww dpw ex p cn co -> PIX dw dww dpw ex (fst (pol_climb_adj adj p)) cn co.
Proof.
  intros HP. unfold pol_climb_adj. pose proof (PIX_pol_climb dw dww dpw ex cn co p HP) as H0. unfold pol_climb in H0.
  destruct (adj =? 0); [exact H0|]. destruct (adj >? 0).
  - unfold pol_increase_window. destruct (pmax (pol_demote p) =? 0); [exact H0|]. cbv zeta.
    set (q0 := if pmax (pol_demote p) <? adj then pmax (pol_demote p) else adj).
    set (p1 := with_maxima (pol_demote p) (maxi (pol_demote p)) (wrapu (wmax (pol_demote p) + q0)) (wrapu (pmax (pol_demote p) - q0))).
    assert (H1 : PIX dw dww dpw ex p1 cn co) by (apply PIX_with_maxima; exact H0).
    pose proof (PIX_pol_climb dw dww dpw ex cn co p1 H1) as H2. unfold pol_climb in H2.
    pose proof (PIX_increase_loop dw dww dpw ex cn co 1000 (pol_demote p1) q0 H2) as H3.
    destruct (increase_loop 1000 (pol_demote p1) q0) as [p3 quota]. cbn [fst] in *. apply PIX_with_maxima. exact H3.
  - unfold pol_decrease_window. destruct (wmax (pol_demote p) <=? 1); [exact H0|]. cbv zeta.
    set (q0 := if wmax (pol_demote p) - 1 <? - adj then wmax (pol_demote p) - 1 else - adj).
    set (p1 := with_maxima (pol_demote p) (maxi (pol_demote p)) (wrapu (wmax (pol_demote p) - q0)) (wrapu (pmax (pol_demote p) + q0))).
    assert (H1 : PIX dw dww dpw ex p1 cn co) by (apply PIX_with_maxima; exact H0).
    pose proof (PIX_decrease_loop dw dww dpw ex cn co 1000 p1 q0 H1) as H3.
    destruct (decrease_loop 1000 p1 q0) as [p2 quota]. cbn [fst] in *. apply PIX_with_maxima. exact H3.
Qed.

(* ================================================================================================ *)
(* ---- the maintenance model: index actions create tasks, tasks reach the write buffer in ANY order,
        maintenance consumes them *)

Definition as_new (t : task) (id : Z) : bool :=
  match t with TAdd n => n =? id | TUpd n _ => n =? id | TDel _ => false end.
Definition as_old (t : task) (id : Z) : bool :=
  match t with TAdd _ => false | TUpd _ o => o =? id | TDel n => n =? id end.

Fixpoint cnew (l : list task) (id : Z) : Z :=
  match l with [] => 0 | t :: l' => (if as_new t id then 1 else 0) + cnew l' id end.
Fixpoint cold (l : list task) (id : Z) : Z :=
  match l with [] => 0 | t :: l' => (if as_old t id then 1 else 0) + cold l' id end.

Lemma cnew_app a b id : cnew (a ++ b) id = cnew a id + cnew b id.
Proof. induction a as [|t a IH]; cbn [app cnew]; lia. Qed.
Lemma cold_app a b id : cold (a ++ b) id = cold a id + cold b id.
Proof. induction a as [|t a IH]; cbn [app cold]; lia. Qed.
Lemma cnew_nonneg l id : 0 <= cnew l id.
Proof. induction l as [|t l IH]; cbn [cnew]; [lia|]. destruct (as_new t id); lia. Qed.
Lemma cold_nonneg l id : 0 <= cold l id.
Proof. induction l as [|t l IH]; cbn [cold]; [lia|]. destruct (as_old t id); lia. Qed.

Lemma ssum_ext f g st : (forall i nd, g i nd = f i nd) -> ssum g st = ssum f st.
Proof. intros H. induction st as [|[i m] st IH]; cbn [ssum]; [reflexivity|]. rewrite IH, H. reflexivity. Qed.

Lemma PIX_cn_ext dw dww dpw ex p cn co cn' co' :
  (forall id, cn' id = cn id) -> (forall id, co' id = co id) -> PIX dw dww dpw ex p cn co -> PIX dw dww dpw ex p cn' co'.
Proof.
  intros Ecn Eco [H1 H2 H3 H4 H5 H6 H7 H8 H9 H10 H11 H12 H13 H14].
  constructor; unfold in_queue_ok in *; try assumption.
  - intros x Hx. destruct (H3 x Hx) as (n0 & A & B & C & D). exists n0. rewrite Ecn. repeat split; assumption.
  - intros x Hx. destruct (H4 x Hx) as (n0 & A & B & C & D). exists n0. rewrite Ecn. repeat split; assumption.
  - intros x Hx. destruct (H5 x Hx) as (n0 & A & B & C & D). exists n0. rewrite Ecn. repeat split; assumption.
  - intros x Hx. rewrite Ecn, Eco. exact (H6 x Hx).
  - intros x. rewrite Ecn, Eco. exact (H7 x).
  - intros x nd Hs Ha. rewrite Ecn, Eco. exact (H8 x nd Hs Ha).
  - intros x nd Hs Hr. rewrite Eco. exact (H9 x nd Hs Hr).
  - intros x nd Hs Hc. rewrite Ecn in Hc. exact (H10 x nd Hs Hc).
  - rewrite H12. f_equal. f_equal. apply ssum_ext. intros i nd. unfold f_all, coef. rewrite Ecn. reflexivity.
  - rewrite H13. f_equal. f_equal. apply ssum_ext. intros i nd. unfold f_win, coef. rewrite Ecn. reflexivity.
  - rewrite H14. f_equal. f_equal. apply ssum_ext. intros i nd. unfold f_prot, coef. rewrite Ecn. reflexivity.
Qed.

(* newNode: a fresh node, alive, tagged for the window, its add/update task pending *)
Lemma PI_create p cn co n key w :
  PI p cn co -> sget (store p) n = None ->
  PI (set_node p n (mkPnode key w ALIVE QWINDOW)) (fun x => if x =? n then 1 else cn x) co.
Proof.
  intros [H1 H2 H3 H4 H5 H6 H7 H8 H9 H10 H11 H12 H13 H14] Es.
  destruct (H6 n Es) as [Hcn Hco].
  assert (Hnk : forall d q, in_queue_ok p cn d q -> forall x, In x d -> x <> n).
  { intros d q Hd x Hx ->. destruct (Hd n Hx) as (n0 & A & _). congruence. }
  unfold PI, set_node, with_store. constructor; unfold in_queue_ok, linked; cbn [store qwin qprob qprot wsize wwsize pwsize].
  - apply sset_keys_nodup. exact H1.
  - exact H2.
  - intros x Hx. pose proof (Hnk _ _ H3 x Hx) as N. destruct (H3 x Hx) as (n0 & A & B & C & D). exists n0.
    rewrite sget_sset_other by exact N. replace (x =? n) with false by lia. repeat split; assumption.
  - intros x Hx. pose proof (Hnk _ _ H4 x Hx) as N. destruct (H4 x Hx) as (n0 & A & B & C & D). exists n0.
    rewrite sget_sset_other by exact N. replace (x =? n) with false by lia. repeat split; assumption.
  - intros x Hx. pose proof (Hnk _ _ H5 x Hx) as N. destruct (H5 x Hx) as (n0 & A & B & C & D). exists n0.
    rewrite sget_sset_other by exact N. replace (x =? n) with false by lia. repeat split; assumption.
  - intros x Hx. destruct (Z.eq_dec x n) as [->|N]; [rewrite sget_sset_same in Hx; discriminate|].
    rewrite sget_sset_other in Hx by exact N. replace (x =? n) with false by lia. exact (H6 x Hx).
  - intros x. destruct (x =? n); [destruct (H7 x); lia|exact (H7 x)].
  - intros x nd Hs Ha. destruct (Z.eq_dec x n) as [->|N].
    + rewrite Z.eqb_refl. split; [exact Hco|lia].
    + rewrite sget_sset_other in Hs by exact N. replace (x =? n) with false by lia. exact (H8 x nd Hs Ha).
  - intros x nd Hs Hr. destruct (Z.eq_dec x n) as [->|N].
    + rewrite sget_sset_same in Hs. injection Hs as <-. cbn [pstate] in Hr. unfold ALIVE, RETIRED in Hr. lia.
    + rewrite sget_sset_other in Hs by exact N. exact (H9 x nd Hs Hr).
  - intros x nd Hs Hc. destruct (Z.eq_dec x n) as [->|N].
    + rewrite sget_sset_same in Hs. injection Hs as <-. reflexivity.
    + rewrite sget_sset_other in Hs by exact N. replace (x =? n) with false in Hc by lia. exact (H10 x nd Hs Hc).
  - intros x nd Hs. destruct (Z.eq_dec x n) as [->|N].
    + rewrite sget_sset_same in Hs. injection Hs as <-. cbn [pstate pqueue]. split; left; reflexivity.
    + rewrite sget_sset_other in Hs by exact N. exact (H11 x nd Hs).
  - rewrite H12. f_equal. f_equal.
    rewrite (ssum_step (f_all cn) (f_all (fun x => if x =? n then 1 else cn x)) (store p) n _ H1).
    + rewrite Es, f_all_app. unfold coef. rewrite Z.eqb_refl. cbn [pstate]. change (1 =? 0) with false. change (ALIVE =? DEAD) with false. lia.
    + intros i nd Hi. rewrite !f_all_app. unfold coef. replace (i =? n) with false by lia. reflexivity.
  - rewrite H13. f_equal. f_equal.
    rewrite (ssum_step (f_win cn) (f_win (fun x => if x =? n then 1 else cn x)) (store p) n _ H1).
    + rewrite Es, f_win_app. unfold coef. rewrite (Z.eqb_refl n). cbn [pstate pqueue]. change (1 =? 0) with false. change (ALIVE =? DEAD) with false.
      destruct (QWINDOW =? QWINDOW); lia.
    + intros i nd Hi. rewrite !f_win_app. unfold coef. replace (i =? n) with false by lia. reflexivity.
  - rewrite H14. f_equal. f_equal.
    rewrite (ssum_step (f_prot cn) (f_prot (fun x => if x =? n then 1 else cn x)) (store p) n _ H1).
    + rewrite Es, f_prot_app. unfold coef. rewrite (Z.eqb_refl n). cbn [pstate pqueue]. change (1 =? 0) with false. change (ALIVE =? DEAD) with false.
      destruct (QWINDOW =? QPROTECTED); lia.
    + intros i nd Hi. rewrite !f_prot_app. unfold coef. replace (i =? n) with false by lia. reflexivity.
Qed.

(* makeRetired: the node leaves the table; its delete / update-as-old task becomes pending *)
Lemma PI_retire p cn co old nd :
  PI p cn co -> sget (store p) old = Some nd -> pstate nd = ALIVE ->
  PI (set_state_of p old RETIRED) cn (fun x => if x =? old then 1 else co x).
Proof.
  intros [H1 H2 H3 H4 H5 H6 H7 H8 H9 H10 H11 H12 H13 H14] Es Ha.
  destruct (H8 old nd Es Ha) as [Hco _].
  unfold PI, set_state_of, set_node, with_store. rewrite (node_of_some p old nd Es).
  set (nd' := mkPnode (pkey nd) (pweight nd) RETIRED (pqueue nd)).
  assert (Hq : forall d q, in_queue_ok p cn d q ->
            forall x, In x d -> exists n0, sget (sset (store p) old nd') x = Some n0 /\ pqueue n0 = q /\ pstate n0 <> DEAD /\ cn x = 0).
  { intros d q Hd x Hx. destruct (Hd x Hx) as (n0 & A & B & C & D). destruct (Z.eq_dec x old) as [->|N].
    - rewrite Es in A. injection A as <-. exists nd'. rewrite sget_sset_same. unfold nd'. cbn [pqueue pstate]. repeat split; try assumption. unfold RETIRED, DEAD. lia.
    - exists n0. rewrite sget_sset_other by exact N. repeat split; assumption. }
  constructor; unfold in_queue_ok, linked; cbn [store qwin qprob qprot wsize wwsize pwsize]; try assumption.
  - apply sset_keys_nodup. exact H1.
  - exact (Hq _ _ H3).
  - exact (Hq _ _ H4).
  - exact (Hq _ _ H5).
  - intros x Hx. destruct (Z.eq_dec x old) as [->|N]; [rewrite sget_sset_same in Hx; discriminate|].
    rewrite sget_sset_other in Hx by exact N. replace (x =? old) with false by lia. exact (H6 x Hx).
  - intros x. destruct (x =? old); [destruct (H7 x); lia|exact (H7 x)].
  - intros x n0 Hs Hal. destruct (Z.eq_dec x old) as [->|N].
    + rewrite sget_sset_same in Hs. injection Hs as <-. unfold nd' in Hal. cbn [pstate] in Hal. unfold ALIVE, RETIRED in Hal. lia.
    + rewrite sget_sset_other in Hs by exact N. replace (x =? old) with false by lia. exact (H8 x n0 Hs Hal).
  - intros x n0 Hs Hr. destruct (Z.eq_dec x old) as [->|N]; [rewrite Z.eqb_refl; reflexivity|].
    rewrite sget_sset_other in Hs by exact N. replace (x =? old) with false by lia. exact (H9 x n0 Hs Hr).
  - intros x n0 Hs Hc. destruct (Z.eq_dec x old) as [->|N].
    + rewrite sget_sset_same in Hs. injection Hs as <-. unfold nd'. cbn [pqueue]. exact (H10 old nd Es Hc).
    + rewrite sget_sset_other in Hs by exact N. exact (H10 x n0 Hs Hc).
  - intros x n0 Hs. destruct (Z.eq_dec x old) as [->|N].
    + rewrite sget_sset_same in Hs. injection Hs as <-. unfold nd'. cbn [pstate pqueue]. split; [right; left; reflexivity|apply (H11 old nd Es)].
    + rewrite sget_sset_other in Hs by exact N. exact (H11 x n0 Hs).
  - rewrite H12. f_equal. f_equal. rewrite (ssum_step (f_all cn) (f_all cn) (store p) old nd' H1) by reflexivity.
    rewrite Es, !f_all_app. unfold coef, nd'. cbn [pstate pweight]. rewrite Ha. change (ALIVE =? DEAD) with false. change (RETIRED =? DEAD) with false. lia.
  - rewrite H13. f_equal. f_equal. rewrite (ssum_step (f_win cn) (f_win cn) (store p) old nd' H1) by reflexivity.
    rewrite Es, !f_win_app. unfold coef, nd'. cbn [pstate pweight pqueue]. rewrite Ha. change (ALIVE =? DEAD) with false. change (RETIRED =? DEAD) with false. lia.
  - rewrite H14. f_equal. f_equal. rewrite (ssum_step (f_prot cn) (f_prot cn) (store p) old nd' H1) by reflexivity.
    rewrite Es, !f_prot_app. unfold coef, nd'. cbn [pstate pweight pqueue]. rewrite Ha. change (ALIVE =? DEAD) with false. change (RETIRED =? DEAD) with false. lia.
Qed.

(* ---- maintenance *)
Lemma fold_wheel_delete_pol (ids : list Z) : forall m,
  let m' := fold_left (fun mm id => if m_expire mm then with_whl mm (wheel_delete (whl mm) id) else mm) ids m in
  pol m' = pol m /\ m_evict m' = m_evict m /\ wbuf m' = wbuf m /\ m_expire m' = m_expire m.
Proof.
  induction ids as [|id ids IH]; intros m; cbn [fold_left]; cbv zeta; [repeat split|].
  specialize (IH (if m_expire m then with_whl m (wheel_delete (whl m) id) else m)). cbv zeta in IH.
  destruct IH as (A & B & C & D). rewrite A, B, C, D. destruct (m_expire m) eqn:E; cbn [pol m_evict wbuf m_expire with_whl]; rewrite ?E; repeat split; reflexivity.
Qed.

Definition MI (m : mstate) (pend : list task) : Prop :=
  m_evict m = true /\ PI (pol m) (cnew pend) (cold pend).

Lemma MI_on_access hashf cur m pend id : MI m pend ->
  MI (m_on_access hashf cur m id) pend /\ wbuf (m_on_access hashf cur m id) = wbuf m.
Proof.
  intros [He HP]. unfold m_on_access. rewrite He.
  set (m1 := with_pol m (pol_access hashf (pol m) id)).
  assert (H1 : MI m1 pend) by (split; [exact He|apply PIX_pol_access; exact HP]).
  destruct (m_expire m1 && wheel_mem (whl m1) id); [|split; [exact H1|reflexivity]].
  unfold is_alive. cbn [pol with_whl].
  destruct (pstate (node_of (pol m1) id) =? ALIVE); (split; [exact H1|reflexivity]).
Qed.

Lemma MI_on_access_fold hashf cur ids : forall m pend, MI m pend ->
  MI (fold_left (m_on_access hashf cur) ids m) pend /\ wbuf (fold_left (m_on_access hashf cur) ids m) = wbuf m.
Proof.
  induction ids as [|id ids IH]; intros m pend HM; cbn [fold_left]; [split; [exact HM|reflexivity]|].
  destruct (MI_on_access hashf cur m pend id HM) as [H1 H2].
  destruct (IH _ pend H1) as [H3 H4]. split; [exact H3|rewrite H4; exact H2].
Qed.

Lemma count_one_new (fl ts : list task) (t : task) id :
  cnew (fl ++ t :: ts) id = cnew (fl ++ ts) id + (if as_new t id then 1 else 0).
Proof. rewrite !cnew_app. cbn [cnew]. lia. Qed.
Lemma count_one_old (fl ts : list task) (t : task) id :
  cold (fl ++ t :: ts) id = cold (fl ++ ts) id + (if as_old t id then 1 else 0).
Proof. rewrite !cold_app. cbn [cold]. lia. Qed.

(* c.runTask consumes one task *)
Lemma MI_run_task hashf cur m fl t ts :
  MI m (fl ++ t :: ts) ->
  MI (fst (m_run_task hashf cur m t)) (fl ++ ts) /\ wbuf (fst (m_run_task hashf cur m t)) = wbuf m.
Proof.
  intros [He HP]. pose proof (pi_range _ _ _ _ _ _ _ HP) as Hr.
  destruct t as [n|n old|n]; cbn [m_run_task].
  - (* add *)
    set (m1 := if m_expire m && is_alive m n then m_wheel_add cur m n else m).
    assert (E1 : pol m1 = pol m /\ m_evict m1 = true /\ wbuf m1 = wbuf m).
    { unfold m1. destruct (m_expire m && is_alive m n); repeat split; assumption. }
    destruct E1 as (Ep & Ee & Ew). rewrite Ee.
    assert (Hcn : cnew (fl ++ TAdd n :: ts) n = 1).
    { destruct (Hr n) as [[_ A] _]. rewrite count_one_new in A |- *. cbn [as_new] in *. rewrite Z.eqb_refl in *.
      pose proof (cnew_nonneg (fl ++ ts) n). lia. }
    pose proof (PIX_pol_add 0 0 0 hashf _ (pol m) _ _ n HP Hcn) as H1.
    rewrite Ep. destruct (pol_add hashf (pol m) n) as [p ev] eqn:Ea. cbn [fst] in *.
    pose proof (fold_wheel_delete_pol ev (with_pol m1 p)) as (A & B & C & _). cbv zeta in A, B, C.
    split; [split; [rewrite B; exact Ee|]|rewrite C; exact Ew].
    rewrite A. cbn [pol with_pol].
    apply (PIX_cn_ext 0 0 0 _ p (cn_clear (cnew (fl ++ TAdd n :: ts)) n) (cold (fl ++ TAdd n :: ts))).
    + intros id. unfold cn_clear. rewrite count_one_new. cbn [as_new]. destruct (id =? n) eqn:E.
      * assert (id = n) by lia. subst id. rewrite count_one_new in Hcn. cbn [as_new] in Hcn. rewrite Z.eqb_refl in Hcn. lia.
      * replace (n =? id) with false by lia. lia.
    + intros id. rewrite count_one_old. cbn [as_old]. lia.
    + apply (PIX_shrink_ex 0 0 0 (fun x => False /\ x <> n)); [intros x nd _ _ _ [[] _]|exact H1].
  - (* update *)
    set (m1 := if m_expire m then (let m' := with_whl m (wheel_delete (whl m) old) in if is_alive m' n then m_wheel_add cur m' n else m') else m).
    assert (E1 : pol m1 = pol m /\ m_evict m1 = true /\ wbuf m1 = wbuf m).
    { unfold m1. destruct (m_expire m); [|repeat split; assumption]. cbv zeta.
      destruct (is_alive (with_whl m (wheel_delete (whl m) old)) n); repeat split; assumption. }
    destruct E1 as (Ep & Ee & Ew). rewrite Ee.
    assert (Hcn : cnew (fl ++ TUpd n old :: ts) n = 1).
    { destruct (Hr n) as [[_ A] _]. rewrite count_one_new in A |- *. cbn [as_new] in *. rewrite Z.eqb_refl in *.
      pose proof (cnew_nonneg (fl ++ ts) n). lia. }
    assert (Hco : cold (fl ++ TUpd n old :: ts) old = 1).
    { destruct (Hr old) as [_ [_ A]]. rewrite count_one_old in A |- *. cbn [as_old] in *. rewrite Z.eqb_refl in *.
      pose proof (cold_nonneg (fl ++ ts) old). lia. }
    pose proof (PIX_pol_update hashf 0 0 0 _ (pol m) _ _ n old HP Hcn Hco) as H1.
    rewrite Ep. destruct (pol_update hashf (pol m) n old) as [p ev] eqn:Ea. cbn [fst] in *.
    pose proof (fold_wheel_delete_pol ev (with_pol m1 p)) as (A & B & C & _). cbv zeta in A, B, C.
    split; [split; [rewrite B; exact Ee|]|rewrite C; exact Ew].
    rewrite A. cbn [pol with_pol].
    apply (PIX_cn_ext 0 0 0 _ p (cn_clear (cnew (fl ++ TUpd n old :: ts)) n) (co_clear (cold (fl ++ TUpd n old :: ts)) old)); [| |exact H1].
    + intros id. unfold cn_clear. rewrite count_one_new. cbn [as_new]. destruct (id =? n) eqn:E.
      * assert (id = n) by lia. subst id. rewrite count_one_new in Hcn. cbn [as_new] in Hcn. rewrite Z.eqb_refl in Hcn. lia.
      * replace (n =? id) with false by lia. lia.
    + intros id. unfold co_clear. rewrite count_one_old. cbn [as_old]. destruct (id =? old) eqn:E.
      * assert (id = old) by lia. subst id. rewrite count_one_old in Hco. cbn [as_old] in Hco. rewrite Z.eqb_refl in Hco. lia.
      * replace (old =? id) with false by lia. lia.
  - (* delete *)
    set (m1 := if m_expire m then with_whl m (wheel_delete (whl m) n) else m).
    assert (E1 : pol m1 = pol m /\ m_evict m1 = true /\ wbuf m1 = wbuf m).
    { unfold m1. destruct (m_expire m); repeat split; assumption. }
    destruct E1 as (Ep & Ee & Ew). rewrite Ee. cbn [fst]. split; [|exact Ew]. split; [exact Ee|].
    cbn [pol with_pol]. rewrite Ep.
    assert (Hco : cold (fl ++ TDel n :: ts) n = 1).
    { destruct (Hr n) as [_ [_ A]]. rewrite count_one_old in A |- *. cbn [as_old] in *. rewrite Z.eqb_refl in *.
      pose proof (cold_nonneg (fl ++ ts) n). lia. }
    destruct (PIX_pol_delete 0 0 0 _ (pol m) _ _ n HP) as [H1 _].
    assert (H2 : PIX 0 0 0 (fun x => False /\ x <> n) (pol_delete (pol m) n) (cnew (fl ++ TDel n :: ts)) (co_clear (cold (fl ++ TDel n :: ts)) n)).
    { apply PIX_co_clear; [exact H1|]. intros x Hx. unfold pol_delete in Hx. rewrite (make_dead_state _ n x Hx). unfold DEAD, RETIRED. lia. }
    apply (PIX_cn_ext 0 0 0 _ _ (cnew (fl ++ TDel n :: ts)) (co_clear (cold (fl ++ TDel n :: ts)) n)).
    + intros id. rewrite count_one_new. cbn [as_new]. lia.
    + intros id. unfold co_clear. rewrite count_one_old. cbn [as_old]. destruct (id =? n) eqn:E.
      * assert (id = n) by lia. subst id. rewrite count_one_old in Hco. cbn [as_old] in Hco. rewrite Z.eqb_refl in Hco. lia.
      * replace (n =? id) with false by lia. lia.
    + apply (PIX_shrink_ex 0 0 0 (fun x => False /\ x <> n)); [intros x nd _ _ _ [[] _]|exact H2].
Qed.

Lemma MI_run_tasks hashf cur ts : forall m fl acc,
  MI m (fl ++ ts) ->
  MI (fst (m_run_tasks hashf cur m ts acc)) fl /\ wbuf (fst (m_run_tasks hashf cur m ts acc)) = wbuf m.
Proof.
  induction ts as [|t ts IH]; intros m fl acc HM; cbn [m_run_tasks].
  - rewrite app_nil_r in HM. split; [exact HM|reflexivity].
  - destruct (MI_run_task hashf cur m fl t ts HM) as [H1 H2].
    destruct (m_run_task hashf cur m t) as [m1 ev]. cbn [fst] in *.
    destruct (IH m1 fl (acc ++ ev) H1) as [H3 H4]. split; [exact H3|rewrite H4; exact H2].
Qed.

Lemma MI_evict_node m pend id : MI m pend -> MI (m_evict_node m id) pend /\ wbuf (m_evict_node m id) = wbuf m.
Proof.
  intros [He HP]. unfold m_evict_node. rewrite He.
  set (m1 := with_pol m (pol_delete (pol m) id)).
  set (m2 := if m_expire m1 then with_whl m1 (wheel_delete (whl m1) id) else m1).
  assert (E : pol m2 = pol_delete (pol m) id /\ m_evict m2 = true /\ wbuf m2 = wbuf m).
  { unfold m2. destruct (m_expire m1); repeat split; assumption. }
  destruct E as (Ep & Ee & Ew). rewrite Ee. split; [|exact Ew]. split; [exact Ee|].
  cbn [pol with_pol]. rewrite Ep.
  destruct (PIX_pol_evict 0 0 0 _ (pol m) _ _ id HP) as [H _].
  apply (PIX_shrink_ex 0 0 0 (fun x => False /\ x <> id)); [intros x nd _ _ _ [[] _]|exact H].
Qed.

Lemma MI_evict_all ids : forall m pend, MI m pend -> MI (m_evict_all m ids) pend /\ wbuf (m_evict_all m ids) = wbuf m.
Proof.
  unfold m_evict_all. induction ids as [|id ids IH]; intros m pend HM; cbn [fold_left]; [split; [exact HM|reflexivity]|].
  destruct (MI_evict_node m pend id HM) as [H1 H2]. destruct (IH _ pend H1) as [H3 H4]. split; [exact H3|rewrite H4; exact H2].
Qed.

Theorem MI_maintenance hashf cur rnd now adj m fl :
  MI m (fl ++ wbuf m) ->
  let m' := fst (fst (fst (m_maintenance hashf cur rnd now adj m))) in
  MI m' fl /\ wbuf m' = [].
Proof.
  intros HM. unfold m_maintenance.
  set (m1 := if skip_read_buffer m then m else with_rbuf (fold_left (m_on_access hashf cur) (rbuf m) m) []).
  assert (H1 : MI m1 (fl ++ wbuf m) /\ wbuf m1 = wbuf m).
  { unfold m1. destruct (skip_read_buffer m); [split; [exact HM|reflexivity]|].
    destruct (MI_on_access_fold hashf cur (rbuf m) m _ HM) as [A B]. split; [exact A|exact B]. }
  destruct H1 as [H1 Ew1]. rewrite Ew1.
  assert (H1' : MI (with_wbuf m1 []) (fl ++ wbuf m)) by exact H1.
  destruct (MI_run_tasks hashf cur (wbuf m) (with_wbuf m1 []) fl [] H1') as [H2 Ew2].
  destruct (m_run_tasks hashf cur (with_wbuf m1 []) (wbuf m) []) as [m2 ev_tasks]. cbn [fst] in H2, Ew2. cbn [wbuf with_wbuf] in Ew2.
  assert (H3 : exists m3 expired, (if m_expire m2 then let '(w, ids) := wheel_delete_expired cur (whl m2) now in (m_evict_all (with_whl m2 w) ids, ids) else (m2, [])) = (m3, expired)
                 /\ MI m3 fl /\ wbuf m3 = []).
  { destruct (m_expire m2).
    - destruct (wheel_delete_expired cur (whl m2) now) as [w ids].
      destruct (MI_evict_all ids (with_whl m2 w) fl H2) as [A B]. eexists _, _. split; [reflexivity|]. split; [exact A|rewrite B; exact Ew2].
    - eexists _, _. split; [reflexivity|]. split; assumption. }
  destruct H3 as (m3 & expired & E3 & H3 & Ew3). rewrite E3.
  destruct H3 as [He3 HP3]. rewrite He3.
  pose proof (PIX_pol_evict_nodes 0 0 0 _ _ _ hashf rnd (pol m3) HP3) as H4.
  destruct (pol_evict_nodes hashf rnd (pol m3)) as [p ids]. cbn [fst] in H4.
  pose proof (fold_wheel_delete_pol ids (with_pol m3 p)) as (A & B & C & _). cbv zeta in A, B, C.
  set (m4 := fold_left (fun mm id => if m_expire mm then with_whl mm (wheel_delete (whl mm) id) else mm) ids (with_pol m3 p)) in *.
  cbv zeta. rewrite B. cbn [m_evict with_pol]. rewrite He3. cbn [fst].
  split; [split; [cbn [m_evict with_pol]; rewrite B; exact He3|]|cbn [wbuf with_pol]; rewrite C; exact Ew3].
  cbn [pol with_pol]. apply PIX_pol_climb_adj. rewrite A. exact H4.
Qed.

(* ---- the whole system: index actions, tasks in flight, maintenance *)
Record msys := mkSys { sm : mstate; sfl : list task }.     (* sfl: tasks created but not yet in the write buffer *)
Definition pend (s : msys) : list task := sfl s ++ wbuf (sm s).

Fixpoint remove_nth {A} (k : nat) (l : list A) : list A :=
  match l, k with
  | [], _ => []
  | _ :: t, O => t
  | h :: t, S k' => h :: remove_nth k' t
  end.

Inductive mev :=
| ECreate (n key w : Z)              (* an index action installs a fresh node for an absent key *)
| EReplace (n key w old : Z)         (* ... replaces the current node old *)
| ERemove (old : Z)                  (* ... removes the current node old *)
| ERead (id : Z)                     (* a read hands a node to the read buffer *)
| EPush (k : nat)                    (* the k-th task in flight reaches the write buffer: ANY order *)
| EMaint (cur : Z -> Z) (rnd now adj : Z)
| ESetMax (mx wm pm : Z).

Definition sys_step (hashf : Z -> Z -> Z) (s : msys) (e : mev) : msys :=
  match e with
  | ECreate n key w => mkSys (m_new (sm s) n key w) (sfl s ++ [TAdd n])
  | EReplace n key w old => mkSys (m_retire (m_new (sm s) n key w) old) (sfl s ++ [TUpd n old])
  | ERemove old => mkSys (m_retire (sm s) old) (sfl s ++ [TDel old])
  | ERead id => mkSys (fst (m_read (sm s) id)) (sfl s)
  | EPush k => match nth_error (sfl s) k with
               | Some t => mkSys (m_push (sm s) t) (remove_nth k (sfl s))
               | None => s
               end
  | EMaint cur rnd now adj => mkSys (fst (fst (fst (m_maintenance hashf cur rnd now adj (sm s))))) (sfl s)
  | ESetMax mx wm pm => mkSys (m_set_maximum (sm s) mx wm pm) (sfl s)
  end.

(* node identities are fresh; index actions replace / remove the node that is current (alive) *)
Definition ev_ok (s : msys) (e : mev) : Prop :=
  match e with
  | ECreate n _ _ => sget (store (pol (sm s))) n = None
  | EReplace n _ _ old => sget (store (pol (sm s))) n = None /\
                          exists nd, sget (store (pol (sm s))) old = Some nd /\ pstate nd = ALIVE
  | ERemove old => exists nd, sget (store (pol (sm s))) old = Some nd /\ pstate nd = ALIVE
  | _ => True
  end.

Fixpoint run_ok (hashf : Z -> Z -> Z) (s : msys) (evs : list mev) : Prop :=
  match evs with
  | [] => True
  | e :: evs' => ev_ok s e /\ run_ok hashf (sys_step hashf s e) evs'
  end.

Definition SI (s : msys) : Prop := MI (sm s) (pend s).

Lemma cnew_remove_nth l : forall k t id, nth_error l k = Some t ->
  cnew l id = cnew (remove_nth k l) id + (if as_new t id then 1 else 0).
Proof.
  induction l as [|h l IH]; intros [|k] t id H; cbn [nth_error] in H; try discriminate; cbn [remove_nth cnew].
  - injection H as ->. lia.
  - rewrite (IH k t id H). lia.
Qed.
Lemma cold_remove_nth l : forall k t id, nth_error l k = Some t ->
  cold l id = cold (remove_nth k l) id + (if as_old t id then 1 else 0).
Proof.
  induction l as [|h l IH]; intros [|k] t id H; cbn [nth_error] in H; try discriminate; cbn [remove_nth cold].
  - injection H as ->. lia.
  - rewrite (IH k t id H). lia.
Qed.

Lemma SI_step hashf s e : SI s -> ev_ok s e -> SI (sys_step hashf s e).
Proof.
  intros [He HP] Hok. unfold SI, MI, pend in *. destruct e as [n key w|n key w old|old|id|k|cur rnd now|mx wm pm]; cbn [sys_step ev_ok sm sfl] in *.
  - (* create *)
    split; [exact He|]. cbn [pol m_new with_pol wbuf].
    apply (PIX_cn_ext 0 0 0 _ _ (fun x => if x =? n then 1 else cnew (sfl s ++ wbuf (sm s)) x) (cold (sfl s ++ wbuf (sm s)))).
    + intros id. rewrite <- app_assoc. rewrite (cnew_app (sfl s)), (cnew_app [TAdd n]), (cnew_app (sfl s)). cbn [cnew as_new].
      destruct (pi_absent _ _ _ _ _ _ _ HP n Hok) as [A _]. rewrite cnew_app in A.
      destruct (id =? n) eqn:E; [assert (id = n) by lia; subst id; rewrite Z.eqb_refl; lia|replace (n =? id) with false by lia; lia].
    + intros id. rewrite <- app_assoc. rewrite (cold_app (sfl s)), (cold_app [TAdd n]), (cold_app (sfl s)). cbn [cold as_old]. lia.
    + apply PI_create; assumption.
  - (* replace *)
    destruct Hok as [Hfresh (nd & Eso & Hal)].
    assert (Hne : n <> old) by (intros ->; congruence).
    set (p1 := set_node (pol (sm s)) n (mkPnode key w ALIVE QWINDOW)).
    assert (H1 : PI p1 (fun x => if x =? n then 1 else cnew (sfl s ++ wbuf (sm s)) x) (cold (sfl s ++ wbuf (sm s)))) by (apply PI_create; assumption).
    assert (Eso1 : sget (store p1) old = Some nd).
    { unfold p1, set_node, with_store. cbn [store]. rewrite sget_sset_other by congruence. exact Eso. }
    pose proof (PI_retire p1 _ _ old nd H1 Eso1 Hal) as H2.
    unfold m_retire. cbn [pol m_new with_pol]. fold p1. rewrite (node_of_some p1 old nd Eso1), Hal. change (ALIVE =? ALIVE) with true. cbv iota.
    split; [exact He|]. cbn [pol with_pol wbuf m_new].
    apply (PIX_cn_ext 0 0 0 _ _ _ _ _ _ ) with (3 := H2).
    + intros id. rewrite <- app_assoc. rewrite (cnew_app (sfl s)), (cnew_app [TUpd n old]), (cnew_app (sfl s)). cbn [cnew as_new].
      destruct (pi_absent _ _ _ _ _ _ _ HP n Hfresh) as [A _]. rewrite cnew_app in A.
      destruct (id =? n) eqn:E; [assert (id = n) by lia; subst id; rewrite Z.eqb_refl; lia|replace (n =? id) with false by lia; lia].
    + intros id. rewrite <- app_assoc. rewrite (cold_app (sfl s)), (cold_app [TUpd n old]), (cold_app (sfl s)). cbn [cold as_old].
      destruct (pi_alive _ _ _ _ _ _ _ HP old nd Eso Hal) as [A _]. rewrite cold_app in A.
      destruct (id =? old) eqn:E; [assert (id = old) by lia; subst id; rewrite Z.eqb_refl; lia|replace (old =? id) with false by lia; lia].
  - (* remove *)
    destruct Hok as (nd & Eso & Hal).
    pose proof (PI_retire _ _ _ old nd HP Eso Hal) as H2.
    unfold m_retire. rewrite (node_of_some _ old nd Eso), Hal. change (ALIVE =? ALIVE) with true. cbv iota.
    split; [exact He|]. cbn [pol with_pol wbuf].
    apply (PIX_cn_ext 0 0 0 _ _ _ _ _ _ ) with (3 := H2).
    + intros id. rewrite <- app_assoc. rewrite (cnew_app (sfl s)), (cnew_app [TDel old]), (cnew_app (sfl s)). cbn [cnew as_new]. lia.
    + intros id. rewrite <- app_assoc. rewrite (cold_app (sfl s)), (cold_app [TDel old]), (cold_app (sfl s)). cbn [cold as_old].
      destruct (pi_alive _ _ _ _ _ _ _ HP old nd Eso Hal) as [A _]. rewrite cold_app in A.
      destruct (id =? old) eqn:E; [assert (id = old) by lia; subst id; rewrite Z.eqb_refl; lia|replace (old =? id) with false by lia; lia].
  - (* read: only the read buffer changes *)
    unfold m_read. destruct (skip_read_buffer (sm s)); [split; assumption|].
    destruct (Nat.ltb (length (rbuf (sm s))) 16); split; assumption.
  - (* a task reaches the write buffer *)
    destruct (nth_error (sfl s) k) as [t|] eqn:En; [|split; assumption].
    cbn [sm sfl]. split; [exact He|]. cbn [pol m_push with_wbuf wbuf].
    apply (PIX_cn_ext 0 0 0 _ _ _ _ _ _) with (3 := HP).
    + intros id. rewrite !cnew_app. rewrite (cnew_remove_nth (sfl s) k t id En). cbn [cnew]. lia.
    + intros id. rewrite !cold_app. rewrite (cold_remove_nth (sfl s) k t id En). cbn [cold]. lia.
  - (* maintenance *)
    destruct (MI_maintenance hashf cur rnd now adj (sm s) (sfl s) (conj He HP)) as [[A B] C]. cbv zeta in A, B, C.
    rewrite C, app_nil_r. split; assumption.
  - (* SetMaximum *)
    split; [exact He|]. unfold m_set_maximum. cbn [pol with_pol wbuf]. unfold pol_set_maximum.
    destruct (mx =? maxi (pol (sm s))); [exact HP|].
    destruct (negb (pweighted (with_maxima (pol (sm s)) mx wm pm)) && (wsize (with_maxima (pol (sm s)) mx wm pm) >=? Z.shiftr mx 1));
      apply (PIX_ext 0 0 0 _ (pol (sm s))); try reflexivity; exact HP.
Qed.

Theorem SI_run hashf evs : forall s, SI s -> run_ok hashf s evs -> SI (fold_left (sys_step hashf) evs s).
Proof.
  induction evs as [|e evs IH]; intros s HS Hok; cbn [fold_left]; [exact HS|].
  destruct Hok as [H1 H2]. apply IH; [apply SI_step; assumption|exact H2].
Qed.

Definition sys0 (expire weighted : bool) : msys := mkSys (mstate0 true expire weighted) [].

Lemma SI_sys0 expire weighted : SI (sys0 expire weighted).
Proof.
  unfold SI, MI, sys0, pend, mstate0, policy0. cbn [sm sfl wbuf app m_evict pol]. split; [reflexivity|].
  constructor; unfold in_queue_ok, linked; cbn [store qwin qprob qprot wsize wwsize pwsize cnew cold sget skeys map app ssum];
    try (intros; exfalso; assumption); try constructor; try (intros; discriminate); try reflexivity; try lia; try (intros; split; reflexivity).
Qed.

(* ---- quiescence: no task pending anywhere *)
Lemma sumZ_remove (g : Z -> Z) (l : list Z) i : NoDup l -> In i l ->
  sumZ (map g l) = g i + sumZ (map g (remove Z.eq_dec i l)).
Proof.
  induction l as [|h l IH]; intros Hd Hin; [destruct Hin|]. inversion Hd as [|? ? Hni Hnd]; subst.
  cbn [map sumZ fold_right remove]. destruct (Z.eq_dec i h) as [->|N].
  - rewrite (notin_remove Z.eq_dec l h Hni). unfold sumZ. lia.
  - destruct Hin as [E|Hin]; [congruence|]. cbn [map sumZ fold_right]. specialize (IH Hnd Hin). unfold sumZ in *. lia.
Qed.

Lemma nodup_remove (l : list Z) x : NoDup l -> NoDup (remove Z.eq_dec x l).
Proof.
  induction l as [|h l IH]; intros H; cbn [remove]; [constructor|]. inversion H as [|? ? Hni Hnd]; subst.
  destruct (Z.eq_dec x h); [apply IH; exact Hnd|]. constructor; [|apply IH; exact Hnd].
  intros X. apply in_remove in X. apply Hni. apply X.
Qed.

Lemma ssum_as_list (Pb : Z -> pnode -> bool) st : NoDup (skeys st) -> forall l, NoDup l ->
  (forall id, In id l <-> exists nd, sget st id = Some nd /\ Pb id nd = true) ->
  ssum (fun id nd => if Pb id nd then pweight nd else 0) st =
  sumZ (map (fun id => match sget st id with Some nd => pweight nd | None => 0 end) l).
Proof.
  induction st as [|[i n] st IH]; intros Hk l Hl Hm.
  - cbn [ssum]. destruct l as [|x l]; [reflexivity|]. exfalso. destruct (proj1 (Hm x) (or_introl eq_refl)) as (nd & A & _). discriminate.
  - unfold skeys in Hk. cbn [map fst] in Hk. inversion Hk as [|? ? Hni Hnd]; subst. cbn [ssum].
    assert (Hother : forall id, id <> i -> sget ((i, n) :: st) id = sget st id).
    { intros id N. cbn [sget]. replace (i =? id) with false by lia. reflexivity. }
    assert (Hst : forall id nd, sget st id = Some nd -> id <> i).
    { intros id nd H ->. apply Hni. exact (sget_in_keys st i nd H). }
    destruct (Pb i n) eqn:Ep.
    + assert (Hin : In i l). { apply Hm. exists n. cbn [sget]. rewrite Z.eqb_refl. split; [reflexivity|exact Ep]. }
      rewrite (sumZ_remove _ l i Hl Hin). cbn [sget]. rewrite Z.eqb_refl.
      rewrite (IH Hnd (remove Z.eq_dec i l)).
      * f_equal. f_equal. apply map_ext_in. intros id Hid. apply in_remove in Hid. destruct Hid as [_ N].
        cbn [sget]. replace (i =? id) with false by lia. reflexivity.
      * apply nodup_remove. exact Hl.
      * intros id. split.
        -- intros Hid. apply in_remove in Hid. destruct Hid as [Hid N]. apply Hm in Hid. destruct Hid as (nd & A & B).
           rewrite (Hother id N) in A. exists nd. split; assumption.
        -- intros (nd & A & B). pose proof (Hst id nd A) as N. apply in_in_remove; [exact N|]. apply Hm. exists nd. rewrite (Hother id N). split; assumption.
    + assert (Hnin : ~ In i l).
      { intros Hin. apply Hm in Hin. destruct Hin as (nd & A & B). cbn [sget] in A. rewrite Z.eqb_refl in A. injection A as <-. congruence. }
      rewrite (IH Hnd l Hl).
      * replace (0 + sumZ (map (fun id => match sget st id with Some nd => pweight nd | None => 0 end) l))
          with (sumZ (map (fun id => match sget st id with Some nd => pweight nd | None => 0 end) l)) by lia.
        f_equal. apply map_ext_in. intros id Hid. assert (N : id <> i) by (intros ->; exact (Hnin Hid)).
        cbn [sget]. replace (i =? id) with false by lia. reflexivity.
      * intros id. split.
        -- intros Hid. assert (N : id <> i) by (intros ->; exact (Hnin Hid)). apply Hm in Hid. destruct Hid as (nd & A & B).
           rewrite (Hother id N) in A. exists nd. split; assumption.
        -- intros (nd & A & B). pose proof (Hst id nd A) as N. apply Hm. exists nd. rewrite (Hother id N). split; assumption.
Qed.

Definition alive_in (p : policy) (id : Z) : Prop := exists nd, sget (store p) id = Some nd /\ pstate nd = ALIVE.

Section Quiescent.
Variable p : policy.
Hypothesis HP : PI p (cnew []) (cold []).

Lemma q_no_retired id nd : sget (store p) id = Some nd -> pstate nd <> RETIRED.
Proof. intros Es Hr. pose proof (pi_retired _ _ _ _ _ _ _ HP id nd Es Hr) as H. cbn [cold] in H. lia. Qed.

Lemma q_not_dead_alive id nd : sget (store p) id = Some nd -> pstate nd <> DEAD -> pstate nd = ALIVE.
Proof.
  intros Es Hd. destruct (pi_states _ _ _ _ _ _ _ HP id nd Es) as [[A|[A|A]] _]; [exact A| |contradiction].
  exfalso. exact (q_no_retired id nd Es A).
Qed.

(* the deques hold exactly the entries present, each once: nothing removed is still tracked, nothing
   present is unknown to the policy *)
Theorem quiescent_linked_iff_alive id : linked p id <-> alive_in p id.
Proof.
  split.
  - intros [L|[L|L]];
      [destruct (pi_win _ _ _ _ _ _ _ HP id L) as (nd & A & _ & C & _)|destruct (pi_prob _ _ _ _ _ _ _ HP id L) as (nd & A & _ & C & _)
      |destruct (pi_prot _ _ _ _ _ _ _ HP id L) as (nd & A & _ & C & _)]; exists nd; split; try exact A; apply (q_not_dead_alive id nd A C).
  - intros (nd & Es & Ha). destruct (pi_alive _ _ _ _ _ _ _ HP id nd Es Ha) as [_ B]. apply B; [reflexivity|tauto].
Qed.

Theorem quiescent_nodup : NoDup (qwin p ++ qprob p ++ qprot p).
Proof. exact (pi_nodup _ _ _ _ _ _ _ HP). Qed.

Lemma sum_weights_sget l : sum_weights p l = sumZ (map (fun id => match sget (store p) id with Some nd => pweight nd | None => 0 end) l).
Proof.
  unfold sum_weights. f_equal. apply map_ext. intros id. unfold node_of. destruct (sget (store p) id); reflexivity.
Qed.

Theorem quiescent_weighted_size : wsize p = wrapu (sum_weights p (qwin p ++ qprob p ++ qprot p)).
Proof.
  rewrite (pi_wsize _ _ _ _ _ _ _ HP). f_equal. rewrite Z.add_0_r. rewrite sum_weights_sget.
  rewrite <- (ssum_as_list (fun id nd => negb (pstate nd =? DEAD)) (store p) (pi_keys _ _ _ _ _ _ _ HP) _ quiescent_nodup).
  - apply ssum_ext. intros i nd. rewrite f_all_app. unfold coef. cbn [cnew]. change (0 =? 0) with true.
    destruct (pstate nd =? DEAD); cbn [negb]; lia.
  - intros id. split.
    + intros Hin. assert (L : linked p id) by (unfold linked; rewrite !in_app_iff in Hin; tauto).
      apply quiescent_linked_iff_alive in L. destruct L as (nd & A & B). exists nd. split; [exact A|]. rewrite B. reflexivity.
    + intros (nd & A & B). assert (Hd : pstate nd <> DEAD) by (intros E; rewrite E in B; discriminate).
      assert (L : linked p id) by (apply quiescent_linked_iff_alive; exists nd; split; [exact A|apply (q_not_dead_alive id nd A Hd)]).
      unfold linked in L. rewrite !in_app_iff. tauto.
Qed.

Lemma nodup3_parts : NoDup (qwin p) /\ NoDup (qprob p) /\ NoDup (qprot p).
Proof. pose proof quiescent_nodup as H. apply nodup3_iff in H. tauto. Qed.

Theorem quiescent_window_size : wwsize p = wrapu (sum_weights p (qwin p)).
Proof.
  rewrite (pi_wwsize _ _ _ _ _ _ _ HP). f_equal. rewrite Z.add_0_r. rewrite sum_weights_sget.
  rewrite <- (ssum_as_list (fun id nd => (pqueue nd =? QWINDOW) && negb (pstate nd =? DEAD)) (store p) (pi_keys _ _ _ _ _ _ _ HP) _ (proj1 nodup3_parts)).
  - apply ssum_ext. intros i nd. rewrite f_win_app. unfold coef. cbn [cnew]. change (0 =? 0) with true.
    destruct (pqueue nd =? QWINDOW); destruct (pstate nd =? DEAD); cbn [negb andb]; lia.
  - intros id. split.
    + intros Hin. destruct (pi_win _ _ _ _ _ _ _ HP id Hin) as (nd & A & B & C & _). exists nd. split; [exact A|].
      rewrite B. change (QWINDOW =? QWINDOW) with true. replace (pstate nd =? DEAD) with false by lia. reflexivity.
    + intros (nd & A & B). apply andb_true_iff in B. destruct B as [Bq Bd].
      assert (Hd : pstate nd <> DEAD) by (intros E; rewrite E in Bd; discriminate).
      assert (L : linked p id) by (apply quiescent_linked_iff_alive; exists nd; split; [exact A|apply (q_not_dead_alive id nd A Hd)]).
      destruct L as [L|[L|L]]; [exact L| |].
      * destruct (pi_prob _ _ _ _ _ _ _ HP id L) as (n0 & A0 & B0 & _). rewrite A in A0. injection A0 as <-. rewrite B0 in Bq. discriminate.
      * destruct (pi_prot _ _ _ _ _ _ _ HP id L) as (n0 & A0 & B0 & _). rewrite A in A0. injection A0 as <-. rewrite B0 in Bq. discriminate.
Qed.

Theorem quiescent_protected_size : pwsize p = wrapu (sum_weights p (qprot p)).
Proof.
  rewrite (pi_pwsize _ _ _ _ _ _ _ HP). f_equal. rewrite Z.add_0_r. rewrite sum_weights_sget.
  rewrite <- (ssum_as_list (fun id nd => (pqueue nd =? QPROTECTED) && negb (pstate nd =? DEAD)) (store p) (pi_keys _ _ _ _ _ _ _ HP) _ (proj2 (proj2 nodup3_parts))).
  - apply ssum_ext. intros i nd. rewrite f_prot_app. unfold coef. cbn [cnew]. change (0 =? 0) with true.
    destruct (pqueue nd =? QPROTECTED); destruct (pstate nd =? DEAD); cbn [negb andb]; lia.
  - intros id. split.
    + intros Hin. destruct (pi_prot _ _ _ _ _ _ _ HP id Hin) as (nd & A & B & C & _). exists nd. split; [exact A|].
      rewrite B. change (QPROTECTED =? QPROTECTED) with true. replace (pstate nd =? DEAD) with false by lia. reflexivity.
    + intros (nd & A & B). apply andb_true_iff in B. destruct B as [Bq Bd].
      assert (Hd : pstate nd <> DEAD) by (intros E; rewrite E in Bd; discriminate).
      assert (L : linked p id) by (apply quiescent_linked_iff_alive; exists nd; split; [exact A|apply (q_not_dead_alive id nd A Hd)]).
      destruct L as [L|[L|L]]; [| |exact L].
      * destruct (pi_win _ _ _ _ _ _ _ HP id L) as (n0 & A0 & B0 & _). rewrite A in A0. injection A0 as <-. rewrite B0 in Bq. discriminate.
      * destruct (pi_prob _ _ _ _ _ _ _ HP id L) as (n0 & A0 & B0 & _). rewrite A in A0. injection A0 as <-. rewrite B0 in Bq. discriminate.
Qed.

(* each deque holds nodes carrying its own tag *)
Theorem quiescent_tags id : (In id (qwin p) -> pqueue (node_of p id) = QWINDOW) /\
  (In id (qprob p) -> pqueue (node_of p id) = QPROBATION) /\ (In id (qprot p) -> pqueue (node_of p id) = QPROTECTED).
Proof.
  repeat split; intros L;
    [destruct (pi_win _ _ _ _ _ _ _ HP id L) as (nd & A & B & _)|destruct (pi_prob _ _ _ _ _ _ _ HP id L) as (nd & A & B & _)
    |destruct (pi_prot _ _ _ _ _ _ _ HP id L) as (nd & A & B & _)]; rewrite (node_of_some p id nd A); exact B.
Qed.
End Quiescent.

(* C05 over all event lists: whenever no task is pending, the policy agrees with the table *)
Theorem policy_quiescent hashf evs expire weighted :
  run_ok hashf (sys0 expire weighted) evs ->
  let s := fold_left (sys_step hashf) evs (sys0 expire weighted) in
  pend s = [] ->
  let p := pol (sm s) in
  NoDup (qwin p ++ qprob p ++ qprot p) /\
  (forall id, linked p id <-> alive_in p id) /\
  wsize p = wrapu (sum_weights p (qwin p ++ qprob p ++ qprot p)) /\
  wwsize p = wrapu (sum_weights p (qwin p)) /\
  pwsize p = wrapu (sum_weights p (qprot p)).
Proof.
  intros Hok s Hq p.
  pose proof (SI_run hashf evs (sys0 expire weighted) (SI_sys0 expire weighted) Hok) as [_ HP]. fold s in HP. rewrite Hq in HP. fold p in HP.
  split; [exact (quiescent_nodup p HP)|]. split; [exact (quiescent_linked_iff_alive p HP)|].
  split; [exact (quiescent_weighted_size p HP)|]. split; [exact (quiescent_window_size p HP)|exact (quiescent_protected_size p HP)].
Qed.
