module otterverif

go 1.24.0

require github.com/maypok86/otter/v2 v2.0.0

replace github.com/maypok86/otter/v2 => /repo
