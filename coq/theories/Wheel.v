(* Wheel.v — executable model of internal/expiration/variable.go (hierarchical timer wheel).

   Real constants: 5 levels, buckets 64/64/32/4/1, shifts 30/36/42/47/49 (spans 2^30.. 2^49).
   A timer is (id, pkey): [pkey] is the ghost "placement key" max(exp, wheel time) computed when the
   node was linked — findBucket clamps an already-due expiration to the wheel's time (the repair of
   the stale-clock defect).  A node's ExpiresAt is mutable (reads extend it with a CAS), so the sweep
   reads the CURRENT expiration through [cur : id -> exp], supplied by the caller.
   [time] is uint64; [exp] is compared as uint64, as in the code (deadlines are non-negative).
   Buckets are lists in link order (link() appends at the tail). No proofs here. *)
From Otter Require Import Base.

Record timer := mkTimer { tid : Z; tkey : Z }.

Definition nbuckets : list Z := [64; 64; 32; 4; 1].
Definition shifts   : list Z := [30; 36; 42; 47; 49].
(* spans[i+1] for i = 0..3 : the exclusive upper bound of durations stored at level i *)
Definition span_next : list Z := [68719476736; 4398046511104; 140737488355328; 562949953421312].

Definition nthZ (l : list Z) (i : nat) : Z := nth i l 0.

Record wheel := mkWheel { wtime : Z; wlevels : list (list (list timer)) }.

Definition empty_level (n : Z) : list (list timer) := repeat [] (Z.to_nat n).
Definition wheel0 : wheel := mkWheel 0 (map empty_level nbuckets).

(* findBucket: (level, slot) and the clamped expiration *)
Fixpoint find_level (duration : Z) (i : nat) (bounds : list Z) : nat :=
  match bounds with
  | [] => i
  | b :: bounds' => if duration <? b then i else find_level duration (S i) bounds'
  end.

Definition find_bucket (w : wheel) (exp : Z) : nat * nat * Z :=
  let e := if exp <? wtime w then wtime w else exp in
  let duration := wrapu (e - wtime w) in
  let lvl := find_level duration 0 span_next in
  if Nat.ltb lvl 4
  then let ticks := Z.shiftr e (nthZ shifts lvl) in
       (lvl, Z.to_nat (Z.land ticks (nthZ nbuckets lvl - 1)), e)
  else (4%nat, 0%nat, e).

Definition upd_bucket (ls : list (list (list timer))) (lvl slot : nat) (f : list timer -> list timer)
  : list (list (list timer)) :=
  upd lvl (let l := nth lvl ls [] in upd slot (f (nth slot l [])) l) ls.

(* Add: link at the tail of the bucket *)
Definition wheel_add (w : wheel) (id exp : Z) : wheel :=
  let '(lvl, slot, e) := find_bucket w exp in
  mkWheel (wtime w) (upd_bucket (wlevels w) lvl slot (fun b => b ++ [mkTimer id e])).

(* Delete: unlink wherever it is (no-op when not linked) *)
Definition wheel_delete (w : wheel) (id : Z) : wheel :=
  mkWheel (wtime w) (map (map (filter (fun t => negb (tid t =? id)))) (wlevels w)).

Definition wheel_mem (w : wheel) (id : Z) : bool :=
  existsb (existsb (existsb (fun t => tid t =? id))) (wlevels w).

(* where a timer is: Some (level, slot) *)
Fixpoint find_slot (bs : list (list timer)) (id : Z) (j : nat) : option nat :=
  match bs with
  | [] => None
  | b :: bs' => if existsb (fun t => tid t =? id) b then Some j else find_slot bs' id (S j)
  end.
Fixpoint find_pos (ls : list (list (list timer))) (id : Z) (i : nat) : option (nat * nat) :=
  match ls with
  | [] => None
  | l :: ls' => match find_slot l id 0 with
                | Some j => Some (i, j)
                | None => find_pos ls' id (S i)
                end
  end.
Definition wheel_pos (w : wheel) (id : Z) : option (nat * nat) := find_pos (wlevels w) id 0.

(* one bucket: detach everything, expire what is due (strictly before the wheel's time), re-add the rest *)
Fixpoint sweep_timers (cur : Z -> Z) (w : wheel) (ts : list timer) (acc : list Z) : wheel * list Z :=
  match ts with
  | [] => (w, acc)
  | t :: ts' =>
      if cur (tid t) <? wtime w then sweep_timers cur w ts' (acc ++ [tid t])
      else sweep_timers cur (wheel_add w (tid t) (cur (tid t))) ts' acc
  end.

Definition sweep_bucket (cur : Z -> Z) (w : wheel) (lvl slot : nat) (acc : list Z) : wheel * list Z :=
  let ts := nth slot (nth lvl (wlevels w) []) [] in
  let w' := mkWheel (wtime w) (upd_bucket (wlevels w) lvl slot (fun _ => [])) in
  sweep_timers cur w' ts acc.

(* deleteExpiredFromBucket: slots start .. start+steps-1 (mod buckets) *)
Fixpoint sweep_slots (cur : Z -> Z) (w : wheel) (lvl : nat) (start mask : Z) (steps : nat) (acc : list Z) : wheel * list Z :=
  match steps with
  | O => (w, acc)
  | S n =>
      let '(w1, acc1) := sweep_bucket cur w lvl (Z.to_nat (Z.land start mask)) acc in
      sweep_slots cur w1 lvl (start + 1) mask n acc1
  end.

(* DeleteExpired: returns the ids passed to expireNode, in order *)
Fixpoint sweep_levels (cur : Z -> Z) (w : wheel) (prev now : Z) (lvls : list nat) (acc : list Z) : wheel * list Z :=
  match lvls with
  | [] => (w, acc)
  | i :: lvls' =>
      let pt := Z.shiftr prev (nthZ shifts i) in
      let ct := Z.shiftr now (nthZ shifts i) in
      let delta := ct - pt in
      if delta =? 0 then (w, acc)
      else
        let nb := nthZ nbuckets i in
        let steps := Z.min (delta + 1) nb in
        let '(w1, acc1) := sweep_slots cur w i (Z.land pt (nb - 1)) (nb - 1) (Z.to_nat steps) acc in
        sweep_levels cur w1 prev now lvls' acc1
  end.

Definition wheel_delete_expired (cur : Z -> Z) (w : wheel) (now : Z) : wheel * list Z :=
  let prev := wtime w in
  sweep_levels cur (mkWheel now (wlevels w)) prev now [0; 1; 2; 3; 4]%nat [].

Definition wheel_timers (w : wheel) : list timer := concat (concat (wlevels w)).
