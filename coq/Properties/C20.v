(* C20 — Statistics count exactly what happened (ghost counters of the concrete model are placed
   exactly where the code calls the recorder). *)
From Otter Require Import Base Seq Spec SeqRefine SeqFacts Adder AdderProofs.

(* one lookup of a counting operation: hits + misses grows by exactly one; it is a hit exactly
   when an unexpired entry was found; loads and evictions untouched *)
Theorem C20_lookup : forall c s k now,
  lookups (fst (get_node c s k now)) = lookups s + 1 /\
  loads (fst (get_node c s k now)) = loads s /\
  evictions (cst (fst (get_node c s k now))) = evictions (cst s) /\
  (hits (cst (fst (get_node c s k now))) = hits (cst s) + 1 <->
   exists n, lookup k (cmap s) = Some n /\ has_expired c n now = false).
Proof. exact get_node_counts. Qed.
Print Assumptions C20_lookup.

(* one loader invocation: successes + failures grows by exactly one; not-found counts as a
   success, error and panic as failures; lookups untouched *)
Theorem C20_load : forall c s k old oc ir now,
  loads (fst (fst (run_load c s k old oc ir now))) = loads s + 1 /\
  lookups (fst (fst (run_load c s k old oc ir now))) = lookups s /\
  evictions (cst (fst (fst (run_load c s k old oc ir now)))) = evictions (cst s) /\
  (lfail (cst (fst (fst (run_load c s k old oc ir now)))) = lfail (cst s) + 1 <-> outcome_failed oc = true).
Proof. exact run_load_counts. Qed.
Print Assumptions C20_load.

(* quiet reads, explicit refresh submission, SetIfAbsent, Invalidate, deadline setters and
   iteration change no counter *)
Theorem C20_quiet : forall c s k v d ks now,
  cst (fst (step c s (OGetEntryQuietly k now))) = cst s /\
  cst (fst (step c s (ORefresh k now))) = cst s /\
  cst (fst (step c s (OBulkRefresh ks now))) = cst s /\
  cst (fst (step c s (OSetIfAbsent k v now))) = cst s /\
  cst (fst (step c s (OSet k v now))) = cst s /\
  cst (fst (step c s (OInvalidate k now))) = cst s /\
  cst (fst (step c s (OSetExpiresAfter k d now))) = cst s /\
  cst (fst (step c s (OSetRefreshableAfter k d now))) = cst s /\
  cst (fst (step c s (OIter now))) = cst s.
Proof.
  intros c s k v d ks now. cbn [step fst].
  split; [reflexivity|]. split.
  { unfold do_refresh. destruct (negb (with_refr c)); reflexivity. }
  split.
  { unfold do_bulk_refresh. destruct (negb (with_refr c)); reflexivity. }
  split.
  { unfold do_set. destruct (true && _).
    - destruct (lookup k (cmap s)); reflexivity.
    - destruct (atomic_set c k v (lookup k (cmap s)) NoCall now). reflexivity. }
  split.
  { unfold do_set. cbn [andb]. destruct (atomic_set c k v (lookup k (cmap s)) NoCall now). reflexivity. }
  split; [reflexivity|]. split.
  { unfold do_set_expires_after. destruct (negb (with_exp c) || (d <=? 0)); [reflexivity|].
    destruct (lookup k (cmap s)) as [n|]; [|reflexivity]. destruct (has_expired c n now); reflexivity. }
  split; [|reflexivity].
  unfold do_set_refreshable_after. destruct (negb (with_refr c) || (d <=? 0)); [reflexivity|].
  destruct (lookup k (cmap s)) as [n|]; [|reflexivity]. destruct (negb _); reflexivity.
Qed.
Print Assumptions C20_quiet.

(* evictions: counted exactly at the automatic removals (Overflow and Expiration), with the
   removed entry's weight; a rejected removal counts nothing *)
Theorem C20_evictions : forall c s k v cs now,
  let s' := fst (step c s (OAuto k v cs now)) in
  (r_ret (snd (step c s (OAuto k v cs now))) = RNone ->
     evictions (cst s') = evictions (cst s) + 1 /\
     exists n, lookup k (cmap s) = Some n /\ evweight (cst s') = evweight (cst s) + nweight n) /\
  (r_ret (snd (step c s (OAuto k v cs now))) <> RNone -> cst s' = cst s) /\
  lookups s' = lookups s /\ loads s' = loads s.
Proof.
  intros c s k v cs now. cbn [step]. unfold do_auto, lookups, loads.
  destruct (lookup k (cmap s)) as [n|].
  - destruct ((nval n =? v) && _); cbn.
    + split; [intros _; split; [reflexivity|eexists; split; reflexivity]|]. split; [intros H; exfalso; apply H; reflexivity|]. auto.
    + split; [intros H; discriminate H|]. auto.
  - cbn. split; [intros H; discriminate H|]. auto.
Qed.
Print Assumptions C20_evictions.

(* the two-phase computes count once (in their read phase) and Compute counts once *)
Theorem C20_compute_counts_once : forall c s k f now,
  lookups (fst (do_compute c s k f now true)) = lookups s + 1 \/
  (exists r, snd (do_compute c s k f now true) = r /\ r_ret r = RPanicked /\ lookups (fst (do_compute c s k f now true)) = lookups s).
Proof.
  intros c s k f now. unfold do_compute, lookups.
  destruct (f _ _) as [|v []].
  - right. eexists. split; [reflexivity|]. split; reflexivity.
  - left. destruct (lookup k (cmap s)) as [n0|]; [destruct (has_expired c n0 now)|]; sts; lia.
  - left. destruct (atomic_set c k v (lookup k (cmap s)) NoCall now) as [nn evs].
    destruct (lookup k (cmap s)) as [n0|]; [destruct (has_expired c n0 now)|]; sts; lia.
  - left. destruct (lookup k (cmap s)) as [n0|]; [destruct (has_expired c n0 now)|]; sts; lia.
  - right. eexists. split; [reflexivity|]. split; reflexivity.
Qed.
Print Assumptions C20_compute_counts_once.

Theorem C20_compute_phase2_silent : forall c s k f now,
  lookups (fst (do_compute c s k f now false)) = lookups s.
Proof.
  intros c s k f now. unfold do_compute, lookups.
  destruct (f _ _) as [|v []]; try reflexivity;
    try (destruct (lookup k (cmap s)) as [n0|]; [destruct (has_expired c n0 now)|]; reflexivity);
    destruct (atomic_set c k v (lookup k (cmap s)) NoCall now) as [nn evs]; reflexivity.
Qed.
Print Assumptions C20_compute_phase2_silent.

Example C20_nonvacuous :
  let c := mkCfg false false false false (fun _ _ => 1) (fun _ _ c => c) (fun _ _ _ c => c) (fun _ _ c => c)
                 (fun _ _ c => c) (fun _ _ _ c => c) (fun _ _ _ c => c) (fun _ _ c => c) in
  let s := fst (run c cstate0 [OSet 1 11 0; OGetIfPresent 1 0; OGetIfPresent 2 0; OGet 2 (LError 5) 0 0;
                               OBulkGet [1; 2; 2; 3] (BMap [(2, 7)]) 0 0]) in
  (hits (cst s), misses (cst s), lsucc (cst s), lfail (cst s)) = (2, 4, 1, 1).
Proof. vm_compute. reflexivity. Qed.

(* ---- the striped counter behind every statistic (internal/xsync/adder.go), small-step model, any
   number of threads, all schedules, every choice of probe indices ---- *)

(* once no Add is in flight the stripes sum (mod 2^64) to the deltas of all Adds invoked, each
   applied exactly once: no increment lost to a failed CAS, none applied twice *)
Theorem C20_adder_exact_when_quiescent : forall n k sch,
  (0 < n)%nat ->
  let a := arun sch (adder_init n k) in
  quiescent a ->
  wrapu (sumZ (cells a)) = wrapu (sumZ (deltas (started a))) /\
  length (applied a) = length (started a) /\
  sumZ (deltas (applied a)) = sumZ (deltas (started a)).
Proof. exact adder_quiescent. Qed.
Print Assumptions C20_adder_exact_when_quiescent.

(* at every moment: stripes = applied deltas; invoked = applied + in flight (sums and counts) *)
Theorem C20_adder_accounting : forall n k sch,
  (0 < n)%nat -> AInv (arun sch (adder_init n k)).
Proof. intros n k sch Hn. apply adder_inv, adder_init_inv, Hn. Qed.
Print Assumptions C20_adder_accounting.

(* a snapshot (Value) that overlaps Adds returns something between the total when it was invoked and
   the total when it returned; totals below 2^64, non-negative deltas (what stats.Counter does) *)
Theorem C20_snapshot_bounds : forall n k sch t v st,
  (0 < n)%nat ->
  let a := arun sch (adder_init n k) in
  NoWrap a -> nth t (aths a) TIdle = TVal v st ->
  sumZ st <= v <= sumZ (cells a).
Proof. exact scan_bounds. Qed.
Print Assumptions C20_snapshot_bounds.

(* counters never decrease: a snapshot invoked after another one returned is not smaller, whatever
   Adds and snapshots overlap either of them *)
Theorem C20_counters_never_decrease : forall n k sch1 sch2 sch3 t1 t2 v1 st1 v2 st2,
  (0 < n)%nat ->
  let a1 := arun sch1 (adder_init n k) in
  let a2 := arun sch2 a1 in
  let a3 := astep a2 (t2, IScan) in
  let a4 := arun sch3 a3 in
  NoWrap a4 ->
  nth t1 (aths a1) TIdle = TVal v1 st1 ->
  (t2 < length (aths a2))%nat -> is_running (nth t2 (aths a2) TIdle) = false ->
  no_restart t2 sch3 ->
  nth t2 (aths a4) TIdle = TVal v2 st2 ->
  v1 <= v2.
Proof. exact value_never_decreases. Qed.
Print Assumptions C20_counters_never_decrease.

Example C20_adder_nonvacuous :
  cells adder_example_run = [5; 7] /\ nth 2 (aths adder_example_run) TIdle = TVal 7 [0; 0] /\
  deltas (started adder_example_run) = [5; 7] /\
  forallb (fun x => negb (is_running x)) (aths adder_example_run) = true.
Proof. exact adder_example. Qed.
