(* r_ring.ml — replays a "ring" engine trace on the extracted small-step ring model: every macro
   step of the implementation (a whole add, an add parked between CAS and store, its resumption, a
   whole drain) is expanded into the model's atomic steps. *)
open Util
module M = Model

let run (path : string) : unit =
  let r = ref (M.ring_init M.Z0 M.O) in
  let z = mz_of_string in
  let prod_state g = List.nth (M.rprods !r) g in
  let step_prod g payload = r := M.ring_step !r (nat_of_int (g + 1), payload) in
  let step_cons () = r := M.ring_step !r (M.O, M.Z0) in
  let rec run_prod_until g pred fuel =
    if fuel = 0 then false
    else if pred (prod_state g) then true
    else (step_prod g M.Z0; run_prod_until g pred (fuel - 1)) in
  iter_lines path (fun ln toks ->
      match toks with
      | [ "N"; first; nprod ] -> r := M.ring_init (z first) (nat_of_int (int_of_string nprod)); count "rings"
      | [ "A"; g; n; st ] ->
          let g = int_of_string g in
          step_prod g (z n);
          count "adds";
          let fin = run_prod_until g (function M.PDone _ -> true | _ -> false) 10 in
          (match prod_state g with
           | M.PDone s when fin -> if Util.string_of_mz s <> st then mismatch "ring" ln "add status model=%s impl=%s" (Util.string_of_mz s) st
           | _ -> mismatch "ring" ln "add did not complete in the model")
      | [ "AP"; g; n ] ->
          let g = int_of_string g in
          step_prod g (z n);
          count "adds_parked";
          let ok = run_prod_until g (function M.PStore _ | M.PDone _ -> true | _ -> false) 10 in
          (match prod_state g with
           | M.PStore _ when ok -> ()
           | _ -> mismatch "ring" ln "the implementation reached the slot store but the model's add did not win an index")
      | [ "AR"; g; st ] ->
          let g = int_of_string g in
          (match prod_state g with
           | M.PStore _ -> step_prod g M.Z0
           | _ -> mismatch "ring" ln "resume of a producer that is not at its store in the model");
          (match prod_state g with
           | M.PDone s -> if Util.string_of_mz s <> st then mismatch "ring" ln "resumed add status model=%s impl=%s" (Util.string_of_mz s) st
           | _ -> mismatch "ring" ln "resumed add did not complete")
      | "D" :: n :: vals ->
          count "drains";
          let before = List.length (M.delivered !r) in
          step_cons ();
          let fuel = ref 200 in
          while (match M.rcons !r with M.CIdle -> false | _ -> true) && !fuel > 0 do step_cons (); decr fuel done;
          let d = M.delivered !r in
          let rec drop k l = if k = 0 then l else match l with [] -> [] | _ :: t -> drop (k - 1) t in
          let got = List.map Util.string_of_mz (drop before d) in
          if got <> vals || List.length got <> int_of_string n then
            mismatch "ring" ln "drained model=[%s] impl=[%s]" (String.concat " " got) (String.concat " " vals);
          (* property: delivered is a prefix of recorded *)
          let rec is_prefix a b = match a, b with [], _ -> true | x :: a', y :: b' -> x = y && is_prefix a' b' | _ -> false in
          if not (is_prefix (List.map Util.string_of_mz d) (List.map Util.string_of_mz (M.recorded !r))) then
            propfail "C17" "delivered-not-prefix" ln "delivered entries are not a prefix of the recorded ones"
      | "S" :: h :: t :: bits ->
          count "states_compared";
          if Util.string_of_mz (M.rhead !r) <> h then mismatch "ring" ln "head model=%s impl=%s" (Util.string_of_mz (M.rhead !r)) h;
          if Util.string_of_mz (M.rtail !r) <> t then mismatch "ring" ln "tail model=%s impl=%s" (Util.string_of_mz (M.rtail !r)) t;
          let mb = List.map (fun b -> if b then "1" else "0") (M.slots_occupied !r) in
          if mb <> bits then mismatch "ring" ln "slot occupancy model=[%s] impl=[%s]" (String.concat "" mb) (String.concat "" bits);
          (match int_of_string_opt t, int_of_string_opt h with
           | Some t, Some h -> if t - h > 16 || t - h < 0 then propfail "C17" "over-capacity" ln "tail - head = %d" (t - h)
           | _ -> ())
      | _ -> mismatch "ring" ln "unparsed trace line")
