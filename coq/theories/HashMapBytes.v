(* HashMapBytes.v — byte algebra of the meta words of the hash table (C15): setByte / getByte /
   broadcast, and the SWAR marks restricted to the five slot bytes. *)
From Otter Require Import Base HashMap HashMapFacts.
From Coq Require Import ZifyBool.
Local Open Scope Z_scope.
Ltac Zify.zify_post_hook ::= idtac.

Definition byte (w i : Z) : Z := (w / 2 ^ (8 * i)) mod 256.

Lemma byte_land_shiftr w i : 0 <= i -> byte w i = Z.land (Z.shiftr w (8 * i)) (Z.ones 8).
Proof. intros Hi. unfold byte. rewrite Z.shiftr_div_pow2 by lia. rewrite Z.land_ones by lia. reflexivity. Qed.

Lemma getByte_byte w i : 0 <= i -> getByte w i = byte w i.
Proof.
  intros Hi. unfold getByte. rewrite byte_land_shiftr by assumption.
  rewrite Z.shiftl_mul_pow2 by lia. change (2 ^ 3) with 8. rewrite (Z.mul_comm i 8). reflexivity.
Qed.

Lemma byte_range w i : 0 <= byte w i < 256.
Proof. unfold byte. apply Z.mod_pos_bound. lia. Qed.

Lemma byte_bits w i m : 0 <= i -> 0 <= m ->
  Z.testbit (byte w i) m = (m <? 8) && Z.testbit w (8 * i + m).
Proof.
  intros Hi Hm. rewrite byte_land_shiftr by assumption. rewrite Z.land_spec, Z.shiftr_spec by assumption.
  rewrite Z.testbit_ones_nonneg by lia. rewrite andb_comm. f_equal. f_equal. lia.
Qed.

(* two bytes are equal when their 8 bits are *)
Lemma byte_eq a b : 0 <= a < 256 -> 0 <= b < 256 ->
  (forall m, 0 <= m < 8 -> Z.testbit a m = Z.testbit b m) -> a = b.
Proof.
  intros Ha Hb H. apply Z.bits_inj'. intros m Hm.
  destruct (Z_lt_ge_dec m 8) as [Hlt|Hge]; [apply H; lia|].
  assert (forall x, 0 <= x < 256 -> Z.testbit x m = false) as Hhi.
  { intros x Hx. destruct (Z.eq_dec x 0) as [->|Hne]; [apply Z.testbit_0_l|].
    apply Z.bits_above_log2; [lia|]. assert (Z.log2 x < 8) by (apply Z.log2_lt_pow2; [lia|change (2 ^ 8) with 256; lia]). lia. }
  rewrite !Hhi by assumption. reflexivity.
Qed.

Lemma small_bits_high x m : 0 <= x < 256 -> 8 <= m -> Z.testbit x m = false.
Proof.
  intros Hx Hm. destruct (Z.eq_dec x 0) as [->|Hne]; [apply Z.testbit_0_l|].
  apply Z.bits_above_log2; [lia|]. assert (Z.log2 x < 8) by (apply Z.log2_lt_pow2; [lia|change (2 ^ 8) with 256; lia]). lia.
Qed.

Lemma byte_setByte w b i j :
  0 <= b < 256 -> 0 <= i < 8 -> 0 <= j < 8 ->
  byte (setByte w b i) j = if j =? i then b else byte w j.
Proof.
  intros Hb Hi Hj.
  apply byte_eq; [apply byte_range|destruct (j =? i); [assumption|apply byte_range]|].
  intros m Hm. rewrite byte_bits by lia. replace (m <? 8) with true by lia. cbn [andb].
  unfold setByte. rewrite (Z.shiftl_mul_pow2 i 3) by lia. change (2 ^ 3) with 8. rewrite (Z.mul_comm i 8).
  rewrite Z.lor_spec, Z.land_spec, Z.lxor_spec.
  change (two64 - 1) with (Z.ones 64). rewrite (Z.testbit_ones_nonneg 64) by lia.
  replace (8 * j + m <? 64) with true by lia.
  destruct (Z_lt_ge_dec (8 * j + m) (8 * i)) as [Hlt|Hge].
  - rewrite !Z.shiftl_spec_low by lia. cbn [xorb orb]. rewrite andb_true_r.
    replace (j =? i) with false by lia. rewrite byte_bits by lia. replace (m <? 8) with true by lia.
    rewrite orb_false_r. reflexivity.
  - rewrite !Z.shiftl_spec by lia.
    destruct (Z.eq_dec j i) as [->|Hne].
    + replace (i =? i) with true by lia. replace (8 * i + m - 8 * i) with m by lia.
      change 255 with (Z.ones 8). rewrite Z.testbit_ones_nonneg by lia. replace (m <? 8) with true by lia.
      cbn [xorb]. rewrite andb_false_r. reflexivity.
    + replace (j =? i) with false by lia.
      change 255 with (Z.ones 8). rewrite Z.testbit_ones_nonneg by lia.
      replace (8 * j + m - 8 * i <? 8) with false by lia. cbn [xorb]. rewrite andb_true_r.
      rewrite (small_bits_high b) by lia. rewrite orb_false_r.
      rewrite byte_bits by lia. replace (m <? 8) with true by lia. reflexivity.
Qed.

Lemma bits_high_zero a n m : 0 <= a < 2 ^ n -> n <= m -> Z.testbit a m = false.
Proof.
  intros Ha Hm. destruct (Z_lt_ge_dec n 0) as [Hn|Hn].
  - rewrite Z.pow_neg_r in Ha by lia. lia.
  - rewrite <- (Z.mod_small a (2 ^ n)) by lia. apply Z.mod_pow2_bits_high. lia.
Qed.

Lemma lt_pow2_of_bits x n : 0 <= n -> 0 <= x -> (forall m, n <= m -> Z.testbit x m = false) -> x < 2 ^ n.
Proof.
  intros Hn Hx H.
  assert (E : x mod 2 ^ n = x).
  { apply Z.bits_inj'. intros m Hm. destruct (Z_lt_ge_dec m n) as [Hlt|Hge].
    - rewrite Z.mod_pow2_bits_low by lia. reflexivity.
    - rewrite Z.mod_pow2_bits_high by lia. symmetry. apply H. lia. }
  assert (0 < 2 ^ n) by (apply Z.pow_pos_nonneg; lia).
  pose proof (Z.mod_pos_bound x (2 ^ n) ltac:(lia)). lia.
Qed.

Lemma lor_lt_pow2 a b n : 0 <= n -> 0 <= a < 2 ^ n -> 0 <= b < 2 ^ n -> 0 <= Z.lor a b < 2 ^ n.
Proof.
  intros Hn Ha Hb. split; [apply Z.lor_nonneg; lia|].
  apply lt_pow2_of_bits; [assumption|apply Z.lor_nonneg; lia|].
  intros m Hm. rewrite Z.lor_spec. rewrite (bits_high_zero a n m), (bits_high_zero b n m) by lia. reflexivity.
Qed.

Lemma lxor_lt_pow2 a b n : 0 <= n -> 0 <= a < 2 ^ n -> 0 <= b < 2 ^ n -> 0 <= Z.lxor a b < 2 ^ n.
Proof.
  intros Hn Ha Hb. split; [apply Z.lxor_nonneg; lia|].
  apply lt_pow2_of_bits; [assumption|apply Z.lxor_nonneg; lia|].
  intros m Hm. rewrite Z.lxor_spec. rewrite (bits_high_zero a n m), (bits_high_zero b n m) by lia. reflexivity.
Qed.

Lemma land_lt_pow2 a b n : 0 <= n -> 0 <= a < 2 ^ n -> 0 <= Z.land a b < 2 ^ n.
Proof.
  intros Hn Ha. split; [apply Z.land_nonneg; lia|].
  apply lt_pow2_of_bits; [assumption|apply Z.land_nonneg; lia|].
  intros m Hm. rewrite Z.land_spec. rewrite (bits_high_zero a n m) by lia. reflexivity.
Qed.

Lemma setByte_range w b i : 0 <= w < two64 -> 0 <= b < 256 -> 0 <= i < 8 -> 0 <= setByte w b i < two64.
Proof.
  intros Hw Hb Hi. unfold setByte. change two64 with (2 ^ 64) in *. apply lor_lt_pow2; [lia| |].
  - apply land_lt_pow2; lia.
  - rewrite (Z.shiftl_mul_pow2 i 3) by lia. change (2 ^ 3) with 8.
    rewrite Z.shiftl_mul_pow2 by lia.
    assert (2 ^ (i * 8) <= 2 ^ 56) by (apply Z.pow_le_mono_r; lia).
    assert (0 < 2 ^ (i * 8)) by (apply Z.pow_pos_nonneg; lia).
    change (2 ^ 64) with (256 * 2 ^ 56). nia.
Qed.

(* ------------------------------------------------------------------ *)
(* finite sweeps *)

Lemma range_forall (P : Z -> bool) n :
  forallb P (map Z.of_nat (seq 0 n)) = true -> forall x, 0 <= x < Z.of_nat n -> P x = true.
Proof.
  intros H x Hx. rewrite forallb_forall in H. apply H.
  rewrite in_map_iff. exists (Z.to_nat x). split; [lia|]. apply in_seq. lia.
Qed.

Lemma byte_broadcast b j : 0 <= b < 128 -> 0 <= j < 8 -> byte (broadcast b) j = b.
Proof.
  intros Hb Hj.
  assert (H : forallb (fun b => forallb (fun j => byte (broadcast b) j =? b) (map Z.of_nat (seq 0 8)))
                (map Z.of_nat (seq 0 128)) = true) by (vm_compute; reflexivity).
  pose proof (range_forall _ _ H b ltac:(lia)) as H1. cbv beta in H1.
  pose proof (range_forall _ _ H1 j ltac:(lia)) as H2. cbv beta in H2. lia.
Qed.

Lemma broadcast_range b : 0 <= broadcast b < two64.
Proof. unfold broadcast. apply wrapu_range. Qed.

Lemma byte_defaultMeta j : 0 <= j < 8 -> byte defaultMeta j = 128.
Proof.
  intros Hj.
  assert (H : forallb (fun j => byte defaultMeta j =? 128) (map Z.of_nat (seq 0 8)) = true) by (vm_compute; reflexivity).
  pose proof (range_forall _ _ H j ltac:(lia)) as H1. cbv beta in H1. lia.
Qed.

Lemma defaultMeta_range : 0 <= defaultMeta < two64.
Proof. unfold defaultMeta, two64. lia. Qed.

Lemma h2_range x : 0 <= h2 x < 128.
Proof.
  unfold h2. change 127 with (Z.ones 7). rewrite Z.land_ones by lia. change (2 ^ 7) with 128.
  apply Z.mod_pos_bound. lia.
Qed.

(* a meta byte equal to the hash byte becomes a zero byte of meta xor broadcast(hash byte) *)
Lemma byte_xor_match meta h i :
  0 <= h < 128 -> 0 <= i < 8 -> byte meta i = h -> byte (Z.lxor meta (broadcast h)) i = 0.
Proof.
  intros Hh Hi E. unfold byte. rewrite lxor_byte by lia. fold (byte meta i). fold (byte (broadcast h) i).
  rewrite byte_broadcast by assumption. rewrite E. apply Z.lxor_nilpotent.
Qed.

(* ------------------------------------------------------------------ *)
(* the marks restricted to the five slot bytes *)

Definition M8 : Z := 0x8080808080808080.
Definition M5 : Z := 0x8080808080.

Lemma land_pow2 a k : 0 <= k -> Z.land a (2 ^ k) = if Z.testbit a k then 2 ^ k else 0.
Proof.
  intros Hk. apply Z.bits_inj'. intros n Hn. rewrite Z.land_spec. rewrite Z.pow2_bits_eqb by assumption.
  destruct (Z.eqb_spec k n) as [->|Hne].
  - destruct (Z.testbit a n); [rewrite Z.pow2_bits_true by lia; reflexivity|rewrite Z.testbit_0_l; reflexivity].
  - rewrite andb_false_r. destruct (Z.testbit a k); [rewrite Z.pow2_bits_false by lia; reflexivity|rewrite Z.testbit_0_l; reflexivity].
Qed.

Definition mk5 (s0 s1 s2 s3 s4 : bool) : Z :=
  Z.lor (if s0 then 2 ^ 7 else 0) (Z.lor (if s1 then 2 ^ 15 else 0) (Z.lor (if s2 then 2 ^ 23 else 0)
    (Z.lor (if s3 then 2 ^ 31 else 0) (if s4 then 2 ^ 39 else 0)))).

Lemma land_M5 a :
  Z.land a M5 = mk5 (Z.testbit a 7) (Z.testbit a 15) (Z.testbit a 23) (Z.testbit a 31) (Z.testbit a 39).
Proof.
  change M5 with (Z.lor (2 ^ 7) (Z.lor (2 ^ 15) (Z.lor (2 ^ 23) (Z.lor (2 ^ 31) (2 ^ 39))))).
  rewrite !Z.land_lor_distr_r. rewrite !land_pow2 by lia. reflexivity.
Qed.

Definition sel (s : bool) (i : Z) : list Z := if s then [i] else [].

Lemma marked_mk5 s0 s1 s2 s3 s4 :
  marked_indices 8 (mk5 s0 s1 s2 s3 s4) = sel s0 0 ++ sel s1 1 ++ sel s2 2 ++ sel s3 3 ++ sel s4 4.
Proof. destruct s0, s1, s2, s3, s4; vm_compute; reflexivity. Qed.

Lemma first_mk5 s0 s1 s2 s3 s4 :
  firstMarkedByteIndex (mk5 s0 s1 s2 s3 s4) =
  if s0 then 0 else if s1 then 1 else if s2 then 2 else if s3 then 3 else if s4 then 4 else 8.
Proof. destruct s0, s1, s2, s3, s4; vm_compute; reflexivity. Qed.

Lemma mk5_zero s0 s1 s2 s3 s4 :
  (mk5 s0 s1 s2 s3 s4 =? 0) = negb (s0 || s1 || s2 || s3 || s4).
Proof. destruct s0, s1, s2, s3, s4; vm_compute; reflexivity. Qed.

Lemma markedw_mk5 X :
  Z.land (markZeroBytes X) metaMask =
  mk5 (Z.testbit (markZeroBytes X) 7) (Z.testbit (markZeroBytes X) 15) (Z.testbit (markZeroBytes X) 23)
      (Z.testbit (markZeroBytes X) 31) (Z.testbit (markZeroBytes X) 39).
Proof.
  assert (E : markZeroBytes X = Z.land (markZeroBytes X) M8).
  { unfold markZeroBytes. change 0x8080808080808080 with M8. rewrite <- (Z.land_assoc _ M8 M8). rewrite Z.land_diag. reflexivity. }
  rewrite E at 1. rewrite <- Z.land_assoc. change (Z.land M8 metaMask) with M5. apply land_M5.
Qed.

Lemma emptyw_mk5 meta :
  Z.land meta (Z.land defaultMeta metaMask) =
  mk5 (Z.testbit meta 7) (Z.testbit meta 15) (Z.testbit meta 23) (Z.testbit meta 31) (Z.testbit meta 39).
Proof. change (Z.land defaultMeta metaMask) with M5. apply land_M5. Qed.

(* bit 7 of a slot byte: set for the empty marker, clear for a hash byte *)
Lemma top_bit_byte meta i : 0 <= i -> Z.testbit meta (8 * i + 7) = Z.testbit (byte meta i) 7.
Proof. intros Hi. rewrite byte_bits by lia. reflexivity. Qed.

Lemma top_bit_small h : 0 <= h < 128 -> Z.testbit h 7 = false.
Proof. intros Hh. apply (bits_high_zero h 7 7); [change (2 ^ 7) with 128; lia|lia]. Qed.
