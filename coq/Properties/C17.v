(* C17 — The lossy read buffer may drop reads but never corrupts them.
   Model: Ring.v — one step per atomic access of ring.add / ring.drainTo; any number of producer
   threads, one consumer; a schedule is an arbitrary list of (thread, payload).
   Striped.v — the table of rings that grows under contention (stripe creation, table creation and
   table expansion under the busy spin lock), one step per access to shared state by an Add call;
   rings are abstract there (lists of recorded elements; whether ring.add succeeds, loses its CAS or
   finds the ring full is an input).  Tied to the code by the "stripe" engine (macro-step schedules
   replayed on the model). *)
From Otter Require Import Base Ring RingProofs Striped StripedProofs StripedDrain.

(* the protocol invariant holds after every schedule, from a fresh ring, for any number of producers *)
Theorem C17_inv : forall first nprod sched, inv (ring_exec (ring_init first nprod) sched).
Proof. intros. apply ring_exec_inv. apply inv_init. Qed.
Print Assumptions C17_inv.

(* what the consumer handed to the policy is a prefix of what was recorded (ring order): nothing
   that was not recorded, nothing twice *)
Theorem C17_delivered_prefix : forall first nprod sched,
  let r := ring_exec (ring_init first nprod) sched in exists rest, recorded r = delivered r ++ rest.
Proof. intros. apply inv_delivered_prefix. apply C17_inv. Qed.
Print Assumptions C17_delivered_prefix.

(* never more than the fixed capacity between head and tail *)
Theorem C17_capacity : forall first nprod sched,
  let r := ring_exec (ring_init first nprod) sched in 0 <= rtail r - rhead r <= 16.
Proof. intros. apply inv_capacity. apply C17_inv. Qed.
Print Assumptions C17_capacity.

(* a producer that reports Success has its element recorded; Failed / Full record nothing:
   the recorded list grows only at a successful tail CAS *)
Theorem C17_recorded_iff_cas : forall r j payload,
  recorded (prod_step r j payload) = recorded r \/
  exists n h, nth j (rprods r) (PDone 0) = PCas n h (rtail r) /\ recorded (prod_step r j payload) = recorded r ++ [n].
Proof.
  intros r j payload. unfold prod_step. destruct (nth j (rprods r) (PDone 0)) as [|n|n h|n h t|n t|st] eqn:E; cbn; auto.
  - destruct (rtail r - h >=? RSIZE); cbn; auto.
  - destruct (rtail r =? t) eqn:Et; cbn; auto. right. exists n, h. apply Z.eqb_eq in Et. subst t. auto.
Qed.
Print Assumptions C17_recorded_iff_cas.

(* once no producer is between its CAS and its store, one drain delivers every recorded element *)
Theorem C17_quiescent_drain : forall first nprod sched,
  let r := ring_exec (ring_init first nprod) sched in
  quiescent r -> rcons r = CIdle ->
  exists n, let r' := iter_cons n r in rcons r' = CIdle /\ delivered r' = recorded r /\ rhead r' = rtail r.
Proof. intros first nprod sched r Q C. apply quiescent_drain; [apply C17_inv|assumption|assumption]. Qed.
Print Assumptions C17_quiescent_drain.

(* non-vacuity: two producers race for the same index, one loses the CAS; the consumer stops at
   the unpublished slot and later delivers everything *)
Example C17_nonvacuous :
  let ev (t : nat) (x : Z) : nat * Z := (t, x) in
  let r0 := ring_init 100 2 in
  (* both producers reach the CAS for index 1: producer 1 wins, producer 2 fails *)
  let r1 := ring_exec r0 [ev 1%nat 7; ev 2%nat 8; ev 1%nat 0; ev 2%nat 0; ev 1%nat 0; ev 2%nat 0; ev 1%nat 0; ev 2%nat 0] in
  (* consumer: delivers 100, stops at the unpublished slot of 7 *)
  let r2 := ring_exec r1 [ev 0%nat 0; ev 0%nat 0; ev 0%nat 0; ev 0%nat 0; ev 0%nat 0; ev 0%nat 0] in
  (* producer 1 publishes; a second drain delivers 7 *)
  let r3 := ring_exec r2 [ev 1%nat 0; ev 0%nat 0; ev 0%nat 0; ev 0%nat 0; ev 0%nat 0; ev 0%nat 0; ev 0%nat 0; ev 0%nat 0; ev 0%nat 0] in
  recorded r1 = [100; 7] /\ nth 1 (rprods r1) PIdle = PDone (-1) /\ delivered r2 = [100] /\ delivered r3 = [100; 7].
Proof. vm_compute. repeat split. Qed.


(* ---- the striped table, for any number of concurrent Add calls, any schedule, any inputs ---- *)

(* no stripe is ever lost: every ring that was ever created is in the current table, so a drain visits it *)
Theorem C17_striped_no_lost_ring : forall maxl elems idxs sched r,
  let s := srun (sinit maxl elems idxs) sched in
  (r < length (rings s))%nat -> In r (visible_rings s).
Proof. intros maxl elems idxs sched r s Hr. apply no_lost_ring; [apply SInv_run; apply SInv_init|exact Hr]. Qed.
Print Assumptions C17_striped_no_lost_ring.

(* ... and in exactly one cell of it: a drain visits every ring once *)
Theorem C17_striped_rings_once : forall maxl elems idxs sched,
  NoDup (visible_rings (srun (sinit maxl elems idxs) sched)).
Proof. intros. apply visible_nodup. apply SInv_run. apply SInv_init. Qed.
Print Assumptions C17_striped_rings_once.

(* the busy spin lock admits one Add at a time into the sections that mutate the table *)
Theorem C17_striped_mutex : forall maxl elems idxs sched,
  (scnt crit (sths (srun (sinit maxl elems idxs) sched)) <= 1)%nat.
Proof. intros. apply busy_mutex. apply SInv_run. apply SInv_init. Qed.
Print Assumptions C17_striped_mutex.

(* an element is recorded in the rings exactly once if its Add succeeded (or is about to return
   Success), and not at all if it failed, found its ring full, or is still running *)
Theorem C17_striped_recorded_iff_success : forall maxl elems idxs sched j t,
  NoDup elems -> length idxs = length elems ->
  let s := srun (sinit maxl elems idxs) sched in
  nth_error (sths s) j = Some t ->
  zcount (elem t) (concat (rings s)) = b2n (placed t).
Proof. exact recorded_iff_success. Qed.
Print Assumptions C17_striped_recorded_iff_success.

(* the table and the rings together: DrainTo visits the rings of the current table; when it takes from
   each of them everything recorded there (what C17's ring theorems establish for one ring at quiescence),
   it delivers, over the whole buffer, every element whose Add succeeded exactly once and nothing else —
   in every reachable state of the table, for every schedule of the Adds *)
Theorem C17_striped_drain_delivers_exactly_the_recorded : forall maxl elems idxs sched j t,
  NoDup elems -> length idxs = length elems ->
  let s := srun (sinit maxl elems idxs) sched in
  nth_error (sths s) j = Some t ->
  zcount (elem t) (drain_all s) = b2n (placed t).
Proof. exact drain_delivers_exactly_the_recorded. Qed.
Print Assumptions C17_striped_drain_delivers_exactly_the_recorded.

(* non-vacuity: two Adds on an empty buffer; the first creates the table, the second (probing the same
   cell) records into the same ring; both succeed and both elements are in the one visible ring *)
Example C17_striped_instance :
  let s := srun (sinit 4 [7; 8]%Z [5; 9]%nat)
                [(0,0); (0,0); (0,0); (0,0); (0,0); (1,0); (1,0); (1,0)]%nat in
  map spc_ (sths s) = [SDone SrSuccess; SDone SrSuccess] /\ rings s = [[7; 8]%Z] /\ visible_rings s = [0%nat].
Proof. vm_compute. repeat split. Qed.
