(* Extract.v — extraction of every executable model to OCaml.
   Directives in force: those of ExtrOcamlBasic only (bool, option, unit, list, prod,
   sumbool, sumor to native OCaml types; fst/snd/andb/orb... inlined).
   Z, positive, N, nat stay the extracted inductive types (2^64 does not fit OCaml's int).
   No Extract Constant / Extract Inductive of our own. *)
Require Extraction.
Require Import ExtrOcamlBasic.
From Otter Require Import Base Sketch Seq Spec Policy Wheel Maint Ring Mpsc HashMap Load Drain DrainMacro Striped HashMapConc Adder.
(* run with cwd = /verif/ocaml: the extracted files land in the current directory *)
Extraction "model.ml"
  Base.wrapu Base.wraps Base.satadd Base.abs64
  Sketch.spread Sketch.rehash Sketch.roundup64 Sketch.roundup32
  Sketch.sketch0 Sketch.tbl Sketch.sample Sketch.bmask Sketch.ssize Sketch.inited Sketch.frequency Sketch.increment Sketch.reset Sketch.ensure_capacity Sketch.accept
  Seq.step Seq.cstate0 Seq.lookup Seq.get_node_quietly Seq.node_to_entry Seq.has_expired Seq.live_pairs
  Seq.cmap Seq.cst Seq.mkState Seq.upd_map Seq.remove Spec.spec_step Spec.purge_st
  Maint.mstate0 Maint.m_new Maint.m_retire Maint.m_read Maint.m_push Maint.m_maintenance Maint.m_set_maximum Maint.m_init_sketch
  Maint.pol Maint.whl Maint.rbuf Maint.wbuf Maint.m_run_tasks
  Policy.qwin Policy.qprob Policy.qprot Policy.maxi Policy.wsize Policy.wmax Policy.wwsize Policy.pmax Policy.pwsize Policy.sk Policy.store Policy.node_of
  Policy.pstate Policy.pqueue Policy.pweight Policy.pkey
  Wheel.wtime Wheel.wlevels Wheel.tid Wheel.tkey Wheel.wheel0 Wheel.wheel_add Wheel.wheel_delete Wheel.wheel_delete_expired Wheel.wheel_pos
  Ring.ring_init Ring.ring_step Ring.rprods Ring.rcons Ring.rhead Ring.rtail Ring.delivered Ring.recorded Ring.slots_occupied
  Mpsc.mpsc_new Mpsc.push_reserve Mpsc.push_publish Mpsc.try_push Mpsc.try_pop Mpsc.mpsc_size Mpsc.mpsc_capacity
  Mpsc.pidx Mpsc.cidx Mpsc.plimit Mpsc.pmask Mpsc.cmask Mpsc.pbuf Mpsc.cbuf Mpsc.buf_len
  HashMap.hmap_new HashMap.hmap_get HashMap.hmap_compute HashMap.hmap_range HashMap.hmap_clear HashMap.hmap_layout HashMap.hsize HashMap.hgen HashMap.htlen
  HashMap.h1 HashMap.h2 HashMap.broadcast HashMap.markZeroBytes HashMap.firstMarkedByteIndex HashMap.setByte
  Load.lstate0 Load.lstep Load.lmap Load.ltable Load.alookup Load.in_flight
  Drain.dstep Drain.ds_of Drain.lock_of Drain.wb_of Drain.ths_of Drain.all_done Drain.terminal Drain.drained
  DrainMacro.macro_step DrainMacro.add_thread DrainMacro.enabled DrainMacro.dstate0 DrainMacro.pc_at
  Striped.sstep Striped.sadd Striped.sstate0 Striped.tables Striped.cur Striped.busy Striped.rings Striped.sths Striped.spc_ Striped.idx Striped.elem Striped.attempt Striped.snap
  HashMapConc.hstep HashMapConc.hinit HashMapConc.len_of HashMapConc.bidx_of HashMapConc.lens HashMapConc.stores HashMapConc.lk HashMapConc.hcur HashMapConc.resizing HashMapConc.spec HashMapConc.hths
  HashMapConc.hpc_ HashMapConc.hkey HashMapConc.hsnap HashMapConc.hbi HashMapConc.hcop HashMapConc.hres HashMapConc.happ HashMapConc.hretry HashMapConc.hyield HashMapConc.cnt
  Adder.adder_init Adder.astep Adder.cells Adder.aths Adder.started Adder.applied.
