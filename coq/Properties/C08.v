(* C08 — Loads are single-flight and every waiter terminates.
   Model: Load.v — the single-flight protocol at the granularity of its atomic sections (get-or-create
   on the calls table; the Compute that finishes a call; the Computes of writes, invalidations and
   evictions, which remove the key's call).  Every event sequence = every interleaving at that
   granularity, any number of threads and keys. *)
From Otter Require Import Base Load LoadProofs.

Theorem C08_inv : forall es, linv (fst (lrun lstate0 es)).
Proof. intros es. apply lrun_inv. apply linv_init. Qed.
Print Assumptions C08_inv.

(* two loader invocations for one key are never both in flight unless the older call was removed
   from the table by a write, invalidation or eviction of that key *)
Theorem C08_no_overlap : forall es c1 c2,
  let s := fst (lrun lstate0 es) in
  In c1 (lcalls s) -> In c2 (lcalls s) -> cdone c1 = None -> cdone c2 = None -> ckey c1 = ckey c2 -> c1 <> c2 ->
  csuperseded c1 = true \/ csuperseded c2 = true.
Proof. intros es c1 c2 s. apply no_overlap. apply C08_inv. Qed.
Print Assumptions C08_no_overlap.

(* a caller that finds a registered call joins it: no new call, the loader is not invoked again *)
Theorem C08_joins : forall s t k refresh id,
  alookup k (ltable s) = Some id ->
  snd (lstep s (LStart t k refresh)) = ObsJoined id /\ lcalls (fst (lstep s (LStart t k refresh))) = lcalls s.
Proof. intros s t k refresh id L. cbn [lstep]. rewrite L. split; reflexivity. Qed.
Print Assumptions C08_joins.

(* every waiter waits for a pending call, and that call's finish — whatever the loader's outcome,
   panic included — releases it *)
Theorem C08_no_stuck_waiter : forall es id oc t,
  let s := fst (lrun lstate0 es) in
  In (t, id) (lwaits s) ->
  match snd (lstep s (LFinish id oc)) with ObsFinished _ released => In t released | _ => False end.
Proof. intros es id oc t s. apply finish_releases. apply C08_inv. Qed.
Print Assumptions C08_no_stuck_waiter.

(* no in-flight record is left behind: when no load is pending the calls table is empty *)
Theorem C08_table_clean : forall es,
  let s := fst (lrun lstate0 es) in
  (forall c, In c (lcalls s) -> cdone c <> None) -> ltable s = [].
Proof. intros es s H. apply table_clean; [apply C08_inv|]. intros c Hc P. apply (H c Hc P). Qed.
Print Assumptions C08_table_clean.

Example C08_nonvacuous :
  let '(s, obs) := lrun lstate0 [LStart 1 7 false; LStart 2 7 false; LWrite 7 50; LStart 3 7 false; LFinish 0 OPanic; LFinish 1 (OValue 60)] in
  obs = [ObsLoads 0; ObsJoined 0; ObsNone; ObsLoads 1; ObsFinished false [2; 1]; ObsFinished true [3]] /\
  ltable s = [] /\ alookup 7 (lmap s) = Some 60.
Proof. vm_compute. repeat split. Qed.
