(* Load.v — protocol model of single-flight loading (singleflight.go + the load paths of
   cache_impl.go) at the granularity of its atomic sections:

     LStart t k      thread t's Get / Refresh missed and calls startCall(k): one get-or-create on the
                     calls table (under that table's bucket lock): it either JOINS the registered call
                     or registers a new one and becomes its loader (the loader then runs outside any lock);
     LFinish id oc   the loader of call id returned with outcome oc: afterDeleteCall — ONE Compute on
                     the key's bucket of the main table: deleteCall (is the call still the registered
                     one?), then install / delete / nothing, then the waiters are released;
     LWrite k v      Set / SetIfAbsent(absent) / Compute(write): one Compute that removes the key's call
                     from the calls table (singleflight.delete) and installs v;
     LInvalidate k   Invalidate / Compute(invalidate) / eviction / expiration sweep of k: one Compute that
                     removes the key's call and the entry;
     LVolunteer k v  a bulk loader's result contains k although its caller had not asked for it (it was
                     present, or joined from another caller): one Compute that installs v and leaves the
                     calls table alone.

   A bulk call (BulkGet / BulkRefresh) is a run of LStart events, one per missing key (each a separate
   get-or-create), one loader invocation outside any lock, then one LFinish per call it registered and one
   LVolunteer per extra key — interleaved freely with everybody else's events: the theorems, which quantify
   over all event lists, cover bulk calls over overlapping key sets.

   Values only (deadlines are Seq.v's business).  Ghost state records, per call, the loader
   interval and whether an explicit write superseded it.  No proofs here (LoadProofs.v). *)
From Otter Require Import Base.

Inductive loutcome := OValue (v : Z) | OError | ONotFound | OPanic.

Record lcall := mkCall {
  cid : Z; ckey : Z;
  crefresh : bool;
  cdone : option loutcome;      (* Some oc once the loader has returned and afterDeleteCall ran *)
  csuperseded : bool;           (* a write / invalidation / eviction of the key removed it from the table *)
  cinstalled : bool             (* afterDeleteCall installed its value *)
}.

Record lstate := mkL {
  lmap : list (Z * Z);          (* main table: key -> value *)
  ltable : list (Z * Z);        (* calls table: key -> call id *)
  lcalls : list lcall;          (* every call ever created (ghost) *)
  lnext : Z;                    (* next call id *)
  lwaits : list (Z * Z)         (* thread -> call id it waits for *)
}.

Definition lstate0 : lstate := mkL [] [] [] 0 [].

Fixpoint alookup (k : Z) (m : list (Z * Z)) : option Z :=
  match m with
  | [] => None
  | (k', v) :: m' => if k' =? k then Some v else alookup k m'
  end.
Definition aremove (k : Z) (m : list (Z * Z)) : list (Z * Z) := filter (fun p => negb (fst p =? k)) m.
Definition aput (k v : Z) (m : list (Z * Z)) : list (Z * Z) := (k, v) :: aremove k m.

Definition upd_call (cs : list lcall) (id : Z) (f : lcall -> lcall) : list lcall :=
  map (fun c => if cid c =? id then f c else c) cs.

Inductive levent :=
| LStart (t k : Z) (refresh : bool)
| LFinish (id : Z) (oc : loutcome)
| LWrite (k v : Z)
| LInvalidate (k : Z)
| LVolunteer (k v : Z).   (* a bulk loader returned a value for a key its caller had not asked it for:
                             afterDeleteCall on a "fake" call: the value is installed; a registered call
                             of that key (another caller's load in flight) is NOT removed *)

(* observable result of a step *)
Inductive lobs :=
| ObsJoined (id : Z)            (* LStart: joined an in-flight call: the loader is not invoked *)
| ObsLoads (id : Z)             (* LStart: registered a new call: this thread runs the loader *)
| ObsFinished (installed : bool) (released : list Z)   (* LFinish: installed?, threads released *)
| ObsNone.

(* every registered call of the key is marked superseded and leaves the table *)
Definition supersede (s : lstate) (k : Z) : lstate :=
  match alookup k (ltable s) with
  | Some id => mkL (lmap s) (aremove k (ltable s))
                   (upd_call (lcalls s) id (fun c => mkCall (cid c) (ckey c) (crefresh c) (cdone c) true (cinstalled c)))
                   (lnext s) (lwaits s)
  | None => s
  end.

Definition lstep (s : lstate) (e : levent) : lstate * lobs :=
  match e with
  | LStart t k refresh =>
      match alookup k (ltable s) with
      | Some id => (mkL (lmap s) (ltable s) (lcalls s) (lnext s) ((t, id) :: lwaits s), ObsJoined id)
      | None =>
          let id := lnext s in
          (mkL (lmap s) (aput k id (ltable s)) (mkCall id k refresh None false false :: lcalls s) (id + 1)
               ((t, id) :: lwaits s), ObsLoads id)
      end
  | LFinish id oc =>
      match find (fun c => cid c =? id) (lcalls s) with
      | None => (s, ObsNone)
      | Some c =>
          match cdone c with
          | Some _ => (s, ObsNone)       (* a call finishes once *)
          | None =>
              let k := ckey c in
              let correct := match alookup k (ltable s) with Some id' => id' =? id | None => false end in
              let table' := if correct then aremove k (ltable s) else ltable s in
              let '(map', installed) :=
                match oc with
                | OValue v => if correct then (aput k v (lmap s), true) else (lmap s, false)
                | ONotFound => if correct then (aremove k (lmap s), false) else (lmap s, false)
                | OError | OPanic => (lmap s, false)
                end in
              let released := map fst (filter (fun p => snd p =? id) (lwaits s)) in
              (mkL map' table'
                   (upd_call (lcalls s) id (fun c => mkCall (cid c) (ckey c) (crefresh c) (Some oc) (csuperseded c) installed))
                   (lnext s) (filter (fun p => negb (snd p =? id)) (lwaits s)),
               ObsFinished installed released)
          end
      end
  | LWrite k v =>
      let s1 := supersede s k in
      (mkL (aput k v (lmap s1)) (ltable s1) (lcalls s1) (lnext s1) (lwaits s1), ObsNone)
  | LInvalidate k =>
      let s1 := supersede s k in
      (mkL (aremove k (lmap s1)) (ltable s1) (lcalls s1) (lnext s1) (lwaits s1), ObsNone)
  | LVolunteer k v =>
      (mkL (aput k v (lmap s)) (ltable s) (lcalls s) (lnext s) (lwaits s), ObsNone)
  end.

Fixpoint lrun (s : lstate) (es : list levent) : lstate * list lobs :=
  match es with
  | [] => (s, [])
  | e :: es' => let '(s1, o) := lstep s e in let '(s2, os) := lrun s1 es' in (s2, o :: os)
  end.

Definition in_flight (s : lstate) : list lcall := filter (fun c => match cdone c with None => true | Some _ => false end) (lcalls s).
