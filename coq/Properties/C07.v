(* C07 — Entries disappear only for a sanctioned, truthful reason. *)
From Otter Require Import Base Sketch Seq Policy PolicyFacts Wheel WheelFacts.

(* Overflow: the size-eviction loop removes a node only in a state whose total weight exceeds the
   maximum, and never a node of weight zero *)
Theorem C07_overflow_justified : forall hashf rnd p cu id cu',
  ef_step hashf rnd p cu = EfEvict id cu' -> wsize p > maxi p /\ pweight (node_of p id) <> 0.
Proof. intros. destruct (ef_step_evict _ _ _ _ _ _ H). auto. Qed.
Print Assumptions C07_overflow_justified.

(* ... or the entry alone exceeds the maximum (evicted when its task is replayed) *)
Theorem C07_oversized : forall hashf p id,
  pstate (node_of p id) = ALIVE -> pweight (node_of p id) > maxi p -> snd (pol_add hashf p id) = [id].
Proof. exact pol_add_oversized. Qed.
Print Assumptions C07_oversized.

(* Expiration: the sweep hands a node to expireNode only if its CURRENT deadline lies strictly
   before the wheel's time *)
Theorem C07_expiration_justified : forall cur ts w id,
  In id (snd (sweep_timers cur w ts [])) -> cur id < wtime w.
Proof. intros cur ts w id H. destruct (sweep_timers_expired_due cur ts w [] id H) as [[]|H']. exact H'. Qed.
Print Assumptions C07_expiration_justified.

(* at the level of the index: an automatic removal is accepted only for the node the table holds,
   Overflow only with a size bound, Expiration only past the deadline *)
Theorem C07_index_legality : forall c s k v cs now,
  r_ret (snd (do_auto c s k v cs now)) = RNone ->
  exists n, lookup k (cmap s) = Some n /\ nval n = v /\
    match cs with COverflow => bounded c = true | CExpiration => has_expired c n now = true | _ => False end.
Proof.
  intros c s k v cs now. unfold do_auto.
  destruct (lookup k (cmap s)) as [n|]; [|intros H; discriminate H].
  destruct (nval n =? v) eqn:E; cbn [andb]; [|intros H; discriminate H].
  destruct cs; try (intros H; discriminate H).
  - destruct (bounded c) eqn:B; [|intros H; discriminate H]. intros _. exists n. repeat split; try reflexivity; lia.
  - destruct (has_expired c n now) eqn:X; [|intros H; discriminate H]. intros _. exists n. repeat split; try reflexivity; lia.
Qed.
Print Assumptions C07_index_legality.

Example C07_nonvacuous :
  let w := wheel_add (mkWheel 1000 (wlevels wheel0)) 7 1500 in
  snd (wheel_delete_expired (fun _ => 1500) w (1000 + 1073741824 * 2)) = [7] /\
  snd (wheel_delete_expired (fun _ => 1500) w 1400) = [].
Proof. vm_compute. split; reflexivity. Qed.
