(* C14 — Maintenance is never stranded: no lost wake-up after a write.
   Model: Drain.v — the drain-status protocol with the default executor at the granularity of single
   atomic accesses (loads, stores, CAS, TryLock/Lock/Unlock, one buffer pop), every executor
   submission being a new task thread.  The theorems are EXHAUSTIVE over all schedules for a bounded
   initial thread population (stated in each theorem); they are proved by computing the closed set of
   reachable configurations inside Coq (vm_compute) and a soundness lemma for that computation.
   The exploration runs on a positive-keyed map (DrainFast.v; a key collision makes the check fail, so
   the key need not be injective).  Sanity of the theorem: with the writer's retry after a failed
   CAS processing-to-idle -> processing-to-required removed from the model, check_fast 2 0 and
   check_fast 1 1 evaluate to false.  Larger populations (3 writers; 2 writers + a CleanUp caller)
   exhaust memory in this representation; the unbounded statement is not proved.
   The model is tied to the code by the "sched" engine, which executes the real cache in macro steps
   (hook point to hook point) and compares every macro step with DrainMacro.macro_step;
   C14_macro_steps_are_runs shows those macro steps are runs of the small-step model. *)
From stdpp Require Import gmap.
From Otter Require Import Drain DrainProofs DrainBounded DrainMacro.

(* soundness of the exploration: a closed set containing the initial configuration contains every
   configuration reachable under every schedule *)
Theorem C14_exploration_sound : forall V s0,
  s0 ∈ V -> closed V = true -> all_terminals_drained V = true ->
  forall s, reachable s0 s -> terminal s = true -> drained s = true.
Proof. exact terminals_drained. Qed.
Print Assumptions C14_exploration_sound.

(* the units in which the correspondence engine executes the code are sequences of small steps of one
   thread: every configuration it visits is reachable in the small-step model *)
Theorem C14_macro_steps_are_runs : forall s0 s i, reachable s0 s -> reachable s0 (macro_step s i).
Proof. exact macro_step_reachable. Qed.
Print Assumptions C14_macro_steps_are_runs.

(* one writer: under every schedule, when nothing can move any more, every thread has finished,
   the write buffer is empty, the drain status is idle and the eviction lock is free *)
Theorem C14_no_stranding_1_writer : forall sched,
  let s := run_sched (dinit 1 0) sched in terminal s = true -> drained s = true.
Proof. exact drained_1_writer. Qed.
Print Assumptions C14_no_stranding_1_writer.

(* two concurrent writers (a write arriving while the other's maintenance is running is either
   processed by that run or causes another run — otherwise a terminal configuration with a non-empty
   buffer or a non-idle status would be reachable) *)
Theorem C14_no_stranding_2_writers : forall sched,
  let s := run_sched (dinit 2 0) sched in terminal s = true -> drained s = true.
Proof. exact drained_2_writers. Qed.
Print Assumptions C14_no_stranding_2_writers.

(* one writer racing with an explicit CleanUp caller (Lock, maintenance, Unlock, reschedule) *)
Theorem C14_no_stranding_1_writer_1_cleanup : forall sched,
  let s := run_sched (dinit 1 1) sched in terminal s = true -> drained s = true.
Proof. exact drained_1_writer_1_cleanup. Qed.
Print Assumptions C14_no_stranding_1_writer_1_cleanup.

Example C14_nonvacuous :
  (* a schedule in which the second writer's push lands while the first writer's task is draining *)
  let s := run_sched (dinit 2 0) ([0;0;0;0;0;0;0;0;0;0;0;0; 2;2;2; 1;1;1;1;1;1;1;1; 2;2;2;2;2;2;2;2;2;2;2;2;2;2;2;2] ++ repeat 3 30 ++ repeat 1 10 ++ repeat 2 10 ++ repeat 4 30)%nat in
  terminal s = true /\ drained s = true.
Proof. vm_compute. split; reflexivity. Qed.
