(* MpscConc.v — the chunked queue under CONCURRENT producers, at the granularity the code offers:
   a push is "reserve" (everything up to and including the winning producer-index CAS; a growth step
   is part of it) followed later by "publish" (the slot store); any number of producers may sit between
   the two while other producers reserve, publish or grow the queue and the consumer pops.  For every
   interleaving the queue is a FIFO of RESERVATIONS: elements come out exactly once, in reservation
   order (hence in each producer's program order), the consumer waits at a reserved, unpublished
   cell and never skips it, and an offer is refused exactly when the queue holds its maximum. *)
From Otter Require Import Base Sketch SketchProofs Mpsc MpscFifo.
From Coq Require Import ZifyBool ZifyNat.
Local Open Scope Z_scope.
Ltac Zify.zify_post_hook ::= idtac.

(* a cell of the queue's contents: published value, or reserved and not yet published *)
Definition cell := option Z.
Definition clen (l : list cell) : Z := Z.of_nat (length l).

Definition cwant (lo : Z) (items : list cell) (jump : bool) (a : Z) : slot :=
  if a <? lo + clen items then
    match nth (Z.to_nat (a - lo)) items None with Some v => SElem v | None => SNil end
  else if jump && (a =? lo + clen items) then SJump else SNil.

Definition cbufok (bs : list slot) (k lo : Z) (items : list cell) (jump : bool) (link : slot) : Prop :=
  0 <= k /\ Z.of_nat (length bs) = 2 ^ k + 1 /\
  nth (Z.to_nat (2 ^ k)) bs SNil = link /\
  clen items + (if jump then 1 else 0) <= 2 ^ k /\
  forall a, lo <= a < lo + 2 ^ k -> nth (Z.to_nat (a mod 2 ^ k)) bs SNil = cwant lo items jump a.

Lemma clen_nonneg (l : list cell) : 0 <= clen l.
Proof. unfold clen. lia. Qed.
Lemma clen_app (l1 l2 : list cell) : clen (l1 ++ l2) = clen l1 + clen l2.
Proof. unfold clen. rewrite app_length. lia. Qed.

(* the head cell *)
Lemma cbufok_head bs k lo c items jump link :
  cbufok bs k lo (c :: items) jump link ->
  nth (Z.to_nat (lo mod 2 ^ k)) bs SNil = match c with Some v => SElem v | None => SNil end.
Proof.
  intros (Hk & Hlen & Hlink & Hfit & Hw). pose proof (pow2_pos k Hk) as Hp.
  unfold clen in *. cbn [length] in Hfit.
  rewrite (Hw lo) by lia. unfold cwant, clen. cbn [length].
  replace (lo <? lo + Z.of_nat (S (length items))) with true by lia.
  replace (lo - lo) with 0 by lia. reflexivity.
Qed.

Lemma cbufok_pop bs k lo c items jump link :
  cbufok bs k lo (c :: items) jump link ->
  cbufok (upd (Z.to_nat (lo mod 2 ^ k)) SNil bs) k (lo + 1) items jump link.
Proof.
  intros (Hk & Hlen & Hlink & Hfit & Hw).
  pose proof (pow2_pos k Hk) as Hp.
  unfold clen in *. cbn [length] in Hfit.
  pose proof (Z.mod_pos_bound lo (2 ^ k) Hp) as Hb.
  split; [assumption|]. split; [rewrite upd_length; assumption|].
  split; [rewrite nth_upd_other by lia; assumption|].
  split; [unfold clen; destruct jump; lia|].
  intros a Ha.
  destruct (Z.eq_dec a (lo + 2 ^ k)) as [->|Hne].
  - replace ((lo + 2 ^ k) mod 2 ^ k) with (lo mod 2 ^ k).
    2:{ replace (lo + 2 ^ k) with (lo + 1 * 2 ^ k) by lia. rewrite Z.mod_add by lia. reflexivity. }
    rewrite nth_upd_same by lia.
    unfold cwant, clen.
    replace (lo + 2 ^ k <? lo + 1 + Z.of_nat (length items)) with false by (destruct jump; lia).
    destruct jump; cbn [andb]; [|reflexivity].
    replace (lo + 2 ^ k =? lo + 1 + Z.of_nat (length items)) with false by lia. reflexivity.
  - rewrite nth_upd_other.
    2:{ intros E. apply Hne. assert (lo mod 2 ^ k = a mod 2 ^ k) as E' by lia.
        exfalso. assert (lo = a) by (apply (mod_window_inj (2 ^ k) lo); lia). lia. }
    rewrite (Hw a) by lia. unfold cwant, clen. cbn [length].
    replace (lo + Z.of_nat (S (length items))) with (lo + 1 + Z.of_nat (length items)) by lia.
    destruct (a <? lo + 1 + Z.of_nat (length items)) eqn:E1; [|reflexivity].
    replace (Z.to_nat (a - lo)) with (S (Z.to_nat (a - (lo + 1)))) by lia. reflexivity.
Qed.

(* reserving the next cell changes no slot *)
Lemma cbufok_reserve bs k lo items link :
  cbufok bs k lo items false link -> clen items + 1 <= 2 ^ k ->
  cbufok bs k lo (items ++ [None]) false link.
Proof.
  intros (Hk & Hlen & Hlink & Hfit & Hw) Hroom.
  split; [assumption|]. split; [assumption|]. split; [assumption|].
  split; [rewrite clen_app; change (clen [None]) with 1; lia|].
  intros a Ha. rewrite (Hw a Ha). unfold cwant, clen in *. rewrite app_length. cbn [length andb].
  destruct (a <? lo + Z.of_nat (length items)) eqn:E1.
  - replace (a <? lo + Z.of_nat (length items + 1)) with true by lia.
    rewrite app_nth1 by lia. reflexivity.
  - destruct (Z.eq_dec a (lo + Z.of_nat (length items))) as [->|Hne].
    + replace (lo + Z.of_nat (length items) <? lo + Z.of_nat (length items + 1)) with true by lia.
      rewrite app_nth2 by lia.
      replace (Z.to_nat (lo + Z.of_nat (length items) - lo) - length items)%nat with 0%nat by lia. reflexivity.
    + replace (a <? lo + Z.of_nat (length items + 1)) with false by lia. reflexivity.
Qed.

(* publishing the reserved cell at position j *)
Lemma cbufok_publish bs k lo items jump link j v :
  cbufok bs k lo items jump link -> (j < length items)%nat -> nth j items None = None ->
  cbufok (upd (Z.to_nat ((lo + Z.of_nat j) mod 2 ^ k)) (SElem v) bs) k lo (upd j (Some v) items) jump link.
Proof.
  intros (Hk & Hlen & Hlink & Hfit & Hw) Hj Hn.
  pose proof (pow2_pos k Hk) as Hp.
  pose proof (Z.mod_pos_bound (lo + Z.of_nat j) (2 ^ k) Hp) as Hb.
  unfold clen in *.
  split; [assumption|]. split; [rewrite upd_length; assumption|].
  split; [rewrite nth_upd_other by lia; assumption|].
  split; [unfold clen; rewrite upd_length; assumption|].
  intros a Ha. unfold cwant, clen. rewrite upd_length.
  destruct (Z.eq_dec a (lo + Z.of_nat j)) as [->|Hne].
  - rewrite nth_upd_same by lia.
    replace (lo + Z.of_nat j <? lo + Z.of_nat (length items)) with true by lia.
    replace (Z.to_nat (lo + Z.of_nat j - lo)) with j by lia. rewrite nth_upd_same by assumption. reflexivity.
  - rewrite nth_upd_other.
    2:{ intros E. apply Hne. symmetry. apply (mod_window_inj (2 ^ k) lo); [lia| |lia|lia]. destruct jump; lia. }
    rewrite (Hw a Ha). unfold cwant, clen.
    destruct (a <? lo + Z.of_nat (length items)) eqn:E1; [|reflexivity].
    rewrite nth_upd_other by lia. reflexivity.
Qed.

Lemma cbufok_jump bs k lo items lk :
  cbufok bs k lo items false SNil -> clen items + 1 <= 2 ^ k ->
  cbufok (upd (Z.to_nat ((lo + clen items) mod 2 ^ k)) SJump (upd (Z.to_nat (2 ^ k)) lk bs)) k lo items true lk.
Proof.
  intros (Hk & Hlen & Hlink & Hfit & Hw) Hroom.
  pose proof (pow2_pos k Hk) as Hp.
  pose proof (Z.mod_pos_bound (lo + clen items) (2 ^ k) Hp) as Hb.
  pose proof (clen_nonneg items) as Hz.
  split; [assumption|]. split; [rewrite !upd_length; assumption|].
  split; [rewrite nth_upd_other by lia; apply nth_upd_same; lia|].
  split; [lia|].
  intros a Ha. pose proof (Z.mod_pos_bound a (2 ^ k) Hp) as Hba.
  destruct (Z.eq_dec a (lo + clen items)) as [->|Hne].
  - rewrite nth_upd_same by (rewrite upd_length; lia). unfold cwant.
    replace (lo + clen items <? lo + clen items) with false by lia.
    replace (lo + clen items =? lo + clen items) with true by lia. reflexivity.
  - rewrite nth_upd_other.
    2:{ intros E. apply Hne. symmetry. apply (mod_window_inj (2 ^ k) lo); lia. }
    rewrite nth_upd_other by lia.
    rewrite (Hw a) by lia. unfold cwant. cbn [andb].
    replace (a =? lo + clen items) with false by lia. reflexivity.
Qed.

Lemma cbufok_fresh k lo v :
  0 <= k ->
  cbufok (upd (Z.to_nat (lo mod 2 ^ k)) (SElem v) (repeat SNil (Z.to_nat (2 ^ k + 1)))) k lo [Some v] false SNil.
Proof.
  intros Hk. pose proof (pow2_pos k Hk) as Hp.
  pose proof (Z.mod_pos_bound lo (2 ^ k) Hp) as Hb.
  assert (Hnr : forall i, nth i (repeat SNil (Z.to_nat (2 ^ k + 1))) SNil = SNil).
  { intros i. destruct (Nat.lt_ge_cases i (Z.to_nat (2 ^ k + 1))).
    - apply nth_repeat.
    - apply nth_overflow. rewrite repeat_length. assumption. }
  split; [assumption|]. split; [rewrite upd_length, repeat_length; lia|].
  split; [rewrite nth_upd_other by lia; apply Hnr|].
  split; [unfold clen; cbn [length]; lia|].
  intros a Ha. unfold cwant, clen. cbn [length andb]. change (Z.of_nat 1) with 1.
  destruct (Z.eq_dec a lo) as [->|Hne].
  - rewrite nth_upd_same by (rewrite repeat_length; lia).
    replace (lo <? lo + 1) with true by lia. replace (lo - lo) with 0 by lia. reflexivity.
  - rewrite nth_upd_other.
    2:{ intros E. apply Hne. symmetry. apply (mod_window_inj (2 ^ k) lo); lia. }
    rewrite Hnr. replace (a <? lo + 1) with false by lia. reflexivity.
Qed.

Lemma cbufok_empty k lo : 0 <= k -> cbufok (repeat SNil (Z.to_nat (2 ^ k + 1))) k lo [] false SNil.
Proof.
  intros Hk. pose proof (pow2_pos k Hk) as Hp.
  assert (Hnr : forall i, nth i (repeat SNil (Z.to_nat (2 ^ k + 1))) SNil = SNil).
  { intros i. destruct (Nat.lt_ge_cases i (Z.to_nat (2 ^ k + 1))).
    - apply nth_repeat.
    - apply nth_overflow. rewrite repeat_length. assumption. }
  split; [assumption|]. split; [rewrite repeat_length; lia|].
  split; [apply Hnr|]. split; [unfold clen; cbn [length]; lia|].
  intros a Ha. rewrite Hnr. unfold cwant, clen. cbn [length andb].
  change (Z.of_nat 0) with 0. replace (a <? lo + 0) with false by lia. reflexivity.
Qed.

Lemma cbufok_relink bs k lo items jump link lk :
  cbufok bs k lo items jump link -> cbufok (upd (Z.to_nat (2 ^ k)) lk bs) k lo items jump lk.
Proof.
  intros (Hk & Hlen & Hlink & Hfit & Hw). pose proof (pow2_pos k Hk) as Hp.
  split; [assumption|]. split; [rewrite upd_length; assumption|].
  split; [apply nth_upd_same; lia|]. split; [assumption|].
  intros a Ha. pose proof (Z.mod_pos_bound a (2 ^ k) Hp). rewrite nth_upd_other by lia. apply Hw; assumption.
Qed.

(* ------------------------------------------------------------------ *)
(* the cchain of buffers from the consumer's buffer to the producers' buffer: one segment of the
   queue's contents per buffer; [base] describes the last (producers') buffer *)

Fixpoint cchain (base : nat -> Z -> Z -> list cell -> Prop) (bufs : list (list slot))
    (segs : list (list cell)) (b : nat) (k lo : Z) : Prop :=
  match segs with
  | [] => False
  | s :: rest =>
      match rest with
      | [] => base b k lo s
      | _ :: _ => cbufok (nth b bufs []) k lo s true (SNext (S b)) /\
                  cchain base bufs rest (S b) (k + 1) (lo + clen s)
      end
  end.

Lemma cchain_cons (base : nat -> Z -> Z -> list cell -> Prop) (bufs : list (list slot)) s s1 rest b k lo :
  cchain base bufs (s :: s1 :: rest) b k lo =
  (cbufok (nth b bufs []) k lo s true (SNext (S b)) /\ cchain base bufs (s1 :: rest) (S b) (k + 1) (lo + clen s)).
Proof. reflexivity. Qed.

Lemma cchain_frame (base base' : nat -> Z -> Z -> list cell -> Prop) (bufs bufs' : list (list slot)) (segs : list (list cell)) : forall b k lo,
  (forall i, (b <= i)%nat -> nth i bufs' [] = nth i bufs []) ->
  (forall b' k' lo' s, (b <= b')%nat -> lo <= lo' -> base b' k' lo' s -> base' b' k' lo' s) ->
  cchain base bufs segs b k lo -> cchain base' bufs' segs b k lo.
Proof.
  induction segs as [|s rest IH]; intros b k lo Hf Hb H; [exact H|].
  destruct rest as [|s1 rest].
  - cbn [cchain] in *. apply Hb; [lia|lia|assumption].
  - rewrite cchain_cons in *. destruct H as [H1 H2]. split.
    + rewrite Hf by lia. assumption.
    + apply IH; [intros i Hi; apply Hf; lia| |assumption].
      intros b' k' lo' s' Hb' Hlo'. apply Hb; [lia|]. pose proof (clen_nonneg s). lia.
Qed.

Lemma cchain_last (base : nat -> Z -> Z -> list cell -> Prop) (bufs : list (list slot)) (front : list (list cell)) (sl : list cell) : forall b k lo,
  cchain base bufs (front ++ [sl]) b k lo ->
  exists lo', lo <= lo' /\ base (b + length front)%nat (k + Z.of_nat (length front)) lo' sl.
Proof.
  induction front as [|s f IH]; intros b k lo H.
  - cbn [app cchain length] in *. exists lo. split; [lia|].
    replace (b + 0)%nat with b by lia. replace (k + Z.of_nat 0) with k by lia. assumption.
  - cbn [app] in H. destruct (app_is_cons f [sl] ltac:(discriminate)) as (s1 & r & E).
    rewrite E in H. rewrite cchain_cons in H. destruct H as [_ H]. rewrite <- E in H.
    destruct (IH _ _ _ H) as (lo' & Hlo & Hb). exists lo'. pose proof (clen_nonneg s).
    split; [lia|]. cbn [length].
    replace (b + S (length f))%nat with (S b + length f)%nat by lia.
    replace (k + Z.of_nat (S (length f))) with (k + 1 + Z.of_nat (length f)) by lia. assumption.
Qed.

Lemma cchain_ext (base base' : nat -> Z -> Z -> list cell -> Prop) (bufs bufs' : list (list slot)) (front : list (list cell)) (sl : list cell) (newlast : list (list cell)) : forall b k lo,
  newlast <> [] ->
  (forall i, (b <= i < b + length front)%nat -> nth i bufs' [] = nth i bufs []) ->
  (forall lo', lo <= lo' -> base (b + length front)%nat (k + Z.of_nat (length front)) lo' sl ->
     cchain base' bufs' newlast (b + length front)%nat (k + Z.of_nat (length front)) lo') ->
  cchain base bufs (front ++ [sl]) b k lo -> cchain base' bufs' (front ++ newlast) b k lo.
Proof.
  induction front as [|s f IH]; intros b k lo Hnl Hf Hcb H.
  - cbn [app cchain length] in *.
    specialize (Hcb lo ltac:(lia)).
    replace (b + 0)%nat with b in Hcb by lia. replace (k + Z.of_nat 0) with k in Hcb by lia.
    apply Hcb. assumption.
  - cbn [app] in *. destruct (app_is_cons f [sl] ltac:(discriminate)) as (s1 & r & E).
    rewrite E in H. rewrite cchain_cons in H. destruct H as [H1 H]. rewrite <- E in H.
    destruct (app_is_cons f newlast Hnl) as (s2 & r2 & E2).
    rewrite E2. rewrite cchain_cons. rewrite <- E2. split.
    + rewrite Hf by (cbn [length]; lia). assumption.
    + apply IH; [assumption| |  |assumption].
      * intros i Hi. apply Hf. cbn [length]. lia.
      * intros lo' Hlo' Hb. pose proof (clen_nonneg s).
        cbn [length] in Hcb.
        replace (b + S (length f))%nat with (S b + length f)%nat in Hcb by lia.
        replace (k + Z.of_nat (S (length f))) with (k + 1 + Z.of_nat (length f)) in Hcb by lia.
        apply Hcb; [lia|assumption].
Qed.

Lemma cchain_total (base : nat -> Z -> Z -> list cell -> Prop) (bufs : list (list slot)) (X : Z) (segs : list (list cell)) : forall b k lo,
  (forall b' k' lo' s, base b' k' lo' s -> X = lo' + clen s) ->
  cchain base bufs segs b k lo -> X = lo + clen (concat segs).
Proof.
  induction segs as [|s rest IH]; intros b k lo Hb H; [destruct H|].
  destruct rest as [|s1 rest].
  - cbn [cchain concat] in *. rewrite app_nil_r. eapply Hb; eassumption.
  - rewrite cchain_cons in H. destruct H as [_ H]. specialize (IH _ _ _ Hb H).
    change (concat (s :: s1 :: rest)) with (s ++ concat (s1 :: rest)). rewrite clen_app. lia.
Qed.

(* ------------------------------------------------------------------ *)
(* the invariant *)

Definition cpbase (q : mpsc) (K : Z) (b : nat) (k lo : Z) (s : list cell) : Prop :=
  b = pbuf q /\ pmask q = mask_of k /\ k <= K /\
  cbufok (nth b (bufs q) []) k lo s false SNil /\
  pidx q = 2 * (lo + clen s) /\ pidx q <= 2 * lo + cap q k /\ plimit q <= 2 * lo + cap q k.

Definition QInv (q : mpsc) (segs : list (list cell)) : Prop :=
  exists k C K,
    0 <= k /\ 0 <= C /\ cidx q = 2 * C /\ cmask q = mask_of k /\ maxcap q = 2 * 2 ^ K /\
    length (bufs q) = S (pbuf q) /\
    Forall (fun s => exists v r, s = Some v :: r) (tl segs) /\
    cchain (cpbase q K) (bufs q) segs (cbuf q) k C /\
    plimit q <= cidx q + maxcap q /\ pidx q <= cidx q + maxcap q.

Lemma qinv_total q segs : QInv q segs -> pidx q - cidx q = 2 * clen (concat segs).
Proof.
  intros (k & C & K & Hk & HC & Hc & Hcm & Hmax & Hlen & Hne & Hch & Hl1 & Hl2).
  assert (pidx q / 2 = C + clen (concat segs)) as E.
  { eapply cchain_total; [|exact Hch]. intros b' k' lo' s (_ & _ & _ & _ & Hp & _). rewrite Hp.
    rewrite Z.mul_comm. apply Z.div_mul. lia. }
  assert (exists P, pidx q = 2 * P) as (P & HP).
  { destruct segs as [|s0 r0]; [destruct Hch|].
    destruct (exists_last (l := s0 :: r0) ltac:(discriminate)) as (front & sl & E').
    rewrite E' in Hch. destruct (cchain_last _ _ _ _ _ _ _ Hch) as (lo' & _ & (_ & _ & _ & _ & Hp & _)).
    eexists; exact Hp. }
  rewrite HP in E. rewrite Z.mul_comm, Z.div_mul in E by lia. lia.
Qed.

Lemma mpsc_size_cabs q segs : QInv q segs -> mpsc_size q = clen (concat segs).
Proof.
  intros H. unfold mpsc_size. rewrite (qinv_total q segs H).
  rewrite Z.shiftr_div_pow2 by lia. change (2 ^ 1) with 2. rewrite Z.mul_comm. apply Z.div_mul. lia.
Qed.


(* ------------------------------------------------------------------ *)
(* reserve (the winning producer-index CAS) *)

Definition headed (s : list cell) : Prop := exists v r, s = Some v :: r.

Lemma cconcat_snoc (front : list (list cell)) (sl : list cell) c :
  concat (front ++ [sl ++ [c]]) = concat (front ++ [sl]) ++ [c].
Proof. rewrite !concat_app. cbn [concat]. rewrite !app_nil_r. apply app_assoc. Qed.

Lemma cconcat_snoc2 (front : list (list cell)) (sl : list cell) c :
  concat (front ++ [sl; [c]]) = concat (front ++ [sl]) ++ [c].
Proof. rewrite !concat_app. cbn [concat]. rewrite !app_nil_r. apply app_assoc. Qed.

Lemma tl_headed_snoc (front : list (list cell)) (sl : list cell) c :
  Forall headed (tl (front ++ [sl])) -> Forall headed (tl (front ++ [sl ++ [c]])).
Proof.
  intros H. destruct front as [|f0 f]; [constructor|].
  cbn [app tl] in *. apply Forall_app in H. destruct H as [H H2].
  apply Forall_app. split; [assumption|]. inversion H2 as [|? ? (v & r & ->) _]; subst.
  constructor; [exists v, (r ++ [c]); reflexivity|constructor].
Qed.

Lemma tl_headed_snoc2 (front : list (list cell)) (sl : list cell) v :
  Forall headed (tl (front ++ [sl])) -> Forall headed (tl (front ++ [sl; [Some v]])).
Proof.
  intros H. destruct front as [|f0 f].
  - cbn [app tl]. constructor; [exists v, []; reflexivity|constructor].
  - cbn [app tl] in *. apply Forall_app in H. destruct H as [H H2].
    apply Forall_app. split; [assumption|].
    constructor; [inversion H2; assumption|]. constructor; [exists v, []; reflexivity|constructor].
Qed.

Definition reserved (q : mpsc) (pl : Z) : mpsc :=
  mkMpsc (pidx q + 2) pl (cidx q) (pmask q) (cmask q) (pbuf q) (cbuf q) (bufs q) (maxcap q).

Lemma reserve_inv q segs pl :
  QInv q segs ->
  pl = plimit q \/ pl = cidx q + cur_buf_capacity q (pmask q) ->
  pidx q < pl ->
  exists front sl, segs = front ++ [sl] /\ QInv (reserved q pl) (front ++ [sl ++ [None]]) /\
    exists kl, 0 <= kl /\ pmask q = mask_of kl /\
      offset_of (pidx q) (pmask q) = Z.to_nat ((pidx q / 2) mod 2 ^ kl).
Proof.
  intros (k & C & K & Hk & HC & Hc & Hcm & Hmax & Hlen & Hne & Hch & Hl1 & Hl2) Hpl Hlt.
  destruct segs as [|s0 r0]; [destruct Hch|].
  destruct (exists_last (l := s0 :: r0) ltac:(discriminate)) as (front & sl & E).
  rewrite E in *. clear E s0 r0.
  destruct (cchain_last _ _ _ _ _ _ _ Hch) as (lo' & Hlo & (Hb1 & Hpm & HkK & Hbuf & Hp & Hp2 & Hp3)).
  set (kl := k + Z.of_nat (length front)) in *.
  set (bl := (cbuf q + length front)%nat) in *.
  assert (Hkl : 0 <= kl) by (unfold kl; lia).
  pose proof (clen_nonneg sl) as Hzs.
  pose proof (pow2_pos K ltac:(lia)) as HpK.
  pose proof (pow2_pos kl Hkl) as Hpk.
  assert (Hcap : cur_buf_capacity q (pmask q) = cap q kl) by (unfold cap; rewrite Hpm; reflexivity).
  assert (Hpar : pidx q + 2 <= 2 * lo' + cap q kl /\ pl <= 2 * lo' + cap q kl /\
                 pl <= cidx q + maxcap q /\ pidx q + 2 <= cidx q + maxcap q /\ clen sl + 1 <= 2 ^ kl).
  { destruct (cap_cases q K kl Hmax ltac:(lia)) as [(Ek & Ec)|(Ek & Ec & Ec2)]; rewrite Ec in *;
      unfold mask_of in *; destruct Hpl as [-> | ->]; try rewrite Hcap, Ec; try rewrite Ek in *; lia. }
  destruct Hpar as (A1 & A2 & A3 & A4 & A5).
  exists front, sl. split; [reflexivity|]. split.
  - exists k, C, K.
    unfold reserved. cbn [pidx plimit cidx pmask cmask pbuf cbuf bufs maxcap].
    split; [assumption|]. split; [assumption|]. split; [assumption|]. split; [assumption|].
    split; [assumption|]. split; [assumption|].
    split; [exact (tl_headed_snoc front sl None Hne)|].
    split; [|split; assumption].
    eapply cchain_ext; [discriminate| | |exact Hch].
    + intros i Hi. reflexivity.
    + intros lo'' Hlo'' (_ & _ & _ & _ & Hp' & _).
      assert (lo'' = lo') by lia. subst lo''. fold kl bl.
      cbn [cchain]. unfold cpbase. cbn [pidx plimit cidx pmask cmask pbuf cbuf bufs maxcap].
      split; [assumption|]. split; [assumption|]. split; [assumption|].
      split; [apply cbufok_reserve; assumption|].
      rewrite clen_app. change (clen [None]) with 1.
      repeat match goal with |- context [cap ?x kl] => lazymatch x with q => fail | _ => change (cap x kl) with (cap q kl) end end.
      lia.
  - exists kl. split; [assumption|]. split; [assumption|].
    rewrite Hp, Hpm. replace (2 * (lo' + clen sl) / 2) with (lo' + clen sl) by (symmetry; rewrite Z.mul_comm; apply Z.div_mul; lia).
    apply offset_of_half; lia.
Qed.

(* growing the queue: the resizing producer stores its element itself *)
Lemma cresize_inv q segs v :
  QInv q segs ->
  plimit q <= pidx q -> cidx q + cur_buf_capacity q (pmask q) <= pidx q ->
  0 < maxcap q - (pidx q - cidx q) ->
  exists front sl, segs = front ++ [sl] /\ QInv (resized q v) (front ++ [sl; [Some v]]).
Proof.
  intros (k & C & K & Hk & HC & Hc & Hcm & Hmax & Hlen & Hne & Hch & Hl1 & Hl2) Hslow Hnoroom Havail.
  destruct segs as [|s0 r0]; [destruct Hch|].
  destruct (exists_last (l := s0 :: r0) ltac:(discriminate)) as (front & sl & E).
  rewrite E in *. clear E s0 r0.
  destruct (cchain_last _ _ _ _ _ _ _ Hch) as (lo' & Hlo & (Hb1 & Hpm & HkK & Hbuf & Hp & Hp2 & Hp3)).
  set (kl := k + Z.of_nat (length front)) in *.
  set (bl := (cbuf q + length front)%nat) in *.
  assert (Hkl : 0 <= kl) by (unfold kl; lia).
  pose proof (clen_nonneg sl) as Hzs.
  pose proof (pow2_pos K ltac:(lia)) as HpK.
  pose proof (pow2_pos kl Hkl) as Hpk.
  assert (Hcap : cur_buf_capacity q (pmask q) = cap q kl) by (unfold cap; rewrite Hpm; reflexivity).
  rewrite Hcap in Hnoroom.
  destruct (cap_cases q K kl Hmax ltac:(lia)) as [(Ek & Ec)|(Ek & Ec & Ec2)]; [rewrite Ec in *; lia|].
  rewrite Ec in *. unfold mask_of in Hp2, Hp3, Hnoroom.
  assert (Hroom : clen sl + 1 <= 2 ^ kl) by lia.
  pose proof (pow2_succ kl Hkl) as Hsucc.
  assert (Hblen : buf_len q (pbuf q) = 2 ^ kl + 1).
  { unfold buf_len. rewrite <- Hb1. destruct Hbuf as (_ & Hl & _). exact Hl. }
  assert (Hnewlen : 2 * (buf_len q (pbuf q) - 1) + 1 = 2 ^ (kl + 1) + 1) by (rewrite Hblen; lia).
  assert (Hoff : offset_of (pidx q) (pmask q) = Z.to_nat ((lo' + clen sl) mod 2 ^ kl)).
  { rewrite Hp, Hpm. apply offset_of_half; lia. }
  assert (Hoff2 : offset_of (pidx q) (mask_of (kl + 1)) = Z.to_nat ((lo' + clen sl) mod 2 ^ (kl + 1))).
  { rewrite Hp. apply offset_of_half; lia. }
  assert (Hlk : next_array_offset (pmask q) = Z.to_nat (2 ^ kl)).
  { rewrite Hpm. apply next_array_offset_half; lia. }
  exists front, sl. split; [reflexivity|].
  exists k, C, K.
  unfold resized. rewrite Hnewlen. rewrite (mask_of_len (kl + 1)) by lia.
  rewrite Hoff, Hoff2, Hlk.
  unfold buf_set, with_bufs. cbn [pidx plimit cidx pmask cmask pbuf cbuf bufs maxcap].
  set (newbuf := upd _ (SElem v) (repeat SNil _)).
  assert (Hpb : (pbuf q < length (bufs q))%nat) by lia.
  rewrite (nth_upd_same (pbuf q)) by (rewrite app_length; cbn [length]; lia).
  rewrite (app_nth1 (bufs q) [newbuf] [] Hpb).
  set (oldbuf := upd _ SJump (upd _ (SNext _) _)).
  split; [assumption|]. split; [assumption|]. split; [assumption|]. split; [assumption|].
  split; [assumption|].
  split; [rewrite !upd_length, app_length; cbn [length]; lia|].
  split; [exact (tl_headed_snoc2 front sl v Hne)|].
  split; [|unfold mask_of; split; lia].
  eapply cchain_ext; [discriminate| | |exact Hch].
  - intros i Hi. fold bl in Hb1. rewrite !nth_upd_other by lia. apply app_nth1. lia.
  - intros lo'' Hlo'' (_ & _ & _ & _ & Hp' & _).
    assert (lo'' = lo') by lia. subst lo''. fold kl bl.
    rewrite cchain_cons. split.
    + rewrite Hb1. rewrite nth_upd_same by (rewrite upd_length, app_length; cbn [length]; lia).
      unfold oldbuf. rewrite Hlen. rewrite <- Hb1.
      apply cbufok_jump; assumption.
    + cbn [cchain]. unfold cpbase. cbn [pidx plimit cidx pmask cmask pbuf cbuf bufs maxcap].
      split; [lia|]. split; [reflexivity|]. split; [lia|].
      split.
      { rewrite nth_upd_other by lia. rewrite nth_upd_other by lia.
        rewrite app_nth2 by lia. replace (S bl - length (bufs q))%nat with 0%nat by lia.
        cbn [nth]. unfold newbuf. apply cbufok_fresh. lia. }
      change (clen [Some v]) with 1.
      repeat match goal with |- context [cap ?x (kl + 1)] =>
        lazymatch x with q => fail | _ => change (cap x (kl + 1)) with (cap q (kl + 1)) end end.
      destruct (cap_cases q K (kl + 1) Hmax ltac:(lia)) as [(Ek' & Ec')|(Ek' & Ec' & Ec2')];
        rewrite Ec'; unfold mask_of; try rewrite <- Ek'; lia.
Qed.

(* ------------------------------------------------------------------ *)
(* where a ticket (absolute half index) lives, and publishing it *)

Fixpoint seg_index (segs : list (list cell)) (lo t : Z) : nat :=
  match segs with
  | [] => 0
  | s :: rest => if t <? lo + clen s then 0%nat else S (seg_index rest (lo + clen s) t)
  end.

Definition cell_at (segs : list (list cell)) (lo t : Z) : cell := nth (Z.to_nat (t - lo)) (concat segs) None.

Fixpoint publish_at (segs : list (list cell)) (lo t v : Z) : list (list cell) :=
  match segs with
  | [] => []
  | s :: rest => if t <? lo + clen s then upd (Z.to_nat (t - lo)) (Some v) s :: rest
                 else s :: publish_at rest (lo + clen s) t v
  end.

Lemma concat_publish_at : forall segs lo t v,
  lo <= t < lo + clen (concat segs) ->
  concat (publish_at segs lo t v) = upd (Z.to_nat (t - lo)) (Some v) (concat segs).
Proof.
  induction segs as [|s rest IH]; intros lo t v Ht; [cbn in Ht; unfold clen in Ht; cbn in Ht; lia|].
  cbn [publish_at concat]. cbn [concat] in Ht. pose proof (clen_nonneg s). rewrite clen_app in Ht.
  destruct (t <? lo + clen s) eqn:E.
  - cbn [concat]. unfold clen in *.
    assert (G : forall (l1 l2 : list cell) i x, (i < length l1)%nat -> upd i x (l1 ++ l2) = upd i x l1 ++ l2).
    { induction l1 as [|h l1 IHl]; intros l2 i x Hi; [cbn in Hi; lia|]. destruct i; cbn [upd app]; [reflexivity|].
      rewrite IHl by (cbn [length] in Hi; lia). reflexivity. }
    rewrite G by lia. reflexivity.
  - cbn [concat]. rewrite (IH (lo + clen s) t v) by lia.
    assert (G : forall (l1 l2 : list cell) i x, (length l1 <= i)%nat -> upd i x (l1 ++ l2) = l1 ++ upd (i - length l1) x l2).
    { induction l1 as [|h l1 IHl]; intros l2 i x Hi; [cbn [app length]; replace (i - 0)%nat with i by lia; reflexivity|].
      destruct i; [cbn [length] in Hi; lia|]. cbn [upd app length]. rewrite IHl by (cbn [length] in Hi; lia). reflexivity. }
    rewrite G by (unfold clen in *; lia). f_equal. f_equal. unfold clen in *. lia.
Qed.

Lemma tl_headed_publish : forall segs lo t v,
  Forall headed (tl segs) -> Forall headed (tl (publish_at segs lo t v)).
Proof.
  intros segs lo t v H. destruct segs as [|s rest]; [constructor|].
  cbn [publish_at]. destruct (t <? lo + clen s); [exact H|]. cbn [tl] in *.
  revert H. generalize (lo + clen s). induction rest as [|s1 rest IH]; intros lo1 H; [constructor|].
  cbn [publish_at]. inversion H as [|? ? (w & r & ->) Hr]; subst.
  destruct (t <? lo1 + clen (Some w :: r)).
  - constructor; [|assumption]. destruct (Z.to_nat (t - lo1)) as [|n]; cbn [upd]; [exists v, r|exists w, (upd n (Some v) r)]; reflexivity.
  - constructor; [exists w, r; reflexivity|]. apply IH. assumption.
Qed.

Lemma cchain_publish q K v t : forall segs b k lo,
  cchain (cpbase q K) (bufs q) segs b k lo ->
  lo <= t < lo + clen (concat segs) -> cell_at segs lo t = None ->
  let i := seg_index segs lo t in
  let q' := push_publish q (b + i)%nat (Z.to_nat (t mod 2 ^ (k + Z.of_nat i))) v in
  (forall j, (b <= j < b + length segs)%nat -> (j < length (bufs q))%nat) ->
  cchain (cpbase q' K) (bufs q') (publish_at segs lo t v) b k lo.
Proof.
  induction segs as [|s rest IH]; intros b k lo Hch Ht Hcell i q' Hlenb; [destruct Hch|].
  pose proof (clen_nonneg s) as Hs.
  cbn [concat] in Ht. rewrite clen_app in Ht.
  subst q'. subst i. cbn [seg_index publish_at] in *.
  destruct (t <? lo + clen s) eqn:E.
  - (* the ticket lies in this buffer *)
    replace (b + 0)%nat with b by lia. replace (k + Z.of_nat 0) with k by lia.
    assert (Hj : (Z.to_nat (t - lo) < length s)%nat) by (unfold clen in *; lia).
    assert (Hn : nth (Z.to_nat (t - lo)) s None = None).
    { unfold cell_at in Hcell. cbn [concat] in Hcell. rewrite app_nth1 in Hcell by assumption. exact Hcell. }
    assert (Hoff : t mod 2 ^ k = (lo + Z.of_nat (Z.to_nat (t - lo))) mod 2 ^ k) by (f_equal; lia).
    unfold push_publish, with_bufs, buf_set. cbn [bufs].
    destruct rest as [|s1 rest].
    + cbn [cchain] in *. destruct Hch as (Hb1 & Hpm & HkK & Hbuf & Hp & Hp2 & Hp3).
      unfold cpbase. cbn [pidx plimit cidx pmask cmask pbuf cbuf bufs maxcap].
      split; [assumption|]. split; [assumption|]. split; [assumption|].
      split.
      { rewrite nth_upd_same by (apply Hlenb; cbn [length]; lia). rewrite Hoff. apply cbufok_publish; assumption. }
      unfold clen in *. rewrite upd_length.
      repeat match goal with |- context [cap ?x k] => lazymatch x with q => fail | _ => change (cap x k) with (cap q k) end end.
      auto.
    + rewrite cchain_cons in *. destruct Hch as [Hbuf Hrest]. split.
      * rewrite nth_upd_same by (apply Hlenb; cbn [length]; lia). rewrite Hoff. apply cbufok_publish; assumption.
      * unfold clen. rewrite upd_length. fold (clen s).
        eapply cchain_frame; [| |exact Hrest].
        -- intros j Hjb. apply nth_upd_other. lia.
        -- intros b' k' lo' s' Hb' Hlo' (Hb1 & Hpm & HkK & Hbuf2 & Hp & Hp2 & Hp3).
           unfold cpbase. cbn [pidx plimit cidx pmask cmask pbuf cbuf bufs maxcap].
           split; [assumption|]. split; [assumption|]. split; [assumption|].
           split; [rewrite nth_upd_other by lia; assumption|].
           repeat match goal with |- context [cap ?x k'] => lazymatch x with q => fail | _ => change (cap x k') with (cap q k') end end.
           auto.
  - (* further down the chain *)
    destruct rest as [|s1 rest].
    { cbn [concat] in Ht. unfold clen in Ht at 2. cbn [length] in Ht. lia. }
    rewrite cchain_cons in Hch. destruct Hch as [Hbuf Hrest].
    assert (Hcell' : cell_at (s1 :: rest) (lo + clen s) t = None).
    { unfold cell_at in *. cbn [concat] in Hcell. rewrite app_nth2 in Hcell by (unfold clen in *; lia).
      replace (Z.to_nat (t - (lo + clen s))) with (Z.to_nat (t - lo) - length s)%nat by (unfold clen in *; lia). exact Hcell. }
    set (i' := seg_index (s1 :: rest) (lo + clen s) t).
    replace (b + S i')%nat with (S b + i')%nat by lia.
    replace (k + Z.of_nat (S i')) with (k + 1 + Z.of_nat i') by lia.
    assert (Ht' : lo + clen s <= t < lo + clen s + clen (concat (s1 :: rest))) by lia.
    specialize (IH (S b) (k + 1) (lo + clen s) Hrest Ht' Hcell').
    cbn zeta in IH. fold i' in IH.
    assert (Hne : (s1 :: rest) <> []) by discriminate.
    remember (publish_at (s1 :: rest) (lo + clen s) t v) as rest' eqn:Er.
    assert (Hrest'ne : rest' <> []).
    { subst rest'. cbn [publish_at]. destruct (t <? lo + clen s + clen s1); discriminate. }
    destruct rest' as [|r1 rest'']; [contradiction|].
    rewrite cchain_cons. split.
    + unfold push_publish, with_bufs, buf_set. cbn [bufs]. rewrite nth_upd_other by lia. exact Hbuf.
    + apply IH. intros j Hjb. apply Hlenb. cbn [length] in *. lia.
Qed.

(* ------------------------------------------------------------------ *)
(* pop *)

Lemma cpop_head_inv q c s' rest :
  QInv q ((c :: s') :: rest) ->
  buf_get q (cbuf q) (offset_of (cidx q) (cmask q)) = (match c with Some v => SElem v | None => SNil end) /\
  cidx q <> pidx q /\
  QInv (popped q) (s' :: rest).
Proof.
  intros HQ. pose proof (qinv_total q _ HQ) as Htot.
  destruct HQ as (k & C & K & Hk & HC & Hc & Hcm & Hmax & Hlen & Hne & Hch & Hl1 & Hl2).
  assert (Hoff : offset_of (cidx q) (cmask q) = Z.to_nat (C mod 2 ^ k)).
  { rewrite Hc, Hcm. apply offset_of_half; lia. }
  assert (Hnz : cidx q <> pidx q).
  { cbn [concat] in Htot. rewrite clen_app in Htot. unfold clen at 1 in Htot. cbn [length] in Htot.
    pose proof (clen_nonneg (concat rest)). lia. }
  unfold buf_get, popped, buf_set. rewrite Hoff.
  destruct rest as [|s1 rest].
  - cbn [cchain] in Hch. destruct Hch as (Hb1 & Hpm & HkK & Hbuf & Hp & Hp2 & Hp3).
    split; [exact (cbufok_head _ _ _ _ _ _ _ Hbuf)|]. split; [exact Hnz|].
    pose proof (cbufok_pop _ _ _ _ _ _ _ Hbuf) as Hbuf'.
    exists k, (C + 1), K. cbn [pidx plimit cidx pmask cmask pbuf cbuf bufs maxcap].
    split; [assumption|]. split; [lia|]. split; [lia|]. split; [assumption|]. split; [assumption|].
    split; [rewrite upd_length; assumption|]. split; [constructor|].
    split; [|split; lia].
    cbn [cchain]. unfold cpbase. cbn [pidx plimit cidx pmask cmask pbuf cbuf bufs maxcap].
    split; [assumption|]. split; [assumption|]. split; [assumption|].
    split; [rewrite nth_upd_same by lia; assumption|].
    unfold clen in *. cbn [length] in Hp.
    repeat match goal with |- context [cap ?x k] =>
      lazymatch x with q => fail | _ => change (cap x k) with (cap q k) end end.
    lia.
  - rewrite cchain_cons in Hch. destruct Hch as [Hbuf Hrest].
    split; [exact (cbufok_head _ _ _ _ _ _ _ Hbuf)|]. split; [exact Hnz|].
    pose proof (cbufok_pop _ _ _ _ _ _ _ Hbuf) as Hbuf'.
    assert (Hcb : (cbuf q < length (bufs q))%nat).
    { destruct (Nat.lt_ge_cases (cbuf q) (length (bufs q))) as [Hlt|Hge]; [assumption|].
      rewrite (nth_overflow (bufs q) [] Hge) in Hbuf. destruct Hbuf as (_ & Hl & _).
      cbn [length] in Hl. pose proof (pow2_pos k Hk). lia. }
    exists k, (C + 1), K. cbn [pidx plimit cidx pmask cmask pbuf cbuf bufs maxcap].
    split; [assumption|]. split; [lia|]. split; [lia|]. split; [assumption|]. split; [assumption|].
    split; [rewrite upd_length; assumption|]. split; [assumption|].
    split; [|split; lia].
    rewrite cchain_cons. split.
    + rewrite nth_upd_same by assumption. assumption.
    + unfold clen in *. cbn [length] in Hrest.
      replace (C + 1 + Z.of_nat (length s')) with (C + Z.of_nat (S (length s'))) by lia.
      eapply cchain_frame; [| |exact Hrest].
      * intros i Hi. apply nth_upd_other. lia.
      * intros b' k' lo' s Hb' Hlo' (Hb1 & Hpm & HkK & Hbuf2 & Hp & Hp2 & Hp3).
        unfold cpbase. cbn [pidx plimit cidx pmask cmask pbuf cbuf bufs maxcap].
        split; [assumption|]. split; [assumption|]. split; [assumption|].
        split; [rewrite nth_upd_other by lia; assumption|].
        repeat match goal with |- context [cap ?x k'] =>
          lazymatch x with q => fail | _ => change (cap x k') with (cap q k') end end.
        auto.
Qed.

Lemma cchain_head_len (base : nat -> Z -> Z -> list cell -> Prop) bufs s rest b k lo :
  (forall b' k' lo' s', base b' k' lo' s' -> Z.of_nat (length (nth b' bufs [])) = 2 ^ k' + 1) ->
  cchain base bufs (s :: rest) b k lo -> Z.of_nat (length (nth b bufs [])) = 2 ^ k + 1.
Proof.
  intros Hb H. destruct rest as [|s1 rest].
  - cbn [cchain] in H. eapply Hb; eassumption.
  - rewrite cchain_cons in H. destruct H as [(_ & Hl & _) _]. exact Hl.
Qed.

Lemma cpop_jump_inv q s2 rest :
  QInv q ([] :: s2 :: rest) ->
  buf_get q (cbuf q) (offset_of (cidx q) (cmask q)) = SJump /\
  buf_get q (cbuf q) (next_array_offset (cmask q)) = SNext (S (cbuf q)) /\
  QInv (jumped q) (s2 :: rest) /\ headed s2.
Proof.
  intros (k & C & K & Hk & HC & Hc & Hcm & Hmax & Hlen & Hne & Hch & Hl1 & Hl2).
  assert (Hoff : offset_of (cidx q) (cmask q) = Z.to_nat (C mod 2 ^ k)).
  { rewrite Hc, Hcm. apply offset_of_half; lia. }
  assert (Hlk : next_array_offset (cmask q) = Z.to_nat (2 ^ k)).
  { rewrite Hcm. apply next_array_offset_half; lia. }
  pose proof (pow2_pos k Hk) as Hpk.
  rewrite cchain_cons in Hch. destruct Hch as [Hbuf Hrest].
  change (clen []) with 0 in Hrest. replace (C + 0) with C in Hrest by lia.
  cbn [tl] in Hne. inversion Hne as [|? ? Hs2 Hne']; subst.
  unfold buf_get. rewrite Hoff, Hlk.
  destruct Hbuf as (_ & Hl & Hlink & Hfit & Hw).
  split.
  { rewrite (Hw C) by lia. unfold cwant. change (clen []) with 0.
    replace (C <? C + 0) with false by lia. replace (C =? C + 0) with true by lia. reflexivity. }
  split; [exact Hlink|]. split; [|exact Hs2].
  assert (Hcb : (cbuf q < length (bufs q))%nat).
  { destruct (Nat.lt_ge_cases (cbuf q) (length (bufs q))) as [Hlt|Hge]; [assumption|].
    rewrite (nth_overflow (bufs q) [] Hge) in Hl. cbn [length] in Hl. lia. }
  assert (Hnl : Z.of_nat (length (nth (S (cbuf q)) (bufs q) [])) = 2 ^ (k + 1) + 1).
  { eapply cchain_head_len; [|exact Hrest].
    intros b' k' lo' s' (_ & _ & _ & (_ & Hl' & _) & _). exact Hl'. }
  unfold jumped, buf_set. rewrite Hlk.
  rewrite (nth_upd_other (cbuf q) (S (cbuf q))) by lia. rewrite Hnl.
  rewrite (mask_of_len (k + 1)) by lia.
  exists (k + 1), C, K. cbn [pidx plimit cidx pmask cmask pbuf cbuf bufs maxcap].
  split; [lia|]. split; [assumption|]. split; [assumption|]. split; [reflexivity|]. split; [assumption|].
  split; [rewrite upd_length; assumption|]. split; [assumption|].
  split; [|split; assumption].
  eapply cchain_frame; [| |exact Hrest].
  - intros i Hi. apply nth_upd_other. lia.
  - intros b' k' lo' s Hb' Hlo' (Hb1 & Hpm & HkK & Hbuf2 & Hp & Hp2 & Hp3).
    unfold cpbase. cbn [pidx plimit cidx pmask cmask pbuf cbuf bufs maxcap].
    split; [assumption|]. split; [assumption|]. split; [assumption|].
    split; [rewrite nth_upd_other by lia; assumption|].
    repeat match goal with |- context [cap ?x k'] =>
      lazymatch x with q => fail | _ => change (cap x k') with (cap q k') end end.
    auto.
Qed.

(* what a pop does, by the first cell of the contents *)
Theorem cpop_spec q segs : QInv q segs ->
  match concat segs with
  | [] => try_pop q = (q, PopEmpty)
  | None :: _ => try_pop q = (q, PopWait)
  | Some v :: r => snd (try_pop q) = PopElem v /\
                   exists segs', QInv (fst (try_pop q)) segs' /\ concat segs' = r /\
                     cidx (fst (try_pop q)) = cidx q + 2
  end.
Proof.
  intros H. destruct segs as [|s rest].
  { destruct H as (k & C & K & _ & _ & _ & _ & _ & _ & _ & Hch & _). destruct Hch. }
  destruct s as [|c s'].
  - destruct rest as [|s2 rest].
    + cbn [concat app]. pose proof (qinv_total q _ H) as Ht. change (clen (concat [[]])) with 0 in Ht.
      destruct H as (k & C & K & Hk & HC & Hc & Hcm & Hmax & Hlen & Hne & Hch & Hl1 & Hl2).
      cbn [cchain] in Hch. destruct Hch as (Hb1 & Hpm & HkK & Hbuf & Hp & Hp2 & Hp3).
      assert (Hoff : offset_of (cidx q) (cmask q) = Z.to_nat (C mod 2 ^ k)).
      { rewrite Hc, Hcm. apply offset_of_half; lia. }
      pose proof (pow2_pos k Hk) as Hpk.
      destruct Hbuf as (_ & Hl & Hlink & Hfit & Hw).
      unfold try_pop, buf_get. rewrite Hoff. rewrite (Hw C) by lia.
      unfold cwant. change (clen []) with 0. replace (C <? C + 0) with false by lia. cbn [andb].
      replace (cidx q =? pidx q) with true by lia. reflexivity.
    + destruct (cpop_jump_inv q s2 rest H) as (Hslot & Hlink & HI & (v2 & s2' & ->)).
      destruct (cpop_head_inv (jumped q) (Some v2) s2' rest HI) as (Hslot2 & _ & HI2).
      cbn [concat app].
      unfold try_pop. rewrite Hslot, Hlink.
      change (buf_get (with_bufs q (buf_set q (cbuf q) (next_array_offset (cmask q)) SNil)) (S (cbuf q))
                (offset_of (cidx q) (Z.shiftl (buf_len (with_bufs q (buf_set q (cbuf q) (next_array_offset (cmask q)) SNil)) (S (cbuf q)) - 2) 1)))
        with (buf_get (jumped q) (cbuf (jumped q)) (offset_of (cidx (jumped q)) (cmask (jumped q)))).
      rewrite Hslot2. cbn [fst snd]. split; [reflexivity|].
      exists (s2' :: rest). split; [exact HI2|]. split; reflexivity.
  - destruct (cpop_head_inv q c s' rest H) as (Hslot & Hnz & HI).
    cbn [concat app]. destruct c as [v|].
    + unfold try_pop. rewrite Hslot. cbn [fst snd]. split; [reflexivity|].
      exists (s' :: rest). split; [exact HI|]. split; reflexivity.
    + unfold try_pop. rewrite Hslot. replace (cidx q =? pidx q) with false by lia. reflexivity.
Qed.

(* ------------------------------------------------------------------ *)
(* locating tickets under the transformations of the segment list *)

Definition loc (segs : list (list cell)) (b : nat) (k lo t : Z) : nat * nat :=
  ((b + seg_index segs lo t)%nat, Z.to_nat (t mod 2 ^ (k + Z.of_nat (seg_index segs lo t)))).

Lemma seg_index_snoc c : forall front sl lo t,
  t < lo + clen (concat (front ++ [sl])) ->
  seg_index (front ++ [sl ++ [c]]) lo t = seg_index (front ++ [sl]) lo t.
Proof.
  induction front as [|s f IH]; intros sl lo t Ht; cbn [app seg_index concat] in *.
  - rewrite app_nil_r in Ht. rewrite clen_app. change (clen [c]) with 1.
    replace (t <? lo + (clen sl + 1)) with true by lia. replace (t <? lo + clen sl) with true by lia. reflexivity.
  - rewrite clen_app in Ht. destruct (t <? lo + clen s); [reflexivity|]. f_equal. apply IH. lia.
Qed.

Lemma seg_index_end c : forall front sl lo,
  seg_index (front ++ [sl ++ [c]]) lo (lo + clen (concat (front ++ [sl]))) = length front.
Proof.
  induction front as [|s f IH]; intros sl lo; cbn [app seg_index concat length].
  - rewrite app_nil_r. rewrite clen_app. change (clen [c]) with 1.
    replace (lo + clen sl <? lo + (clen sl + 1)) with true by lia. reflexivity.
  - rewrite clen_app. pose proof (clen_nonneg (concat (f ++ [sl]))).
    replace (lo + (clen s + clen (concat (f ++ [sl]))) <? lo + clen s) with false by lia.
    f_equal. replace (lo + (clen s + clen (concat (f ++ [sl])))) with (lo + clen s + clen (concat (f ++ [sl]))) by lia.
    apply IH.
Qed.

Lemma seg_index_snoc2 c : forall front sl lo t,
  t < lo + clen (concat (front ++ [sl])) ->
  seg_index (front ++ [sl; [c]]) lo t = seg_index (front ++ [sl]) lo t.
Proof.
  induction front as [|s f IH]; intros sl lo t Ht; cbn [app seg_index concat] in *.
  - rewrite app_nil_r in Ht. replace (t <? lo + clen sl) with true by lia. reflexivity.
  - rewrite clen_app in Ht. destruct (t <? lo + clen s); [reflexivity|]. f_equal. apply IH. lia.
Qed.

Lemma seg_index_publish v t0 : forall segs lo t,
  seg_index (publish_at segs lo t0 v) lo t = seg_index segs lo t.
Proof.
  induction segs as [|s rest IH]; intros lo t; [reflexivity|]. cbn [publish_at].
  destruct (t0 <? lo + clen s); cbn [seg_index].
  - unfold clen. rewrite upd_length. reflexivity.
  - destruct (t <? lo + clen s); [reflexivity|]. f_equal. apply IH.
Qed.

Lemma cell_at_snoc (front : list (list cell)) sl c lo t :
  lo <= t < lo + clen (concat (front ++ [sl])) ->
  cell_at (front ++ [sl ++ [c]]) lo t = cell_at (front ++ [sl]) lo t.
Proof.
  intros Ht. unfold cell_at. rewrite cconcat_snoc. apply app_nth1. unfold clen in Ht. lia.
Qed.

Lemma cell_at_snoc2 (front : list (list cell)) sl c lo t :
  lo <= t < lo + clen (concat (front ++ [sl])) ->
  cell_at (front ++ [sl; [c]]) lo t = cell_at (front ++ [sl]) lo t.
Proof.
  intros Ht. unfold cell_at. rewrite cconcat_snoc2. apply app_nth1. unfold clen in Ht. lia.
Qed.

Lemma cell_at_end (front : list (list cell)) sl c lo :
  cell_at (front ++ [sl ++ [c]]) lo (lo + clen (concat (front ++ [sl]))) = c.
Proof.
  unfold cell_at. rewrite cconcat_snoc. rewrite app_nth2 by (unfold clen; lia).
  replace (Z.to_nat (lo + clen (concat (front ++ [sl])) - lo) - length (concat (front ++ [sl])))%nat with 0%nat by (unfold clen; lia).
  reflexivity.
Qed.

Lemma cell_at_publish segs lo t0 v t :
  lo <= t0 < lo + clen (concat segs) -> lo <= t ->
  cell_at (publish_at segs lo t0 v) lo t = if t =? t0 then Some v else cell_at segs lo t.
Proof.
  intros Ht0 Ht. unfold cell_at. rewrite concat_publish_at by assumption.
  destruct (Z.eqb_spec t t0) as [->|Hne].
  - apply nth_upd_same. unfold clen in Ht0. lia.
  - apply nth_upd_other. lia.
Qed.

(* ------------------------------------------------------------------ *)
(* the concurrent queue and its specification: a FIFO of reservations *)

Definition pent : Type := (Z * nat * nat * Z)%type.     (* ticket, buffer, offset, value *)
Definition tk (e : pent) : Z := let '(t, _, _, _) := e in t.

Fixpoint find_pend (t : Z) (pend : list pent) : option (nat * nat * Z) :=
  match pend with
  | [] => None
  | (t', b, off, v) :: rest => if t' =? t then Some (b, off, v) else find_pend t rest
  end.
Fixpoint remove_pend (t : Z) (pend : list pent) : list pent :=
  match pend with
  | [] => []
  | (t', b, off, v) :: rest => if t' =? t then rest else (t', b, off, v) :: remove_pend t rest
  end.

Inductive cop := CReserve (v : Z) | CPublish (t : Z) | CPop.
Inductive cout := ORefused | OTicket (t : Z) (direct : bool) | OPublished (ok : bool) | OPopped (r : popres).

Definition cstate : Type := (mpsc * list pent)%type.

Definition cstep (c : cstate) (o : cop) : cstate * cout :=
  let '(q, pend) := c in
  match o with
  | CReserve v =>
      match push_reserve q v with
      | (q', RFull) => ((q', pend), ORefused)
      | (q', RSlot b off) => ((q', pend ++ [(pidx q / 2, b, off, v)]), OTicket (pidx q / 2) false)
      | (q', RResized) => ((q', pend), OTicket (pidx q / 2) true)
      end
  | CPublish t =>
      match find_pend t pend with
      | Some (b, off, v) => ((push_publish q b off v, remove_pend t pend), OPublished true)
      | None => ((q, pend), OPublished false)
      end
  | CPop => let '(q', r) := try_pop q in ((q', pend), OPopped r)
  end.

(* the specification: the cells in reservation order, each with its value and whether it is published *)
Definition astate : Type := (Z * list (Z * bool))%type.      (* ticket of the head cell, cells *)
Definition alen (l : list (Z * bool)) : Z := Z.of_nat (length l).

Definition astep (capacity : Z) (a : astate) (o : cop) (out : cout) : option astate :=
  let '(base, cells) := a in
  match o, out with
  | CReserve v, ORefused => if alen cells =? capacity then Some a else None
  | CReserve v, OTicket t direct =>
      if (alen cells <? capacity) && (t =? base + alen cells) then Some (base, cells ++ [(v, direct)]) else None
  | CPublish t, OPublished true =>
      if (base <=? t) && (t <? base + alen cells) && negb (snd (nth (Z.to_nat (t - base)) cells (0, true)))
      then Some (base, upd (Z.to_nat (t - base)) (fst (nth (Z.to_nat (t - base)) cells (0, true)), true) cells)
      else None
  | CPublish t, OPublished false =>
      if (base <=? t) && (t <? base + alen cells) && negb (snd (nth (Z.to_nat (t - base)) cells (0, true)))
      then None else Some a                 (* not a pending ticket: nothing happens *)
  | CPop, OPopped r =>
      match cells with
      | [] => if match r with PopEmpty => true | _ => false end then Some a else None
      | (v, true) :: rest => match r with PopElem w => if w =? v then Some (base + 1, rest) else None | _ => None end
      | (v, false) :: _ => if match r with PopWait => true | _ => false end then Some a else None
      end
  | _, _ => None
  end.

(* a whole run: the concrete machine produces outputs; the specification must accept every one *)
Fixpoint explained (capacity : Z) (c : cstate) (a : astate) (ops : list cop) : Prop :=
  match ops with
  | [] => True
  | o :: rest => let '(c', out) := cstep c o in
                 match astep capacity a o out with
                 | Some a' => explained capacity c' a' rest
                 | None => False
                 end
  end.

Definition proj (c : Z * bool) : cell := if snd c then Some (fst c) else None.

Definition PendOK (q : mpsc) (segs : list (list cell)) (cells : list (Z * bool)) (pend : list pent) : Prop :=
  exists k C, 0 <= k /\ cmask q = mask_of k /\ 0 <= C /\ cidx q = 2 * C /\ NoDup (map tk pend) /\
    (forall t b off v, In (t, b, off, v) pend ->
       C <= t < C + alen cells /\ nth (Z.to_nat (t - C)) cells (0, true) = (v, false) /\
       loc segs (cbuf q) k C t = (b, off)) /\
    (forall t, C <= t < C + alen cells -> snd (nth (Z.to_nat (t - C)) cells (0, true)) = false -> In t (map tk pend)).

Definition CR (c : cstate) (a : astate) : Prop :=
  let '(q, pend) := c in let '(base, cells) := a in
  cidx q = 2 * base /\
  exists segs, QInv q segs /\ concat segs = map proj cells /\ PendOK q segs cells pend.

(* ------------------------------------------------------------------ *)
(* helpers *)

Lemma mask_of_inj k k' : 0 <= k -> 0 <= k' -> mask_of k = mask_of k' -> k = k'.
Proof. unfold mask_of. intros Hk Hk' E. apply (Z.pow_inj_r 2); lia. Qed.

Lemma qinv_le q segs : QInv q segs ->
  exists K, 0 <= K /\ maxcap q = 2 * 2 ^ K /\ mpsc_capacity q = 2 ^ K /\ clen (concat segs) <= 2 ^ K.
Proof.
  intros H. pose proof (qinv_total q segs H) as Ht.
  destruct H as (k & C & K & Hk & HC & Hc & Hcm & Hmax & Hlen & Hne & Hch & Hl1 & Hl2).
  destruct segs as [|s0 r0]; [destruct Hch|].
  destruct (exists_last (l := s0 :: r0) ltac:(discriminate)) as (front & sl & E).
  rewrite E in *.
  destruct (cchain_last _ _ _ _ _ _ _ Hch) as (lo' & Hlo & (Hb1 & Hpm & HkK & Hbuf & Hp & Hp2 & Hp3)).
  exists K. split; [lia|]. split; [assumption|]. split; [|lia].
  unfold mpsc_capacity. rewrite Hmax. rewrite Z.mul_comm. apply Z.div_mul. lia.
Qed.

Lemma seg_index_lt : forall segs lo t, segs <> [] -> t < lo + clen (concat segs) ->
  (seg_index segs lo t < length segs)%nat.
Proof.
  induction segs as [|s rest IH]; intros lo t Hne Ht; [contradiction|]. cbn [seg_index length concat] in *.
  rewrite clen_app in Ht. destruct (t <? lo + clen s) eqn:E; [lia|].
  destruct rest as [|s1 rest]; [cbn [concat] in Ht; unfold clen in Ht at 2; cbn [length] in Ht; lia|].
  specialize (IH (lo + clen s) t ltac:(discriminate) ltac:(lia)). lia.
Qed.

Lemma map_upd {A B} (f : A -> B) x : forall l i, map f (upd i x l) = upd i (f x) (map f l).
Proof.
  induction l as [|h t IH]; intros i; [destruct i; reflexivity|].
  destruct i; cbn [upd map]; [reflexivity|]. rewrite IH. reflexivity.
Qed.

Lemma find_pend_in t pend b off v : find_pend t pend = Some (b, off, v) -> In (t, b, off, v) pend.
Proof.
  induction pend as [|[[[t' b'] off'] v'] rest IH]; cbn [find_pend]; [discriminate|].
  destruct (Z.eqb_spec t' t) as [->|Hne].
  - intros E. injection E as -> -> ->. left. reflexivity.
  - intros E. right. apply IH. exact E.
Qed.

Lemma find_pend_none t pend : find_pend t pend = None -> ~ In t (map tk pend).
Proof.
  induction pend as [|[[[t' b'] off'] v'] rest IH]; cbn [find_pend map tk]; [intros _ []|].
  destruct (Z.eqb_spec t' t) as [->|Hne]; [discriminate|]. intros E [H|H]; [contradiction|]. exact (IH E H).
Qed.

Lemma remove_pend_in t pend e : NoDup (map tk pend) ->
  (In e (remove_pend t pend) <-> In e pend /\ tk e <> t).
Proof.
  induction pend as [|[[[t' b'] off'] v'] rest IH]; intros Hnd; cbn [remove_pend]; [tauto|].
  cbn [map tk] in Hnd. inversion Hnd as [|? ? Hn Hnd']; subst.
  destruct (Z.eqb_spec t' t) as [->|Hne].
  - split.
    + intros H. split; [right; exact H|]. intros E. apply Hn. rewrite <- E. apply in_map. exact H.
    + intros [[E|H] Hneq]; [subst e; cbn [tk] in Hneq; contradiction|exact H].
  - cbn [In]. rewrite (IH Hnd'). split.
    + intros [E|[H1 H2]]; [subst e; split; [left; reflexivity|exact Hne]|split; [right; exact H1|exact H2]].
    + intros [[E|H] Hneq]; [left; exact E|right; split; assumption].
Qed.

Lemma remove_pend_nodup t pend : NoDup (map tk pend) -> NoDup (map tk (remove_pend t pend)).
Proof.
  induction pend as [|[[[t' b'] off'] v'] rest IH]; intros Hnd; cbn [remove_pend]; [constructor|].
  cbn [map tk] in Hnd. inversion Hnd as [|? ? Hn Hnd']; subst.
  destruct (t' =? t); [exact Hnd'|]. cbn [map tk]. constructor; [|apply IH; exact Hnd'].
  intros H. apply Hn. apply in_map_iff in H. destruct H as (e & E & He).
  apply (remove_pend_in t rest e Hnd') in He. apply in_map_iff. exists e. tauto.
Qed.

(* ------------------------------------------------------------------ *)
(* the simulation, operation by operation *)

Lemma alen_map (cells : list (Z * bool)) : clen (map proj cells) = alen cells.
Proof. unfold clen, alen. rewrite map_length. reflexivity. Qed.

Lemma cell_at_map segs cells C t :
  concat segs = map proj cells -> C <= t < C + alen cells ->
  cell_at segs C t = proj (nth (Z.to_nat (t - C)) cells (0, true)).
Proof.
  intros E Ht. unfold cell_at. rewrite E. change None with (proj (0, false)). rewrite map_nth.
  f_equal. apply nth_indep. unfold alen in Ht. lia.
Qed.

Lemma sim_publish q pend base cells t b off v :
  CR (q, pend) (base, cells) -> find_pend t pend = Some (b, off, v) ->
  CR (push_publish q b off v, remove_pend t pend)
     (base, upd (Z.to_nat (t - base)) (v, true) cells) /\
  base <= t < base + alen cells /\ nth (Z.to_nat (t - base)) cells (0, true) = (v, false).
Proof.
  intros (Hbase & segs & HQ & Hcat & (k & C & Hk & Hcm & HC & Hc & Hnd & Hin & Hall)) Hf.
  assert (C = base) by lia. subst C.
  apply find_pend_in in Hf. destruct (Hin t b off v Hf) as (Hr & Hn & Hloc).
  assert (Hrange : base <= t < base + clen (concat segs)) by (rewrite Hcat, alen_map; exact Hr).
  assert (Hcell : cell_at segs base t = None) by (rewrite (cell_at_map segs cells base t Hcat Hr), Hn; reflexivity).
  split; [|split; assumption].
  pose proof HQ as (k1 & C1 & K & Hk1 & HC1 & Hc1 & Hcm1 & Hmax & Hlen & Hne & Hch & Hl1 & Hl2).
  assert (C1 = base) by lia. subst C1.
  assert (k1 = k) by (apply mask_of_inj; [assumption|assumption|congruence]). subst k1.
  assert (Hsegs : segs <> []) by (intros ->; destruct Hch).
  assert (Hlast : (cbuf q + (length segs - 1) = pbuf q)%nat).
  { destruct (exists_last Hsegs) as (front & sl & ->). rewrite app_length. cbn [length].
    destruct (cchain_last _ _ _ _ _ _ _ Hch) as (lo' & _ & (Hb1 & _)). lia. }
  unfold loc in Hloc. injection Hloc as Hb Ho.
  pose proof (cchain_publish q K v t segs (cbuf q) k base Hch Hrange Hcell) as Hpub.
  cbn zeta in Hpub. rewrite Hb, Ho in Hpub.
  assert (Hlenb : forall j, (cbuf q <= j < cbuf q + length segs)%nat -> (j < length (bufs q))%nat).
  { intros j Hj. assert (length segs <> 0)%nat by (destruct segs; [contradiction|discriminate]). lia. }
  specialize (Hpub Hlenb).
  split; [exact Hbase|]. exists (publish_at segs base t v). split; [|split].
  - exists k, base, K. unfold push_publish, with_bufs, buf_set in *. cbn [pidx plimit cidx pmask cmask pbuf cbuf bufs maxcap] in *.
    split; [assumption|]. split; [assumption|]. split; [assumption|]. split; [assumption|]. split; [assumption|].
    split; [rewrite upd_length; assumption|].
    split; [apply tl_headed_publish; exact Hne|].
    split; [exact Hpub|]. split; assumption.
  - rewrite concat_publish_at by assumption. rewrite Hcat. rewrite map_upd. reflexivity.
  - exists k, base. unfold push_publish, with_bufs. cbn [pidx plimit cidx pmask cmask pbuf cbuf bufs maxcap].
    split; [assumption|]. split; [assumption|]. split; [assumption|]. split; [assumption|].
    split; [apply remove_pend_nodup; assumption|].
    unfold alen. rewrite upd_length. fold (alen cells). split.
    + intros t' b' off' v' Hin'. apply (remove_pend_in t pend _ Hnd) in Hin'. destruct Hin' as [Hin' Hneq]. cbn [tk] in Hneq.
      destruct (Hin t' b' off' v' Hin') as (Hr' & Hn' & Hloc').
      split; [assumption|]. split; [rewrite nth_upd_other by lia; assumption|].
      unfold loc in *. rewrite seg_index_publish. exact Hloc'.
    + intros t' Hr' Hu.
      destruct (Z.eq_dec t' t) as [->|Hneq].
      * rewrite nth_upd_same in Hu by (unfold alen in Hr; lia). discriminate Hu.
      * rewrite nth_upd_other in Hu by lia. specialize (Hall t' Hr' Hu).
        apply in_map_iff in Hall. destruct Hall as (e & E & He). apply in_map_iff. exists e. split; [exact E|].
        apply (remove_pend_in t pend e Hnd). split; [exact He|congruence].
Qed.

Lemma nodup_snoc {A} (l : list A) x : NoDup l -> ~ In x l -> NoDup (l ++ [x]).
Proof.
  induction l as [|h t IH]; intros Hn Hx; cbn [app]; [constructor; [intros []|constructor]|].
  inversion Hn as [|? ? Hh Ht]; subst. constructor.
  - rewrite in_app_iff. intros [H|[E|[]]]; [contradiction|]. subst h. apply Hx. left. reflexivity.
  - apply IH; [assumption|]. intros H. apply Hx. right. exact H.
Qed.

Lemma sim_reserve q pend base cells v :
  CR (q, pend) (base, cells) ->
  let '(c', out) := cstep (q, pend) (CReserve v) in
  exists a', astep (mpsc_capacity q) (base, cells) (CReserve v) out = Some a' /\ CR c' a' /\
             mpsc_capacity (fst c') = mpsc_capacity q.
Proof.
  intros (Hbase & segs & HQ & Hcat & (k & C & Hk & Hcm & HC & Hc & Hnd & Hin & Hall)).
  assert (C = base) by lia. subst C.
  pose proof (qinv_total q segs HQ) as Htot. rewrite Hcat, alen_map in Htot.
  destruct (qinv_le q segs HQ) as (K & HK & Hmax & Hcapq & Hle). rewrite Hcat, alen_map in Hle.
  assert (HP : pidx q / 2 = base + alen cells).
  { replace (pidx q) with ((base + alen cells) * 2) by lia. apply Z.div_mul. lia. }
  pose proof HQ as (k1 & C1 & K1 & Hk1 & HC1 & Hc1 & Hcm1 & Hmax1 & Hlen & Hne & Hch & Hl1 & Hl2).
  assert (C1 = base) by lia. subst C1.
  assert (k1 = k) by (apply mask_of_inj; [assumption|assumption|congruence]). subst k1.
  (* the claim path, common to the fast and the slow case *)
  assert (Hclaim : forall pl, pl = plimit q \/ pl = cidx q + cur_buf_capacity q (pmask q) -> pidx q < pl ->
            exists a', astep (mpsc_capacity q) (base, cells) (CReserve v) (OTicket (pidx q / 2) false) = Some a' /\
              CR (reserved q pl, pend ++ [(pidx q / 2, pbuf q, offset_of (pidx q) (pmask q), v)]) a').
  { intros pl Hpl Hlt.
    destruct (reserve_inv q segs pl HQ Hpl Hlt) as (front & sl & -> & HQ' & kl & Hkl & Hpm & Hoff).
    destruct (cchain_last _ _ _ _ _ _ _ Hch) as (lo' & _ & (Hb1 & Hpm' & _)).
    assert (kl = k + Z.of_nat (length front)) by (apply mask_of_inj; [assumption|lia|congruence]). subst kl.
    destruct (qinv_le _ _ HQ') as (K' & HK' & Hmax' & _ & Hle'). rewrite cconcat_snoc, clen_app, Hcat, alen_map in Hle'.
    change (clen [None]) with 1 in Hle'. cbn [reserved maxcap] in Hmax'.
    assert (2 ^ K' = 2 ^ K) by lia.
    exists (base, cells ++ [(v, false)]). split.
    - cbn [astep]. rewrite Hcapq, HP. replace (alen cells <? 2 ^ K) with true by lia.
      replace (base + alen cells =? base + alen cells) with true by lia. reflexivity.
    - split; [exact Hbase|]. exists (front ++ [sl ++ [None]]). split; [exact HQ'|]. split.
      + rewrite cconcat_snoc, Hcat, map_app. reflexivity.
      + exists k, base. cbn [reserved cmask cidx cbuf].
        split; [assumption|]. split; [assumption|]. split; [assumption|]. split; [assumption|].
        assert (Halen : alen (cells ++ [(v, false)]) = alen cells + 1) by (unfold alen; rewrite app_length; cbn [length]; lia).
        split.
        { rewrite map_app. cbn [map tk]. apply nodup_snoc; [assumption|].
          intros Hx. apply in_map_iff in Hx. destruct Hx as ([[[t' b'] off'] v'] & E & He).
          cbn [tk] in E. subst t'. destruct (Hin _ _ _ _ He) as (Hr & _). lia. }
        rewrite Halen. split.
        * intros t b off v0 Hin0. apply in_app_or in Hin0. destruct Hin0 as [Hin0|[E|[]]].
          -- destruct (Hin t b off v0 Hin0) as (Hr & Hn & Hloc).
             split; [lia|]. split; [rewrite app_nth1 by (unfold alen in Hr; lia); exact Hn|].
             unfold loc in *. rewrite seg_index_snoc by (rewrite Hcat, alen_map; lia). exact Hloc.
          -- injection E as <- <- <- <-. rewrite HP.
             split; [pose proof (Zle_0_nat (length cells)); unfold alen; lia|].
             split.
             { rewrite app_nth2 by (unfold alen; lia).
               replace (Z.to_nat (base + alen cells - base) - length cells)%nat with 0%nat by (unfold alen; lia). reflexivity. }
             unfold loc. replace (base + alen cells) with (base + clen (concat (front ++ [sl]))) by (rewrite Hcat, alen_map; reflexivity).
             rewrite seg_index_end. f_equal; [lia|].
             rewrite Hoff. rewrite HP. rewrite Hcat, alen_map. reflexivity.
        * intros t Hr Hu.
          destruct (Z.eq_dec t (base + alen cells)) as [->|Hneq].
          -- rewrite map_app. apply in_or_app. right. cbn [map tk]. left. exact HP.
          -- rewrite app_nth1 in Hu by (unfold alen in *; lia).
             rewrite map_app. apply in_or_app. left. apply Hall; [lia|exact Hu]. }
  unfold cstep, push_reserve.
  destruct (plimit q <=? pidx q) eqn:E1.
  - destruct (cidx q + cur_buf_capacity q (pmask q) >? pidx q) eqn:E2.
    + destruct (Hclaim (cidx q + cur_buf_capacity q (pmask q)) (or_intror eq_refl) ltac:(lia)) as (a' & Ha & HR).
      exists a'. split; [exact Ha|]. split; [exact HR|reflexivity].
    + destruct (maxcap q - (pidx q - cidx q) <=? 0) eqn:E3.
      * exists (base, cells). split; [|split; [|reflexivity]].
        -- cbn [astep]. rewrite Hcapq. replace (alen cells =? 2 ^ K) with true by lia. reflexivity.
        -- split; [exact Hbase|]. exists segs. split; [exact HQ|]. split; [exact Hcat|].
           exists k, base. split; [assumption|]. split; [assumption|]. split; [assumption|]. split; [assumption|].
           split; [assumption|]. split; [exact Hin|exact Hall].
      * destruct (cresize_inv q segs v HQ ltac:(lia) ltac:(lia) ltac:(lia)) as (front & sl & -> & HQ').
        destruct (qinv_le _ _ HQ') as (K' & HK' & Hmax' & _ & Hle'). rewrite cconcat_snoc2, clen_app, Hcat, alen_map in Hle'.
        change (clen [Some v]) with 1 in Hle'.
        assert (Hmx : maxcap (resized q v) = maxcap q) by reflexivity. rewrite Hmx in Hmax'.
        assert (2 ^ K' = 2 ^ K) by lia.
        exists (base, cells ++ [(v, true)]). split; [|split; [|reflexivity]].
        -- cbn [astep]. rewrite Hcapq, HP. replace (alen cells <? 2 ^ K) with true by lia.
           replace (base + alen cells =? base + alen cells) with true by lia. reflexivity.
        -- split; [exact Hbase|]. exists (front ++ [sl; [Some v]]). split; [exact HQ'|]. split.
           ++ rewrite cconcat_snoc2, Hcat, map_app. reflexivity.
           ++ change (PendOK (resized q v) (front ++ [sl; [Some v]]) (cells ++ [(v, true)]) pend).
              exists k, base.
              change (cmask (resized q v)) with (cmask q). change (cidx (resized q v)) with (cidx q).
              change (cbuf (resized q v)) with (cbuf q).
              split; [assumption|]. split; [assumption|]. split; [assumption|]. split; [assumption|].
              split; [assumption|].
              assert (Halen : alen (cells ++ [(v, true)]) = alen cells + 1) by (unfold alen; rewrite app_length; cbn [length]; lia).
              rewrite Halen. split.
              ** intros t b off v0 Hin0. destruct (Hin t b off v0 Hin0) as (Hr & Hn & Hloc).
                 split; [lia|]. split; [rewrite app_nth1 by (unfold alen in Hr; lia); exact Hn|].
                 unfold loc in *. rewrite seg_index_snoc2 by (rewrite Hcat, alen_map; lia). exact Hloc.
              ** intros t Hr Hu.
                 destruct (Z.eq_dec t (base + alen cells)) as [->|Hneq].
                 --- rewrite app_nth2 in Hu by (unfold alen; lia).
                     replace (Z.to_nat (base + alen cells - base) - length cells)%nat with 0%nat in Hu by (unfold alen; lia).
                     discriminate Hu.
                 --- rewrite app_nth1 in Hu by (unfold alen in *; lia). apply Hall; [lia|exact Hu].
  - destruct (Hclaim (plimit q) (or_introl eq_refl) ltac:(lia)) as (a' & Ha & HR).
    exists a'. split; [exact Ha|]. split; [exact HR|reflexivity].
Qed.

Lemma jumped_cmask q s2 rest k :
  QInv q ([] :: s2 :: rest) -> 0 <= k -> cmask q = mask_of k -> cmask (jumped q) = mask_of (k + 1).
Proof.
  intros (k1 & C & K & Hk1 & HC & Hc & Hcm & Hmax & Hlen & Hne & Hch & Hl1 & Hl2) Hk E.
  assert (k1 = k) by (apply mask_of_inj; [assumption|assumption|congruence]). subst k1.
  rewrite cchain_cons in Hch. destruct Hch as [Hbuf Hrest].
  assert (Hlk : next_array_offset (cmask q) = Z.to_nat (2 ^ k)) by (rewrite E; apply next_array_offset_half; lia).
  pose proof (pow2_pos k Hk) as Hpk.
  assert (Hnl : Z.of_nat (length (nth (S (cbuf q)) (bufs q) [])) = 2 ^ (k + 1) + 1).
  { eapply cchain_head_len; [|exact Hrest].
    intros b' k' lo' s' (_ & _ & _ & (_ & Hl' & _) & _). exact Hl'. }
  unfold jumped, buf_set. cbn [cmask]. rewrite (nth_upd_other (cbuf q) (S (cbuf q))) by lia. rewrite Hnl.
  apply mask_of_len. lia.
Qed.

Lemma seg_index_pop c s' rest lo t :
  seg_index (s' :: rest) (lo + 1) t = seg_index ((c :: s') :: rest) lo t.
Proof.
  cbn [seg_index]. unfold clen. cbn [length].
  replace (lo + 1 + Z.of_nat (length s')) with (lo + Z.of_nat (S (length s'))) by lia. reflexivity.
Qed.

Lemma seg_index_jump r lo t : lo <= t -> seg_index ([] :: r) lo t = S (seg_index r lo t).
Proof.
  intros Ht. cbn [seg_index]. change (clen []) with 0. replace (t <? lo + 0) with false by lia.
  replace (lo + 0) with lo by lia. reflexivity.
Qed.

Lemma pend_after_pop q q' segs segs' pend base v rest k k' :
  0 <= k -> cmask q = mask_of k -> 0 <= base -> cidx q = 2 * base -> NoDup (map tk pend) ->
  (forall t b off v0, In (t, b, off, v0) pend ->
     base <= t < base + alen ((v, true) :: rest) /\ nth (Z.to_nat (t - base)) ((v, true) :: rest) (0, true) = (v0, false) /\
     loc segs (cbuf q) k base t = (b, off)) ->
  (forall t, base <= t < base + alen ((v, true) :: rest) ->
     snd (nth (Z.to_nat (t - base)) ((v, true) :: rest) (0, true)) = false -> In t (map tk pend)) ->
  0 <= k' -> cmask q' = mask_of k' -> cidx q' = cidx q + 2 ->
  (forall t, base + 1 <= t -> loc segs' (cbuf q') k' (base + 1) t = loc segs (cbuf q) k base t) ->
  PendOK q' segs' rest pend.
Proof.
  intros Hk Hcm HC Hc Hnd Hin Hall Hk' Hcm' Hci Hloc.
  exists k', (base + 1). split; [assumption|]. split; [assumption|]. split; [lia|]. split; [lia|]. split; [assumption|].
  assert (Hal : alen ((v, true) :: rest) = alen rest + 1) by (unfold alen; cbn [length]; lia).
  split.
  - intros t b off v0 Hi. destruct (Hin t b off v0 Hi) as (Hr & Hn & Hl).
    assert (Hne : t <> base).
    { intros ->. replace (Z.to_nat (base - base)) with 0%nat in Hn by lia. cbn [nth] in Hn. discriminate Hn. }
    split; [lia|]. split.
    + replace (Z.to_nat (t - base)) with (S (Z.to_nat (t - (base + 1)))) in Hn by lia. exact Hn.
    + rewrite Hloc by lia. exact Hl.
  - intros t Hr Hu. apply Hall; [lia|].
    replace (Z.to_nat (t - base)) with (S (Z.to_nat (t - (base + 1)))) by lia. exact Hu.
Qed.

Lemma sim_pop q pend base cells :
  CR (q, pend) (base, cells) ->
  let '(c', out) := cstep (q, pend) CPop in
  exists a', astep (mpsc_capacity q) (base, cells) CPop out = Some a' /\ CR c' a' /\
             mpsc_capacity (fst c') = mpsc_capacity q.
Proof.
  intros (Hbase & segs & HQ & Hcat & (k & C & Hk & Hcm & HC & Hc & Hnd & Hin & Hall)).
  assert (C = base) by lia. subst C.
  unfold cstep.
  destruct cells as [|[v p] rest].
  - pose proof (cpop_spec q segs HQ) as Hp. rewrite Hcat in Hp. cbn [map] in Hp.
    rewrite Hp. exists (base, []). split; [reflexivity|]. split; [|reflexivity].
    split; [exact Hbase|]. exists segs. split; [exact HQ|]. split; [exact Hcat|].
    exists k, base. split; [assumption|]. split; [assumption|]. split; [assumption|]. split; [assumption|].
    split; [assumption|]. split; [exact Hin|exact Hall].
  - destruct p.
    + (* a published head: delivered *)
      cbn [map proj fst snd] in Hcat.
      destruct segs as [|s rs]; [discriminate Hcat|].
      destruct s as [|c s'].
      * destruct rs as [|s2 rs]; [discriminate Hcat|].
        destruct (cpop_jump_inv q s2 rs HQ) as (Hslot & Hlink & HI & (v2 & s2' & ->)).
        cbn [concat app] in Hcat. injection Hcat as -> Hcat.
        destruct (cpop_head_inv (jumped q) (Some v) s2' rs HI) as (Hslot2 & _ & HI2).
        assert (Etp : try_pop q = (popped (jumped q), PopElem v)).
        { unfold try_pop. rewrite Hslot, Hlink.
          change (buf_get (with_bufs q (buf_set q (cbuf q) (next_array_offset (cmask q)) SNil)) (S (cbuf q))
                    (offset_of (cidx q) (Z.shiftl (buf_len (with_bufs q (buf_set q (cbuf q) (next_array_offset (cmask q)) SNil)) (S (cbuf q)) - 2) 1)))
            with (buf_get (jumped q) (cbuf (jumped q)) (offset_of (cidx (jumped q)) (cmask (jumped q)))).
          rewrite Hslot2. reflexivity. }
        rewrite Etp. exists (base + 1, rest). split; [cbn [astep]; rewrite Z.eqb_refl; reflexivity|].
        split; [|reflexivity].
        split; [cbn [popped jumped cidx]; lia|]. exists (s2' :: rs). split; [exact HI2|]. split; [exact Hcat|].
        apply (pend_after_pop q (popped (jumped q)) ([] :: (Some v :: s2') :: rs) (s2' :: rs) pend base v rest k (k + 1));
          try assumption; [lia|exact (jumped_cmask q _ _ k HQ Hk Hcm)|reflexivity|].
        intros t Ht. unfold loc. change (cbuf (popped (jumped q))) with (S (cbuf q)).
        rewrite seg_index_pop with (c := Some v). rewrite seg_index_jump by lia.
        apply (f_equal2 pair); [cbn [Nat.add]; rewrite Nat.add_succ_r; reflexivity|]. replace (k + Z.of_nat (S (seg_index ((Some v :: s2') :: rs) base t))) with (k + 1 + Z.of_nat (seg_index ((Some v :: s2') :: rs) base t)) by lia. reflexivity.
      * cbn [concat app] in Hcat. destruct c as [w|]; [|discriminate Hcat]. injection Hcat as -> Hcat.
        destruct (cpop_head_inv q (Some v) s' rs HQ) as (Hslot & _ & HI).
        assert (Etp : try_pop q = (popped q, PopElem v)) by (unfold try_pop; rewrite Hslot; reflexivity).
        rewrite Etp. exists (base + 1, rest). split; [cbn [astep]; rewrite Z.eqb_refl; reflexivity|].
        split; [|reflexivity].
        split; [cbn [popped cidx]; lia|]. exists (s' :: rs). split; [exact HI|]. split; [exact Hcat|].
        apply (pend_after_pop q (popped q) ((Some v :: s') :: rs) (s' :: rs) pend base v rest k k);
          try assumption; [reflexivity|].
        intros t Ht. unfold loc. change (cbuf (popped q)) with (cbuf q).
        rewrite seg_index_pop with (c := Some v). reflexivity.
    + (* a reserved, unpublished head: the consumer waits *)
      pose proof (cpop_spec q segs HQ) as Hp. rewrite Hcat in Hp. cbn [map proj fst snd] in Hp.
      rewrite Hp. exists (base, (v, false) :: rest). split; [reflexivity|]. split; [|reflexivity].
      split; [exact Hbase|]. exists segs. split; [exact HQ|]. split; [exact Hcat|].
      exists k, base. split; [assumption|]. split; [assumption|]. split; [assumption|]. split; [assumption|].
      split; [assumption|]. split; [exact Hin|exact Hall].
Qed.

Lemma push_publish_capacity q b off v : mpsc_capacity (push_publish q b off v) = mpsc_capacity q.
Proof. reflexivity. Qed.

Theorem sim_step c a o :
  CR c a ->
  let '(c', out) := cstep c o in
  exists a', astep (mpsc_capacity (fst c)) a o out = Some a' /\ CR c' a' /\
             mpsc_capacity (fst c') = mpsc_capacity (fst c).
Proof.
  destruct c as [q pend]. destruct a as [base cells]. intros HR. cbn [fst].
  destruct o as [v|t|].
  - exact (sim_reserve q pend base cells v HR).
  - cbn [cstep]. destruct (find_pend t pend) as [[[b off] v]|] eqn:Ef.
    + destruct (sim_publish q pend base cells t b off v HR Ef) as (HR' & Hr & Hn).
      exists (base, upd (Z.to_nat (t - base)) (v, true) cells). split; [|split; [exact HR'|reflexivity]].
      cbn [astep]. replace (base <=? t) with true by lia. replace (t <? base + alen cells) with true by lia.
      rewrite Hn. reflexivity.
    + exists (base, cells). split; [|split; [exact HR|reflexivity]].
      cbn [astep].
      destruct ((base <=? t) && (t <? base + alen cells) && negb (snd (nth (Z.to_nat (t - base)) cells (0, true)))) eqn:E; [|reflexivity].
      exfalso. apply andb_true_iff in E. destruct E as [E E3]. apply andb_true_iff in E. destruct E as [E1 E2].
      destruct HR as (Hbase & segs & HQ & Hcat & (k & C & Hk & Hcm & HC & Hc & Hnd & Hin & Hall)).
      assert (C = base) by lia. subst C.
      apply (find_pend_none t pend Ef). apply Hall; [lia|]. destruct (snd (nth (Z.to_nat (t - base)) cells (0, true))); [discriminate E3|reflexivity].
  - pose proof (sim_pop q pend base cells HR) as H. cbn [cstep] in *.
    destruct (try_pop q) as [q' r]. exact H.
Qed.

Theorem conc_explained : forall ops c a,
  CR c a -> explained (mpsc_capacity (fst c)) c a ops.
Proof.
  induction ops as [|o rest IH]; intros c a HR; [exact I|].
  cbn [explained]. pose proof (sim_step c a o HR) as H.
  destruct (cstep c o) as [c' out]. destruct H as (a' & Ha & HR' & Hc).
  rewrite Ha. rewrite <- Hc. apply IH. exact HR'.
Qed.

Lemma qinv_new initial maximum :
  2 <= initial <= 2 ^ 31 -> 4 <= maximum <= 2 ^ 31 -> roundup32 initial <= roundup32 maximum ->
  CR (mpsc_new initial maximum, []) (0, []) /\ mpsc_capacity (mpsc_new initial maximum) = roundup32 maximum.
Proof.
  intros Hi Hm Hle.
  rewrite (roundup32_spec initial) in * by lia. rewrite (roundup32_spec maximum) in * by lia.
  set (k := Z.log2_up initial) in *. set (K := Z.log2_up maximum) in *.
  assert (Hk : 0 < k) by (apply Z.log2_up_pos; lia).
  assert (HK : 0 < K) by (apply Z.log2_up_pos; lia).
  assert (HkK : k <= K) by (apply (Z.pow_le_mono_r_iff 2); lia).
  pose proof (pow2_pos k ltac:(lia)) as Hpk. pose proof (pow2_pos K ltac:(lia)) as HpK.
  unfold mpsc_new. rewrite (roundup32_spec initial) by lia. rewrite (roundup32_spec maximum) by lia.
  fold k K.
  assert (Em : Z.shiftl (2 ^ k - 1) 1 = mask_of k).
  { rewrite Z.shiftl_mul_pow2 by lia. change (2 ^ 1) with 2. unfold mask_of. lia. }
  assert (EM : Z.shiftl (2 ^ K) 1 = 2 * 2 ^ K).
  { rewrite Z.shiftl_mul_pow2 by lia. change (2 ^ 1) with 2. lia. }
  rewrite Em, EM. split.
  - split; [reflexivity|]. exists [[]]. split; [|split; [reflexivity|]].
    + exists k, 0, K. cbn [pidx plimit cidx pmask cmask pbuf cbuf bufs maxcap length tl].
      split; [lia|]. split; [lia|]. split; [reflexivity|]. split; [reflexivity|]. split; [reflexivity|].
      split; [reflexivity|]. split; [constructor|].
      assert (Hcapk : mask_of k <= cap (mkMpsc 0 (mask_of k) 0 (mask_of k) (mask_of k) 0 0
                                         [repeat SNil (Z.to_nat (2 ^ k + 1))] (2 * 2 ^ K)) k /\ 0 <= mask_of k).
      { unfold cap, cur_buf_capacity, mask_of. cbn [maxcap].
        destruct (2 * (2 ^ k - 1) + 2 =? 2 * 2 ^ K); lia. }
      split; [|unfold mask_of in *; split; lia].
      cbn [cchain]. unfold cpbase. cbn [pidx plimit cidx pmask cmask pbuf cbuf bufs maxcap nth].
      split; [reflexivity|]. split; [reflexivity|]. split; [assumption|].
      split; [apply cbufok_empty; lia|]. change (clen []) with 0. lia.
    + exists k, 0. cbn [cmask cidx map tk]. split; [lia|]. split; [reflexivity|]. split; [lia|]. split; [reflexivity|].
      split; [constructor|]. split; [intros t b off v []|].
      intros t Ht. unfold alen in Ht. cbn [length] in Ht. lia.
  - unfold mpsc_capacity. cbn [maxcap]. rewrite Z.mul_comm. apply Z.div_mul. lia.
Qed.

(* every concurrent execution — any interleaving of reservations, publications and pops — is
   explained by the FIFO of reservations of capacity roundup32(maximum) *)
Theorem conc_fifo initial maximum ops :
  2 <= initial <= 2 ^ 31 -> 4 <= maximum <= 2 ^ 31 -> roundup32 initial <= roundup32 maximum ->
  explained (roundup32 maximum) (mpsc_new initial maximum, []) (0, []) ops.
Proof.
  intros Hi Hm Hle. destruct (qinv_new initial maximum Hi Hm Hle) as [HR Hc].
  rewrite <- Hc. exact (conc_explained ops _ _ HR).
Qed.
