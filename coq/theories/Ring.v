(* Ring.v — small-step model of internal/lossy/ring.go: one step = one atomic access.
   Any number of producer threads (ring.add), one consumer (ring.drainTo, serialised by the
   eviction lock).  A schedule is a list of (thread, payload): thread 0 is the consumer, thread
   i+1 is producer i; the payload is the element a producer that is idle starts recording.
   Ghost state: [recorded] — the element that won logical index i (appended at the tail CAS),
   [delivered] — what the consumer handed to the policy, in order.  Counters are unbounded
   (2^64 additions are out of scope).  No proofs here. *)
From Otter Require Import Base.

Definition RSIZE : Z := 16.

Inductive pstate :=
| PIdle
| PHead (n : Z)                 (* about to load head *)
| PTail (n h : Z)               (* loaded head = h, about to load tail *)
| PCas (n h t : Z)              (* loaded tail = t (not full), about to CAS tail t -> t+1 *)
| PStore (n t : Z)              (* won index t, about to store the element in slot t mod 16 *)
| PDone (status : Z).           (* 0 Success, -1 Failed, 1 Full *)

Inductive cstate :=
| CIdle
| CTail (h : Z)                 (* loaded head = h, about to load tail *)
| CLoad (h t : Z)               (* cursor h, bound t: about to load slot h mod 16 (or stop if h = t) *)
| CClear (h t v : Z)            (* loaded v from slot h mod 16, about to clear it and deliver v *)
| CHead (h : Z).                (* about to store head := h *)

Record ring := mkRing {
  rhead : Z; rtail : Z;
  rslots : Z -> option Z;           (* physical slot (0..15) -> content *)
  recorded : list Z; delivered : list Z;
  rcons : cstate;
  rprods : list pstate
}.

Definition fupd (f : Z -> option Z) (i : Z) (v : option Z) : Z -> option Z :=
  fun j => if j =? i then v else f j.

(* newRing(n): buffer[0] = n, tail = 1 *)
Definition ring_init (first : Z) (nprod : nat) : ring :=
  mkRing 0 1 (fupd (fun _ => None) 0 (Some first)) [first] [] CIdle (repeat PIdle nprod).

Definition set_prod (r : ring) (i : nat) (p : pstate) : ring :=
  mkRing (rhead r) (rtail r) (rslots r) (recorded r) (delivered r) (rcons r) (upd i p (rprods r)).

Definition prod_step (r : ring) (i : nat) (payload : Z) : ring :=
  match nth i (rprods r) (PDone 0) with
  | PIdle => set_prod r i (PHead payload)
  | PDone _ => set_prod r i (PHead payload)
  | PHead n => set_prod r i (PTail n (rhead r))
  | PTail n h =>
      let t := rtail r in
      if t - h >=? RSIZE then set_prod r i (PDone 1) else set_prod r i (PCas n h t)
  | PCas n h t =>
      if rtail r =? t
      then mkRing (rhead r) (t + 1) (rslots r) (recorded r ++ [n]) (delivered r) (rcons r) (upd i (PStore n t) (rprods r))
      else set_prod r i (PDone (-1))
  | PStore n t =>
      mkRing (rhead r) (rtail r) (fupd (rslots r) (t mod RSIZE) (Some n)) (recorded r) (delivered r) (rcons r)
             (upd i (PDone 0) (rprods r))
  end.

Definition set_cons (r : ring) (c : cstate) : ring :=
  mkRing (rhead r) (rtail r) (rslots r) (recorded r) (delivered r) c (rprods r).

Definition cons_step (r : ring) : ring :=
  match rcons r with
  | CIdle => set_cons r (CTail (rhead r))
  | CTail h => let t := rtail r in if t - h =? 0 then set_cons r CIdle else set_cons r (CLoad h t)
  | CLoad h t =>
      if h =? t then set_cons r (CHead h)
      else match rslots r (h mod RSIZE) with
           | None => set_cons r (CHead h)            (* not published: stop *)
           | Some v => set_cons r (CClear h t v)
           end
  | CClear h t v =>
      mkRing (rhead r) (rtail r) (fupd (rslots r) (h mod RSIZE) None) (recorded r) (delivered r ++ [v])
             (CLoad (h + 1) t) (rprods r)
  | CHead h => mkRing h (rtail r) (rslots r) (recorded r) (delivered r) CIdle (rprods r)
  end.

Definition ring_step (r : ring) (ev : nat * Z) : ring :=
  match fst ev with
  | O => cons_step r
  | S i => if Nat.ltb i (length (rprods r)) then prod_step r i (snd ev) else r
  end.

Definition ring_exec (r : ring) (sched : list (nat * Z)) : ring := fold_left ring_step sched r.

(* the consumer's cursor: how far delivery has got *)
Definition cursor (r : ring) : Z :=
  match rcons r with
  | CIdle => rhead r
  | CTail h => h
  | CLoad h _ => h
  | CClear h _ _ => h
  | CHead h => h
  end.

(* sequential view used by the correspondence check: occupancy of the physical slots *)
Definition slots_occupied (r : ring) : list bool :=
  map (fun i => match rslots r i with Some _ => true | None => false end)
      [0; 1; 2; 3; 4; 5; 6; 7; 8; 9; 10; 11; 12; 13; 14; 15].
