(* DrainProofs.v — soundness of the exhaustive exploration: a set that contains the initial
   configuration and is closed under every thread's step contains every configuration reachable
   under every schedule. *)
From stdpp Require Import gmap.
From Coq Require Import List.
Import ListNotations.
From Otter Require Import Drain.

Inductive reachable (s0 : dstate) : dstate -> Prop :=
| reach_refl : reachable s0 s0
| reach_step s i s' : reachable s0 s -> dstep s i = Some s' -> reachable s0 s'.

(* executing a schedule: a disabled or non-existent thread's turn is skipped *)
Fixpoint run_sched (s : dstate) (sched : list nat) : dstate :=
  match sched with
  | [] => s
  | i :: rest => match dstep s i with Some s' => run_sched s' rest | None => run_sched s rest end
  end.

Lemma run_sched_reachable s0 sched : forall s, reachable s0 s -> reachable s0 (run_sched s sched).
Proof.
  induction sched as [|i rest IH]; intros s H; simpl; [assumption|].
  destruct (dstep s i) as [s'|] eqn:E; apply IH; [eapply reach_step; eassumption|assumption].
Qed.

Lemma succs_complete s i s' : dstep s i = Some s' -> In s' (succs s).
Proof.
  intros H. unfold succs. apply elem_of_list_In. apply elem_of_list_omap.
  exists i. split; [|assumption].
  apply elem_of_list_In. apply in_seq.
  assert (i < length (ths_of s)).
  { unfold dstep in H. destruct (nth_error (ths_of s) i) eqn:E; [|discriminate].
    apply nth_error_Some. congruence. }
  lia.
Qed.

Lemma closed_spec V : closed V = true -> forall s s', s ∈ V -> In s' (succs s) -> s' ∈ V.
Proof.
  unfold closed. intros H s s' Hs Hs'.
  rewrite forallb_forall in H. specialize (H s).
  assert (In s (elements V)) by (apply elem_of_list_In; apply elem_of_elements; assumption).
  specialize (H H0). rewrite forallb_forall in H. specialize (H s' Hs').
  apply bool_decide_eq_true in H. assumption.
Qed.

Theorem closed_contains_reachable V s0 :
  s0 ∈ V -> closed V = true -> forall s, reachable s0 s -> s ∈ V.
Proof.
  intros H0 Hc s R. induction R as [|s i s' R IH Hs]; [assumption|].
  eapply closed_spec; [eassumption|eassumption|]. eapply succs_complete. eassumption.
Qed.

Theorem terminals_drained V s0 :
  s0 ∈ V -> closed V = true -> all_terminals_drained V = true ->
  forall s, reachable s0 s -> terminal s = true -> drained s = true.
Proof.
  intros H0 Hc Hd s R T.
  pose proof (closed_contains_reachable V s0 H0 Hc s R) as Hs.
  unfold all_terminals_drained in Hd. rewrite forallb_forall in Hd.
  assert (In s (elements V)) by (apply elem_of_list_In; apply elem_of_elements; assumption).
  specialize (Hd s H). rewrite T in Hd. simpl in Hd. assumption.
Qed.

(* the exploration's result, when it terminates, contains what it started from *)
Lemma explore_grows fuel : forall fr seen V, explore fuel fr seen = Some V -> seen ⊆ V.
Proof.
  induction fuel as [|f IH]; intros fr seen V H; simpl in H; [discriminate|].
  destruct fr as [|x fr']; [injection H as <-; reflexivity|].
  destruct (fold_left _ _ _) as [fr2 sn2] eqn:E.
  assert (G : forall (l fr0 : list dstate) (sn0 : gset dstate) (fr1 : list dstate) (sn1 : gset dstate),
            fold_left (fun '(fr, sn) s' => if bool_decide (s' ∈ sn) then (fr, sn) else (s' :: fr, {[s']} ∪ sn)) l (fr0, sn0) = (fr1, sn1) -> sn0 ⊆ sn1).
  { induction l as [|y l IHl]; intros fr0 sn0 fr1 sn1 Hf; simpl in Hf; [injection Hf as _ <-; reflexivity|].
    destruct (bool_decide (y ∈ sn0)); [eapply IHl; eassumption|].
    etrans; [|eapply IHl; eassumption]. set_solver. }
  etrans; [eapply G; eassumption|]. eapply IH. eassumption.
Qed.
