(* Striped.v — small-step model of internal/lossy/striped.go: the table of ring buffers that grows
   under contention (the Striped64 scheme).  One step = one access to shared state by one Add call;
   [busy] is the spin lock that guards stripe creation, table creation and table expansion.

   Rings are abstract here (their own protocol is Ring.v): a ring is the list of elements recorded in
   it; whether ring.add succeeds, fails (lost a CAS) or finds the ring full is an input of the step.
   Every table version that ever existed is kept (a caller may still hold a snapshot of an old one);
   [cur] is the version s.striped points to.  Local decisions that only read shared state to avoid a
   useless CAS (busy.Load() == 0, s.striped.Load() == bs before the CAS) are inputs as well: the model
   over-approximates them.  No proofs here. *)
From Coq Require Import List Arith Bool.
Import ListNotations.
From Otter Require Import Base.
Local Open Scope nat_scope.

Inductive sres := SrSuccess | SrFailed | SrFull.

Inductive spc :=
| A0 | A1 | A2
| E1 | E2 | E3 | E4 | E5
| E6 | E6b | E7 | E7c | E8
| E9 | E9c | E9r
| SDone (r : sres).

Record sthread := mkSth {
  spc_ : spc; elem : Z; idx : nat; snap : option nat; buf : nat;
  attempt : nat; collide : bool; wasunc : bool; flag : bool }.

Record sstate := mkSst {
  tables : list (list (option nat));     (* every version of the table; cells hold ring ids *)
  cur : option nat;                      (* the version s.striped points to *)
  busy : bool;
  rings : list (list Z);                 (* ring id -> elements recorded in it *)
  sths : list sthread;
  maxlen : nat }.

Definition sinit (maxl : nat) (elems : list Z) (idxs : list nat) : sstate :=
  mkSst [] None false []
        (map (fun '(e, i) => mkSth A0 e i None 0 0 true true false) (combine elems idxs)) maxl.

Definition tbl_of (s : sstate) (v : option nat) : list (option nat) :=
  match v with Some g => nth g (tables s) [] | None => [] end.

Definition cell (tb : list (option nat)) (i : nat) : option nat :=
  match length tb with O => None | S _ => nth (i mod length tb) tb None end.

Definition set_th (s : sstate) (i : nat) (t : sthread) : sstate :=
  mkSst (tables s) (cur s) (busy s) (rings s) (upd i t (sths s)) (maxlen s).

Definition with_pc (t : sthread) (p : spc) : sthread :=
  mkSth p (elem t) (idx t) (snap t) (buf t) (attempt t) (collide t) (wasunc t) (flag t).

Definition opt_eqb (a b : option nat) : bool :=
  match a, b with Some x, Some y => Nat.eqb x y | None, None => true | _, _ => false end.

(* next attempt of the retry loop, optionally with a fresh probe index *)
Definition retry (t : sthread) (newidx : option nat) (col unc : bool) : sthread :=
  mkSth E1 (elem t) (match newidx with Some j => j | None => idx t end) (snap t) (buf t)
        (S (attempt t)) col unc false.

(* one step of thread i; [o] is the step's input (ring.add outcome 0 success / 1 failed / 2 full, a
   fresh probe index, or whether a pre-check let the caller try the CAS) *)
Definition sstep (s : sstate) (i o : nat) : sstate :=
  match nth_error (sths s) i with
  | None => s
  | Some t =>
      let ring_add (p_failed : sthread) :=
        match o with
        | 0 => mkSst (tables s) (cur s) (busy s) (upd (buf t) (nth (buf t) (rings s) [] ++ [elem t]) (rings s))
                     (upd i (with_pc t (SDone SrSuccess)) (sths s)) (maxlen s)
        | 1 => set_th s i p_failed
        | _ => set_th s i (with_pc t (SDone SrFull))
        end in
      match spc_ t with
      | A0 =>
          let t1 := mkSth A1 (elem t) (idx t) (cur s) (buf t) (attempt t) (collide t) (wasunc t) (flag t) in
          match cur s with
          | None => set_th s i (mkSth E1 (elem t) (idx t) None (buf t) 0 true true false)
          | Some _ => set_th s i t1
          end
      | A1 =>
          match cell (tbl_of s (snap t)) (idx t) with
          | None => set_th s i (mkSth E1 (elem t) (idx t) (snap t) (buf t) 0 true true false)
          | Some r => set_th s i (mkSth A2 (elem t) (idx t) (snap t) r (attempt t) (collide t) (wasunc t) (flag t))
          end
      | A2 => ring_add (mkSth E1 (elem t) (idx t) (snap t) (buf t) 0 true false false)
      | E1 =>
          if Nat.leb 3 (attempt t) then set_th s i (with_pc t (SDone SrFailed))
          else
            let t1 := mkSth E2 (elem t) (idx t) (cur s) (buf t) (attempt t) (collide t) (wasunc t) false in
            match cur s with
            | Some _ => set_th s i t1
            | None => set_th s i (mkSth E9 (elem t) (idx t) None (buf t) (attempt t) (collide t) (wasunc t) false)
            end
      | E2 =>
          match cell (tbl_of s (snap t)) (idx t) with
          | None => set_th s i (with_pc t E3)
          | Some r =>
              if wasunc t then set_th s i (mkSth E6 (elem t) (idx t) (snap t) r (attempt t) (collide t) true false)
              else set_th s i (retry t (Some o) (collide t) true)
          end
      | E3 =>
          if busy s then set_th s i (retry t (Some o) false (wasunc t))
          else mkSst (tables s) (cur s) true (rings s) (upd i (with_pc t E4) (sths s)) (maxlen s)
      | E4 =>
          match cur s with
          | Some g =>
              let tb := nth g (tables s) [] in
              match length tb, cell tb (idx t) with
              | S _, None =>
                  mkSst (upd g (upd (idx t mod length tb) (Some (length (rings s))) tb) (tables s)) (cur s) (busy s)
                        (rings s ++ [[elem t]])
                        (upd i (mkSth E5 (elem t) (idx t) (snap t) (buf t) (attempt t) (collide t) (wasunc t) true) (sths s))
                        (maxlen s)
              | _, _ => set_th s i (with_pc t E5)
              end
          | None => set_th s i (with_pc t E5)
          end
      | E5 =>
          let t' := if flag t then with_pc t (SDone SrSuccess) else retry t None (collide t) (wasunc t) in
          mkSst (tables s) (cur s) false (rings s) (upd i t' (sths s)) (maxlen s)
      | E6 => ring_add (with_pc t E6b)
      | E6b =>
          if Nat.leb (maxlen s) (length (tbl_of s (snap t))) || negb (opt_eqb (cur s) (snap t))
          then set_th s i (retry t (Some o) false (wasunc t))
          else if negb (collide t) then set_th s i (retry t (Some o) true (wasunc t))
          else set_th s i (with_pc t E7)
      | E7 =>
          if busy s then set_th s i (retry t (Some o) (collide t) (wasunc t))
          else mkSst (tables s) (cur s) true (rings s) (upd i (with_pc t E7c) (sths s)) (maxlen s)
      | E7c =>
          match cur s, snap t with
          | Some g, Some g' =>
              if Nat.eqb g g' then
                let tb := nth g (tables s) [] in
                mkSst (tables s ++ [tb ++ repeat None (length tb)]) (Some (length (tables s))) (busy s) (rings s)
                      (upd i (with_pc t E8) (sths s)) (maxlen s)
              else set_th s i (with_pc t E8)
          | _, _ => set_th s i (with_pc t E8)     (* this branch of the code always holds a table *)
          end
      | E8 => mkSst (tables s) (cur s) false (rings s) (upd i (retry t None false (wasunc t)) (sths s)) (maxlen s)
      | E9 =>
          match o with
          | 0 => if busy s then set_th s i (retry t None (collide t) (wasunc t))
                 else mkSst (tables s) (cur s) true (rings s) (upd i (with_pc t E9c) (sths s)) (maxlen s)
          | _ => set_th s i (retry t None (collide t) (wasunc t))
          end
      | E9c =>
          match cur s with
          | None =>
              mkSst (tables s ++ [[Some (length (rings s))]]) (Some (length (tables s))) (busy s)
                    (rings s ++ [[elem t]])
                    (upd i (mkSth E9r (elem t) (idx t) (snap t) (buf t) (attempt t) (collide t) (wasunc t) true) (sths s))
                    (maxlen s)
          | Some _ => set_th s i (with_pc t E9r)
          end
      | E9r =>
          let t' := if flag t then with_pc t (SDone SrSuccess) else retry t None (collide t) (wasunc t) in
          mkSst (tables s) (cur s) false (rings s) (upd i t' (sths s)) (maxlen s)
      | SDone _ => s
      end
  end.

Definition srun (s : sstate) (sched : list (nat * nat)) : sstate :=
  fold_left (fun s e => sstep s (fst e) (snd e)) sched s.

(* what DrainTo visits: the rings of the current table *)
Definition visible_rings (s : sstate) : list nat :=
  flat_map (fun c => match c with Some r => [r] | None => [] end) (tbl_of s (cur s)).

(* a new Add call (element [e], probe index [i]) *)
Definition sadd (s : sstate) (e : Z) (i : nat) : sstate :=
  mkSst (tables s) (cur s) (busy s) (rings s) (sths s ++ [mkSth A0 e i None 0 0 true true false]) (maxlen s).

Definition sstate0 (maxl : nat) : sstate := mkSst [] None false [] [] maxl.
