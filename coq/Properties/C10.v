(* C10 — Load outcomes map to cache state and results as documented. *)
From Otter Require Import Base Seq Spec SeqRefine SeqFacts.

(* successful load on a miss (absent or expired-unswept key): cached and returned, loader called once *)
Theorem C10_get_success : forall c s k v now,
  (lookup k (cmap s) = None \/ exists n, lookup k (cmap s) = Some n /\ has_expired c n now = true) ->
  let r := do_get c s k (LValue v) now now in
  r_ret (snd r) = RLoad v 0 /\ r_cb (snd r) = [CbLoad k] /\
  exists n, lookup k (cmap (fst r)) = Some n /\ nval n = v.
Proof. exact get_miss_value. Qed.
Print Assumptions C10_get_success.

(* failed load: the loader's value and error are returned, the table is unchanged *)
Theorem C10_failure_keeps_cache : forall c s k v now,
  cmap (fst (finish_call c s k (LError v) false now)) = cmap s /\
  snd (finish_call c s k (LError v) false now) = [] /\
  load_ret (LError v) = RLoad v 1.
Proof. intros c s k v now. destruct (finish_call_error_keeps c s k v now) as [A B]. auto. Qed.
Print Assumptions C10_failure_keeps_cache.

(* not-found: ErrNotFound, nothing cached, an existing entry removed (reload) *)
Theorem C10_notfound_removes : forall c s k ir now,
  lookup k (cmap (fst (finish_call c s k LNotFound ir now))) = None /\ load_ret LNotFound = RLoad 0 2.
Proof. intros c s k ir now. split; [exact (finish_call_notfound_removes c s k ir now)|reflexivity]. Qed.
Print Assumptions C10_notfound_removes.

(* panic: propagates, table unchanged *)
Theorem C10_panic_keeps_cache : forall c s k now,
  cmap (fst (finish_call c s k LPanic false now)) = cmap s /\ load_ret LPanic = RPanicked.
Proof. intros c s k now. split; [exact (finish_call_panic_keeps c s k now)|reflexivity]. Qed.
Print Assumptions C10_panic_keeps_cache.

(* BulkGet: result = requested cached keys ++ requested missing keys the loader supplied; every
   distinct key at most once; keys the loader did not supply are absent; the loader is invoked at
   most once, with exactly the distinct missing keys; extra keys are not in the result *)
Theorem C10_bulk : forall c s ks m now,
  let '(s1, hits, stale, miss) := bulk_read c s (dedup ks []) now in
  let r := snd (do_bulk_get c s ks (BMap m) now now) in
  r_ret r = RBulk (hits ++ match miss with [] => [] | _ => loaded_pairs miss m end) 0 /\
  r_cb r = match miss with [] => [] | _ => [CbBulkLoad miss] end /\
  NoDup (map fst hits ++ miss) /\
  (forall k, In k ks <-> In k (map fst hits) \/ In k miss) /\
  (forall k v, In (k, v) (loaded_pairs miss m) <-> In k miss /\ assoc k m = Some v).
Proof.
  intros c s ks m now. pose proof (bulk_get_result c s ks m now) as H.
  destruct (bulk_read c s (dedup ks []) now) as [[[s1 h] st] mi].
  destruct H as (A & B & C & D).
  split; [exact A|]. split; [exact B|]. split; [exact C|]. split; [exact D|].
  intros k v. apply loaded_pairs_spec.
Qed.
Print Assumptions C10_bulk.

(* on a bulk loader error the result holds the hits only *)
Theorem C10_bulk_error : forall c s ks now,
  let '(s1, hits, stale, miss) := bulk_read c s (dedup ks []) now in
  r_ret (snd (do_bulk_get c s ks BError now now)) = RBulk hits (match miss with [] => 0 | _ => 1 end).
Proof.
  intros c s ks now. unfold do_bulk_get.
  destruct (bulk_read c s (dedup ks []) now) as [[[s1 h] st] mi]. destruct mi as [|k0 mi]; [reflexivity|].
  destruct (run_bulk c s1 (k0 :: mi) BError false now). reflexivity.
Qed.
Print Assumptions C10_bulk_error.

(* all of this holds of the abstract map as well: C01_refines transfers it *)
Example C10_nonvacuous :
  let c := mkCfg false false false false (fun _ _ => 1) (fun _ _ c => c) (fun _ _ _ c => c) (fun _ _ c => c)
                 (fun _ _ c => c) (fun _ _ _ c => c) (fun _ _ _ c => c) (fun _ _ c => c) in
  let s := fst (run c cstate0 [OSet 1 11 0]) in
  r_ret (snd (step c s (OBulkGet [1; 2; 3; 3] (BMap [(2, 22); (9, 99)]) 0 0))) = RBulk [(1, 11); (2, 22)] 0.
Proof. vm_compute. reflexivity. Qed.
