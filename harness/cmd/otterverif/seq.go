package main

import (
	"bytes"
	"context"
	"errors"
	"fmt"
	"math"
	"sort"
	"strings"
	"time"

	otter "github.com/maypok86/otter/v2"
	"github.com/maypok86/otter/v2/stats"
)

// Engine "seq" (C01 C03 C06 C07 C10 C11 C12 C19 C20): drives the public API from one goroutine
// with a same-goroutine executor that runs each submitted task after the operation that
// submitted it has returned (a FIFO the harness drains), a manual clock, table-driven
// calculators / weigher / loaders, over all 12 feature combinations x random InitialCapacity.
// Every operation is written to the trace as the model operation it corresponds to, with the
// implementation's observed result, atomic deletion events and callback arguments; automatic
// removals (events raised while a maintenance task runs) are written as AUTO operations; after
// every operation a snapshot (GetEntryQuietly for every key, EstimatedSize, Stats) is written.
func init() { engines["seq"] = runSeq }

// manualClock: a clock the harness sets.  When [hook] is armed, the next clock sample returns the
// current time only after the hook has run (it advances the clock and runs maintenance): the
// caller then works with a time that lies behind the timer wheel's — the interleaving "a write
// samples the clock, maintenance runs at a later clock value, the write proceeds".
type manualClock struct {
	now  int64
	hook func()
}

func (m *manualClock) NowNano() int64 {
	if h := m.hook; h != nil {
		m.hook = nil
		old := m.now
		h()
		return old
	}
	return m.now
}
func (m *manualClock) Tick(d time.Duration) <-chan time.Time { return make(chan time.Time) }

type ev struct {
	k, v int
	c    otter.DeletionCause
}

type loadRec struct {
	kind string // L R BL BR
	keys []int
	olds []int
	oc   string // encoded outcome as in the trace
}

type tblExpiry struct{ create, update, read []int64 }

func durOf(x int64, cur time.Duration) time.Duration {
	if x == -1 {
		return cur
	}
	return time.Duration(x)
}
func idx(k, n int) int { return ((k % n) + n) % n }
func (t *tblExpiry) ExpireAfterCreate(e otter.Entry[int, int]) time.Duration {
	return durOf(t.create[idx(e.Key, len(t.create))], e.ExpiresAfter())
}
func (t *tblExpiry) ExpireAfterUpdate(e otter.Entry[int, int], old int) time.Duration {
	return durOf(t.update[idx(e.Key, len(t.update))], e.ExpiresAfter())
}
func (t *tblExpiry) ExpireAfterRead(e otter.Entry[int, int]) time.Duration {
	return durOf(t.read[idx(e.Key, len(t.read))], e.ExpiresAfter())
}

type tblRefresh struct{ create, update, reload, fail []int64 }

func (t *tblRefresh) RefreshAfterCreate(e otter.Entry[int, int]) time.Duration {
	return durOf(t.create[idx(e.Key, len(t.create))], e.RefreshableAfter())
}
func (t *tblRefresh) RefreshAfterUpdate(e otter.Entry[int, int], old int) time.Duration {
	return durOf(t.update[idx(e.Key, len(t.update))], e.RefreshableAfter())
}
func (t *tblRefresh) RefreshAfterReload(e otter.Entry[int, int], old int) time.Duration {
	return durOf(t.reload[idx(e.Key, len(t.reload))], e.RefreshableAfter())
}
func (t *tblRefresh) RefreshAfterReloadFailure(e otter.Entry[int, int], err error) time.Duration {
	return durOf(t.fail[idx(e.Key, len(t.fail))], e.RefreshableAfter())
}

var errLoader = errors.New("loader failed")

type seqCase struct {
	r        *rng
	sum      *summary
	t        *traceWriter
	c        *otter.Cache[int, int]
	clk      *manualClock
	withTime bool
	withExp  bool
	withRefr bool
	bound    int // 0 none 1 size 2 weight
	maximum  uint64
	nkeys    int
	nextVal  int
	queue    []func()
	atomic   []ev
	async    []ev
	loads    []loadRec
	wtab     []uint32
	immediate bool // executor runs tasks at once (mode B)
	expKind, refrKind int
	desc     string
	// loader control
	forceOutcome string
	inQueue      bool
	mkTarget     func(maximum uint64) *otter.Cache[int, int]
	maintMode    bool  // closed-loop policy replay: restricted op mix, audits, maintenance markers
	forceRead    int   // remaining reads of a burst
	burstKey     int
	forceAdv     int64 // the next clock advance is by this much
	maintRuns    []int64
	maintAdj     []int64 // per maintenance run: the hill climber's amount (value hook 11 in policy.climb)
	maintMax     [][3]uint64 // per maintenance run: the policy's maxima when the run began
	climber      bool    // closed-loop case with a maximum large enough for the hill climber to move entries
	phaseKeys    [2]int
	staleBase    int           // events before this index belong to the maintenance a stale write raced with
	returnedAt   map[int]int64 // value -> clock when the write that created it returned
	seaDropped   map[int]bool  // value -> a SetExpiresAfter on it found the read buffer full (its re-scheduling record was dropped)
	touched      []int
	volunteered  map[int]int // key -> how often a bulk loader returned it unasked in this case
	inTarget     bool
	rndConst     uint32
	pendingChans     []pendingRef
	pendingBulkChans []pendingBulk
}

type pendingRef struct {
	key int
	ch  <-chan otter.RefreshResult[int, int]
}
type pendingBulk struct {
	keys []int
	ch   <-chan []otter.RefreshResult[int, int]
}

func (s *seqCase) now() int64 {
	if s.withTime {
		return s.clk.now
	}
	return 0
}

func (s *seqCase) val() int { s.nextVal++; return s.nextVal }

var smallDur = []int64{1, 2, 3, 5, 10, 20, 50, 100}
var bigDur = []int64{1<<30 - 1, 1 << 30, 1<<30 + 1, 1 << 36, 1 << 42, 1 << 47, 1 << 49, math.MaxInt64 - 1000, math.MaxInt64 - 1, math.MaxInt64}

func (s *seqCase) pickDur() int64 {
	if s.r.chance(12) {
		return s.r.pick(bigDur)
	}
	return s.r.pick(smallDur)
}

func tblStr(t []int64) string {
	var sb strings.Builder
	fmt.Fprintf(&sb, "%d", len(t))
	for _, x := range t {
		fmt.Fprintf(&sb, " %d", x)
	}
	return sb.String()
}

func (s *seqCase) setup(caseNo int) {
	r := s.r
	s.nextVal = 100
	s.returnedAt = map[int]int64{}
	s.seaDropped = map[int]bool{}
	s.volunteered = map[int]int{}
	s.staleBase = 0
	s.nkeys = 3 + r.intn(4)
	combo := caseNo % 12
	s.bound = combo % 3
	s.expKind = 0
	s.refrKind = 0
	switch (combo / 3) % 4 {
	case 0:
		if r.chance(50) {
			s.expKind = 0
		} else {
			s.expKind = 4
		}
	case 1:
		s.expKind = 1
	case 2:
		s.expKind = 2
	case 3:
		s.expKind = 3
	}
	if combo/3 == 0 && caseNo%24 >= 12 {
		s.expKind = 4
	} else if combo/3 == 0 {
		s.expKind = 0
	}
	if r.chance(50) {
		s.refrKind = 1 + r.intn(3)
	}
	if s.maintMode {
		s.refrKind = 0
		if s.bound == 0 && s.expKind == 0 {
			s.bound = 1 + r.intn(2)
		}
		s.nkeys = 4 + r.intn(5)
	}
	s.clk = &manualClock{now: []int64{1000, 1 << 40, 1_800_000_000_000_000_000}[r.intn(3)]}
	opts := &otter.Options[int, int]{}
	s.maximum = 0
	if s.maintMode && caseNo%6 == 5 {
		// the hill climber: a maximum of 16 or more makes its amount (6.25 % of the maximum, decaying) a whole
		// number, so that it moves entries between the window and the main space
		s.climber = true
		if s.bound == 0 {
			s.bound = 1 + r.intn(2)
		}
	}
	switch s.bound {
	case 1:
		s.maximum = uint64(1 + r.intn(5))
		if s.maintMode {
			s.maximum = uint64(1 + r.intn(8))
		}
		if s.climber {
			s.maximum = []uint64{16, 24, 32, 48}[r.intn(4)]
		}
		opts.MaximumSize = int(s.maximum)
	case 2:
		s.maximum = uint64(2 + r.intn(8))
		if s.climber {
			s.maximum = []uint64{16, 32, 48, 64, 96}[r.intn(5)]
		}
		opts.MaximumWeight = s.maximum
		n := 5 + r.intn(4)
		s.wtab = make([]uint32, n)
		for i := range s.wtab {
			switch x := r.intn(10); {
			case x < 2:
				s.wtab[i] = 0
			case x < 6:
				s.wtab[i] = 1
			case x < 8:
				s.wtab[i] = 2
			case x < 9:
				s.wtab[i] = 3
			default:
				s.wtab[i] = uint32(s.maximum) + 1 + uint32(r.intn(3))
			}
			if s.climber {
				// heterogeneous weights around the climber's amount: some heads fit its quota, some do not
				s.wtab[i] = []uint32{0, 1, 1, 2, 3, 4, 6, 9}[r.intn(8)]
			}
		}
		if !s.maintMode && r.chance(20) {
			// huge weights: a few evictions carry the eviction-weight statistic past 2^32
			const big = 1 << 28
			s.maximum *= big
			opts.MaximumWeight = s.maximum
			for i := range s.wtab {
				s.wtab[i] *= big
			}
			s.sum.Dist["cfg_huge_weights"]++
		}
		wt := s.wtab
		opts.Weigher = func(k, v int) uint32 { return wt[idx(k+3*v, len(wt))] }
	}
	if r.chance(60) {
		opts.InitialCapacity = []int{1, 2, 7, 16, 100, 161, 1000}[r.intn(7)]
	}
	// expiry
	expSpec := "0"
	mk := func(n int, allowKeep, allowZero bool) []int64 {
		t := make([]int64, n)
		for i := range t {
			x := r.intn(10)
			switch {
			case allowKeep && x < 3:
				t[i] = -1
			case allowZero && x < 4:
				t[i] = 0
			default:
				t[i] = s.pickDur()
			}
		}
		return t
	}
	switch s.expKind {
	case 1:
		d := s.pickDur()
		opts.ExpiryCalculator = otter.ExpiryCreating[int, int](time.Duration(d))
		expSpec = fmt.Sprintf("1 %d", d)
	case 2:
		d := s.pickDur()
		opts.ExpiryCalculator = otter.ExpiryWriting[int, int](time.Duration(d))
		expSpec = fmt.Sprintf("2 %d", d)
	case 3:
		d := s.pickDur()
		opts.ExpiryCalculator = otter.ExpiryAccessing[int, int](time.Duration(d))
		expSpec = fmt.Sprintf("3 %d", d)
	case 4:
		te := &tblExpiry{create: mk(4, false, false), update: mk(3, true, true), read: mk(5, true, true)}
		opts.ExpiryCalculator = te
		expSpec = fmt.Sprintf("4 %s %s %s", tblStr(te.create), tblStr(te.update), tblStr(te.read))
	}
	refrSpec := "0"
	switch s.refrKind {
	case 1:
		d := s.pickDur()
		opts.RefreshCalculator = otter.RefreshCreating[int, int](time.Duration(d))
		refrSpec = fmt.Sprintf("1 %d", d)
	case 2:
		d := s.pickDur()
		opts.RefreshCalculator = otter.RefreshWriting[int, int](time.Duration(d))
		refrSpec = fmt.Sprintf("2 %d", d)
	case 3:
		tr := &tblRefresh{create: mk(4, false, false), update: mk(3, true, true), reload: mk(5, true, true), fail: mk(3, true, true)}
		opts.RefreshCalculator = tr
		refrSpec = fmt.Sprintf("3 %s %s %s %s", tblStr(tr.create), tblStr(tr.update), tblStr(tr.reload), tblStr(tr.fail))
	}
	s.withExp = s.expKind != 0
	s.withRefr = s.refrKind != 0
	s.withTime = s.withExp || s.withRefr
	{
		base := *opts // calculators, weigher, maxima, initial capacity: what a "cache of the same configuration" shares
		s.mkTarget = func(maximum uint64) *otter.Cache[int, int] {
			o := base
			if s.bound == 1 {
				o.MaximumSize = int(maximum)
			} else if s.bound == 2 {
				o.MaximumWeight = maximum
			}
			o.Clock = s.clk
			o.Logger = &otter.NoopLogger{}
			o.Executor = func(fn func()) { fn() }
			return otter.Must(&o)
		}
	}
	opts.Clock = s.clk
	opts.StatsRecorder = stats.NewCounter()
	opts.Logger = &otter.NoopLogger{}
	if s.climber {
		s.phaseKeys = [2]int{max(2, int(s.maximum)/4), int(s.maximum) * 2}
		s.nkeys = s.phaseKeys[0]
	}
	opts.Executor = func(fn func()) {
		if s.immediate {
			fn()
			return
		}
		s.queue = append(s.queue, fn)
	}
	opts.OnAtomicDeletion = func(e otter.DeletionEvent[int, int]) { s.atomic = append(s.atomic, ev{e.Key, e.Value, e.Cause}) }
	opts.OnDeletion = func(e otter.DeletionEvent[int, int]) { s.async = append(s.async, ev{e.Key, e.Value, e.Cause}) }
	otter.VerifHook = func(id int) {
		if id == 1 && !s.inTarget {
			s.maintRuns = append(s.maintRuns, s.now())
			s.maintAdj = append(s.maintAdj, 0)
			var mx [3]uint64
			if s.c != nil {
				mx[0], mx[1], mx[2] = otter.VerifPolicyMaxima(s.c)
			}
			s.maintMax = append(s.maintMax, mx)
		}
	}
	otter.VerifValueHook = func(id int, v int64) {
		if id == 11 && !s.inTarget && len(s.maintAdj) > 0 {
			s.maintAdj[len(s.maintAdj)-1] = v
			if v != 0 {
				s.sum.Dist["climber_nonzero_amount"]++
			}
		}
	}
	s.c = otter.Must(opts)
	s.rndConst = uint32(r.intn(2))
	rc := s.rndConst
	otter.VerifSetPolicyRand(s.c, func() uint32 { return rc })
	wspec := "0"
	if s.bound == 2 {
		var sb strings.Builder
		fmt.Fprintf(&sb, "%d", len(s.wtab))
		for _, w := range s.wtab {
			fmt.Fprintf(&sb, " %d", w)
		}
		wspec = sb.String()
	}
	b2i := func(b bool) int {
		if b {
			return 1
		}
		return 0
	}
	s.desc = fmt.Sprintf("bound=%d max=%d exp=%s refr=%s keys=%d initcap=%d", s.bound, s.maximum, expSpec, refrSpec, s.nkeys, opts.InitialCapacity)
	s.t.line("C %d %d %d %d E %s R %s W %s", b2i(s.withExp), b2i(s.withRefr), b2i(s.bound == 2), b2i(s.bound != 0), expSpec, refrSpec, wspec)
	if !s.maintMode {
		s.flushMaint("newCache")
	}
	if s.maintMode {
		// closed-loop replay header: random source of the admission test, initial sketch capacity, and the
		// maintenance newCache ran through SetMaximum
		icap := int64(-1)
		if opts.InitialCapacity > 0 && s.bound != 0 {
			icap = int64(min(s.maximum, uint64(opts.InitialCapacity)))
		}
		s.t.line("MODE maint rnd=%d initcap=%d", s.rndConst, icap)
		s.flushMaint("newCache")
	}
	s.sum.Dist[fmt.Sprintf("cfg_bound%d_exp%d_refr%d", s.bound, s.expKind, b2i(s.withRefr))]++
}

func evStr(es []ev) string {
	var sb strings.Builder
	fmt.Fprintf(&sb, "E %d", len(es))
	for _, e := range es {
		fmt.Fprintf(&sb, " %d %d %d", e.k, e.v, int(e.c))
	}
	return sb.String()
}

func pairsStr(tag string, m map[int]int) string {
	ks := make([]int, 0, len(m))
	for k := range m {
		ks = append(ks, k)
	}
	sort.Ints(ks)
	var sb strings.Builder
	fmt.Fprintf(&sb, "%s %d", tag, len(ks))
	for _, k := range ks {
		fmt.Fprintf(&sb, " %d %d", k, m[k])
	}
	return sb.String()
}

// loaders ------------------------------------------------------------------

func (s *seqCase) pickOutcome() (string, int, error, bool) {
	oc := s.forceOutcome
	if oc == "" {
		switch x := s.r.intn(100); {
		case x < 60:
			oc = "V"
		case x < 75:
			oc = "E"
		case x < 92:
			oc = "N"
		default:
			oc = "P"
		}
		if oc == "P" && s.inQueue {
			// a panic inside an executor task is the executor's business (DESIGN section 6, observations)
			oc = "E"
		}
	}
	switch oc {
	case "V":
		v := s.val()
		return fmt.Sprintf("V %d", v), v, nil, false
	case "E":
		v := s.val()
		return fmt.Sprintf("E %d", v), v, errLoader, false
	case "N":
		return "N", 0, otter.ErrNotFound, false
	default:
		return "P", 0, nil, true
	}
}

type seqLoader struct{ s *seqCase }

func (l seqLoader) Load(ctx context.Context, k int) (int, error) {
	enc, v, err, pan := l.s.pickOutcome()
	l.s.loads = append(l.s.loads, loadRec{kind: "L", keys: []int{k}, oc: enc})
	if pan {
		panic("loader panic")
	}
	return v, err
}
func (l seqLoader) Reload(ctx context.Context, k int, old int) (int, error) {
	enc, v, err, pan := l.s.pickOutcome()
	l.s.loads = append(l.s.loads, loadRec{kind: "R", keys: []int{k}, olds: []int{old}, oc: enc})
	if pan {
		panic("loader panic")
	}
	return v, err
}

func (s *seqCase) bulkOutcome(keys []int, allowPanic bool) (string, map[int]int, error, bool) {
	x := s.r.intn(100)
	switch {
	case x < 70:
		m := map[int]int{}
		mode := s.r.intn(4) // 0 full 1 partial 2 extra 3 empty
		for _, k := range keys {
			if mode == 3 || (mode == 1 && s.r.chance(50)) {
				continue
			}
			m[k] = s.val()
		}
		if mode == 2 || s.r.chance(15) {
			for i := 0; i < 1+s.r.intn(2); i++ {
				k := s.r.intn(s.nkeys + 1)
				if _, ok := m[k]; !ok {
					m[k] = s.val()
				}
			}
		}
		requested := map[int]bool{}
		for _, k := range keys {
			requested[k] = true
		}
		for k := range m {
			if !requested[k] {
				s.volunteered[k]++ // a key the loader returned without being asked for it
			}
		}
		return pairsStr("M", m), m, nil, false
	case x < 88 || !allowPanic || s.inQueue:
		if s.r.chance(45) {
			// an error together with a (partial) result that also volunteers keys: nothing of it may be cached
			m := map[int]int{}
			for _, k := range keys {
				if s.r.chance(50) {
					m[k] = s.val()
				}
			}
			for i := 0; i < 1+s.r.intn(2); i++ {
				m[s.r.intn(s.nkeys+1)] = s.val()
			}
			return "E", m, errLoader, false
		}
		return "E", nil, errLoader, false
	default:
		return "P", nil, nil, true
	}
}

type seqBulkLoader struct {
	s          *seqCase
	allowPanic bool
}

func sortedCopy(a []int) []int { b := append([]int(nil), a...); sort.Ints(b); return b }

func (l seqBulkLoader) BulkLoad(ctx context.Context, keys []int) (map[int]int, error) {
	enc, m, err, pan := l.s.bulkOutcome(keys, l.allowPanic)
	l.s.loads = append(l.s.loads, loadRec{kind: "BL", keys: sortedCopy(keys), oc: enc})
	if pan {
		panic("bulk loader panic")
	}
	return m, err
}
func (l seqBulkLoader) BulkReload(ctx context.Context, keys []int, olds []int) (map[int]int, error) {
	enc, m, err, pan := l.s.bulkOutcome(keys, l.allowPanic)
	// sort keys/olds together
	type ko struct{ k, o int }
	kos := make([]ko, len(keys))
	for i := range keys {
		kos[i] = ko{keys[i], olds[i]}
	}
	sort.Slice(kos, func(i, j int) bool { return kos[i].k < kos[j].k })
	ks, os := make([]int, len(kos)), make([]int, len(kos))
	for i, x := range kos {
		ks[i], os[i] = x.k, x.o
	}
	l.s.loads = append(l.s.loads, loadRec{kind: "BR", keys: ks, olds: os, oc: enc})
	if pan {
		panic("bulk loader panic")
	}
	return m, err
}

func intsStr(a []int) string {
	var sb strings.Builder
	fmt.Fprintf(&sb, "%d", len(a))
	for _, x := range a {
		fmt.Fprintf(&sb, " %d", x)
	}
	return sb.String()
}

// cbStr encodes the loader calls made during one operation.
func cbStr(ls []loadRec) string {
	var sb strings.Builder
	fmt.Fprintf(&sb, "B %d", len(ls))
	for _, l := range ls {
		switch l.kind {
		case "L":
			fmt.Fprintf(&sb, " L %d", l.keys[0])
		case "R":
			fmt.Fprintf(&sb, " R %d %d", l.keys[0], l.olds[0])
		case "BL":
			fmt.Fprintf(&sb, " BL %s", intsStr(l.keys))
		case "BR":
			fmt.Fprintf(&sb, " BR %s %s", intsStr(l.keys), intsStr(l.olds))
		}
	}
	return sb.String()
}

// queue ---------------------------------------------------------------------

// runQueued runs one queued executor task and writes what it turned out to be.
func (s *seqCase) runQueued() {
	fn := s.queue[0]
	s.queue = s.queue[1:]
	a0, l0 := len(s.atomic), len(s.loads)
	panicked := false
	s.inQueue = true
	func() {
		defer func() {
			if r := recover(); r != nil {
				panicked = true
			}
		}()
		fn()
	}()
	s.inQueue = false
	now := s.now()
	ls := s.loads[l0:]
	es := s.atomic[a0:]
	if len(ls) == 0 {
		// maintenance or notification task: every atomic event is an automatic removal
		s.flushMaint("")
		for _, e := range es {
			s.t.line("O AUTO %d %d %d %d", e.k, e.v, int(e.c), now)
			s.sum.Dist["auto_"+e.c.String()]++
		}
		if panicked {
			s.sum.fail("C01", "task-panic", "a maintenance task panicked", s.desc)
		}
		return
	}
	// a refresh closure (single or bulk)
	ret := "P"
	if !panicked {
		ret = "-" // result goes to the channel (manual) or nowhere; compared via the channel when manual
	}
	switch ls[0].kind {
	case "L", "R":
		old := "-"
		if ls[0].kind == "R" {
			old = fmt.Sprint(ls[0].olds[0])
		}
		s.t.line("O RUN %d %s %s %d ; R %s ; %s ; %s", ls[0].keys[0], old, ls[0].oc, now, ret, evStr(es), cbStr(ls))
		s.sum.Dist["run_refresh"]++
	default:
		// bulk: at most one BL then at most one BR
		bl, br := "-", "-"
		for _, l := range ls {
			if l.kind == "BL" {
				bl = l.oc
			} else {
				br = l.oc
			}
		}
		s.t.line("O BRUN %s | %s | %d ; R %s ; %s ; %s", bl, br, now, ret, evStr(es), cbStr(ls))
		s.sum.Dist["run_bulk_refresh"]++
	}
}

func (s *seqCase) drain() {
	for len(s.queue) > 0 {
		s.runQueued()
	}
}

// inline maintenance: an API call that runs maintenance itself; every event is automatic
func (s *seqCase) maint(name string, fn func()) {
	a0 := len(s.atomic)
	fn()
	now := s.now()
	s.t.line("# %s", name)
	s.flushMaint(name)
	for _, e := range s.atomic[a0:] {
		s.t.line("O AUTO %d %d %d %d", e.k, e.v, int(e.c), now)
		s.sum.Dist["auto_"+e.c.String()]++
	}
}

func (s *seqCase) snapshot() {
	var sb strings.Builder
	now := s.now()
	fmt.Fprintf(&sb, "S %d %d %d", now, s.c.EstimatedSize(), s.nkeys+2)
	for k := 0; k < s.nkeys+2; k++ {
		e, ok := s.c.GetEntryQuietly(k)
		if ok {
			fmt.Fprintf(&sb, " %d 1 %d %d %d %d", k, e.Value, e.Weight, e.ExpiresAtNano, e.RefreshableAtNano)
		} else {
			fmt.Fprintf(&sb, " %d 0 0 0 0 0", k)
		}
	}
	st := s.c.Stats()
	fmt.Fprintf(&sb, " T %d %d %d %d %d %d", st.Hits, st.Misses, st.LoadSuccesses, st.LoadFailures, st.Evictions, st.EvictionWeight)
	s.t.line("%s", sb.String())
	if s.maintMode {
		s.audit()
	}
}

func retVB(v int, b bool) string {
	if b {
		return fmt.Sprintf("V %d 1", v)
	}
	return fmt.Sprintf("V %d 0", v)
}

// classify what an operation met, for the evidence
func (s *seqCase) keyState(k int) string {
	e, ok := s.c.GetEntryQuietly(k)
	if ok {
		if s.withRefr && e.RefreshableAtNano <= s.now() {
			return "stale"
		}
		if e.Weight == 0 {
			return "pinned"
		}
		return "live"
	}
	// absent or expired-unswept: look at the physical table through iteration? use size delta trick:
	return "absent-or-dead"
}

func (s *seqCase) step() {
	r := s.r
	c := s.c
	k := r.intn(s.nkeys)
	if r.chance(5) {
		k = s.nkeys + r.intn(2) // rarely used keys
	}
	now := s.now()
	a0, l0 := len(s.atomic), len(s.loads)
	opname := ""
	line := ""
	ret := ""
	cbExtra := ""
	panicked := false
	call := func(fn func()) {
		defer func() {
			if rec := recover(); rec != nil {
				panicked = true
			}
		}()
		fn()
	}
	x := r.intn(118)
	if s.forceRead > 0 {
		// a burst of reads with no maintenance in between: the lossy read buffer fills and drops records, so a
		// deadline a read extended in place is re-scheduled only by the wheel's own walk
		s.forceRead--
		x = 20 + r.intn(10)
		if r.chance(60) {
			k = s.burstKey
		}
		if s.forceRead == 5 && s.clk.now < math.MaxInt64/2 {
			// ... once the buffer is full the clock moves by a tick or more, so that the remaining reads of
			// the burst extend deadlines while their records are dropped
			x = 100
			s.forceAdv = []int64{1 << 30, 1<<30 + 7, 1 << 31, 3 << 30, 1 << 33, 5}[r.intn(6)]
		}
	}
	v0 := s.nextVal
	defer func() {
		for v := v0 + 1; v <= s.nextVal; v++ {
			s.returnedAt[v] = s.now()
		}
		// a SetIfAbsent that found the entry is a read that may MOVE its deadline (with a stale clock
		// sample: backwards); C13 speaks about deadlines set by operations that returned a tick ago
		for _, v := range s.touched {
			s.returnedAt[v] = s.now()
		}
		s.touched = s.touched[:0]
	}()
	if s.maintMode && s.withExp && x < 20 && r.chance(6) {
		// stale write: the Set / SetIfAbsent below samples the clock, then maintenance runs at a later time
		d := []int64{3, 1 << 30, 1<<30 + 1, 1 << 31, 1<<36 + 5, 1 << 42}[r.intn(6)]
		if s.clk.now < math.MaxInt64/2 {
			s.clk.hook = func() {
				s.clk.now += d
				s.maint("CleanUp (between a write's clock sample and its index update)", func() { c.CleanUp() })
				s.staleBase = len(s.atomic)
				s.t.line("STALE %d", now)
				s.sum.Dist["stale_writes"]++
			}
		}
	}
	if s.maintMode {
		// no bulk operations, refresh, InvalidateAll or iteration: one index action per operation
		for (x >= 60 && x < 61) || (x >= 78 && x < 92) || (x >= 65 && x < 68) {
			x = r.intn(118)
		}
	}
	switch {
	case x < 14:
		opname = "SET"
		v := s.val()
		ov, ok := c.Set(k, v)
		line = fmt.Sprintf("O SET %d %d %d", k, v, now)
		ret = retVB(ov, ok)
	case x < 20:
		opname = "SIA"
		v := s.val()
		ov, ok := c.SetIfAbsent(k, v)
		if !ok {
			s.touched = append(s.touched, ov)
		}
		line = fmt.Sprintf("O SIA %d %d %d", k, v, now)
		ret = retVB(ov, ok)
	case x < 30:
		opname = "GIP"
		v, ok := c.GetIfPresent(k)
		line = fmt.Sprintf("O GIP %d %d", k, now)
		ret = retVB(v, ok)
	case x < 34:
		opname = "GE"
		e, ok := c.GetEntry(k)
		line = fmt.Sprintf("O GE %d %d", k, now)
		if ok {
			ret = fmt.Sprintf("T %d %d %d %d %d", e.Value, e.Weight, e.ExpiresAtNano, e.RefreshableAtNano, e.SnapshotAtNano)
		} else {
			ret = "N"
		}
	case x < 37:
		opname = "GEQ"
		e, ok := c.GetEntryQuietly(k)
		line = fmt.Sprintf("O GEQ %d %d", k, now)
		if ok {
			ret = fmt.Sprintf("T %d %d %d %d %d", e.Value, e.Weight, e.ExpiresAtNano, e.RefreshableAtNano, e.SnapshotAtNano)
		} else {
			ret = "N"
		}
	case x < 45:
		opname = "CMP"
		res := []string{"W", "W", "W", "I", "I", "C", "C", "X", "P"}[r.intn(9)]
		v := s.val()
		called, gotFound, gotOld := 0, false, 0
		var rv int
		var rok bool
		call(func() {
			rv, rok = c.Compute(k, func(old int, found bool) (int, otter.ComputeOp) {
				called++
				gotFound, gotOld = found, old
				switch res {
				case "W":
					return v, otter.WriteOp
				case "I":
					return v, otter.InvalidateOp
				case "C":
					return v, otter.CancelOp
				case "X":
					return v, otter.ComputeOp(7)
				default:
					panic("remap panic")
				}
			})
		})
		line = fmt.Sprintf("O CMP %d %s %d %d", k, res, v, now)
		ret = retVB(rv, rok)
		f := 0
		if gotFound {
			f = 1
		}
		cbExtra = fmt.Sprintf("F %d %d %d", called, f, gotOld)
	case x < 50:
		opname = "CIA"
		res := []string{"W", "W", "W", "C", "P"}[r.intn(5)]
		v := s.val()
		called := 0
		var rv int
		var rok bool
		call(func() {
			rv, rok = c.ComputeIfAbsent(k, func() (int, bool) {
				called++
				switch res {
				case "W":
					return v, false
				case "C":
					return v, true
				default:
					panic("mapping panic")
				}
			})
		})
		line = fmt.Sprintf("O CIA %d %s %d %d", k, res, v, now)
		ret = retVB(rv, rok)
		cbExtra = fmt.Sprintf("F %d 0 0", called)
	case x < 55:
		opname = "CIP"
		res := []string{"W", "W", "I", "C", "X", "P"}[r.intn(6)]
		v := s.val()
		called, gotOld := 0, 0
		var rv int
		var rok bool
		call(func() {
			rv, rok = c.ComputeIfPresent(k, func(old int) (int, otter.ComputeOp) {
				called++
				gotOld = old
				switch res {
				case "W":
					return v, otter.WriteOp
				case "I":
					return v, otter.InvalidateOp
				case "C":
					return v, otter.CancelOp
				case "X":
					return v, otter.ComputeOp(-3)
				default:
					panic("remap panic")
				}
			})
		})
		line = fmt.Sprintf("O CIP %d %s %d %d", k, res, v, now)
		ret = retVB(rv, rok)
		cbExtra = fmt.Sprintf("F %d 1 %d", called, gotOld)
	case x < 60:
		opname = "INV"
		v, ok := c.Invalidate(k)
		line = fmt.Sprintf("O INV %d %d", k, now)
		ret = retVB(v, ok)
	case x < 61:
		opname = "INVALL"
		// InvalidateAll drains pending tasks under the lock first: oversized adds may evict (Overflow)
		// before the invalidation events. Those are automatic removals.
		c.InvalidateAll()
		es := s.atomic[a0:]
		own := []ev{}
		for _, e := range es {
			if e.c == otter.CauseOverflow {
				s.t.line("O AUTO %d %d %d %d", e.k, e.v, int(e.c), now)
			} else {
				own = append(own, e)
			}
		}
		s.t.line("O INVALL %d ; R N ; %s ; B 0", now, evStr(own))
		s.sum.Dist["op_INVALL"]++
		s.sum.Ops++
		return
	case x < 65:
		opname = "SEA"
		d := s.pickDur()
		if r.chance(10) {
			d = []int64{0, -5}[r.intn(2)]
		}
		seaDropped := false
		if s.maintMode && d > 0 {
			// SetExpiresAfter tells the timer wheel about the new deadline through the LOSSY read buffer only
			seaDropped = otter.VerifAudit(c).ReadBufferLen >= 16
		}
		c.SetExpiresAfter(k, time.Duration(d))
		if seaDropped {
			if e, ok := c.GetEntryQuietly(k); ok {
				s.seaDropped[e.Value] = true
				s.sum.Dist["SetExpiresAfter_record_dropped"]++
			}
		}
		line = fmt.Sprintf("O SEA %d %d %d", k, d, now)
		ret = "N"
	case x < 68:
		opname = "SRA"
		d := s.pickDur()
		if r.chance(10) {
			d = []int64{0, -5}[r.intn(2)]
		}
		c.SetRefreshableAfter(k, time.Duration(d))
		line = fmt.Sprintf("O SRA %d %d %d", k, d, now)
		ret = "N"
	case x < 78:
		opname = "GET"
		var v int
		var err error
		call(func() { v, err = c.Get(context.Background(), k, seqLoader{s}) })
		oc := "-"
		if len(s.loads) > l0 {
			oc = s.loads[l0].oc
		}
		line = fmt.Sprintf("O GET %d %s %d", k, oc, now)
		ec := 0
		if err != nil {
			ec = 1
			if errors.Is(err, otter.ErrNotFound) {
				ec = 2
			}
		}
		ret = fmt.Sprintf("L %d %d", v, ec)
	case x < 84:
		opname = "BGET"
		n := 1 + r.intn(5)
		keys := make([]int, n)
		for i := range keys {
			keys[i] = r.intn(s.nkeys + 1)
		}
		if r.chance(5) {
			keys = nil
		}
		var m map[int]int
		var err error
		call(func() { m, err = c.BulkGet(context.Background(), keys, seqBulkLoader{s, true}) })
		oc := "-"
		if len(s.loads) > l0 {
			oc = s.loads[l0].oc
		}
		line = fmt.Sprintf("O BGET %s | %s | %d", intsStr(keys), oc, now)
		ec := 0
		if err != nil {
			ec = 1
		}
		ret = fmt.Sprintf("K %d %s", ec, pairsStr("", m))
	case x < 87:
		opname = "REF"
		ch := c.Refresh(context.Background(), k, seqLoader{s})
		line = fmt.Sprintf("O REF %d %d", k, now)
		if ch == nil {
			ret = "C 0"
		} else {
			ret = "C 1"
			s.pendingChans = append(s.pendingChans, pendingRef{k, ch})
		}
	case x < 89:
		opname = "BREF"
		n := 1 + r.intn(4)
		keys := make([]int, n)
		for i := range keys {
			keys[i] = r.intn(s.nkeys + 1)
		}
		if r.chance(8) {
			keys = nil
		}
		// a panic while both a BulkLoad and a BulkReload are needed would leave the reload calls
		// registered forever (see DESIGN, observation on bulkRefreshKeys): no panics in bulk refresh
		ch := c.BulkRefresh(context.Background(), keys, seqBulkLoader{s, false})
		line = fmt.Sprintf("O BREF %s | %d", intsStr(keys), now)
		if ch == nil {
			ret = "C 0"
		} else {
			ret = "C 1"
			s.pendingBulkChans = append(s.pendingBulkChans, pendingBulk{append([]int(nil), keys...), ch})
		}
	case x < 92:
		opname = "ITER"
		m := map[int]int{}
		dup := false
		variant := r.intn(3)
		if s.bound != 0 && r.chance(40) {
			variant = 3 + r.intn(2) // Hottest / Coldest: the eviction order views must hide expired entries too
		}
		switch variant {
		case 3, 4:
			// these views run maintenance themselves before they iterate: its automatic removals are
			// written first, then the iteration's result
			s.maint("Hottest/Coldest", func() {
				seq := c.Hottest()
				if variant == 4 {
					seq = c.Coldest()
				}
				for e := range seq {
					if _, ok := m[e.Key]; ok {
						dup = true
					}
					m[e.Key] = e.Value
				}
			})
			a0 = len(s.atomic)
		case 0:
			for kk, v := range c.All() {
				if _, ok := m[kk]; ok {
					dup = true
				}
				m[kk] = v
			}
		case 1:
			for kk := range c.Keys() {
				if _, ok := m[kk]; ok {
					dup = true
				}
				v, _ := c.GetEntryQuietly(kk)
				m[kk] = v.Value
			}
		default:
			// values only: recover keys through the unique values
			vals := map[int]bool{}
			for v := range c.Values() {
				if vals[v] {
					dup = true
				}
				vals[v] = true
			}
			for kk := 0; kk < s.nkeys+2; kk++ {
				if e, ok := c.GetEntryQuietly(kk); ok && vals[e.Value] {
					m[kk] = e.Value
					delete(vals, e.Value)
				}
			}
			for v := range vals {
				m[-v] = v // a value no key holds: will not match the model
			}
		}
		if dup {
			s.sum.fail("C01", "iter-dup", "iteration yielded a key twice", s.desc)
		}
		line = fmt.Sprintf("O ITER %d", now)
		ret = pairsStr("I", m)
	case x < 104:
		// clock advance
		if !s.withTime {
			return
		}
		var d int64
		switch y := r.intn(100); {
		case y < 70:
			d = []int64{0, 1, 1, 2, 3, 5, 10, 20, 50, 100}[r.intn(10)]
		case y < 90:
			d = []int64{1<<30 - 1, 1 << 30, 1<<30 + 1, 1<<36 + 5, 1 << 42}[r.intn(5)]
		default:
			d = []int64{1 << 47, 1 << 49, 1 << 52}[r.intn(3)]
		}
		if s.clk.now > math.MaxInt64/2 {
			d = 1
		}
		if s.forceAdv != 0 {
			d, s.forceAdv = s.forceAdv, 0
		}
		s.clk.now += d
		s.sum.Dist["clock_advance"]++
		return
	case x < 110:
		s.maint("CleanUp", func() { c.CleanUp() })
		s.sum.Dist["op_CleanUp"]++
		return
	case x < 112:
		if s.bound == 0 {
			return
		}
		nm := uint64(r.intn(int(s.maximum) + 3))
		s.maint(fmt.Sprintf("SetMaximum %d", nm), func() { c.SetMaximum(nm) })
		s.sum.Dist["op_SetMaximum"]++
		return
	case x < 114:
		s.maint("WeightedSize/GetMaximum", func() { c.WeightedSize(); c.GetMaximum() })
		return
	default:
		if s.maintMode && r.chance(45) {
			// the write events recorded so far reach the maintenance thread in another order (as they
			// may when the writers are different goroutines): re-queue them permuted
			if _, wb := otter.VerifDrainState(c); wb >= 2 && wb <= 12 {
				n := int(wb)
				order := make([]int, n)
				for i := range order {
					order[i] = i
				}
				switch r.intn(3) {
				case 0: // swap two neighbours
					i := r.intn(n - 1)
					order[i], order[i+1] = order[i+1], order[i]
				case 1: // reverse
					for i, j := 0, n-1; i < j; i, j = i+1, j-1 {
						order[i], order[j] = order[j], order[i]
					}
				default: // shuffle
					for i := n - 1; i > 0; i-- {
						j := r.intn(i + 1)
						order[i], order[j] = order[j], order[i]
					}
				}
				if otter.VerifPermuteWriteBuffer(c, order) {
					s.t.line("P %s", intsStr(order))
					s.sum.Dist["write_buffer_permuted"]++
				}
			}
			return
		}
		// run some queued tasks
		n := r.intn(3)
		for i := 0; i < n && len(s.queue) > 0; i++ {
			s.runQueued()
		}
		return
	}
	if panicked {
		ret = "P"
	}
	s.sum.Dist["op_"+opname]++
	s.sum.Ops++
	if s.staleBase > a0 {
		a0 = s.staleBase
	}
	es := s.atomic[a0:]
	cb := cbStr(s.loads[l0:])
	if cbExtra != "" {
		cb = cbExtra
	}
	s.t.line("%s ; R %s ; %s ; %s", line, ret, evStr(es), cb)
}

func runSeq(seed uint64, scale int, out string, _ string) *summary {
	return runSeqMode(seed, scale, out, false)
}

func runSeqMode(seed uint64, scale int, out string, maintMode bool) *summary {
	r := &rng{s: seed}
	name := "seq"
	if maintMode {
		name = "maint"
	}
	sum := newSummary(name, seed)
	t := newTrace(out)
	defer t.close()
	nCases := 96 * scale
	for cn := 0; cn < nCases; cn++ {
		// one generator per case, seeded from the run's: what a case does then depends only on (seed, case
		// number) and on that case's own implementation-dependent choices (sketch seeds are per process)
		s := &seqCase{r: &rng{s: r.next()}, sum: sum, t: t, maintMode: maintMode}
		s.setup(cn)
		sum.Cases++
		nops := 150 + s.r.intn(200)
		if s.climber {
			// long enough for several of the climber's samples (ten requests per unit of the maximum each), with
			// phases of few keys (hits) and of many keys (misses) so that the sampled hit rate rises and falls
			nops = 1400 + s.r.intn(600)
			sum.Dist["cfg_climber"]++
		}
		// in a third of the closed-loop cases the queued maintenance tasks are run rarely, so that several
		// write events pile up in the write buffer (and can be re-queued in another order)
		drainChance := 65
		if maintMode && cn%3 == 1 {
			drainChance = 10
		}
		for i := 0; i < nops; i++ {
			if s.climber && i%230 == 0 {
				s.nkeys = s.phaseKeys[(i/230)%2]
			}
			if maintMode && s.withExp && s.forceRead == 0 && s.r.chance(2) {
				s.forceRead = 17 + s.r.intn(8)
				s.burstKey = s.r.intn(s.nkeys)
				s.sum.Dist["read_bursts"]++
			}
			s.step()
			if s.forceRead == 0 && s.r.chance(drainChance) {
				s.drain()
			}
			s.snapshot()
		}
		// quiescence
		s.drain()
		s.maint("CleanUp", func() { s.c.CleanUp() })
		s.drain()
		s.snapshot()
		s.finish()
		s.persistCheck()
		if len(sum.Samples) < 4 {
			sum.Samples = append(sum.Samples, fmt.Sprintf("case %d: %s ops=%d", cn, s.desc, nops))
		}
		s.c.StopAllGoroutines()
	}
	seen := 0
	for k, v := range sum.Dist {
		if strings.HasPrefix(k, "op_") && v > 0 {
			seen++
		}
	}
	sum.Distinct = seen * len(sum.Dist)
	return sum
}

func evMultiset(es []ev) map[ev]int {
	m := map[ev]int{}
	for _, e := range es {
		m[e]++
	}
	return m
}

// finish: implementation-only oracles evaluated at quiescence.
func (s *seqCase) finish() {
	// C11: every explicit Refresh / BulkRefresh delivered exactly one result on its channel
	for _, p := range s.pendingChans {
		select {
		case res := <-p.ch:
			if res.Key != p.key {
				s.sum.fail("C11", "refresh-result-key", "Refresh result carries a different key", fmt.Sprintf("%s key=%d got=%d", s.desc, p.key, res.Key))
			}
		default:
			s.sum.fail("C11", "refresh-no-result", "Refresh delivered no result on its channel", fmt.Sprintf("%s key=%d", s.desc, p.key))
		}
		select {
		case <-p.ch:
			s.sum.fail("C11", "refresh-two-results", "Refresh delivered two results", fmt.Sprintf("%s key=%d", s.desc, p.key))
		default:
		}
	}
	for _, p := range s.pendingBulkChans {
		select {
		case res := <-p.ch:
			seen := map[int]int{}
			for _, x := range res {
				seen[x.Key]++
			}
			for _, k := range p.keys {
				// (a key can legitimately appear twice when the bulk loader volunteers, for the
				// load half, a key that belongs to the reload half)
				if seen[k] < 1 {
					s.sum.fail("C11", "bulkrefresh-result-count", "BulkRefresh delivered no result for a requested key",
						fmt.Sprintf("%s keys=%v key=%d count=%d", s.desc, p.keys, k, seen[k]))
				}
				if seen[k] > 1+s.volunteered[k] {
					s.sum.fail("C11", "bulkrefresh-duplicate-result", "BulkRefresh delivered more than one result for a requested key that no bulk loader volunteered",
						fmt.Sprintf("%s keys=%v key=%d count=%d", s.desc, p.keys, k, seen[k]))
				}
			}
		default:
			s.sum.fail("C11", "bulkrefresh-no-result", "BulkRefresh delivered no result slice", fmt.Sprintf("%s keys=%v", s.desc, p.keys))
		}
	}
	s.sum.Dist["manual_refresh_channels"] += len(s.pendingChans) + len(s.pendingBulkChans)
	// C06: at quiescence the asynchronous handler has seen exactly the atomic handler's events
	a, b := evMultiset(s.atomic), evMultiset(s.async)
	for e, n := range a {
		if b[e] != n {
			s.sum.fail("C06", "async-mismatch", "OnDeletion and OnAtomicDeletion disagree at quiescence",
				fmt.Sprintf("%s key=%d value=%d cause=%s atomic=%d async=%d", s.desc, e.k, e.v, e.c, n, b[e]))
			break
		}
	}
	for e, n := range b {
		if a[e] != n {
			s.sum.fail("C06", "async-mismatch", "OnDeletion and OnAtomicDeletion disagree at quiescence",
				fmt.Sprintf("%s key=%d value=%d cause=%s atomic=%d async=%d", s.desc, e.k, e.v, e.c, a[e], n))
			break
		}
	}
	s.sum.Dist["events_total"] += len(s.atomic)
}

// persistCheck (C19): SaveCacheTo + LoadCacheFrom into an empty cache of the same configuration,
// at a clock offset, compared entry by entry with the source's live contents.
func (s *seqCase) persistCheck() {
	r := s.r
	type ent struct {
		v          int
		w          uint32
		exp, refr  int64
	}
	src := map[int]ent{}
	var totalW uint64
	for k := 0; k < s.nkeys+2; k++ {
		if e, ok := s.c.GetEntryQuietly(k); ok {
			src[k] = ent{e.Value, e.Weight, e.ExpiresAtNano, e.RefreshableAtNano}
			totalW += uint64(e.Weight)
		}
	}
	srcMax := s.c.GetMaximum()
	var buf bytes.Buffer
	var saveErr error
	s.maint("SaveCacheTo", func() { saveErr = otter.SaveCacheTo(s.c, &buf) })
	if saveErr != nil {
		s.sum.fail("C19", "save-error", "SaveCacheTo failed", s.desc+" "+saveErr.Error())
		return
	}
	// clock offset between save and load
	var off int64
	if s.withTime {
		minExp := int64(math.MaxInt64)
		for _, e := range src {
			if s.withExp && e.exp < minExp {
				minExp = e.exp
			}
		}
		switch r.intn(5) {
		case 0:
			off = 0
		case 1:
			off = 1
		case 2:
			if minExp != math.MaxInt64 && minExp > s.clk.now {
				off = minExp - s.clk.now // exactly at the first deadline
			}
		case 3:
			if minExp != math.MaxInt64 && minExp > s.clk.now {
				off = minExp - s.clk.now - 1
			}
		default:
			off = []int64{5, 50, 1 << 31}[r.intn(3)]
		}
		if s.clk.now > math.MaxInt64/2 {
			off = 0
		}
	}
	s.clk.now += off
	now := s.now()
	// target maximum: same, larger or smaller
	tmax := srcMax
	kind := "same"
	if s.bound != 0 {
		switch r.intn(4) {
		case 0:
			tmax = srcMax + 1 + uint64(r.intn(5))
			kind = "larger"
		case 1:
			if srcMax > 1 {
				tmax = 1 + uint64(r.intn(int(srcMax)-1))
				kind = "smaller"
			}
		}
		if tmax == 0 {
			tmax = 1 // a target cannot be built with maximum 0
			if srcMax == 0 {
				kind = "larger"
			}
		}
	}
	s.inTarget = true
	defer func() { s.inTarget = false }()
	tgt := s.mkTarget(tmax)
	defer tgt.StopAllGoroutines()
	if err := otter.LoadCacheFrom(tgt, &buf); err != nil {
		s.sum.fail("C19", "load-error", "LoadCacheFrom failed", s.desc+" "+err.Error())
		return
	}
	tgt.CleanUp()
	s.sum.Dist["persist_"+kind]++
	desc := fmt.Sprintf("%s | save: entries=%v max=%d; load at +%dns into maximum %d (%s)", s.desc, src, srcMax, off, tmax, kind)
	var liveW uint64
	live := map[int]ent{}
	for k, e := range src {
		if !s.withExp || e.exp > now {
			live[k] = e
			liveW += uint64(e.w)
		}
	}
	fits := s.bound == 0 || (totalW <= srcMax && liveW <= tmax && totalW <= tmax)
	got := map[int]ent{}
	var gotW uint64
	for k := 0; k < s.nkeys+2; k++ {
		if e, ok := tgt.GetEntryQuietly(k); ok {
			got[k] = ent{e.Value, e.Weight, e.ExpiresAtNano, e.RefreshableAtNano}
			gotW += uint64(e.Weight)
		}
	}
	for k, g := range got {
		e, ok := live[k]
		if !ok {
			what := "an entry that was absent"
			if se, was := src[k]; was {
				what = fmt.Sprintf("an entry expired at load time (exp=%d, now=%d)", se.exp, now)
			}
			s.sum.fail("C19", "loaded-extra", "LoadCacheFrom loaded "+what, fmt.Sprintf("%s key=%d", desc, k))
			continue
		}
		if g.v != e.v {
			s.sum.fail("C19", "loaded-value", "loaded value differs", fmt.Sprintf("%s key=%d saved=%d loaded=%d", desc, k, e.v, g.v))
		}
		if s.withExp && g.exp != e.exp && e.exp == math.MaxInt64 {
			s.sum.fail("C19", "loaded-expiry-never-expiring", "an entry saved with expiration time MaxInt64 (never) was loaded with the calculator's deadline",
				fmt.Sprintf("%s key=%d saved=%d loaded=%d now=%d", desc, k, e.exp, g.exp, now))
		} else if s.withExp && g.exp != e.exp {
			s.sum.fail("C19", "loaded-expiry", "loaded expiration deadline differs", fmt.Sprintf("%s key=%d saved=%d loaded=%d now=%d", desc, k, e.exp, g.exp, now))
		}
		if s.withRefr {
			if e.refr > now && g.refr != e.refr && e.refr == math.MaxInt64 {
				s.sum.fail("C19", "loaded-refresh-never", "an entry saved with refresh time MaxInt64 (never) was loaded with the calculator's refresh time",
					fmt.Sprintf("%s key=%d saved=%d loaded=%d now=%d", desc, k, e.refr, g.refr, now))
			} else if e.refr > now && g.refr != e.refr {
				s.sum.fail("C19", "loaded-refresh", "loaded refresh deadline differs", fmt.Sprintf("%s key=%d saved=%d loaded=%d now=%d", desc, k, e.refr, g.refr, now))
			}
			if e.refr <= now && g.refr > now+1 {
				s.sum.fail("C19", "loaded-refresh-due", "an entry due for refresh was not loaded as due", fmt.Sprintf("%s key=%d saved=%d loaded=%d now=%d", desc, k, e.refr, g.refr, now))
			}
		}
	}
	if fits {
		for k := range live {
			if _, ok := got[k]; !ok {
				sig := "not-loaded"
				if live[k].w == 0 {
					sig = "not-loaded-zero-weight"
				}
				s.sum.fail("C19", sig, "a live saved entry was not loaded although the contents fit the target", fmt.Sprintf("%s key=%d", desc, k))
			}
		}
	} else if s.bound != 0 && gotW > tmax {
		s.sum.fail("C19", "loaded-over-bound", "loaded cache exceeds its own bound", fmt.Sprintf("%s loadedWeight=%d", desc, gotW))
	}
	s.sum.Dist["persist_entries"] += len(live)
}

// ---------------------------------------------------------------- closed-loop policy replay (maint mode)

// flushMaint writes one "M" line per maintenance run observed since the last flush (the hook at the
// start of cache.maintenance), preceded by the policy maxima when SetMaximum changed them.
func (s *seqCase) flushMaint(name string) {
	if (strings.HasPrefix(name, "SetMaximum") || name == "newCache") && s.bound != 0 {
		// the maxima SetMaximum computed: read when its own maintenance run began — afterwards that run's
		// climb may already have moved them
		a := otter.VerifAudit(s.c)
		mx := [3]uint64{a.Maximum, a.WindowMaximum, a.ProtectedMaximum}
		if len(s.maintMax) > 0 && s.maintMax[0][0] != 0 {
			mx = s.maintMax[0]
		}
		s.t.line("X %d %d %d", mx[0], mx[1], mx[2])
	}
	if !s.maintMode {
		s.maintRuns = s.maintRuns[:0]
		s.maintAdj = s.maintAdj[:0]
		s.maintMax = s.maintMax[:0]
		return
	}
	for i, now := range s.maintRuns {
		s.t.line("M %d %d", now, s.maintAdj[i])
		s.sum.Dist["maintenance_runs"]++
	}
	s.maintRuns = s.maintRuns[:0]
	s.maintAdj = s.maintAdj[:0]
	s.maintMax = s.maintMax[:0]
}

func vnList(tag string, ns []otter.VerifNode[int, int]) string {
	var sb strings.Builder
	fmt.Fprintf(&sb, "%s %d", tag, len(ns))
	for _, n := range ns {
		fmt.Fprintf(&sb, " %d", n.Value)
	}
	return sb.String()
}

// audit writes the policies' bookkeeping and evaluates the implementation-only oracles of C04/C05.
func (s *seqCase) audit() {
	a := otter.VerifAudit(s.c)
	var sb strings.Builder
	fmt.Fprintf(&sb, "A %d %d %d", a.DrainStatus, a.WriteBufferSize, a.ReadBufferLen)
	if a.WithEviction {
		fmt.Fprintf(&sb, " | %s | %s | %s | C %d %d %d %d %d %d %d %d", vnList("W", a.Window), vnList("P", a.Probation), vnList("T", a.Protected),
			a.Maximum, a.WeightedSize, a.WindowMaximum, a.WindowSize, a.ProtectedMaximum, a.ProtSize, b2iG(a.SketchInit), a.SketchTableLen)
		// the hashes the sketch gives every key under the current seed
		nh := s.nkeys + 2
		if s.climber {
			nh = s.phaseKeys[1] + 2 // the key range changes with the phase: always list the widest
		}
		fmt.Fprintf(&sb, " | H %d", nh)
		for k := 0; k < nh; k++ {
			fmt.Fprintf(&sb, " %d", otter.VerifSketchHash(s.c, k))
		}
	}
	if a.WithExpiration {
		nb := 0
		var wb strings.Builder
		for i, lvl := range a.Wheel {
			for j, b := range lvl {
				if len(b) > 0 {
					nb++
					fmt.Fprintf(&wb, " %d %d %d", i, j, len(b))
					for _, n := range b {
						fmt.Fprintf(&wb, " %d", n.Value)
					}
				}
			}
		}
		fmt.Fprintf(&sb, " | WH %d %d%s", a.WheelTime, nb, wb.String())
	}
	// node states
	seen := map[int]otter.VerifNode[int, int]{}
	add := func(ns []otter.VerifNode[int, int]) {
		for _, n := range ns {
			seen[n.Value] = n
		}
	}
	add(a.Window)
	add(a.Probation)
	add(a.Protected)
	for _, lvl := range a.Wheel {
		for _, b := range lvl {
			add(b)
		}
	}
	add(a.Table)
	vals := make([]int, 0, len(seen))
	for v := range seen {
		vals = append(vals, v)
	}
	sort.Ints(vals)
	fmt.Fprintf(&sb, " | N %d", len(vals))
	for _, v := range vals {
		fmt.Fprintf(&sb, " %d %d %d", v, seen[v].State, seen[v].Queue)
	}
	s.t.line("%s", sb.String())
	s.policyOracles(a)
}

func b2iG(b bool) int {
	if b {
		return 1
	}
	return 0
}

// policyOracles: C04 / C05 on the implementation's own bookkeeping, evaluated when the cache is
// quiescent and maintenance has run (nothing queued, both buffers empty, drain status idle).
func (s *seqCase) policyOracles(a otter.VerifAuditData[int, int]) {
	if len(s.queue) != 0 || a.WriteBufferSize != 0 || a.ReadBufferLen != 0 || a.DrainStatus != 0 {
		return
	}
	s.sum.Dist["quiescent_audits"]++
	table := map[int]otter.VerifNode[int, int]{}
	var sumW uint64
	for _, n := range a.Table {
		table[n.Value] = n
		sumW += uint64(n.Weight)
	}
	desc := func() string { return fmt.Sprintf("%s now=%d table=%v", s.desc, s.now(), a.Table) }
	if s.c.EstimatedSize() != len(a.Table) {
		s.sum.fail("C05", "estimated-size", "EstimatedSize differs from the number of entries in the table", fmt.Sprintf("%s est=%d table=%d", desc(), s.c.EstimatedSize(), len(a.Table)))
	}
	if a.WithEviction {
		inQ := map[int]int{}
		var qsum, wsum, psum uint64
		for qi, q := range [][]otter.VerifNode[int, int]{a.Window, a.Probation, a.Protected} {
			for _, n := range q {
				inQ[n.Value]++
				qsum += uint64(n.Weight)
				if qi == 0 {
					wsum += uint64(n.Weight)
				}
				if qi == 2 {
					psum += uint64(n.Weight)
				}
				if n.Queue != qi {
					s.sum.fail("C05", "queue-tag", "a node is linked in a deque other than the one its queue tag names", desc())
				}
				if _, ok := table[n.Value]; !ok {
					s.sum.fail("C05", "tracked-removed", "a removed entry is still tracked by the eviction policy", fmt.Sprintf("%s value=%d", desc(), n.Value))
				}
			}
		}
		for v := range table {
			if inQ[v] != 1 {
				s.sum.fail("C05", "present-untracked", "an entry is present but not linked exactly once in the eviction policy",
					fmt.Sprintf("%s value=%d links=%d", desc(), v, inQ[v]))
			}
		}
		if a.WeightedSize != sumW {
			s.sum.fail("C05", "weighted-size", "the policy's weighted size differs from the sum of the weights of the entries present",
				fmt.Sprintf("%s weightedSize=%d sum=%d", desc(), a.WeightedSize, sumW))
		}
		if a.WindowSize != wsum || a.ProtSize != psum {
			s.sum.fail("C05", "queue-size", "a per-queue weight counter differs from the weights linked in that queue",
				fmt.Sprintf("%s window=%d/%d protected=%d/%d", desc(), a.WindowSize, wsum, a.ProtSize, psum))
		}
		if sumW > a.Maximum {
			s.sum.fail("C04", "over-bound", "total weight exceeds the maximum at quiescence", fmt.Sprintf("%s sum=%d maximum=%d", desc(), sumW, a.Maximum))
		}
		for _, n := range a.Table {
			if uint64(n.Weight) > a.Maximum {
				s.sum.fail("C04", "oversized-retained", "an entry heavier than the maximum is retained", fmt.Sprintf("%s value=%d weight=%d", desc(), n.Value, n.Weight))
			}
		}
		// the public views (each of them runs maintenance itself: traced like any other maintenance)
		var ws uint64
		all, hot, cold := map[int]int{}, map[int]int{}, map[int]int{}
		dupView := ""
		s.maint("views", func() {
			if s.bound == 2 {
				ws = s.c.WeightedSize()
			}
			for e := range s.c.Hottest() {
				if _, dup := hot[e.Key]; dup {
					dupView = "Hottest"
				}
				hot[e.Key] = e.Value
			}
			for e := range s.c.Coldest() {
				if _, dup := cold[e.Key]; dup {
					dupView = "Coldest"
				}
				cold[e.Key] = e.Value
			}
			for k, v := range s.c.All() {
				all[k] = v
			}
		})
		if s.bound == 2 && ws != sumW {
			s.sum.fail("C05", "weighted-size", "WeightedSize() differs from the sum of the weights of the entries present", fmt.Sprintf("%s WeightedSize=%d sum=%d", desc(), ws, sumW))
		}
		if dupView != "" {
			s.sum.fail("C05", "views-duplicate", dupView+" yields an entry twice", desc())
		}
		for name, m := range map[string]map[int]int{"Hottest": hot, "Coldest": cold} {
			same := len(m) == len(all)
			for k, v := range all {
				if m[k] != v {
					same = false
				}
			}
			if !same {
				s.sum.fail("C05", "views-disagree", name+" does not enumerate exactly the entries iteration yields", fmt.Sprintf("%s All=%v %s=%v", desc(), all, name, m))
			}
		}
	}
	if a.WithExpiration {
		inW := map[int]int{}
		for _, lvl := range a.Wheel {
			for _, b := range lvl {
				for _, n := range b {
					inW[n.Value]++
					if _, ok := table[n.Value]; !ok {
						s.sum.fail("C05", "tracked-removed", "a removed entry is still tracked by the expiration policy", fmt.Sprintf("%s value=%d", desc(), n.Value))
					}
				}
			}
		}
		for v := range table {
			if inW[v] != 1 {
				s.sum.fail("C05", "present-untracked", "an entry is present but not scheduled exactly once in the expiration policy",
					fmt.Sprintf("%s value=%d links=%d", desc(), v, inW[v]))
			}
		}
		// C13: after maintenance at T nothing whose deadline lies more than one tick before T is left
		const tick = int64(1) << 30
		for _, n := range a.Table {
			if n.Exp < int64(a.WheelTime)-tick && s.returnedAt[n.Value] < int64(a.WheelTime)-tick {
				sig, what := "unswept", "an entry expired more than one tick ago survived maintenance"
				if s.seaDropped[n.Value] {
					sig = "unswept-setexpiresafter-record-dropped"
					what = "an entry whose deadline SetExpiresAfter moved while the read buffer was full expired more than one tick ago and survived maintenance (the wheel was never told)"
				}
				s.sum.fail("C13", sig, what,
					fmt.Sprintf("%s value=%d exp=%d wheelTime=%d", desc(), n.Value, n.Exp, a.WheelTime))
			}
		}
	}
}

func init() {
	engines["maint"] = func(seed uint64, scale int, out string, replay string) *summary {
		return runSeqMode(seed, scale, out, true)
	}
}
