(* SeqRefine.v — the concrete sequential model refines the abstract map-with-deadlines.

   Main result [step_congruence]: the concrete step is a congruence for "equal after dropping
   dead entries": two states that agree on their live entries produce the same return value,
   the same callbacks and executor submissions, the same statistics, the same deletion events
   up to Expiration reports, and again agree on their live entries.  Instantiated with a state
   and its own purge this is the refinement Seq ⊑ Spec; [run_refines] lifts it to every
   operation sequence with a non-decreasing clock. *)
From Otter Require Import Base Seq Spec.
From Coq Require Import ZifyBool.
Local Open Scope Z_scope.

Arguments wraps : simpl never.
Arguments wrapu : simpl never.
Arguments satadd : simpl never.
Arguments abs64 : simpl never.
Arguments Z.modulo : simpl never.
Arguments Z.div : simpl never.

(* ------------------------------------------------------------------ arithmetic *)

Lemma satadd_spec a b :
  0 <= a <= MaxInt64 -> 0 < b <= MaxInt64 -> satadd a b = Z.min MaxInt64 (a + b).
Proof.
  unfold satadd, wraps, MaxInt64, two63, two64. intros Ha Hb.
  destruct (Z_le_gt_dec (a + b) 9223372036854775807) as [Hs|Hl].
  - rewrite Z.mod_small by lia.
    replace (a + b + 9223372036854775808 - 9223372036854775808) with (a + b) by lia.
    replace (a + b <? a) with false by lia. replace (a + b <? b) with false by lia. simpl. lia.
  - assert (E : (a + b + 9223372036854775808) mod 18446744073709551616 = a + b + 9223372036854775808 - 18446744073709551616).
    { symmetry. apply Z.mod_unique with (q := 1); lia. }
    rewrite E.
    replace (a + b + 9223372036854775808 - 18446744073709551616 - 9223372036854775808 <? a) with true by lia.
    simpl. lia.
Qed.

Lemma wraps_le x : wraps x <= MaxInt64.
Proof. pose proof (wraps_range x) as H. unfold in_i64 in H. lia. Qed.

Lemma wraps_small x : - MaxInt64 <= x <= MaxInt64 -> wraps x = x.
Proof. intros H. apply wraps_id. unfold in_i64, MaxInt64, two63 in *. lia. Qed.

(* ------------------------------------------------------------------ association lists *)

Lemma lookup_remove_same k m : lookup k (remove k m) = None.
Proof.
  induction m as [|[k' n] m IH]; simpl; [reflexivity|].
  destruct (k' =? k) eqn:E; simpl; [assumption|]. rewrite E. assumption.
Qed.

Lemma lookup_remove_other k k' m : k <> k' -> lookup k' (remove k m) = lookup k' m.
Proof.
  intros Hne. induction m as [|[k2 n] m IH]; simpl; [reflexivity|].
  destruct (k2 =? k) eqn:E; simpl.
  - apply Z.eqb_eq in E. subst. replace (k =? k') with false by lia. assumption.
  - destruct (k2 =? k'); [reflexivity|assumption].
Qed.

Lemma in_remove k m p : In p (remove k m) -> In p m /\ fst p <> k.
Proof. unfold remove. intros H. apply filter_In in H. destruct H as [H1 H2]. split; [assumption|]. lia. Qed.

Lemma keys_remove k m x : In x (map fst (remove k m)) -> In x (map fst m) /\ x <> k.
Proof.
  intros H. apply in_map_iff in H. destruct H as (p & <- & Hp). apply in_remove in Hp.
  destruct Hp as [Hp Hk]. split; [apply in_map; assumption|assumption].
Qed.

Lemma NoDup_remove k m : NoDup (map fst m) -> NoDup (map fst (remove k m)).
Proof.
  induction m as [|[k' n] m IH]; simpl; intros H; [constructor|].
  inversion H as [|? ? Hn Hd]; subst.
  destruct (k' =? k); simpl; [apply IH; assumption|].
  constructor; [|apply IH; assumption].
  intros Hin. apply keys_remove in Hin. tauto.
Qed.

Lemma map_fst_mutate k f m : map fst (mutate k f m) = map fst m.
Proof.
  unfold mutate. rewrite map_map. apply map_ext. intros [k' n]; simpl. destruct (k' =? k); reflexivity.
Qed.

Lemma lookup_mutate_same k f m :
  lookup k (mutate k f m) = match lookup k m with Some n => Some (f n) | None => None end.
Proof.
  induction m as [|[k' n] m IH]; simpl; [reflexivity|].
  destruct (k' =? k) eqn:E; simpl; rewrite E; [reflexivity|assumption].
Qed.

Lemma lookup_mutate_other k k' f m : k <> k' -> lookup k' (mutate k f m) = lookup k' m.
Proof.
  intros Hne. induction m as [|[k2 n] m IH]; simpl; [reflexivity|].
  destruct (k2 =? k) eqn:E; simpl.
  - apply Z.eqb_eq in E. subst. replace (k =? k') with false by lia. assumption.
  - destruct (k2 =? k'); [reflexivity|assumption].
Qed.

Lemma lookup_In k m n : lookup k m = Some n -> In (k, n) m.
Proof.
  induction m as [|[k' n'] m IH]; simpl; [discriminate|].
  destruct (k' =? k) eqn:E.
  - intros H; injection H as ->. apply Z.eqb_eq in E. subst. left; reflexivity.
  - intros H. right. apply IH. assumption.
Qed.

Lemma lookup_None_notin k m : lookup k m = None -> ~ In k (map fst m).
Proof.
  induction m as [|[k' n'] m IH]; simpl; [tauto|].
  destruct (k' =? k) eqn:E; [discriminate|].
  intros H [Hk|Hin]; [lia|]. apply (IH H Hin).
Qed.

Lemma remove_notin k m : ~ In k (map fst m) -> remove k m = m.
Proof.
  induction m as [|[k' n'] m IH]; simpl; intros H; [reflexivity|].
  destruct (k' =? k) eqn:E; simpl.
  - exfalso. apply H. left. lia.
  - f_equal. apply IH. tauto.
Qed.

(* ------------------------------------------------------------------ the section *)

Section Refine.
Variable c : cfg.

Definition node_ok (n : node) : Prop := 0 <= nexp n <= MaxInt64 /\ 0 <= nrefr n <= MaxInt64.
Definition map_ok (m : kmap) : Prop := NoDup (map fst m) /\ Forall (fun p => node_ok (snd p)) m.
Definition time_ok (now : Z) : Prop := 0 <= now < MaxInt64.

(* what the calculators must satisfy: creation durations are positive and do not depend on the
   (meaningless) current duration; every duration fits time.Duration *)
Record cfg_ok : Prop := mkCfgOk {
  ec_pos : forall k v cur, 0 < exp_create c k v cur;
  ec_ind : forall k v c1 c2, exp_create c k v c1 = exp_create c k v c2;
  ec_rng : forall k v cur, exp_create c k v cur <= MaxInt64;
  eu_rng : forall k v o cur, cur <= MaxInt64 -> exp_update c k v o cur <= MaxInt64;
  er_rng : forall k v cur, cur <= MaxInt64 -> exp_read c k v cur <= MaxInt64;
  rc_pos : forall k v cur, 0 < refr_create c k v cur;
  rc_ind : forall k v c1 c2, refr_create c k v c1 = refr_create c k v c2;
  rc_rng : forall k v cur, refr_create c k v cur <= MaxInt64;
  ru_rng : forall k v o cur, cur <= MaxInt64 -> refr_update c k v o cur <= MaxInt64;
  rr_rng : forall k v o cur, cur <= MaxInt64 -> refr_reload c k v o cur <= MaxInt64;
  rf_rng : forall k v cur, cur <= MaxInt64 -> refr_fail c k v cur <= MaxInt64
}.
Hypothesis CO : cfg_ok.

Definition olive (now : Z) (o : option node) : option node :=
  match o with
  | Some n => if has_expired c n now then None else Some n
  | None => None
  end.

Definition eqv (now : Z) (m1 m2 : kmap) : Prop := purge c now m1 = purge c now m2.

(* the lookup/load counters agree; eviction counters are compared separately (a sweep of a dead
   node is counted concretely and invisible abstractly) *)
Definition srel (x y : stats) : Prop :=
  hits x = hits y /\ misses x = misses y /\ lsucc x = lsucc y /\ lfail x = lfail y.

Definition R (now : Z) (s a : cstate) : Prop :=
  eqv now (cmap s) (cmap a) /\ srel (cst s) (cst a) /\ map_ok (cmap s) /\ map_ok (cmap a).

(* --- purge and the map operations *)

Lemma purge_remove now k m : purge c now (remove k m) = remove k (purge c now m).
Proof.
  unfold purge, remove. induction m as [|p m IH]; simpl; [reflexivity|].
  destruct (negb (fst p =? k)) eqn:E1; destruct (live c now p) eqn:E2; simpl; rewrite ?E1, ?E2, IH; reflexivity.
Qed.

Lemma purge_put now k n m :
  purge c now (put k n m) =
  if has_expired c n now then remove k (purge c now m) else put k n (purge c now m).
Proof.
  unfold put. unfold purge at 1. simpl. unfold live at 1. simpl.
  fold (purge c now (remove k m)). rewrite purge_remove.
  destruct (has_expired c n now); reflexivity.
Qed.

Lemma lookup_purge now k m :
  NoDup (map fst m) -> lookup k (purge c now m) = olive now (lookup k m).
Proof.
  induction m as [|[k' n] m IH]; simpl; intros Hnd; [reflexivity|].
  inversion Hnd as [|? ? Hn Hd]; subst.
  unfold live; simpl. destruct (k' =? k) eqn:E.
  - apply Z.eqb_eq in E. subst k'. unfold olive at 1. destruct (has_expired c n now) eqn:Hx; simpl.
    + rewrite IH by assumption.
      destruct (lookup k m) eqn:L; [|reflexivity].
      exfalso. apply Hn. apply lookup_In in L. apply (in_map fst) in L. exact L.
    + rewrite Z.eqb_refl. reflexivity.
  - destruct (has_expired c n now); simpl; rewrite ?E; apply IH; assumption.
Qed.

Lemma view_eq now m1 m2 k :
  NoDup (map fst m1) -> NoDup (map fst m2) -> eqv now m1 m2 ->
  olive now (lookup k m1) = olive now (lookup k m2).
Proof. intros H1 H2 E. rewrite <- !lookup_purge by assumption. rewrite E. reflexivity. Qed.

Lemma purge_mutate now k f m :
  (forall n, lookup k m = Some n -> has_expired c (f n) now = has_expired c n now) ->
  NoDup (map fst m) ->
  purge c now (mutate k f m) = mutate k f (purge c now m).
Proof.
  induction m as [|[k' n] m IH]; simpl; intros Hf Hnd; [reflexivity|].
  inversion Hnd as [|? ? Hn Hd]; subst.
  destruct (k' =? k) eqn:E; unfold live; simpl.
  - rewrite (Hf n eq_refl).
    assert (Hrest : purge c now (mutate k f m) = mutate k f (purge c now m)).
    { apply Z.eqb_eq in E. subst k'.
      assert (Hm : mutate k f m = m).
      { clear -Hn. induction m as [|[k2 n2] m IH]; simpl; [reflexivity|].
        destruct (k2 =? k) eqn:E2; [exfalso; apply Hn; left; simpl; lia|].
        f_equal. apply IH. intros H. apply Hn. right. assumption. }
      rewrite Hm.
      assert (Hm2 : forall m', ~ In k (map fst m') -> mutate k f m' = m').
      { induction m' as [|[k2 n2] m' IH']; simpl; intros H; [reflexivity|].
        destruct (k2 =? k) eqn:E2; [exfalso; apply H; left; simpl; lia|].
        f_equal. apply IH'. tauto. }
      rewrite Hm2; [reflexivity|].
      intros Hin. apply Hn. apply in_map_iff in Hin. destruct Hin as (p & Hp1 & Hp2).
      unfold purge in Hp2. apply filter_In in Hp2. apply in_map_iff. exists p. tauto. }
    destruct (has_expired c n now); simpl; rewrite ?E; simpl; rewrite Hrest; reflexivity.
  - assert (Hrest : purge c now (mutate k f m) = mutate k f (purge c now m)).
    { apply IH; [|assumption]. intros n0 Hl. apply Hf. assumption. }
    destruct (has_expired c n now); simpl; rewrite ?E; rewrite Hrest; reflexivity.
Qed.

(* --- invariants *)

Lemma map_ok_remove k m : map_ok m -> map_ok (remove k m).
Proof.
  intros [H1 H2]. split; [apply NoDup_remove; assumption|].
  apply Forall_forall. intros p Hp. apply in_remove in Hp. rewrite Forall_forall in H2. apply H2. tauto.
Qed.

Lemma map_ok_put k n m : map_ok m -> node_ok n -> map_ok (put k n m).
Proof.
  intros Hm Hn. destruct (map_ok_remove k m Hm) as [H1 H2]. split; simpl.
  - constructor; [|assumption]. intros Hin. apply keys_remove in Hin. tauto.
  - constructor; assumption.
Qed.

Lemma map_ok_mutate k f m :
  map_ok m -> (forall n, lookup k m = Some n -> node_ok (f n)) -> map_ok (mutate k f m).
Proof.
  intros [H1 H2] Hf. split; [rewrite map_fst_mutate; assumption|].
  unfold mutate. apply Forall_forall. intros p Hp. apply in_map_iff in Hp.
  destruct Hp as ([k' n] & <- & Hin). simpl. rewrite Forall_forall in H2.
  destruct (k' =? k) eqn:E; simpl; [|apply (H2 _ Hin)].
  apply Hf. apply Z.eqb_eq in E. subst k'.
  clear -H1 Hin. induction m as [|[k2 n2] m IH]; simpl in *; [contradiction|].
  inversion H1 as [|? ? Hn Hd]; subst.
  destruct Hin as [Heq|Hin].
  - injection Heq as -> ->. rewrite Z.eqb_refl. reflexivity.
  - destruct (k2 =? k) eqn:E2.
    + exfalso. apply Hn. apply Z.eqb_eq in E2. subst. apply (in_map fst) in Hin. exact Hin.
    + apply IH; assumption.
Qed.

Lemma lookup_node_ok k m n : map_ok m -> lookup k m = Some n -> node_ok n.
Proof.
  intros [_ H] L. apply lookup_In in L. rewrite Forall_forall in H. apply (H _ L).
Qed.

(* --- deadline arithmetic keeps nodes well-formed and live nodes live *)

Lemma satadd_ok now d : time_ok now -> 0 < d <= MaxInt64 -> 0 <= now < satadd now d /\ satadd now d <= MaxInt64.
Proof. unfold time_ok. intros Hn Hd. rewrite satadd_spec by lia. lia. Qed.

Lemma set_exp_after_read_ok n now d :
  time_ok now -> node_ok n -> d <= MaxInt64 -> node_ok (set_exp_after_read n now d).
Proof.
  intros Ht [He Hr] Hd. unfold set_exp_after_read.
  destruct (d <=? 0) eqn:E; [split; assumption|].
  destruct (0 <? _); [|split; assumption].
  pose proof (satadd_ok now d Ht ltac:(lia)). split; simpl; lia.
Qed.

Lemma set_exp_after_read_live n now d :
  time_ok now -> d <= MaxInt64 -> with_exp c = true -> nexp n <=? now = false ->
  nexp (set_exp_after_read n now d) <=? now = false.
Proof.
  intros Ht Hd Hw Hl. unfold set_exp_after_read.
  destruct (d <=? 0) eqn:E; [assumption|].
  destruct (0 <? _); [|assumption].
  pose proof (satadd_ok now d Ht ltac:(lia)). simpl. lia.
Qed.

Lemma calc_exp_read_ok k n now :
  time_ok now -> node_ok n -> node_ok (calc_exp_read c k n now).
Proof.
  intros Ht Hn. unfold calc_exp_read. destruct (negb (with_exp c)); [assumption|].
  apply set_exp_after_read_ok; try assumption. apply (er_rng CO). apply wraps_le.
Qed.

Lemma calc_exp_read_live k n now :
  time_ok now -> has_expired c n now = false -> has_expired c (calc_exp_read c k n now) now = false.
Proof.
  intros Ht Hl. unfold calc_exp_read. destruct (with_exp c) eqn:Hw; simpl; [|assumption].
  unfold has_expired in *. rewrite Hw in *. simpl in *.
  apply set_exp_after_read_live; try assumption. apply (er_rng CO). apply wraps_le.
Qed.

Lemma calc_exp_read_fields k n now :
  nval (calc_exp_read c k n now) = nval n /\ nweight (calc_exp_read c k n now) = nweight n /\
  nrefr (calc_exp_read c k n now) = nrefr n.
Proof.
  unfold calc_exp_read, set_exp_after_read. destruct (negb (with_exp c)); [auto|].
  destruct (_ <=? 0); [auto|]. destruct (0 <? _); simpl; auto.
Qed.

(* --- atomicSet: an expired old node is as good as none *)

Definition vis (es : list event) : list event :=
  filter (fun e => negb (cause_eqb (ecause e) CExpiration)) es.

Lemma calc_exp_write_ok k n old now :
  time_ok now -> node_ok n -> node_ok (calc_exp_write c k n old now).
Proof.
  intros Ht [He Hr]. unfold calc_exp_write. destruct (negb (with_exp c)); [split; assumption|].
  set (ea := match old with Some o => _ | None => _ end).
  destruct ((0 <? ea) && negb (_ =? ea)) eqn:E; [|split; assumption].
  assert (ea <= MaxInt64).
  { unfold ea. destruct old as [o|]; [destruct (has_expired c o now)|]; first [apply (ec_rng CO) | apply (eu_rng CO); apply wraps_le]. }
  pose proof (satadd_ok now ea Ht ltac:(lia)). split; simpl; lia.
Qed.

Lemma calc_refr_ok k n old cl now :
  time_ok now -> node_ok n -> node_ok (calc_refr c k n old cl now).
Proof.
  intros Ht [He Hr]. unfold calc_refr. destruct (negb (with_refr c)); [split; assumption|].
  match goal with |- node_ok (match ?X with Some _ => _ | None => _ end) => destruct X as [ra|] eqn:Era end;
    [|split; assumption].
  destruct ((0 <? ra) && negb (_ =? ra)) eqn:E; [|split; assumption].
  assert (ra <= MaxInt64).
  { revert Era. destruct cl as [|ir nf he]; destruct (match old with Some o => if has_expired c o now then None else Some o | None => None end) as [o|];
      try destruct ir; try destruct nf; try destruct he; intros Era; try discriminate; injection Era as <-;
      first [apply (rc_rng CO) | apply (ru_rng CO); apply wraps_le | apply (rr_rng CO); apply wraps_le | apply (rf_rng CO); apply wraps_le]. }
  pose proof (satadd_ok now ra Ht ltac:(lia)). split; simpl; lia.
Qed.

Lemma new_node_ok k v old : (forall o, old = Some o -> node_ok o) -> node_ok (new_node c k v old).
Proof.
  intros H. unfold new_node, node_ok, MaxInt64; simpl. destruct old as [o|]; [|lia].
  destruct (H o eq_refl) as [He Hr]. unfold MaxInt64 in *.
  destruct (with_exp c); destruct (with_refr c); lia.
Qed.

Lemma atomic_set_ok k v old cl now :
  time_ok now -> (forall o, old = Some o -> node_ok o) -> node_ok (fst (atomic_set c k v old cl now)).
Proof.
  intros Ht Ho. unfold atomic_set. simpl.
  apply calc_refr_ok; [assumption|]. apply calc_exp_write_ok; [assumption|]. apply new_node_ok; assumption.
Qed.

Lemma atomic_set_dead k v o cl now :
  time_ok now -> node_ok o -> has_expired c o now = true ->
  fst (atomic_set c k v (Some o) cl now) = fst (atomic_set c k v None cl now) /\
  vis (snd (atomic_set c k v (Some o) cl now)) = [].
Proof.
  intros Ht [He Hr] Hx. unfold atomic_set; cbn [negb andb nval nweight nexp nrefr fst snd]. split.
  2:{ unfold vis, get_cause. rewrite Hx. reflexivity. }
  assert (Hw : with_exp c = true) by (unfold has_expired in Hx; destruct (with_exp c); [reflexivity|discriminate]).
  assert (Hle : nexp o <= now) by (unfold has_expired in Hx; rewrite Hw in Hx; simpl in Hx; lia).
  unfold time_ok in Ht.
  (* expiration deadline *)
  assert (E1 : calc_exp_write c k (new_node c k v (Some o)) (Some o) now =
               mkNode v (nweight (new_node c k v None)) (satadd now (exp_create c k v 0))
                      (if with_refr c then nrefr o else MaxInt64)).
  { unfold calc_exp_write, new_node. rewrite Hw, Hx. cbn [negb andb nval nweight nexp nrefr fst snd].
    rewrite (ec_ind CO k v _ 0). pose proof (ec_pos CO k v 0).
    rewrite wraps_small by lia.
    replace (0 <? exp_create c k v 0) with true by lia.
    replace (nexp o - now =? exp_create c k v 0) with false by lia. reflexivity. }
  assert (E2 : calc_exp_write c k (new_node c k v None) None now =
               mkNode v (nweight (new_node c k v None)) (satadd now (exp_create c k v 0)) MaxInt64).
  { unfold calc_exp_write, new_node. rewrite Hw. cbn [negb andb nval nweight nexp nrefr fst snd].
    rewrite (ec_ind CO k v _ 0). pose proof (ec_pos CO k v 0). pose proof (ec_rng CO k v 0).
    rewrite wraps_small by (unfold MaxInt64 in *; lia).
    replace (0 <? exp_create c k v 0) with true by lia. cbn [negb andb nval nweight nexp nrefr fst snd].
    destruct (MaxInt64 - now =? exp_create c k v 0) eqn:Eq; cbn [negb andb nval nweight nexp nrefr fst snd]; [|reflexivity].
    f_equal. rewrite satadd_spec by lia. lia. }
  rewrite E1, E2.
  (* refresh deadline *)
  unfold calc_refr. destruct (with_refr c) eqn:Hr'; cbn [negb andb nval nweight nexp nrefr fst snd]; [|reflexivity].
  rewrite Hx.
  assert (Hcl : match cl with | Call true _ _ | _ => Some (refr_create c k v (wraps (nrefr o - now))) end =
                Some (refr_create c k v (wraps (nrefr o - now)))).
  { destruct cl as [|[] ? ?]; reflexivity. }
  replace (match cl with | Call true _ _ | _ => Some (refr_create c k v (wraps (nrefr o - now))) end)
    with (Some (refr_create c k v (wraps (nrefr o - now)))).
  replace (match cl with | Call true _ _ | _ => Some (refr_create c k v (wraps (MaxInt64 - now))) end)
    with (Some (refr_create c k v (wraps (MaxInt64 - now)))) by (destruct cl as [|[] ? ?]; reflexivity).
  rewrite (rc_ind CO k v _ 0). rewrite (rc_ind CO k v (wraps (MaxInt64 - now)) 0).
  pose proof (rc_pos CO k v 0). pose proof (rc_rng CO k v 0).
  replace (0 <? refr_create c k v 0) with true by lia. cbn [negb andb nval nweight nexp nrefr fst snd].
  rewrite (wraps_small (MaxInt64 - now)) by (unfold MaxInt64 in *; lia).
  rewrite (wraps_small (nrefr o - now)) by (unfold MaxInt64 in *; lia).
  destruct (nrefr o - now =? refr_create c k v 0) eqn:Ea; destruct (MaxInt64 - now =? refr_create c k v 0) eqn:Eb; cbn [negb andb nval nweight nexp nrefr fst snd];
    f_equal; rewrite ?satadd_spec by lia; lia.
Qed.


(* ------------------------------------------------------------------ congruence of the primitives *)

Definition res_eq (r r' : result) : Prop :=
  r_ret r = r_ret r' /\ vis (r_events r) = vis (r_events r') /\ r_cb r = r_cb r' /\ r_spawn r = r_spawn r'.

Lemma res_eq_refl r : res_eq r r.
Proof. repeat split. Qed.

Lemma vis_app a b : vis (a ++ b) = vis a ++ vis b.
Proof. unfold vis. apply filter_app. Qed.

Inductive vcase (now : Z) (s a : cstate) (k : Z) : Prop :=
| VLive n : lookup k (cmap s) = Some n -> lookup k (cmap a) = Some n ->
            has_expired c n now = false -> node_ok n -> vcase now s a k
| VGone : (lookup k (cmap s) = None \/ exists n, lookup k (cmap s) = Some n /\ has_expired c n now = true /\ node_ok n) ->
          (lookup k (cmap a) = None \/ exists n, lookup k (cmap a) = Some n /\ has_expired c n now = true /\ node_ok n) ->
          vcase now s a k.

Lemma view_cases now s a k : R now s a -> vcase now s a k.
Proof.
  intros (E & _ & Ms & Ma).
  pose proof (view_eq now _ _ k (proj1 Ms) (proj1 Ma) E) as V.
  destruct (lookup k (cmap s)) as [n1|] eqn:L1; destruct (lookup k (cmap a)) as [n2|] eqn:L2; simpl in V.
  - pose proof (lookup_node_ok _ _ _ Ms L1). pose proof (lookup_node_ok _ _ _ Ma L2).
    destruct (has_expired c n1 now) eqn:X1; destruct (has_expired c n2 now) eqn:X2; try discriminate.
    + apply VGone; right; eauto.
    + injection V as ->. eapply VLive; eauto.
  - pose proof (lookup_node_ok _ _ _ Ms L1).
    destruct (has_expired c n1 now) eqn:X1; try discriminate. apply VGone; [right; eauto|left; assumption].
  - pose proof (lookup_node_ok _ _ _ Ma L2).
    destruct (has_expired c n2 now) eqn:X2; try discriminate. apply VGone; [left; assumption|right; eauto].
  - apply VGone; left; assumption.
Qed.

Lemma R_stat now s a f : (forall x y, srel x y -> srel (f x) (f y)) -> R now s a -> R now (upd_st s f) (upd_st a f).
Proof. intros Hf (E & St & Ms & Ma). unfold R, upd_st; cbn [cmap cst]. auto. Qed.

Lemma srel_hit x y : srel x y -> srel (st_hit x) (st_hit y).
Proof. unfold srel, st_hit; cbn. intros (A & B & C & D). rewrite A. auto. Qed.
Lemma srel_miss x y : srel x y -> srel (st_miss x) (st_miss y).
Proof. unfold srel, st_miss; cbn. intros (A & B & C & D). rewrite B. auto. Qed.
Lemma srel_lsucc x y : srel x y -> srel (st_lsucc x) (st_lsucc y).
Proof. unfold srel, st_lsucc; cbn. intros (A & B & C & D). rewrite C. auto. Qed.
Lemma srel_lfail x y : srel x y -> srel (st_lfail x) (st_lfail y).
Proof. unfold srel, st_lfail; cbn. intros (A & B & C & D). rewrite D. auto. Qed.
Lemma srel_evict w w' x y : srel x y -> srel (st_evict w x) (st_evict w' y).
Proof. unfold srel, st_evict; cbn. auto. Qed.
Lemma srel_evict_l w x y : srel x y -> srel (st_evict w x) y.
Proof. unfold srel, st_evict; cbn. auto. Qed.

Ltac rstat := first [ apply (R_stat _ _ _ st_hit srel_hit) | apply (R_stat _ _ _ st_miss srel_miss)
                    | apply (R_stat _ _ _ st_lsucc srel_lsucc) | apply (R_stat _ _ _ st_lfail srel_lfail) ].

Lemma R_put now s a k n : R now s a -> node_ok n ->
  R now (upd_map s (put k n (cmap s))) (upd_map a (put k n (cmap a))).
Proof.
  intros (E & St & Ms & Ma) Hn. unfold R, upd_map, eqv in *; cbn [cmap cst].
  rewrite !purge_put. rewrite E. split; [reflexivity|]. split; [assumption|]. split; apply map_ok_put; assumption.
Qed.

Lemma R_remove now s a k : R now s a ->
  R now (upd_map s (remove k (cmap s))) (upd_map a (remove k (cmap a))).
Proof.
  intros (E & St & Ms & Ma). unfold R, upd_map, eqv in *; cbn [cmap cst].
  rewrite !purge_remove. rewrite E. split; [reflexivity|]. split; [assumption|]. split; apply map_ok_remove; assumption.
Qed.

Lemma R_mutate now s a k f : R now s a ->
  (forall n, node_ok n -> has_expired c (f n) now = has_expired c n now /\ node_ok (f n)) ->
  R now (upd_map s (mutate k f (cmap s))) (upd_map a (mutate k f (cmap a))).
Proof.
  intros (E & St & Ms & Ma) Hf. unfold R, upd_map, eqv in *; cbn [cmap cst].
  assert (H1 : forall m, map_ok m -> forall n, lookup k m = Some n -> has_expired c (f n) now = has_expired c n now).
  { intros m Hm n L. apply Hf. eapply lookup_node_ok; eauto. }
  assert (H2 : forall m, map_ok m -> forall n, lookup k m = Some n -> node_ok (f n)).
  { intros m Hm n L. apply Hf. eapply lookup_node_ok; eauto. }
  rewrite (purge_mutate now k f (cmap s) (H1 _ Ms) (proj1 Ms)), (purge_mutate now k f (cmap a) (H1 _ Ma) (proj1 Ma)).
  rewrite E. split; [reflexivity|]. split; [assumption|].
  split; (apply map_ok_mutate; [assumption | apply H2; assumption]).
Qed.

(* replacing the (live) node of key k by one and the same live node on both sides *)
Lemma R_mutate_const now s a k n n' : R now s a ->
  lookup k (cmap s) = Some n -> lookup k (cmap a) = Some n ->
  has_expired c n now = false -> has_expired c n' now = false -> node_ok n' ->
  R now (upd_map s (mutate k (fun _ => n') (cmap s))) (upd_map a (mutate k (fun _ => n') (cmap a))).
Proof.
  intros (E & St & Ms & Ma) L1 L2 X X' Hn'. unfold R, upd_map, eqv in *; cbn [cmap cst].
  assert (H1 : forall n0, lookup k (cmap s) = Some n0 -> has_expired c n' now = has_expired c n0 now).
  { intros n0 L. rewrite L1 in L. injection L as <-. congruence. }
  assert (H2 : forall n0, lookup k (cmap a) = Some n0 -> has_expired c n' now = has_expired c n0 now).
  { intros n0 L. rewrite L2 in L. injection L as <-. congruence. }
  rewrite (purge_mutate now k (fun _ => n') (cmap s) H1 (proj1 Ms)), (purge_mutate now k (fun _ => n') (cmap a) H2 (proj1 Ma)).
  rewrite E. split; [reflexivity|]. split; [assumption|].
  split; (apply map_ok_mutate; [assumption | intros; assumption]).
Qed.

Ltac gone_cases H1 H2 :=
  destruct H1 as [H1|(?n1 & H1 & ?X1 & ?O1)]; destruct H2 as [H2|(?n2 & H2 & ?X2 & ?O2)].

(* getNode *)
Lemma get_node_R now s a k : time_ok now -> R now s a ->
  snd (get_node c s k now) = snd (get_node c a k now) /\
  R now (fst (get_node c s k now)) (fst (get_node c a k now)).
Proof.
  intros Ht HR. unfold get_node.
  destruct (view_cases now s a k HR) as [n L1 L2 X O|G1 G2].
  - rewrite L1, L2, X. cbn [fst snd]. split; [reflexivity|].
    rstat. eapply R_mutate_const; eauto.
    + apply calc_exp_read_live; assumption.
    + apply calc_exp_read_ok; assumption.
  - gone_cases G1 G2; rewrite G1, G2, ?X1, ?X2; cbn [fst snd]; (split; [reflexivity|rstat; assumption]).
Qed.

Lemma get_node_quietly_R now s a k : R now s a ->
  get_node_quietly c s k now = get_node_quietly c a k now.
Proof.
  intros HR. unfold get_node_quietly.
  destruct (view_cases now s a k HR) as [n L1 L2 X O|G1 G2].
  - rewrite L1, L2. reflexivity.
  - gone_cases G1 G2; rewrite G1, G2, ?X1, ?X2; reflexivity.
Qed.

(* atomicSet over equal views *)
Lemma atomic_set_gone k v (o1 o2 : option node) cl now :
  time_ok now ->
  (o1 = None \/ exists n, o1 = Some n /\ has_expired c n now = true /\ node_ok n) ->
  (o2 = None \/ exists n, o2 = Some n /\ has_expired c n now = true /\ node_ok n) ->
  fst (atomic_set c k v o1 cl now) = fst (atomic_set c k v o2 cl now) /\
  vis (snd (atomic_set c k v o1 cl now)) = [] /\ vis (snd (atomic_set c k v o2 cl now)) = [] /\
  node_ok (fst (atomic_set c k v o1 cl now)).
Proof.
  intros Ht G1 G2.
  assert (N : forall o, (o = None \/ exists n, o = Some n /\ has_expired c n now = true /\ node_ok n) ->
              fst (atomic_set c k v o cl now) = fst (atomic_set c k v None cl now) /\
              vis (snd (atomic_set c k v o cl now)) = []).
  { intros o [->|(n & -> & X & O)]; [split; reflexivity|]. apply atomic_set_dead; assumption. }
  destruct (N o1 G1) as [E1 V1]. destruct (N o2 G2) as [E2 V2].
  split; [congruence|]. split; [assumption|]. split; [assumption|].
  rewrite E1. apply atomic_set_ok; [assumption|]. intros; discriminate.
Qed.

Lemma option_gone s k now :
  (lookup k (cmap s) = None \/ exists n, lookup k (cmap s) = Some n /\ has_expired c n now = true /\ node_ok n) ->
  (lookup k (cmap s) = None \/ exists n, lookup k (cmap s) = Some n /\ has_expired c n now = true /\ node_ok n).
Proof. auto. Qed.

(* c.set *)
Definition gone (now : Z) (s : cstate) (k : Z) : Prop :=
  lookup k (cmap s) = None \/ exists n, lookup k (cmap s) = Some n /\ has_expired c n now = true /\ node_ok n.

Lemma do_set_gone now s k v oia : gone now s k ->
  do_set c s k v oia now =
  (upd_map s (put k (fst (atomic_set c k v (lookup k (cmap s)) NoCall now)) (cmap s)),
   mkResult (RVal v true) (snd (atomic_set c k v (lookup k (cmap s)) NoCall now)) [] []).
Proof.
  intros G. unfold do_set. destruct G as [L|(n & L & X & O)]; rewrite L; try rewrite X; cbn [negb];
    rewrite andb_false_r; destruct (atomic_set c k v _ NoCall now) as [nn evs]; cbn [fst snd];
    destruct oia; reflexivity.
Qed.

Lemma do_set_R now s a k v oia : time_ok now -> R now s a ->
  res_eq (snd (do_set c s k v oia now)) (snd (do_set c a k v oia now)) /\
  R now (fst (do_set c s k v oia now)) (fst (do_set c a k v oia now)).
Proof.
  intros Ht HR.
  destruct (view_cases now s a k HR) as [n L1 L2 X O|G1 G2].
  - unfold do_set. rewrite L1, L2, X. cbn [negb]. destruct oia; cbn [andb].
    + cbn [fst snd]. split; [apply res_eq_refl|].
      eapply R_mutate_const; eauto.
      * apply calc_exp_read_live; assumption.
      * apply calc_exp_read_ok; assumption.
    + destruct (atomic_set c k v (Some n) NoCall now) as [nn evs] eqn:EA. cbn [fst snd].
      split; [apply res_eq_refl|]. apply R_put; [assumption|].
      replace nn with (fst (atomic_set c k v (Some n) NoCall now)) by (rewrite EA; reflexivity).
      apply atomic_set_ok; [assumption|]. intros o Ho. injection Ho as <-. assumption.
  - rewrite (do_set_gone now s k v oia G1), (do_set_gone now a k v oia G2). cbn [fst snd].
    pose proof (atomic_set_gone k v (lookup k (cmap s)) (lookup k (cmap a)) NoCall now Ht G1 G2) as (EN & V1 & V2 & OK).
    split.
    + unfold res_eq; cbn [r_ret r_events r_cb r_spawn]. rewrite V1, V2. repeat split.
    + rewrite <- EN. apply R_put; assumption.
Qed.


Lemma purge_remove_gone now s k : map_ok (cmap s) -> gone now s k ->
  purge c now (remove k (cmap s)) = purge c now (cmap s).
Proof.
  intros Ms G. rewrite purge_remove. apply remove_notin. apply lookup_None_notin.
  rewrite lookup_purge by apply Ms.
  destruct G as [L|(n & L & X & O)]; rewrite L; simpl; [reflexivity|rewrite X; reflexivity].
Qed.

Lemma R_remove_l now s a k : gone now s k -> R now s a -> R now (upd_map s (remove k (cmap s))) a.
Proof.
  intros G (E & St & Ms & Ma). unfold R, upd_map, eqv in *; cbn [cmap cst].
  rewrite purge_remove_gone by assumption. split; [assumption|]. split; [assumption|].
  split; [apply map_ok_remove|]; assumption.
Qed.

Lemma R_remove_r now s a k : gone now a k -> R now s a -> R now s (upd_map a (remove k (cmap a))).
Proof.
  intros G (E & St & Ms & Ma). unfold R, upd_map, eqv in *; cbn [cmap cst].
  rewrite purge_remove_gone by assumption. split; [assumption|]. split; [assumption|].
  split; [|apply map_ok_remove]; assumption.
Qed.

Lemma vis_dead k v n now d : has_expired c n now = true -> vis [mkEvent k v (get_cause c n now d)] = [].
Proof. intros X. unfold vis, get_cause. rewrite X. reflexivity. Qed.

Lemma atomic_delete_gone k now s : gone now s k -> vis (atomic_delete c k (lookup k (cmap s)) now) = [].
Proof.
  intros [L|(n & L & X & O)]; rewrite L; [reflexivity|]. apply vis_dead. assumption.
Qed.

Lemma R_remove_gone now s a k : gone now s k -> gone now a k -> R now s a ->
  R now (upd_map s (remove k (cmap s))) (upd_map a (remove k (cmap a))).
Proof. intros _ _ HR. apply R_remove. assumption. Qed.

(* the "found" test and old value of doCompute only depend on the view *)
Definition found_of (now : Z) (o : option node) : bool :=
  match o with Some n => negb (has_expired c n now) | None => false end.

Lemma gone_found now s k : gone now s k -> found_of now (lookup k (cmap s)) = false.
Proof. intros [L|(n & L & X & O)]; rewrite L; simpl; [reflexivity|rewrite X; reflexivity]. Qed.

(* a gone key's node, if physically present, can be dropped without changing the view *)
Definition rm_gone (s : cstate) (k : Z) : cstate :=
  match lookup k (cmap s) with Some _ => upd_map s (remove k (cmap s)) | None => s end.

Lemma R_rm_gone now s a k : gone now s k -> gone now a k -> R now s a -> R now (rm_gone s k) (rm_gone a k).
Proof.
  intros G1 G2 HR. unfold rm_gone.
  destruct (lookup k (cmap s)) eqn:L1; destruct (lookup k (cmap a)) eqn:L2.
  - apply R_remove; assumption.
  - apply R_remove_l; assumption.
  - apply R_remove_r; assumption.
  - assumption.
Qed.

Definition stat_if (rs : bool) (f : stats -> stats) (s : cstate) : cstate := if rs then upd_st s f else s.

Lemma R_stat_if now s a rs : R now s a -> R now (stat_if rs st_miss s) (stat_if rs st_miss a).
Proof. intros H. unfold stat_if. destruct rs; [rstat|]; assumption. Qed.

(* c.doCompute *)
Lemma do_compute_gone now s k f rs : gone now s k ->
  do_compute c s k f now rs =
  match f false 0 with
  | RPanic => (s, mkResult RPanicked [] [CbRemap false 0] [])
  | RRes _ OpInvalid => (s, mkResult RPanicked [] [CbRemap false 0] [])
  | RRes _ OpCancel =>
      (stat_if rs st_miss (rm_gone s k),
       mkResult (RVal 0 false) (atomic_delete c k (lookup k (cmap s)) now) [CbRemap false 0] [])
  | RRes v OpWrite =>
      (stat_if rs st_miss (upd_map s (put k (fst (atomic_set c k v (lookup k (cmap s)) NoCall now)) (cmap s))),
       mkResult (RVal (nval (fst (atomic_set c k v (lookup k (cmap s)) NoCall now))) true)
                (snd (atomic_set c k v (lookup k (cmap s)) NoCall now)) [CbRemap false 0] [])
  | RRes _ OpInvalidate =>
      (stat_if rs st_miss (upd_map s (remove k (cmap s))),
       mkResult (RVal 0 false) (atomic_delete c k (lookup k (cmap s)) now) [CbRemap false 0] [])
  end.
Proof.
  intros G. unfold do_compute, rm_gone, stat_if.
  destruct G as [L|(n & L & X & O)]; rewrite L; try rewrite X; cbn [negb];
    destruct (f false 0) as [|v []]; try reflexivity;
    destruct (atomic_set c k v _ NoCall now) as [nn evs]; reflexivity.
Qed.

Lemma do_compute_R now s a k f rs : time_ok now -> R now s a ->
  res_eq (snd (do_compute c s k f now rs)) (snd (do_compute c a k f now rs)) /\
  R now (fst (do_compute c s k f now rs)) (fst (do_compute c a k f now rs)).
Proof.
  intros Ht HR.
  destruct (view_cases now s a k HR) as [n L1 L2 X O|G1 G2].
  - unfold do_compute. rewrite L1, L2, X. cbn [negb].
    destruct (f true (nval n)) as [|v []].
    + cbn [fst snd]. split; [apply res_eq_refl|assumption].
    + cbn [fst snd]. split; [apply res_eq_refl|]. destruct rs; [rstat|]; assumption.
    + destruct (atomic_set c k v (Some n) NoCall now) as [nn evs] eqn:EA. cbn [fst snd].
      split; [apply res_eq_refl|].
      assert (R now (upd_map s (put k nn (cmap s))) (upd_map a (put k nn (cmap a)))).
      { apply R_put; [assumption|].
        replace nn with (fst (atomic_set c k v (Some n) NoCall now)) by (rewrite EA; reflexivity).
        apply atomic_set_ok; [assumption|]. intros o Ho. injection Ho as <-. assumption. }
      destruct rs; [rstat|]; assumption.
    + cbn [fst snd]. split; [apply res_eq_refl|].
      destruct rs; [rstat|]; apply R_remove; assumption.
    + cbn [fst snd]. split; [apply res_eq_refl|assumption].
  - rewrite (do_compute_gone now s k f rs G1), (do_compute_gone now a k f rs G2).
    pose proof (atomic_delete_gone k now s G1) as D1. pose proof (atomic_delete_gone k now a G2) as D2.
    destruct (f false 0) as [|v []]; cbn [fst snd].
    + split; [apply res_eq_refl|assumption].
    + split; [unfold res_eq; cbn [r_ret r_events r_cb r_spawn]; rewrite D1, D2; repeat split|].
      apply R_stat_if. apply R_rm_gone; assumption.
    + pose proof (atomic_set_gone k v (lookup k (cmap s)) (lookup k (cmap a)) NoCall now Ht G1 G2) as (EN & V1 & V2 & OK).
      split; [unfold res_eq; cbn [r_ret r_events r_cb r_spawn]; rewrite V1, V2, EN; repeat split|].
      apply R_stat_if. rewrite <- EN. apply R_put; assumption.
    + split; [unfold res_eq; cbn [r_ret r_events r_cb r_spawn]; rewrite D1, D2; repeat split|].
      apply R_stat_if. apply R_remove; assumption.
    + split; [apply res_eq_refl|assumption].
Qed.

(* c.Invalidate *)
Lemma do_invalidate_R now s a k : R now s a ->
  res_eq (snd (do_invalidate c s k now)) (snd (do_invalidate c a k now)) /\
  R now (fst (do_invalidate c s k now)) (fst (do_invalidate c a k now)).
Proof.
  intros HR. unfold do_invalidate. cbn [fst snd]. split; [|apply R_remove; assumption].
  destruct (view_cases now s a k HR) as [n L1 L2 X O|G1 G2].
  - rewrite L1, L2. apply res_eq_refl.
  - pose proof (atomic_delete_gone k now s G1) as D1. pose proof (atomic_delete_gone k now a G2) as D2.
    unfold res_eq; cbn [r_ret r_events r_cb r_spawn]. rewrite D1, D2.
    assert (E : forall s0, gone now s0 k ->
                match lookup k (cmap s0) with
                | Some o => if has_expired c o now then RVal 0 false else RVal (nval o) true
                | None => RVal 0 false end = RVal 0 false).
    { intros s0 [L|(n & L & X & O)]; rewrite L; [reflexivity|rewrite X; reflexivity]. }
    rewrite (E s G1), (E a G2). repeat split.
Qed.

(* c.SetExpiresAfter *)
Lemma do_sea_R now s a k d : time_ok now -> d <= MaxInt64 -> R now s a ->
  R now (do_set_expires_after c s k d now) (do_set_expires_after c a k d now).
Proof.
  intros Ht Hd HR. unfold do_set_expires_after.
  destruct (negb (with_exp c) || (d <=? 0)) eqn:E0; [assumption|].
  apply orb_false_iff in E0. destruct E0 as [Hw Hd0]. apply negb_false_iff in Hw.
  destruct (view_cases now s a k HR) as [n L1 L2 X O|G1 G2].
  - rewrite L1, L2, X.
    assert (Hf : forall n0, lookup k (cmap s) = Some n0 \/ lookup k (cmap a) = Some n0 ->
              has_expired c (set_exp_after_read n0 now d) now = has_expired c n0 now /\ node_ok (set_exp_after_read n0 now d)).
    { intros n0 Hn0. assert (n0 = n) by (destruct Hn0 as [H|H]; congruence). subst n0.
      split; [|apply set_exp_after_read_ok; assumption].
      rewrite X. unfold has_expired in *. rewrite Hw in *. cbn [andb] in *.
      apply set_exp_after_read_live; assumption. }
    destruct HR as (E & St & Ms & Ma). unfold R, upd_map, eqv in *; cbn [cmap cst].
    rewrite (purge_mutate now k _ (cmap s)); [|intros n0 L; apply Hf; left; assumption|apply Ms].
    rewrite (purge_mutate now k _ (cmap a)); [|intros n0 L; apply Hf; right; assumption|apply Ma].
    rewrite E. split; [reflexivity|]. split; [assumption|].
    split; (apply map_ok_mutate; [assumption|intros n0 L; apply Hf; auto]).
  - assert (E : forall s0, gone now s0 k -> 
               match lookup k (cmap s0) with
               | Some n => if has_expired c n now then s0 else upd_map s0 (mutate k (fun n1 => set_exp_after_read n1 now d) (cmap s0))
               | None => s0 end = s0).
    { intros s0 [L|(n & L & X & O)]; rewrite L; [reflexivity|rewrite X; reflexivity]. }
    rewrite (E s G1), (E a G2). assumption.
Qed.


Lemma R_sym now x y : R now x y -> R now y x.
Proof. intros (E1 & (A & B & C & D) & E3 & E4). unfold R, eqv, srel in *. auto 10. Qed.

Lemma mutate_notin k f m : ~ In k (map fst m) -> mutate k f m = m.
Proof.
  induction m as [|[k2 n2] m IH]; simpl; intros H; [reflexivity|].
  destruct (k2 =? k) eqn:E2; [exfalso; apply H; left; simpl; lia|].
  f_equal. apply IH. tauto.
Qed.

(* mutating a gone key's (dead) node without touching its expiration deadline is invisible *)
Lemma R_mutate_gone_l now s a k f : gone now s k ->
  (forall n, node_ok n -> has_expired c (f n) now = has_expired c n now /\ node_ok (f n)) ->
  R now s a -> R now (upd_map s (mutate k f (cmap s))) a.
Proof.
  intros G Hf (E & St & Ms & Ma). unfold R, upd_map, eqv in *; cbn [cmap cst].
  rewrite (purge_mutate now k f (cmap s)); [|intros n0 L0; apply Hf; exact (lookup_node_ok _ _ _ Ms L0)|apply Ms].
  rewrite (mutate_notin k f (purge c now (cmap s))).
  - split; [assumption|]. split; [assumption|]. split; [|assumption].
    apply map_ok_mutate; [assumption|]. intros n0 L0. exact (proj2 (Hf n0 (lookup_node_ok _ _ _ Ms L0))).
  - apply lookup_None_notin. rewrite lookup_purge by apply Ms.
    destruct G as [L|(n & L & X & O)]; rewrite L; simpl; [reflexivity|rewrite X; reflexivity].
Qed.

Lemma calc_refr_keeps_exp k n old cl now : nexp (calc_refr c k n old cl now) = nexp n.
Proof.
  unfold calc_refr. destruct (negb (with_refr c)); [reflexivity|].
  repeat match goal with |- context [match ?x with _ => _ end] => destruct x end; reflexivity.
Qed.

(* c.SetRefreshableAfter: mutates the refresh time only, even of a dead node *)
Lemma do_sra_R now s a k d : time_ok now -> d <= MaxInt64 -> R now s a ->
  R now (do_set_refreshable_after c s k d now) (do_set_refreshable_after c a k d now).
Proof.
  intros Ht Hd HR. unfold do_set_refreshable_after.
  destruct (negb (with_refr c) || (d <=? 0)) eqn:E0; [assumption|].
  apply orb_false_iff in E0. destruct E0 as [Hw Hd0].
  set (g := fun n : node => mkNode (nval n) (nweight n) (nexp n) (satadd now d)).
  assert (Hg : forall n, node_ok n -> has_expired c (g n) now = has_expired c n now /\ node_ok (g n)).
  { intros n [He Hr]. split; [reflexivity|].
    pose proof (satadd_ok now d Ht ltac:(lia)). unfold g, node_ok; cbn [nexp nrefr]. lia. }
  destruct (view_cases now s a k HR) as [n L1 L2 X O|G1 G2].
  - rewrite L1, L2. destruct (negb (wraps (nrefr n - now) =? d)); [|assumption].
    apply (R_mutate now s a k g HR Hg).
  - (* on each side: either nothing happens or a dead node's refresh time changes *)
    assert (E : forall s0 a0, gone now s0 k -> R now s0 a0 ->
                R now (match lookup k (cmap s0) with
                       | Some n => if negb (wraps (nrefr n - now) =? d) then upd_map s0 (mutate k g (cmap s0)) else s0
                       | None => s0 end) a0).
    { intros s0 a0 G HR0. destruct G as [L|(n & L & X & O)]; rewrite L; [assumption|].
      destruct (negb (wraps (nrefr n - now) =? d)); [|assumption].
      destruct HR0 as (E & St & Ms & Ma). unfold R, upd_map, eqv in *; cbn [cmap cst].
      rewrite (purge_mutate now k g (cmap s0)); [|intros n0 L0; reflexivity|apply Ms].
      assert (Hm : mutate k g (purge c now (cmap s0)) = purge c now (cmap s0)).
      { assert (Hnot : ~ In k (map fst (purge c now (cmap s0)))).
        { apply lookup_None_notin. rewrite lookup_purge by apply Ms. rewrite L. simpl. rewrite X. reflexivity. }
        clear -Hnot. induction (purge c now (cmap s0)) as [|[k2 n2] m IH]; simpl; [reflexivity|].
        destruct (k2 =? k) eqn:E2; [exfalso; apply Hnot; left; simpl; lia|].
        f_equal. apply IH. intros H. apply Hnot. right. assumption. }
      rewrite Hm. split; [assumption|]. split; [assumption|]. split; [|assumption].
      apply map_ok_mutate; [assumption|]. intros n0 L0. exact (proj2 (Hg n0 (lookup_node_ok _ _ _ Ms L0))). }
    apply E; [assumption|].
    apply R_sym. apply E; [assumption|]. apply R_sym. assumption.
Qed.

(* afterDeleteCall *)
Definition fin_err (s : cstate) (k : Z) (ir : bool) (now : Z) : cstate * list event :=
  match lookup k (cmap s) with
  | Some _ => if ir
              then (upd_map s (mutate k (fun o => calc_refr c k o (Some o) (Call true false true) now) (cmap s)), [])
              else (s, [])
  | None => (s, [])
  end.

Lemma finish_call_error s k v ir now : finish_call c s k (LError v) ir now = fin_err s k ir now.
Proof. reflexivity. Qed.
Lemma finish_call_panic s k ir now : finish_call c s k LPanic ir now = fin_err s k ir now.
Proof. reflexivity. Qed.

Lemma calc_refr_fail_inv k now n : node_ok n -> time_ok now ->
  has_expired c (calc_refr c k n (Some n) (Call true false true) now) now = has_expired c n now /\
  node_ok (calc_refr c k n (Some n) (Call true false true) now).
Proof.
  intros On Ht. split; [|apply calc_refr_ok; assumption].
  unfold has_expired. rewrite calc_refr_keeps_exp. reflexivity.
Qed.

Lemma fin_err_snd s k ir now : snd (fin_err s k ir now) = [].
Proof. unfold fin_err. destruct (lookup k (cmap s)); [destruct ir|]; reflexivity. Qed.

Lemma fin_err_gone_l now s a k ir : time_ok now -> gone now s k -> R now s a -> R now (fst (fin_err s k ir now)) a.
Proof.
  intros Ht G HR. unfold fin_err. destruct (lookup k (cmap s)); [destruct ir|]; cbn [fst]; try assumption.
  apply R_mutate_gone_l; [assumption| |assumption]. intros n9 On9. apply calc_refr_fail_inv; assumption.
Qed.

Lemma fin_err_R now s a k ir : time_ok now -> R now s a ->
  vis (snd (fin_err s k ir now)) = vis (snd (fin_err a k ir now)) /\
  R now (fst (fin_err s k ir now)) (fst (fin_err a k ir now)).
Proof.
  intros Ht HR. rewrite !fin_err_snd. split; [reflexivity|].
  destruct (view_cases now s a k HR) as [n L1 L2 X O|G1 G2].
  - unfold fin_err. rewrite L1, L2. destruct ir; cbn [fst]; [|assumption].
    apply R_mutate; [assumption|]. intros n0 On0. apply calc_refr_fail_inv; assumption.
  - apply fin_err_gone_l; [assumption|assumption|]. apply R_sym.
    apply fin_err_gone_l; [assumption|assumption|]. apply R_sym. assumption.
Qed.

Lemma finish_call_R now s a k oc ir : time_ok now -> R now s a ->
  vis (snd (finish_call c s k oc ir now)) = vis (snd (finish_call c a k oc ir now)) /\
  R now (fst (finish_call c s k oc ir now)) (fst (finish_call c a k oc ir now)).
Proof.
  intros Ht HR.
  destruct oc as [v|v| |]; try (rewrite ?finish_call_error, ?finish_call_panic; apply fin_err_R; assumption).
  - unfold finish_call.
    destruct (view_cases now s a k HR) as [n L1 L2 X O|G1 G2].
    + rewrite L1, L2.
      destruct (atomic_set c k v (Some n) (Call ir false false) now) as [nn evs] eqn:EA. cbn [fst snd].
      split; [reflexivity|]. apply R_put; [assumption|].
      replace nn with (fst (atomic_set c k v (Some n) (Call ir false false) now)) by (rewrite EA; reflexivity).
      apply atomic_set_ok; [assumption|]. intros o Ho. injection Ho as <-. assumption.
    + pose proof (atomic_set_gone k v (lookup k (cmap s)) (lookup k (cmap a)) (Call ir false false) now Ht G1 G2) as (EN & V1 & V2 & OK).
      destruct (atomic_set c k v (lookup k (cmap s)) (Call ir false false) now) as [n1 e1].
      destruct (atomic_set c k v (lookup k (cmap a)) (Call ir false false) now) as [n2 e2].
      cbn [fst snd] in *. split; [congruence|]. subst n2. apply R_put; assumption.
  - unfold finish_call. cbn [fst snd]. split; [|apply R_remove; assumption].
    destruct (view_cases now s a k HR) as [n L1 L2 X O|G1 G2].
    + rewrite L1, L2. reflexivity.
    + rewrite (atomic_delete_gone k now s G1), (atomic_delete_gone k now a G2). reflexivity.
Qed.


(* ------------------------------------------------------------------ compositions *)

Definition SR (now : Z) (p q : cstate * result) : Prop :=
  res_eq (snd p) (snd q) /\ R now (fst p) (fst q).

Lemma load_stat_R now s a b : R now s a -> R now (load_stat b s) (load_stat b a).
Proof. intros H. unfold load_stat. destruct b; rstat; assumption. Qed.

Lemma run_load_R now s a k old oc ir : time_ok now -> R now s a ->
  vis (snd (fst (run_load c s k old oc ir now))) = vis (snd (fst (run_load c a k old oc ir now))) /\
  snd (run_load c s k old oc ir now) = snd (run_load c a k old oc ir now) /\
  R now (fst (fst (run_load c s k old oc ir now))) (fst (fst (run_load c a k old oc ir now))).
Proof.
  intros Ht HR. unfold run_load.
  pose proof (finish_call_R now s a k oc ir Ht HR) as [V HR'].
  destruct (finish_call c s k oc ir now) as [s1 e1]. destruct (finish_call c a k oc ir now) as [a1 e2].
  cbn [fst snd] in *. split; [assumption|]. split; [reflexivity|]. apply load_stat_R. assumption.
Qed.

Lemma do_get_R now s a k oc : time_ok now -> R now s a ->
  SR now (do_get c s k oc now now) (do_get c a k oc now now).
Proof.
  intros Ht HR. unfold do_get, SR.
  pose proof (get_node_R now s a k Ht HR) as [Hg HR1].
  destruct (get_node c s k now) as [s1 g1]. destruct (get_node c a k now) as [a1 g2]. cbn [fst snd] in *. subst g2.
  destruct g1 as [n|].
  - cbn [fst snd]. split; [apply res_eq_refl|assumption].
  - pose proof (run_load_R now s1 a1 k None oc false Ht HR1) as (V & Cb & HR2).
    destruct (run_load c s1 k None oc false now) as [[s2 e1] c1].
    destruct (run_load c a1 k None oc false now) as [[a2 e2] c2]. cbn [fst snd] in *.
    split; [|assumption]. unfold res_eq; cbn [r_ret r_events r_cb r_spawn]. subst. auto.
Qed.

Lemma do_run_refresh_R now s a k old oc : time_ok now -> R now s a ->
  SR now (do_run_refresh c s k old oc now) (do_run_refresh c a k old oc now).
Proof.
  intros Ht HR. unfold do_run_refresh, SR.
  pose proof (run_load_R now s a k old oc true Ht HR) as (V & Cb & HR2).
  destruct (run_load c s k old oc true now) as [[s2 e1] c1].
  destruct (run_load c a k old oc true now) as [[a2 e2] c2]. cbn [fst snd] in *.
  split; [|assumption]. unfold res_eq; cbn [r_ret r_events r_cb r_spawn]. subst. auto.
Qed.

(* bulk *)
Lemma bulk_read_R now ks : forall s a, time_ok now -> R now s a ->
  snd (bulk_read c s ks now) = snd (bulk_read c a ks now) /\
  snd (fst (bulk_read c s ks now)) = snd (fst (bulk_read c a ks now)) /\
  snd (fst (fst (bulk_read c s ks now))) = snd (fst (fst (bulk_read c a ks now))) /\
  R now (fst (fst (fst (bulk_read c s ks now)))) (fst (fst (fst (bulk_read c a ks now)))).
Proof.
  induction ks as [|k ks IH]; intros s a Ht HR; cbn [bulk_read].
  - cbn [fst snd]. auto.
  - pose proof (get_node_R now s a k Ht HR) as [Hg HR1].
    destruct (get_node c s k now) as [s1 g1]. destruct (get_node c a k now) as [a1 g2]. cbn [fst snd] in *. subst g2.
    specialize (IH s1 a1 Ht HR1).
    destruct (bulk_read c s1 ks now) as [[[s2 h1] st1] m1].
    destruct (bulk_read c a1 ks now) as [[[a2 h2] st2] m2]. cbn [fst snd] in *.
    destruct IH as (-> & -> & -> & HR2).
    destruct g1 as [n|]; cbn [fst snd]; auto.
Qed.

Lemma finish_calls_R now res ir ks : forall s a, time_ok now -> R now s a ->
  vis (snd (finish_calls c s ks res ir now)) = vis (snd (finish_calls c a ks res ir now)) /\
  R now (fst (finish_calls c s ks res ir now)) (fst (finish_calls c a ks res ir now)).
Proof.
  induction ks as [|k ks IH]; intros s a Ht HR; cbn [finish_calls].
  - cbn [fst snd]. auto.
  - set (oc := match res with None => LError 0 | Some m => match assoc k m with Some v => LValue v | None => LNotFound end end).
    pose proof (finish_call_R now s a k oc ir Ht HR) as [V HR1].
    destruct (finish_call c s k oc ir now) as [s1 e1]. destruct (finish_call c a k oc ir now) as [a1 e1'].
    cbn [fst snd] in *. specialize (IH s1 a1 Ht HR1).
    destruct (finish_calls c s1 ks res ir now) as [s2 e2]. destruct (finish_calls c a1 ks res ir now) as [a2 e2'].
    cbn [fst snd] in *. destruct IH as [V2 HR2]. rewrite !vis_app. split; [congruence|assumption].
Qed.

Lemma install_extras_R now ir xs : forall s a, time_ok now -> R now s a ->
  vis (snd (install_extras c s xs ir now)) = vis (snd (install_extras c a xs ir now)) /\
  R now (fst (install_extras c s xs ir now)) (fst (install_extras c a xs ir now)).
Proof.
  induction xs as [|[k v] xs IH]; intros s a Ht HR; cbn [install_extras].
  - cbn [fst snd]. auto.
  - pose proof (finish_call_R now s a k (LValue v) ir Ht HR) as [V HR1].
    destruct (finish_call c s k (LValue v) ir now) as [s1 e1]. destruct (finish_call c a k (LValue v) ir now) as [a1 e1'].
    cbn [fst snd] in *. specialize (IH s1 a1 Ht HR1).
    destruct (install_extras c s1 xs ir now) as [s2 e2]. destruct (install_extras c a1 xs ir now) as [a2 e2'].
    cbn [fst snd] in *. destruct IH as [V2 HR2]. rewrite !vis_app. split; [congruence|assumption].
Qed.

Lemma run_bulk_R now s a ks bo ir : time_ok now -> R now s a ->
  vis (snd (run_bulk c s ks bo ir now)) = vis (snd (run_bulk c a ks bo ir now)) /\
  R now (fst (run_bulk c s ks bo ir now)) (fst (run_bulk c a ks bo ir now)).
Proof.
  intros Ht HR. unfold run_bulk. destruct bo as [m| |].
  - pose proof (finish_calls_R now (Some m) ir ks s a Ht HR) as [V1 HR1].
    destruct (finish_calls c s ks (Some m) ir now) as [s1 e1]. destruct (finish_calls c a ks (Some m) ir now) as [a1 e1'].
    cbn [fst snd] in *.
    pose proof (install_extras_R now ir (extras ks m) s1 a1 Ht HR1) as [V2 HR2].
    destruct (install_extras c s1 (extras ks m) ir now) as [s2 e2]. destruct (install_extras c a1 (extras ks m) ir now) as [a2 e2'].
    cbn [fst snd] in *. rewrite !vis_app. split; [congruence|apply load_stat_R; assumption].
  - pose proof (finish_calls_R now None ir ks s a Ht HR) as [V1 HR1].
    destruct (finish_calls c s ks None ir now) as [s1 e1]. destruct (finish_calls c a ks None ir now) as [a1 e1'].
    cbn [fst snd] in *. split; [assumption|apply load_stat_R; assumption].
  - pose proof (finish_calls_R now None ir ks s a Ht HR) as [V1 HR1].
    destruct (finish_calls c s ks None ir now) as [s1 e1]. destruct (finish_calls c a ks None ir now) as [a1 e1'].
    cbn [fst snd] in *. split; [assumption|apply load_stat_R; assumption].
Qed.

Lemma do_bulk_get_R now s a ks bo : time_ok now -> R now s a ->
  SR now (do_bulk_get c s ks bo now now) (do_bulk_get c a ks bo now now).
Proof.
  intros Ht HR. unfold do_bulk_get, SR.
  pose proof (bulk_read_R now (dedup ks []) s a Ht HR) as (Em & Est & Eh & HR1).
  destruct (bulk_read c s (dedup ks []) now) as [[[s1 h1] st1] m1].
  destruct (bulk_read c a (dedup ks []) now) as [[[a1 h2] st2] m2]. cbn [fst snd] in *. subst h2 st2 m2.
  destruct m1 as [|k0 m1].
  - cbn [fst snd]. split; [apply res_eq_refl|assumption].
  - pose proof (run_bulk_R now s1 a1 (k0 :: m1) bo false Ht HR1) as [V HR2].
    destruct (run_bulk c s1 (k0 :: m1) bo false now) as [s2 e1].
    destruct (run_bulk c a1 (k0 :: m1) bo false now) as [a2 e2]. cbn [fst snd] in *.
    destruct bo as [m| |]; cbn [fst snd]; (split; [|assumption]);
      unfold res_eq; cbn [r_ret r_events r_cb r_spawn]; auto.
Qed.

Lemma do_bulk_refresh_R now s a ks : R now s a ->
  SR now (do_bulk_refresh c s ks now) (do_bulk_refresh c a ks now).
Proof.
  intros HR. unfold do_bulk_refresh, SR. destruct (negb (with_refr c)).
  - cbn [fst snd]. split; [apply res_eq_refl|assumption].
  - assert (E : map (fun k => (k, match get_node_quietly c s k now with Some n => Some (nval n) | None => None end)) (dedup ks []) =
                map (fun k => (k, match get_node_quietly c a k now with Some n => Some (nval n) | None => None end)) (dedup ks [])).
    { apply map_ext. intros k. rewrite (get_node_quietly_R now s a k HR). reflexivity. }
    rewrite E. cbn [fst snd]. split; [apply res_eq_refl|assumption].
Qed.

Lemma do_run_bulk_refresh_R now s a rks bl br : time_ok now -> R now s a ->
  SR now (do_run_bulk_refresh c s rks bl br now) (do_run_bulk_refresh c a rks bl br now).
Proof.
  intros Ht HR. unfold do_run_bulk_refresh, SR.
  set (loads := map fst (filter (fun p : Z * option Z => match snd p with None => true | Some _ => false end) rks)).
  set (reloads := filter (fun p : Z * option Z => match snd p with None => false | Some _ => true end) rks).
  set (rkeys := map fst reloads).
  set (rolds := map (fun p : Z * option Z => match snd p with Some v => v | None => 0 end) reloads).
  assert (Step1 : exists s1 a1 e1 e1' cb1 pan,
    (match loads with
     | [] => (s, [], [], false)
     | _ => let '(s1, e1) := run_bulk c s loads bl true now in
            (s1, e1, [CbBulkLoad loads], match bl with BPanic => true | _ => false end)
     end) = (s1, e1, cb1, pan) /\
    (match loads with
     | [] => (a, [], [], false)
     | _ => let '(s1, e1) := run_bulk c a loads bl true now in
            (s1, e1, [CbBulkLoad loads], match bl with BPanic => true | _ => false end)
     end) = (a1, e1', cb1, pan) /\ vis e1 = vis e1' /\ R now s1 a1).
  { destruct loads as [|l0 loads'].
    - exists s, a, [], [], [], false. auto.
    - pose proof (run_bulk_R now s a (l0 :: loads') bl true Ht HR) as [V HR1].
      destruct (run_bulk c s (l0 :: loads') bl true now) as [s1 e1].
      destruct (run_bulk c a (l0 :: loads') bl true now) as [a1 e1']. cbn [fst snd] in *.
      exists s1, a1, e1, e1', [CbBulkLoad (l0 :: loads')], (match bl with BPanic => true | _ => false end). auto. }
  destruct Step1 as (s1 & a1 & e1 & e1' & cb1 & pan & E1 & E2 & V1 & HR1).
  rewrite E1, E2. destruct pan.
  - cbn [fst snd]. split; [|assumption]. unfold res_eq; cbn [r_ret r_events r_cb r_spawn]. auto.
  - destruct rkeys as [|r0 rkeys'].
    + cbn [fst snd]. split; [|assumption]. unfold res_eq; cbn [r_ret r_events r_cb r_spawn]. auto.
    + pose proof (run_bulk_R now s1 a1 (r0 :: rkeys') br true Ht HR1) as [V2 HR2].
      destruct (run_bulk c s1 (r0 :: rkeys') br true now) as [s2 e2].
      destruct (run_bulk c a1 (r0 :: rkeys') br true now) as [a2 e2']. cbn [fst snd] in *.
      destruct br; cbn [fst snd]; (split; [|assumption]);
        unfold res_eq; cbn [r_ret r_events r_cb r_spawn]; rewrite !vis_app; rewrite V1, V2; auto.
Qed.

(* iteration and InvalidateAll only see live entries *)
Lemma live_pairs_purge now m : live_pairs c m now = map (fun p => (fst p, nval (snd p))) (purge c now m).
Proof. reflexivity. Qed.

Lemma vis_invalidate_all now m :
  vis (map (fun p => mkEvent (fst p) (nval (snd p)) (get_cause c (snd p) now CInvalidation)) m) =
  map (fun p => mkEvent (fst p) (nval (snd p)) CInvalidation) (purge c now m).
Proof.
  unfold vis, purge. induction m as [|p m IH]; [reflexivity|].
  cbn [map filter ecause]. unfold live at 1.
  replace (get_cause c (snd p) now CInvalidation)
    with (if has_expired c (snd p) now then CExpiration else CInvalidation) by reflexivity.
  destruct (has_expired c (snd p) now); cbn [negb cause_eqb map]; rewrite IH; reflexivity.
Qed.

Lemma R_empty now s a : R now s a -> R now (upd_map s []) (upd_map a []).
Proof.
  intros (E & St & Ms & Ma). unfold R, upd_map, eqv; cbn [cmap cst].
  split; [reflexivity|]. split; [assumption|]. split; (split; [constructor|constructor]).
Qed.

(* which operations are handled by the congruence (all but automatic removals) *)
Definition is_auto (o : op) : bool := match o with OAuto _ _ _ _ => true | _ => false end.

Definition op_ok (o : op) : Prop :=
  time_ok (op_now o) /\
  match o with
  | OSetExpiresAfter _ d _ | OSetRefreshableAfter _ d _ => d <= MaxInt64
  | OGet _ _ now now2 | OBulkGet _ _ now now2 => now2 = now
  | _ => True
  end.

Theorem step_congruence s a o :
  op_ok o -> is_auto o = false -> R (op_now o) s a -> SR (op_now o) (step c s o) (step c a o).
Proof.
  intros [Ht Hop] Hna HR. destruct o; cbn [op_now] in *; cbn [step]; try discriminate.
  - apply do_set_R; assumption.
  - apply do_set_R; assumption.
  - pose proof (get_node_R now s a k Ht HR) as [Hg HR1].
    destruct (get_node c s k now) as [s1 g1]. destruct (get_node c a k now) as [a1 g2]. cbn [fst snd] in *. subst g2.
    split; [apply res_eq_refl|assumption].
  - pose proof (get_node_R now s a k Ht HR) as [Hg HR1].
    destruct (get_node c s k now) as [s1 g1]. destruct (get_node c a k now) as [a1 g2]. cbn [fst snd] in *. subst g2.
    split; [apply res_eq_refl|assumption].
  - rewrite (get_node_quietly_R now s a k HR). split; [apply res_eq_refl|assumption].
  - apply do_compute_R; assumption.
  - pose proof (get_node_R now s a k Ht HR) as [Hg HR1].
    destruct (get_node c s k now) as [s1 g1]. destruct (get_node c a k now) as [a1 g2]. cbn [fst snd] in *. subst g2.
    destruct g1; [split; [apply res_eq_refl|assumption]|]. apply do_compute_R; assumption.
  - pose proof (get_node_R now s a k Ht HR) as [Hg HR1].
    destruct (get_node c s k now) as [s1 g1]. destruct (get_node c a k now) as [a1 g2]. cbn [fst snd] in *. subst g2.
    destruct g1; [|split; [apply res_eq_refl|assumption]]. apply do_compute_R; assumption.
  - apply do_invalidate_R; assumption.
  - unfold do_invalidate_all, SR. cbn [fst snd]. split; [|apply R_empty; assumption].
    unfold res_eq; cbn [r_ret r_events r_cb r_spawn]. rewrite !vis_invalidate_all.
    destruct HR as (E & _). unfold eqv in E. rewrite E. auto.
  - split; [apply res_eq_refl|]. cbn [fst]. apply do_sea_R; assumption.
  - split; [apply res_eq_refl|]. cbn [fst]. apply do_sra_R; assumption.
  - subst now2. apply do_get_R; assumption.
  - subst now2. apply do_bulk_get_R; assumption.
  - unfold do_refresh, SR. destruct (negb (with_refr c)); cbn [fst snd].
    + split; [apply res_eq_refl|assumption].
    + rewrite (get_node_quietly_R now s a k HR). split; [apply res_eq_refl|assumption].
  - apply do_bulk_refresh_R; assumption.
  - apply do_run_refresh_R; assumption.
  - apply do_run_bulk_refresh_R; assumption.
  - split; [|assumption]. cbn [fst snd]. unfold res_eq; cbn [r_ret r_events r_cb r_spawn].
    rewrite !live_pairs_purge. destruct HR as (E & _). unfold eqv in E. rewrite E. auto.
Qed.


(* ------------------------------------------------------------------ time, purging, automatic removals *)

Lemma has_expired_mono now now' n : now <= now' -> has_expired c n now' = false -> has_expired c n now = false.
Proof. unfold has_expired. intros H. destruct (with_exp c); cbn [andb]; [|reflexivity]. lia. Qed.

Lemma purge_purge now now' m : now <= now' -> purge c now' (purge c now m) = purge c now' m.
Proof.
  intros H. unfold purge. induction m as [|p m IH]; [reflexivity|]. cbn [filter].
  destruct (live c now p) eqn:L1; cbn [filter].
  - rewrite IH. reflexivity.
  - rewrite IH. unfold live in *. destruct (has_expired c (snd p) now') eqn:L2; [reflexivity|].
    rewrite (has_expired_mono now now' _ H L2) in L1. discriminate.
Qed.

Lemma map_ok_purge now m : map_ok m -> map_ok (purge c now m).
Proof.
  intros [H1 H2]. split.
  - unfold purge. clear H2. induction m as [|p m IH]; [constructor|]. cbn [filter map] in *.
    inversion H1 as [|? ? Hn Hd]; subst. destruct (live c now p); cbn [map]; [|apply IH; assumption].
    constructor; [|apply IH; assumption]. intros Hin. apply Hn.
    apply in_map_iff in Hin. destruct Hin as (q & Hq1 & Hq2). apply filter_In in Hq2. apply in_map_iff. exists q. tauto.
  - apply Forall_forall. intros p Hp. unfold purge in Hp. apply filter_In in Hp. rewrite Forall_forall in H2. apply H2. tauto.
Qed.

Lemma R_mono now now' s a : now <= now' -> R now s a -> R now' s a.
Proof.
  intros H (E & St & Ms & Ma). unfold R, eqv in *. split; [|auto].
  rewrite <- (purge_purge now now' (cmap s) H), <- (purge_purge now now' (cmap a) H). rewrite E. reflexivity.
Qed.

Lemma R_purge_r now s a : R now s a -> R now s (purge_st c now a).
Proof.
  intros (E & St & Ms & Ma). unfold R, eqv, purge_st in *; cbn [cmap cst].
  rewrite (purge_purge now now (cmap a)) by lia. split; [assumption|]. split; [assumption|]. split; [assumption|].
  apply map_ok_purge. assumption.
Qed.

Lemma lookup_purged_live now m k n : map_ok m -> lookup k (purge c now m) = Some n -> has_expired c n now = false.
Proof.
  intros Hm L. rewrite lookup_purge in L by apply Hm. unfold olive in L.
  destruct (lookup k m) as [n0|]; [|discriminate]. destruct (has_expired c n0 now) eqn:X; [discriminate|].
  injection L as <-. assumption.
Qed.

Lemma R_evict_l now s a w : R now s a -> R now (upd_st s (st_evict w)) a.
Proof. intros (E & (A & B & C & D) & Ms & Ma). unfold R, upd_st, srel, st_evict in *; cbn. auto 10. Qed.

Lemma R_evict_both now s a w w' : R now s a -> R now (upd_st s (st_evict w)) (upd_st a (st_evict w')).
Proof. intros (E & (A & B & C & D) & Ms & Ma). unfold R, upd_st, srel, st_evict in *; cbn. auto 10. Qed.

Lemma do_auto_gone_l now s a k v cs : gone now s k -> R now s a -> R now (fst (do_auto c s k v cs now)) a.
Proof.
  intros G HR. unfold do_auto. destruct (lookup k (cmap s)) as [n|] eqn:L; [|assumption].
  destruct ((nval n =? v) && _); cbn [fst]; [|assumption].
  apply R_evict_l. apply R_remove_l; assumption.
Qed.

Lemma auto_sim now s a k v cs : time_ok now -> R now s a ->
  R now (fst (step c s (OAuto k v cs now))) (fst (spec_step c a (OAuto k v cs now))) /\
  (r_ret (snd (step c s (OAuto k v cs now))) = RNone -> r_ret (snd (spec_step c a (OAuto k v cs now))) = RNone).
Proof.
  intros Ht HR0. pose proof (R_purge_r now s a HR0) as HR. unfold spec_step. cbn [op_now step].
  set (a' := purge_st c now a) in *.
  destruct (view_cases now s a' k HR) as [n L1 L2 X O|G1 G2].
  - rewrite L2. unfold do_auto. rewrite L1, ?L2.
    destruct (nval n =? v) eqn:Ev; cbn [andb].
    + rewrite ?Ev. cbn [andb].
      destruct (match cs with COverflow => bounded c | CExpiration => has_expired c n now | _ => false end); unfold res0; cbn [fst snd r_ret].
      * split; [|auto]. apply R_evict_both. apply R_remove. assumption.
      * split; [assumption|]. intros Hd; discriminate Hd.
    + unfold res0; cbn [fst snd r_ret]. split; [assumption|]. intros Hd; discriminate Hd.
  - assert (L2 : lookup k (cmap a') = None).
    { destruct G2 as [L|(n & L & X & O)]; [assumption|].
      unfold a', purge_st in L; cbn [cmap] in L.
      destruct HR0 as (_ & _ & _ & Ma). rewrite (lookup_purged_live now _ _ _ Ma L) in X. discriminate. }
    rewrite L2. unfold res0; cbn [fst snd r_ret]. split; [|reflexivity].
    apply do_auto_gone_l; assumption.
Qed.

(* ------------------------------------------------------------------ refinement over runs *)

Lemma spec_step_non_auto a o : is_auto o = false -> spec_step c a o = step c (purge_st c (op_now o) a) o.
Proof. destruct o; intros H; try discriminate; reflexivity. Qed.

Definition res_sim (o : op) (r r' : result) : Prop :=
  if is_auto o then (r_ret r = RNone -> r_ret r' = RNone) else res_eq r r'.

Theorem step_refines s a o :
  op_ok o -> R (op_now o) s a ->
  res_sim o (snd (step c s o)) (snd (spec_step c a o)) /\
  R (op_now o) (fst (step c s o)) (fst (spec_step c a o)).
Proof.
  intros Hok HR. unfold res_sim. destruct (is_auto o) eqn:Ea.
  - destruct o; try discriminate. cbn [op_now] in *. destruct Hok as [Ht _].
    destruct (auto_sim now s a k v cs Ht HR) as [H1 H2]. split; assumption.
  - rewrite (spec_step_non_auto a o Ea).
    apply (step_congruence s (purge_st c (op_now o) a) o Hok Ea). apply R_purge_r. assumption.
Qed.

Fixpoint clock_ok (t : Z) (ops : list op) : Prop :=
  match ops with
  | [] => True
  | o :: ops' => t <= op_now o /\ op_ok o /\ clock_ok (op_now o) ops'
  end.

Fixpoint sim_list (ops : list op) (rs rs' : list result) : Prop :=
  match ops, rs, rs' with
  | [], [], [] => True
  | o :: ops', r :: rs1, r' :: rs1' => res_sim o r r' /\ sim_list ops' rs1 rs1'
  | _, _, _ => False
  end.

Fixpoint last_time (t : Z) (ops : list op) : Z :=
  match ops with [] => t | o :: ops' => last_time (op_now o) ops' end.

Theorem run_refines ops : forall t s a,
  clock_ok t ops -> R t s a ->
  sim_list ops (snd (run c s ops)) (snd (spec_run c a ops)) /\
  R (last_time t ops) (fst (run c s ops)) (fst (spec_run c a ops)).
Proof.
  induction ops as [|o ops IH]; intros t s a Hc HR; cbn [run spec_run].
  - cbn. auto.
  - destruct Hc as (Hle & Hok & Hc').
    pose proof (step_refines s a o Hok (R_mono t (op_now o) s a Hle HR)) as [Hr HR1].
    destruct (step c s o) as [s1 r]. destruct (spec_step c a o) as [a1 r']. cbn [fst snd] in *.
    specialize (IH (op_now o) s1 a1 Hc' HR1).
    destruct (run c s1 ops) as [s2 rs]. destruct (spec_run c a1 ops) as [a2 rs']. cbn [fst snd last_time sim_list] in *.
    destruct IH as [H1 H2]. auto.
Qed.

Lemma R_init t : R t cstate0 cstate0.
Proof.
  unfold R, eqv, cstate0, srel; cbn. split; [reflexivity|]. split; [auto|]. split; (split; constructor).
Qed.

End Refine.
