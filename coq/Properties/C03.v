(* C03 — An entry is never observable after its expiration deadline. *)
From Otter Require Import Base Seq Spec SeqRefine SeqFacts.

(* For EVERY operation (reads, writes, computes, invalidation, deadline setters, loads, refresh,
   iteration), a state holding an expired-but-unswept node for key k behaves exactly like the
   state from which that node has been removed: same return value, same callbacks (so a compute
   function sees found = false), same executor submissions, same visible deletion events, same
   statistics, and the same live contents afterwards — so the key becomes visible again only if
   the operation would have made it visible starting from "absent" (a write or a completed load). *)
Theorem C03_dead_unobservable : forall c, cfg_ok c -> forall s k o,
  op_ok o -> is_auto o = false -> map_ok (cmap s) ->
  (exists n, lookup k (cmap s) = Some n /\ has_expired c n (op_now o) = true) ->
  SR c (op_now o) (step c s o) (step c (upd_map s (remove k (cmap s))) o).
Proof.
  intros c CO s k o Hok Hna Hm (n & L & X).
  apply (step_congruence c CO); [assumption|assumption|].
  apply R_sym. apply R_remove_l.
  - right. exists n. split; [assumption|]. split; [assumption|]. eapply lookup_node_ok; eauto.
  - unfold R, eqv, srel. auto 10.
Qed.
Print Assumptions C03_dead_unobservable.

(* per-entry deadline setters leave an expired entry dead *)
Theorem C03_set_expires_after_no_resurrection : forall c s k d now,
  (exists n, lookup k (cmap s) = Some n /\ has_expired c n now = true) ->
  do_set_expires_after c s k d now = s.
Proof. intros c s k d now H. apply set_expires_after_dead. right. exact H. Qed.
Print Assumptions C03_set_expires_after_no_resurrection.

(* iteration (All/Keys/Values, and the Hottest order persistence uses) yields live entries only *)
Theorem C03_iteration_omits_dead : forall c m now k v,
  In (k, v) (live_pairs c m now) -> exists n, In (k, n) m /\ nval n = v /\ has_expired c n now = false.
Proof.
  intros c m now k v H. unfold live_pairs in H. apply in_map_iff in H. destruct H as ([k' n] & E & Hin).
  apply filter_In in Hin. destruct Hin as [Hin Hl]. cbn in E. injection E as <- <-.
  exists n. split; [assumption|]. split; [reflexivity|]. cbn in Hl. destruct (has_expired c n now); [discriminate|reflexivity].
Qed.
Print Assumptions C03_iteration_omits_dead.

(* over whole histories: the abstract map never holds an entry past its deadline, and the concrete
   run agrees with it (C01_refines); restated here for the observable of this property *)
Theorem C03_history : forall c, cfg_ok c -> forall ops t,
  clock_ok t ops ->
  sim_list ops (snd (run c cstate0 ops)) (snd (spec_run c cstate0 ops)).
Proof. intros c CO ops t H. exact (proj1 (run_refines c CO ops t cstate0 cstate0 H (R_init c t))). Qed.
Print Assumptions C03_history.

(* non-vacuity: an expired-unswept node exists in a reachable state of the example trace *)
Example C03_nonvacuous :
  let c := mkCfg true false false false (fun _ _ => 1) (fun _ _ _ => 100) (fun _ _ _ _ => 100) (fun _ _ cur => cur)
                 (fun _ _ cur => cur) (fun _ _ _ cur => cur) (fun _ _ _ cur => cur) (fun _ _ cur => cur) in
  let s := fst (run c cstate0 [OSet 1 11 1000]) in
  (exists n, lookup 1 (cmap s) = Some n /\ has_expired c n 1100 = true) /\
  r_ret (snd (step c s (OSet 1 12 1100))) = RVal 12 true /\
  r_ret (snd (step c s (OInvalidate 1 1100))) = RVal 0 false /\
  r_ret (snd (step c s (OGetIfPresent 1 1100))) = RVal 0 false.
Proof. vm_compute. split; [eexists; split; reflexivity|]. repeat split. Qed.
