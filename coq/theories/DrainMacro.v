(* DrainMacro.v — macro steps of the drain-status model: one thread runs from one hook point of the
   code to the next (or to the end of its call, or until it blocks on the eviction lock).  The
   correspondence engine "sched" executes the real code in exactly these units; a macro step is a
   sequence of small steps of one thread, so every configuration the engine visits is reachable in
   the small-step model and the theorems about all schedules apply to it. *)
From stdpp Require Import gmap.
From Coq Require Import List.
Import ListNotations.
From Otter Require Import Drain DrainProofs.

(* program counters at which the code has a hook point (verifPoint 3,10,4,9,5,1,2,6) or has ended *)
Definition hook_pc (p : pc) : bool :=
  match p with
  | WLoad | STry | SLoad2 | SCas | DTry | MStore | MLoad | RLoad | Done => true
  | _ => false
  end.

Definition pc_at (s : dstate) (i : nat) : pc :=
  match nth_error (ths_of s) i with Some (p, _) => p | None => Done end.

Fixpoint macro (fuel : nat) (s : dstate) (i : nat) : dstate :=
  match fuel with
  | O => s
  | S f => match dstep s i with
           | None => s
           | Some s' => if hook_pc (pc_at s' i) then s' else macro f s' i
           end
  end.

(* from WLoad the next hook point (8) follows the load at once: exactly one small step *)
Definition macro_step (s : dstate) (i : nat) : dstate :=
  match pc_at s i with
  | WLoad => match dstep s i with Some s' => s' | None => s end
  | _ => macro (64 + wb_of s) s i
  end.

(* a new thread (a writer about to push, or an explicit CleanUp caller) *)
Definition add_thread (s : dstate) (p : pc) : dstate :=
  mk (ds_of s) (lock_of s) (wb_of s) (ths_of s ++ [(p, 0)]).

Definition enabled (s : dstate) (i : nat) : bool := match dstep s i with Some _ => true | None => false end.

Definition dstate0 : dstate := mk 0 false 0 [].

Lemma macro_run fuel : forall s i, exists sched, macro fuel s i = run_sched s sched.
Proof.
  induction fuel as [|f IH]; intros s i; [exists []; reflexivity|].
  cbn [macro]. destruct (dstep s i) as [s'|] eqn:E; [|exists []; reflexivity].
  destruct (hook_pc (pc_at s' i)).
  - exists [i]. cbn [run_sched]. rewrite E. reflexivity.
  - destruct (IH s' i) as (sched & Hs). exists (i :: sched). cbn [run_sched]. rewrite E. exact Hs.
Qed.

Lemma macro_step_run s i : exists sched, macro_step s i = run_sched s sched.
Proof.
  unfold macro_step. destruct (pc_at s i); try apply macro_run.
  destruct (dstep s i) as [s'|] eqn:E; [|exists []; reflexivity].
  exists [i]. cbn [run_sched]. rewrite E. reflexivity.
Qed.

(* macro steps stay inside the small-step reachable set *)
Theorem macro_step_reachable s0 s i : reachable s0 s -> reachable s0 (macro_step s i).
Proof.
  intros H. destruct (macro_step_run s i) as (sched & ->). apply run_sched_reachable. assumption.
Qed.
