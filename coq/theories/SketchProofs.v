(* SketchProofs.v — lemmas about the sketch model (C18). *)
From Otter Require Import Base Sketch.
From Coq Require Import ZifyBool.

Local Open Scope Z_scope.

(* ------------------------------------------------------------------ *)
(* 4-bit counters inside a word *)

Definition P16 (j : Z) : Z := 2 ^ (4 * j).

Lemma P16_pos j : 0 <= j -> 0 < P16 j.
Proof. intros; unfold P16; apply Z.pow_pos_nonneg; lia. Qed.

Lemma P16_succ j : 0 <= j -> P16 (j + 1) = 16 * P16 j.
Proof. intros; unfold P16. replace (4 * (j + 1)) with (4 * j + 4) by lia.
  rewrite Z.pow_add_r by lia. change (2 ^ 4) with 16. lia. Qed.

Lemma P16_add a b : 0 <= a -> 0 <= b -> P16 (a + b) = P16 a * P16 b.
Proof. intros; unfold P16. replace (4 * (a + b)) with (4 * a + 4 * b) by lia.
  apply Z.pow_add_r; lia. Qed.

Lemma shiftl2 j : Z.shiftl j 2 = 4 * j.
Proof. rewrite Z.shiftl_mul_pow2 by lia. change (2 ^ 2) with 4. lia. Qed.

Lemma count_at_spec w j : 0 <= j -> count_at w j = (w / P16 j) mod 16.
Proof.
  intros Hj. unfold count_at, P16. rewrite shiftl2.
  rewrite Z.shiftr_div_pow2 by lia.
  change 15 with (Z.ones 4). rewrite Z.land_ones by lia. reflexivity.
Qed.

Lemma count_at_range w j : 0 <= j -> 0 <= count_at w j <= 15.
Proof. intros; rewrite count_at_spec by assumption.
  pose proof (Z.mod_pos_bound (w / P16 j) 16 ltac:(lia)). lia. Qed.

(* every word splits around counter j *)
Lemma split_at w j : 0 <= j ->
  exists hi lo, w = hi * (16 * P16 j) + count_at w j * P16 j + lo /\ 0 <= lo < P16 j.
Proof.
  intros Hj. pose proof (P16_pos j Hj) as HB.
  exists (w / P16 j / 16), (w mod P16 j).
  rewrite count_at_spec by assumption.
  pose proof (Z.div_mod w (P16 j) ltac:(lia)) as E1.
  pose proof (Z.div_mod (w / P16 j) 16 ltac:(lia)) as E2.
  pose proof (Z.mod_pos_bound w (P16 j) HB).
  split; [|lia]. nia.
Qed.

(* the value of counter j' of hi*16B + n*B + lo *)
Lemma count_at_built_same hi n lo j :
  0 <= j -> 0 <= n < 16 -> 0 <= lo < P16 j ->
  count_at (hi * (16 * P16 j) + n * P16 j + lo) j = n.
Proof.
  intros Hj Hn Hlo. rewrite count_at_spec by assumption.
  pose proof (P16_pos j Hj) as HB.
  replace (hi * (16 * P16 j) + n * P16 j + lo) with ((hi * 16 + n) * P16 j + lo) by lia.
  rewrite Z.div_add_l by lia. rewrite (Z.div_small lo) by lia.
  replace (hi * 16 + n + 0) with (n + hi * 16) by lia.
  rewrite Z.mod_add by lia. apply Z.mod_small; lia.
Qed.

Lemma count_at_built_other hi n m lo j j' :
  0 <= j -> 0 <= j' -> j' <> j -> 0 <= n < 16 -> 0 <= m < 16 -> 0 <= lo < P16 j ->
  count_at (hi * (16 * P16 j) + n * P16 j + lo) j' =
  count_at (hi * (16 * P16 j) + m * P16 j + lo) j'.
Proof.
  intros Hj Hj' Hne Hn Hm Hlo. rewrite !count_at_spec by assumption.
  pose proof (P16_pos j Hj) as HB. pose proof (P16_pos j' Hj') as HB'.
  destruct (Z_lt_ge_dec j' j) as [Hlt|Hge].
  - (* lower counter: P16 j = P16 j' * 16 * K *)
    set (K := P16 (j - j' - 1)).
    assert (HK : 0 < K) by (apply P16_pos; lia).
    assert (E : P16 j = 16 * K * P16 j').
    { replace j with ((j - j' - 1) + 1 + j') at 1 by lia.
      rewrite P16_add by lia. rewrite P16_succ by lia. unfold K. lia. }
    rewrite E.
    replace (hi * (16 * (16 * K * P16 j')) + n * (16 * K * P16 j') + lo)
      with ((hi * 16 * K + n * K) * 16 * P16 j' + lo) by lia.
    replace (hi * (16 * (16 * K * P16 j')) + m * (16 * K * P16 j') + lo)
      with ((hi * 16 * K + m * K) * 16 * P16 j' + lo) by lia.
    rewrite !Z.div_add_l by lia.
    rewrite !(Z.add_comm (_ * 16)). rewrite !Z.mod_add by lia. reflexivity.
  - (* higher counter: P16 j' = 16 * P16 j * K *)
    set (K := P16 (j' - j - 1)).
    assert (HK : 0 < K) by (apply P16_pos; lia).
    assert (E : P16 j' = (16 * P16 j) * K).
    { replace j' with (j + 1 + (j' - j - 1)) at 1 by lia.
      rewrite P16_add by lia. rewrite P16_succ by lia. unfold K. lia. }
    rewrite E. rewrite <- !(Z.div_div _ (16 * P16 j) K) by lia.
    assert (D : forall x, 0 <= x < 16 ->
                (hi * (16 * P16 j) + x * P16 j + lo) / (16 * P16 j) = hi).
    { intros x Hx. replace (hi * (16 * P16 j) + x * P16 j + lo)
        with (hi * (16 * P16 j) + (x * P16 j + lo)) by lia.
      rewrite Z.div_add_l by lia. rewrite (Z.div_small (x * P16 j + lo)) by nia. lia. }
    rewrite (D n Hn), (D m Hm). reflexivity.
Qed.

(* the mask test of incrementAt is a test for "counter = 15" *)
Lemma land_shifted_mask w o : 0 <= o ->
  Z.land w (Z.shiftl 15 o) = Z.shiftl (Z.land (Z.shiftr w o) 15) o.
Proof.
  intros Ho. apply Z.bits_inj'. intros n Hn.
  rewrite Z.land_spec.
  destruct (Z_lt_ge_dec n o) as [Hlt|Hge].
  - rewrite !Z.shiftl_spec_low by lia. apply andb_false_r.
  - rewrite !Z.shiftl_spec by lia. rewrite Z.land_spec. rewrite Z.shiftr_spec by lia.
    replace (n - o + o) with n by lia. reflexivity.
Qed.

Lemma mask_test w j : 0 <= j ->
  (Z.land w (Z.shiftl 15 (Z.shiftl j 2)) =? Z.shiftl 15 (Z.shiftl j 2)) = (count_at w j =? 15).
Proof.
  intros Hj. unfold count_at.
  assert (Ho : 0 <= Z.shiftl j 2) by (rewrite shiftl2; lia).
  generalize dependent (Z.shiftl j 2). intros o Ho.
  rewrite land_shifted_mask by assumption.
  set (c := Z.land (Z.shiftr w o) 15).
  rewrite (Z.shiftl_mul_pow2 c o) by assumption. rewrite (Z.shiftl_mul_pow2 15 o) by assumption.
  assert (0 < 2 ^ o) by (apply Z.pow_pos_nonneg; lia).
  destruct (c =? 15) eqn:E.
  - apply Z.eqb_eq in E. rewrite E. apply Z.eqb_refl.
  - apply Z.eqb_neq in E. apply Z.eqb_neq. nia.
Qed.

Lemma add_one_counter w j :
  0 <= j -> count_at w j <> 15 ->
  count_at (w + Z.shiftl 1 (Z.shiftl j 2)) j = count_at w j + 1 /\
  forall j', 0 <= j' -> j' <> j -> count_at (w + Z.shiftl 1 (Z.shiftl j 2)) j' = count_at w j'.
Proof.
  intros Hj Hne. pose proof (count_at_range w j Hj) as R.
  destruct (split_at w j Hj) as (hi & lo & E & Hlo).
  rewrite Z.shiftl_mul_pow2 by (rewrite shiftl2; lia). rewrite shiftl2. fold (P16 j).
  set (n := count_at w j) in *.
  assert (E' : w + 1 * P16 j = hi * (16 * P16 j) + (n + 1) * P16 j + lo) by lia.
  rewrite E'. split.
  - apply count_at_built_same; lia.
  - intros j' Hj' Hd. rewrite E at 1. apply count_at_built_other; lia.
Qed.

(* ------------------------------------------------------------------ *)
(* table-level view *)

Definition cnt (t : list Z) (p : Z * Z) : Z := count_at (tget t (fst p)) (snd p).

Definition valid_pos (t : list Z) (p : Z * Z) : Prop :=
  0 <= fst p < Z.of_nat (length t) /\ 0 <= snd p.

Lemma tget_upd_same t i x : 0 <= i < Z.of_nat (length t) -> tget (upd (Z.to_nat i) x t) i = x.
Proof. intros; unfold tget. apply nth_upd_same. lia. Qed.

Lemma tget_upd_other t i i' x : 0 <= i -> 0 <= i' -> i <> i' -> tget (upd (Z.to_nat i) x t) i' = tget t i'.
Proof. intros; unfold tget. apply nth_upd_other. lia. Qed.

Lemma increment_at_spec t slot idx :
  valid_pos t (slot, idx) ->
  let '(t', a) := increment_at t slot idx in
  length t' = length t /\
  cnt t' (slot, idx) = Z.min 15 (cnt t (slot, idx) + 1) /\
  (a = false <-> cnt t (slot, idx) = 15) /\
  (forall p, 0 <= fst p -> 0 <= snd p -> p <> (slot, idx) -> cnt t' p = cnt t p).
Proof.
  intros [Hs Hi]; simpl in Hs, Hi. unfold increment_at.
  rewrite mask_test by assumption.
  pose proof (count_at_range (tget t slot) idx Hi) as R.
  destruct (count_at (tget t slot) idx =? 15) eqn:E.
  - apply Z.eqb_eq in E. unfold cnt; cbn [fst snd]. rewrite E. repeat split; auto.
  - apply Z.eqb_neq in E.
    destruct (add_one_counter (tget t slot) idx Hi E) as [A1 A2].
    unfold cnt; cbn [fst snd]. rewrite upd_length. split; [reflexivity|]. split.
    + rewrite tget_upd_same by assumption. rewrite A1. lia.
    + split; [split; [discriminate | intros; contradiction]|].
      intros [s' i'] Hs' Hi' Hne; cbn [fst snd] in *.
      destruct (Z.eq_dec s' slot) as [->|Hd].
      * rewrite tget_upd_same by assumption. apply A2; [assumption|]. congruence.
      * rewrite tget_upd_other by lia. reflexivity.
Qed.

(* the four positions *)
Definition positions (bm bh : Z) : list (Z * Z) := map (pos_loop bm bh) [0; 1; 2; 3].

Lemma same_counters bm bh : pos_unrolled bm bh = positions bm bh.
Proof.
  unfold pos_unrolled, positions, pos_loop. cbn [map].
  change (Z.shiftl 0 3) with 0. change (Z.shiftl 1 3) with 8.
  change (Z.shiftl 2 3) with 16. change (Z.shiftl 3 3) with 24.
  change (Z.shiftl 0 1) with 0. change (Z.shiftl 1 1) with 2.
  change (Z.shiftl 2 1) with 4. change (Z.shiftl 3 1) with 6.
  rewrite Z.shiftr_0_r. rewrite !Z.add_0_r. reflexivity.
Qed.

(* well-formed initialised sketch: table length 8*2^k, blockMask = 2^k - 1 *)
Definition wf (s : sketch) : Prop :=
  inited s = true ->
  exists k, 0 <= k /\ Z.of_nat (length (tbl s)) = 8 * 2 ^ k /\ bmask s = Z.ones k.

Lemma land1_range h : 0 <= Z.land h 1 <= 1.
Proof. change 1 with (Z.ones 1) at 1 2. rewrite Z.land_ones by lia.
  pose proof (Z.mod_pos_bound h (2 ^ 1) ltac:(lia)). change (2 ^ 1) with 2 in *. change (Z.ones 1) with 1. lia. Qed.

Lemma land15_range h : 0 <= Z.land h 15 <= 15.
Proof. change 15 with (Z.ones 4) at 1 2. rewrite Z.land_ones by lia.
  pose proof (Z.mod_pos_bound h (2 ^ 4) ltac:(lia)). change (2 ^ 4) with 16 in *. change (Z.ones 4) with 15. lia. Qed.

Lemma pos_loop_valid t bm bh k i :
  0 <= k -> Z.of_nat (length t) = 8 * 2 ^ k -> bm = Z.ones k -> In i [0; 1; 2; 3] ->
  valid_pos t (pos_loop bm bh i).
Proof.
  intros Hk Hlen -> Hin. unfold valid_pos, pos_loop; cbn [fst snd].
  rewrite Z.land_ones by assumption. rewrite Z.shiftl_mul_pow2 by lia. change (2 ^ 3) with 8.
  pose proof (Z.mod_pos_bound bh (2 ^ k) ltac:(apply Z.pow_pos_nonneg; lia)) as B.
  pose proof (land1_range (Z.shiftr (rehash bh) (Z.shiftl i 3))) as L1.
  pose proof (land15_range (Z.shiftr (Z.shiftr (rehash bh) (Z.shiftl i 3)) 1)) as L15.
  assert (0 <= Z.shiftl i 1 <= 6).
  { simpl in Hin. destruct Hin as [<-|[<-|[<-|[<-|[]]]]]; cbn; lia. }
  split; [|lia]. rewrite Hlen. nia.
Qed.

Lemma positions_distinct bm bh i i' :
  In i [0; 1; 2; 3] -> In i' [0; 1; 2; 3] -> i <> i' -> pos_loop bm bh i <> pos_loop bm bh i'.
Proof.
  intros Hi Hi' Hne E. unfold pos_loop in E. injection E as E1 _.
  pose proof (land1_range (Z.shiftr (rehash bh) (Z.shiftl i 3))) as L1.
  pose proof (land1_range (Z.shiftr (rehash bh) (Z.shiftl i' 3))) as L1'.
  simpl in Hi, Hi'.
  destruct Hi as [<-|[<-|[<-|[<-|[]]]]]; destruct Hi' as [<-|[<-|[<-|[<-|[]]]]];
    try (exfalso; apply Hne; reflexivity);
    cbn [Z.shiftl Pos.iter Z.mul Pos.mul] in *; lia.
Qed.

(* folding incrementAt over a list of distinct valid positions *)
Definition incr_fold (t : list Z) (ps : list (Z * Z)) : list Z * bool :=
  fold_left (fun '(t, added) '(slot, index) =>
               let '(t', a) := increment_at t slot index in (t', a || added)) ps (t, false).

Lemma incr_fold_gen ps : forall t acc,
  (forall p, In p ps -> valid_pos t p) -> NoDup ps ->
  let '(t', a) := fold_left (fun '(t, added) '(slot, index) =>
               let '(t', a) := increment_at t slot index in (t', a || added)) ps (t, acc) in
  length t' = length t /\
  (forall p, In p ps -> cnt t' p = Z.min 15 (cnt t p + 1)) /\
  (forall p, 0 <= fst p -> 0 <= snd p -> ~ In p ps -> cnt t' p = cnt t p) /\
  (a = false -> acc = false /\ forall p, In p ps -> cnt t p = 15).
Proof.
  induction ps as [|[s i] ps IH]; intros t acc Hv Hnd; simpl.
  - repeat split; auto; intros; contradiction.
  - pose proof (increment_at_spec t s i (Hv _ (or_introl eq_refl))) as Sp.
    destruct (increment_at t s i) as [t1 a1]. destruct Sp as (L1 & C1 & A1 & O1).
    inversion Hnd as [|? ? Hnotin Hnd']; subst.
    assert (Hv1 : forall p, In p ps -> valid_pos t1 p).
    { intros p Hp. destruct (Hv p (or_intror Hp)) as [Va Vb]. split; [rewrite L1|]; assumption. }
    specialize (IH t1 (a1 || acc)%bool Hv1 Hnd').
    destruct (fold_left _ ps (t1, (a1 || acc)%bool)) as [t' a].
    destruct IH as (L & C & O & A).
    split; [congruence|]. split; [|split].
    + intros p [<-|Hp].
      * rewrite O; [exact C1| apply (Hv _ (or_introl eq_refl)) | apply (Hv _ (or_introl eq_refl)) | assumption].
      * rewrite C by assumption. rewrite O1; [reflexivity| apply (Hv _ (or_intror Hp)) | apply (Hv _ (or_intror Hp)) |].
        intros ->. contradiction.
    + intros p H1 H2 Hn. rewrite O; [|assumption|assumption|tauto].
      apply O1; [assumption|assumption|]. intros ->. apply Hn. left; reflexivity.
    + intros Ha. destruct (A Ha) as [Hacc Hall].
      apply orb_false_iff in Hacc. destruct Hacc as [Ha1 Hacc]. split; [assumption|].
      intros p [<-|Hp].
      * apply A1. assumption.
      * rewrite <- (O1 p); [apply Hall; assumption| apply (Hv _ (or_intror Hp)) | apply (Hv _ (or_intror Hp)) |].
        intros ->. contradiction.
Qed.

Lemma positions_NoDup bm bh : NoDup (positions bm bh).
Proof.
  unfold positions. cbn [map].
  assert (D : forall i i', In i [0;1;2;3] -> In i' [0;1;2;3] -> i <> i' ->
              pos_loop bm bh i <> pos_loop bm bh i') by (apply positions_distinct).
  repeat constructor; simpl; intros H;
    repeat (destruct H as [H|H]; [revert H; apply D; simpl; auto; lia|]); assumption.
Qed.

Lemma positions_valid t bm bh k :
  0 <= k -> Z.of_nat (length t) = 8 * 2 ^ k -> bm = Z.ones k ->
  forall p, In p (positions bm bh) -> valid_pos t p.
Proof.
  intros Hk Hl Hb p Hp. unfold positions in Hp. apply in_map_iff in Hp.
  destruct Hp as (i & <- & Hi). eapply pos_loop_valid; eassumption.
Qed.

(* frequency as a minimum over the positions *)
Definition min_cnt (t : list Z) (ps : list (Z * Z)) (init : Z) : Z :=
  fold_left (fun f p => Z.min f (cnt t p)) ps init.

Lemma frequency_as_min s r :
  inited s = true ->
  frequency s r = min_cnt (tbl s) (positions (bmask s) (spread r)) MaxUint64.
Proof.
  intros Hi. unfold frequency. rewrite Hi. simpl negb. cbv iota.
  unfold min_cnt, positions, cnt. cbn [map fold_left].
  repeat (destruct (pos_loop _ _ _)); reflexivity.
Qed.

Lemma min_cnt_cons t q ps init : min_cnt t (q :: ps) init = min_cnt t ps (Z.min init (cnt t q)).
Proof. reflexivity. Qed.

Lemma min_cnt_le_init t ps : forall init, min_cnt t ps init <= init.
Proof.
  induction ps as [|x l IHl]; intros i; [unfold min_cnt; simpl; lia|].
  rewrite min_cnt_cons. specialize (IHl (Z.min i (cnt t x))). lia.
Qed.

Lemma min_cnt_ge t ps : forall init b,
  b <= init -> (forall p, In p ps -> b <= cnt t p) -> b <= min_cnt t ps init.
Proof.
  induction ps as [|p ps IH]; intros init b Hi Hp; [exact Hi|].
  rewrite min_cnt_cons.
  apply IH; [|intros; apply Hp; right; assumption].
  pose proof (Hp p (or_introl eq_refl)). lia.
Qed.

Lemma min_cnt_le t ps : forall init p, In p ps -> min_cnt t ps init <= cnt t p.
Proof.
  induction ps as [|q ps IH]; intros init p Hp; [contradiction|].
  rewrite min_cnt_cons.
  destruct Hp as [->|Hp].
  - pose proof (min_cnt_le_init t ps (Z.min init (cnt t p))). lia.
  - apply IH. assumption.
Qed.

(* min over a position list is the initial value or attained *)
Lemma min_cnt_attained t ps : forall init,
  min_cnt t ps init = init \/ exists p, In p ps /\ min_cnt t ps init = cnt t p.
Proof.
  induction ps as [|q ps IH]; intros init; [left; reflexivity|].
  rewrite min_cnt_cons.
  destruct (IH (Z.min init (cnt t q))) as [E|(p & Hp & E)].
  - rewrite E.
    destruct (Z.min_spec init (cnt t q)) as [[_ ->]|[_ ->]]; [left; reflexivity|right; exists q; split; [left|]; reflexivity].
  - right. exists p. split; [right; assumption|assumption].
Qed.

(* ------------------------------------------------------------------ *)
(* the increment without the aging step *)

Definition incr_core (s : sketch) (r : Z) : sketch * bool :=
  let '(t, added) := incr_fold (tbl s) (pos_unrolled (bmask s) (spread r)) in
  (mkSketch t (sample s) (bmask s) (if added then wrapu (ssize s + 1) else ssize s) (inited s), added).

Definition reset_due (s : sketch) (r : Z) : bool :=
  inited s && (let '(s', added) := incr_core s r in added && (ssize s' =? sample s')).

Lemma increment_unfold s r :
  increment s r =
  if negb (inited s) then s else
  let '(s', added) := incr_core s r in
  if added && (ssize s' =? sample s') then reset s' else s'.
Proof.
  unfold increment, incr_core, incr_fold.
  destruct (negb (inited s)); [reflexivity|].
  destruct (fold_left _ _ _) as [t added]. destruct added; simpl; [|destruct s; reflexivity].
  destruct (wrapu (ssize s + 1) =? sample s); reflexivity.
Qed.

Lemma incr_core_props s r :
  wf s -> inited s = true ->
  let '(s', _) := incr_core s r in
  wf s' /\ inited s' = true /\ bmask s' = bmask s /\ length (tbl s') = length (tbl s) /\
  (forall p, In p (positions (bmask s) (spread r)) -> cnt (tbl s') p = Z.min 15 (cnt (tbl s) p + 1)) /\
  (forall p, 0 <= fst p -> 0 <= snd p -> ~ In p (positions (bmask s) (spread r)) -> cnt (tbl s') p = cnt (tbl s) p).
Proof.
  intros Hwf Hi. destruct (Hwf Hi) as (k & Hk & Hlen & Hbm).
  unfold incr_core, incr_fold. rewrite same_counters.
  pose proof (incr_fold_gen (positions (bmask s) (spread r)) (tbl s) false
                (positions_valid _ _ _ k Hk Hlen Hbm) (positions_NoDup _ _)) as G.
  destruct (fold_left _ _ _) as [t' a]. destruct G as (L & C & O & _).
  simpl. repeat split; auto.
  intros _. exists k. simpl. rewrite L. auto.
Qed.

(* cnt never decreases under an increment, for any valid position *)
Lemma incr_core_monotone s r p :
  wf s -> inited s = true -> 0 <= fst p -> 0 <= snd p ->
  cnt (tbl s) p <= cnt (tbl (fst (incr_core s r))) p.
Proof.
  intros Hwf Hi H1 H2. pose proof (incr_core_props s r Hwf Hi) as P.
  destruct (incr_core s r) as [s' a]. destruct P as (_ & _ & _ & _ & C & O). simpl.
  assert (Dec : forall x y : Z * Z, {x = y} + {x <> y}) by (decide equality; apply Z.eq_dec).
  destruct (in_dec Dec p (positions (bmask s) (spread r))) as [Hin|Hnin].
  - rewrite C by assumption. pose proof (count_at_range (tget (tbl s) (fst p)) (snd p) H2). unfold cnt in *. lia.
  - rewrite O by assumption. lia.
Qed.

(* a sampling period: a run of increments none of which triggers the aging step *)
Fixpoint run_period (s : sketch) (rs : list Z) : option sketch :=
  match rs with
  | [] => Some s
  | r :: rs' => if reset_due s r then None else run_period (increment s r) rs'
  end.

Lemma increment_no_reset s r :
  inited s = true -> reset_due s r = false -> increment s r = fst (incr_core s r).
Proof.
  intros Hi Hr. rewrite increment_unfold. rewrite Hi. simpl negb. cbv iota.
  unfold reset_due in Hr. rewrite Hi in Hr. simpl in Hr.
  destruct (incr_core s r) as [s' a]. simpl. rewrite Hr. reflexivity.
Qed.

Definition occ (r : Z) (rs : list Z) : Z := Z.of_nat (count_occ Z.eq_dec rs r).

Lemma positions_nonneg bm bh p : In p (positions bm bh) -> 0 <= snd p.
Proof.
  unfold positions. intros H. apply in_map_iff in H. destruct H as (i & <- & _).
  unfold pos_loop; simpl. apply land15_range.
Qed.

Lemma period_lower_bound rs : forall s s' r,
  wf s -> inited s = true -> run_period s rs = Some s' ->
  wf s' /\ inited s' = true /\ bmask s' = bmask s /\
  (forall p, In p (positions (bmask s) (spread r)) ->
     Z.min 15 (cnt (tbl s) p + occ r rs) <= cnt (tbl s') p).
Proof.
  induction rs as [|x rs IH]; intros s s' r Hwf Hi Hrun; simpl in Hrun.
  - injection Hrun as <-. repeat split; auto. intros p Hp. unfold occ; simpl.
    destruct (Hwf Hi) as (k & Hk & Hlen & Hbm).
    pose proof (positions_valid _ _ _ k Hk Hlen Hbm p Hp) as [_ V].
    pose proof (count_at_range (tget (tbl s) (fst p)) (snd p) V). unfold cnt. lia.
  - destruct (reset_due s x) eqn:Hr; [discriminate|].
    rewrite (increment_no_reset s x Hi Hr) in Hrun.
    pose proof (incr_core_props s x Hwf Hi) as P.
    pose proof (fun p H1 H2 => incr_core_monotone s x p Hwf Hi H1 H2) as M.
    destruct (incr_core s x) as [s1 a1]. simpl in Hrun, M. destruct P as (W1 & I1 & B1 & L1 & C1 & O1).
    destruct (IH s1 s' r W1 I1 Hrun) as (W' & I' & B' & Hb).
    split; [assumption|]. split; [assumption|]. split; [congruence|].
    intros p Hp. rewrite B1 in Hb. specialize (Hb p Hp).
    destruct (Hwf Hi) as (k & Hk & Hlen & Hbm).
    pose proof (positions_valid _ _ _ k Hk Hlen Hbm p Hp) as [[V0 _] V].
    unfold occ in *. simpl count_occ.
    destruct (Z.eq_dec x r) as [->|Hne].
    + rewrite (C1 p Hp) in Hb. rewrite Nat2Z.inj_succ. lia.
    + pose proof (M p V0 V). lia.
Qed.

(* ------------------------------------------------------------------ *)
(* frequency-level statements *)

Lemma frequency_le_15 s r : 0 <= frequency s r <= 15.
Proof.
  destruct (inited s) eqn:Hi.
  - rewrite frequency_as_min by assumption.
    set (ps := positions (bmask s) (spread r)).
    assert (Hin : In (pos_loop (bmask s) (spread r) 0) ps) by (left; reflexivity).
    pose proof (min_cnt_le (tbl s) ps MaxUint64 _ Hin) as U.
    assert (0 <= min_cnt (tbl s) ps MaxUint64).
    { apply min_cnt_ge; [unfold MaxUint64; lia|].
      intros p Hp. unfold cnt. apply count_at_range. eapply positions_nonneg; eassumption. }
    assert (cnt (tbl s) (pos_loop (bmask s) (spread r) 0) <= 15).
    { unfold cnt. apply count_at_range. unfold pos_loop; simpl snd. apply land15_range. }
    lia.
  - unfold frequency. rewrite Hi. simpl. lia.
Qed.

Lemma frequency_uninitialised s r : inited s = false -> frequency s r = 0.
Proof. intros Hi. unfold frequency. rewrite Hi. reflexivity. Qed.

Lemma increment_uninitialised s r : inited s = false -> increment s r = s.
Proof. intros Hi. unfold increment. rewrite Hi. reflexivity. Qed.

Lemma no_undercount s s' rs r :
  wf s -> inited s = true -> run_period s rs = Some s' ->
  Z.min 15 (frequency s r + occ r rs) <= frequency s' r.
Proof.
  intros Hwf Hi Hrun.
  destruct (period_lower_bound rs s s' r Hwf Hi Hrun) as (W' & I' & B' & Hb).
  rewrite (frequency_as_min s' r I'). rewrite B'.
  apply min_cnt_ge.
  - pose proof (frequency_le_15 s r). unfold MaxUint64. lia.
  - intros p Hp. specialize (Hb p Hp).
    rewrite (frequency_as_min s r Hi).
    pose proof (min_cnt_le (tbl s) _ MaxUint64 p Hp). 
    assert (0 <= occ r rs) by (unfold occ; lia). lia.
Qed.

(* ------------------------------------------------------------------ *)
(* the aging step halves every counter *)

Lemma testbit_15 i : 0 <= i -> Z.testbit 15 i = (i <? 4).
Proof.
  intros Hi. change 15 with (Z.ones 4). rewrite Z.testbit_ones_nonneg by lia. reflexivity.
Qed.

Lemma resetMask_bits j i : 0 <= j <= 15 -> 0 <= i < 4 ->
  Z.testbit resetMask (i + 4 * j) = (i <? 3).
Proof.
  intros Hj Hi.
  assert (Cj : j = 0 \/ j = 1 \/ j = 2 \/ j = 3 \/ j = 4 \/ j = 5 \/ j = 6 \/ j = 7 \/ j = 8 \/
               j = 9 \/ j = 10 \/ j = 11 \/ j = 12 \/ j = 13 \/ j = 14 \/ j = 15) by lia.
  assert (Ci : i = 0 \/ i = 1 \/ i = 2 \/ i = 3) by lia.
  repeat (destruct Cj as [->|Cj]); try subst j;
    (destruct Ci as [->|[->|[->| ->]]]; vm_compute; reflexivity).
Qed.

Lemma halve_counter w j : 0 <= j <= 15 ->
  count_at (Z.land (Z.shiftr w 1) resetMask) j = count_at w j / 2.
Proof.
  intros Hj. rewrite <- (Z.shiftr_div_pow2 _ 1) by lia.
  unfold count_at. rewrite shiftl2.
  apply Z.bits_inj'. intros i Hi.
  rewrite Z.shiftr_spec by assumption.
  rewrite !Z.land_spec. rewrite !Z.shiftr_spec by lia. rewrite Z.land_spec. rewrite Z.shiftr_spec by lia.
  rewrite !testbit_15 by lia.
  replace (i + 4 * j + 1) with (i + 1 + 4 * j) by lia.
  destruct (Z_lt_ge_dec i 4) as [Hlt|Hge].
  - rewrite resetMask_bits by lia.
    destruct (Z.testbit w (i + 1 + 4 * j)); simpl; [|reflexivity].
    destruct (i <? 3) eqn:E1; destruct (i + 1 <? 4) eqn:E2; destruct (i <? 4) eqn:E3; try reflexivity; lia.
  - replace (i <? 4) with false by lia. replace (i + 1 <? 4) with false by lia.
    rewrite !andb_false_r. reflexivity.
Qed.

Lemma reset_tbl_nth t i : (i < length t)%nat ->
  nth i (map (fun w => Z.land (Z.shiftr w 1) resetMask) t) 0 = Z.land (Z.shiftr (nth i t 0) 1) resetMask.
Proof.
  intros H. change 0 with ((fun w => Z.land (Z.shiftr w 1) resetMask) 0) at 1.
  apply map_nth.
Qed.

Lemma min_cnt_halved t t' ps : forall init,
  (forall p, In p ps -> cnt t' p = cnt t p / 2) ->
  min_cnt t' ps (init / 2) = min_cnt t ps init / 2.
Proof.
  induction ps as [|q ps IH]; intros init H; [reflexivity|].
  rewrite !min_cnt_cons. rewrite (H q (or_introl eq_refl)).
  replace (Z.min (init / 2) (cnt t q / 2)) with (Z.min init (cnt t q) / 2).
  - apply IH. intros p Hp. apply H. right; assumption.
  - destruct (Z.min_spec init (cnt t q)) as [[L ->]|[L ->]].
    + assert (init / 2 <= cnt t q / 2) by (apply Z.div_le_mono; lia). lia.
    + assert (cnt t q / 2 <= init / 2) by (apply Z.div_le_mono; lia). lia.
Qed.

Lemma reset_halves s r : wf s -> frequency (reset s) r = frequency s r / 2.
Proof.
  intros Hwf. destruct (inited s) eqn:Hi.
  - destruct (Hwf Hi) as (k & Hk & Hlen & Hbm).
    assert (Hi' : inited (reset s) = true) by exact Hi.
    rewrite (frequency_as_min (reset s) r Hi'), (frequency_as_min s r Hi).
    change (bmask (reset s)) with (bmask s).
    set (ps := positions (bmask s) (spread r)).
    assert (H : forall p, In p ps -> cnt (tbl (reset s)) p = cnt (tbl s) p / 2).
    { intros p Hp. pose proof (positions_valid _ _ _ k Hk Hlen Hbm p Hp) as [[V0 V1] V2].
      unfold cnt, tget. simpl tbl. rewrite reset_tbl_nth by lia.
      apply halve_counter.
      unfold ps, positions in Hp. apply in_map_iff in Hp. destruct Hp as (i & <- & _).
      unfold pos_loop; simpl snd. apply land15_range. }
    pose proof (min_cnt_halved (tbl s) (tbl (reset s)) ps 31 H) as E.
    change (31 / 2) with 15 in E.
    (* the initial value is irrelevant once one position exists: both minima are <= 15 *)
    assert (I1 : forall t init, 15 <= init -> min_cnt t ps init = min_cnt t ps 15).
    { intros t init Hinit. unfold ps, positions. cbn [map]. rewrite !min_cnt_cons.
      f_equal. f_equal. f_equal.
      assert (cnt t (pos_loop (bmask s) (spread r) 0) <= 15).
      { unfold cnt. apply count_at_range. unfold pos_loop; simpl snd. apply land15_range. }
      lia. }
    rewrite (I1 (tbl (reset s)) MaxUint64) by (unfold MaxUint64; lia).
    rewrite (I1 (tbl s) MaxUint64) by (unfold MaxUint64; lia).
    rewrite <- (I1 (tbl s) 31) by lia. rewrite <- E. reflexivity.
  - rewrite !frequency_uninitialised by assumption. reflexivity.
Qed.

Lemma reset_size s :
  ssize (reset s) =
  Z.shiftr (wrapu (ssize s - Z.shiftr (sumZ (map (fun w => popcount64 (Z.land w oneMask)) (tbl s))) 2)) 1.
Proof. reflexivity. Qed.

Lemma reset_wf s : wf s -> wf (reset s).
Proof.
  intros Hwf Hi. destruct (Hwf Hi) as (k & Hk & Hlen & Hbm).
  exists k. simpl. rewrite map_length. auto.
Qed.

Lemma increment_wf s r : wf s -> wf (increment s r).
Proof.
  intros Hwf. rewrite increment_unfold.
  destruct (inited s) eqn:Hi; simpl negb; cbv iota; [|assumption].
  pose proof (incr_core_props s r Hwf Hi) as P.
  destruct (incr_core s r) as [s' a]. destruct P as (W & _).
  destruct (a && (ssize s' =? sample s')); [apply reset_wf|]; assumption.
Qed.

(* ------------------------------------------------------------------ *)
(* RoundUpPowerOf264 returns the least power of two >= x *)

Definition smear1 (z k : Z) : Z := Z.lor z (Z.shiftr z k).

Lemma smear_step z n R k R' :
  R' = R + k -> 0 <= k <= R + 1 -> 0 <= R ->
  (forall i, 0 <= i -> n - R <= i <= n -> Z.testbit z i = true) ->
  (forall i, n < i -> Z.testbit z i = false) ->
  (forall i, 0 <= i -> n - R' <= i <= n -> Z.testbit (smear1 z k) i = true) /\
  (forall i, n < i -> Z.testbit (smear1 z k) i = false).
Proof.
  intros -> Hk HR Hset Hclr. unfold smear1. split; intros i H1; [intros H2|].
  - rewrite Z.lor_spec. rewrite Z.shiftr_spec by assumption.
    destruct (Z_lt_ge_dec i (n - R)) as [Hlt|Hge].
    + rewrite (Hset (i + k)) by lia. apply orb_true_r.
    + rewrite (Hset i) by lia. reflexivity.
  - rewrite Z.lor_spec. destruct (Z_lt_ge_dec i 0) as [Hneg|Hpos].
    + rewrite !Z.testbit_neg_r by lia. reflexivity.
    + rewrite Z.shiftr_spec by lia. rewrite !Hclr by lia. reflexivity.
Qed.

Lemma roundup64_spec x : 1 < x <= two63 -> roundup64 x = 2 ^ Z.log2_up x.
Proof.
  intros Hx. unfold roundup64. replace (x =? 0) with false by lia.
  set (y := x - 1). assert (Hy : 0 < y) by (unfold y; lia).
  set (n := Z.log2 y).
  assert (Hn : 0 <= n) by apply Z.log2_nonneg.
  assert (Hn63 : n < 63).
  { unfold n. apply Z.log2_lt_pow2; [assumption|]. unfold y, two63 in *. change (2 ^ 63) with 9223372036854775808. lia. }
  assert (S0 : (forall i, 0 <= i -> n - 0 <= i <= n -> Z.testbit y i = true) /\
               (forall i, n < i -> Z.testbit y i = false)).
  { split.
    - intros i _ Hi. replace i with n by lia. apply Z.bit_log2. assumption.
    - intros i Hi. apply Z.bits_above_log2; [lia|assumption]. }
  destruct S0 as [A0 B0].
  destruct (smear_step y n 0 1 1 ltac:(lia) ltac:(lia) ltac:(lia) A0 B0) as [A1 B1].
  destruct (smear_step _ n 1 2 3 ltac:(lia) ltac:(lia) ltac:(lia) A1 B1) as [A2 B2].
  destruct (smear_step _ n 3 4 7 ltac:(lia) ltac:(lia) ltac:(lia) A2 B2) as [A3 B3].
  destruct (smear_step _ n 7 8 15 ltac:(lia) ltac:(lia) ltac:(lia) A3 B3) as [A4 B4].
  destruct (smear_step _ n 15 16 31 ltac:(lia) ltac:(lia) ltac:(lia) A4 B4) as [A5 B5].
  destruct (smear_step _ n 31 32 63 ltac:(lia) ltac:(lia) ltac:(lia) A5 B5) as [A6 B6].
  unfold smear1 in *.
  set (z := Z.lor _ (Z.shiftr _ 32)) in *.
  assert (Ez : z = Z.ones (n + 1)).
  { apply Z.bits_inj'. intros i Hi.
    destruct (Z_lt_ge_dec n i) as [Hgt|Hle].
    - rewrite B6 by assumption. rewrite Z.ones_spec_high by lia. reflexivity.
    - rewrite A6 by lia. rewrite Z.ones_spec_low by lia. reflexivity. }
  rewrite Ez. rewrite Z.ones_equiv.
  replace (Z.pred (2 ^ (n + 1)) + 1) with (2 ^ (n + 1)) by lia.
  assert (EL : Z.log2_up x = n + 1).
  { rewrite Z.log2_up_eqn by lia. unfold n, y. rewrite <- Z.sub_1_r. lia. }
  rewrite EL.
  apply wrapu_id. unfold in_u64, two64.
  assert (2 ^ (n + 1) <= 2 ^ 63) by (apply Z.pow_le_mono_r; lia).
  assert (0 < 2 ^ (n + 1)) by (apply Z.pow_pos_nonneg; lia).
  change (2 ^ 63) with 9223372036854775808 in *. lia.
Qed.

Lemma roundup64_1 : roundup64 1 = 1.
Proof. reflexivity. Qed.

(* least power of two >= x *)
Lemma roundup64_least x : 1 < x <= two63 ->
  x <= roundup64 x /\ forall k, 0 <= k -> x <= 2 ^ k -> roundup64 x <= 2 ^ k.
Proof.
  intros Hx. rewrite roundup64_spec by assumption.
  pose proof (Z.log2_up_spec x ltac:(lia)) as [L U].
  split; [assumption|]. intros k Hk Hxk.
  apply Z.pow_le_mono_r; [lia|].
  apply Z.log2_up_le_pow2; lia.
Qed.

(* ------------------------------------------------------------------ *)
(* ensureCapacity *)

Lemma ensure_capacity_noop s m :
  m <= Z.of_nat (length (tbl s)) -> ensure_capacity s m = s.
Proof. intros H. unfold ensure_capacity. replace (_ >=? m) with true by lia. reflexivity. Qed.

Lemma ensure_capacity_grows s m :
  Z.of_nat (length (tbl s)) < m -> m <= two63 ->
  let s' := ensure_capacity s m in
  inited s' = true /\ ssize s' = 0 /\
  Z.of_nat (length (tbl s')) = Z.max 8 (2 ^ Z.log2_up m) /\
  Forall (fun w => w = 0) (tbl s') /\ wf s'.
Proof.
  intros Hlt Hm. unfold ensure_capacity. replace (_ >=? m) with false by lia.
  assert (Hm1 : 1 <= m) by lia.
  assert (Er : roundup64 m = 2 ^ Z.log2_up m).
  { destruct (Z.eq_dec m 1) as [->|Hne]; [reflexivity|]. apply roundup64_spec. lia. }
  rewrite Er. cbn [inited ssize tbl bmask].
  set (L := Z.log2_up m). assert (HL : 0 <= L) by apply Z.log2_up_nonneg.
  assert (Hp : 0 < 2 ^ L) by (apply Z.pow_pos_nonneg; lia).
  rewrite repeat_length. rewrite Z2Nat.id by lia.
  split; [reflexivity|]. split; [reflexivity|]. split; [lia|]. split.
  - apply Forall_forall. intros w Hw. apply repeat_spec in Hw. assumption.
  - intros _. cbn [tbl bmask]. rewrite repeat_length. rewrite Z2Nat.id by lia.
    destruct (Z_lt_ge_dec L 3) as [Hs|Hb].
    + exists 0. replace (Z.max (2 ^ L) 8) with 8.
      * repeat split; try lia; reflexivity.
      * assert (2 ^ L <= 2 ^ 3) by (apply Z.pow_le_mono_r; lia). change (2 ^ 3) with 8 in *. lia.
    + exists (L - 3).
      assert (E : 2 ^ L = 8 * 2 ^ (L - 3)).
      { replace L with (3 + (L - 3)) at 1 by lia. rewrite Z.pow_add_r by lia. reflexivity. }
      assert (0 < 2 ^ (L - 3)) by (apply Z.pow_pos_nonneg; lia).
      replace (Z.max (2 ^ L) 8) with (2 ^ L) by lia.
      split; [lia|]. split; [assumption|].
      rewrite Z.shiftr_div_pow2 by lia. change (2 ^ 3) with 8.
      rewrite E. rewrite Z.mul_comm. rewrite Z.div_mul by lia.
      rewrite Z.ones_equiv. lia.
Qed.

Lemma sketch0_wf : wf sketch0.
Proof. intros H. discriminate. Qed.

Lemma ensure_capacity_wf s m : wf s -> m <= two63 -> wf (ensure_capacity s m).
Proof.
  intros Hwf Hm. destruct (Z_lt_ge_dec (Z.of_nat (length (tbl s))) m) as [Hlt|Hge].
  - apply (ensure_capacity_grows s m Hlt Hm).
  - rewrite ensure_capacity_noop by lia. assumption.
Qed.

(* ------------------------------------------------------------------ *)
(* admission *)

Lemma accept_sound s rc rv rnd :
  accept s rc rv rnd = true ->
  frequency s rc > frequency s rv \/ (frequency s rc >= 6 /\ Z.land rnd 127 = 0).
Proof.
  unfold accept, hashdosThreshold. intros H.
  destruct (frequency s rc >? frequency s rv) eqn:E1; [left; lia|].
  destruct (frequency s rc >=? 6) eqn:E2; [|discriminate].
  right. split; [lia|]. apply Z.eqb_eq. assumption.
Qed.

Lemma accept_complete s rc rv rnd :
  frequency s rc > frequency s rv -> accept s rc rv rnd = true.
Proof.
  unfold accept. intros H. replace (frequency s rc >? frequency s rv) with true by lia. reflexivity.
Qed.
