(* Sketch.v — executable model of sketch.go (4-bit count-min sketch on uint64 words),
   the admission test of policy.go, and xmath.RoundUpPowerOf264.  No proofs here (see SketchProofs.v),
   so that the model still extracts when a proof breaks.

   Transcription notes (sketch.go):
     - the hasher (maphash, re-seeded by ensureCapacity) is NOT modelled: every function
       takes the raw 64-bit hash [r] of the key as input; [spread] and [rehash] are modelled.
     - table words are Z in [0, 2^64); uint64 arithmetic that can wrap is wrapped explicitly.
     - [increment] uses the unrolled slot/index derivation, [frequency] the looped one,
       exactly as the code has them. *)
From Otter Require Import Base.

Definition resetMask : Z := 0x7777777777777777.
Definition oneMask   : Z := 0x1111111111111111.

Definition spread (h : Z) : Z :=
  let h := Z.lxor h (Z.shiftr h 17) in
  let h := wrapu (h * 0xed5ad4bb) in
  let h := Z.lxor h (Z.shiftr h 11) in
  let h := wrapu (h * 0xac4c1b51) in
  Z.lxor h (Z.shiftr h 15).

Definition rehash (h : Z) : Z :=
  let h := wrapu (h * 0x31848bab) in
  Z.lxor h (Z.shiftr h 14).

(* xmath.RoundUpPowerOf264 *)
Definition roundup64 (x : Z) : Z :=
  if x =? 0 then 1 else
  let x := x - 1 in
  let x := Z.lor x (Z.shiftr x 1) in
  let x := Z.lor x (Z.shiftr x 2) in
  let x := Z.lor x (Z.shiftr x 4) in
  let x := Z.lor x (Z.shiftr x 8) in
  let x := Z.lor x (Z.shiftr x 16) in
  let x := Z.lor x (Z.shiftr x 32) in
  wrapu (x + 1).

(* xmath.RoundUpPowerOf2 (uint32) *)
Definition roundup32 (x : Z) : Z :=
  if x =? 0 then 1 else
  let x := x - 1 in
  let x := Z.lor x (Z.shiftr x 1) in
  let x := Z.lor x (Z.shiftr x 2) in
  let x := Z.lor x (Z.shiftr x 4) in
  let x := Z.lor x (Z.shiftr x 8) in
  let x := Z.lor x (Z.shiftr x 16) in
  (x + 1) mod 4294967296.

Record sketch := mkSketch {
  tbl    : list Z;   (* s.table *)
  sample : Z;        (* s.sampleSize *)
  bmask  : Z;        (* s.blockMask *)
  ssize  : Z;        (* s.size *)
  inited : bool      (* s.isInitialized *)
}.

Definition sketch0 : sketch := mkSketch [] 0 0 0 false.

Definition tget (t : list Z) (i : Z) : Z := nth (Z.to_nat i) t 0.

(* counter position (slot, index) number i, as frequency's loop derives it *)
Definition pos_loop (bm bh : Z) (i : Z) : Z * Z :=
  let counterHash := rehash bh in
  let block := Z.shiftl (Z.land bh bm) 3 in
  let h := Z.shiftr counterHash (Z.shiftl i 3) in
  let index := Z.land (Z.shiftr h 1) 15 in
  let offset := Z.land h 1 in
  (block + offset + Z.shiftl i 1, index).

(* the four positions as increment's unrolled code derives them *)
Definition pos_unrolled (bm bh : Z) : list (Z * Z) :=
  let counterHash := rehash bh in
  let block := Z.shiftl (Z.land bh bm) 3 in
  let h0 := counterHash in
  let h1 := Z.shiftr counterHash 8 in
  let h2 := Z.shiftr counterHash 16 in
  let h3 := Z.shiftr counterHash 24 in
  let index0 := Z.land (Z.shiftr h0 1) 15 in
  let index1 := Z.land (Z.shiftr h1 1) 15 in
  let index2 := Z.land (Z.shiftr h2 1) 15 in
  let index3 := Z.land (Z.shiftr h3 1) 15 in
  let slot0 := block + Z.land h0 1 in
  let slot1 := block + Z.land h1 1 + 2 in
  let slot2 := block + Z.land h2 1 + 4 in
  let slot3 := block + Z.land h3 1 + 6 in
  [(slot0, index0); (slot1, index1); (slot2, index2); (slot3, index3)].

(* the 4-bit counter number j of word w *)
Definition count_at (w j : Z) : Z := Z.land (Z.shiftr w (Z.shiftl j 2)) 15.

(* s.frequency, given the raw hash r of the key *)
Definition frequency (s : sketch) (r : Z) : Z :=
  if negb (inited s) then 0 else
  let bh := spread r in
  fold_left (fun f i =>
               let '(slot, index) := pos_loop (bmask s) bh i in
               Z.min f (count_at (tget (tbl s) slot) index))
            [0; 1; 2; 3] MaxUint64.

(* s.incrementAt *)
Definition increment_at (t : list Z) (i j : Z) : list Z * bool :=
  let offset := Z.shiftl j 2 in
  let mask := Z.shiftl 15 offset in
  let w := tget t i in
  if Z.land w mask =? mask then (t, false)
  else (upd (Z.to_nat i) (w + Z.shiftl 1 offset) t, true).

Fixpoint popcount_fuel (n : nat) (w : Z) : Z :=
  match n with
  | O => 0
  | S n' => Z.b2z (Z.odd w) + popcount_fuel n' (Z.shiftr w 1)
  end.
Definition popcount64 (w : Z) : Z := popcount_fuel 64 w.

(* s.reset *)
Definition reset (s : sketch) : sketch :=
  let count := sumZ (map (fun w => popcount64 (Z.land w oneMask)) (tbl s)) in
  mkSketch (map (fun w => Z.land (Z.shiftr w 1) resetMask) (tbl s))
           (sample s) (bmask s)
           (Z.shiftr (wrapu (ssize s - Z.shiftr count 2)) 1)
           (inited s).

(* s.increment, given the raw hash r of the key *)
Definition increment (s : sketch) (r : Z) : sketch :=
  if negb (inited s) then s else
  let bh := spread r in
  let '(t, added) :=
    fold_left (fun '(t, added) '(slot, index) =>
                 let '(t', a) := increment_at t slot index in (t', a || added))
              (pos_unrolled (bmask s) bh) (tbl s, false) in
  if added then
    let sz := wrapu (ssize s + 1) in
    let s' := mkSketch t (sample s) (bmask s) sz (inited s) in
    if sz =? sample s then reset s' else s'
  else mkSketch t (sample s) (bmask s) (ssize s) (inited s).

(* s.ensureCapacity *)
Definition ensure_capacity (s : sketch) (maximumSize : Z) : sketch :=
  if Z.of_nat (length (tbl s)) >=? maximumSize then s else
  let newSize := Z.max (roundup64 maximumSize) 8 in
  mkSketch (repeat 0 (Z.to_nat newSize))
           (if maximumSize =? 0 then 10 else wrapu (10 * maximumSize))
           (Z.shiftr newSize 3 - 1)
           0 true.

(* the admission test of policy.go: rnd is the value p.rand() would return (only consulted on the random path) *)
Definition hashdosThreshold : Z := 6.
Definition accept (s : sketch) (rcand rvict rnd : Z) : bool :=
  let victimFreq := frequency s rvict in
  let candidateFreq := frequency s rcand in
  if candidateFreq >? victimFreq then true
  else if candidateFreq >=? hashdosThreshold then Z.land rnd 127 =? 0
  else false.
