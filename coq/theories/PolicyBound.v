(* PolicyBound.v — the eviction loop restores the size bound (C04): when evictFromMain gives up, every
   node still linked has weight zero or the total no longer exceeds the maximum; and the fuel the model
   gives the loop (the code's loop has none) always suffices. *)
From Otter Require Import Base Sketch Policy Wheel Maint PolicyFacts PolicyInv.
From Coq Require Import ZifyBool Lia.
Local Open Scope Z_scope.

Arguments wrapu : simpl never.

(* ---- positions in a deque *)
Fixpoint before (d : list Z) (x : Z) : list Z :=
  match d with [] => [] | h :: t => if h =? x then [] else h :: before t x end.
Fixpoint after (d : list Z) (x : Z) : list Z :=
  match d with [] => [] | h :: t => if h =? x then t else after t x end.

Definition bef (d : list Z) (o : option Z) : list Z := match o with Some x => before d x | None => d end.

Lemma dq_next_after d x : dq_next d x = dq_head (after d x).
Proof. induction d as [|h t IH]; cbn [dq_next after]; [reflexivity|]. destruct (h =? x); [reflexivity|exact IH]. Qed.

Lemma before_incl d x y : In y (before d x) -> In y d.
Proof.
  induction d as [|h t IH]; cbn [before]; [intros []|]. destruct (h =? x); [intros []|].
  intros [<-|H]; [left; reflexivity|right; apply IH; exact H].
Qed.

Lemma before_head d x : dq_head d = Some x -> before d x = [].
Proof. destruct d as [|h t]; cbn [dq_head before]; [discriminate|]. intros H. injection H as ->. rewrite Z.eqb_refl. reflexivity. Qed.

Lemma bef_next d v : NoDup d -> In v d -> bef d (dq_head (after d v)) = before d v ++ [v].
Proof.
  induction d as [|h t IH]; intros Hd Hin; [destruct Hin|]. inversion Hd as [|? ? Hni Hnd]; subst.
  cbn [after before]. destruct (h =? v) eqn:E.
  - assert (h = v) by lia. subst h. cbn [app]. destruct t as [|y t']; cbn [dq_head bef]; [reflexivity|].
    cbn [before]. replace (v =? y) with false by (assert (v <> y) by (intros ->; apply Hni; left; reflexivity); lia).
    rewrite Z.eqb_refl. reflexivity.
  - destruct Hin as [->|Hin]; [lia|]. specialize (IH Hnd Hin). cbn [app].
    destruct (dq_head (after t v)) as [y|] eqn:Ey; cbn [bef] in *.
    + cbn [before]. assert (In y t).
      { destruct (after t v) as [|y' r] eqn:Ea; cbn [dq_head] in Ey; [discriminate|]. injection Ey as ->.
        clear - Ea. revert Ea. induction t as [|a t IHt]; cbn [after]; [discriminate|]. destruct (a =? v); [intros ->; right; left; reflexivity|intros H; right; apply IHt; exact H]. }
      replace (h =? y) with false by (assert (h <> y) by (intros ->; exact (Hni H)); lia). f_equal. exact IH.
    + f_equal. exact IH.
Qed.

Lemma before_delete_incl d c v y : c <> v -> In y (before (dq_delete d c) v) -> In y (before d v).
Proof.
  intros Hne. unfold dq_delete. induction d as [|h t IH]; cbn [filter before]; [intros []|].
  destruct (h =? c) eqn:Ec; cbn [negb].
  - intros H. destruct (h =? v) eqn:Ev; [lia|]. right. apply IH. exact H.
  - cbn [before]. destruct (h =? v); [intros []|]. intros [<-|H]; [left; reflexivity|right; apply IH; exact H].
Qed.

Lemma bef_delete_incl d c o y : o <> Some c -> In y (bef (dq_delete d c) o) -> In y (bef d o).
Proof.
  destruct o as [v|]; cbn [bef].
  - intros Hne. apply before_delete_incl. intros ->. apply Hne. reflexivity.
  - intros _ H. apply in_dq_delete in H. apply H.
Qed.

Lemma bef_delete_self d v : NoDup d -> In v d -> bef (dq_delete d v) (dq_head (after d v)) = before d v.
Proof.
  unfold dq_delete. induction d as [|h t IH]; intros Hd Hin; [destruct Hin|]. inversion Hd as [|? ? Hni Hnd]; subst.
  cbn [filter after before]. destruct (h =? v) eqn:E; cbn [negb].
  - assert (h = v) by lia. subst h.
    assert (F : filter (fun x => negb (x =? v)) t = t) by (apply (dq_delete_notin t v Hni)). rewrite F.
    destruct t as [|y t']; cbn [dq_head bef]; [reflexivity|]. cbn [before]. rewrite Z.eqb_refl. reflexivity.
  - destruct Hin as [->|Hin]; [lia|]. specialize (IH Hnd Hin).
    destruct (dq_head (after t v)) as [y|] eqn:Ey; cbn [bef] in *.
    + cbn [before]. assert (In y t).
      { destruct (after t v) as [|y' r] eqn:Ea; cbn [dq_head] in Ey; [discriminate|]. injection Ey as ->.
        clear - Ea. revert Ea. induction t as [|a t IHt]; cbn [after]; [discriminate|]. destruct (a =? v); [intros ->; right; left; reflexivity|intros H; right; apply IHt; exact H]. }
      replace (h =? y) with false by (assert (h <> y) by (intros ->; exact (Hni H)); lia). f_equal. exact IH.
    + f_equal. exact IH.
Qed.

(* ---- what one iteration does to the victim cursor *)
Definition eff_cand (p : policy) (cu : cursors) : option Z * Z :=
  match c_cand cu with
  | None => if c_cq cu =? QPROBATION then (dq_head (qwin p), QWINDOW) else (None, c_cq cu)
  | Some c => (Some c, c_cq cu)
  end.

Lemma ef_step_victim hashf rnd p cu :
  match ef_step hashf rnd p cu with
  | EfStop => wsize p <= maxi p \/
              (c_victim cu = None /\ fst (eff_cand p cu) = None /\ c_vq cu <> QPROBATION /\ c_vq cu <> QPROTECTED)
  | EfSkip cu' =>
      (c_victim cu = None /\ fst (eff_cand p cu) = None /\
         ((c_vq cu = QPROBATION /\ c_victim cu' = dq_head (qprot p) /\ c_vq cu' = QPROTECTED) \/
          (c_vq cu = QPROTECTED /\ c_victim cu' = dq_head (qwin p) /\ c_vq cu' = QWINDOW)))
      \/ (c_vq cu' = c_vq cu /\ exists v, c_victim cu = Some v /\ pweight (node_of p v) = 0 /\ c_victim cu' = next_in p v)
      \/ (c_vq cu' = c_vq cu /\ c_victim cu' = c_victim cu /\ (forall v, c_victim cu = Some v -> pweight (node_of p v) <> 0))
  | EfEvict id cu' =>
      c_vq cu' = c_vq cu /\ wsize p > maxi p /\ pweight (node_of p id) <> 0 /\
      ((c_victim cu = Some id /\ c_victim cu' = next_in p id) \/ (c_victim cu' = c_victim cu /\ c_victim cu <> Some id))
  end.
Proof.
  unfold ef_step, eff_cand. destruct (negb (wsize p >? maxi p)) eqn:Eg; [left; lia|].
  assert (Hgt : wsize p > maxi p) by lia. clear Eg.
  destruct (match c_cand cu with
            | Some c => (Some c, c_cq cu)
            | None => if c_cq cu =? QPROBATION then (dq_head (qwin p), QWINDOW) else (None, c_cq cu)
            end) as [candidate cq] eqn:Ecand. cbn [fst].
  destruct candidate as [c|]; destruct (c_victim cu) as [v|] eqn:Ev.
  - destruct (pweight (node_of p v) =? 0) eqn:Evz.
    { right. left. cbn [c_vq c_victim]. split; [reflexivity|]. exists v. repeat split; [lia]. }
    destruct (pweight (node_of p c) =? 0) eqn:Ecz.
    { right. right. cbn [c_vq c_victim]. repeat split. intros v' H. injection H as <-. lia. }
    destruct (c =? v) eqn:Ecv.
    { assert (c = v) by lia. subst c. cbn [c_vq c_victim]. repeat split; try assumption; try lia. left. split; reflexivity. }
    assert (Hne : Some v <> Some c) by (intros H; injection H as ->; lia).
    destruct (negb (pstate (node_of p v) =? ALIVE)).
    { cbn [c_vq c_victim]. repeat split; try assumption; try lia. left. split; reflexivity. }
    destruct (negb (pstate (node_of p c) =? ALIVE)).
    { cbn [c_vq c_victim]. repeat split; try assumption; try lia. right. split; [reflexivity|exact Hne]. }
    destruct (pweight (node_of p c) >? maxi p).
    { cbn [c_vq c_victim]. repeat split; try assumption; try lia. right. split; [reflexivity|exact Hne]. }
    destruct (accept _ _ _ _).
    + cbn [c_vq c_victim]. repeat split; try assumption; try lia. left. split; reflexivity.
    + cbn [c_vq c_victim]. repeat split; try assumption; try lia. right. split; [reflexivity|exact Hne].
  - destruct (pweight (node_of p c) =? 0) eqn:Ecz.
    { right. right. cbn [c_vq c_victim]. repeat split. intros v' H. discriminate H. }
    cbn [c_vq c_victim]. repeat split; try assumption; try lia. right. split; [reflexivity|discriminate].
  - destruct (pweight (node_of p v) =? 0) eqn:Evz.
    { right. left. cbn [c_vq c_victim]. split; [reflexivity|]. exists v. repeat split; [lia]. }
    cbn [c_vq c_victim]. repeat split; try assumption; try lia. left. split; reflexivity.
  - destruct (c_vq cu =? QPROBATION) eqn:E1.
    { left. cbn [c_vq c_victim]. repeat split. left. repeat split. lia. }
    destruct (c_vq cu =? QPROTECTED) eqn:E2.
    { left. cbn [c_vq c_victim]. repeat split. right. repeat split. lia. }
    right. repeat split; lia.
Qed.

(* ---- evictNode's effect on the deques *)
Lemma pol_evict_queues p id :
  qwin (pol_evict p id) = (if own_queue p id =? QWINDOW then dq_delete (qwin p) id else qwin p) /\
  qprob (pol_evict p id) = (if own_queue p id =? QWINDOW then qprob p else if own_queue p id =? QPROBATION then dq_delete (qprob p) id else qprob p) /\
  qprot (pol_evict p id) = (if own_queue p id =? QWINDOW then qprot p else if own_queue p id =? QPROBATION then qprot p else dq_delete (qprot p) id) /\
  maxi (pol_evict p id) = maxi p.
Proof.
  assert (MD : forall q i, qwin (make_dead q i) = qwin q /\ qprob (make_dead q i) = qprob q /\ qprot (make_dead q i) = qprot q /\ maxi (make_dead q i) = maxi q).
  { intros q i. unfold make_dead. destruct (pstate (node_of q i) =? DEAD); repeat split. }
  unfold pol_evict, pol_delete.
  destruct (MD (make_dead (set_queue p (own_queue p id) (dq_delete (queue_of p (own_queue p id)) id)) id) id) as (A1 & A2 & A3 & A4).
  destruct (MD (set_queue p (own_queue p id) (dq_delete (queue_of p (own_queue p id)) id)) id) as (B1 & B2 & B3 & B4).
  rewrite A1, A2, A3, A4, B1, B2, B3, B4. unfold set_queue, queue_of.
  destruct (own_queue p id =? QWINDOW); [repeat split|]. destruct (own_queue p id =? QPROBATION); repeat split.
Qed.

Lemma after_incl d x y : In y (after d x) -> In y d.
Proof.
  induction d as [|h t IH]; cbn [after]; [intros []|]. destruct (h =? x); [intros H; right; exact H|intros H; right; apply IH; exact H].
Qed.

Lemma after_not_self d x : NoDup d -> ~ In x (after d x).
Proof.
  induction d as [|h t IH]; cbn [after]; intros Hd; [intros []|]. inversion Hd as [|? ? Hni Hnd]; subst.
  destruct (h =? x) eqn:E; [assert (h = x) by lia; subst h; exact Hni|apply IH; exact Hnd].
Qed.

Lemma head_in (d : list Z) x : dq_head d = Some x -> In x d.
Proof. destruct d as [|h t]; cbn [dq_head]; [discriminate|]. intros H. injection H as ->. left. reflexivity. Qed.

Definition zeros (p : policy) (l : list Z) : Prop := forall y, In y l -> pweight (node_of p y) = 0.

(* everything the victim cursor has passed weighs zero *)
Definition VI (p : policy) (cu : cursors) : Prop :=
  (c_vq cu = QPROBATION /\ zeros p (bef (qprob p) (c_victim cu)) /\ (forall v, c_victim cu = Some v -> In v (qprob p)))
  \/ (c_vq cu = QPROTECTED /\ zeros p (qprob p) /\ zeros p (bef (qprot p) (c_victim cu)) /\ (forall v, c_victim cu = Some v -> In v (qprot p)))
  \/ (c_vq cu = QWINDOW /\ zeros p (qprob p) /\ zeros p (qprot p) /\ zeros p (bef (qwin p) (c_victim cu)) /\ (forall v, c_victim cu = Some v -> In v (qwin p))).

Definition PQ (p : policy) : Prop := PI p (cnew []) (cold []).

Lemma PQ_evict p id : PQ p -> PQ (pol_evict p id).
Proof.
  intros HP. destruct (PIX_pol_evict 0 0 0 _ p _ _ id HP) as [H _].
  apply (PIX_shrink_ex 0 0 0 (fun x => False /\ x <> id)); [intros x nd _ _ _ [[] _]|exact H].
Qed.

Lemma PQ_parts p : PQ p ->
  NoDup (qwin p) /\ NoDup (qprob p) /\ NoDup (qprot p) /\
  (forall x, In x (qwin p) -> ~ In x (qprob p)) /\ (forall x, In x (qwin p) -> ~ In x (qprot p)) /\ (forall x, In x (qprob p) -> ~ In x (qprot p)) /\
  (forall x, In x (qwin p) -> own_queue p x = QWINDOW) /\ (forall x, In x (qprob p) -> own_queue p x = QPROBATION) /\
  (forall x, In x (qprot p) -> own_queue p x = QPROTECTED).
Proof.
  intros HP. pose proof (pi_nodup _ _ _ _ _ _ _ HP) as Nd. apply nodup3_iff in Nd. destruct Nd as (Na & Nb & Nc & Dab & Dac & Dbc).
  repeat split; try assumption; intros x Hx; unfold own_queue;
    [destruct (pi_win _ _ _ _ _ _ _ HP x Hx) as (nd & A & B & _)|destruct (pi_prob _ _ _ _ _ _ _ HP x Hx) as (nd & A & B & _)
    |destruct (pi_prot _ _ _ _ _ _ _ HP x Hx) as (nd & A & B & _)]; rewrite (node_of_some p x nd A), B; reflexivity.
Qed.

Lemma next_in_queue p v : PQ p ->
  (In v (qwin p) -> next_in p v = dq_head (after (qwin p) v)) /\
  (In v (qprob p) -> next_in p v = dq_head (after (qprob p) v)) /\
  (In v (qprot p) -> next_in p v = dq_head (after (qprot p) v)).
Proof.
  intros HP. destruct (PQ_parts p HP) as (_ & _ & _ & Dab & Dac & Dbc & _).
  unfold next_in. repeat split; intros Hin.
  - replace (dq_contains (qwin p) v) with true by (symmetry; apply dq_contains_in; exact Hin). apply dq_next_after.
  - destruct (dq_contains (qwin p) v) eqn:E; [apply dq_contains_in in E; exfalso; exact (Dab v E Hin)|].
    replace (dq_contains (qprob p) v) with true by (symmetry; apply dq_contains_in; exact Hin). apply dq_next_after.
  - destruct (dq_contains (qwin p) v) eqn:E; [apply dq_contains_in in E; exfalso; exact (Dac v E Hin)|].
    destruct (dq_contains (qprob p) v) eqn:E2; [apply dq_contains_in in E2; exfalso; exact (Dbc v E2 Hin)|]. apply dq_next_after.
Qed.

Lemma zeros_evict p id l : zeros p l -> zeros (pol_evict p id) l.
Proof. intros H y Hy. rewrite pol_evict_weight. apply H. exact Hy. Qed.

Lemma zeros_incl p (l l' : list Z) : (forall y, In y l' -> In y l) -> zeros p l -> zeros p l'.
Proof. intros Hi H y Hy. apply H. apply Hi. exact Hy. Qed.

(* a queue after an eviction: the same, or the evicted node deleted *)
Lemma evict_queue_cases p id :
  (qwin (pol_evict p id) = qwin p \/ qwin (pol_evict p id) = dq_delete (qwin p) id) /\
  (qprob (pol_evict p id) = qprob p \/ qprob (pol_evict p id) = dq_delete (qprob p) id) /\
  (qprot (pol_evict p id) = qprot p \/ qprot (pol_evict p id) = dq_delete (qprot p) id).
Proof.
  destruct (pol_evict_queues p id) as (A & B & C & _). rewrite A, B, C.
  destruct (own_queue p id =? QWINDOW); [repeat split; tauto|]. destruct (own_queue p id =? QPROBATION); repeat split; tauto.
Qed.

Lemma queue_sub (d d' : list Z) id : (d' = d \/ d' = dq_delete d id) -> forall y, In y d' -> In y d.
Proof. intros [->| ->] y Hy; [exact Hy|apply in_dq_delete in Hy; apply Hy]. Qed.

Lemma bef_sub (d d' : list Z) id o : (d' = d \/ d' = dq_delete d id) -> o <> Some id -> forall y, In y (bef d' o) -> In y (bef d o).
Proof. intros [->| ->] Hne y Hy; [exact Hy|apply (bef_delete_incl d id o y Hne Hy)]. Qed.

Lemma keep_in (d d' : list Z) id v : (d' = d \/ d' = dq_delete d id) -> v <> id -> In v d -> In v d'.
Proof. intros [->| ->] Hne Hin; [exact Hin|apply in_dq_delete; split; assumption]. Qed.

Section Loop.
Variable hashf : Z -> Z -> Z.
Variable rnd : Z.

Lemma VI_step p cu : PQ p -> VI p cu ->
  match ef_step hashf rnd p cu with
  | EfStop => True
  | EfSkip cu' => VI p cu'
  | EfEvict id cu' => VI (pol_evict p id) cu'
  end.
Proof.
  intros HP HV. pose proof (ef_step_victim hashf rnd p cu) as HS.
  destruct (PQ_parts p HP) as (Na & Nb & Nc & Dab & Dac & Dbc & Ta & Tb & Tc).
  destruct (ef_step hashf rnd p cu) as [|cu'|id cu']; [exact I| |].
  - (* skip *)
    destruct HS as [(Hv & _ & Hst)|[(Hq & v & Hv & Hz & Hn)|(Hq & Hn & _)]].
    + destruct Hst as [(Hvq & Hv' & Hq')|(Hvq & Hv' & Hq')].
      * destruct HV as [(E & Z1 & _)|[(E & _)|(E & _)]]; [|rewrite Hvq in E; discriminate|rewrite Hvq in E; discriminate].
        rewrite Hv in Z1. cbn [bef] in Z1. right. left. split; [exact Hq'|]. split; [exact Z1|]. split.
        -- rewrite Hv'. destruct (dq_head (qprot p)) as [x|] eqn:Eh; cbn [bef]; [rewrite (before_head _ _ Eh); intros y []|].
           destruct (qprot p); [intros y []|discriminate].
        -- intros v Hv2. rewrite Hv' in Hv2. apply head_in. exact Hv2.
      * destruct HV as [(E & _)|[(E & Z1 & Z2 & _)|(E & _)]]; [rewrite Hvq in E; discriminate| |rewrite Hvq in E; discriminate].
        rewrite Hv in Z2. cbn [bef] in Z2. right. right. split; [exact Hq'|]. split; [exact Z1|]. split; [exact Z2|]. split.
        -- rewrite Hv'. destruct (dq_head (qwin p)) as [x|] eqn:Eh; cbn [bef]; [rewrite (before_head _ _ Eh); intros y []|].
           destruct (qwin p); [intros y []|discriminate].
        -- intros v Hv2. rewrite Hv' in Hv2. apply head_in. exact Hv2.
    + (* the victim weighs zero and is passed *)
      destruct (next_in_queue p v HP) as (Nw & Np & Nt).
      destruct HV as [(E & Z1 & Vv)|[(E & Z0 & Z1 & Vv)|(E & Z0 & Z0' & Z1 & Vv)]]; rewrite Hv in *; cbn [bef] in Z1; specialize (Vv v eq_refl).
      * left. rewrite Hq. split; [exact E|]. rewrite Hn, (Np Vv). split.
        -- rewrite (bef_next _ _ Nb Vv). intros y Hy. apply in_app_iff in Hy. destruct Hy as [Hy|[<-|[]]]; [apply Z1; exact Hy|exact Hz].
        -- intros x Hx. apply head_in in Hx. apply (after_incl _ _ _ Hx).
      * right. left. rewrite Hq. split; [exact E|]. split; [exact Z0|]. rewrite Hn, (Nt Vv). split.
        -- rewrite (bef_next _ _ Nc Vv). intros y Hy. apply in_app_iff in Hy. destruct Hy as [Hy|[<-|[]]]; [apply Z1; exact Hy|exact Hz].
        -- intros x Hx. apply head_in in Hx. apply (after_incl _ _ _ Hx).
      * right. right. rewrite Hq. split; [exact E|]. split; [exact Z0|]. split; [exact Z0'|]. rewrite Hn, (Nw Vv). split.
        -- rewrite (bef_next _ _ Na Vv). intros y Hy. apply in_app_iff in Hy. destruct Hy as [Hy|[<-|[]]]; [apply Z1; exact Hy|exact Hz].
        -- intros x Hx. apply head_in in Hx. apply (after_incl _ _ _ Hx).
    + unfold VI in *. rewrite Hq, Hn. exact HV.
  - (* evict *)
    destruct HS as (Hq & _ & _ & Hc).
    destruct (evict_queue_cases p id) as (Cw & Cp & Ct).
    destruct (pol_evict_queues p id) as (Ew & Ep & Et & _).
    destruct Hc as [(Hv & Hn)|(Hn & Hne)].
    + (* the victim itself is evicted; the cursor moves to its successor *)
      destruct (next_in_queue p id HP) as (Nw & Np & Nt).
      destruct HV as [(E & Z1 & Vv)|[(E & Z0 & Z1 & Vv)|(E & Z0 & Z0' & Z1 & Vv)]]; rewrite Hv in *; cbn [bef] in Z1; specialize (Vv id eq_refl).
      * left. rewrite Hq. split; [exact E|]. rewrite Hn, (Np Vv).
        assert (Eq : qprob (pol_evict p id) = dq_delete (qprob p) id).
        { rewrite Ep, (Tb id Vv). reflexivity. }
        rewrite Eq. split.
        -- rewrite (bef_delete_self _ _ Nb Vv). apply zeros_evict. exact Z1.
        -- intros x Hx. apply head_in in Hx. apply in_dq_delete. split; [apply (after_incl _ _ _ Hx)|].
           intros ->. exact (after_not_self _ _ Nb Hx).
      * right. left. rewrite Hq. split; [exact E|].
        split; [apply zeros_evict; apply (zeros_incl p (qprob p)); [apply (queue_sub _ _ id Cp)|exact Z0]|].
        rewrite Hn, (Nt Vv).
        assert (Eq : qprot (pol_evict p id) = dq_delete (qprot p) id).
        { rewrite Et, (Tc id Vv). reflexivity. }
        rewrite Eq. split.
        -- rewrite (bef_delete_self _ _ Nc Vv). apply zeros_evict. exact Z1.
        -- intros x Hx. apply head_in in Hx. apply in_dq_delete. split; [apply (after_incl _ _ _ Hx)|].
           intros ->. exact (after_not_self _ _ Nc Hx).
      * right. right. rewrite Hq. split; [exact E|].
        split; [apply zeros_evict; apply (zeros_incl p (qprob p)); [apply (queue_sub _ _ id Cp)|exact Z0]|].
        split; [apply zeros_evict; apply (zeros_incl p (qprot p)); [apply (queue_sub _ _ id Ct)|exact Z0']|].
        rewrite Hn, (Nw Vv).
        assert (Eq : qwin (pol_evict p id) = dq_delete (qwin p) id).
        { rewrite Ew, (Ta id Vv). reflexivity. }
        rewrite Eq. split.
        -- rewrite (bef_delete_self _ _ Na Vv). apply zeros_evict. exact Z1.
        -- intros x Hx. apply head_in in Hx. apply in_dq_delete. split; [apply (after_incl _ _ _ Hx)|].
           intros ->. exact (after_not_self _ _ Na Hx).
    + (* another node is evicted; the victim cursor stays *)
      destruct HV as [(E & Z1 & Vv)|[(E & Z0 & Z1 & Vv)|(E & Z0 & Z0' & Z1 & Vv)]].
      * left. rewrite Hq, Hn. split; [exact E|]. split.
        -- apply zeros_evict. apply (zeros_incl p (bef (qprob p) (c_victim cu))); [apply (bef_sub _ _ id _ Cp Hne)|exact Z1].
        -- intros v Hv. apply (keep_in _ _ id v Cp); [intros ->; exact (Hne Hv)|apply Vv; exact Hv].
      * right. left. rewrite Hq, Hn. split; [exact E|].
        split; [apply zeros_evict; apply (zeros_incl p (qprob p)); [apply (queue_sub _ _ id Cp)|exact Z0]|]. split.
        -- apply zeros_evict. apply (zeros_incl p (bef (qprot p) (c_victim cu))); [apply (bef_sub _ _ id _ Ct Hne)|exact Z1].
        -- intros v Hv. apply (keep_in _ _ id v Ct); [intros ->; exact (Hne Hv)|apply Vv; exact Hv].
      * right. right. rewrite Hq, Hn. split; [exact E|].
        split; [apply zeros_evict; apply (zeros_incl p (qprob p)); [apply (queue_sub _ _ id Cp)|exact Z0]|].
        split; [apply zeros_evict; apply (zeros_incl p (qprot p)); [apply (queue_sub _ _ id Ct)|exact Z0']|]. split.
        -- apply zeros_evict. apply (zeros_incl p (bef (qwin p) (c_victim cu))); [apply (bef_sub _ _ id _ Cw Hne)|exact Z1].
        -- intros v Hv. apply (keep_in _ _ id v Cw); [intros ->; exact (Hne Hv)|apply Vv; exact Hv].
Qed.

(* did the loop end by its own condition within the fuel? *)
Fixpoint stops (fuel : nat) (p : policy) (cu : cursors) : bool :=
  match fuel with
  | O => false
  | S f => match ef_step hashf rnd p cu with
           | EfStop => true
           | EfSkip cu' => stops f p cu'
           | EfEvict id cu' => stops f (pol_evict p id) cu'
           end
  end.

Lemma evict_main_stops fuel : forall p cu acc, PQ p -> VI p cu -> stops fuel p cu = true ->
  let p' := fst (evict_from_main fuel hashf rnd p cu acc) in
  PQ p' /\ (wsize p' <= maxi p' \/ zeros p' (qwin p' ++ qprob p' ++ qprot p')).
Proof.
  induction fuel as [|f IH]; intros p cu acc HP HV Hs; cbn [stops] in Hs; [discriminate|]. cbn [evict_from_main].
  pose proof (VI_step p cu HP HV) as Hstep. pose proof (ef_step_victim hashf rnd p cu) as Hv.
  destruct (ef_step hashf rnd p cu) as [|cu'|id cu'].
  - cbn [fst]. split; [exact HP|]. destruct Hv as [H|(Hvn & _ & N1 & N2)]; [left; exact H|right].
    destruct HV as [(E & _)|[(E & _)|(E & Z0 & Z0' & Z1 & _)]]; [contradiction|contradiction|].
    rewrite Hvn in Z1. cbn [bef] in Z1. intros y Hy. rewrite !in_app_iff in Hy. destruct Hy as [Hy|[Hy|Hy]]; [apply Z1|apply Z0|apply Z0']; exact Hy.
  - apply IH; assumption.
  - apply IH; [apply PQ_evict; exact HP|exact Hstep|exact Hs].
Qed.
End Loop.

(* ---- the loop terminates within its fuel: a measure that every iteration decreases *)
Definition qof (p : policy) (x : Z) : list Z :=
  if dq_contains (qwin p) x then qwin p else if dq_contains (qprob p) x then qprob p else qprot p.

Lemma next_in_qof p x : next_in p x = dq_head (after (qof p x) x).
Proof. unfold next_in, qof. destruct (dq_contains (qwin p) x); [|destruct (dq_contains (qprob p) x)]; apply dq_next_after. Qed.

Definition rem (p : policy) (o : option Z) : nat :=
  match o with Some x => S (length (after (qof p x) x)) | None => O end.
Definition vstage (p : policy) (vq : Z) : nat :=
  if vq =? QPROBATION then (length (qprot p) + length (qwin p) + 2)%nat
  else if vq =? QPROTECTED then (length (qwin p) + 1)%nat else O.
Definition cstage (p : policy) (cq : Z) : nat := if cq =? QPROBATION then (length (qwin p) + 1)%nat else O.
Definition mu (p : policy) (cu : cursors) : nat :=
  (rem p (c_victim cu) + vstage p (c_vq cu) + rem p (c_cand cu) + cstage p (c_cq cu))%nat.

Lemma after_head_tail d v v' r : NoDup d -> after d v = v' :: r -> after d v' = r.
Proof.
  induction d as [|h t IH]; cbn [after]; intros Hd; [discriminate|]. inversion Hd as [|? ? Hni Hnd]; subst.
  destruct (h =? v) eqn:E.
  - intros ->. assert (h <> v') by (intros ->; apply Hni; left; reflexivity). replace (h =? v') with false by lia.
    cbn [after]. rewrite Z.eqb_refl. reflexivity.
  - intros H. assert (In v' t) by (apply (after_incl t v); rewrite H; left; reflexivity).
    assert (h <> v') by (intros ->; exact (Hni H0)). replace (h =? v') with false by lia. apply IH; assumption.
Qed.

Lemma qof_cases p x : PQ p ->
  (In x (qwin p) /\ qof p x = qwin p) \/ (In x (qprob p) /\ qof p x = qprob p) \/ (In x (qprot p) /\ qof p x = qprot p) \/
  (~ In x (qwin p) /\ ~ In x (qprob p) /\ ~ In x (qprot p) /\ qof p x = qprot p).
Proof.
  intros HP. unfold qof.
  destruct (dq_contains (qwin p) x) eqn:E1; [left; split; [apply dq_contains_in; exact E1|reflexivity]|].
  destruct (dq_contains (qprob p) x) eqn:E2; [right; left; split; [apply dq_contains_in; exact E2|reflexivity]|].
  assert (N1 : ~ In x (qwin p)) by (intros H; apply dq_contains_in in H; congruence).
  assert (N2 : ~ In x (qprob p)) by (intros H; apply dq_contains_in in H; congruence).
  destruct (in_dec Z.eq_dec x (qprot p)) as [I|N3]; [right; right; left; split; [exact I|reflexivity]|].
  right; right; right. repeat split; assumption.
Qed.

Lemma qof_same_queue p x y : PQ p -> In y (qof p x) -> qof p y = qof p x.
Proof.
  intros HP Hy. destruct (PQ_parts p HP) as (_ & _ & _ & Dab & Dac & Dbc & _).
  destruct (qof_cases p x HP) as [[_ E]|[[_ E]|[[_ E]|(_ & _ & _ & E)]]]; rewrite E in *; unfold qof.
  - replace (dq_contains (qwin p) y) with true by (symmetry; apply dq_contains_in; exact Hy). reflexivity.
  - destruct (dq_contains (qwin p) y) eqn:E1; [apply dq_contains_in in E1; exfalso; exact (Dab y E1 Hy)|].
    replace (dq_contains (qprob p) y) with true by (symmetry; apply dq_contains_in; exact Hy). reflexivity.
  - destruct (dq_contains (qwin p) y) eqn:E1; [apply dq_contains_in in E1; exfalso; exact (Dac y E1 Hy)|].
    destruct (dq_contains (qprob p) y) eqn:E2; [apply dq_contains_in in E2; exfalso; exact (Dbc y E2 Hy)|]. reflexivity.
  - destruct (dq_contains (qwin p) y) eqn:E1; [apply dq_contains_in in E1; exfalso; exact (Dac y E1 Hy)|].
    destruct (dq_contains (qprob p) y) eqn:E2; [apply dq_contains_in in E2; exfalso; exact (Dbc y E2 Hy)|]. reflexivity.
Qed.

Lemma qof_nodup p x : PQ p -> NoDup (qof p x).
Proof.
  intros HP. destruct (PQ_parts p HP) as (Na & Nb & Nc & _). unfold qof.
  destruct (dq_contains (qwin p) x); [exact Na|]. destruct (dq_contains (qprob p) x); assumption.
Qed.

(* advancing a cursor *)
Lemma rem_next p x : PQ p -> (rem p (next_in p x) < rem p (Some x))%nat.
Proof.
  intros HP. rewrite next_in_qof. cbn [rem]. destruct (after (qof p x) x) as [|y r] eqn:Ea; cbn [dq_head rem length]; [lia|].
  assert (Hy : In y (qof p x)) by (apply (after_incl _ x); rewrite Ea; left; reflexivity).
  rewrite (qof_same_queue p x y HP Hy). rewrite (after_head_tail _ _ _ _ (qof_nodup p x HP) Ea). lia.
Qed.

Lemma after_delete_len d c x : x <> c -> (length (after (dq_delete d c) x) <= length (after d x))%nat.
Proof.
  intros Hne. unfold dq_delete. induction d as [|h t IH]; cbn [filter after]; [lia|].
  destruct (h =? c) eqn:Ec; cbn [negb].
  - replace (h =? x) with false by lia. exact IH.
  - cbn [after]. destruct (h =? x); [|exact IH].
    clear. induction t as [|a t IHt]; cbn [filter length]; [lia|]. destruct (negb (a =? c)); cbn [length]; lia.
Qed.

Lemma delete_len d c : (length (dq_delete d c) <= length d)%nat.
Proof. unfold dq_delete. induction d as [|a t IHt]; cbn [filter length]; [lia|]. destruct (negb (a =? c)); cbn [length]; lia. Qed.

Lemma contains_delete d c x : x <> c -> dq_contains (dq_delete d c) x = dq_contains d x.
Proof.
  intros Hne. destruct (dq_contains d x) eqn:E.
  - apply dq_contains_in. apply in_dq_delete. split; [apply dq_contains_in; exact E|exact Hne].
  - destruct (dq_contains (dq_delete d c) x) eqn:E2; [|reflexivity]. apply dq_contains_in in E2. apply in_dq_delete in E2.
    destruct E2 as [E2 _]. apply dq_contains_in in E2. congruence.
Qed.

(* a cursor that is not the evicted node does not get further from the end *)
Lemma rem_evict_other p id o : o <> Some id -> (rem (pol_evict p id) o <= rem p o)%nat.
Proof.
  destruct o as [x|]; [|intros _; cbn [rem]; lia]. intros Hne. assert (N : x <> id) by (intros ->; apply Hne; reflexivity).
  cbn [rem]. apply le_n_S. unfold qof.
  destruct (evict_queue_cases p id) as (Cw & Cp & Ct).
  assert (Ew : dq_contains (qwin (pol_evict p id)) x = dq_contains (qwin p) x) by (destruct Cw as [-> | ->]; [reflexivity|apply contains_delete; exact N]).
  assert (Ep : dq_contains (qprob (pol_evict p id)) x = dq_contains (qprob p) x) by (destruct Cp as [-> | ->]; [reflexivity|apply contains_delete; exact N]).
  rewrite Ew, Ep.
  destruct (dq_contains (qwin p) x); [destruct Cw as [-> | ->]; [lia|apply after_delete_len; exact N]|].
  destruct (dq_contains (qprob p) x); [destruct Cp as [-> | ->]; [lia|apply after_delete_len; exact N]|].
  destruct Ct as [-> | ->]; [lia|apply after_delete_len; exact N].
Qed.

Lemma evict_unlinks p id : PQ p -> ~ In id (qwin (pol_evict p id)) /\ ~ In id (qprob (pol_evict p id)) /\ ~ In id (qprot (pol_evict p id)).
Proof.
  intros HP. destruct (PIX_pol_evict 0 0 0 _ p _ _ id HP) as [_ H]. unfold linked in H. tauto.
Qed.

(* the successor (computed before the eviction) of any cursor, seen after the eviction *)
Lemma rem_evict_next p id x : PQ p -> (rem (pol_evict p id) (next_in p x) < rem p (Some x))%nat.
Proof.
  intros HP. pose proof (rem_next p x HP) as H1.
  destruct (next_in p x) as [y|] eqn:En; [|cbn [rem]; lia].
  destruct (Z.eq_dec y id) as [->|N].
  - (* the successor is the evicted node itself: afterwards it is linked nowhere *)
    destruct (evict_unlinks p id HP) as (A & B & C).
    assert (R : rem (pol_evict p id) (Some id) = 1%nat).
    { cbn [rem]. unfold qof.
      destruct (dq_contains (qwin (pol_evict p id)) id) eqn:E1; [apply dq_contains_in in E1; contradiction|].
      destruct (dq_contains (qprob (pol_evict p id)) id) eqn:E2; [apply dq_contains_in in E2; contradiction|].
      assert (F : forall d, ~ In id d -> after d id = []).
      { induction d as [|h t IH]; cbn [after]; [reflexivity|]. intros Hn. destruct (h =? id) eqn:E; [exfalso; apply Hn; left; lia|apply IH; intros X; apply Hn; right; exact X]. }
      rewrite (F _ C). reflexivity. }
    rewrite R. cbn [rem] in H1 |- *. lia.
  - pose proof (rem_evict_other p id (Some y) ltac:(intros H; injection H as ->; contradiction)). lia.
Qed.

Lemma stage_evict p id q : (vstage (pol_evict p id) q <= vstage p q)%nat /\ (cstage (pol_evict p id) q <= cstage p q)%nat.
Proof.
  destruct (evict_queue_cases p id) as (Cw & Cp & Ct).
  assert (Lw : (length (qwin (pol_evict p id)) <= length (qwin p))%nat) by (destruct Cw as [-> | ->]; [lia|apply delete_len]).
  assert (Lt : (length (qprot (pol_evict p id)) <= length (qprot p))%nat) by (destruct Ct as [-> | ->]; [lia|apply delete_len]).
  unfold vstage, cstage. destruct (q =? QPROBATION); [split; lia|]. destruct (q =? QPROTECTED); split; lia.
Qed.

Lemma rem_head p d h : PQ p -> (d = qwin p \/ d = qprot p) -> dq_head d = Some h -> rem p (Some h) = length d.
Proof.
  intros HP Hd Hh. destruct d as [|a t]; cbn [dq_head] in Hh; [discriminate|]. injection Hh as ->.
  assert (Hin : In h (h :: t)) by (left; reflexivity).
  cbn [rem]. assert (Q : qof p h = h :: t).
  { destruct (PQ_parts p HP) as (_ & _ & _ & Dab & Dac & Dbc & _). unfold qof. destruct Hd as [E|E]; rewrite E in *.
    - replace (dq_contains (qwin p) h) with true by (symmetry; apply dq_contains_in; exact Hin). reflexivity.
    - destruct (dq_contains (qwin p) h) eqn:E1; [apply dq_contains_in in E1; exfalso; exact (Dac h E1 Hin)|].
      destruct (dq_contains (qprob p) h) eqn:E2; [apply dq_contains_in in E2; exfalso; exact (Dbc h E2 Hin)|]. reflexivity. }
  rewrite Q. cbn [after]. rewrite Z.eqb_refl. reflexivity.
Qed.

Section Measure.
Variable hashf : Z -> Z -> Z.
Variable rnd : Z.

Lemma eff_le p cu : PQ p ->
  (rem p (fst (eff_cand p cu)) + cstage p (snd (eff_cand p cu)) <= rem p (c_cand cu) + cstage p (c_cq cu))%nat.
Proof.
  intros HP. unfold eff_cand. destruct (c_cand cu) as [c|]; cbn [fst snd]; [lia|].
  destruct (c_cq cu =? QPROBATION) eqn:E; cbn [fst snd]; [|lia].
  unfold cstage at 2. rewrite E. unfold cstage. change (QWINDOW =? QPROBATION) with false.
  destruct (dq_head (qwin p)) as [h|] eqn:Eh; [rewrite (rem_head p (qwin p) h HP (or_introl eq_refl) Eh); lia|cbn [rem]; lia].
Qed.

Lemma mu_decreases p cu : PQ p ->
  match ef_step hashf rnd p cu with
  | EfStop => True
  | EfSkip cu' => (mu p cu' < mu p cu)%nat
  | EfEvict id cu' => (mu (pol_evict p id) cu' < mu p cu)%nat
  end.
Proof.
  intros HP. pose proof (eff_le p cu HP) as HE. unfold eff_cand in HE. unfold ef_step, mu.
  destruct (negb (wsize p >? maxi p)); [exact I|].
  destruct (match c_cand cu with
            | Some c => (Some c, c_cq cu)
            | None => if c_cq cu =? QPROBATION then (dq_head (qwin p), QWINDOW) else (None, c_cq cu)
            end) as [candidate cq]. cbn [fst snd] in HE.
  assert (EV : forall id o, o <> Some id -> (rem (pol_evict p id) o <= rem p o)%nat) by (intros; apply rem_evict_other; assumption).
  assert (EN : forall id x, (rem (pol_evict p id) (next_in p x) < rem p (Some x))%nat) by (intros; apply rem_evict_next; exact HP).
  assert (ES : forall id q, (vstage (pol_evict p id) q <= vstage p q)%nat /\ (cstage (pol_evict p id) q <= cstage p q)%nat) by (intros; apply stage_evict).
  destruct candidate as [c|]; destruct (c_victim cu) as [v|] eqn:Ev.
  - destruct (pweight (node_of p v) =? 0).
    { cbn [c_victim c_vq c_cand c_cq]. pose proof (rem_next p v HP). lia. }
    destruct (pweight (node_of p c) =? 0).
    { cbn [c_victim c_vq c_cand c_cq]. pose proof (rem_next p c HP). lia. }
    destruct (c =? v) eqn:Ecv.
    { assert (c = v) by lia. subst c. cbn [c_victim c_vq c_cand c_cq rem].
      pose proof (EN v v). destruct (ES v (c_vq cu)) as [S1 _]. destruct (ES v cq) as [_ S2]. cbn [rem] in *. lia. }
    assert (Nvc : Some v <> Some c) by (intros H; injection H as ->; lia).
    assert (Ncv : Some c <> Some v) by (intros H; injection H as ->; lia).
    destruct (negb (pstate (node_of p v) =? ALIVE)).
    { cbn [c_victim c_vq c_cand c_cq]. pose proof (EN v v). pose proof (EV v (Some c) Ncv).
      destruct (ES v (c_vq cu)) as [S1 _]. destruct (ES v cq) as [_ S2]. lia. }
    destruct (negb (pstate (node_of p c) =? ALIVE)).
    { cbn [c_victim c_vq c_cand c_cq]. pose proof (EN c c). pose proof (EV c (Some v) Nvc).
      destruct (ES c (c_vq cu)) as [S1 _]. destruct (ES c cq) as [_ S2]. lia. }
    destruct (pweight (node_of p c) >? maxi p).
    { cbn [c_victim c_vq c_cand c_cq]. pose proof (EN c c). pose proof (EV c (Some v) Nvc).
      destruct (ES c (c_vq cu)) as [S1 _]. destruct (ES c cq) as [_ S2]. lia. }
    destruct (accept _ _ _ _).
    + cbn [c_victim c_vq c_cand c_cq]. pose proof (EN v v). pose proof (EN v c).
      destruct (ES v (c_vq cu)) as [S1 _]. destruct (ES v cq) as [_ S2]. lia.
    + cbn [c_victim c_vq c_cand c_cq]. pose proof (EN c c). pose proof (EV c (Some v) Nvc).
      destruct (ES c (c_vq cu)) as [S1 _]. destruct (ES c cq) as [_ S2]. lia.
  - destruct (pweight (node_of p c) =? 0).
    { cbn [c_victim c_vq c_cand c_cq]. pose proof (rem_next p c HP). cbn [rem] in *. lia. }
    cbn [c_victim c_vq c_cand c_cq]. pose proof (EN c c).
    destruct (ES c (c_vq cu)) as [S1 _]. destruct (ES c cq) as [_ S2]. cbn [rem] in *. lia.
  - destruct (pweight (node_of p v) =? 0).
    { cbn [c_victim c_vq c_cand c_cq]. pose proof (rem_next p v HP). cbn [rem] in *. lia. }
    cbn [c_victim c_vq c_cand c_cq]. pose proof (EN v v).
    destruct (ES v (c_vq cu)) as [S1 _]. destruct (ES v cq) as [_ S2]. cbn [rem] in *. lia.
  - destruct (c_vq cu =? QPROBATION) eqn:E1.
    { cbn [c_victim c_vq c_cand c_cq rem]. unfold vstage at 2. rewrite E1. unfold vstage. change (QPROTECTED =? QPROBATION) with false. change (QPROTECTED =? QPROTECTED) with true.
      destruct (dq_head (qprot p)) as [h|] eqn:Eh; [rewrite (rem_head p (qprot p) h HP (or_intror eq_refl) Eh)|]; cbn [rem] in *; lia. }
    destruct (c_vq cu =? QPROTECTED) eqn:E2; [|exact I].
    cbn [c_victim c_vq c_cand c_cq rem]. unfold vstage at 2. rewrite E1, E2. unfold vstage. change (QWINDOW =? QPROBATION) with false. change (QWINDOW =? QPROTECTED) with false.
    destruct (dq_head (qwin p)) as [h|] eqn:Eh; [rewrite (rem_head p (qwin p) h HP (or_introl eq_refl) Eh)|]; cbn [rem] in *; lia.
Qed.

Lemma stops_enough fuel : forall p cu, PQ p -> (mu p cu < fuel)%nat -> stops hashf rnd fuel p cu = true.
Proof.
  induction fuel as [|f IH]; intros p cu HP Hm; [lia|]. cbn [stops].
  pose proof (mu_decreases p cu HP) as Hd.
  destruct (ef_step hashf rnd p cu) as [|cu'|id cu']; [reflexivity|apply IH; [exact HP|lia]|].
  apply IH; [apply PQ_evict; exact HP|lia].
Qed.
End Measure.

(* ---- evictNodes restores the bound *)
Lemma sset_length_present st id n o : sget st id = Some o -> length (sset st id n) = length st.
Proof.
  induction st as [|[i m] st IH]; cbn [sget sset]; [discriminate|].
  destruct (i =? id); cbn [length]; [reflexivity|intros H; rewrite IH by exact H; reflexivity].
Qed.

Lemma evict_from_window_store cn co fuel : forall p cursor first,
  PIX 0 0 0 (fun _ => False) p cn co -> (forall id, cursor = Some id -> In id (qwin p)) ->
  store_size (fst (evict_from_window fuel p cursor first)) = store_size p /\
  maxi (fst (evict_from_window fuel p cursor first)) = maxi p.
Proof.
  induction fuel as [|f IH]; intros p cursor first HP Hcur; cbn [evict_from_window]; [split; reflexivity|].
  destruct (wwsize p >? wmax p); [|split; reflexivity].
  destruct cursor as [id|]; [|split; reflexivity].
  specialize (Hcur id eq_refl).
  destruct (pi_win _ _ _ _ _ _ _ HP id Hcur) as (nd & Es & Hq & Hd & Hc).
  pose proof (pi_nodup _ _ _ _ _ _ _ HP) as Nd. apply nodup3_iff in Nd. destruct Nd as (Na & _).
  rewrite (node_of_some p id nd Es).
  destruct (negb (pweight nd =? 0)) eqn:Ew.
  - (* the moved state satisfies the invariant again (PolicyInv), and its store has the same size *)
    assert (Hl : linked p id) by (left; exact Hcur).
    pose proof (PIX_move 0 0 0 _ p cn co id nd QPROBATION HP Es Hl ltac:(right; left; reflexivity) ltac:(rewrite Hq; discriminate)) as HM.
    cbv zeta in HM.
    destruct (window_to_probation_shape p id nd Es Hq) as (E1 & E2 & E3 & E4 & E5 & E6 & E7 & E8 & E9 & E10). cbv zeta in E1, E2, E3, E4, E5, E6, E7, E8, E9, E10.
    set (p3 := with_sizes _ _ _ _) in *.
    assert (H3 : PIX 0 0 0 (fun _ => False) p3 cn co).
    { match type of HM with PIX _ _ _ _ ?pf _ _ => apply (PIX_counters _ _ _ _ _ _ _ pf) with (8 := HM); try assumption end.
      - intros S HS. rewrite E5. exact HS.
      - intros S HS. rewrite E6, HS, wrapu_sub_l. f_equal. rewrite Hq. unfold tagw. cbn. lia.
      - intros S HS. rewrite E7, HS. f_equal. rewrite Hq. unfold tagw. cbn. lia. }
    destruct (IH p3 (dq_next (qwin p) id) (match first with None => Some id | _ => first end) H3) as [A B].
    + intros x Hx. destruct (dq_next_in (qwin p) id x Na Hx) as [X Y].
      unfold p3, set_queue_of, set_node, with_store, with_queues, with_sizes. cbn [qwin]. apply in_dq_delete. split; assumption.
    + rewrite A, B. split; [|exact E9].
      unfold store_size, p3, set_queue_of, set_node, with_store, with_queues, with_sizes. cbn [store].
      rewrite (node_of_some p id nd Es). apply (sset_length_present _ _ _ nd Es).
  - apply IH; [exact HP|]. intros x Hx. apply (dq_next_in (qwin p) id x Na Hx).
Qed.

Lemma rem_le p o : PQ p -> (rem p o <= length (qwin p) + length (qprob p) + length (qprot p) + 1)%nat.
Proof.
  intros HP. destruct o as [x|]; cbn [rem]; [|lia].
  assert (L : forall d y, (length (after d y) <= length d)%nat).
  { induction d as [|h t IH]; intros y; cbn [after length]; [lia|]. destruct (h =? y); [lia|specialize (IH y); lia]. }
  unfold qof. destruct (dq_contains (qwin p) x); [pose proof (L (qwin p) x); lia|].
  destruct (dq_contains (qprob p) x); [pose proof (L (qprob p) x); lia|pose proof (L (qprot p) x); lia].
Qed.

Lemma linked_le_store p : PQ p -> (length (qwin p) + length (qprob p) + length (qprot p) <= store_size p)%nat.
Proof.
  intros HP. pose proof (pi_nodup _ _ _ _ _ _ _ HP) as Nd. unfold store_size.
  replace (length (qwin p) + length (qprob p) + length (qprot p))%nat with (length (qwin p ++ qprob p ++ qprot p)) by (rewrite !app_length; lia).
  rewrite <- (map_length fst (store p)). apply NoDup_incl_length; [exact Nd|].
  intros x Hx. rewrite !in_app_iff in Hx.
  destruct Hx as [Hx|[Hx|Hx]];
    [destruct (pi_win _ _ _ _ _ _ _ HP x Hx) as (nd & A & _)|destruct (pi_prob _ _ _ _ _ _ _ HP x Hx) as (nd & A & _)|destruct (pi_prot _ _ _ _ _ _ _ HP x Hx) as (nd & A & _)];
    apply (sget_in_keys _ _ _ A).
Qed.

Theorem pol_evict_nodes_bound hashf rnd p : PQ p ->
  let p' := fst (pol_evict_nodes hashf rnd p) in
  PQ p' /\ (wsize p' <= maxi p' \/ wsize p' = 0).
Proof.
  intros HP. unfold pol_evict_nodes.
  pose proof (PIX_evict_from_window 0 0 0 _ _ _ (2 * store_size p + 8) p (dq_head (qwin p)) None HP
                ltac:(intros id H; apply dq_head_in; exact H)) as H1.
  destruct (evict_from_window_store _ _ (2 * store_size p + 8) p (dq_head (qwin p)) None HP
                ltac:(intros id H; apply dq_head_in; exact H)) as [Hs _].
  destruct (evict_from_window (2 * store_size p + 8) p (dq_head (qwin p)) None) as [p1 first]. cbn [fst] in H1, Hs.
  set (cu0 := mkCur (dq_head (qprob p1)) first QPROBATION QPROBATION).
  assert (HV : VI p1 cu0).
  { left. cbn [c_vq c_victim cu0]. split; [reflexivity|]. split.
    - destruct (dq_head (qprob p1)) as [x|] eqn:Eh; cbn [bef]; [rewrite (before_head _ _ Eh); intros y []|].
      destruct (qprob p1); [intros y []|discriminate].
    - intros v Hv. apply head_in. exact Hv. }
  assert (Hmu : (mu p1 cu0 < 4 * store_size p + 16)%nat).
  { unfold mu, cu0. cbn [c_victim c_vq c_cand c_cq]. unfold vstage, cstage. change (QPROBATION =? QPROBATION) with true. cbv iota.
    pose proof (rem_le p1 (dq_head (qprob p1)) H1). pose proof (rem_le p1 first H1). pose proof (linked_le_store p1 H1). lia. }
  pose proof (stops_enough hashf rnd (4 * store_size p + 16) p1 cu0 H1 Hmu) as Hst.
  destruct (evict_main_stops hashf rnd (4 * store_size p + 16) p1 cu0 [] H1 HV Hst) as [HP' Hb]. cbv zeta in HP', Hb.
  split; [exact HP'|]. destruct Hb as [Hb|Hz]; [left; exact Hb|right].
  rewrite (quiescent_weighted_size _ HP').
  assert (Z0 : sum_weights (fst (evict_from_main (4 * store_size p + 16) hashf rnd p1 cu0 []))
                 (qwin (fst (evict_from_main (4 * store_size p + 16) hashf rnd p1 cu0 [])) ++
                  qprob (fst (evict_from_main (4 * store_size p + 16) hashf rnd p1 cu0 [])) ++
                  qprot (fst (evict_from_main (4 * store_size p + 16) hashf rnd p1 cu0 []))) = 0).
  { unfold sum_weights. set (pp := fst _) in *. revert Hz. generalize (qwin pp ++ qprob pp ++ qprot pp). intros l Hz.
    induction l as [|x l IH]; cbn [map sumZ fold_right]; [reflexivity|].
    rewrite (Hz x (or_introl eq_refl)). unfold sumZ in IH. rewrite IH; [reflexivity|]. intros y Hy. apply Hz. right. exact Hy. }
  rewrite Z0. reflexivity.
Qed.

Lemma demote_loop_sizes fuel : forall p pws, wsize (fst (demote_loop fuel p pws)) = wsize p /\ maxi (fst (demote_loop fuel p pws)) = maxi p.
Proof.
  induction fuel as [|f IH]; intros p pws; cbn [demote_loop]; [split; reflexivity|].
  destruct (pws <=? pmax p); [split; reflexivity|]. destruct (qprot p) as [|id rest]; [split; reflexivity|].
  match goal with |- context [demote_loop f ?q ?w] => destruct (IH q w) as [A B]; rewrite A, B end. split; reflexivity.
Qed.

Lemma pol_climb_sizes p : wsize (pol_climb p) = wsize p /\ maxi (pol_climb p) = maxi p.
Proof.
  unfold pol_climb, pol_demote. destruct (pwsize p <=? pmax p); [split; reflexivity|].
  destruct (demote_loop_sizes 1000 p (pwsize p)) as [A B]. destruct (demote_loop 1000 p (pwsize p)) as [p1 pws]. cbn [fst] in A, B.
  cbn [with_sizes wsize maxi]. split; assumption.
Qed.

Lemma set_queue_sizes p q d : wsize (set_queue p q d) = wsize p /\ maxi (set_queue p q d) = maxi p.
Proof. unfold set_queue. destruct (q =? QWINDOW); [split; reflexivity|]. destruct (q =? QPROBATION); split; reflexivity. Qed.

Lemma move_to_sizes p id q : wsize (move_to p id q) = wsize p /\ maxi (move_to p id q) = maxi p.
Proof.
  unfold move_to.
  match goal with |- wsize (set_queue ?a ?b ?c) = _ /\ _ => destruct (set_queue_sizes a b c) as [A B]; rewrite A, B end.
  unfold set_queue_of, set_node, with_store. cbn [wsize maxi].
  match goal with |- wsize (set_queue ?a ?b ?c) = _ /\ _ => destruct (set_queue_sizes a b c) as [A' B']; rewrite A', B' end.
  split; reflexivity.
Qed.

Lemma increase_loop_sizes fuel : forall p quota,
  wsize (fst (increase_loop fuel p quota)) = wsize p /\ maxi (fst (increase_loop fuel p quota)) = maxi p.
Proof.
  induction fuel as [|f IH]; intros p quota; cbn [increase_loop]; [split; reflexivity|].
  assert (Hc : forall c (isprob : bool),
    wsize (fst (let w := pweight (node_of p c) in
                 if quota <? w then (p, quota) else
                 let p1 := move_to p c QWINDOW in
                 let p2 := with_sizes p1 (wsize p1) (wrapu (wwsize p1 + w)) (if isprob then pwsize p1 else wrapu (pwsize p1 - w)) in
                 increase_loop f p2 (quota - w))) = wsize p /\
    maxi (fst (let w := pweight (node_of p c) in
                 if quota <? w then (p, quota) else
                 let p1 := move_to p c QWINDOW in
                 let p2 := with_sizes p1 (wsize p1) (wrapu (wwsize p1 + w)) (if isprob then pwsize p1 else wrapu (pwsize p1 - w)) in
                 increase_loop f p2 (quota - w))) = maxi p).
  { intros c isprob. cbv zeta. destruct (quota <? pweight (node_of p c)); [split; reflexivity|].
    match goal with |- context [increase_loop f ?q ?w] => destruct (IH q w) as [A B]; rewrite A, B end.
    cbn [with_sizes wsize maxi]. apply move_to_sizes. }
  destruct (dq_head (qprob p)) as [c|].
  - destruct (quota <? pweight (node_of p c)).
    + destruct (dq_head (qprot p)) as [c2|]; [apply (Hc c2 false)|split; reflexivity].
    + apply (Hc c true).
  - destruct (dq_head (qprot p)) as [c2|]; [apply (Hc c2 false)|split; reflexivity].
Qed.

Lemma decrease_loop_sizes fuel : forall p quota,
  wsize (fst (decrease_loop fuel p quota)) = wsize p /\ maxi (fst (decrease_loop fuel p quota)) = maxi p.
Proof.
  induction fuel as [|f IH]; intros p quota; cbn [decrease_loop]; [split; reflexivity|].
  destruct (dq_head (qwin p)) as [c|]; [|split; reflexivity]. cbv zeta.
  destruct (quota <? pweight (node_of p c)); [split; reflexivity|].
  match goal with |- context [decrease_loop f ?q ?w] => destruct (IH q w) as [A B]; rewrite A, B end.
  cbn [with_sizes wsize maxi]. apply move_to_sizes.
Qed.

Lemma pol_climb_adj_sizes adj p : wsize (fst (pol_climb_adj adj p)) = wsize p /\ maxi (fst (pol_climb_adj adj p)) = maxi p.
Proof.
  unfold pol_climb_adj. destruct (pol_climb_sizes p) as [D1 D2]. unfold pol_climb in D1, D2.
  destruct (adj =? 0); [split; assumption|]. destruct (adj >? 0).
  - unfold pol_increase_window. destruct (pmax (pol_demote p) =? 0); [split; assumption|]. cbv zeta.
    match goal with |- context [increase_loop 1000 (pol_demote ?q) ?w] =>
      destruct (increase_loop_sizes 1000 (pol_demote q) w) as [A B]; destruct (pol_climb_sizes q) as [C1 C2]; unfold pol_climb in C1, C2;
      destruct (increase_loop 1000 (pol_demote q) w) as [p3 quota] end.
    cbn [fst with_maxima wsize maxi] in *. rewrite A, B, C1, C2. cbn [with_maxima wsize maxi]. split; assumption.
  - unfold pol_decrease_window. destruct (wmax (pol_demote p) <=? 1); [split; assumption|]. cbv zeta.
    match goal with |- context [decrease_loop 1000 ?q ?w] =>
      destruct (decrease_loop_sizes 1000 q w) as [A B]; destruct (decrease_loop 1000 q w) as [p2 quota] end.
    cbn [fst with_maxima wsize maxi] in *. rewrite A, B. split; assumption.
Qed.

(* C04: a maintenance run that starts with no task in flight (everything recorded is in the write buffer)
   ends with the total weight of the entries linked in the policy at most the maximum (or zero) *)
Theorem maintenance_restores_bound hashf cur rnd now adj m :
  MI m (wbuf m) ->
  let m' := fst (fst (fst (m_maintenance hashf cur rnd now adj m))) in
  MI m' [] /\ wbuf m' = [] /\ (wsize (pol m') <= maxi (pol m') \/ wsize (pol m') = 0).
Proof.
  intros HM. change (wbuf m) with ([] ++ wbuf m) in HM. unfold m_maintenance.
  set (m1 := if skip_read_buffer m then m else with_rbuf (fold_left (m_on_access hashf cur) (rbuf m) m) []).
  assert (H1 : MI m1 ([] ++ wbuf m) /\ wbuf m1 = wbuf m).
  { unfold m1. destruct (skip_read_buffer m); [split; [exact HM|reflexivity]|].
    destruct (MI_on_access_fold hashf cur (rbuf m) m _ HM) as [A B]. split; [exact A|exact B]. }
  destruct H1 as [H1 Ew1]. rewrite Ew1.
  assert (H1' : MI (with_wbuf m1 []) ([] ++ wbuf m)) by exact H1.
  destruct (MI_run_tasks hashf cur (wbuf m) (with_wbuf m1 []) [] [] H1') as [H2 Ew2].
  destruct (m_run_tasks hashf cur (with_wbuf m1 []) (wbuf m) []) as [m2 ev_tasks]. cbn [fst] in H2, Ew2. cbn [wbuf with_wbuf] in Ew2.
  assert (H3 : exists m3 expired, (if m_expire m2 then let '(w, ids) := wheel_delete_expired cur (whl m2) now in (m_evict_all (with_whl m2 w) ids, ids) else (m2, [])) = (m3, expired)
                 /\ MI m3 [] /\ wbuf m3 = []).
  { destruct (m_expire m2).
    - destruct (wheel_delete_expired cur (whl m2) now) as [w ids].
      destruct (MI_evict_all ids (with_whl m2 w) [] H2) as [A B]. eexists _, _. split; [reflexivity|]. split; [exact A|rewrite B; exact Ew2].
    - eexists _, _. split; [reflexivity|]. split; assumption. }
  destruct H3 as (m3 & expired & E3 & H3 & Ew3). rewrite E3.
  destruct H3 as [He3 HP3]. rewrite He3.
  destruct (pol_evict_nodes_bound hashf rnd (pol m3) HP3) as [H4 Hb]. cbv zeta in H4, Hb.
  destruct (pol_evict_nodes hashf rnd (pol m3)) as [p ids]. cbn [fst] in H4, Hb.
  pose proof (fold_wheel_delete_pol ids (with_pol m3 p)) as (A & B & C & _). cbv zeta in A, B, C.
  set (m4 := fold_left (fun mm id => if m_expire mm then with_whl mm (wheel_delete (whl mm) id) else mm) ids (with_pol m3 p)) in *.
  cbv zeta. rewrite B. cbn [m_evict with_pol]. rewrite He3. cbn [fst].
  destruct (pol_climb_adj_sizes adj (pol m4)) as [Sw Sm].
  split; [split; [cbn [m_evict with_pol]; rewrite B; exact He3|cbn [pol with_pol]; apply PIX_pol_climb_adj; rewrite A; exact H4]|].
  split; [cbn [wbuf with_pol]; rewrite C; exact Ew3|].
  cbn [pol with_pol]. rewrite Sw, Sm, A. exact Hb.
Qed.

(* over all event lists: after any maintenance run that starts with nothing in flight, the system is
   quiescent and the total weight linked in the policy is at most the maximum (or zero) *)
Theorem bound_after_maintenance hashf evs expire weighted cur rnd now adj :
  run_ok hashf (sys0 expire weighted) evs ->
  let s := fold_left (sys_step hashf) evs (sys0 expire weighted) in
  sfl s = [] ->
  let s' := sys_step hashf s (EMaint cur rnd now adj) in
  let p := pol (sm s') in
  pend s' = [] /\
  wsize p = wrapu (sum_weights p (qwin p ++ qprob p ++ qprot p)) /\
  (forall id, linked p id <-> alive_in p id) /\
  (wsize p <= maxi p \/ wsize p = 0).
Proof.
  intros Hok s Hfl s' p.
  pose proof (SI_run hashf evs (sys0 expire weighted) (SI_sys0 expire weighted) Hok) as HS. fold s in HS.
  unfold SI, pend in HS. rewrite Hfl in HS. cbn [app] in HS.
  destruct (maintenance_restores_bound hashf cur rnd now adj (sm s) HS) as (HM & Hw & Hb). cbv zeta in HM, Hw, Hb.
  assert (Hp : pend s' = []).
  { unfold s', pend. cbn [sys_step sm sfl]. rewrite Hfl, Hw. reflexivity. }
  split; [exact Hp|].
  destruct HM as [_ HP]. unfold s' in p. cbn [sys_step sm] in p. fold p in HP, Hb.
  split; [exact (quiescent_weighted_size p HP)|]. split; [exact (quiescent_linked_iff_alive p HP)|exact Hb].
Qed.
