(* Base.v — fixed-width arithmetic of the Go code, written out explicitly, and
   small list utilities shared by every model.  Stdlib only. *)
From Coq Require Export ZArith List Lia Bool.
Export ListNotations.
Open Scope Z_scope.

Definition two64 : Z := 18446744073709551616.       (* 2^64 *)
Definition two63 : Z := 9223372036854775808.        (* 2^63 *)
Definition MaxInt64 : Z := 9223372036854775807.
Definition MaxUint64 : Z := 18446744073709551615.

(* uint64 wrap-around *)
Definition wrapu (x : Z) : Z := x mod two64.
(* int64 wrap-around (two's complement) *)
Definition wraps (x : Z) : Z := (x + two63) mod two64 - two63.

(* xmath.SaturatedAdd, transcribed: s := a + b (wrapping); if s < a || s < b -> MaxInt64 *)
Definition satadd (a b : Z) : Z :=
  let s := wraps (a + b) in
  if (s <? a) || (s <? b) then MaxInt64 else s.

(* xmath.Abs on int64 (wrapping negation) *)
Definition abs64 (a : Z) : Z := if a <? 0 then wraps (- a) else a.

Definition in_i64 (x : Z) : Prop := - two63 <= x <= MaxInt64.
Definition in_u64 (x : Z) : Prop := 0 <= x < two64.

Lemma wrapu_range x : in_u64 (wrapu x).
Proof. unfold in_u64, wrapu, two64. apply Z.mod_pos_bound. lia. Qed.

Lemma wrapu_id x : in_u64 x -> wrapu x = x.
Proof. unfold in_u64, wrapu. intros H. apply Z.mod_small. exact H. Qed.

Lemma wraps_range x : in_i64 (wraps x).
Proof.
  unfold in_i64, wraps, two63, MaxInt64, two64.
  pose proof (Z.mod_pos_bound (x + 9223372036854775808) 18446744073709551616 ltac:(lia)). lia.
Qed.

Lemma wraps_id x : in_i64 x -> wraps x = x.
Proof.
  unfold in_i64, wraps, two63, MaxInt64, two64. intros H.
  rewrite Z.mod_small by lia. lia.
Qed.

(* list update at index *)
Fixpoint upd {A} (i : nat) (x : A) (l : list A) : list A :=
  match l, i with
  | [], _ => []
  | _ :: t, O => x :: t
  | h :: t, S i' => h :: upd i' x t
  end.

Lemma upd_length {A} i (x : A) l : length (upd i x l) = length l.
Proof. revert i; induction l as [|h t IH]; intros [|i]; simpl; auto. Qed.

Lemma nth_upd_same {A} i (x d : A) l : (i < length l)%nat -> nth i (upd i x l) d = x.
Proof. revert i; induction l as [|h t IH]; intros [|i] H; simpl in *; try lia; auto. apply IH; lia. Qed.

Lemma nth_upd_other {A} i j (x d : A) l : i <> j -> nth j (upd i x l) d = nth j l d.
Proof.
  revert i j; induction l as [|h t IH]; intros [|i] [|j] H; simpl; auto; try congruence.
Qed.

Definition sumZ (l : list Z) : Z := fold_right Z.add 0 l.

Lemma sumZ_app a b : sumZ (a ++ b) = sumZ a + sumZ b.
Proof. induction a as [|x a IH]; simpl; lia. Qed.
