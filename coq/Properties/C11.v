(* C11 — Refresh serves the old value and swaps atomically or not at all (sequential part;
   the in-flight / dedup part is the protocol model of C08/C09). *)
From Otter Require Import Base Seq Spec SeqRefine SeqFacts.

(* a read of a live entry returns the cached value; it hands exactly one reload carrying that
   value to the executor iff the refresh time has passed, and nothing otherwise *)
Theorem C11_read_serves_old : forall c s k oc n now,
  lookup k (cmap s) = Some n -> has_expired c n now = false ->
  let r := do_get c s k oc now now in
  r_ret (snd r) = RLoad (nval n) 0 /\ r_cb (snd r) = [] /\ r_events (snd r) = [] /\
  r_spawn (snd r) = (if is_fresh c n now then [] else [SpRefresh k (Some (nval n))]).
Proof. exact get_hit. Qed.
Print Assumptions C11_read_serves_old.

(* failed reload: value, weight and expiration deadline untouched *)
Theorem C11_failure_keeps_entry : forall c s k v n now,
  lookup k (cmap s) = Some n ->
  exists n', lookup k (cmap (fst (finish_call c s k (LError v) true now))) = Some n' /\
             nval n' = nval n /\ nexp n' = nexp n /\ nweight n' = nweight n.
Proof. exact reload_failure_keeps. Qed.
Print Assumptions C11_failure_keeps_entry.

(* not-found reload removes the entry *)
Theorem C11_notfound_removes : forall c s k now,
  lookup k (cmap (fst (finish_call c s k LNotFound true now))) = None.
Proof. intros. apply finish_call_notfound_removes. Qed.
Print Assumptions C11_notfound_removes.

(* successful reload replaces the value (in one step of the table: the old value is reported replaced) *)
Theorem C11_success_replaces : forall c s k v n now,
  lookup k (cmap s) = Some n -> has_expired c n now = false ->
  exists n', lookup k (cmap (fst (finish_call c s k (LValue v) true now))) = Some n' /\ nval n' = v /\
  snd (finish_call c s k (LValue v) true now) = [mkEvent k (nval n) CReplacement].
Proof.
  intros c s k v n now L X. unfold finish_call. rewrite L.
  destruct (atomic_set c k v (Some n) (Call true false false) now) as [nn evs] eqn:EA.
  cbn [fst snd]. unfold upd_map; cbn [cmap]. exists nn. unfold put. cbn [lookup fst]. rewrite Z.eqb_refl.
  split; [reflexivity|].
  unfold atomic_set in EA. injection EA as <- <-. split.
  - unfold calc_refr, calc_exp_write, new_node.
    repeat match goal with |- context [match ?x with _ => _ end] => destruct x end; reflexivity.
  - unfold get_cause. rewrite X. reflexivity.
Qed.
Print Assumptions C11_success_replaces.

(* no channel when refreshing is not configured; a channel and exactly one task otherwise *)
Theorem C11_refresh_channel : forall c s k now,
  (with_refr c = false -> r_ret (snd (do_refresh c s k now)) = RChan false /\ r_spawn (snd (do_refresh c s k now)) = []) /\
  (with_refr c = true -> r_ret (snd (do_refresh c s k now)) = RChan true /\ length (r_spawn (snd (do_refresh c s k now))) = 1%nat).
Proof.
  intros c s k now. unfold do_refresh. split; intros H; rewrite H; cbn; auto.
Qed.
Print Assumptions C11_refresh_channel.

Example C11_nonvacuous :
  let c := mkCfg false true false false (fun _ _ => 1) (fun _ _ c => c) (fun _ _ _ c => c) (fun _ _ c => c)
                 (fun _ _ _ => 50) (fun _ _ _ _ => 50) (fun _ _ _ _ => 50) (fun _ _ c => c) in
  let s := fst (run c cstate0 [OSet 1 11 1000]) in
  r_ret (snd (step c s (OGet 1 LNotFound 1049 1049))) = RLoad 11 0 /\ r_spawn (snd (step c s (OGet 1 LNotFound 1049 1049))) = [] /\
  r_ret (snd (step c s (OGet 1 LNotFound 1050 1050))) = RLoad 11 0 /\
  r_spawn (snd (step c s (OGet 1 LNotFound 1050 1050))) = [SpRefresh 1 (Some 11)].
Proof. vm_compute. repeat split. Qed.
