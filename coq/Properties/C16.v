(* C16 — Write buffer: each event delivered exactly once, in producer order, bounded.
   Model: Mpsc.v — the chunked MPSC queue with a push split into "reserve" (up to the winning
   producer-index CAS) and "publish" (the slot store).  The implementation is compared with the
   model after every call over all capacity pairs, including states with a producer parked between
   reserve and publish; exactly-once / per-producer order / bound are checked on free-running runs.
   C16_seq_fifo (the model is a FIFO of capacity max for every push/pop sequence) is NOT yet a Coq
   theorem: the statements below are the pieces proved so far (named _partial where they fall
   short of the property). *)
From Otter Require Import Base Sketch Mpsc MpscFacts.

Theorem C16_refused_only_when_full_partial : forall q v q',
  push_reserve q v = (q', RFull) -> q' = q /\ maxcap q - (pidx q - cidx q) <= 0.
Proof. exact refuse_only_when_full. Qed.
Print Assumptions C16_refused_only_when_full_partial.

Theorem C16_empty_only_when_caught_up : forall q q', try_pop q = (q', PopEmpty) -> cidx q = pidx q.
Proof. exact pop_empty_only_when_caught_up. Qed.
Print Assumptions C16_empty_only_when_caught_up.

Theorem C16_consumer_waits_for_reserved_slot : forall q,
  buf_get q (cbuf q) (offset_of (cidx q) (cmask q)) = SNil -> cidx q <> pidx q -> try_pop q = (q, PopWait).
Proof. exact pop_waits_for_reserved_slot. Qed.
Print Assumptions C16_consumer_waits_for_reserved_slot.

Theorem C16_no_phantom : forall q q' v,
  try_pop q = (q', PopElem v) ->
  buf_get q (cbuf q) (offset_of (cidx q) (cmask q)) = SElem v \/ buf_get q (cbuf q) (offset_of (cidx q) (cmask q)) = SJump.
Proof. exact pop_returns_stored. Qed.
Print Assumptions C16_no_phantom.

(* across every growth step from capacity 2 to 8: nothing lost, nothing duplicated, order kept,
   the ninth offer refused, and the freed space reusable *)
Example C16_growth_instance :
  let push q v := fst (try_push q v) in
  let q8 := fold_left push [1; 2; 3; 4; 5; 6; 7; 8] (mpsc_new 2 8) in
  snd (try_push q8 9) = false /\ mpsc_size q8 = 8 /\
  (let '(q, r1) := try_pop q8 in let '(q, r2) := try_pop q in let '(q, r3) := try_pop q in
   let q := push (push q 10) 11 in
   let '(q, r4) := try_pop q in
   (r1, r2, r3, r4, mpsc_size q)) = (PopElem 1, PopElem 2, PopElem 3, PopElem 4, 6).
Proof. vm_compute. repeat split. Qed.
