(* C04 — Size bound at quiescence; pinned and oversized entries.
   Model: Policy.v (W-TinyLFU over three deques, wrapping counters) and Maint.v (tasks in any
   arrival order).
   Proved here (theories/PolicyBound.v on top of PolicyInv.v), for EVERY event list (index actions,
   tasks reaching the write buffer in any order, reads, maintenance runs, SetMaximum):
     C04_bound_after_maintenance  a maintenance run that starts with no task in flight ends quiescent,
         with the policy's total equal (mod 2^64) to the weights of the entries present, the deques
         holding exactly the entries present, and that total at most the maximum (or zero, which is
         the same thing for the non-negative maxima of the code);
     C04_evict_nodes_restores_bound  the same for evictNodes alone, including that the loop fuel of the
         model (the code's loop has none) always suffices: a decreasing measure over the two cursors;
   plus the loop-step facts: only positive-weight nodes are evicted and only while over the bound
   (zero-weight entries are never removed for size), oversized nodes are evicted by the task that
   introduces them. *)
From Otter Require Import Base Sketch Policy Wheel Maint PolicyFacts PolicyInv PolicyBound.

Theorem C04_bound_after_maintenance : forall hashf evs expire weighted cur rnd now adj,
  run_ok hashf (sys0 expire weighted) evs ->
  let s := fold_left (sys_step hashf) evs (sys0 expire weighted) in
  sfl s = [] ->
  let s' := sys_step hashf s (EMaint cur rnd now adj) in
  let p := pol (sm s') in
  pend s' = [] /\
  wsize p = wrapu (sum_weights p (qwin p ++ qprob p ++ qprot p)) /\
  (forall id, linked p id <-> alive_in p id) /\
  (wsize p <= maxi p \/ wsize p = 0).
Proof. exact bound_after_maintenance. Qed.
Print Assumptions C04_bound_after_maintenance.

Theorem C04_evict_nodes_restores_bound : forall hashf rnd p,
  PQ p ->
  let p' := fst (pol_evict_nodes hashf rnd p) in
  PQ p' /\ (wsize p' <= maxi p' \/ wsize p' = 0).
Proof. exact pol_evict_nodes_bound. Qed.
Print Assumptions C04_evict_nodes_restores_bound.

(* an iteration of evictFromMain evicts only while the total weight exceeds the maximum, and
   never a node of weight zero *)
Theorem C04_evicts_only_positive_weight_over_bound : forall hashf rnd p cu id cu',
  ef_step hashf rnd p cu = EfEvict id cu' -> pweight (node_of p id) <> 0 /\ wsize p > maxi p.
Proof. exact ef_step_evict. Qed.
Print Assumptions C04_evicts_only_positive_weight_over_bound.

(* entries of weight zero are never removed for size reasons: over the whole loop, any fuel *)
Theorem C04_zero_weight_never_evicted : forall fuel hashf rnd p cu,
  let '(p1, evicted) := evict_from_main fuel hashf rnd p cu [] in
  forall id, In id evicted -> pweight (node_of p1 id) <> 0.
Proof. intros fuel hashf rnd p cu. apply (evict_from_main_nonzero fuel hashf rnd p cu []). intros id []. Qed.
Print Assumptions C04_zero_weight_never_evicted.

(* the loop gives up only when the bound is restored or both cursors are exhausted *)
Theorem C04_loop_exit : forall hashf rnd p cu,
  ef_step hashf rnd p cu = EfStop -> wsize p <= maxi p \/ (c_victim cu = None /\ c_cand cu = None).
Proof. exact ef_step_stop. Qed.
Print Assumptions C04_loop_exit.

(* an entry heavier than the maximum is evicted by the very task that introduces it *)
Theorem C04_oversized_not_retained : forall hashf p id,
  pstate (node_of p id) = ALIVE -> pweight (node_of p id) > maxi p -> snd (pol_add hashf p id) = [id].
Proof. exact pol_add_oversized. Qed.
Print Assumptions C04_oversized_not_retained.

(* non-vacuity: a full cache of maximum 2 evicts exactly one of three unit-weight nodes, and a
   zero-weight node survives any pressure *)
Example C04_nonvacuous :
  let h := fun _ k => k in
  let p0 := with_maxima (policy0 true) 2 1 0 in
  let add p id w := fst (pol_add h (set_node p id (mkPnode id w ALIVE QWINDOW)) id) in
  let p := add (add (add (add p0 1 1) 2 1) 3 0) 4 1 in
  let '(p', ev) := pol_evict_nodes h 1 p in
  length ev = 1%nat /\ ~ In 3 ev /\ wsize p' = 2.
Proof. vm_compute. repeat split; try reflexivity. intros [H|[]]; discriminate H. Qed.
