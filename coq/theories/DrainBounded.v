(* DrainBounded.v — exhaustive, kernel-checked exploration of the drain-status protocol for small
   thread populations: every configuration reachable under EVERY schedule is in the explored set
   (closure checked by computation, soundness by DrainProofs / DrainFast), and every terminal
   configuration of the set is drained.  The bound (which threads exist initially) is part of each
   statement; tasks spawned through the executor are explored as they arise.
   Populations beyond these (three writers; two writers and a CleanUp caller) exhaust 14 GB in this
   representation (finished threads keep their slots, so interleavings of spawns multiply states). *)
From stdpp Require Import gmap pmap.
From Coq Require Import List.
Import ListNotations.
From Otter Require Import Drain DrainProofs DrainFast.

(* one writer; two concurrent writers; one writer racing with an explicit CleanUp caller —
   each with every maintenance task they spawn *)
Lemma check_1_0 : check_fast 1 0 500 = true.
Proof. vm_compute. reflexivity. Qed.

Lemma check_2_0 : check_fast 2 0 2000 = true.
Proof. vm_compute. reflexivity. Qed.

Lemma check_1_1 : check_fast 1 1 2000 = true.
Proof. vm_compute. reflexivity. Qed.

Theorem drained_1_writer : forall sched,
  let s := run_sched (dinit 1 0) sched in terminal s = true -> drained s = true.
Proof. exact (check_fast_sound 1 0 500 check_1_0). Qed.

Theorem drained_2_writers : forall sched,
  let s := run_sched (dinit 2 0) sched in terminal s = true -> drained s = true.
Proof. exact (check_fast_sound 2 0 2000 check_2_0). Qed.

Theorem drained_1_writer_1_cleanup : forall sched,
  let s := run_sched (dinit 1 1) sched in terminal s = true -> drained s = true.
Proof. exact (check_fast_sound 1 1 2000 check_1_1). Qed.
