package main

import (
	"fmt"
	"runtime"
	"sync"
	"sync/atomic"
	"time"

	otter "github.com/maypok86/otter/v2"
)

// Engine "drain" (C14): writers, readers and the maintenance task race over the drain-status
// protocol with the DEFAULT executor (goroutines). Hook points inside the protocol (start and end
// of maintenance, scheduleAfterWrite, after the try-lock, drainBuffers, reschedule) inject random
// yields and short sleeps to widen the race windows. After all calls have returned the harness makes
// NO further cache call: it only reads the drain status and the write-buffer size (atomic loads)
// and waits for quiescence; then it checks that nothing is left: status idle, buffer empty, size
// bound restored, every deletion notification delivered.
func init() { engines["drain"] = runDrain }

func runDrain(seed uint64, scale int, out string, _ string) *summary {
	r := &rng{s: seed}
	sum := newSummary("drain", seed)
	t := newTrace(out)
	defer t.close()
	seen := map[string]bool{}
	rounds := 400 * scale
	var hookSeed atomic.Uint64
	var delays atomic.Int64
	for rd := 0; rd < rounds; rd++ {
		maximum := 2 + r.intn(20)
		writers := 1 + r.intn(6)
		readers := r.intn(3)
		per := 1 + r.intn(12)
		if r.chance(15) {
			per = 100 + r.intn(400) // long bursts: the write buffer fills and writers help
		}
		mode := r.intn(4) // 0 no perturbation, 1 yields, 2 sleeps, 3 both
		hookSeed.Store(seed*7919 + uint64(rd))
		otter.VerifHook = func(id int) {
			if mode == 0 {
				return
			}
			x := hookSeed.Add(0x9e3779b97f4a7c15)
			x ^= x >> 31
			switch {
			case mode != 2 && x%3 == 0:
				runtime.Gosched()
				delays.Add(1)
			case mode >= 2 && x%11 == 0:
				time.Sleep(time.Duration(1+x%40) * time.Microsecond)
				delays.Add(1)
			}
		}
		var atomicEv, asyncEv atomic.Int64
		c := otter.Must(&otter.Options[int, int]{
			MaximumSize:      maximum,
			OnAtomicDeletion: func(e otter.DeletionEvent[int, int]) { atomicEv.Add(1) },
			OnDeletion:       func(e otter.DeletionEvent[int, int]) { asyncEv.Add(1) },
			Logger:           &otter.NoopLogger{},
		})
		var wg sync.WaitGroup
		start := make(chan struct{})
		for w := 0; w < writers; w++ {
			wg.Add(1)
			go func(w int) {
				defer wg.Done()
				<-start
				for i := 0; i < per; i++ {
					k := w*100000 + i
					switch (w + i) % 5 {
					case 0:
						c.SetIfAbsent(k%50, i)
					case 1:
						c.Invalidate((k + 1) % 50)
					default:
						c.Set(k, i)
					}
				}
			}(w)
		}
		for rdr := 0; rdr < readers; rdr++ {
			wg.Add(1)
			go func(rdr int) {
				defer wg.Done()
				<-start
				for i := 0; i < per*2; i++ {
					c.GetIfPresent(i % 50)
				}
			}(rdr)
		}
		close(start)
		wg.Wait()
		// --- all calls have returned: from here on only atomic loads
		deadline := time.Now().Add(3 * time.Second)
		stable := 0
		var st uint32
		var wb uint64
		for time.Now().Before(deadline) {
			st, wb = otter.VerifDrainState(c)
			if st == 0 && wb == 0 {
				stable++
				if stable >= 3 {
					break
				}
			} else {
				stable = 0
			}
			time.Sleep(300 * time.Microsecond)
		}
		sum.Cases++
		sum.Ops += writers*per + readers*per*2
		desc := fmt.Sprintf("round %d: maximum=%d writers=%d x %d readers=%d perturbation=%d", rd, maximum, writers, per, readers, mode)
		if stable < 3 {
			sum.fail("C14", "stranded", "maintenance is stranded: writes were recorded but the cache reports outstanding maintenance and nothing will run it",
				fmt.Sprintf("%s drainStatus=%d writeBuffer=%d", desc, st, wb))
			t.line("R %d %d %d %d %d stranded %d %d", rd, maximum, writers, per, mode, st, wb)
			otter.VerifHook = nil
			continue
		}
		// notifications are delivered by executor goroutines: give them time, still without cache calls
		for i := 0; i < 2000 && asyncEv.Load() != atomicEv.Load(); i++ {
			time.Sleep(500 * time.Microsecond)
		}
		otter.VerifHook = nil
		a := otter.VerifAudit(c) // quiescent: safe to read
		var sumW uint64
		for _, n := range a.Table {
			sumW += uint64(n.Weight)
		}
		if sumW > a.Maximum {
			sum.fail("C14", "bound-not-restored", "all calls returned and maintenance went idle but the size bound is not restored",
				fmt.Sprintf("%s entries=%d maximum=%d", desc, sumW, a.Maximum))
		}
		if asyncEv.Load() != atomicEv.Load() {
			sum.fail("C14", "notifications-pending", "deletion notifications are still pending although maintenance is idle",
				fmt.Sprintf("%s atomic=%d async=%d", desc, atomicEv.Load(), asyncEv.Load()))
		}
		if a.WriteBufferSize != 0 || a.DrainStatus != 0 {
			sum.fail("C14", "stranded", "outstanding maintenance at quiescence", desc)
		}
		inQ := len(a.Window) + len(a.Probation) + len(a.Protected)
		if inQ != len(a.Table) {
			sum.fail("C14", "writes-not-applied", "a recorded write was not applied to the eviction policy", fmt.Sprintf("%s table=%d linked=%d", desc, len(a.Table), inQ))
		}
		t.line("R %d %d %d %d %d ok %d %d", rd, maximum, writers, per, mode, len(a.Table), atomicEv.Load())
		seen[fmt.Sprintf("%d/%d/%d/%v", writers, readers, mode, per > 50)] = true
		if len(sum.Samples) < 3 {
			sum.Samples = append(sum.Samples, desc)
		}
	}
	sum.Dist["hook_delays_injected"] = int(delays.Load())
	sum.Distinct = len(seen)
	return sum
}
