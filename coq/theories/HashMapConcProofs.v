(* HashMapConcProofs.v — for every schedule of the hash table's concurrency protocol (HashMapConc.v), any
   number of concurrent Computes, any hash functions: the table m.table points to always holds exactly
   the abstract map obtained by applying the writers' functions one after the other (no update is lost
   across a resize, every function sees the current binding); bucket locks and the resizing flag are
   mutual exclusions; a resize never publishes a table that misses an admitted writer's update. *)
From Coq Require Import List Arith Bool ZArith Lia.
Import ListNotations.
From Otter Require Import HashMapConc.
Local Open Scope nat_scope.

Definition b2n (b : bool) : nat := if b then 1 else 0.
Lemma b2n_le1 b : b2n b <= 1. Proof. destruct b; cbn; lia. Qed.

Definition hcnt (f : hthread -> bool) (l : list hthread) : nat := length (filter f l).
Lemma hcnt_cons f t l : hcnt f (t :: l) = b2n (f t) + hcnt f l.
Proof. unfold hcnt. cbn [filter]. destruct (f t); reflexivity. Qed.

Lemma hcnt_upd f x : forall l i old,
  nth_error l i = Some old -> hcnt f (upd_nth i x l) + b2n (f old) = hcnt f l + b2n (f x).
Proof.
  induction l as [|h t IH]; intros i old H; [destruct i; discriminate H|].
  destruct i as [|i]; cbn [nth_error upd_nth] in *.
  - injection H as ->. rewrite !hcnt_cons. lia.
  - rewrite !hcnt_cons. specialize (IH i old H). lia.
Qed.

Lemma hcnt_zero_none f l : hcnt f l = 0 -> forall j u, nth_error l j = Some u -> f u = false.
Proof.
  induction l as [|h t IH]; intros H j u Hj; [destruct j; discriminate Hj|]. rewrite hcnt_cons in H.
  destruct j as [|j]; cbn [nth_error] in Hj.
  - injection Hj as <-. destruct (f h); [cbn in H; lia|reflexivity].
  - apply (IH ltac:(lia) j u Hj).
Qed.

Lemma nth_error_upd_nth_eq {A} (x : A) : forall l i, i < length l -> nth_error (upd_nth i x l) i = Some x.
Proof. induction l as [|h t IH]; intros i H; [cbn in H; lia|]. destruct i; cbn [upd_nth nth_error]; [reflexivity|apply IH; cbn in H; lia]. Qed.
Lemma nth_error_upd_nth_neq {A} (x : A) : forall l i j, i <> j -> nth_error (upd_nth i x l) j = nth_error l j.
Proof. induction l as [|h t IH]; intros i j H; [destruct i; reflexivity|]. destruct i, j; cbn [upd_nth nth_error]; try reflexivity; [lia|apply IH; lia]. Qed.
Lemma nth_error_lt {A} (l : list A) i x : nth_error l i = Some x -> i < length l.
Proof. intros H. apply nth_error_Some. rewrite H. discriminate. Qed.

Definition pc_in (p : hpc) (l : list hpc) : bool :=
  existsb (fun q => match p, q with
                    | W0, W0 | W1, W1 | W2, W2 | Wwait, Wwait | W3, W3 | W4, W4 | W5, W5 | Wadd, Wadd | W6, W6
                    | R0, R0 | Rwait, Rwait | R1, R1 | R2, R2 | R3, R3 | HDone, HDone | G0, G0 | G1, G1 | GDone, GDone | I0, I0 | I1, I1 | IDone, IDone => true
                    | _, _ => false end) l.

Definition holder (g i : nat) (t : hthread) : bool :=
  pc_in (hpc_ t) [W2; W3; W4; W5] && Nat.eqb (hsnap t) g && Nat.eqb (hbi t) i.
Definition resz (t : hthread) : bool := pc_in (hpc_ t) [R1; R2; R3].

Section Proofs.
Variable hidx : nat -> Z -> nat.
Variable KU : list Z.

Record HCInv (s : hcstate) : Prop := {
  iv_cur : hcur s < length (lens s);
  iv_len : Forall (fun n => 1 <= n) (lens s);
  iv_lock : forall g i, hcnt (holder g i) (hths s) = b2n (lk s g i);
  iv_resz : hcnt resz (hths s) = b2n (resizing s);
  iv_bi : forall j t, nth_error (hths s) j = Some t -> pc_in (hpc_ t) [W1; W2; W3; W4; W5] = true ->
          hbi t = bidx_of hidx s (hsnap t) (hkey t) /\ hsnap t < length (lens s);
  iv_w4 : forall j t, nth_error (hths s) j = Some t -> hpc_ t = W4 -> hsnap t = hcur s;
  iv_adm : forall j t jr r, nth_error (hths s) j = Some t -> nth_error (hths s) jr = Some r ->
           pc_in (hpc_ t) [W3; W4] = true -> hsnap t = hcur s -> pc_in (hpc_ r) [R1; R2] = true -> hcop r (hbi t) = false;
  iv_rs : forall jr r, nth_error (hths s) jr = Some r -> pc_in (hpc_ r) [R1; R2] = true ->
          hsnap r = hcur s /\ (hpc_ r = R2 -> forall b, b < len_of s (hcur s) -> hcop r b = true) /\ 1 <= hnlen r /\
          forall k, hnt r k = if hcop r (bidx_of hidx s (hsnap r) k) then stores s (hsnap r) k else None;
  iv_spec : forall k, stores s (hcur s) k = spec s k
}.

Lemma len_of_pos s g : Forall (fun n => 1 <= n) (lens s) -> 1 <= len_of s g.
Proof.
  intros H. unfold len_of. destruct (Nat.lt_ge_cases g (length (lens s))) as [Hlt|Hge].
  - rewrite Forall_forall in H. apply H. apply nth_In. exact Hlt.
  - rewrite nth_overflow by exact Hge. lia.
Qed.

Lemma bidx_lt s g k : Forall (fun n => 1 <= n) (lens s) -> bidx_of hidx s g k < len_of s g.
Proof. intros H. unfold bidx_of. apply Nat.mod_upper_bound. pose proof (len_of_pos s g H). lia. Qed.


Lemma nth_upd_cases {A} (l : list A) i j x u :
  nth_error (upd_nth i x l) j = Some u -> i < length l ->
  (j = i /\ u = x) \/ (j <> i /\ nth_error l j = Some u).
Proof.
  intros H Hi. destruct (Nat.eq_dec j i) as [->|Hn].
  - rewrite nth_error_upd_nth_eq in H by exact Hi. injection H as <-. left; split; reflexivity.
  - rewrite nth_error_upd_nth_neq in H by lia. right; split; assumption.
Qed.

Lemma resz_one s : HCInv s -> forall j1 t1 j2 t2,
  nth_error (hths s) j1 = Some t1 -> nth_error (hths s) j2 = Some t2 -> resz t1 = true -> resz t2 = true -> j1 = j2.
Proof.
  intros I j1 t1 j2 t2 H1 H2 R1' R2'. destruct (Nat.eq_dec j1 j2) as [|Hn]; [assumption|exfalso].
  pose proof (iv_resz s I) as Hc. pose proof (b2n_le1 (resizing s)) as Hb.
  pose proof (hcnt_upd resz (set_pc t1 HDone) (hths s) j1 t1 H1) as U1.
  assert (H2' : nth_error (upd_nth j1 (set_pc t1 HDone) (hths s)) j2 = Some t2) by (rewrite nth_error_upd_nth_neq by exact Hn; exact H2).
  pose proof (hcnt_upd resz (set_pc t2 HDone) _ j2 t2 H2') as U2.
  rewrite R1' in U1. rewrite R2' in U2. cbn in U1, U2. lia.
Qed.

Lemma no_resz s : HCInv s -> resizing s = false -> forall j t, nth_error (hths s) j = Some t -> resz t = false.
Proof. intros I E. apply hcnt_zero_none. rewrite (iv_resz s I), E. reflexivity. Qed.

Lemma no_holder s : HCInv s -> forall g b, lk s g b = false -> forall j t, nth_error (hths s) j = Some t -> holder g b t = false.
Proof. intros I g b E. apply hcnt_zero_none. rewrite (iv_lock s I), E. reflexivity. Qed.

Lemma len_of_app s g x ths' lk' st' c' r' sp' hi' fz' cn' ul' : g < length (lens s) ->
  len_of (mkHcs (lens s ++ [x]) st' lk' c' r' sp' hi' fz' cn' ul' ths') g = len_of s g.
Proof. intros H. unfold len_of. cbn [lens]. apply app_nth1. exact H. Qed.

Ltac thr H Hi := apply nth_upd_cases in H; [destruct H as [[-> ->]|[? H]]|exact Hi].

(* a step that changes only thread i's private fields and bucket locks *)
Lemma inv_gen s i t t' lk' rz' cnt' :
  HCInv s -> nth_error (hths s) i = Some t ->
  (forall g b, b2n (holder g b t') + b2n (lk s g b) = b2n (holder g b t) + b2n (lk' g b)) ->
  b2n (resz t') + b2n (resizing s) = b2n (resz t) + b2n rz' ->
  (pc_in (hpc_ t') [W1; W2; W3; W4; W5] = true -> hbi t' = bidx_of hidx s (hsnap t') (hkey t') /\ hsnap t' < length (lens s)) ->
  (hpc_ t' = W4 -> hsnap t' = hcur s) ->
  (pc_in (hpc_ t') [W3; W4] = true -> hsnap t' = hcur s -> forall jr r, jr <> i -> nth_error (hths s) jr = Some r ->
     pc_in (hpc_ r) [R1; R2] = true -> hcop r (hbi t') = false) ->
  (pc_in (hpc_ t') [R1; R2] = true -> forall j u, j <> i -> nth_error (hths s) j = Some u ->
     pc_in (hpc_ u) [W3; W4] = true -> hsnap u = hcur s -> hcop t' (hbi u) = false) ->
  (pc_in (hpc_ t') [R1; R2] = true ->
     hsnap t' = hcur s /\ (hpc_ t' = R2 -> forall b, b < len_of s (hcur s) -> hcop t' b = true) /\ 1 <= hnlen t' /\
     forall k, hnt t' k = if hcop t' (bidx_of hidx s (hsnap t') k) then stores s (hsnap t') k else None) ->
  HCInv (mkHcs (lens s) (stores s) lk' (hcur s) rz' (spec s) (hist s) (froz s) cnt' (ulog s) (upd_nth i t' (hths s))).
Proof.
  intros I Hi Hh Hr Hbi Hw4 Hadm1 Hadm2 Hrs. pose proof (nth_error_lt _ _ _ Hi) as Hlt.
  constructor; cbn [lens stores lk hcur resizing spec hths].
  - apply (iv_cur s I).
  - apply (iv_len s I).
  - intros g b. pose proof (hcnt_upd (holder g b) t' _ i t Hi) as U. specialize (Hh g b). pose proof (iv_lock s I g b). lia.
  - pose proof (hcnt_upd resz t' _ i t Hi) as U. pose proof (iv_resz s I). lia.
  - intros j u Hj Hp. thr Hj Hlt; [apply Hbi; exact Hp|apply (iv_bi s I j u Hj Hp)].
  - intros j u Hj Hp. thr Hj Hlt; [apply Hw4; exact Hp|apply (iv_w4 s I j u Hj Hp)].
  - intros j u jr r Hj Hjr Hp Hs Hpr. thr Hj Hlt; thr Hjr Hlt.
    + destruct (hpc_ t'); discriminate.
    + eapply Hadm1; eassumption.
    + eapply Hadm2; eassumption.
    + eapply (iv_adm s I); eassumption.
  - intros jr r Hjr Hp. thr Hjr Hlt; [apply Hrs; exact Hp|apply (iv_rs s I jr r Hjr Hp)].
  - apply (iv_spec s I).
Qed.


Lemma inv_lk s i t t' lk' :
  HCInv s -> nth_error (hths s) i = Some t ->
  (forall g b, b2n (holder g b t') + b2n (lk s g b) = b2n (holder g b t) + b2n (lk' g b)) ->
  resz t' = resz t ->
  (pc_in (hpc_ t') [W1; W2; W3; W4; W5] = true -> hbi t' = bidx_of hidx s (hsnap t') (hkey t') /\ hsnap t' < length (lens s)) ->
  (hpc_ t' = W4 -> hsnap t' = hcur s) ->
  (pc_in (hpc_ t') [W3; W4] = true -> hsnap t' = hcur s -> forall jr r, jr <> i -> nth_error (hths s) jr = Some r ->
     pc_in (hpc_ r) [R1; R2] = true -> hcop r (hbi t') = false) ->
  (pc_in (hpc_ t') [R1; R2] = true -> forall j u, j <> i -> nth_error (hths s) j = Some u ->
     pc_in (hpc_ u) [W3; W4] = true -> hsnap u = hcur s -> hcop t' (hbi u) = false) ->
  (pc_in (hpc_ t') [R1; R2] = true ->
     hsnap t' = hcur s /\ (hpc_ t' = R2 -> forall b, b < len_of s (hcur s) -> hcop t' b = true) /\ 1 <= hnlen t' /\
     forall k, hnt t' k = if hcop t' (bidx_of hidx s (hsnap t') k) then stores s (hsnap t') k else None) ->
  HCInv (mkHcs (lens s) (stores s) lk' (hcur s) (resizing s) (spec s) (hist s) (froz s) (cnt s) (ulog s) (upd_nth i t' (hths s))).
Proof.
  intros I Hi Hh Hr. apply (inv_gen s i t); try assumption. rewrite Hr. lia.
Qed.

Lemma inv_local s i t t' :
  HCInv s -> nth_error (hths s) i = Some t ->
  (forall g b, holder g b t' = holder g b t) ->
  resz t' = resz t ->
  (pc_in (hpc_ t') [W1; W2; W3; W4; W5] = true -> hbi t' = bidx_of hidx s (hsnap t') (hkey t') /\ hsnap t' < length (lens s)) ->
  (hpc_ t' = W4 -> hsnap t' = hcur s) ->
  (pc_in (hpc_ t') [W3; W4] = true -> hsnap t' = hcur s -> forall jr r, jr <> i -> nth_error (hths s) jr = Some r ->
     pc_in (hpc_ r) [R1; R2] = true -> hcop r (hbi t') = false) ->
  (pc_in (hpc_ t') [R1; R2] = true -> forall j u, j <> i -> nth_error (hths s) j = Some u ->
     pc_in (hpc_ u) [W3; W4] = true -> hsnap u = hcur s -> hcop t' (hbi u) = false) ->
  (pc_in (hpc_ t') [R1; R2] = true ->
     hsnap t' = hcur s /\ (hpc_ t' = R2 -> forall b, b < len_of s (hcur s) -> hcop t' b = true) /\ 1 <= hnlen t' /\
     forall k, hnt t' k = if hcop t' (bidx_of hidx s (hsnap t') k) then stores s (hsnap t') k else None) ->
  HCInv (with_ths s i t').
Proof.
  intros I Hi Hh. unfold with_ths. apply (inv_lk s i t); try assumption. intros g b. rewrite Hh. lia.
Qed.

Ltac pcd := try (intros; discriminate).

(* ---- the writer's steps ---- *)
Lemma step_W0 s i t o : HCInv s -> nth_error (hths s) i = Some t -> hpc_ t = W0 -> HCInv (hstep hidx KU s i o).
Proof.
  intros I Hi Hp. unfold hstep. rewrite Hi, Hp.
  apply (inv_local s i t); try assumption; cbn [hpc_ hsnap hbi hkey pc_in existsb orb]; pcd.
  - intros g b. unfold holder. rewrite Hp. reflexivity.
  - unfold resz. rewrite Hp. reflexivity.
  - intros _. split; [reflexivity|apply (iv_cur s I)].
Qed.

Lemma step_W1 s i t o : HCInv s -> nth_error (hths s) i = Some t -> hpc_ t = W1 -> HCInv (hstep hidx KU s i o).
Proof.
  intros I Hi Hp. unfold hstep. rewrite Hi, Hp. destruct (lk s (hsnap t) (hbi t)) eqn:E; [exact I|].
  apply (inv_lk s i t); try assumption; cbn [set_pc hpc_ hsnap hbi hkey hcop hnt hnlen pc_in existsb orb]; pcd.
  - intros g b. unfold holder, upd_fun2. cbn [set_pc hpc_ hsnap hbi]. rewrite Hp. cbn [pc_in existsb orb andb].
    rewrite (Nat.eqb_sym (hsnap t) g), (Nat.eqb_sym (hbi t) b).
    destruct (Nat.eqb_spec g (hsnap t)) as [->|]; cbn [andb]; [|lia].
    destruct (Nat.eqb_spec b (hbi t)) as [->|]; cbn [andb]; [rewrite E; cbn; lia|lia].
  - unfold resz. cbn [set_pc hpc_]. rewrite Hp. reflexivity.
  - intros _. apply (iv_bi s I i t Hi). rewrite Hp. reflexivity.
Qed.

(* thread t holds the lock of its bucket: the lock is taken *)
Lemma holder_locked s i t : HCInv s -> nth_error (hths s) i = Some t -> pc_in (hpc_ t) [W2; W3; W4; W5] = true ->
  lk s (hsnap t) (hbi t) = true.
Proof.
  intros I Hi Hp. destruct (lk s (hsnap t) (hbi t)) eqn:E; [reflexivity|exfalso].
  pose proof (no_holder s I _ _ E i t Hi) as H. unfold holder in H. rewrite Hp, !Nat.eqb_refl in H. discriminate H.
Qed.

Ltac unlock_tac I Hi Hp t :=
  let g := fresh "g" in let b := fresh "b" in
  intros g b; unfold holder, upd_fun2; cbn [set_pc hpc_ hsnap hbi]; rewrite Hp; cbn [pc_in existsb orb andb];
  rewrite (Nat.eqb_sym (hsnap t) g), (Nat.eqb_sym (hbi t) b);
  destruct (Nat.eqb_spec g (hsnap t)) as [->|]; cbn [andb]; [|lia];
  destruct (Nat.eqb_spec b (hbi t)) as [->|]; cbn [andb]; [|lia];
  rewrite (holder_locked _ _ t I Hi) by (rewrite Hp; reflexivity); cbn; lia.

Lemma step_W2 s i t o : HCInv s -> nth_error (hths s) i = Some t -> hpc_ t = W2 -> HCInv (hstep hidx KU s i o).
Proof.
  intros I Hi Hp. unfold hstep. rewrite Hi, Hp. destruct (resizing s) eqn:E.
  - rewrite <- E. apply (inv_lk s i t); try assumption; cbn [set_pc hpc_ hsnap hbi hkey hcop hnt hnlen pc_in existsb orb]; pcd.
    + unlock_tac I Hi Hp t.
    + unfold resz. cbn [set_pc hpc_]. rewrite Hp. reflexivity.
  - apply (inv_local s i t); try assumption; cbn [set_pc hpc_ hsnap hbi hkey hcop hnt hnlen pc_in existsb orb]; pcd.
    + intros g b. unfold holder. cbn [set_pc hpc_ hsnap hbi]. rewrite Hp. reflexivity.
    + unfold resz. cbn [set_pc hpc_]. rewrite Hp. reflexivity.
    + intros _. apply (iv_bi s I i t Hi). rewrite Hp. reflexivity.
    + intros _ _ jr r _ Hjr Hpr. pose proof (no_resz s I E jr r Hjr) as Hn. unfold resz in Hn.
      destruct (hpc_ r); discriminate.
Qed.

Lemma step_Wwait s i t o : HCInv s -> nth_error (hths s) i = Some t -> hpc_ t = Wwait -> HCInv (hstep hidx KU s i o).
Proof.
  intros I Hi Hp. unfold hstep. rewrite Hi, Hp. destruct (resizing s) eqn:E; [exact I|].
  apply (inv_local s i t); try assumption; cbn [set_pc hpc_ hsnap hbi hkey hcop hnt hnlen pc_in existsb orb]; pcd.
  - intros g b. unfold holder. cbn [set_pc hpc_ hsnap hbi]. rewrite Hp. reflexivity.
  - unfold resz. cbn [set_pc hpc_]. rewrite Hp. reflexivity.
Qed.

Lemma step_W3 s i t o : HCInv s -> nth_error (hths s) i = Some t -> hpc_ t = W3 -> HCInv (hstep hidx KU s i o).
Proof.
  intros I Hi Hp. unfold hstep. rewrite Hi, Hp. destruct (Nat.eqb_spec (hcur s) (hsnap t)) as [E|E].
  - apply (inv_local s i t); try assumption; cbn [set_pc hpc_ hsnap hbi hkey hcop hnt hnlen pc_in existsb orb]; pcd.
    + intros g b. unfold holder. cbn [set_pc hpc_ hsnap hbi]. rewrite Hp. reflexivity.
    + unfold resz. cbn [set_pc hpc_]. rewrite Hp. reflexivity.
    + intros _. apply (iv_bi s I i t Hi). rewrite Hp. reflexivity.
    + intros _. symmetry. exact E.
    + intros _ _ jr r _ Hjr Hpr. apply (iv_adm s I i t jr r Hi Hjr); [rewrite Hp; reflexivity|symmetry; exact E|exact Hpr].
  - apply (inv_lk s i t); try assumption; cbn [set_pc hpc_ hsnap hbi hkey hcop hnt hnlen pc_in existsb orb]; pcd.
    + unlock_tac I Hi Hp t.
    + unfold resz. cbn [set_pc hpc_]. rewrite Hp. reflexivity.
Qed.

Lemma step_W5 s i t o : HCInv s -> nth_error (hths s) i = Some t -> hpc_ t = W5 -> HCInv (hstep hidx KU s i o).
Proof.
  intros I Hi Hp. unfold hstep. rewrite Hi, Hp.
  apply (inv_lk s i t); try assumption; cbn [set_pc hpc_ hsnap hbi hkey hcop hnt hnlen pc_in existsb orb]; pcd.
  - unlock_tac I Hi Hp t.
  - unfold resz. cbn [set_pc hpc_]. rewrite Hp. reflexivity.
Qed.

Lemma step_Wadd s i t o : HCInv s -> nth_error (hths s) i = Some t -> hpc_ t = Wadd -> HCInv (hstep hidx KU s i o).
Proof.
  intros I Hi Hp. unfold hstep. rewrite Hi, Hp.
  apply (inv_gen s i t); try assumption; cbn [set_pc hpc_ hsnap hbi hkey hcop hnt hnlen pc_in existsb orb]; pcd.
  - intros g b. unfold holder. cbn [set_pc hpc_ hsnap hbi]. rewrite Hp. cbn. lia.
  - unfold resz. cbn [set_pc hpc_]. rewrite Hp. cbn. lia.
Qed.

Lemma step_W6 s i t o : HCInv s -> nth_error (hths s) i = Some t -> hpc_ t = W6 -> HCInv (hstep hidx KU s i o).
Proof.
  intros I Hi Hp. unfold hstep. rewrite Hi, Hp.
  destruct o as [|[|o]];
  (apply (inv_local s i t); try assumption; cbn [set_pc hpc_ hsnap hbi hkey hcop hnt hnlen pc_in existsb orb]; pcd;
   [intros g b; unfold holder; cbn [set_pc hpc_ hsnap hbi]; rewrite Hp; reflexivity
   |unfold resz; cbn [set_pc hpc_]; rewrite Hp; reflexivity]).
Qed.

Lemma ret_pc_holder g b t : holder g b (ret_pc t) = false.
Proof. unfold holder, ret_pc. cbn [hpc_]. destruct (hretry t); reflexivity. Qed.
Lemma ret_pc_resz t : resz (ret_pc t) = false.
Proof. unfold resz, ret_pc. cbn [hpc_]. destruct (hretry t); reflexivity. Qed.
Lemma ret_pc_cases t : hpc_ (ret_pc t) = W0 \/ hpc_ (ret_pc t) = HDone.
Proof. unfold ret_pc. cbn [hpc_]. destruct (hretry t); [left|right]; reflexivity. Qed.

Ltac ret_pcd t := intros; exfalso; destruct (ret_pc_cases t) as [Erp|Erp];
  match goal with H : context [hpc_ (ret_pc t)] |- _ => rewrite Erp in H; discriminate H end.

Lemma step_Rwait s i t o : HCInv s -> nth_error (hths s) i = Some t -> hpc_ t = Rwait -> HCInv (hstep hidx KU s i o).
Proof.
  intros I Hi Hp. unfold hstep. rewrite Hi, Hp. destruct (resizing s) eqn:E; [exact I|].
  apply (inv_local s i t); try assumption; try (ret_pcd t).
  - intros g b. rewrite ret_pc_holder. unfold holder. rewrite Hp. reflexivity.
  - rewrite ret_pc_resz. unfold resz. rewrite Hp. reflexivity.
Qed.

Lemma step_R1 s i t o : HCInv s -> nth_error (hths s) i = Some t -> hpc_ t = R1 -> HCInv (hstep hidx KU s i o).
Proof.
  intros I Hi Hp. unfold hstep. rewrite Hi, Hp.
  assert (Hpr : pc_in (hpc_ t) [R1; R2] = true) by (rewrite Hp; reflexivity).
  destruct (iv_rs s I i t Hi Hpr) as (Hsn & _ & Hnl & Hnt).
  destruct (forallb (hcop t) (seq 0 (len_of s (hsnap t)))) eqn:Eall.
  - apply (inv_local s i t); try assumption; cbn [set_pc hpc_ hsnap hbi hkey hcop hnt hnlen pc_in existsb orb]; pcd.
    + intros g b. unfold holder. cbn [set_pc hpc_ hsnap hbi]. rewrite Hp. reflexivity.
    + unfold resz. cbn [set_pc hpc_]. rewrite Hp. reflexivity.
    + intros _ j u Hne Hj Hpu Hsu. apply (iv_adm s I j u i t Hj Hi Hpu Hsu Hpr).
    + intros _. split; [exact Hsn|]. split; [|split; [exact Hnl|exact Hnt]].
      intros _ b Hb. rewrite forallb_forall in Eall. apply Eall. apply in_seq. rewrite Hsn. lia.
  - destruct (Nat.ltb_spec o (len_of s (hsnap t))) as [Hlt|Hge]; cbn [andb]; [|exact I].
    destruct (hcop t o) eqn:Eco; cbn [negb andb]; [exact I|].
    destruct (lk s (hsnap t) o) eqn:E; cbn [negb]; [exact I|].
    apply (inv_local s i t); try assumption; cbn [set_pc hpc_ hsnap hbi hkey hcop hnt hnlen pc_in existsb orb]; pcd.
    + intros g b. unfold holder. cbn [hpc_ hsnap hbi]. rewrite Hp. reflexivity.
    + unfold resz. cbn [hpc_]. rewrite Hp. reflexivity.
    + intros _ j u Hne Hj Hpu Hsu.
      pose proof (iv_adm s I j u i t Hj Hi Hpu Hsu Hpr) as Hc.
      pose proof (no_holder s I _ _ E j u Hj) as Hh. unfold holder in Hh.
      assert (Hpu' : pc_in (hpc_ u) [W2; W3; W4; W5] = true) by (destruct (hpc_ u); try discriminate Hpu; reflexivity).
      rewrite Hpu', Hsu, <- Hsn, Nat.eqb_refl in Hh. cbn [andb] in Hh. rewrite Hh. exact Hc.
    + intros _. split; [exact Hsn|]. split; [discriminate|]. split; [exact Hnl|].
      intros k. rewrite Hnt. destruct (Nat.eqb (bidx_of hidx s (hsnap t) k) o); reflexivity.
Qed.

Lemma step_R0 s i t o : HCInv s -> nth_error (hths s) i = Some t -> hpc_ t = R0 -> HCInv (hstep hidx KU s i o).
Proof.
  intros I Hi Hp. unfold hstep. rewrite Hi, Hp. destruct (resizing s) eqn:E.
  - apply (inv_local s i t); try assumption; cbn [set_pc hpc_ hsnap hbi hkey hcop hnt hnlen pc_in existsb orb]; pcd.
    + intros g b. unfold holder. cbn [set_pc hpc_ hsnap hbi]. rewrite Hp. reflexivity.
    + unfold resz. cbn [set_pc hpc_]. rewrite Hp. reflexivity.
  - destruct o as [|o].
    + cbv zeta. apply (inv_gen s i t); try assumption; cbn [set_pc hpc_ hsnap hbi hkey hcop hnt hnlen pc_in existsb orb]; pcd.
      * intros g b. unfold holder. cbn [hpc_ hsnap hbi]. rewrite Hp. cbn. lia.
      * unfold resz. cbn [hpc_]. rewrite Hp, E. cbn. lia.
      * intros _ j u _ _ _ _. reflexivity.
      * intros _. split; [reflexivity|]. split; [discriminate|]. split.
        -- pose proof (len_of_pos s (hcur s) (iv_len s I)). destruct (Nat.eqb (hnlen t) 1); lia.
        -- intros k. reflexivity.
    + apply (inv_gen s i t); try assumption; cbn [set_pc hpc_ hsnap hbi hkey hcop hnt hnlen pc_in existsb orb]; pcd.
      * intros g b. unfold holder. cbn [set_pc hpc_ hsnap hbi]. rewrite Hp. cbn. lia.
      * unfold resz. cbn [set_pc hpc_]. rewrite Hp, E. cbn. lia.
Qed.

Lemma step_R3 s i t o : HCInv s -> nth_error (hths s) i = Some t -> hpc_ t = R3 -> HCInv (hstep hidx KU s i o).
Proof.
  intros I Hi Hp. unfold hstep. rewrite Hi, Hp.
  assert (Hr : resz t = true) by (unfold resz; rewrite Hp; reflexivity).
  assert (E : resizing s = true).
  { destruct (resizing s) eqn:E; [reflexivity|]. rewrite (no_resz s I E i t Hi) in Hr. discriminate Hr. }
  apply (inv_gen s i t); try assumption; try (ret_pcd t).
  - intros g b. rewrite ret_pc_holder. unfold holder. rewrite Hp. cbn. lia.
  - rewrite Hr, E, ret_pc_resz. cbn. lia.
Qed.

Lemma bidx_of_ext s' s g k : lens s' = lens s -> bidx_of hidx s' g k = bidx_of hidx s g k.
Proof. intros H. unfold bidx_of, len_of. rewrite H. reflexivity. Qed.

Lemma step_W4 s i t o : HCInv s -> nth_error (hths s) i = Some t -> hpc_ t = W4 -> HCInv (hstep hidx KU s i o).
Proof.
  intros I Hi Hp. unfold hstep. rewrite Hi, Hp. pose proof (nth_error_lt _ _ _ Hi) as Hlt.
  destruct o as [|o].
  2:{ apply (inv_lk s i t); try assumption; cbn [set_pc hpc_ hsnap hbi hkey hcop hnt hnlen pc_in existsb orb]; pcd.
      - unlock_tac I Hi Hp t.
      - unfold resz. cbn [hpc_]. rewrite Hp. reflexivity. }
  pose proof (iv_w4 s I i t Hi Hp) as Hsn.
  assert (Hpw : pc_in (hpc_ t) [W1; W2; W3; W4; W5] = true) by (rewrite Hp; reflexivity).
  destruct (iv_bi s I i t Hi Hpw) as [Hb Hsl].
  match goal with |- context [upd_nth i ?x _] => set (t5 := x) end.
  constructor; cbn [lens stores lk hcur resizing spec hths].
  - apply (iv_cur s I).
  - apply (iv_len s I).
  - intros g b. pose proof (hcnt_upd (holder g b) t5 _ i t Hi) as U. pose proof (iv_lock s I g b).
    assert (Hh : holder g b t5 = holder g b t) by (unfold holder, t5; cbn [hpc_ hsnap hbi]; rewrite Hp; reflexivity).
    rewrite Hh in U. lia.
  - pose proof (hcnt_upd resz t5 _ i t Hi) as U. pose proof (iv_resz s I).
    assert (Hh : resz t5 = resz t) by (unfold resz, t5; cbn [hpc_]; rewrite Hp; reflexivity).
    rewrite Hh in U. lia.
  - intros j u Hj Hpu. thr Hj Hlt; [unfold t5; cbn [hpc_ hsnap hbi hkey] in *; split; assumption|apply (iv_bi s I j u Hj Hpu)].
  - intros j u Hj Hpu. thr Hj Hlt; [discriminate Hpu|apply (iv_w4 s I j u Hj Hpu)].
  - intros j u jr r Hj Hjr Hpu Hsu Hpr. thr Hj Hlt; [discriminate Hpu|]. thr Hjr Hlt; [discriminate Hpr|].
    eapply (iv_adm s I); eassumption.
  - intros jr r Hjr Hpr. thr Hjr Hlt; [discriminate Hpr|].
    destruct (iv_rs s I jr r Hjr Hpr) as (Hrs & Hr2 & Hnl & Hnt).
    split; [exact Hrs|]. split; [exact Hr2|]. split; [exact Hnl|].
    intros k. rewrite Hnt. unfold upd_store. rewrite Hrs, Hsn, Nat.eqb_refl. unfold upd_fun.
    destruct (Z.eqb_spec k (hkey t)) as [->|]; [|reflexivity].
    assert (Hge : hcop r (hbi t) = false) by (apply (iv_adm s I i t jr r Hi Hjr); [rewrite Hp; reflexivity|exact Hsn|exact Hpr]).
    rewrite Hb, Hsn in Hge.
    match goal with |- context [bidx_of hidx ?s' _ _] =>
      lazymatch s' with mkHcs _ _ _ _ _ _ _ _ _ _ _ => rewrite (bidx_of_ext s' s) by reflexivity end end.
    rewrite Hge. reflexivity.
  - intros k. unfold upd_store. rewrite Hsn, Nat.eqb_refl. unfold upd_fun.
    destruct (Z.eqb k (hkey t)); rewrite (iv_spec s I); reflexivity.
Qed.

Lemma step_R2 s i t o : HCInv s -> nth_error (hths s) i = Some t -> hpc_ t = R2 -> HCInv (hstep hidx KU s i o).
Proof.
  intros I Hi Hp. unfold hstep. rewrite Hi, Hp. pose proof (nth_error_lt _ _ _ Hi) as Hlt.
  assert (Hpr : pc_in (hpc_ t) [R1; R2] = true) by (rewrite Hp; reflexivity).
  destruct (iv_rs s I i t Hi Hpr) as (Hsn & Hfull & Hnl & Hnt). specialize (Hfull Hp).
  assert (Hrt : resz t = true) by (unfold resz; rewrite Hp; reflexivity).
  (* nobody is inside the old table's update section *)
  assert (Hnone : forall j u, nth_error (hths s) j = Some u -> pc_in (hpc_ u) [W3; W4] = true -> hsnap u = hcur s -> False).
  { intros j u Hj Hpu Hsu. pose proof (iv_adm s I j u i t Hj Hi Hpu Hsu Hpr) as Hge.
    assert (Hpw : pc_in (hpc_ u) [W1; W2; W3; W4; W5] = true) by (destruct (hpc_ u); try discriminate Hpu; reflexivity).
    destruct (iv_bi s I j u Hj Hpw) as [Hb _]. pose proof (bidx_lt s (hsnap u) (hkey u) (iv_len s I)) as Hl.
    rewrite Hsu in *. rewrite Hfull in Hge by lia. discriminate Hge. }
  constructor; cbn [lens stores lk hcur resizing spec hths].
  - rewrite app_length. cbn. lia.
  - apply Forall_app. split; [apply (iv_len s I)|constructor; [exact Hnl|constructor]].
  - intros g b. pose proof (hcnt_upd (holder g b) (set_pc t R3) _ i t Hi) as U. pose proof (iv_lock s I g b).
    assert (Hh : holder g b (set_pc t R3) = holder g b t) by (unfold holder; cbn [set_pc hpc_ hsnap hbi]; rewrite Hp; reflexivity).
    rewrite Hh in U. lia.
  - pose proof (hcnt_upd resz (set_pc t R3) _ i t Hi) as U. pose proof (iv_resz s I).
    assert (Hh : resz (set_pc t R3) = resz t) by (unfold resz; cbn [set_pc hpc_]; rewrite Hp; reflexivity).
    rewrite Hh in U. lia.
  - intros j u Hj Hpu. thr Hj Hlt; [discriminate Hpu|].
    destruct (iv_bi s I j u Hj Hpu) as [Hb Hl]. split; [|rewrite app_length; cbn; lia].
    rewrite Hb. unfold bidx_of. f_equal. symmetry. apply len_of_app. exact Hl.
  - intros j u Hj Hpu. thr Hj Hlt; [discriminate Hpu|]. exfalso.
    apply (Hnone j u Hj); [rewrite Hpu; reflexivity|apply (iv_w4 s I j u Hj Hpu)].
  - intros j u jr r Hj Hjr Hpu Hsu Hpr'. thr Hj Hlt; [discriminate Hpu|]. exfalso.
    assert (Hpw : pc_in (hpc_ u) [W1; W2; W3; W4; W5] = true) by (destruct (hpc_ u); try discriminate Hpu; reflexivity).
    destruct (iv_bi s I j u Hj Hpw) as [_ Hl]. lia.
  - intros jr r Hjr Hpr'. thr Hjr Hlt; [discriminate Hpr'|]. exfalso.
    assert (Hrr : resz r = true) by (unfold resz; destruct (hpc_ r); try discriminate Hpr'; reflexivity).
    pose proof (resz_one s I jr r i t Hjr Hi Hrr Hrt). lia.
  - intros k. unfold upd_store. rewrite Nat.eqb_refl, Hnt, Hsn.
    pose proof (bidx_lt s (hcur s) k (iv_len s I)) as Hl. rewrite (Hfull _ Hl). apply (iv_spec s I).
Qed.

Lemma step_G0 s i t o : HCInv s -> nth_error (hths s) i = Some t -> hpc_ t = G0 -> HCInv (hstep hidx KU s i o).
Proof.
  intros I Hi Hp. unfold hstep. rewrite Hi, Hp.
  apply (inv_local s i t); try assumption; cbn [hpc_ hsnap hbi hkey pc_in existsb orb]; pcd.
  - intros g b. unfold holder. cbn [hpc_]. rewrite Hp. reflexivity.
  - unfold resz. cbn [hpc_]. rewrite Hp. reflexivity.
Qed.
Lemma step_G1 s i t o : HCInv s -> nth_error (hths s) i = Some t -> hpc_ t = G1 -> HCInv (hstep hidx KU s i o).
Proof.
  intros I Hi Hp. unfold hstep. rewrite Hi, Hp.
  apply (inv_local s i t); try assumption; cbn [hpc_ hsnap hbi hkey pc_in existsb orb]; pcd.
  - intros g b. unfold holder. cbn [hpc_]. rewrite Hp. reflexivity.
  - unfold resz. cbn [hpc_]. rewrite Hp. reflexivity.
Qed.

Lemma step_I0 s i t o : HCInv s -> nth_error (hths s) i = Some t -> hpc_ t = I0 -> HCInv (hstep hidx KU s i o).
Proof.
  intros I Hi Hp. unfold hstep. rewrite Hi, Hp.
  apply (inv_local s i t); try assumption; cbn [hpc_ hsnap hbi hkey pc_in existsb orb]; pcd.
  - intros g b. unfold holder. cbn [hpc_]. rewrite Hp. reflexivity.
  - unfold resz. cbn [hpc_]. rewrite Hp. reflexivity.
Qed.
Lemma step_I1 s i t o : HCInv s -> nth_error (hths s) i = Some t -> hpc_ t = I1 -> HCInv (hstep hidx KU s i o).
Proof.
  intros I Hi Hp. unfold hstep. rewrite Hi, Hp.
  destruct (Nat.ltb (hbi t) (len_of s (hsnap t))); [destruct (lk s (hsnap t) (hbi t)); [exact I|]|];
  (apply (inv_local s i t); try assumption; cbn [set_pc hpc_ hsnap hbi hkey pc_in existsb orb]; pcd;
   [intros g b; unfold holder; cbn [set_pc hpc_]; rewrite Hp; reflexivity
   |unfold resz; cbn [set_pc hpc_]; rewrite Hp; reflexivity]).
Qed.

Theorem HCInv_step s i o : HCInv s -> HCInv (hstep hidx KU s i o).
Proof.
  intros I. destruct (nth_error (hths s) i) as [t|] eqn:Hi; [|unfold hstep; rewrite Hi; exact I].
  destruct (hpc_ t) eqn:Hp.
  - eapply step_W0; eassumption.
  - eapply step_W1; eassumption.
  - eapply step_W2; eassumption.
  - eapply step_Wwait; eassumption.
  - eapply step_W3; eassumption.
  - eapply step_W4; eassumption.
  - eapply step_W5; eassumption.
  - eapply step_Wadd; eassumption.
  - eapply step_W6; eassumption.
  - eapply step_R0; eassumption.
  - eapply step_Rwait; eassumption.
  - eapply step_R1; eassumption.
  - eapply step_R2; eassumption.
  - eapply step_R3; eassumption.
  - unfold hstep. rewrite Hi, Hp. exact I.
  - eapply step_G0; eassumption.
  - eapply step_G1; eassumption.
  - unfold hstep. rewrite Hi, Hp. exact I.
  - eapply step_I0; eassumption.
  - eapply step_I1; eassumption.
  - unfold hstep. rewrite Hi, Hp. exact I.
Qed.

Lemma HCInv_run sched : forall s, HCInv s -> HCInv (hrun hidx KU s sched).
Proof.
  induction sched as [|e sched IH]; intros s I; [exact I|]. cbn [hrun fold_left]. apply IH. apply HCInv_step. exact I.
Qed.

Lemma hcnt_all_false f l : (forall t, In t l -> f t = false) -> hcnt f l = 0.
Proof.
  induction l as [|h t IH]; intros H; [reflexivity|]. rewrite hcnt_cons, (H h (or_introl eq_refl)), IH; [reflexivity|].
  intros x Hx. apply H. right. exact Hx.
Qed.

Lemma HCInv_init n0 ops : 1 <= n0 -> HCInv (hinit n0 ops).
Proof.
  intros Hn.
  assert (Hall : forall j t, nth_error (hths (hinit n0 ops)) j = Some t -> pc_in (hpc_ t) [W0; G0; I0] = true).
  { intros j t Hj. apply nth_error_In in Hj. cbn [hinit hths] in Hj. apply in_map_iff in Hj.
    destruct Hj as ([k f|k|] & <- & _); reflexivity. }
  constructor.
  - cbn. lia.
  - cbn. constructor; [exact Hn|constructor].
  - intros g b. cbn [hinit lk hths]. apply hcnt_all_false. intros t Ht. apply in_map_iff in Ht.
    destruct Ht as ([k f|k|] & <- & _); reflexivity.
  - cbn [hinit resizing hths]. apply hcnt_all_false. intros t Ht. apply in_map_iff in Ht.
    destruct Ht as ([k f|k|] & <- & _); reflexivity.
  - intros j t Hj Hp. pose proof (Hall j t Hj) as E. destruct (hpc_ t); discriminate.
  - intros j t Hj Hp. pose proof (Hall j t Hj) as E. rewrite Hp in E. discriminate E.
  - intros j t jr r Hj _ Hp. pose proof (Hall j t Hj) as E. destruct (hpc_ t); discriminate.
  - intros jr r Hjr Hp. pose proof (Hall jr r Hjr) as E. destruct (hpc_ r); discriminate.
  - intros k. reflexivity.
Qed.

(* ---- readers, and how often a function is applied ---- *)
Definition dflt : Z -> option Z := fun _ => None.
(* a thread has applied its function: past its update step; while resizing: unless it asked for the
   resize before its update *)
Definition applied (t : hthread) : bool :=
  pc_in (hpc_ t) [W5; Wadd; W6; HDone] || (pc_in (hpc_ t) [R0; Rwait; R1; R2; R3] && negb (hretry t)).

(* an iteration in progress: the buckets below [hbi] have been read; every key of those buckets was
   yielded with the binding it had in the abstract map at index [hwitf k], not older than the iteration *)
Definition iter_ok (s : hcstate) (t : hthread) : Prop :=
  1 <= hst t <= length (hist s) /\ hsnap t <= hcur s /\ (hsnap t < hcur s -> hst t - 1 <= froz s (hsnap t)) /\
  (hpc_ t = IDone -> len_of s (hsnap t) <= hbi t) /\
  forall k, bidx_of hidx s (hsnap t) k < hbi t ->
            hst t - 1 <= hwitf t k < length (hist s) /\ nth (hwitf t k) (hist s) dflt k = hyield t k.

Record HRInv (s : hcstate) : Prop := {
  r_last : S (hcur s) = length (lens s);
  r_hist : 1 <= length (hist s);
  r_spec : forall k, spec s k = nth (length (hist s) - 1) (hist s) dflt k;
  r_froz : forall g, g < hcur s -> froz s g < length (hist s) /\ forall k, stores s g k = nth (froz s g) (hist s) dflt k;
  r_rd : forall j t, nth_error (hths s) j = Some t -> hpc_ t = G1 ->
         1 <= hst t <= length (hist s) /\ hsnap t <= hcur s /\ (hsnap t < hcur s -> hst t - 1 <= froz s (hsnap t));
  r_done : forall j t, nth_error (hths s) j = Some t -> hpc_ t = GDone ->
         hst t - 1 <= hwit t < length (hist s) /\ nth (hwit t) (hist s) dflt (hkey t) = hres t;
  r_app : forall j t, nth_error (hths s) j = Some t -> happ t = b2n (applied t);
  r_it : forall j t, nth_error (hths s) j = Some t -> pc_in (hpc_ t) [I1; IDone] = true -> iter_ok s t
}.

Lemma hr_frame s s' i t t' :
  HRInv s -> nth_error (hths s) i = Some t ->
  lens s' = lens s -> stores s' = stores s -> hcur s' = hcur s -> spec s' = spec s -> hist s' = hist s -> froz s' = froz s ->
  hths s' = upd_nth i t' (hths s) ->
  (hpc_ t' = G1 -> 1 <= hst t' <= length (hist s) /\ hsnap t' <= hcur s /\ (hsnap t' < hcur s -> hst t' - 1 <= froz s (hsnap t'))) ->
  (hpc_ t' = GDone -> hst t' - 1 <= hwit t' < length (hist s) /\ nth (hwit t') (hist s) dflt (hkey t') = hres t') ->
  happ t' = b2n (applied t') ->
  (pc_in (hpc_ t') [I1; IDone] = true -> iter_ok s t') ->
  HRInv s'.
Proof.
  intros R Hi El Es Ec Esp Eh Ef Et H1 H2 H3 H4. pose proof (nth_error_lt _ _ _ Hi) as Hlt.
  assert (Eit : forall u, iter_ok s' u <-> iter_ok s u).
  { intros u. unfold iter_ok, bidx_of, len_of. rewrite El, Ec, Eh, Ef. reflexivity. }
  constructor; rewrite ?El, ?Es, ?Ec, ?Esp, ?Eh, ?Ef, ?Et.
  - apply (r_last s R).
  - apply (r_hist s R).
  - apply (r_spec s R).
  - apply (r_froz s R).
  - intros j u Hj Hp. thr Hj Hlt; [apply H1; exact Hp|apply (r_rd s R j u Hj Hp)].
  - intros j u Hj Hp. thr Hj Hlt; [apply H2; exact Hp|apply (r_done s R j u Hj Hp)].
  - intros j u Hj. thr Hj Hlt; [exact H3|apply (r_app s R j u Hj)].
  - intros j u Hj Hp. apply Eit. thr Hj Hlt; [apply H4; exact Hp|apply (r_it s R j u Hj Hp)].
Qed.

Ltac frame_tac s i t R Hi Hp :=
  eapply (hr_frame s _ i t); [exact R|exact Hi|reflexivity|reflexivity|reflexivity|reflexivity|reflexivity|reflexivity|reflexivity
    |cbn [set_pc hpc_]; pcd|cbn [set_pc hpc_]; pcd
    |unfold applied; cbn [set_pc hpc_ happ hretry]; rewrite (r_app s R i t Hi); unfold applied; rewrite Hp; reflexivity
    |cbn [set_pc hpc_]; pcd].

Lemma ret_pc_applied t : pc_in (hpc_ t) [Rwait; R3] = true -> applied (ret_pc t) = applied t.
Proof. intros H. unfold applied, ret_pc. cbn [hpc_ hretry]. destruct (hpc_ t); try discriminate H; destruct (hretry t); reflexivity. Qed.

Ltac frame_ret s i t R Hi Hp :=
  eapply (hr_frame s _ i t); [exact R|exact Hi|reflexivity|reflexivity|reflexivity|reflexivity|reflexivity|reflexivity|reflexivity
    |ret_pcd t|ret_pcd t
    |rewrite ret_pc_applied by (rewrite Hp; reflexivity); apply (r_app s R i t Hi)
    |intros Hq; exfalso; destruct (ret_pc_cases t) as [Erp|Erp]; rewrite Erp in Hq; discriminate Hq].

Theorem HRInv_step s i o : HCInv s -> HRInv s -> HRInv (hstep hidx KU s i o).
Proof.
  intros I R. destruct (nth_error (hths s) i) as [t|] eqn:Hi; [|unfold hstep; rewrite Hi; exact R].
  pose proof (nth_error_lt _ _ _ Hi) as Hlt.
  destruct (hpc_ t) eqn:Hp; unfold hstep; rewrite Hi, Hp.
  - (* W0 *) frame_tac s i t R Hi Hp.
  - (* W1 *) destruct (lk s (hsnap t) (hbi t)); [exact R|frame_tac s i t R Hi Hp].
  - (* W2 *) destruct (resizing s); frame_tac s i t R Hi Hp.
  - (* Wwait *) destruct (resizing s); [exact R|frame_tac s i t R Hi Hp].
  - (* W3 *) destruct (Nat.eqb (hcur s) (hsnap t)); frame_tac s i t R Hi Hp.
  - (* W4 *)
    destruct o as [|o]; [|frame_tac s i t R Hi Hp].
    pose proof (iv_w4 s I i t Hi Hp) as Hsn.
    match goal with |- context [upd_nth i ?x _] => set (t5 := x) end.
    constructor; cbn [lens stores lk hcur resizing spec hist froz hths].
    + apply (r_last s R).
    + rewrite app_length. cbn. lia.
    + intros k. rewrite app_length. cbn [length]. replace (length (hist s) + 1 - 1) with (length (hist s)) by lia.
      rewrite app_nth2 by lia. rewrite Nat.sub_diag. reflexivity.
    + intros g Hg. destruct (r_froz s R g Hg) as [Hf Hst]. split; [rewrite app_length; lia|].
      intros k. rewrite app_nth1 by exact Hf. unfold upd_store.
      destruct (Nat.eqb_spec g (hsnap t)) as [->|]; [lia|apply Hst].
    + intros j u Hj Hpu. thr Hj Hlt; [discriminate Hpu|]. rewrite app_length. destruct (r_rd s R j u Hj Hpu) as (H1 & H2 & H3).
      split; [lia|]. split; assumption.
    + intros j u Hj Hpu. thr Hj Hlt; [discriminate Hpu|]. destruct (r_done s R j u Hj Hpu) as (H1 & H2).
      rewrite app_length. split; [lia|]. rewrite app_nth1 by lia. exact H2.
    + intros j u Hj. thr Hj Hlt; [|apply (r_app s R j u Hj)]. unfold t5. cbn [happ hpc_].
      rewrite (r_app s R i t Hi). unfold applied. cbn [hpc_ hretry]. rewrite Hp. reflexivity.
    + intros j u Hj Hpu. thr Hj Hlt; [discriminate Hpu|].
      destruct (r_it s R j u Hj Hpu) as (H1 & H2 & H3 & H4 & H5). unfold iter_ok. cbn [lens stores lk hcur resizing spec hist froz hths].
      rewrite app_length. split; [lia|]. split; [exact H2|]. split; [exact H3|]. split; [exact H4|].
      intros k Hk. destruct (H5 k Hk) as [Hw Hv]. split; [lia|]. rewrite app_nth1 by lia. exact Hv.
  - (* W5 *) frame_tac s i t R Hi Hp.
  - (* Wadd *) frame_tac s i t R Hi Hp.
  - (* W6 *) destruct o as [|o]; frame_tac s i t R Hi Hp.
  - (* R0 *) destruct (resizing s); [frame_tac s i t R Hi Hp|destruct o as [|o]; [cbv zeta|]; frame_tac s i t R Hi Hp].
  - (* Rwait *) destruct (resizing s); [exact R|frame_ret s i t R Hi Hp].
  - (* R1 *) destruct (forallb (hcop t) (seq 0 (len_of s (hsnap t)))); [frame_tac s i t R Hi Hp|].
    destruct (Nat.ltb o (len_of s (hsnap t)) && negb (hcop t o) && negb (lk s (hsnap t) o)); [frame_tac s i t R Hi Hp|exact R].
  - (* R2 *)
    pose proof (r_last s R) as HL. pose proof (r_hist s R) as HH.
    constructor; cbn [lens stores lk hcur resizing spec hist froz hths].
    + rewrite app_length. cbn. lia.
    + exact HH.
    + apply (r_spec s R).
    + intros g Hg. unfold upd_store. destruct (Nat.eqb_spec g (length (lens s))) as [|_]; [lia|].
      destruct (Nat.eqb_spec g (hcur s)) as [->|Hne].
      * split; [lia|]. intros k. rewrite (iv_spec s I). apply (r_spec s R).
      * apply (r_froz s R). lia.
    + intros j u Hj Hpu. thr Hj Hlt; [discriminate Hpu|]. destruct (r_rd s R j u Hj Hpu) as (H1 & H2 & H3).
      split; [exact H1|]. split; [lia|]. intros _. destruct (Nat.eqb_spec (hsnap u) (hcur s)) as [E|Hne]; [lia|apply H3; lia].
    + intros j u Hj Hpu. thr Hj Hlt; [discriminate Hpu|]. apply (r_done s R j u Hj Hpu).
    + intros j u Hj. thr Hj Hlt; [|apply (r_app s R j u Hj)]. unfold applied. cbn [set_pc happ hpc_ hretry].
      rewrite (r_app s R i t Hi). unfold applied. rewrite Hp. reflexivity.
    + intros j u Hj Hpu. thr Hj Hlt; [discriminate Hpu|].
      destruct (r_it s R j u Hj Hpu) as (H1 & H2 & H3 & H4 & H5). unfold iter_ok. cbn [lens stores lk hcur resizing spec hist froz hths].
      assert (Hsl : hsnap u < length (lens s)) by lia.
      split; [exact H1|]. split; [lia|]. split.
      { intros _. destruct (Nat.eqb_spec (hsnap u) (hcur s)) as [E|Hne]; [lia|apply H3; lia]. }
      split.
      { intros Hd. rewrite len_of_app by exact Hsl. apply H4. exact Hd. }
      intros k Hk. apply H5. unfold bidx_of in *. rewrite len_of_app in Hk by exact Hsl. exact Hk.
  - (* R3 *) frame_ret s i t R Hi Hp.
  - (* HDone *) exact R.
  - (* G0 *)
    eapply (hr_frame s _ i t); [exact R|exact Hi|reflexivity|reflexivity|reflexivity|reflexivity|reflexivity|reflexivity|reflexivity
      |cbn [hpc_ hst hsnap]|cbn [hpc_]; pcd|unfold applied; cbn [hpc_ happ hretry]; rewrite (r_app s R i t Hi); unfold applied; rewrite Hp; reflexivity
      |cbn [hpc_]; pcd].
    intros _. pose proof (r_hist s R). split; [lia|]. split; lia.
  - (* G1 *)
    eapply (hr_frame s _ i t); [exact R|exact Hi|reflexivity|reflexivity|reflexivity|reflexivity|reflexivity|reflexivity|reflexivity
      |cbn [hpc_]; pcd|cbn [hpc_ hst hwit hres hkey]|unfold applied; cbn [hpc_ happ hretry]; rewrite (r_app s R i t Hi); unfold applied; rewrite Hp; reflexivity
      |cbn [hpc_]; pcd].
    intros _. destruct (r_rd s R i t Hi Hp) as (H1 & H2 & H3). pose proof (r_hist s R).
    destruct (Nat.eqb_spec (hsnap t) (hcur s)) as [E|Hne].
    + split; [lia|]. rewrite E, (iv_spec s I). symmetry. apply (r_spec s R).
    + assert (Hl : hsnap t < hcur s) by lia. destruct (r_froz s R _ Hl) as [Hf Hst]. specialize (H3 Hl).
      split; [lia|]. symmetry. apply Hst.
  - (* GDone *) exact R.
  - (* I0 *)
    eapply (hr_frame s _ i t); [exact R|exact Hi|reflexivity|reflexivity|reflexivity|reflexivity|reflexivity|reflexivity|reflexivity
      |cbn [hpc_]; pcd|cbn [hpc_]; pcd|unfold applied; cbn [hpc_ happ hretry]; rewrite (r_app s R i t Hi); unfold applied; rewrite Hp; reflexivity
      |].
    intros _. unfold iter_ok. cbn [hpc_ hst hsnap hbi hwitf hyield]. pose proof (r_hist s R).
    split; [lia|]. split; [lia|]. split; [lia|]. split; [discriminate|]. intros k Hk. lia.
  - (* I1 *)
    assert (Hq : pc_in (hpc_ t) [I1; IDone] = true) by (rewrite Hp; reflexivity).
    destruct (r_it s R i t Hi Hq) as (H1 & H2 & H3 & H4 & H5). pose proof (r_hist s R) as HH.
    destruct (Nat.ltb_spec (hbi t) (len_of s (hsnap t))) as [Hlb|Hge].
    + destruct (lk s (hsnap t) (hbi t)); [exact R|].
      eapply (hr_frame s _ i t); [exact R|exact Hi|reflexivity|reflexivity|reflexivity|reflexivity|reflexivity|reflexivity|reflexivity
        |cbn [hpc_]; pcd|cbn [hpc_]; pcd|unfold applied; cbn [hpc_ happ hretry]; rewrite (r_app s R i t Hi); unfold applied; rewrite Hp; reflexivity
        |].
      intros _. unfold iter_ok. cbn [hpc_ hst hsnap hbi hwitf hyield].
      split; [exact H1|]. split; [exact H2|]. split; [exact H3|]. split; [discriminate|].
      intros k Hk. destruct (Nat.eqb_spec (bidx_of hidx s (hsnap t) k) (hbi t)) as [Eb|Nb].
      * destruct (Nat.eqb_spec (hsnap t) (hcur s)) as [E|Hne].
        -- split; [lia|]. rewrite E, (iv_spec s I). symmetry. apply (r_spec s R).
        -- assert (Hl : hsnap t < hcur s) by lia. destruct (r_froz s R _ Hl) as [Hf Hst]. specialize (H3 Hl).
           split; [lia|]. symmetry. apply Hst.
      * apply H5. lia.
    + eapply (hr_frame s _ i t); [exact R|exact Hi|reflexivity|reflexivity|reflexivity|reflexivity|reflexivity|reflexivity|reflexivity
        |cbn [set_pc hpc_]; pcd|cbn [set_pc hpc_]; pcd|unfold applied; cbn [set_pc hpc_ happ hretry]; rewrite (r_app s R i t Hi); unfold applied; rewrite Hp; reflexivity
        |].
      intros _. unfold iter_ok. cbn [set_pc hpc_ hst hsnap hbi hwitf hyield].
      split; [exact H1|]. split; [exact H2|]. split; [exact H3|]. split; [intros _; exact Hge|exact H5].
  - (* IDone *) exact R.
Qed.

Lemma HRInv_init n0 ops : HRInv (hinit n0 ops).
Proof.
  assert (Hall : forall j t, nth_error (hths (hinit n0 ops)) j = Some t -> pc_in (hpc_ t) [W0; G0; I0] = true /\ happ t = 0).
  { intros j t Hj. apply nth_error_In in Hj. cbn [hinit hths] in Hj. apply in_map_iff in Hj.
    destruct Hj as ([k f|k|] & <- & _); split; reflexivity. }
  constructor.
  - reflexivity.
  - cbn. lia.
  - intros k. reflexivity.
  - intros g Hg. cbn in Hg. lia.
  - intros j t Hj Hp. destruct (Hall j t Hj) as [E _]. rewrite Hp in E. discriminate E.
  - intros j t Hj Hp. destruct (Hall j t Hj) as [E _]. rewrite Hp in E. discriminate E.
  - intros j t Hj. destruct (Hall j t Hj) as [E ->]. unfold applied. destruct (hpc_ t); try discriminate E; reflexivity.
  - intros j t Hj Hp. destruct (Hall j t Hj) as [E _]. destruct (hpc_ t); discriminate.
Qed.

Lemma both_run sched : forall s, HCInv s -> HRInv s -> HCInv (hrun hidx KU s sched) /\ HRInv (hrun hidx KU s sched).
Proof.
  induction sched as [|e sched IH]; intros s I R; [split; assumption|]. cbn [hrun fold_left].
  apply IH; [apply HCInv_step; exact I|apply HRInv_step; assumption].
Qed.

(* ---- what a user relies on ---- *)

(* [spec] is only ever changed by the W4 step, to [upd spec k (f (spec k))] (by definition of hstep), and
   [hist] lists its successive values.  The theorem: the published table IS that map, at every moment. *)
Theorem conc_table_is_spec n0 ops sched : 1 <= n0 ->
  let s := hrun hidx KU (hinit n0 ops) sched in forall k, stores s (hcur s) k = spec s k.
Proof. intros Hn s k. apply (iv_spec s). apply HCInv_run. apply HCInv_init. exact Hn. Qed.

(* at most one thread holds a given bucket lock, at most one is resizing *)
Theorem conc_bucket_mutex n0 ops sched g b : 1 <= n0 ->
  hcnt (holder g b) (hths (hrun hidx KU (hinit n0 ops) sched)) <= 1.
Proof.
  intros Hn. rewrite (iv_lock _ (HCInv_run sched _ (HCInv_init n0 ops Hn))). apply b2n_le1.
Qed.
Theorem conc_resize_mutex n0 ops sched : 1 <= n0 -> hcnt resz (hths (hrun hidx KU (hinit n0 ops) sched)) <= 1.
Proof.
  intros Hn. rewrite (iv_resz _ (HCInv_run sched _ (HCInv_init n0 ops Hn))). apply b2n_le1.
Qed.

(* a writer about to apply its function holds the lock of the key's bucket in the CURRENT table, and the
   binding it is about to read there is the abstract map's: the function sees the value every earlier
   update left, and its result is installed in the same step (atomic per call) *)
Theorem conc_update_sees_current n0 ops sched j t : 1 <= n0 ->
  let s := hrun hidx KU (hinit n0 ops) sched in
  nth_error (hths s) j = Some t -> hpc_ t = W4 ->
  hsnap t = hcur s /\ stores s (hsnap t) (hkey t) = spec s (hkey t) /\ lk s (hsnap t) (hbi t) = true.
Proof.
  intros Hn s Hj Hp. pose proof (HCInv_run sched _ (HCInv_init n0 ops Hn)) as I. fold s in I.
  pose proof (iv_w4 s I j t Hj Hp) as E. split; [exact E|]. split; [rewrite E; apply (iv_spec s I)|].
  apply (holder_locked s j t I Hj). rewrite Hp. reflexivity.
Qed.

(* every writer has applied its function exactly once when it is past its update step, and not at all
   before: never twice, whatever retries the resizes forced *)
Theorem conc_applied_exactly_once n0 ops sched j t : 1 <= n0 ->
  nth_error (hths (hrun hidx KU (hinit n0 ops) sched)) j = Some t -> happ t = b2n (applied t).
Proof.
  intros Hn. destruct (both_run sched _ (HCInv_init n0 ops Hn) (HRInv_init n0 ops)) as [_ R]. apply (r_app _ R).
Qed.

(* a finished lock-free read returned the binding the key had in the abstract map at some moment
   between the read's start (its table load) and its end: index [hwit] of the history, not older than
   the map that was current when the read began *)
Theorem conc_read_regular n0 ops sched j t : 1 <= n0 ->
  let s := hrun hidx KU (hinit n0 ops) sched in
  nth_error (hths s) j = Some t -> hpc_ t = GDone ->
  hst t - 1 <= hwit t < length (hist s) /\ nth (hwit t) (hist s) dflt (hkey t) = hres t.
Proof.
  intros Hn s. destruct (both_run sched _ (HCInv_init n0 ops Hn) (HRInv_init n0 ops)) as [_ R]. apply (r_done _ R).
Qed.

(* in particular: with no update in flight during the read, it returns the current binding *)
Corollary conc_read_quiescent n0 ops sched j t : 1 <= n0 ->
  let s := hrun hidx KU (hinit n0 ops) sched in
  nth_error (hths s) j = Some t -> hpc_ t = GDone -> hst t = length (hist s) -> hres t = spec s (hkey t).
Proof.
  intros Hn s Hj Hp Hst. destruct (conc_read_regular n0 ops sched j t Hn Hj Hp) as [Hw Hv]. fold s in Hw, Hv.
  destruct (both_run sched _ (HCInv_init n0 ops Hn) (HRInv_init n0 ops)) as [_ R]. fold s in R.
  rewrite (r_spec s R). rewrite <- Hv. f_equal. lia.
Qed.

(* a finished iteration: every key was yielded (or not) as it was bound (or not) in the abstract map at
   some moment between the iteration's table load and its end *)
Theorem conc_iter_sound n0 ops sched j t : 1 <= n0 ->
  let s := hrun hidx KU (hinit n0 ops) sched in
  nth_error (hths s) j = Some t -> hpc_ t = IDone ->
  forall k, hst t - 1 <= hwitf t k < length (hist s) /\ nth (hwitf t k) (hist s) dflt k = hyield t k.
Proof.
  intros Hn s Hj Hp k. destruct (both_run sched _ (HCInv_init n0 ops Hn) (HRInv_init n0 ops)) as [I R]. fold s in I, R.
  assert (Hq : pc_in (hpc_ t) [I1; IDone] = true) by (rewrite Hp; reflexivity).
  destruct (r_it s R j t Hj Hq) as (_ & _ & _ & H4 & H5). apply H5.
  pose proof (bidx_lt s (hsnap t) k (iv_len s I)). specialize (H4 Hp). lia.
Qed.

(* ... so a key present during the whole iteration is yielded, with a binding it had meanwhile *)
Corollary conc_iter_complete n0 ops sched j t k : 1 <= n0 ->
  let s := hrun hidx KU (hinit n0 ops) sched in
  nth_error (hths s) j = Some t -> hpc_ t = IDone ->
  (forall w, hst t - 1 <= w < length (hist s) -> nth w (hist s) dflt k <> None) -> hyield t k <> None.
Proof.
  intros Hn s Hj Hp Hall. destruct (conc_iter_sound n0 ops sched j t Hn Hj Hp k) as [Hw Hv]. fold s in Hw, Hv.
  rewrite <- Hv. apply Hall. exact Hw.
Qed.

(* ... and a key absent during the whole iteration (removed before it began, not re-inserted) is not *)
Corollary conc_iter_no_ghost n0 ops sched j t k : 1 <= n0 ->
  let s := hrun hidx KU (hinit n0 ops) sched in
  nth_error (hths s) j = Some t -> hpc_ t = IDone ->
  (forall w, hst t - 1 <= w < length (hist s) -> nth w (hist s) dflt k = None) -> hyield t k = None.
Proof.
  intros Hn s Hj Hp Hall. destruct (conc_iter_sound n0 ops sched j t Hn Hj Hp k) as [Hw Hv]. fold s in Hw, Hv.
  rewrite <- Hv. apply Hall. exact Hw.
Qed.

End Proofs.
