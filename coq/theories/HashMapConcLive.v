(* HashMapConcLive.v — no deadlock in the hash table's concurrency protocol: in every state that
   satisfies the invariant (so in every reachable state), if no step of any thread with any input
   changes the state, every thread has finished.  A thread waiting for a bucket lock is waiting for a
   holder that can move; a thread waiting for the resize is waiting for a resizer that can move (or
   that waits for such a holder).  This is a safety statement (no stuck configuration); that every
   schedule is finite is not claimed. *)
From Coq Require Import List Arith Bool ZArith Lia.
Import ListNotations.
From Otter Require Import HashMapConc HashMapConcProofs.
Local Open Scope nat_scope.

Section Live.
Variable hidx : nat -> Z -> nat.
Variable KU : list Z.

Lemma hcnt_pos_ex f : forall l, 1 <= hcnt f l -> exists j u, nth_error l j = Some u /\ f u = true.
Proof.
  induction l as [|h t IH]; intros H; [cbn in H; lia|]. rewrite hcnt_cons in H.
  destruct (f h) eqn:E.
  - exists 0, h. split; [reflexivity|exact E].
  - cbn in H. destruct (IH ltac:(lia)) as (j & u & Hj & Hu). exists (S j), u. split; assumption.
Qed.

(* if thread i's step leaves the state unchanged, thread i itself is unchanged *)
Lemma stuck_thread s s' i t t' :
  nth_error (hths s) i = Some t -> hths s' = upd_nth i t' (hths s) -> s' = s -> t' = t.
Proof.
  intros Hi Ht E. subst s'. pose proof (nth_error_lt _ _ _ Hi) as Hlt.
  pose proof (nth_error_upd_nth_eq t' (hths s) i Hlt) as H. rewrite <- Ht, Hi in H. injection H as ->. reflexivity.
Qed.

Definition finished (t : hthread) : Prop := hpc_ t = HDone \/ hpc_ t = GDone \/ hpc_ t = IDone.
Definition stuck (s : hcstate) : Prop := forall i o, hstep hidx KU s i o = s.

(* a thread holding a bucket lock can always move *)
Lemma holder_moves s j u : nth_error (hths s) j = Some u -> pc_in (hpc_ u) [W2; W3; W4; W5] = true -> stuck s -> False.
Proof.
  intros Hj Hp St. specialize (St j 0). unfold hstep in St. rewrite Hj in St.
  destruct (hpc_ u) eqn:E; try discriminate Hp.
  - destruct (resizing s);
      (apply (f_equal (fun x => x)) in St;
       match type of St with ?a = _ => assert (Ht := stuck_thread s a j u _ Hj eq_refl St) end;
       apply (f_equal hpc_) in Ht; cbn in Ht; rewrite E in Ht; discriminate Ht).
  - destruct (Nat.eqb (hcur s) (hsnap u));
      (match type of St with ?a = _ => assert (Ht := stuck_thread s a j u _ Hj eq_refl St) end;
       apply (f_equal hpc_) in Ht; cbn in Ht; rewrite E in Ht; discriminate Ht).
  - match type of St with ?a = _ => assert (Ht := stuck_thread s a j u _ Hj eq_refl St) end.
    apply (f_equal hpc_) in Ht. cbn in Ht. rewrite E in Ht. discriminate Ht.
  - match type of St with ?a = _ => assert (Ht := stuck_thread s a j u _ Hj eq_refl St) end.
    apply (f_equal hpc_) in Ht. cbn in Ht. rewrite E in Ht. discriminate Ht.
Qed.

(* a taken lock has a holder *)
Lemma locked_has_holder s g b : HCInv hidx s -> lk s g b = true -> stuck s -> False.
Proof.
  intros I E St. pose proof (iv_lock hidx s I g b) as Hc. rewrite E in Hc. cbn in Hc.
  destruct (hcnt_pos_ex (holder g b) (hths s) ltac:(lia)) as (j & u & Hj & Hu).
  unfold holder in Hu. apply andb_prop in Hu. destruct Hu as [Hu _]. apply andb_prop in Hu. destruct Hu as [Hu _].
  exact (holder_moves s j u Hj Hu St).
Qed.

(* a resizer can always move, or waits for a lock holder that can *)
Lemma resizer_moves s j r : HCInv hidx s -> nth_error (hths s) j = Some r -> resz r = true -> stuck s -> False.
Proof.
  intros I Hj Hr St. unfold resz in Hr. destruct (hpc_ r) eqn:E; try discriminate Hr.
  - (* R1 *)
    destruct (forallb (hcop r) (seq 0 (len_of s (hsnap r)))) eqn:Eall.
    + specialize (St j 0). unfold hstep in St. rewrite Hj, E, Eall in St.
      match type of St with ?a = _ => assert (Ht := stuck_thread s a j r _ Hj eq_refl St) end.
      apply (f_equal hpc_) in Ht. cbn in Ht. rewrite E in Ht. discriminate Ht.
    + assert (Hex : exists b, b < len_of s (hsnap r) /\ hcop r b = false).
      { destruct (forallb (hcop r) (seq 0 (len_of s (hsnap r)))) eqn:E2; [discriminate Eall|].
        clear Eall. revert E2. generalize (len_of s (hsnap r)). intros n.
        assert (G : forall st, forallb (hcop r) (seq st n) = false -> exists b, st <= b < st + n /\ hcop r b = false).
        { induction n as [|n IH]; intros st H; [discriminate H|]. cbn [seq forallb] in H.
          destruct (hcop r st) eqn:Es.
          - cbn in H. destruct (IH (S st) H) as (b & Hb & Hc). exists b. split; [lia|exact Hc].
          - exists st. split; [lia|exact Es]. }
        intros H. destruct (G 0 H) as (b & Hb & Hc). exists b. split; [lia|exact Hc]. }
      destruct Hex as (b & Hb & Hc).
      destruct (lk s (hsnap r) b) eqn:El; [exact (locked_has_holder s _ _ I El St)|].
      specialize (St j b). unfold hstep in St. rewrite Hj, E, Eall in St.
      apply Nat.ltb_lt in Hb. rewrite Hb, Hc, El in St. cbn [andb negb] in St.
      match type of St with ?a = _ => assert (Ht := stuck_thread s a j r _ Hj eq_refl St) end.
      apply (f_equal (fun t => hcop t b)) in Ht. cbn in Ht. rewrite Nat.eqb_refl, Hc in Ht. discriminate Ht.
  - (* R2 *)
    specialize (St j 0). unfold hstep in St. rewrite Hj, E in St.
    apply (f_equal (fun x => length (lens x))) in St. cbn in St. rewrite app_length in St. cbn in St. lia.
  - (* R3 *)
    specialize (St j 0). unfold hstep in St. rewrite Hj, E in St.
    match type of St with ?a = _ => assert (Ht := stuck_thread s a j r _ Hj eq_refl St) end.
    apply (f_equal hpc_) in Ht. destruct (ret_pc_cases r) as [Er|Er]; rewrite Er, E in Ht; discriminate Ht.
Qed.

Lemma resizing_has_resizer s : HCInv hidx s -> resizing s = true -> stuck s -> False.
Proof.
  intros I E St. pose proof (iv_resz hidx s I) as Hc. rewrite E in Hc. cbn in Hc.
  destruct (hcnt_pos_ex resz (hths s) ltac:(lia)) as (j & r & Hj & Hr).
  exact (resizer_moves s j r I Hj Hr St).
Qed.

Theorem no_deadlock s : HCInv hidx s -> stuck s -> forall i t, nth_error (hths s) i = Some t -> finished t.
Proof.
  intros I St i t Hi. unfold finished.
  destruct (hpc_ t) eqn:E; try (left; reflexivity); try (right; left; reflexivity); try (right; right; reflexivity); exfalso.
  - (* W0 *) pose proof (St i 0) as S0. unfold hstep in S0. rewrite Hi, E in S0.
    match type of S0 with ?a = _ => assert (Ht := stuck_thread s a i t _ Hi eq_refl S0) end.
    apply (f_equal hpc_) in Ht. cbn in Ht. rewrite E in Ht. discriminate Ht.
  - (* W1 *) destruct (lk s (hsnap t) (hbi t)) eqn:El; [exact (locked_has_holder s _ _ I El St)|].
    pose proof (St i 0) as S0. unfold hstep in S0. rewrite Hi, E, El in S0.
    match type of S0 with ?a = _ => assert (Ht := stuck_thread s a i t _ Hi eq_refl S0) end.
    apply (f_equal hpc_) in Ht. cbn in Ht. rewrite E in Ht. discriminate Ht.
  - (* W2 *) apply (holder_moves s i t Hi); [rewrite E; reflexivity|exact St].
  - (* Wwait *) destruct (resizing s) eqn:Er; [exact (resizing_has_resizer s I Er St)|].
    pose proof (St i 0) as S0. unfold hstep in S0. rewrite Hi, E, Er in S0.
    match type of S0 with ?a = _ => assert (Ht := stuck_thread s a i t _ Hi eq_refl S0) end.
    apply (f_equal hpc_) in Ht. cbn in Ht. rewrite E in Ht. discriminate Ht.
  - (* W3 *) apply (holder_moves s i t Hi); [rewrite E; reflexivity|exact St].
  - (* W4 *) apply (holder_moves s i t Hi); [rewrite E; reflexivity|exact St].
  - (* W5 *) apply (holder_moves s i t Hi); [rewrite E; reflexivity|exact St].
  - (* Wadd *) pose proof (St i 0) as S0. unfold hstep in S0. rewrite Hi, E in S0.
    match type of S0 with ?a = _ => assert (Ht := stuck_thread s a i t _ Hi eq_refl S0) end.
    apply (f_equal hpc_) in Ht. cbn in Ht. rewrite E in Ht. discriminate Ht.
  - (* W6 *) pose proof (St i 0) as S0. unfold hstep in S0. rewrite Hi, E in S0.
    match type of S0 with ?a = _ => assert (Ht := stuck_thread s a i t _ Hi eq_refl S0) end.
    apply (f_equal hpc_) in Ht. cbn in Ht. rewrite E in Ht. discriminate Ht.
  - (* R0 *) pose proof (St i 0) as S0. unfold hstep in S0. rewrite Hi, E in S0.
    destruct (resizing s);
      (match type of S0 with ?a = _ => assert (Ht := stuck_thread s a i t _ Hi eq_refl S0) end;
       apply (f_equal hpc_) in Ht; cbn in Ht; rewrite E in Ht; discriminate Ht).
  - (* Rwait *) destruct (resizing s) eqn:Er; [exact (resizing_has_resizer s I Er St)|].
    pose proof (St i 0) as S0. unfold hstep in S0. rewrite Hi, E, Er in S0.
    match type of S0 with ?a = _ => assert (Ht := stuck_thread s a i t _ Hi eq_refl S0) end.
    apply (f_equal hpc_) in Ht. destruct (ret_pc_cases t) as [Erp|Erp]; rewrite Erp, E in Ht; discriminate Ht.
  - (* R1 *) apply (resizer_moves s i t I Hi); [unfold resz; rewrite E; reflexivity|exact St].
  - (* R2 *) apply (resizer_moves s i t I Hi); [unfold resz; rewrite E; reflexivity|exact St].
  - (* R3 *) apply (resizer_moves s i t I Hi); [unfold resz; rewrite E; reflexivity|exact St].
  - (* G0 *) pose proof (St i 0) as S0. unfold hstep in S0. rewrite Hi, E in S0.
    match type of S0 with ?a = _ => assert (Ht := stuck_thread s a i t _ Hi eq_refl S0) end.
    apply (f_equal hpc_) in Ht. cbn in Ht. rewrite E in Ht. discriminate Ht.
  - (* G1 *) pose proof (St i 0) as S0. unfold hstep in S0. rewrite Hi, E in S0.
    match type of S0 with ?a = _ => assert (Ht := stuck_thread s a i t _ Hi eq_refl S0) end.
    apply (f_equal hpc_) in Ht. cbn in Ht. rewrite E in Ht. discriminate Ht.
  - (* I0 *) pose proof (St i 0) as S0. unfold hstep in S0. rewrite Hi, E in S0.
    match type of S0 with ?a = _ => assert (Ht := stuck_thread s a i t _ Hi eq_refl S0) end.
    apply (f_equal hpc_) in Ht. cbn in Ht. rewrite E in Ht. discriminate Ht.
  - (* I1 *) pose proof (St i 0) as S0. unfold hstep in S0. rewrite Hi, E in S0.
    destruct (Nat.ltb (hbi t) (len_of s (hsnap t))).
    + destruct (lk s (hsnap t) (hbi t)) eqn:El; [exact (locked_has_holder s _ _ I El St)|].
      match type of S0 with ?a = _ => assert (Ht := stuck_thread s a i t _ Hi eq_refl S0) end.
      apply (f_equal hbi) in Ht. cbn in Ht. lia.
    + match type of S0 with ?a = _ => assert (Ht := stuck_thread s a i t _ Hi eq_refl S0) end.
      apply (f_equal hpc_) in Ht. cbn in Ht. rewrite E in Ht. discriminate Ht.
Qed.

Theorem conc_no_deadlock n0 ops sched : 1 <= n0 ->
  let s := hrun hidx KU (hinit n0 ops) sched in
  stuck s -> forall i t, nth_error (hths s) i = Some t -> finished t.
Proof. intros Hn s. apply no_deadlock. apply HCInv_run. apply HCInv_init. exact Hn. Qed.

End Live.
