(* DrainBounded.v — exhaustive, kernel-checked exploration of the drain-status protocol for small
   thread populations: every configuration reachable under EVERY schedule is in the explored set
   (closure checked by computation, soundness by DrainProofs), and every terminal configuration of
   the set is drained.  The bound (which threads exist initially) is part of each statement; tasks
   spawned through the executor are explored as they arise. *)
From stdpp Require Import gmap.
From Coq Require Import List.
Import ListNotations.
From Otter Require Import Drain DrainProofs.

Definition check (w c fuel : nat) : bool :=
  match explore fuel [dinit w c] {[dinit w c]} with
  | Some v => bool_decide (dinit w c ∈ v) && closed v && all_terminals_drained v
  | None => false
  end.

Theorem check_sound w c fuel : check w c fuel = true ->
  forall sched, let s := run_sched (dinit w c) sched in terminal s = true -> drained s = true.
Proof.
  unfold check. destruct (explore fuel [dinit w c] {[dinit w c]}) as [v|]; [|intros H; discriminate H].
  intros H sched. cbv zeta. intros T. apply andb_true_iff in H. destruct H as [H Hd]. apply andb_true_iff in H. destruct H as [H0 Hc].
  apply bool_decide_eq_true in H0.
  apply (terminals_drained v (dinit w c) H0 Hc Hd); [|exact T].
  apply run_sched_reachable. constructor.
Qed.

(* one writer, and two concurrent writers, each with every maintenance task they spawn *)
Lemma check_1_0 : check 1 0 500 = true.
Proof. vm_compute. reflexivity. Qed.

Lemma check_2_0 : check 2 0 2000 = true.
Proof. vm_compute. reflexivity. Qed.

Theorem drained_1_writer : forall sched,
  let s := run_sched (dinit 1 0) sched in terminal s = true -> drained s = true.
Proof. exact (check_sound 1 0 500 check_1_0). Qed.

Theorem drained_2_writers : forall sched,
  let s := run_sched (dinit 2 0) sched in terminal s = true -> drained s = true.
Proof. exact (check_sound 2 0 2000 check_2_0). Qed.
