HOOK_COMMITS = ["74bf6ff", "82c1591", "9aba3ab", "7b80cf4", "aa851e5", "4f43e9e", "0d9cb6c", "ac67f30", "f87827f", "49c2432", "902f705", "c680004", "8c2f76b", "4c8724e", "094947e", "99d293b", "af34f89", "43a3820"]

ALL = ["C%02d" % i for i in range(1, 21)]

SEQ_NOTE = ("Trusted: Coq kernel; extraction (ExtrOcamlBasic); OCaml replayer; Go harness. Modelled, not verified: the hash table as an "
            "atomic map (C15), eviction/expiry policy choices (inputs, C04/C05/C07/C13), gob, the executor. Hypotheses of the theorems: cfg_ok "
            "(creation durations positive and independent of the current duration; durations fit int64), clock in [0, MaxInt64), non-decreasing clock. "
            "The tie model<->code is differential testing over generated operation sequences in all 12 feature combinations.")
SEQ_TECH = "Coq refinement proof (congruence of the concrete step w.r.t. live contents, induction over runs) + model/implementation correspondence replay"

MAINT_NOTE = ("Trusted: Coq kernel; extraction; OCaml replayer; Go harness; the hook verifPoint(1) and VerifAudit (tag verif). Modelled, not verified: "
              "the floating-point parts of window sizing (initial maxima, the hill climber's amount: inputs read from the implementation; what the climber moves is modelled and proved invariant-preserving for every amount; closed-loop cases with maxima up to 96), maphash (hashes read from the implementation), the striped read buffer as one ring. "
              "Proved over all event lists: the policy bookkeeping invariant with tasks reaching the write buffer in any order (PolicyInv.v, C05) and the timer-wheel placement invariant (WheelInv.v, C13). "
              "that the eviction loop restores the bound within its fuel (PolicyBound.v, C04). Equalities of counters are modulo 2^64; the window / protected maxima are inputs of the model.")
MAINT_TECH = "Coq proof (loop-step lemmas, invariants) over an executable policy/wheel model + closed-loop model/implementation replay with internal-state audit"

LOAD_NOTE = ("Trusted: Coq kernel, extraction, OCaml replayer, Go harness with a gated loader. The protocol model's steps are the code's atomic sections (one hashmap.Compute each); their atomicity is C15's business and is "
             "assumed here. Bulk loads are covered sequentially (C10) and not by the protocol engine.")
LOAD_TECH = "Coq proof: invariant by induction over all event sequences of a protocol model + scripted interleavings executed on the implementation with a gated loader"

TEXTS = {
    "C02": dict(text="Coq theorem over an action-level concurrent model (all programs of Set/SetIfAbsent/GetIfPresent/GetEntry/Compute*/Invalidate and automatic removals, all schedules, any number of threads): replaying the "
                     "operations in the order of their decisive atomic actions through the sequential model yields exactly the observed return values and the same table; the second phase of a two-phase compute equals "
                     "the whole operation executed atomically at that instant. Engine: concurrent histories of the real cache (growing/shrinking/evicting underneath) checked per key for a linearization by a Wing-Gong search whose "
                     "oracle is the extracted model; compute callbacks counted. The atomicity of the table's Compute/Get that this model assumes is now itself a theorem about the table's protocol model (C15_concurrent_update_atomic, _applied_exactly_once, _get_regular) tied to map.go by the tbl engine, which C02 also runs.",
               design_ref="DESIGN.md section 5, C02",
               note="Trusted: Coq kernel, extraction, OCaml search, Go harness. Atomicity of the table's Get/Compute: C15's protocol theorems + tbl engine (one step per bucket update / key read in that model); sequential consistency of sync/atomic assumed. No expiry calculator in the theorem.",
               technique="Coq proof (simulation invariant over all schedules of an action-level model) + linearizability search on recorded concurrent histories with the extracted model as oracle"),
    "C14": dict(text="Coq theorem C14_no_stranding_any_population (theories/DrainInv.v): for ANY number of writers, readers (C14_no_stranding_with_readers) and explicit CleanUp callers, every maintenance task they spawn and EVERY schedule of the small-step drain-status model "
                     "(one step = one atomic access), a configuration in which nothing can move has all threads finished, the write buffer empty, the status idle and the lock free. Proof: an inductive invariant over counts of threads per "
                     "program counter (exactly one lock owner incl. the hand-off token; 'processing' while an owner is between status store and release; every 'processing' / 'required' status has a thread that will act on it; every buffered "
                     "event is covered by a pending drain, a required status or its producer), preserved by all 24 kinds of step. The exhaustive vm_compute explorations for 1 writer, 2 writers and 1 writer + 1 CleanUp caller are kept as a cross-check. "
                     "The model is tied to the code by the sched engine: the real cache is executed one macro step at a time (goroutines parked at 9 hook points, blocking on the eviction lock read from the runtime's wait reasons) under generated and scripted schedules, "
                     "and the extracted model must show the same status, buffer size, lock and thread positions after every step (macro steps are proved to be small-step runs: DrainMacro.macro_step_reachable). "
                     "Drain engine: the real cache with the default executor under hook-injected perturbation and scripted windows; after the calls return only atomic loads are made and quiescence, bound, policy links and notification counts are checked.",
               design_ref="DESIGN.md section 0.2/0.3 and section 5, C14",
               note="Trusted: Coq kernel (vm_compute only in the cross-check theorems), std++ gset/pmap; Go harness and hook points (tag verif). Not proved: that every schedule is finite (fair termination); InvalidateAll and the 100-refusal caller-runs fallback are outside the model; the model is replayed against the code at hook-point granularity, finer interleavings only through the model.",
               technique="Coq: inductive invariant of a small-step protocol model for unboundedly many threads (all schedules), cross-checked by kernel-computed exhaustive exploration of small populations + step-by-step correspondence replay of controlled schedules (sched) + perturbed stress with a no-further-calls quiescence oracle"),
    "C08": dict(text="Coq theorems over the single-flight protocol model (any number of threads and keys, every event order): loader intervals for one key never overlap unless a write/invalidation/eviction superseded the older call; "
                     "a caller that finds a registered call joins it; every waiter is released by its call's finish for every outcome including panic; no in-flight record survives. A bulk call is a run of per-key start events, one loader invocation, then one finish event per call it registered and one LVolunteer event per extra key its loader returned, freely interleaved with everybody else's events, so the theorems (all event lists) cover bulk calls over overlapping key sets. Tied to the code by executing scripted interleavings "
                     "with a gated loader and comparing joins, loader starts, releases and values with the model after every step; bulk windows (an overlapping BulkGet joins an in-flight Get/BulkGet, its loader volunteering the joined key or not, the joined load ending in value / not-found / error) are held to the model's events by implementation-side oracles (no early return, the joined load's result, the final cache state).",
               design_ref="DESIGN.md section 5, C08", note=LOAD_NOTE, technique=LOAD_TECH),
    "C09": dict(text="Coq theorems: registered calls are exactly the pending unsuperseded ones; a value is installed only by a never-superseded call; a superseded load changes nothing; explicit writes/invalidations always take effect. "
                     "Engine: writes and invalidations placed before the loader starts, while it runs, and after it returned, for Get and Refresh; the cache's value is compared with the model after every step.",
               design_ref="DESIGN.md section 5, C09", note=LOAD_NOTE, technique=LOAD_TECH),
    "C15": dict(text="Coq theorems (theories/HashMapBytes.v, HashMapRefine.v) for EVERY hash function (one per table generation), every initial table length and every sequence of Get / Compute (keep, set, delete; present and absent keys) / Clear: "
                     "C15_seq_refines_map - the table model answers exactly like a finite map, the update function sees the map's binding and runs once, the grow-and-retry loop ends within its fuel; C15_iteration_exact - in every reachable state "
                     "iteration yields every binding exactly once and the size counter equals their number; C15_resize_keeps_everything - grow/shrink re-hash every entry into the new table and keep exactly the bindings, clear leaves none. "
                     "Underneath: SWAR zero-byte search without false negatives, setByte/getByte/broadcast byte algebra, marks visited in slot order, a key stored at most once in the chain its hash selects. "
                     "The model is replayed call by call against the implementation (results, invocation counts, size, table length, per-bucket chain layout, iteration order) through growth to hundreds of buckets and back. "
                     "Concurrency (theories/HashMapConc.v, HashMapConcProofs.v): a small-step model of the protocol between Compute, resize and the lock-free Get (root-bucket locks, resize-in-progress and newer-table re-checks, the resizing flag, "
                     "buckets copied under their locks in any order, grow-before-insert with retry, shrink attempts that give up, publication before release) for ANY number of threads, EVERY schedule and all hash functions: "
                     "C15_concurrent_linearization - the published table is what one gets by applying the threads' functions one after the other, in the order of their update steps, to the empty map, and a thread occurs in that order exactly as often as it has applied its function (once when its Compute is past its update, never before); C15_concurrent_table_is_the_map - the published table always holds exactly the abstract map (nothing lost, nothing resurrected across resizes); C15_concurrent_update_atomic / _applied_exactly_once - a function is given the abstract map's binding "
                     "under the lock of the current table's bucket and is applied exactly once per call whatever retries happen; C15_concurrent_get_regular - a Get returns a binding its key had between its table load and its return; C15_concurrent_iteration_sound / _complete / _no_removed_entry - what a finished Range yielded for a key is what the abstract map held for it at some moment of the iteration "
                     "(so a key present throughout is yielded, one removed before it began is not); C15_concurrent_no_deadlock - a reachable state in which no step changes anything has every call returned; C15_concurrent_size_accounted / _size_exact_when_quiescent - the current table's size counter plus what the writers that updated it still owe it (they add +1/-1 after releasing the bucket lock; a resize starts the new table with the number of entries it copied) is the number of keys bound, so Size() is exact once every call has returned; bucket locks and the flag are mutual exclusions "
                     "(inductive invariant over counts of lock holders / resizers, ghost history of the map). The tbl engine replays hook-to-hook schedules of the real table on the extracted model. "
                     "Clear under concurrency is checked by implementation oracles only.",
               design_ref="DESIGN.md section 0.2 and section 5, C15",
               note="Trusted: Coq kernel, extraction, OCaml replayers, Go harness, verif exports and hook points of internal/hashmap, the runtime's goroutine wait reasons (self-checked). maphash is an input (the theorems hold for every hash function). In the protocol model a table version is a key->binding store and a bucket's update, a bucket's copy and a Get's read are one step each (the layout inside a chain is the sequential theorems').",
               technique="Coq refinement proof (table model = finite map, all hash functions and operation sequences, across resizes) + Coq invariant proof of the concurrency protocol over all schedules + executable models with call-by-call and schedule-by-schedule correspondence; concurrent oracles on free-running executions"),
    "C16": dict(text="Coq theorem C16_seq_fifo (theories/MpscFifo.v): for every pair of capacities NewMPSC accepts and every sequence of complete pushes and pops the chunked queue model answers exactly like a FIFO list of "
                     "capacity roundup32(maximum) - through every growth step (new buffer, JUMP marker, link) and every move of the consumer into the next buffer: every accepted element returned exactly once in order, "
                     "nothing else returned, an offer refused exactly when the queue holds its maximum (C16_refused_exactly_when_full, C16_size_bounded). The model (push split into reserve/publish) is compared with the "
                     "implementation after every call over all capacity pairs and growth steps, including producer-parked states; lemmas for arbitrary states: empty only when caught up, the consumer waits for a reserved "
                     "slot, no phantom element. C16_concurrent_fifo (theories/MpscConc.v): every interleaving of reserve (up to the winning index CAS, growth included) / publish (the slot store) / pop steps of any number of producers and the consumer is explained by a FIFO of reservations "
                     "(exactly once, reservation order = per-producer order, the consumer waits at a reserved unpublished cell, refusal exactly when full). The loads inside one reserve are atomic in that model; their granularity is justified by C16_index_protocol_safe (theories/MpscIndex.v, MpscIndexProofs.v): a small-step model of TryPush's individual loads and CASes (producer limit, producer index with the resize bit, mask/buffer, consumer index; the limit CAS of the slow path; the resize that stores a new limit) in which every value may be stale when used - for any number of producers, every schedule and any consumer progress the queue never exceeds its capacity, the limit never decreases, and a successful index CAS claims a slot of the CURRENT buffer inside its free window, also across a resize since the limit was read; free-running oracles and parked-resize windows exercise them.",
               design_ref="DESIGN.md section 0.2 and section 5, C16",
               note="Trusted: Coq kernel, extraction, OCaml replayer, Go harness, hook verifPoint in mpsc.go (tag verif). Interleavings beyond one parked producer are covered by free-running oracle checks only.",
               technique="Coq refinement proofs (sequential: chunked queue = bounded FIFO; concurrent producers at reserve/publish granularity: FIFO of reservations, all interleavings) + executable model with correspondence replay and hook-parked schedules"),
    "C17": dict(text="Coq theorems over two small-step models. Ring.v (ring.add/drainTo, one step per atomic access): for every schedule and any number of producers the invariant holds, hence delivered is a prefix of "
                     "recorded (nothing unrecorded, nothing twice), at most 16 entries are held, and a drain at quiescence delivers everything recorded. Striped.v (the table of rings: stripe creation, table creation, expansion under the busy spin lock; "
                     "rings abstract): for every schedule, any number of concurrent Adds and any inputs, the spin lock admits one mutator, the current table is the latest version and contains every cell of every older one, every ring ever created sits in exactly "
                     "one cell of the current table (no stripe is lost in an expansion, a drain visits each once), and an element is in the rings exactly once iff its Add succeeded. Both models are tied to the code by executing macro schedules on the real "
                     "structures (producers parked between CAS and store; Adds parked at 14 hook points of the table protocol and before the ring's tail CAS) and comparing status, drained values, head, tail, slots, busy flag, table length, rings and positions.",
               design_ref="DESIGN.md section 0.2/0.3 and section 5, C17",
               note="Trusted: Coq kernel, extraction, OCaml replayer, Go harness, hook points in ring.go and striped.go (tag verif). Modelled: sync/atomic as sequentially consistent steps; the striped model's critical sections are single steps (justified by the proved mutual exclusion); the composition of the two models (abstract rings = Ring.v rings) is informal.",
               technique="Coq proofs: invariants by induction over all schedules of two small-step protocol models + schedule execution on the implementation through hook points with model replay"),
    "C04": dict(text="Coq theorems (PolicyBound.v on PolicyInv.v) over ALL event lists of the maintenance model (index actions, tasks reaching the write buffer in any order, reads, maintenance runs, SetMaximum): a maintenance run that starts with no task in flight "
                     "ends quiescent with the policy's total equal (mod 2^64) to the weights of the entries present and at most the maximum (or zero); evictNodes alone restores the bound and the model's loop fuel always suffices (decreasing measure over both cursors); "
                     "a node is evicted for size only while total weight > maximum, never with weight 0; an oversized node is evicted by the task that introduces it. The implementation's policy is replayed in a closed loop by the extracted model (all deques/counters compared "
                     "after every operation, every eviction predicted, write events also consumed in permuted orders) and the bound is checked on the implementation at every quiescent point, including after SetMaximum.",
               design_ref="DESIGN.md section 5, C04", note=MAINT_NOTE, technique=MAINT_TECH),
    "C05": dict(text="Coq theorems (PolicyInv.v) over ALL event lists of the maintenance model — index actions creating add/update/delete tasks, tasks reaching the write buffer in ANY order, reads, maintenance runs, SetMaximum: "
                     "a bookkeeping invariant (deques duplicate-free and disjoint, tags match, no dead node linked, alive+consumed implies linked, the three wrapping counters = sums over the node store with coefficient "
                     "[task consumed]-[dead]) holds in every reachable state, and whenever no task is pending the deques hold exactly the alive nodes, each once, and weightedSize / windowWeightedSize / "
                     "mainProtectedWeightedSize equal (mod 2^64) the weights linked in all deques / window / protected. Also: the repaired policy.update (out-of-order tasks fall back to delete+add) with the original defect's witnesses replayed on the model; closed-loop correspondence of "
                     "deques, three counters, wheel buckets and node states after every operation; implementation-only oracles at quiescence: WeightedSize = sum of weights, EstimatedSize = table size, "
                     "Hottest = Coldest = All as sets, every present entry linked exactly once in the eviction and expiration policies, no removed entry tracked.",
               design_ref="DESIGN.md section 5, C05", note=MAINT_NOTE, technique=MAINT_TECH),
    "C06": dict(text="Coq theorems: every index action of the concrete model is nothing / an in-place deadline change (no event) / an install (one event for the replaced node) / a removal (one event for the removed node), "
                     "with cause Expiration iff the node's deadline had passed; entries + events = previous entries + installs. Per-operation atomic events are compared with the model; OnDeletion = OnAtomicDeletion as multisets at quiescence.",
               design_ref="DESIGN.md section 5, C06", note=SEQ_NOTE, technique=SEQ_TECH),
    "C07": dict(text="Coq theorems: Overflow only from a state with total weight > maximum (or an oversized entry), never weight 0; Expiration only if the current deadline lies strictly before the sweep's time; the index accepts an "
                     "automatic removal only for the node it holds. Every automatic removal of the implementation is predicted exactly by the closed-loop model, and each Overflow removal is checked against the model's total weight.",
               design_ref="DESIGN.md section 5, C07", note=MAINT_NOTE, technique=MAINT_TECH),
    "C13": dict(text="Coq theorems (WheelInv.v) on the timer-wheel model with the real constants, for EVERY wheel reachable by any sequence of links (any deadline, including deadlines already behind the wheel's time: "
                     "the stale-clock write), unlinks and sweeps at any monotone clock values (any jump): the placement invariant holds; a sweep hands to expireNode every linked timer whose placement key (later of deadline and "
                     "wheel time at link) lies in an earlier tick and whose current deadline is before the sweep time; it expires only due timers and loses none. Also the sweep decision per bucket and the placement of "
                     "already-due timers; concrete multi-level/multi-revolution instances. The implementation's wheel is compared bucket by bucket with the model after every operation and every Expiration removal is predicted; the "
                     "unswept-after-one-tick oracle runs on the implementation at every quiescent point.",
               design_ref="DESIGN.md section 5, C13", note=MAINT_NOTE + " The stale-clock interleaving (a write samples the clock, maintenance runs at a later clock value, the write proceeds) is produced deterministically through the Clock interface (STALE writes of the maint engine).", technique=MAINT_TECH),
    "C19": dict(text="Coq theorems on LoadCacheFrom's per-entry program: an unexpired entry is loaded with the saved key, value and expiration deadline for any number of warm-up reads and any read calculator; nothing with deadline <= now is loaded. Over the whole file (PersistAll.v: the loops of SaveCacheTo / LoadCacheFrom with their size cut-off, for every list of saved entries with distinct keys): every entry the loop takes is present "
                     "afterwards with its key, value and deadline whatever was loaded before and after it; keys not in the file are untouched; when the contents fit the maximum nothing is cut off by either loop; pinned entries are never cut off. "
                     "Harness: save -> clock offset -> load into a fresh cache of the same configuration (same/larger/smaller maximum), compared entry by entry.",
               design_ref="DESIGN.md section 5, C19", note=SEQ_NOTE + " gob is modelled as the identity; Hottest's order is the policy's.", technique=SEQ_TECH),
    "C01": dict(text="Coq theorem: the concrete sequential model of cache_impl.go (expired nodes physically present, all 20 operations incl. loads, "
                     "bulk loads, refresh tasks, iteration, automatic removals as reported events) refines the abstract map-with-deadlines for every "
                     "configuration, calculator table, operation sequence and non-decreasing clock (C01_refines); maintenance timing cannot influence any "
                     "result (step congruence). Tied to /repo by replaying every operation of generated histories on the extracted model and the abstract map "
                     "and comparing results, events, callbacks, per-key entries, size and statistics after every operation.",
               design_ref="DESIGN.md section 5, C01", note=SEQ_NOTE, technique=SEQ_TECH),
    "C03": dict(text="Coq theorem C03_dead_unobservable: for every operation, a state holding an expired-but-unswept node behaves exactly like the state "
                     "without it (results, callbacks, submissions, visible events, statistics, live contents). Correspondence as for C01, with the generator "
                     "biased towards operations on expired-unswept keys (counted in the evidence).",
               design_ref="DESIGN.md section 5, C03", note=SEQ_NOTE, technique=SEQ_TECH),
    "C10": dict(text="Coq theorems on the model's load paths: outcome table for Get (value/error/not-found/panic) and the exact result domain of BulkGet "
                     "(hits ++ supplied misses, each distinct key once, loader invoked once with exactly the distinct misses); transferred to every history by C01_refines. "
                     "Correspondence: table-driven single and bulk loaders (full/partial/extra/empty/error/panic) replayed on the model.",
               design_ref="DESIGN.md section 5, C10", note=SEQ_NOTE, technique=SEQ_TECH),
    "C11": dict(text="Coq theorems: a read of a stale entry returns the cached value and submits exactly one reload carrying it, fresh entries submit nothing; "
                     "reload success replaces (old value reported replaced), failure keeps value/weight/expiry, not-found removes; Refresh returns a channel iff "
                     "refresh is configured. Harness additionally checks one result per explicit Refresh/BulkRefresh channel at quiescence.",
               design_ref="DESIGN.md section 5, C11", note=SEQ_NOTE + " In-flight and dedup behaviour is the protocol model of C08/C09.", technique=SEQ_TECH),
    "C12": dict(text="Coq theorems: deadline = SaturatedAdd(now, duration) after create/update/read/SetExpiresAfter for every duration in [1, MaxInt64]; "
                     "never in the past, never wraps, MaxInt64 pins; visibility iff now < expiration. Correspondence compares both deadlines of every key after every operation "
                     "with durations up to MaxInt64 and clock origins up to 1.8e18.",
               design_ref="DESIGN.md section 5, C12", note=SEQ_NOTE, technique="Coq proof (int64 wrap-around modelled explicitly) + correspondence replay"),
    "C20": dict(text="Coq theorems on ghost counters placed where the code calls the recorder: each counting lookup adds exactly one to hits+misses and is a hit iff an "
                     "unexpired entry was found; each loader invocation adds exactly one to successes+failures; evictions counted exactly at automatic removals; quiet operations change nothing. "
                     "Correspondence compares the Stats() snapshot after every operation. The striped counter behind every statistic (internal/xsync/adder.go) has a small-step model (one step per atomic load / CAS, "
                     "any number of threads, all schedules, all probe indices) with theorems: stripes sum to the applied deltas at every moment, every invoked Add is applied exactly once or still in flight, exact at quiescence (mod 2^64); "
                     "and for totals below 2^64: a snapshot overlapping Adds lies between the total at its invocation and at its return, and a snapshot invoked after another returned is not smaller (counters never decrease). "
                     "Tied to adder.go by macro-step schedules (hooks between a stripe's load and its CAS and before each load of Value) replayed on the extracted model.",
               design_ref="DESIGN.md section 5, C20 and section 0.2", note=SEQ_NOTE + " Concurrent histories: see C02 (counters are sums of per-action increments). Adder: the token pool and Fastrand only choose probe indices (inputs of the model); sync/atomic assumed sequentially consistent.",
               technique=SEQ_TECH + " + small-step protocol model of the striped counter with an inductive invariant over all schedules, replayed hook-to-hook on adder.go"),
    "C18": dict(
        text="Coq theorems over an executable transcription of sketch.go / policy.admit / RoundUpPowerOf264 on 64-bit words: "
             "for every raw key hash, every table length 8*2^k and every recording sequence inside a sampling period the estimate is "
             "at least min(15, recorded), never above 15, halved by the aging step, zero before initialisation; ensureCapacity gives the "
             "least power of two (>= 8) for every capacity; admit is equivalent to 'strictly greater, or >= 6 and rand&127 = 0'. "
             "The model is tied to the code by replaying the implementation's calls (raw hashes read from its hasher) and comparing the "
             "entire table, size, sampleSize and every answer after each call.",
        design_ref="DESIGN.md section 5, C18",
        note="Trusted: Coq kernel; extraction (ExtrOcamlBasic); OCaml replayer; Go harness + verif_export.go. maphash and math/rand are inputs, not modelled. "
             "The tie model<->code is differential testing over generated call sequences.",
        technique="Coq proof (invariant by induction over recordings; bit-level lemmas) + model/implementation correspondence replay",
    ),
}

NOT_APPLICABLE = []
