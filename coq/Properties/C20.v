(* C20 — Statistics count exactly what happened (ghost counters of the concrete model are placed
   exactly where the code calls the recorder). *)
From Otter Require Import Base Seq Spec SeqRefine SeqFacts.

(* one lookup of a counting operation: hits + misses grows by exactly one; it is a hit exactly
   when an unexpired entry was found; loads and evictions untouched *)
Theorem C20_lookup : forall c s k now,
  lookups (fst (get_node c s k now)) = lookups s + 1 /\
  loads (fst (get_node c s k now)) = loads s /\
  evictions (cst (fst (get_node c s k now))) = evictions (cst s) /\
  (hits (cst (fst (get_node c s k now))) = hits (cst s) + 1 <->
   exists n, lookup k (cmap s) = Some n /\ has_expired c n now = false).
Proof. exact get_node_counts. Qed.
Print Assumptions C20_lookup.

(* one loader invocation: successes + failures grows by exactly one; not-found counts as a
   success, error and panic as failures; lookups untouched *)
Theorem C20_load : forall c s k old oc ir now,
  loads (fst (fst (run_load c s k old oc ir now))) = loads s + 1 /\
  lookups (fst (fst (run_load c s k old oc ir now))) = lookups s /\
  evictions (cst (fst (fst (run_load c s k old oc ir now)))) = evictions (cst s) /\
  (lfail (cst (fst (fst (run_load c s k old oc ir now)))) = lfail (cst s) + 1 <-> outcome_failed oc = true).
Proof. exact run_load_counts. Qed.
Print Assumptions C20_load.

(* quiet reads, explicit refresh submission, SetIfAbsent, Invalidate, deadline setters and
   iteration change no counter *)
Theorem C20_quiet : forall c s k v d ks now,
  cst (fst (step c s (OGetEntryQuietly k now))) = cst s /\
  cst (fst (step c s (ORefresh k now))) = cst s /\
  cst (fst (step c s (OBulkRefresh ks now))) = cst s /\
  cst (fst (step c s (OSetIfAbsent k v now))) = cst s /\
  cst (fst (step c s (OSet k v now))) = cst s /\
  cst (fst (step c s (OInvalidate k now))) = cst s /\
  cst (fst (step c s (OSetExpiresAfter k d now))) = cst s /\
  cst (fst (step c s (OSetRefreshableAfter k d now))) = cst s /\
  cst (fst (step c s (OIter now))) = cst s.
Proof.
  intros c s k v d ks now. cbn [step fst].
  split; [reflexivity|]. split.
  { unfold do_refresh. destruct (negb (with_refr c)); reflexivity. }
  split.
  { unfold do_bulk_refresh. destruct (negb (with_refr c)); reflexivity. }
  split.
  { unfold do_set. destruct (true && _).
    - destruct (lookup k (cmap s)); reflexivity.
    - destruct (atomic_set c k v (lookup k (cmap s)) NoCall now). reflexivity. }
  split.
  { unfold do_set. cbn [andb]. destruct (atomic_set c k v (lookup k (cmap s)) NoCall now). reflexivity. }
  split; [reflexivity|]. split.
  { unfold do_set_expires_after. destruct (negb (with_exp c) || (d <=? 0)); [reflexivity|].
    destruct (lookup k (cmap s)) as [n|]; [|reflexivity]. destruct (has_expired c n now); reflexivity. }
  split; [|reflexivity].
  unfold do_set_refreshable_after. destruct (negb (with_refr c) || (d <=? 0)); [reflexivity|].
  destruct (lookup k (cmap s)) as [n|]; [|reflexivity]. destruct (negb _); reflexivity.
Qed.
Print Assumptions C20_quiet.

(* evictions: counted exactly at the automatic removals (Overflow and Expiration), with the
   removed entry's weight; a rejected removal counts nothing *)
Theorem C20_evictions : forall c s k v cs now,
  let s' := fst (step c s (OAuto k v cs now)) in
  (r_ret (snd (step c s (OAuto k v cs now))) = RNone ->
     evictions (cst s') = evictions (cst s) + 1 /\
     exists n, lookup k (cmap s) = Some n /\ evweight (cst s') = evweight (cst s) + nweight n) /\
  (r_ret (snd (step c s (OAuto k v cs now))) <> RNone -> cst s' = cst s) /\
  lookups s' = lookups s /\ loads s' = loads s.
Proof.
  intros c s k v cs now. cbn [step]. unfold do_auto, lookups, loads.
  destruct (lookup k (cmap s)) as [n|].
  - destruct ((nval n =? v) && _); cbn.
    + split; [intros _; split; [reflexivity|eexists; split; reflexivity]|]. split; [intros H; exfalso; apply H; reflexivity|]. auto.
    + split; [intros H; discriminate H|]. auto.
  - cbn. split; [intros H; discriminate H|]. auto.
Qed.
Print Assumptions C20_evictions.

(* the two-phase computes count once (in their read phase) and Compute counts once *)
Theorem C20_compute_counts_once : forall c s k f now,
  lookups (fst (do_compute c s k f now true)) = lookups s + 1 \/
  (exists r, snd (do_compute c s k f now true) = r /\ r_ret r = RPanicked /\ lookups (fst (do_compute c s k f now true)) = lookups s).
Proof.
  intros c s k f now. unfold do_compute, lookups.
  destruct (f _ _) as [|v []].
  - right. eexists. split; [reflexivity|]. split; reflexivity.
  - left. destruct (lookup k (cmap s)) as [n0|]; [destruct (has_expired c n0 now)|]; sts; lia.
  - left. destruct (atomic_set c k v (lookup k (cmap s)) NoCall now) as [nn evs].
    destruct (lookup k (cmap s)) as [n0|]; [destruct (has_expired c n0 now)|]; sts; lia.
  - left. destruct (lookup k (cmap s)) as [n0|]; [destruct (has_expired c n0 now)|]; sts; lia.
  - right. eexists. split; [reflexivity|]. split; reflexivity.
Qed.
Print Assumptions C20_compute_counts_once.

Theorem C20_compute_phase2_silent : forall c s k f now,
  lookups (fst (do_compute c s k f now false)) = lookups s.
Proof.
  intros c s k f now. unfold do_compute, lookups.
  destruct (f _ _) as [|v []]; try reflexivity;
    try (destruct (lookup k (cmap s)) as [n0|]; [destruct (has_expired c n0 now)|]; reflexivity);
    destruct (atomic_set c k v (lookup k (cmap s)) NoCall now) as [nn evs]; reflexivity.
Qed.
Print Assumptions C20_compute_phase2_silent.

Example C20_nonvacuous :
  let c := mkCfg false false false false (fun _ _ => 1) (fun _ _ c => c) (fun _ _ _ c => c) (fun _ _ c => c)
                 (fun _ _ c => c) (fun _ _ _ c => c) (fun _ _ _ c => c) (fun _ _ c => c) in
  let s := fst (run c cstate0 [OSet 1 11 0; OGetIfPresent 1 0; OGetIfPresent 2 0; OGet 2 (LError 5) 0 0;
                               OBulkGet [1; 2; 2; 3] (BMap [(2, 7)]) 0 0]) in
  (hits (cst s), misses (cst s), lsucc (cst s), lfail (cst s)) = (2, 4, 1, 1).
Proof. vm_compute. reflexivity. Qed.
