(* r_sketch.ml — replays a "sketch" engine trace on the extracted Sketch model and compares
   the entire state after every call, every frequency/admit answer, and the pure kernels. *)
open Util
module M = Model

let run (path : string) : unit =
  let s = ref M.sketch0 in
  let z = mz_of_string in
  iter_lines path (fun ln toks ->
      match toks with
      | [ "N" ] -> s := M.sketch0; count "sketches"
      | [ "E"; m ] -> s := M.ensure_capacity !s (z m); count "ensure"
      | [ "I"; r ] -> s := M.increment !s (z r); count "increment"
      | [ "X" ] -> s := M.reset !s; count "reset"
      | [ "Q"; r; f ] ->
          let mf = M.frequency !s (z r) in
          count "frequency";
          if string_of_mz mf <> f then mismatch "sketch" ln "frequency model=%s impl=%s" (string_of_mz mf) f
      | [ "A"; rc; rv; rnd; b ] ->
          let mb = M.accept !s (z rc) (z rv) (z rnd) in
          count "admit";
          if (if mb then "1" else "0") <> b then mismatch "sketch" ln "admit model=%b impl=%s" mb b
      | "S" :: size :: sample :: bmask :: ini :: n :: words ->
          count "state_compared";
          let m = !s in
          let n = int_of_string n in
          let mt = M.tbl m in
          if List.length mt <> n then mismatch "sketch" ln "table length model=%d impl=%d" (List.length mt) n
          else begin
            (* sample/bmask are meaningless before initialisation in both *)
            if string_of_mz (M.ssize m) <> size then mismatch "sketch" ln "size model=%s impl=%s" (string_of_mz (M.ssize m)) size;
            if n > 0 && string_of_mz (M.sample m) <> sample then mismatch "sketch" ln "sampleSize model=%s impl=%s" (string_of_mz (M.sample m)) sample;
            if n > 0 && string_of_mz (M.bmask m) <> bmask then mismatch "sketch" ln "blockMask model=%s impl=%s" (string_of_mz (M.bmask m)) bmask;
            if (if M.inited m then "1" else "0") <> ini then mismatch "sketch" ln "initialised model=%b impl=%s" (M.inited m) ini;
            let rec cmp i a b =
              match a, b with
              | [], [] -> ()
              | x :: a', y :: b' ->
                  (match x, y with
                   | M.Z0, "0" -> cmp (i + 1) a' b'
                   | _ -> if string_of_mz x <> y then mismatch "sketch" ln "table[%d] model=%s impl=%s" i (string_of_mz x) y
                          else cmp (i + 1) a' b')
              | _ -> mismatch "sketch" ln "table dump length"
            in
            cmp 0 mt words
          end
      | [ "R64"; x; y ] ->
          count "kernel";
          let my = M.roundup64 (z x) in
          if string_of_mz my <> y then mismatch "sketch" ln "RoundUpPowerOf264(%s) model=%s impl=%s" x (string_of_mz my) y
      | [ "R32"; x; y ] ->
          let my = M.roundup32 (z x) in
          if string_of_mz my <> y then mismatch "sketch" ln "RoundUpPowerOf2(%s) model=%s impl=%s" x (string_of_mz my) y
      | [ "H"; x; y; w ] ->
          let my = M.spread (z x) and mw = M.rehash (z x) in
          if string_of_mz my <> y then mismatch "sketch" ln "spread(%s) model=%s impl=%s" x (string_of_mz my) y;
          if string_of_mz mw <> w then mismatch "sketch" ln "rehash(%s) model=%s impl=%s" x (string_of_mz mw) w
      | [ "SA"; a; b; c ] ->
          count "kernel";
          let mc = M.satadd (z a) (z b) in
          if string_of_mz mc <> c then mismatch "sketch" ln "SaturatedAdd(%s,%s) model=%s impl=%s" a b (string_of_mz mc) c
      | _ -> mismatch "sketch" ln "unparsed trace line")
