(* C18 — Frequency estimates never under-count and admission follows them.
   Statements only; every proof is [exact lemma] (lemmas in theories/SketchProofs.v).
   [r] ranges over raw 64-bit key hashes: all keys x all hash seeds. *)
From Otter Require Import Base Sketch SketchProofs.

(* increment (unrolled) and frequency (looped) address the same four counters *)
Theorem C18_same_counters : forall bm bh, pos_unrolled bm bh = map (pos_loop bm bh) [0; 1; 2; 3].
Proof. exact same_counters. Qed.
Print Assumptions C18_same_counters.

(* ... all four distinct and inside the table, for every table length 8*2^k *)
Theorem C18_counters_in_bounds : forall (t : list Z) bm bh k i,
  0 <= k -> Z.of_nat (length t) = 8 * 2 ^ k -> bm = Z.ones k -> In i [0; 1; 2; 3] ->
  0 <= fst (pos_loop bm bh i) < Z.of_nat (length t) /\ 0 <= snd (pos_loop bm bh i).
Proof. exact pos_loop_valid. Qed.
Print Assumptions C18_counters_in_bounds.

(* within one sampling period (no aging step inside [rs]) the estimate of r is at least
   min 15 (estimate before + number of times r was recorded), whatever else was recorded *)
Theorem C18_no_undercount : forall s s' rs r,
  wf s -> inited s = true -> run_period s rs = Some s' ->
  Z.min 15 (frequency s r + occ r rs) <= frequency s' r.
Proof. exact no_undercount. Qed.
Print Assumptions C18_no_undercount.

Theorem C18_le_15 : forall s r, 0 <= frequency s r <= 15.
Proof. exact frequency_le_15. Qed.
Print Assumptions C18_le_15.

(* an aging step halves every estimate *)
Theorem C18_reset_halves : forall s r, wf s -> frequency (reset s) r = frequency s r / 2.
Proof. exact reset_halves. Qed.
Print Assumptions C18_reset_halves.

(* before frequency tracking is enabled every estimate is zero and recording is a no-op *)
Theorem C18_uninitialised_zero : forall s r, inited s = false -> frequency s r = 0 /\ increment s r = s.
Proof. intros s r H. split; [exact (frequency_uninitialised s r H) | exact (increment_uninitialised s r H)]. Qed.
Print Assumptions C18_uninitialised_zero.

(* RoundUpPowerOf264 is the least power of two >= x *)
Theorem C18_roundup : forall x, 1 < x <= two63 ->
  roundup64 x = 2 ^ Z.log2_up x /\ x <= roundup64 x /\ (forall k, 0 <= k -> x <= 2 ^ k -> roundup64 x <= 2 ^ k).
Proof. intros x H. split; [exact (roundup64_spec x H) | exact (roundup64_least x H)]. Qed.
Print Assumptions C18_roundup.

(* ensureCapacity: any capacity (non-powers of two included) yields a zeroed, well-formed table of
   length max 8 (least power of two >= m); it is a no-op when the table is already large enough *)
Theorem C18_capacity : forall s m,
  (m <= Z.of_nat (length (tbl s)) -> ensure_capacity s m = s) /\
  (Z.of_nat (length (tbl s)) < m -> m <= two63 ->
     let s' := ensure_capacity s m in
     inited s' = true /\ ssize s' = 0 /\ Z.of_nat (length (tbl s')) = Z.max 8 (2 ^ Z.log2_up m) /\
     Forall (fun w => w = 0) (tbl s') /\ wf s').
Proof. intros s m. split; [exact (ensure_capacity_noop s m) | exact (ensure_capacity_grows s m)]. Qed.
Print Assumptions C18_capacity.

(* well-formedness is an invariant of every operation, so the hypotheses above are reachable *)
Theorem C18_wf_invariant : wf sketch0 /\
  (forall s r, wf s -> wf (increment s r)) /\ (forall s, wf s -> wf (reset s)) /\
  (forall s m, wf s -> m <= two63 -> wf (ensure_capacity s m)).
Proof. exact (conj sketch0_wf (conj increment_wf (conj reset_wf ensure_capacity_wf))). Qed.
Print Assumptions C18_wf_invariant.

(* admission: displaced only by a strictly greater estimate, apart from the random path *)
Theorem C18_admission : forall s rc rv rnd,
  (accept s rc rv rnd = true -> frequency s rc > frequency s rv \/ (frequency s rc >= 6 /\ Z.land rnd 127 = 0)) /\
  (frequency s rc > frequency s rv -> accept s rc rv rnd = true).
Proof. intros. split; [exact (accept_sound s rc rv rnd) | exact (accept_complete s rc rv rnd)]. Qed.
Print Assumptions C18_admission.

(* non-vacuity: a concrete initialised sketch meets the hypotheses of C18_no_undercount *)
Example C18_nonvacuous :
  let s := ensure_capacity sketch0 10 in
  inited s = true /\ run_period s [5; 7; 5; 5] <> None /\
  (match run_period s [5; 7; 5; 5] with Some s' => frequency s' 5 | None => 0 end) = 3.
Proof. vm_compute. repeat split; discriminate. Qed.
