package main

import (
	"fmt"
	"runtime"
	"sort"
	"strings"
	"sync"
	"sync/atomic"
	"time"

	otter "github.com/maypok86/otter/v2"
)

// Engine "hmap" (C15):
//  (a) the hash table driven sequentially (GOMAXPROCS(1): resize copies run in one goroutine, so the
//      layout is deterministic) through growth to hundreds of buckets and back: the extracted model
//      replays every call with the table's own hashes and must agree on results, the number of times
//      the update function ran and what it saw, size, table length, per-bucket chain length and
//      occupancy, and the exact iteration order;
//  (b) free-running goroutines: per-key atomic counters, stable keys always found, iteration over a
//      churning table yields every stable key exactly once and no key twice, size exact at quiescence;
//  (c) the SWAR kernels on boundary words.
func init() { engines["hmap"] = runHmap }

func runHmap(seed uint64, scale int, out string, _ string) *summary {
	r := &rng{s: seed}
	sum := newSummary("hmap", seed)
	t := newTrace(out)
	defer t.close()
	seen := map[string]bool{}

	// ---- (c) kernels
	words := []uint64{0, 1, 0x80, 0xff, 0x8080808080808080, 0x0101010101010101, 0x7f7f7f7f7f7f7f7f, ^uint64(0), 0x0100, 0x8000000000000000}
	for i := 0; i < 300*scale; i++ {
		words = append(words, r.next())
	}
	for b := 0; b < 128; b++ {
		words = append(words, 0x8080808080808080^(uint64(b)<<uint(8*(b%5))), uint64(b)*0x0101010101010101)
	}
	for _, w := range words {
		b := uint8(w>>3) & 0x7f
		idx := int(w % 8)
		mz := otter.VerifMarkZeroBytes(w)
		fm := 0
		if mz != 0 {
			fm = otter.VerifFirstMarkedByteIndex(mz)
		}
		t.line("K %d %d %d %d %d %d %d %d", w, otter.VerifH1(w), otter.VerifH2(w), otter.VerifBroadcast(b), mz, fm, otter.VerifSetByte(w, b, idx), idx)
	}

	// ---- (a) sequential, deterministic layout
	old := runtime.GOMAXPROCS(1)
	nCases := 6 * scale
	for cn := 0; cn < nCases; cn++ {
		hint := []int{0, 16, 161, 400, 1000, 3000}[cn%6]
		m := otter.VerifNewMap(hint)
		gen := 0
		t.line("N %d", m.TableLen())
		sum.Cases++
		keyspace := 200 + r.intn(1800)
		lastG, lastS := int64(0), int64(0)
		hashDump := func(opKey int) {
			// hashes of every key present (and of nothing else) under the current table
			var sb strings.Builder
			n := 0
			m.Range(func(k, v int) bool {
				fmt.Fprintf(&sb, " %d %d", k, m.Hash(k))
				n++
				return true
			})
			fmt.Fprintf(&sb, " %d %d", opKey, m.Hash(opKey))
			t.line("H %d %d%s", gen, n+1, sb.String())
		}
		layout := func() {
			cl, oc, ok := m.Chains()
			var sb strings.Builder
			for i := range cl {
				fmt.Fprintf(&sb, " %d %d", cl[i], oc[i])
			}
			t.line("L %d %d %d%s", m.Size(), m.TableLen(), len(cl), sb.String())
			if !ok {
				sum.fail("C15", "meta-mismatch", "a bucket's meta byte disagrees with its slot (h2 of the key / empty marker)", fmt.Sprintf("case %d", cn))
			}
		}
		phase := 0 // 0 fill, 1 churn, 2 drain, 3 refill
		nops := 1800 + r.intn(1500)
		shadow := map[int]int{}
		// scripted collision clusters: a chain of three or more buckets under one root bucket, one of its
		// buckets (a middle one, or the root bucket itself) emptied again, then a resize (growth forced by fresh keys / shrink by the drain
		// phase), then lookups of every key of the cluster
		type forcedOp struct {
			kind byte // S D G
			k    int
		}
		var forced []forcedOp
		var cluster []int
		growTarget := -1 // table length that ends the forced growth
		fresh := 10_000_000 + cn*1_000_000
		startCluster := func() {
			if m.TableLen() > 256 {
				return
			}
			mask := uint64(m.TableLen() - 1)
			cl, oc, _ := m.Chains()
			target := -1
			for tries := 0; tries < 50 && target < 0; tries++ {
				b := r.intn(len(cl))
				if cl[b] == 1 && oc[b] == 0 {
					target = b
				}
			}
			if target < 0 {
				return
			}
			cluster = cluster[:0]
			nk := 15 + r.intn(11)
			for c := 5_000_000 + cn*100_000; len(cluster) < nk && c < 5_000_000+cn*100_000+90_000; c++ {
				if int(otter.VerifH1(m.Hash(c))&mask) == target {
					cluster = append(cluster, c)
				}
			}
			if len(cluster) < 15 {
				cluster = cluster[:0]
				return
			}
			for _, c := range cluster {
				forced = append(forced, forcedOp{'S', c})
			}
			// empty one whole middle bucket (a bucket holds 5 entries; they fill in insertion order)
			per := 5
			mid := 1 + r.intn(len(cluster)/per-2+1)
			if (mid+1)*per >= len(cluster) {
				mid = 1
			}
			if r.chance(50) {
				// the ROOT bucket itself is emptied while its overflow buckets stay populated
				mid = 0
				sum.Dist["collision_cluster_root_emptied"]++
			}
			for j := mid * per; j < (mid+1)*per; j++ {
				forced = append(forced, forcedOp{'D', cluster[j]})
			}
			if r.chance(60) {
				growTarget = m.TableLen() * 2
			}
			sum.Dist["collision_cluster_with_hole"]++
		}
		for i := 0; i < nops; i++ {
			sum.Ops++
			if i == nops*4/10 {
				phase = 1
			}
			if i == nops*6/10 {
				phase = 2
			}
			if i == nops*9/10 {
				phase = 3
			}
			if len(forced) == 0 && (i == nops/8 || i == nops*5/10 || i == nops*58/100) {
				startCluster()
			}
			if len(forced) == 0 && growTarget > 0 {
				if m.TableLen() >= growTarget || m.TableLen() > 512 {
					growTarget = -1
				} else {
					fresh++
					forced = append(forced, forcedOp{'S', fresh})
				}
			}
			k := r.intn(keyspace)
			var fo *forcedOp
			if len(forced) > 0 {
				f := forced[0]
				forced = forced[1:]
				fo = &f
				k = f.k
			}
			if fo == nil && r.chance(15) && len(shadow) > 0 {
				// aim at a crowded bucket: a key that collides with an existing one under the current seed
				mask := uint64(m.TableLen() - 1)
				target := otter.VerifH1(m.Hash(r.intn(keyspace))) & mask
				for tries := 0; tries < 200; tries++ {
					c := r.intn(keyspace * 4)
					if otter.VerifH1(m.Hash(c))&mask == target {
						k = c
						break
					}
				}
			}
			x := r.intn(100)
			pSet := []int{70, 45, 2, 70}[phase]
			pDel := []int{5, 35, 88, 5}[phase]
			if fo != nil {
				switch fo.kind {
				case 'S':
					x = 0
				case 'D':
					x = pSet
				default:
					x = 96
				}
			}
			if fo == nil && phase == 2 && len(shadow) > 0 && r.chance(92) {
				// drain: delete keys that are present (smallest first, deterministic)
				best := -1
				for kk := range shadow {
					if best == -1 || kk < best {
						best = kk
					}
				}
				k = best
			}
			hb := m.Hash(k)
			genb := gen
			switch {
			case x < pSet:
				v := i + 1
				calls, nv, ok := m.Compute(k, func(old int, found bool) (int, int) { return v, 1 })
				shadow[k] = v
				t.line("C %d %d %d S %d ; %d %d %d", genb, k, hb, v, calls, nv, b2iG(ok))
				sum.Dist["set"]++
			case x < pSet+pDel:
				var sawOld, sawFound = 0, false
				calls, nv, ok := m.Compute(k, func(old int, found bool) (int, int) { sawOld, sawFound = old, found; return 0, 2 })
				if want, had := shadow[k]; had != sawFound || (had && want != sawOld) {
					sum.fail("C15", "compute-saw-wrong-binding", "the update function saw a binding other than the current one", fmt.Sprintf("case %d key %d saw=(%d,%v) current=(%d,%v)", cn, k, sawOld, sawFound, want, had))
				}
				delete(shadow, k)
				t.line("C %d %d %d D 0 ; %d %d %d", genb, k, hb, calls, nv, b2iG(ok))
				sum.Dist["delete"]++
			case x < pSet+pDel+5:
				calls, nv, ok := m.Compute(k, func(old int, found bool) (int, int) { return 0, 0 })
				t.line("C %d %d %d K 0 ; %d %d %d", genb, k, hb, calls, nv, b2iG(ok))
				sum.Dist["keep"]++
			case x < 97:
				v, ok := m.Get(k)
				t.line("G %d %d %d ; %d %d", genb, k, hb, v, b2iG(ok))
				if want, had := shadow[k]; had != ok || (had && want != v) {
					sum.fail("C15", "lost-or-wrong", "a key that was inserted and not removed is not found (or holds another value)", fmt.Sprintf("case %d key %d got=(%d,%v) want=(%d,%v)", cn, k, v, ok, want, had))
				}
				sum.Dist["get"]++
			case x < 99:
				var sb strings.Builder
				n := 0
				dups := map[int]bool{}
				m.Range(func(kk, vv int) bool {
					fmt.Fprintf(&sb, " %d %d", kk, vv)
					if dups[kk] {
						sum.fail("C15", "range-duplicate", "iteration yielded a key twice", fmt.Sprintf("case %d key %d", cn, kk))
					}
					dups[kk] = true
					n++
					return true
				})
				t.line("R %d%s", n, sb.String())
				if n != len(shadow) {
					sum.fail("C15", "range-count", "iteration did not yield every key exactly once", fmt.Sprintf("case %d yielded=%d present=%d", cn, n, len(shadow)))
				}
				sum.Dist["range"]++
			default:
				if r.chance(20) {
					m.Clear()
					shadow = map[int]int{}
					gen++
					t.line("X")
					sum.Dist["clear"]++
				}
			}
			g, s := m.Resizes()
			if g != lastG || s != lastS {
				gen += int(g-lastG) + int(s-lastS)
				if g != lastG {
					sum.Dist["grow"]++
				} else {
					sum.Dist["shrink"]++
				}
				lastG, lastS = g, s
				hashDump(k)
				// after every resize look up every key of the last collision cluster
				for _, c := range cluster {
					forced = append(forced, forcedOp{'G', c})
				}
			}
			if m.Size() != len(shadow) {
				sum.fail("C15", "size", "Size() differs from the number of keys", fmt.Sprintf("case %d size=%d keys=%d", cn, m.Size(), len(shadow)))
			}
			layout()
			seen[fmt.Sprintf("len%d/ph%d", m.TableLen(), phase)] = true
		}
		if len(sum.Samples) < 3 {
			sum.Samples = append(sum.Samples, fmt.Sprintf("hmap sequential case %d: hint=%d keyspace=%d ops=%d final table=%d size=%d resizes=%d", cn, hint, keyspace, nops, m.TableLen(), m.Size(), gen))
		}
	}
	runtime.GOMAXPROCS(old)

	// ---- (c) a Compute that is INSIDE its function (it holds its bucket) while another goroutine makes the
	// table grow or shrink: the copy must wait for that bucket, so that the update lands in the table that
	// survives.  Large tables (>= 128 root buckets, copied in parallel) and small ones (copied serially).
	parked := 10 * scale
	for pc := 0; pc < parked; pc++ {
		big := pc%2 == 0
		n0 := 100
		if big {
			n0 = 560 + r.intn(200)
		}
		m := otter.VerifNewMap(0)
		for k := 0; k < n0; k++ {
			m.Compute(2_000_000+k, func(int, bool) (int, int) { return k, 1 })
		}
		victim := 3_000_000 + pc
		mode := pc % 3 // 0 insert, 1 update, 2 delete
		if mode != 0 {
			m.Compute(victim, func(int, bool) (int, int) { return 7, 1 })
		}
		tl0 := m.TableLen()
		inside := make(chan struct{})
		release := make(chan struct{})
		done := make(chan struct{})
		go func() {
			defer close(done)
			m.Compute(victim, func(int, bool) (int, int) {
				close(inside)
				<-release
				switch mode {
				case 2:
					return 0, 2
				default:
					return 4242, 1
				}
			})
		}()
		<-inside
		grown := make(chan struct{})
		shrink := pc%4 == 3
		go func() {
			defer close(grown)
			if shrink {
				for k := 0; k < n0; k++ {
					m.Compute(2_000_000+k, func(int, bool) (int, int) { return 0, 2 })
				}
				return
			}
			for k := 0; m.TableLen() == tl0 && k < 6*n0+2000; k++ {
				m.Compute(4_000_000+k, func(int, bool) (int, int) { return k, 1 })
			}
		}()
		select {
		case <-grown:
		case <-time.After(40 * time.Millisecond):
		}
		close(release)
		<-done
		select {
		case <-grown:
		case <-time.After(20 * time.Second):
			sum.fail("C15", "resize-stuck", "a resize did not finish after the Compute that held one of its buckets returned", fmt.Sprintf("parked case %d", pc))
			continue
		}
		sum.Ops += n0
		v, ok := m.Get(victim)
		wantOK := mode != 2
		inRange := 0
		cnt := 0
		m.Range(func(k, _ int) bool {
			cnt++
			if k == victim {
				inRange++
			}
			return true
		})
		if ok != wantOK || (ok && v != 4242) || (wantOK && inRange != 1) || (!wantOK && inRange != 0) || m.Size() != cnt {
			sum.fail("C15", "lost-across-resize", "an update made by a Compute that overlapped a resize is missing from (or a deleted key is back in) the surviving table",
				fmt.Sprintf("parked case %d big=%v mode=%d (0 insert,1 update,2 delete) shrink=%v: Get=(%d,%v) in Range %d times, Size=%d Range count=%d table %d->%d",
					pc, big, mode, shrink, v, ok, inRange, m.Size(), cnt, tl0, m.TableLen()))
		}
		sum.Dist[fmt.Sprintf("parked_compute_across_resize_big_%v", big)]++
	}
	// ---- (b) concurrent oracles
	rounds := 12 * scale
	for rd := 0; rd < rounds; rd++ {
		m := otter.VerifNewMap([]int{0, 100, 2000}[rd%3])
		G := 4 + r.intn(8)
		const shared = 8
		per := 400 + r.intn(800)
		stable := 200 + r.intn(600)
		for k := 0; k < stable; k++ { // stable keys: inserted once, never removed
			m.Compute(1_000_000+k, func(int, bool) (int, int) { return k, 1 })
		}
		var wg sync.WaitGroup
		var lostStable, rangeDup, rangeMissing, calledTwice atomic.Int64
		stop := make(chan struct{})
		// readers / iterators
		for rdr := 0; rdr < 2; rdr++ {
			wg.Add(1)
			go func(rdr int) {
				defer wg.Done()
				for {
					select {
					case <-stop:
						return
					default:
					}
					if rdr == 0 {
						for k := 0; k < stable; k += 7 {
							if v, ok := m.Get(1_000_000 + k); !ok || v != k {
								lostStable.Add(1)
							}
						}
					} else {
						seenK := map[int]int{}
						m.Range(func(k, v int) bool { seenK[k]++; return true })
						for k, n := range seenK {
							if n > 1 {
								rangeDup.Add(1)
								_ = k
							}
						}
						for k := 0; k < stable; k++ {
							if seenK[1_000_000+k] != 1 {
								rangeMissing.Add(1)
							}
						}
					}
				}
			}(rdr)
		}
		var workers sync.WaitGroup
		for g := 0; g < G; g++ {
			workers.Add(1)
			go func(g int) {
				defer workers.Done()
				lr := &rng{s: seed*1000 + uint64(rd*100+g)}
				for i := 0; i < per; i++ {
					switch lr.intn(4) {
					case 0: // shared counter
						k := lr.intn(shared)
						calls, _, _ := m.Compute(k, func(old int, found bool) (int, int) { return old + 1, 1 })
						if calls != 1 {
							calledTwice.Add(1)
						}
					case 1, 2: // own keys: insert
						k := 10_000*(g+1) + lr.intn(600)
						m.Compute(k, func(int, bool) (int, int) { return k, 1 })
					default: // own keys: delete
						k := 10_000*(g+1) + lr.intn(600)
						m.Compute(k, func(int, bool) (int, int) { return 0, 2 })
					}
				}
			}(g)
		}
		workers.Wait()
		close(stop)
		wg.Wait()
		// quiescent checks
		total := 0
		for k := 0; k < shared; k++ {
			v, _ := m.Get(k)
			total += v
		}
		cnt := 0
		m.Range(func(k, v int) bool { cnt++; return true })
		desc := fmt.Sprintf("hmap stress goroutines=%d ops=%d stable=%d final table=%d size=%d", G, G*per, stable, m.TableLen(), m.Size())
		sum.Cases++
		sum.Ops += G * per
		if lostStable.Load() > 0 {
			sum.fail("C15", "lost-or-wrong", "a key that was inserted and never removed was not found during concurrent resizes", desc)
		}
		if rangeDup.Load() > 0 {
			sum.fail("C15", "range-duplicate", "a concurrent iteration yielded a key twice", desc)
		}
		if rangeMissing.Load() > 0 {
			sum.fail("C15", "range-missed-stable", "a concurrent iteration missed (or repeated) a key present for its whole duration", desc)
		}
		if calledTwice.Load() > 0 {
			sum.fail("C15", "compute-fn-count", "an update function was not applied exactly once", desc)
		}
		if cnt != m.Size() {
			sum.fail("C15", "size", "Size() differs from the number of keys at quiescence", fmt.Sprintf("%s counted=%d", desc, cnt))
		}
		// the shared counters must equal the number of increments that were issued: recount deterministically
		want := 0
		for g := 0; g < G; g++ {
			lr := &rng{s: seed*1000 + uint64(rd*100+g)}
			for i := 0; i < per; i++ {
				switch lr.intn(4) {
				case 0:
					lr.intn(shared)
					want++
				default:
					lr.intn(600)
				}
			}
		}
		if total != want {
			sum.fail("C15", "lost-update", "concurrent per-key updates were lost or duplicated", fmt.Sprintf("%s counters=%d increments=%d", desc, total, want))
		}
		g, s := m.Resizes()
		sum.Dist["stress_growths"] += int(g)
		sum.Dist["stress_shrinks"] += int(s)
		if len(sum.Samples) < 5 {
			sum.Samples = append(sum.Samples, desc)
		}
	}
	ks := make([]string, 0, len(seen))
	for k := range seen {
		ks = append(ks, k)
	}
	sort.Strings(ks)
	sum.Distinct = len(ks)
	return sum
}
