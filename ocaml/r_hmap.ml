(* r_hmap.ml — replays an "hmap" engine trace on the extracted hash-table model. *)
open Util
module M = Model

let run (path : string) : unit =
  let z = mz_of_string in
  (* pre-pass: (case, generation, key) -> hash *)
  let hashes : (int * string * string, M.z) Hashtbl.t = Hashtbl.create 4096 in
  (let cn = ref 0 in
   iter_lines path (fun _ toks ->
       match toks with
       | "N" :: _ -> incr cn
       | "C" :: gen :: k :: h :: _ | "G" :: gen :: k :: h :: _ -> Hashtbl.replace hashes (!cn, gen, k) (z h)
       | "H" :: gen :: _n :: rest ->
           let rec go = function k :: h :: tl -> Hashtbl.replace hashes (!cn, gen, k) (z h); go tl | _ -> () in
           go rest
       | _ -> ()));
  let case_no = ref 0 in
  let missing = ref 0 in
  let hashf (gen : M.z) (k : M.z) : M.z =
    match Hashtbl.find_opt hashes (!case_no, string_of_mz gen, string_of_mz k) with
    | Some h -> h
    | None -> incr missing; M.Z0 in
  let m = ref (M.hmap_new (mz_of_int 32)) in
  iter_lines path (fun ln toks ->
      match toks with
      | [ "N"; tl ] -> incr case_no; m := M.hmap_new (z tl); count "maps"
      | [ "K"; w; eh1; eh2; ebc; emz; efm; esb; idx ] ->
          count "kernels";
          let w' = z w in
          let b = mz_of_z (Z.logand (Z.shift_right (Z.of_string w) 3) (Z.of_int 0x7f)) in
          let chk name model impl = if string_of_mz model <> impl then mismatch "hmap" ln "%s(%s) model=%s impl=%s" name w (string_of_mz model) impl in
          chk "h1" (M.h1 w') eh1; chk "h2" (M.h2 w') eh2; chk "broadcast" (M.broadcast b) ebc;
          let mz = M.markZeroBytes w' in
          chk "markZeroBytes" mz emz;
          (match mz with M.Z0 -> () | _ -> chk "firstMarkedByteIndex" (M.firstMarkedByteIndex mz) efm);
          chk "setByte" (M.setByte w' b (z idx)) esb
      | "C" :: _gen :: k :: _h :: op :: v :: ";" :: calls :: nv :: ok :: [] ->
          count "computes";
          let f (_ : M.z option) : M.cres = match op with "S" -> M.CSet (z v) | "D" -> M.CDel | _ -> M.CKeep in
          let (m', seen) = M.hmap_compute hashf !m (z k) f in
          m := m';
          (match seen with
           | None -> mismatch "hmap" ln "the model's compute did not terminate"
           | Some _ -> if calls <> "1" then begin
                 mismatch "hmap" ln "update function invoked %s times" calls;
                 propfail "C15" "compute-fn-count" ln "update function invoked %s times" calls end);
          let after = M.hmap_get hashf !m (z k) in
          let ms = match after with Some x -> Printf.sprintf "%s 1" (string_of_mz x) | None -> "0 0" in
          if ms <> nv ^ " " ^ ok then mismatch "hmap" ln "Compute(%s %s) result model=[%s] impl=[%s %s]" k op ms nv ok
      | "G" :: _gen :: k :: _h :: ";" :: v :: ok :: [] ->
          count "gets";
          let ms = match M.hmap_get hashf !m (z k) with Some x -> Printf.sprintf "%s 1" (string_of_mz x) | None -> "0 0" in
          if ms <> v ^ " " ^ ok then begin
            mismatch "hmap" ln "Get(%s) model=[%s] impl=[%s %s]" k ms v ok;
            propfail "C15" "lost-or-wrong" ln "Get(%s) returned (%s,%s); the map model holds [%s]" k v ok ms
          end
      | "R" :: _n :: rest ->
          count "ranges";
          let ms = String.concat " " (List.concat_map (fun (k, v) -> [ string_of_mz k; string_of_mz v ]) (M.hmap_range !m)) in
          if ms <> String.concat " " rest then mismatch "hmap" ln "Range order/content differs (model %d pairs)" (List.length (M.hmap_range !m))
      | [ "X" ] -> m := M.hmap_clear hashf !m; count "clears"
      | "H" :: gen :: _ ->
          if string_of_mz (M.hgen !m) <> gen then mismatch "hmap" ln "table generation model=%s impl=%s (a resize happened on one side only)" (string_of_mz (M.hgen !m)) gen
      | "L" :: size :: tl :: _n :: rest ->
          count "layouts_compared";
          if string_of_mz (M.hsize !m) <> size then mismatch "hmap" ln "size model=%s impl=%s" (string_of_mz (M.hsize !m)) size;
          if string_of_mz (M.htlen !m) <> tl then mismatch "hmap" ln "table length model=%s impl=%s" (string_of_mz (M.htlen !m)) tl
          else begin
            let ms = String.concat " " (List.concat_map (fun (a, b) -> [ string_of_mz a; string_of_mz b ]) (M.hmap_layout !m)) in
            if ms <> String.concat " " rest then mismatch "hmap" ln "bucket layout (chain length, occupancy per root bucket) differs"
          end
      | _ -> mismatch "hmap" ln "unparsed trace line");
  if !missing > 0 then mismatch "hmap" 0 "%d hash lookups had no value in the trace" !missing
