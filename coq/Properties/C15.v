(* C15 — Concurrent table: nothing lost across resizes, weakly consistent iteration.
   Model: HashMap.v — an executable sequential model of the CLHT table (meta words, chains,
   first-free-slot insertion, grow / shrink / clear with per-table hash seeds).  The implementation is
   replayed on it call by call (results, how often the update function ran and what it saw, size,
   table length, per-bucket chain length and occupancy, exact iteration order), through growth to
   hundreds of buckets and back.

   Proved here (theories/HashMapBytes.v, HashMapRefine.v), for EVERY hash function (one per table
   generation, no assumption on it), every initial table length and every sequence of Get / Compute
   (keep, set, delete, for present and absent keys) / Clear:
     - C15_seq_refines_map: the table answers exactly like a finite map (a function from keys to
       optional values): every Get and the argument every update function sees are the map's, the
       function runs once, and the loop that retries after growing always terminates within its fuel;
     - C15_iteration_exact: in every reachable state iteration yields every binding of the map exactly
       once (no duplicate key, nothing lost, nothing stale) and the size counter equals their number;
     - C15_resize_keeps_everything: growing, shrinking (re-hashing every entry under the new table's
       seed into chains built by appendToBucket) keeps exactly the bindings; clearing leaves none.
   Underneath: the SWAR byte search has no false negatives and, restricted to the five slot bytes,
   visits marked slots in increasing order; setByte/getByte/broadcast byte algebra; a key is stored
   at most once, in the chain its hash selects, under a meta byte equal to its hash byte.
   Concurrency (HashMapConc.v, proofs in HashMapConcProofs.v): the protocol between Compute, resize and
   Get — root-bucket locks, the resize-in-progress and newer-table re-checks, the resizing flag, the copy
   of each bucket under its lock in any order, publication before release — for any number of threads
   and every schedule: C15_concurrent_table_is_the_map (nothing lost across resizes),
   C15_concurrent_update_atomic / _applied_exactly_once (the atomicity of Compute that C02 assumes),
   C15_concurrent_get_regular (a lock-free Get returns a binding current during the call),
   C15_concurrent_iteration_sound / _complete / _no_removed_entry (Range during resizes),
   C15_concurrent_no_deadlock.  There a
   table version is a key->binding store (the layout is the sequential theorems' subject) and a bucket's
   update, a bucket's copy and a Get's read of its key are one step each; the tbl engine replays the
   real table's hook-to-hook schedules on this model.  Clear under concurrency is checked by
   implementation oracles only. *)
From Otter Require Import Base HashMap HashMapFacts HashMapBytes HashMapRefine HashMapConc HashMapConcProofs HashMapConcLive HashMapConcSize HashMapConcLin.
From Coq Require Import Permutation.

Theorem C15_seq_refines_map : forall hashf n ops,
  1 <= n -> Z.of_nat (length ops) <= 2 ^ 63 ->
  mrun hashf (hmap_new n) ops = srun (fun _ => None) ops.
Proof.
  intros hashf n ops Hn Hl. destruct (rel_new hashf n Hn) as [HR Hsz].
  exact (proj1 (run_refines hashf ops _ _ 0 HR ltac:(lia) ltac:(lia))).
Qed.
Print Assumptions C15_seq_refines_map.

Theorem C15_iteration_exact : forall hashf n ops,
  1 <= n -> Z.of_nat (length ops) <= 2 ^ 63 ->
  let m := mfinal hashf (hmap_new n) ops in
  let s := sfinal (fun _ => None) ops in
  NoDup (map fst (hmap_range m)) /\ (forall k v, In (k, v) (hmap_range m) <-> s k = Some v) /\
  hsize m = Z.of_nat (length (hmap_range m)).
Proof.
  intros hashf n ops Hn Hl. destruct (rel_new hashf n Hn) as [HR Hsz].
  exact (rel_range hashf _ _ (proj2 (run_refines hashf ops _ _ 0 HR ltac:(lia) ltac:(lia)))).
Qed.
Print Assumptions C15_iteration_exact.

Theorem C15_resize_keeps_everything : forall hashf n ops h,
  1 <= n -> Z.of_nat (length ops) <= 2 ^ 63 ->
  let m := mfinal hashf (hmap_new n) ops in
  HInv hashf (hmap_resize hashf m h) /\
  Permutation (hmap_range (hmap_resize hashf m h)) (match h with Clear => [] | _ => hmap_range m end).
Proof.
  intros hashf n ops h Hn Hl. destruct (rel_new hashf n Hn) as [HR Hsz].
  apply resize_spec. exact (proj1 (proj2 (run_refines hashf ops _ _ 0 HR ltac:(lia) ltac:(lia)))).
Qed.
Print Assumptions C15_resize_keeps_everything.

(* one Compute in any state satisfying the invariant: the function sees the current binding, the
   table afterwards holds exactly the other bindings plus the function's result *)
Theorem C15_compute_exact : forall hashf m key f,
  HInv hashf m -> hsize m <= 2 ^ 63 -> final_post hashf m key f (hmap_compute hashf m key f).
Proof. exact compute_spec. Qed.
Print Assumptions C15_compute_exact.

Theorem C15_get_exact : forall hashf m key,
  HInv hashf m ->
  match hmap_get hashf m key with
  | Some v => In (key, v) (hmap_range m)
  | None => forall v, ~ In (key, v) (hmap_range m)
  end.
Proof. exact get_spec. Qed.
Print Assumptions C15_get_exact.


(* ---- the concurrency protocol (HashMapConc.v): any number of Computes and Gets, any schedule, any
   hash functions, tables growing and shrinking underneath (buckets copied in any order).  [spec] is the
   abstract map: only the update step changes it, to [upd spec k (f (spec k))]; [hist] lists its
   successive values. ---- *)

(* the linearization, stated without reference to how the ghosts are computed: [ulog] lists the threads
   in the order of their update steps; the published table is what one gets by applying their functions
   in that order, one after the other, to the empty map (each function to the binding the previous ones
   left); and a thread occurs in that list exactly as often as it has applied its function: once when
   its Compute is past its update, never before *)
Theorem C15_concurrent_linearization : forall hidx KU n0 ops sched, (1 <= n0)%nat ->
  let s := hrun hidx KU (hinit n0 ops) sched in
  (forall k, stores s (hcur s) k = replay (map (kf_of (hths s)) (ulog s)) k) /\
  (forall j t, nth_error (hths s) j = Some t -> count_occ Nat.eq_dec (ulog s) j = b2n (applied t)).
Proof. exact conc_linearization. Qed.
Print Assumptions C15_concurrent_linearization.

(* nothing is lost across resizes: at every moment the table m.table points to holds exactly the
   abstract map (a key inserted and not removed is there; a removed key is not) *)
Theorem C15_concurrent_table_is_the_map : forall hidx KU n0 ops sched, (1 <= n0)%nat ->
  let s := hrun hidx KU (hinit n0 ops) sched in forall k, stores s (hcur s) k = spec s k.
Proof. exact conc_table_is_spec. Qed.
Print Assumptions C15_concurrent_table_is_the_map.

(* an update function is applied atomically: the writer about to apply it holds the lock of the key's
   bucket in the CURRENT table and the binding it is about to be given is the abstract map's *)
Theorem C15_concurrent_update_atomic : forall hidx KU n0 ops sched j t, (1 <= n0)%nat ->
  let s := hrun hidx KU (hinit n0 ops) sched in
  nth_error (hths s) j = Some t -> hpc_ t = W4 ->
  hsnap t = hcur s /\ stores s (hsnap t) (hkey t) = spec s (hkey t) /\ lk s (hsnap t) (hbi t) = true.
Proof. exact conc_update_sees_current. Qed.
Print Assumptions C15_concurrent_update_atomic.

(* ... and exactly once per call, whatever retries the resizes forced: a thread has applied its function
   once when it is past its update step (or resizing after it), not at all before *)
Theorem C15_concurrent_applied_exactly_once : forall hidx KU n0 ops sched j t, (1 <= n0)%nat ->
  nth_error (hths (hrun hidx KU (hinit n0 ops) sched)) j = Some t -> happ t = b2n (applied t).
Proof. exact conc_applied_exactly_once. Qed.
Print Assumptions C15_concurrent_applied_exactly_once.

(* a lock-free Get returns the binding its key had in the abstract map at some moment between its
   table load and its return — never a binding older than the map current when it began *)
Theorem C15_concurrent_get_regular : forall hidx KU n0 ops sched j t, (1 <= n0)%nat ->
  let s := hrun hidx KU (hinit n0 ops) sched in
  nth_error (hths s) j = Some t -> hpc_ t = GDone ->
  (hst t - 1 <= hwit t < length (hist s))%nat /\ nth (hwit t) (hist s) dflt (hkey t) = hres t.
Proof. exact conc_read_regular. Qed.
Print Assumptions C15_concurrent_get_regular.

Theorem C15_concurrent_get_quiescent : forall hidx KU n0 ops sched j t, (1 <= n0)%nat ->
  let s := hrun hidx KU (hinit n0 ops) sched in
  nth_error (hths s) j = Some t -> hpc_ t = GDone -> hst t = length (hist s) -> hres t = spec s (hkey t).
Proof. exact conc_read_quiescent. Qed.
Print Assumptions C15_concurrent_get_quiescent.

(* iteration (Range): for every key, what a finished iteration yielded for it (a binding or nothing) is
   what the abstract map held for it at some moment between the iteration's table load and its end; so a
   key present during the whole iteration is yielded, a key removed before it began (and not re-inserted)
   is not, and a yielded binding is one the key had meanwhile.  (At most once per key: a key lives in one
   bucket of a table version and every bucket is read once — the sequential theorems' layout.) *)
Theorem C15_concurrent_iteration_sound : forall hidx KU n0 ops sched j t, (1 <= n0)%nat ->
  let s := hrun hidx KU (hinit n0 ops) sched in
  nth_error (hths s) j = Some t -> hpc_ t = IDone ->
  forall k, (hst t - 1 <= hwitf t k < length (hist s))%nat /\ nth (hwitf t k) (hist s) dflt k = hyield t k.
Proof. exact conc_iter_sound. Qed.
Print Assumptions C15_concurrent_iteration_sound.

Theorem C15_concurrent_iteration_complete : forall hidx KU n0 ops sched j t k, (1 <= n0)%nat ->
  let s := hrun hidx KU (hinit n0 ops) sched in
  nth_error (hths s) j = Some t -> hpc_ t = IDone ->
  (forall w, (hst t - 1 <= w < length (hist s))%nat -> nth w (hist s) dflt k <> None) -> hyield t k <> None.
Proof. exact conc_iter_complete. Qed.
Print Assumptions C15_concurrent_iteration_complete.

Theorem C15_concurrent_iteration_no_removed_entry : forall hidx KU n0 ops sched j t k, (1 <= n0)%nat ->
  let s := hrun hidx KU (hinit n0 ops) sched in
  nth_error (hths s) j = Some t -> hpc_ t = IDone ->
  (forall w, (hst t - 1 <= w < length (hist s))%nat -> nth w (hist s) dflt k = None) -> hyield t k = None.
Proof. exact conc_iter_no_ghost. Qed.
Print Assumptions C15_concurrent_iteration_no_removed_entry.

(* the reported size: the current table's counter plus what the writers that have updated it still owe
   it (a writer adds its +1 / -1 after releasing the bucket lock, to the table it updated; a resize starts
   the new table with the number of entries it copied) is the number of keys bound; so once every call
   has returned Size() is exact.  KU is any duplicate-free list containing the keys the Computes use. *)
Theorem C15_concurrent_size_accounted : forall hidx KU, NoDup KU -> forall n0 ops sched, (1 <= n0)%nat -> Forall (writes_in KU) ops ->
  let s := hrun hidx KU (hinit n0 ops) sched in
  (cnt s (hcur s) + zsum (owed s) (hths s))%Z = nb KU s (hcur s).
Proof. exact conc_size_accounted. Qed.
Print Assumptions C15_concurrent_size_accounted.

Theorem C15_concurrent_size_exact_when_quiescent : forall hidx KU, NoDup KU -> forall n0 ops sched, (1 <= n0)%nat -> Forall (writes_in KU) ops ->
  let s := hrun hidx KU (hinit n0 ops) sched in
  (forall j t, nth_error (hths s) j = Some t -> pending t = false) ->
  cnt s (hcur s) = nb KU s (hcur s).
Proof. exact conc_size_exact. Qed.
Print Assumptions C15_concurrent_size_exact_when_quiescent.

Theorem C15_concurrent_bound_keys_known : forall hidx KU, NoDup KU -> forall n0 ops sched g k, (1 <= n0)%nat -> Forall (writes_in KU) ops ->
  stores (hrun hidx KU (hinit n0 ops) sched) g k <> None -> In k KU.
Proof. exact conc_bound_keys_known. Qed.
Print Assumptions C15_concurrent_bound_keys_known.

(* no deadlock: in every reachable state, if no step of any thread with any input changes the state,
   every call has returned *)
Theorem C15_concurrent_no_deadlock : forall hidx KU n0 ops sched, (1 <= n0)%nat ->
  let s := hrun hidx KU (hinit n0 ops) sched in
  stuck hidx KU s -> forall i t, nth_error (hths s) i = Some t -> finished t.
Proof. exact conc_no_deadlock. Qed.
Print Assumptions C15_concurrent_no_deadlock.

(* bucket locks and the resizing flag are mutual exclusions *)
Theorem C15_concurrent_bucket_mutex : forall hidx KU n0 ops sched g b, (1 <= n0)%nat ->
  (hcnt (holder g b) (hths (hrun hidx KU (hinit n0 ops) sched)) <= 1)%nat.
Proof. exact conc_bucket_mutex. Qed.
Print Assumptions C15_concurrent_bucket_mutex.
Theorem C15_concurrent_resize_mutex : forall hidx KU n0 ops sched, (1 <= n0)%nat ->
  (hcnt resz (hths (hrun hidx KU (hinit n0 ops) sched)) <= 1)%nat.
Proof. exact conc_resize_mutex. Qed.
Print Assumptions C15_concurrent_resize_mutex.

(* a schedule in which a writer must grow the table before its insert, another writer holds a bucket
   the copy needs, a reader loaded the old table before the publication and reads it afterwards, and a
   delete shrinks the table again, while an iteration that loaded the first table reads it at the very
   end: three table versions, every call finishes, every function applied once, the reader's value is the
   one written during its call, the iteration yields what the first table held when it was retired, the
   final size counter is exact *)
Example C15_concurrent_instance :
  let hx := fun (g : nat) (k : Z) => (Z.to_nat k + g)%nat in
  let ops := [HCompute 1 (fun _ => Some 10); HCompute 2 (fun _ => Some 20); HGet 1;
              HCompute 1 (fun v => match v with Some x => Some (x + 1) | None => None end); HCompute 2 (fun _ => None); HRange] in
  let rep := fun (i n : nat) => repeat (i, 0%nat) n in
  let sched := rep 0%nat 8%nat ++ [(2, 0)]%nat ++ [(5, 0)]%nat ++ rep 1%nat 4%nat ++ [(1, 1)]%nat ++ rep 3%nat 4%nat ++ [(1, 0); (1, 0)]%nat ++
               rep 4%nat 3%nat ++ rep 3%nat 2%nat ++ [(1, 0); (1, 0); (1, 0)]%nat ++ [(2, 0)]%nat ++ rep 1%nat 9%nat ++
               rep 4%nat 10%nat ++ [(4, 1); (4, 0); (4, 0); (4, 1); (4, 0); (4, 0); (4, 0)]%nat ++ rep 3%nat 3%nat ++ rep 5%nat 3%nat in
  let fin := hrun hx [1; 2] (hinit 1 ops) sched in
  map hpc_ (hths fin) = [HDone; HDone; GDone; HDone; HDone; IDone] /\ lens fin = [1; 2; 1]%nat /\ hcur fin = 2%nat /\
  map (fun k => stores fin (hcur fin) k) [1; 2; 3] = [Some 11; None; None] /\ cnt fin (hcur fin) = 1 /\
  map hres (hths fin) = [None; None; Some 11; None; None; None] /\ map happ (hths fin) = [1; 1; 0; 1; 1; 0]%nat /\
  map hst (hths fin) = [0; 0; 2; 0; 0; 2]%nat /\ map hwit (hths fin) = [0; 0; 2; 0; 0; 0]%nat /\
  map (hyield (nth 5 (hths fin) (thread_of HRange))) [1; 2] = [Some 11; None].
Proof. vm_compute. repeat split. Qed.



(* markZeroBytes marks every zero byte of every 64-bit word: a slot whose meta byte equals the
   broadcast hash byte is always visited (false positives are filtered by the key comparison) *)
Theorem C15_swar_no_false_negative : forall w i,
  0 <= w < two64 -> 0 <= i < 8 -> (w / 2 ^ (8 * i)) mod 256 = 0 ->
  Z.testbit (markZeroBytes w) (8 * i + 7) = true.
Proof. exact mark_zero_byte. Qed.
Print Assumptions C15_swar_no_false_negative.

Theorem C15_xor_matches_bytewise : forall a b i,
  0 <= i -> (Z.lxor a b / 2 ^ (8 * i)) mod 256 = Z.lxor ((a / 2 ^ (8 * i)) mod 256) ((b / 2 ^ (8 * i)) mod 256).
Proof. exact lxor_byte. Qed.
Print Assumptions C15_xor_matches_bytewise.

(* a concrete run through growth, collision chains, deletion and shrink: every binding is found,
   the size is exact, iteration yields each binding once *)
Example C15_instance :
  let hashf := fun (g k : Z) => (k * 2654435761 + g * 40503) mod 18446744073709551616 in
  let set m k := fst (hmap_compute hashf m k (fun _ => CSet (k + 1000))) in
  let del m k := fst (hmap_compute hashf m k (fun _ => CDel)) in
  let keys := map Z.of_nat (seq 0 200) in
  let m1 := fold_left set keys (hmap_new 32) in
  let m2 := fold_left del (map Z.of_nat (seq 0 198)) m1 in
  htlen m1 = 64 /\ hsize m1 = 200 /\ length (hmap_range m1) = 200%nat /\
  forallb (fun k => match hmap_get hashf m1 k with Some v => v =? k + 1000 | None => false end) keys = true /\
  hsize m2 = 2 /\ htlen m2 = 32 /\ hmap_get hashf m2 199 = Some 1199 /\ hmap_get hashf m2 5 = None.
Proof. vm_compute. repeat split. Qed.
