package main

import (
	"fmt"
	"runtime"
	"sync"
	"sync/atomic"
	"time"

	otter "github.com/maypok86/otter/v2"
)

// Engine "mpsc" (C16):
//  (a) sequential pushes/pops over all (initial, maximum) capacity pairs: the extracted model must
//      agree on every result and on all indices/masks/buffer lengths after every call; FIFO and
//      "refused iff full" are also checked on the implementation alone;
//  (b) a producer parked between the producer-index CAS and the slot store: the consumer must wait
//      for the reserved slot instead of reporting "empty" or skipping it;
//  (c) free-running producers against the single consumer across growth: exactly once, per-producer
//      order, bounded size.
func init() { engines["mpsc"] = runMpsc }

func runMpsc(seed uint64, scale int, out string, _ string) *summary {
	r := &rng{s: seed}
	sum := newSummary("mpsc", seed)
	t := newTrace(out)
	defer t.close()
	seen := map[string]bool{}

	pairs := [][2]uint32{}
	for _, mx := range []uint32{4, 5, 8, 16, 17, 32, 64, 100, 128} {
		for _, in := range []uint32{2, 3, 4, 8, 16, 32, 64, 128} {
			if roundPow2(in) <= roundPow2(mx) {
				pairs = append(pairs, [2]uint32{in, mx})
			}
		}
	}
	dump := func(q *otter.VerifMPSC) {
		p, c, l, pm, cm, pl, cl := q.Indices()
		t.line("S %d %d %d %d %d %d %d", p, c, l, pm, cm, pl, cl)
	}
	// ---- (a)+(b)
	for rep := 0; rep < scale; rep++ {
		for _, pr := range pairs {
			q := otter.VerifNewMPSC(pr[0], pr[1])
			t.line("N %d %d", pr[0], pr[1])
			sum.Cases++
			capacity := q.Capacity()
			var fifo []int
			next := 0
			nops := 4*capacity + 40 + r.intn(100)
			bias := 60 // push-heavy first, then drain-heavy, to cross every growth step and come back
			var parked *struct {
				release chan struct{}
				done    chan bool
				v       int
			}
			var tok atomic.Int64
			arrived := make(chan struct{}, 1)
			otter.VerifSetQueueHook(func(id int) {
				if id == 1 && tok.Load() == 1 {
					tok.Store(0)
					arrived <- struct{}{}
					<-parked.release
				}
			})
			for i := 0; i < nops; i++ {
				if i == nops/2 {
					bias = 35
				}
				sum.Ops++
				x := r.intn(100)
				switch {
				case parked == nil && x < 6 && len(fifo) < capacity:
					// (b) reserve a slot and park before publishing
					next++
					v := next
					parked = &struct {
						release chan struct{}
						done    chan bool
						v       int
					}{make(chan struct{}), make(chan bool, 1), v}
					tok.Store(1)
					pk := parked
					go func() { pk.done <- q.TryPush(v) }()
					select {
					case <-arrived:
						t.line("AP %d", v)
						fifo = append(fifo, v)
						sum.Dist["push_parked"]++
					case ok := <-pk.done:
						// resized or refused without reaching the plain store
						tok.Store(0)
						t.line("U %d %d", v, b2iG(ok))
						if ok {
							fifo = append(fifo, v)
						}
						parked = nil
					}
					dump(q)
				case parked != nil && x < 30:
					// pop while a producer is parked: wait if the head slot is the reserved one
					type pres struct {
						v  int
						ok bool
					}
					ch := make(chan pres, 1)
					go func() { v, ok := q.TryPop(); ch <- pres{v, ok} }()
					// whether the pop must wait is known: it must exactly when the head of the queue is the
					// parked producer's reserved slot.  Timing only gives a pop that must wait the chance
					// to return wrongly; a pop that must return is waited for as long as it takes.
					mustWait := len(fifo) > 0 && fifo[0] == parked.v
					patience := 3 * time.Millisecond
					if !mustWait {
						patience = 20 * time.Second
					}
					select {
					case po := <-ch:
						t.line("O %d %d", po.v, b2iG(po.ok))
						if po.ok {
							if len(fifo) == 0 || fifo[0] != po.v {
								sum.fail("C16", "fifo-order", "pop returned an element out of order", fmt.Sprintf("init=%d max=%d got=%d", pr[0], pr[1], po.v))
							} else {
								fifo = fifo[1:]
							}
						} else if len(fifo) > 0 {
							sum.fail("C16", "phantom-empty", "pop reported empty while an accepted element (reserved, unpublished) is pending",
								fmt.Sprintf("init=%d max=%d pending=%v", pr[0], pr[1], fifo))
						}
						dump(q)
					case <-time.After(patience):
						// blocked on the reserved slot: resume the producer, the pop must then deliver it
						t.line("OW")
						close(parked.release)
						ok := <-parked.done
						po := <-ch
						t.line("AR %d", b2iG(ok))
						t.line("O %d %d", po.v, b2iG(po.ok))
						sum.Dist["pop_waited_for_reserved_slot"]++
						if !po.ok || len(fifo) == 0 || fifo[0] != po.v {
							sum.fail("C16", "fifo-order", "pop after waiting returned the wrong element", fmt.Sprintf("init=%d max=%d got=%d ok=%v fifo=%v", pr[0], pr[1], po.v, po.ok, fifo))
						} else {
							fifo = fifo[1:]
						}
						parked = nil
						dump(q)
					}
				case parked != nil && x < 45:
					close(parked.release)
					ok := <-parked.done
					t.line("AR %d", b2iG(ok))
					parked = nil
					dump(q)
				case parked != nil:
					continue
				case x < bias:
					next++
					ok := q.TryPush(next)
					t.line("U %d %d", next, b2iG(ok))
					if ok {
						fifo = append(fifo, next)
					}
					if ok != (len(fifo) <= capacity && (ok || len(fifo) < capacity)) {
						// refused although not full / accepted although full
					}
					if !ok && len(fifo) < capacity {
						sum.fail("C16", "refused-not-full", "an offer was refused although the buffer holds fewer than its maximum", fmt.Sprintf("init=%d max=%d held=%d capacity=%d", pr[0], pr[1], len(fifo), capacity))
					}
					if len(fifo) > capacity {
						sum.fail("C16", "over-capacity", "the buffer accepted more than its maximum", fmt.Sprintf("init=%d max=%d held=%d capacity=%d", pr[0], pr[1], len(fifo), capacity))
					}
					seen[fmt.Sprintf("U%v/%d/%d", ok, bucketOf(uint64(len(fifo))), capacity)] = true
					dump(q)
				default:
					v, ok := q.TryPop()
					t.line("O %d %d", v, b2iG(ok))
					if ok {
						if len(fifo) == 0 || fifo[0] != v {
							sum.fail("C16", "fifo-order", "pop returned an element out of order", fmt.Sprintf("init=%d max=%d got=%d fifo=%v", pr[0], pr[1], v, fifo))
						} else {
							fifo = fifo[1:]
						}
					} else if len(fifo) != 0 {
						sum.fail("C16", "lost", "pop reported empty although accepted elements are pending", fmt.Sprintf("init=%d max=%d fifo=%v", pr[0], pr[1], fifo))
					}
					if int(q.Size()) != len(fifo) {
						sum.fail("C16", "size", "Size() differs from the number of accepted, unconsumed events", fmt.Sprintf("init=%d max=%d size=%d held=%d", pr[0], pr[1], q.Size(), len(fifo)))
					}
					dump(q)
				}
			}
			if parked != nil {
				close(parked.release)
				ok := <-parked.done
				t.line("AR %d", b2iG(ok))
				dump(q)
			}
			otter.VerifSetQueueHook(nil)
			if len(sum.Samples) < 2 {
				sum.Samples = append(sum.Samples, fmt.Sprintf("mpsc sequential init=%d max=%d capacity=%d ops=%d", pr[0], pr[1], capacity, nops))
			}
		}
	}
	// ---- (d) an offer made while another producer is in the middle of growing the queue (parked inside
	// resize, producer index odd) must wait for the growth to finish and then be accepted: the queue is
	// far from its maximum
	for rep := 0; rep < 2*scale; rep++ {
		for _, pr := range pairs {
			if roundPow2(pr[0]) >= roundPow2(pr[1]) {
				continue
			}
			q := otter.VerifNewMPSC(pr[0], pr[1])
			capacity := q.Capacity()
			where := 2 + (rep+int(pr[0]))%3 // hook 2, 3 or 4 of resize
			var tok atomic.Int64
			arrived := make(chan struct{}, 1)
			release := make(chan struct{})
			otter.VerifSetQueueHook(func(id int) {
				if id == where && tok.CompareAndSwap(1, 0) {
					arrived <- struct{}{}
					<-release
				}
			})
			held := 0
			next := 0
			grown := false
			for held < capacity-2 && !grown {
				next++
				v := next
				tok.Store(1)
				done := make(chan bool, 1)
				go func() { done <- q.TryPush(v) }()
				select {
				case ok := <-done:
					tok.Store(0)
					if !ok {
						sum.fail("C16", "refused-not-full", "an offer was refused although the buffer holds fewer than its maximum", fmt.Sprintf("init=%d max=%d held=%d capacity=%d", pr[0], pr[1], held, capacity))
					} else {
						held++
					}
				case <-arrived:
					// producer A is parked inside resize; producer B offers now
					grown = true
					next++
					w := next
					doneB := make(chan bool, 1)
					go func() { doneB <- q.TryPush(w) }()
					early := false
					select {
					case okB := <-doneB:
						early = true
						if !okB {
							sum.fail("C16", "refused-not-full", "an offer made while another producer was growing the queue was refused although the buffer holds fewer than its maximum",
								fmt.Sprintf("init=%d max=%d held=%d capacity=%d hook=%d", pr[0], pr[1], held+1, capacity, where))
						} else {
							held++
						}
					case <-time.After(2 * time.Millisecond):
					}
					close(release)
					if okA := <-done; okA {
						held++
					} else {
						sum.fail("C16", "refused-not-full", "the growing producer's own offer was refused", fmt.Sprintf("init=%d max=%d", pr[0], pr[1]))
					}
					if !early {
						select {
						case okB := <-doneB:
							if !okB {
								sum.fail("C16", "refused-not-full", "an offer that waited for a growth step was refused although the buffer holds fewer than its maximum",
									fmt.Sprintf("init=%d max=%d held=%d capacity=%d hook=%d", pr[0], pr[1], held, capacity, where))
							} else {
								held++
							}
						case <-time.After(5 * time.Second):
							sum.fail("C16", "stuck-offer", "an offer never returned after the growth step finished", fmt.Sprintf("init=%d max=%d", pr[0], pr[1]))
						}
					}
					sum.Dist["offer_during_growth"]++
				}
			}
			otter.VerifSetQueueHook(nil)
			// everything accepted comes out exactly once (the two racing offers in either order)
			got := map[int]int{}
			n := 0
			for {
				v, ok := q.TryPop()
				if !ok {
					break
				}
				got[v]++
				n++
			}
			if n != held || len(got) != held {
				sum.fail("C16", "lost", "accepted events were not all consumed exactly once after a growth step", fmt.Sprintf("init=%d max=%d accepted=%d consumed=%d distinct=%d", pr[0], pr[1], held, n, len(got)))
			}
			sum.Cases++
			sum.Ops += next
			seen[fmt.Sprintf("growth/%d/%d/%d", pr[0], pr[1], where)] = true
		}
	}
	// ---- (e) free-running producers whose total never reaches the maximum: no offer may be refused
	for rd := 0; rd < 150*scale; rd++ {
		in := []uint32{2, 4, 8, 16}[r.intn(4)]
		q := otter.VerifNewMPSC(in, 4096)
		P := 2 + r.intn(9)
		per := 16 + r.intn(300)
		for P*per > q.Capacity() {
			per /= 2
		}
		var refused atomic.Int64
		var wg sync.WaitGroup
		start := make(chan struct{})
		for p := 0; p < P; p++ {
			wg.Add(1)
			go func(p int) {
				defer wg.Done()
				<-start
				for i := 0; i < per; i++ {
					if !q.TryPush(p*1000000 + i) {
						refused.Add(1)
					}
				}
			}(p)
		}
		close(start)
		wg.Wait()
		last := make([]int, P)
		for i := range last {
			last[i] = -1
		}
		got, bad := 0, ""
		for {
			v, ok := q.TryPop()
			if !ok {
				break
			}
			pp, i := v/1000000, v%1000000
			if pp < 0 || pp >= P || i <= last[pp] {
				if bad == "" {
					bad = fmt.Sprintf("producer=%d got index %d after %d", pp, i, last[min(max(pp, 0), P-1)])
				}
			}
			if pp >= 0 && pp < P {
				last[pp] = i
			}
			got++
		}
		desc := fmt.Sprintf("mpsc below-maximum stress init=%d max=4096 producers=%d x %d", in, P, per)
		if n := refused.Load(); n != 0 {
			sum.fail("C16", "refused-not-full", "offers were refused although the buffer never held its maximum", fmt.Sprintf("%s refused=%d", desc, n))
		}
		if int64(got) != int64(P*per)-refused.Load() {
			sum.fail("C16", "lost", "accepted events were not all consumed", fmt.Sprintf("%s consumed=%d refused=%d", desc, got, refused.Load()))
		}
		if bad != "" {
			sum.fail("C16", "producer-order", "events of one producer were consumed out of order or duplicated", desc+" "+bad)
		}
		sum.Cases++
		sum.Ops += P * per
		seen[fmt.Sprintf("below/%d", in)] = true
	}
	// ---- (c) stress
	rounds := 30 * scale
	for rd := 0; rd < rounds; rd++ {
		pr := pairs[r.intn(len(pairs))]
		q := otter.VerifNewMPSC(pr[0], pr[1])
		capacity := q.Capacity()
		P := 1 + r.intn(8)
		per := 500 + r.intn(1500)
		var wg sync.WaitGroup
		var overSize atomic.Bool
		for p := 0; p < P; p++ {
			wg.Add(1)
			go func(p int) {
				defer wg.Done()
				for i := 0; i < per; i++ {
					for !q.TryPush(p*1000000 + i) {
						runtime.Gosched()
					}
				}
			}(p)
		}
		last := make([]int, P)
		for i := range last {
			last[i] = -1
		}
		got := 0
		bad := ""
		deadline := time.Now().Add(20 * time.Second)
		for got < P*per && time.Now().Before(deadline) {
			if int(q.Size()) > capacity {
				overSize.Store(true)
			}
			v, ok := q.TryPop()
			if !ok {
				runtime.Gosched()
				continue
			}
			p, i := v/1000000, v%1000000
			if p < 0 || p >= P || i != last[p]+1 {
				if bad == "" {
					bad = fmt.Sprintf("producer=%d got index %d after %d", p, i, last[min(max(p, 0), P-1)])
				}
			}
			if p >= 0 && p < P {
				last[p] = i
			}
			got++
		}
		wg.Wait()
		sum.Cases++
		sum.Ops += P * per
		desc := fmt.Sprintf("mpsc stress init=%d max=%d producers=%d x %d", pr[0], pr[1], P, per)
		if got != P*per {
			sum.fail("C16", "lost", "accepted events were not all consumed", fmt.Sprintf("%s consumed=%d", desc, got))
		}
		if bad != "" {
			sum.fail("C16", "producer-order", "events of one producer were consumed out of order, duplicated or lost", desc+" "+bad)
		}
		if _, ok := q.TryPop(); ok {
			sum.fail("C16", "duplicate", "an extra event was delivered after all accepted ones", desc)
		}
		if overSize.Load() {
			sum.fail("C16", "over-capacity", "Size() exceeded the maximum", desc)
		}
		seen[fmt.Sprintf("stress/%d/%d", pr[0], pr[1])] = true
		if len(sum.Samples) < 4 {
			sum.Samples = append(sum.Samples, desc)
		}
	}
	sum.Distinct = len(seen)
	return sum
}

func roundPow2(v uint32) uint32 {
	p := uint32(1)
	for p < v {
		p <<= 1
	}
	return p
}
