(* r_lin.ml — per-key linearizability search (Wing-Gong with memoisation) whose sequential oracle
   is the extracted cache model (Seq.step on a configuration without deadlines): every completed
   operation must take effect atomically at some instant between its invocation and its response,
   and automatic removals at the instant the atomic deletion handler reported them. *)
open Util
module M = Model

type ev = { g : int; key : string; kind : string; arg : string; sub : string;
            retv : string; retb : string; cbcalls : int; cbfound : string; cbold : string;
            call : int; resp : int; line : int }

let cfg : M.cfg =
  let id3 _ _ c = c and id4 _ _ _ c = c in
  { M.with_exp = false; with_refr = false; weighted = false; bounded = true; weigher = (fun _ _ -> mz_of_int 1);
    exp_create = id3; exp_update = id4; exp_read = id3; refr_create = id3; refr_update = id4; refr_reload = id4; refr_fail = id3 }

let z = mz_of_string
let zero = M.Z0

(* apply one event to the single-key state; None if the recorded result is impossible here *)
let apply (st : M.cstate) (e : ev) : M.cstate option =
  let k = z e.key and v = z e.arg in
  let opc = function "W" -> M.OpWrite | "I" -> M.OpInvalidate | _ -> M.OpCancel in
  let op =
    match e.kind with
    | "SET" -> M.OSet (k, v, zero)
    | "SIA" -> M.OSetIfAbsent (k, v, zero)
    | "GIP" -> M.OGetIfPresent (k, zero)
    | "INV" -> M.OInvalidate (k, zero)
    | "CMP" -> M.OCompute (k, (fun _ _ -> M.RRes (v, opc e.sub)), zero)
    | "CIA" -> M.OComputeIfAbsent (k, (fun () -> M.RRes (v, opc e.sub)), zero)
    | "CIP" -> M.OComputeIfPresent (k, (fun _ -> M.RRes (v, opc e.sub)), zero)
    | _ -> M.OAuto (k, v, M.COverflow, zero) in
  let (st', r) = M.step cfg st op in
  if e.kind = "AUTO" then (match r.M.r_ret with M.RNone -> Some st' | _ -> None)
  else
    match r.M.r_ret with
    | M.RVal (rv, rb) ->
        let ok_ret = string_of_mz rv = e.retv && (if rb then "1" else "0") = e.retb in
        let ok_cb =
          match e.kind with
          | "CMP" ->
              (match List.filter_map (function M.CbRemap (f, o) -> Some (f, o) | _ -> None) r.M.r_cb with
               | (f, o) :: _ -> e.cbcalls = 1 && (if f then "1" else "0") = e.cbfound && string_of_mz o = e.cbold
               | [] -> false)
          | "CIP" ->
              (match List.filter_map (function M.CbRemap (f, o) -> Some (f, o) | _ -> None) r.M.r_cb with
               | (true, o) :: _ -> e.cbcalls = 1 && string_of_mz o = e.cbold
               | _ -> e.cbcalls = 0)
          | "CIA" ->
              (match List.filter_map (function M.CbRemap (f, _) -> Some f | _ -> None) r.M.r_cb with
               | false :: _ -> e.cbcalls = 1
               | _ -> e.cbcalls = 0)
          | _ -> true in
        if ok_ret && ok_cb then Some st' else None
    | _ -> None

let state_key (st : M.cstate) : string =
  match M.cmap st with [] -> "-" | (_, n) :: _ -> string_of_mz n.M.nval

(* strict: an automatic removal takes effect at the instant the atomic deletion handler reported it *)
let strict (evs : ev array) : ev array =
  Array.map (fun e -> if e.kind = "AUTO" then { e with resp = e.call } else e) evs

let linearizable (evs : ev array) : bool =
  let n = Array.length evs in
  if n > 60 then true else begin
    let memo : (int * string, unit) Hashtbl.t = Hashtbl.create 1024 in
    let full = (1 lsl n) - 1 in
    let rec go (mask : int) (st : M.cstate) : bool =
      if mask = full then true
      else if Hashtbl.mem memo (mask, state_key st) then false
      else begin
        Hashtbl.replace memo (mask, state_key st) ();
        (* the earliest response among pending events bounds which events may go next *)
        let minresp = ref max_int in
        for j = 0 to n - 1 do if mask land (1 lsl j) = 0 && evs.(j).resp < !minresp then minresp := evs.(j).resp done;
        let found = ref false in
        let i = ref 0 in
        while not !found && !i < n do
          if mask land (1 lsl !i) = 0 && evs.(!i).call <= !minresp then begin
            match apply st evs.(!i) with
            | Some st' -> if go (mask lor (1 lsl !i)) st' then found := true
            | None -> ()
          end;
          incr i
        done;
        !found
      end in
    go 0 M.cstate0
  end

let run (path : string) : unit =
  let cur : (string, ev list) Hashtbl.t = Hashtbl.create 8 in
  let case = ref "" and nkeys = ref 0 in
  let flush ln =
    Hashtbl.iter (fun key evs ->
        if int_of_string key < !nkeys then begin
          let arr = Array.of_list (List.rev evs) in
          count "key_histories";
          countn "events" (Array.length arr);
          let overlapping = ref 0 in
          Array.iteri (fun i a -> Array.iteri (fun j b -> if i < j && a.call < b.resp && b.call < a.resp then incr overlapping) arr) arr;
          if !overlapping > 0 then count "histories_with_overlap";
          if not (linearizable arr) then begin
            (* even with the removal taking effect anywhere between the handler's report and the moment the node left the table *)
            let show e = Printf.sprintf "[g%d %s %s %s -> (%s,%s) cb(%d,%s,%s) @%d-%d]" e.g e.kind e.arg e.sub e.retv e.retb e.cbcalls e.cbfound e.cbold e.call e.resp in
            propfail "C02" "not-linearizable" ln "case %s key %s: no linearization: %s" !case key
              (String.concat " " (Array.to_list (Array.map show arr)))
          end else if not (linearizable (strict arr)) then begin
            count "eviction_visible_after_report";
            let show e = Printf.sprintf "[g%d %s %s %s -> (%s,%s) @%d-%d]" e.g e.kind e.arg e.sub e.retv e.retb e.call e.resp in
            propfail "C02" "eviction-visible-after-report" ln "case %s key %s: linearizable only if an automatic removal takes effect after (not at) the instant OnAtomicDeletion reported it: %s" !case key
              (String.concat " " (Array.to_list (Array.map show arr)))
          end
        end) cur;
    Hashtbl.clear cur in
  let last = ref 0 in
  iter_lines path (fun ln toks ->
      last := ln;
      match toks with
      | [ "N"; c; _b; nk ] -> flush ln; case := c; nkeys := int_of_string nk; count "cases"
      | [ "E"; g; key; kind; arg; sub; ";"; retv; retb; _pan; ";"; cbc; cbf; cbo; ";"; call; resp ] ->
          let e = { g = int_of_string g; key; kind; arg; sub; retv; retb; cbcalls = int_of_string cbc; cbfound = cbf; cbold = cbo;
                    call = int_of_string call; resp = int_of_string resp; line = ln } in
          Hashtbl.replace cur key (e :: (try Hashtbl.find cur key with Not_found -> []))
      | _ -> mismatch "lin" ln "unparsed trace line");
  flush !last
