(* C05 — Policy bookkeeping agrees with the map at quiescence.
   Model: Maint.v over Policy.v / Wheel.v; the implementation is replayed task by task on the
   extracted model and every deque, counter, wheel bucket and node state is compared after every
   operation (engine "maint"), in addition to the implementation-only view oracles.

   Proved here (theories/PolicyInv.v), for EVERY event list over the system
       index actions (create / replace / remove a node, creating its add / update / delete task)
     | a task in flight reaches the write buffer — in ANY order (EPush k) —
     | reads | maintenance runs at any clock values | SetMaximum
   and for the repaired policy.update:
     C05_invariant_all_orders  the bookkeeping invariant holds in every reachable state: the deques are
         duplicate-free and disjoint, each linked node carries its deque's tag and is not dead, an
         alive node whose task was consumed is linked, and the three wrapping counters equal (mod 2^64)
         sums over the node store with a coefficient [task consumed] - [dead] per node;
     C05_quiescent  whenever no task is pending (in flight or in the write buffer): the deques hold
         exactly the nodes that are alive (the entries present), each once — so Hottest/Coldest
         enumerate exactly the entries present, nothing removed is tracked and nothing present is
         unknown — and weightedSize, windowWeightedSize, mainProtectedWeightedSize equal (mod 2^64)
         the sums of the weights linked in all deques / the window / the protected deque.
   Node identities are fresh and replace/remove act on the current (alive) node: [run_ok]. *)
From Otter Require Import Base Sketch Policy Wheel Maint PolicyFacts PolicyInv.

Theorem C05_invariant_all_orders : forall hashf evs expire weighted,
  run_ok hashf (sys0 expire weighted) evs ->
  SI (fold_left (sys_step hashf) evs (sys0 expire weighted)).
Proof. intros hashf evs expire weighted H. exact (SI_run hashf evs _ (SI_sys0 expire weighted) H). Qed.
Print Assumptions C05_invariant_all_orders.

Theorem C05_quiescent : forall hashf evs expire weighted,
  run_ok hashf (sys0 expire weighted) evs ->
  let s := fold_left (sys_step hashf) evs (sys0 expire weighted) in
  pend s = [] ->
  let p := pol (sm s) in
  NoDup (qwin p ++ qprob p ++ qprot p) /\
  (forall id, linked p id <-> alive_in p id) /\
  wsize p = wrapu (sum_weights p (qwin p ++ qprob p ++ qprot p)) /\
  wwsize p = wrapu (sum_weights p (qwin p)) /\
  pwsize p = wrapu (sum_weights p (qprot p)).
Proof. exact policy_quiescent. Qed.
Print Assumptions C05_quiescent.

(* one maintenance run consumes the whole write buffer and keeps the invariant, whatever it holds *)
Theorem C05_maintenance_consumes_buffer : forall hashf cur rnd now adj m fl,
  MI m (fl ++ wbuf m) ->
  let m' := fst (fst (fst (m_maintenance hashf cur rnd now adj m))) in
  MI m' fl /\ wbuf m' = [].
Proof. exact MI_maintenance. Qed.
Print Assumptions C05_maintenance_consumes_buffer.

(* the repaired update: whenever the new node is no longer alive or the old one is not linked
   (its add still pending, or already evicted), update is delete(old) followed by add(new) *)
Theorem C05_update_out_of_order : forall hashf p n old,
  pstate (node_of p n) <> ALIVE \/ pol_contains p old = false ->
  pol_update hashf p n old = pol_add hashf (pol_delete p old) n.
Proof.
  intros hashf p n old H. unfold pol_update.
  destruct H as [H|H].
  - replace (pstate (node_of p n) =? ALIVE) with false by lia. reflexivity.
  - rewrite H. rewrite orb_true_r. reflexivity.
Qed.
Print Assumptions C05_update_out_of_order.

(* weights never change once a node exists: evicting any node leaves every weight as it was *)
Theorem C05_weights_immutable : forall p id x, pweight (node_of (pol_evict p id) x) = pweight (node_of p x).
Proof. exact pol_evict_weight. Qed.
Print Assumptions C05_weights_immutable.

(* non-vacuity of the hypotheses: an event list in which the update task overtakes the add task of
   the node it replaces (the order that broke the original code) is legal, ends quiescent, and the
   policy then holds exactly the surviving node *)
Example C05_hypotheses_satisfiable :
  let h := fun _ k : Z => k in
  let evs := [ESetMax 10 1 7; ECreate 101 1 1; EReplace 102 1 1 101; EPush 1; EPush 0; ERead 102;
              EMaint (fun _ => 0) 1 0 0] in
  run_ok h (sys0 false false) evs /\
  let s := fold_left (sys_step h) evs (sys0 false false) in
  pend s = [] /\ qwin (pol (sm s)) ++ qprob (pol (sm s)) ++ qprot (pol (sm s)) = [102] /\ wsize (pol (sm s)) = 1.
Proof.
  cbv zeta. split.
  - cbn [run_ok]. repeat split; try exact I; try (vm_compute; reflexivity).
    vm_compute. eexists. split; reflexivity.
  - vm_compute. repeat split.
Qed.

(* the deterministic witness of the original defect (Set(1,a); Set(1,b) before the first drain),
   replayed on the repaired model: the second node ends up linked, counted once, and the first dead *)
Example C05_out_of_order_witness_repaired :
  let h := fun _ k => k in
  let m0 := m_set_maximum (mstate0 true false false) 10 1 7 in
  let m1 := m_push (m_new m0 101 1 1) (TAdd 101) in
  let m2 := m_push (m_retire (m_new m1 102 1 1) 101) (TUpd 102 101) in
  let '(m3, _, _, _) := m_maintenance h (fun _ => 0) 1 0 0 m2 in
  (qwin (pol m3) ++ qprob (pol m3) ++ qprot (pol m3) = [102]) /\ wsize (pol m3) = 1 /\
  pstate (node_of (pol m3) 101) = DEAD /\ pstate (node_of (pol m3) 102) = ALIVE.
Proof. vm_compute. repeat split. Qed.

(* the same with the tasks arriving in the opposite order (update before add) *)
Example C05_update_before_add_repaired :
  let h := fun _ k => k in
  let m0 := m_set_maximum (mstate0 true false false) 10 1 7 in
  let m1 := m_new m0 101 1 1 in
  let m2 := m_retire (m_new m1 102 1 1) 101 in
  let m3 := m_push (m_push m2 (TUpd 102 101)) (TAdd 101) in
  let '(m4, _, _, _) := m_maintenance h (fun _ => 0) 1 0 0 m3 in
  (qwin (pol m4) ++ qprob (pol m4) ++ qprot (pol m4) = [102]) /\ wsize (pol m4) = 1 /\ wwsize (pol m4) = 1 /\
  pstate (node_of (pol m4) 101) = DEAD.
Proof. vm_compute. repeat split. Qed.

(* the hill climber's transfers (policy.climb / increaseWindow / decreaseWindow) are part of the model: the
   amount is an input (floating-point arithmetic on sampled hit rates), what is moved where is not.  They
   keep the bookkeeping invariant for every amount — C05_invariant_all_orders and C04_bound_after_maintenance
   quantify over it (the adj of EMaint).  A transfer that takes the protected head because the probation
   head is heavier than the quota: the entry goes to the window, the protected counter is decremented, the
   unused quota goes back to the maxima *)
Example C05_climber_takes_protected_head_when_probation_head_is_too_heavy :
  let nd := fun k w q => mkPnode k w ALIVE q in
  let p := mkPolicy [(1, nd 11 5 QPROBATION); (2, nd 12 1 QPROTECTED); (3, nd 13 1 QWINDOW)]
                    [3] [1] [2] 32 7 1 1 24 1 sketch0 true in
  let '(p', lft) := pol_climb_adj 2 p in
  qwin p' = [3; 2] /\ qprob p' = [1] /\ qprot p' = [] /\ wwsize p' = 2 /\ pwsize p' = 0 /\ wsize p' = 7 /\
  wmax p' = 2 /\ pmax p' = 23 /\ lft = 1 /\ pqueue (node_of p' 2) = QWINDOW.
Proof. vm_compute. repeat split. Qed.

Example C05_climber_shrinks_window :
  let nd := fun k w q => mkPnode k w ALIVE q in
  let p := mkPolicy [(1, nd 11 1 QWINDOW); (2, nd 12 1 QWINDOW); (3, nd 13 3 QWINDOW)]
                    [1; 2; 3] [] [] 32 5 6 5 20 0 sketch0 true in
  let '(p', lft) := pol_climb_adj (-2) p in
  qwin p' = [3] /\ qprob p' = [1; 2] /\ wwsize p' = 3 /\ wmax p' = 4 /\ pmax p' = 22 /\ lft = 0.
Proof. vm_compute. repeat split. Qed.

(* ---- index actions INSIDE a maintenance run (MaintSplit.v): a run is split into its drain part (XPre)
   and its expire / evict / climb part (XPost); index actions, task arrivals in any order and reads may
   come between the two — the node a run is about to expire or evict may have been replaced or
   invalidated with the task that says so still in the write buffer.  The invariant holds in every
   reachable state of that larger event system, and whenever nothing is pending the policy agrees with
   the table. *)
From Otter Require Import MaintSplit.

Theorem C05_invariant_mid_maintenance_writes : forall hashf xs expire weighted,
  runx_ok hashf (sys0 expire weighted) xs ->
  SI (fold_left (sysx_step hashf) xs (sys0 expire weighted)).
Proof. intros hashf xs expire weighted H. exact (SX_run hashf xs _ (SI_sys0 expire weighted) H). Qed.
Print Assumptions C05_invariant_mid_maintenance_writes.

Theorem C05_quiescent_mid_maintenance_writes : forall hashf xs expire weighted,
  runx_ok hashf (sys0 expire weighted) xs ->
  let s := fold_left (sysx_step hashf) xs (sys0 expire weighted) in
  pend s = [] ->
  let p := pol (sm s) in
  NoDup (qwin p ++ qprob p ++ qprot p) /\
  (forall id, linked p id <-> alive_in p id) /\
  wsize p = wrapu (sum_weights p (qwin p ++ qprob p ++ qprot p)) /\
  wwsize p = wrapu (sum_weights p (qwin p)) /\
  pwsize p = wrapu (sum_weights p (qprot p)).
Proof. exact policy_quiescent_x. Qed.
Print Assumptions C05_quiescent_mid_maintenance_writes.

(* the split is faithful: the two halves back to back are the whole run *)
Theorem C05_split_is_the_whole_run : forall hashf s cur rnd now adj,
  sysx_step hashf (sysx_step hashf s (XPre cur)) (XPost cur rnd now adj) = sys_step hashf s (EMaint cur rnd now adj).
Proof. exact sysx_pre_post. Qed.
Print Assumptions C05_split_is_the_whole_run.

(* non-vacuity: key 7's node 1 is replaced by node 2 after a run has drained the buffer (node 1 linked)
   and before that run's second half; the update task arrives later; at quiescence exactly node 2 is linked *)
Example C05_mid_maintenance_replace :
  let h := fun _ _ => 0 in
  let s0 := sysx_step h (sys0 false false) (XE (ESetMax 10 1 7)) in
  let xs := [XE (ECreate 1 7 1); XE (EPush 0); XPre (fun _ => 0); XE (EReplace 2 7 1 1); XPost (fun _ => 0) 1 0 0;
             XE (EPush 0); XE (EMaint (fun _ => 0) 1 0 0)] in
  let s := fold_left (sysx_step h) xs s0 in
  pend s = [] /\ qwin (pol (sm s)) ++ qprob (pol (sm s)) ++ qprot (pol (sm s)) = [2].
Proof. vm_compute. split; reflexivity. Qed.
