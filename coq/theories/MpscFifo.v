(* MpscFifo.v — the chunked queue model (Mpsc.v) is, for every sequence of complete pushes and pops,
   a FIFO of capacity roundup32(maximum): nothing lost, nothing duplicated, producer order kept, an
   offer refused exactly when the queue holds its maximum, through every growth step and every jump
   of the consumer into the next buffer (C16). *)
From Otter Require Import Base Sketch SketchProofs Mpsc.
From Coq Require Import ZifyBool ZifyNat.
Local Open Scope Z_scope.
Ltac Zify.zify_post_hook ::= idtac.

(* ------------------------------------------------------------------ *)
(* arithmetic of masks and offsets *)

Definition mask_of (k : Z) : Z := 2 * (2 ^ k - 1).

Lemma pow2_pos k : 0 <= k -> 0 < 2 ^ k.
Proof. intros H. apply Z.pow_pos_nonneg; lia. Qed.

Lemma pow2_succ k : 0 <= k -> 2 ^ (k + 1) = 2 * 2 ^ k.
Proof. intros H. rewrite Z.pow_add_r by lia. change (2 ^ 1) with 2. lia. Qed.

Lemma offset_of_half a k : 0 <= a -> 0 <= k -> offset_of (2 * a) (mask_of k) = Z.to_nat (a mod 2 ^ k).
Proof.
  intros Ha Hk. unfold offset_of, mask_of. f_equal.
  replace (2 * a) with (Z.shiftl a 1) by (rewrite Z.shiftl_mul_pow2 by lia; change (2 ^ 1) with 2; lia).
  replace (2 * (2 ^ k - 1)) with (Z.shiftl (Z.ones k) 1)
    by (rewrite Z.shiftl_mul_pow2 by lia; rewrite Z.ones_equiv; change (2 ^ 1) with 2; lia).
  rewrite <- Z.shiftl_land. rewrite Z.shiftr_shiftl_l by lia. replace (1 - 1) with 0 by lia.
  rewrite Z.shiftl_0_r. apply Z.land_ones. assumption.
Qed.

Lemma next_array_offset_half k : 0 <= k -> next_array_offset (mask_of k) = Z.to_nat (2 ^ k).
Proof.
  intros Hk. unfold next_array_offset, mask_of. f_equal.
  replace (2 * (2 ^ k - 1) + 2) with (2 ^ k * 2) by lia.
  rewrite Z.shiftr_div_pow2 by lia. change (2 ^ 1) with 2. apply Z.div_mul. lia.
Qed.

Lemma mask_of_len k : 0 <= k -> Z.shiftl (2 ^ k + 1 - 2) 1 = mask_of k.
Proof. intros Hk. rewrite Z.shiftl_mul_pow2 by lia. change (2 ^ 1) with 2. unfold mask_of. lia. Qed.

Lemma mod_window_inj n lo a a' :
  0 < n -> lo <= a < lo + n -> lo <= a' < lo + n -> a mod n = a' mod n -> a = a'.
Proof.
  intros Hn Ha Ha' E.
  pose proof (Z.div_mod a n ltac:(lia)) as D. pose proof (Z.div_mod a' n ltac:(lia)) as D'.
  rewrite E in D.
  assert (a - a' = n * (a / n - a' / n)) by lia.
  assert (a / n - a' / n = 0) by nia. lia.
Qed.

Lemma mod_lt_nat a n : 0 < n -> (Z.to_nat (a mod n) < Z.to_nat n)%nat.
Proof. intros Hn. pose proof (Z.mod_pos_bound a n Hn). lia. Qed.

(* ------------------------------------------------------------------ *)
(* the contents of one buffer: a window of 2^k consecutive (half) indices starting at [lo] *)

Definition zlen (l : list Z) : Z := Z.of_nat (length l).

Definition want (lo : Z) (items : list Z) (jump : bool) (a : Z) : slot :=
  if a <? lo + zlen items then SElem (nth (Z.to_nat (a - lo)) items 0)
  else if jump && (a =? lo + zlen items) then SJump else SNil.

Definition bufok (bs : list slot) (k lo : Z) (items : list Z) (jump : bool) (link : slot) : Prop :=
  0 <= k /\ Z.of_nat (length bs) = 2 ^ k + 1 /\
  nth (Z.to_nat (2 ^ k)) bs SNil = link /\
  zlen items + (if jump then 1 else 0) <= 2 ^ k /\
  forall a, lo <= a < lo + 2 ^ k -> nth (Z.to_nat (a mod 2 ^ k)) bs SNil = want lo items jump a.

(* removing the first element: the window moves one step *)
Lemma bufok_pop bs k lo v items jump link :
  bufok bs k lo (v :: items) jump link ->
  nth (Z.to_nat (lo mod 2 ^ k)) bs SNil = SElem v /\
  bufok (upd (Z.to_nat (lo mod 2 ^ k)) SNil bs) k (lo + 1) items jump link.
Proof.
  intros (Hk & Hlen & Hlink & Hfit & Hw).
  pose proof (pow2_pos k Hk) as Hp.
  unfold zlen in *. cbn [length] in Hfit.
  split.
  - rewrite (Hw lo) by lia. unfold want, zlen. cbn [length].
    replace (lo <? lo + Z.of_nat (S (length items))) with true by lia.
    replace (lo - lo) with 0 by lia. reflexivity.
  - pose proof (Z.mod_pos_bound lo (2 ^ k) Hp) as Hb.
    split; [assumption|]. split; [rewrite upd_length; assumption|].
    split; [rewrite nth_upd_other by lia; assumption|].
    split; [unfold zlen; destruct jump; lia|].
    intros a Ha.
    destruct (Z.eq_dec a (lo + 2 ^ k)) as [->|Hne].
    + replace ((lo + 2 ^ k) mod 2 ^ k) with (lo mod 2 ^ k).
      2:{ replace (lo + 2 ^ k) with (lo + 1 * 2 ^ k) by lia. rewrite Z.mod_add by lia. reflexivity. }
      rewrite nth_upd_same by lia.
      unfold want, zlen.
      replace (lo + 2 ^ k <? lo + 1 + Z.of_nat (length items)) with false by (destruct jump; lia).
      destruct jump; cbn [andb]; [|reflexivity].
      replace (lo + 2 ^ k =? lo + 1 + Z.of_nat (length items)) with false by lia. reflexivity.
    + rewrite nth_upd_other.
      2:{ intros E. apply Hne. assert (lo mod 2 ^ k = a mod 2 ^ k) as E' by lia.
          exfalso. assert (lo = a) by (apply (mod_window_inj (2 ^ k) lo); lia). lia. }
      rewrite (Hw a) by lia. unfold want, zlen. cbn [length].
      replace (lo + Z.of_nat (S (length items))) with (lo + 1 + Z.of_nat (length items)) by lia.
      destruct (a <? lo + 1 + Z.of_nat (length items)) eqn:E1; [|reflexivity].
      replace (Z.to_nat (a - lo)) with (S (Z.to_nat (a - (lo + 1)))) by lia. reflexivity.
Qed.

(* storing a new last element / the jump marker in the first free slot *)
Lemma bufok_push bs k lo items link v :
  bufok bs k lo items false link -> zlen items + 1 <= 2 ^ k ->
  bufok (upd (Z.to_nat ((lo + zlen items) mod 2 ^ k)) (SElem v) bs) k lo (items ++ [v]) false link.
Proof.
  intros (Hk & Hlen & Hlink & Hfit & Hw) Hroom.
  pose proof (pow2_pos k Hk) as Hp.
  pose proof (Z.mod_pos_bound (lo + zlen items) (2 ^ k) Hp) as Hb.
  assert (Hz : 0 <= zlen items) by (unfold zlen; lia).
  split; [assumption|]. split; [rewrite upd_length; assumption|].
  split; [rewrite nth_upd_other by lia; assumption|].
  split; [unfold zlen in *; rewrite app_length; cbn [length]; lia|].
  intros a Ha.
  destruct (Z.eq_dec a (lo + zlen items)) as [->|Hne].
  - rewrite nth_upd_same by lia. unfold want, zlen in *. rewrite app_length. cbn [length].
    replace (lo + Z.of_nat (length items) <? lo + Z.of_nat (length items + 1)) with true by lia.
    rewrite app_nth2 by lia.
    replace (Z.to_nat (lo + Z.of_nat (length items) - lo) - length items)%nat with 0%nat by lia.
    reflexivity.
  - rewrite nth_upd_other.
    2:{ intros E. apply Hne. symmetry. apply (mod_window_inj (2 ^ k) lo); lia. }
    rewrite (Hw a) by lia. unfold want, zlen in *. rewrite app_length. cbn [length andb].
    destruct (a <? lo + Z.of_nat (length items)) eqn:E1.
    + replace (a <? lo + Z.of_nat (length items + 1)) with true by lia.
      rewrite app_nth1 by lia. reflexivity.
    + replace (a <? lo + Z.of_nat (length items + 1)) with false by lia. reflexivity.
Qed.

Lemma bufok_jump bs k lo items lk :
  bufok bs k lo items false SNil -> zlen items + 1 <= 2 ^ k ->
  bufok (upd (Z.to_nat ((lo + zlen items) mod 2 ^ k)) SJump (upd (Z.to_nat (2 ^ k)) lk bs)) k lo items true lk.
Proof.
  intros (Hk & Hlen & Hlink & Hfit & Hw) Hroom.
  pose proof (pow2_pos k Hk) as Hp.
  pose proof (Z.mod_pos_bound (lo + zlen items) (2 ^ k) Hp) as Hb.
  assert (Hz : 0 <= zlen items) by (unfold zlen; lia).
  split; [assumption|]. split; [rewrite !upd_length; assumption|].
  split; [rewrite nth_upd_other by lia; apply nth_upd_same; lia|].
  split; [lia|].
  intros a Ha. pose proof (Z.mod_pos_bound a (2 ^ k) Hp) as Hba.
  destruct (Z.eq_dec a (lo + zlen items)) as [->|Hne].
  - rewrite nth_upd_same by (rewrite upd_length; lia). unfold want.
    replace (lo + zlen items <? lo + zlen items) with false by lia.
    replace (lo + zlen items =? lo + zlen items) with true by lia. reflexivity.
  - rewrite nth_upd_other.
    2:{ intros E. apply Hne. symmetry. apply (mod_window_inj (2 ^ k) lo); lia. }
    rewrite nth_upd_other by lia.
    rewrite (Hw a) by lia. unfold want. cbn [andb].
    replace (a =? lo + zlen items) with false by lia. reflexivity.
Qed.

(* a fresh buffer holding one element *)
Lemma bufok_fresh k lo v :
  0 <= k ->
  bufok (upd (Z.to_nat (lo mod 2 ^ k)) (SElem v) (repeat SNil (Z.to_nat (2 ^ k + 1)))) k lo [v] false SNil.
Proof.
  intros Hk. pose proof (pow2_pos k Hk) as Hp.
  pose proof (Z.mod_pos_bound lo (2 ^ k) Hp) as Hb.
  assert (Hnr : forall i, nth i (repeat SNil (Z.to_nat (2 ^ k + 1))) SNil = SNil).
  { intros i. destruct (Nat.lt_ge_cases i (Z.to_nat (2 ^ k + 1))).
    - apply nth_repeat.
    - apply nth_overflow. rewrite repeat_length. assumption. }
  split; [assumption|]. split; [rewrite upd_length, repeat_length; lia|].
  split; [rewrite nth_upd_other by lia; apply Hnr|].
  split; [unfold zlen; cbn [length]; lia|].
  intros a Ha. unfold want, zlen. cbn [length andb]. change (Z.of_nat 1) with 1.
  destruct (Z.eq_dec a lo) as [->|Hne].
  - rewrite nth_upd_same by (rewrite repeat_length; lia).
    replace (lo <? lo + 1) with true by lia. replace (lo - lo) with 0 by lia. reflexivity.
  - rewrite nth_upd_other.
    2:{ intros E. apply Hne. symmetry. apply (mod_window_inj (2 ^ k) lo); lia. }
    rewrite Hnr. replace (a <? lo + 1) with false by lia. reflexivity.
Qed.

Lemma bufok_empty k lo : 0 <= k -> bufok (repeat SNil (Z.to_nat (2 ^ k + 1))) k lo [] false SNil.
Proof.
  intros Hk. pose proof (pow2_pos k Hk) as Hp.
  assert (Hnr : forall i, nth i (repeat SNil (Z.to_nat (2 ^ k + 1))) SNil = SNil).
  { intros i. destruct (Nat.lt_ge_cases i (Z.to_nat (2 ^ k + 1))).
    - apply nth_repeat.
    - apply nth_overflow. rewrite repeat_length. assumption. }
  split; [assumption|]. split; [rewrite repeat_length; lia|].
  split; [apply Hnr|]. split; [unfold zlen; cbn [length]; lia|].
  intros a Ha. rewrite Hnr. unfold want, zlen. cbn [length andb].
  change (Z.of_nat 0) with 0. replace (a <? lo + 0) with false by lia. reflexivity.
Qed.

(* clearing the link slot does not disturb the element slots *)
Lemma bufok_relink bs k lo items jump link lk :
  bufok bs k lo items jump link -> bufok (upd (Z.to_nat (2 ^ k)) lk bs) k lo items jump lk.
Proof.
  intros (Hk & Hlen & Hlink & Hfit & Hw). pose proof (pow2_pos k Hk) as Hp.
  split; [assumption|]. split; [rewrite upd_length; assumption|].
  split; [apply nth_upd_same; lia|]. split; [assumption|].
  intros a Ha. pose proof (Z.mod_pos_bound a (2 ^ k) Hp). rewrite nth_upd_other by lia. apply Hw; assumption.
Qed.

(* ------------------------------------------------------------------ *)
(* the chain of buffers from the consumer's buffer to the producers' buffer: one segment of the
   queue's contents per buffer; [base] describes the last (producers') buffer *)

Fixpoint chain (base : nat -> Z -> Z -> list Z -> Prop) (bufs : list (list slot))
    (segs : list (list Z)) (b : nat) (k lo : Z) : Prop :=
  match segs with
  | [] => False
  | s :: rest =>
      match rest with
      | [] => base b k lo s
      | _ :: _ => bufok (nth b bufs []) k lo s true (SNext (S b)) /\
                  chain base bufs rest (S b) (k + 1) (lo + zlen s)
      end
  end.

Lemma chain_cons (base : nat -> Z -> Z -> list Z -> Prop) (bufs : list (list slot)) s s1 rest b k lo :
  chain base bufs (s :: s1 :: rest) b k lo =
  (bufok (nth b bufs []) k lo s true (SNext (S b)) /\ chain base bufs (s1 :: rest) (S b) (k + 1) (lo + zlen s)).
Proof. reflexivity. Qed.

Lemma zlen_nonneg (l : list Z) : 0 <= zlen l.
Proof. unfold zlen. lia. Qed.

Lemma zlen_app (l1 l2 : list Z) : zlen (l1 ++ l2) = zlen l1 + zlen l2.
Proof. unfold zlen. rewrite app_length. lia. Qed.

Lemma app_is_cons {A} (f l : list A) : l <> [] -> exists s r, f ++ l = s :: r.
Proof.
  intros H. destruct f as [|x f].
  - destruct l as [|y l]; [contradiction|]. exists y, l. reflexivity.
  - exists x, (f ++ l). reflexivity.
Qed.

Lemma chain_frame (base base' : nat -> Z -> Z -> list Z -> Prop) (bufs bufs' : list (list slot)) (segs : list (list Z)) : forall b k lo,
  (forall i, (b <= i)%nat -> nth i bufs' [] = nth i bufs []) ->
  (forall b' k' lo' s, (b <= b')%nat -> lo <= lo' -> base b' k' lo' s -> base' b' k' lo' s) ->
  chain base bufs segs b k lo -> chain base' bufs' segs b k lo.
Proof.
  induction segs as [|s rest IH]; intros b k lo Hf Hb H; [exact H|].
  destruct rest as [|s1 rest].
  - cbn [chain] in *. apply Hb; [lia|lia|assumption].
  - rewrite chain_cons in *. destruct H as [H1 H2]. split.
    + rewrite Hf by lia. assumption.
    + apply IH; [intros i Hi; apply Hf; lia| |assumption].
      intros b' k' lo' s' Hb' Hlo'. apply Hb; [lia|]. pose proof (zlen_nonneg s). lia.
Qed.

Lemma chain_last (base : nat -> Z -> Z -> list Z -> Prop) (bufs : list (list slot)) (front : list (list Z)) (sl : list Z) : forall b k lo,
  chain base bufs (front ++ [sl]) b k lo ->
  exists lo', lo <= lo' /\ base (b + length front)%nat (k + Z.of_nat (length front)) lo' sl.
Proof.
  induction front as [|s f IH]; intros b k lo H.
  - cbn [app chain length] in *. exists lo. split; [lia|].
    replace (b + 0)%nat with b by lia. replace (k + Z.of_nat 0) with k by lia. assumption.
  - cbn [app] in H. destruct (app_is_cons f [sl] ltac:(discriminate)) as (s1 & r & E).
    rewrite E in H. rewrite chain_cons in H. destruct H as [_ H]. rewrite <- E in H.
    destruct (IH _ _ _ H) as (lo' & Hlo & Hb). exists lo'. pose proof (zlen_nonneg s).
    split; [lia|]. cbn [length].
    replace (b + S (length f))%nat with (S b + length f)%nat by lia.
    replace (k + Z.of_nat (S (length f))) with (k + 1 + Z.of_nat (length f)) by lia. assumption.
Qed.

Lemma chain_ext (base base' : nat -> Z -> Z -> list Z -> Prop) (bufs bufs' : list (list slot)) (front : list (list Z)) (sl : list Z) (newlast : list (list Z)) : forall b k lo,
  newlast <> [] ->
  (forall i, (b <= i < b + length front)%nat -> nth i bufs' [] = nth i bufs []) ->
  (forall lo', lo <= lo' -> base (b + length front)%nat (k + Z.of_nat (length front)) lo' sl ->
     chain base' bufs' newlast (b + length front)%nat (k + Z.of_nat (length front)) lo') ->
  chain base bufs (front ++ [sl]) b k lo -> chain base' bufs' (front ++ newlast) b k lo.
Proof.
  induction front as [|s f IH]; intros b k lo Hnl Hf Hcb H.
  - cbn [app chain length] in *.
    specialize (Hcb lo ltac:(lia)).
    replace (b + 0)%nat with b in Hcb by lia. replace (k + Z.of_nat 0) with k in Hcb by lia.
    apply Hcb. assumption.
  - cbn [app] in *. destruct (app_is_cons f [sl] ltac:(discriminate)) as (s1 & r & E).
    rewrite E in H. rewrite chain_cons in H. destruct H as [H1 H]. rewrite <- E in H.
    destruct (app_is_cons f newlast Hnl) as (s2 & r2 & E2).
    rewrite E2. rewrite chain_cons. rewrite <- E2. split.
    + rewrite Hf by (cbn [length]; lia). assumption.
    + apply IH; [assumption| |  |assumption].
      * intros i Hi. apply Hf. cbn [length]. lia.
      * intros lo' Hlo' Hb. pose proof (zlen_nonneg s).
        cbn [length] in Hcb.
        replace (b + S (length f))%nat with (S b + length f)%nat in Hcb by lia.
        replace (k + Z.of_nat (S (length f))) with (k + 1 + Z.of_nat (length f)) in Hcb by lia.
        apply Hcb; [lia|assumption].
Qed.

Lemma chain_total (base : nat -> Z -> Z -> list Z -> Prop) (bufs : list (list slot)) (X : Z) (segs : list (list Z)) : forall b k lo,
  (forall b' k' lo' s, base b' k' lo' s -> X = lo' + zlen s) ->
  chain base bufs segs b k lo -> X = lo + zlen (concat segs).
Proof.
  induction segs as [|s rest IH]; intros b k lo Hb H; [destruct H|].
  destruct rest as [|s1 rest].
  - cbn [chain concat] in *. rewrite app_nil_r. eapply Hb; eassumption.
  - rewrite chain_cons in H. destruct H as [_ H]. specialize (IH _ _ _ Hb H).
    change (concat (s :: s1 :: rest)) with (s ++ concat (s1 :: rest)). rewrite zlen_app. lia.
Qed.

(* ------------------------------------------------------------------ *)
(* the invariant *)

Definition cap (q : mpsc) (k : Z) : Z := cur_buf_capacity q (mask_of k).

Definition pbase (q : mpsc) (K : Z) (b : nat) (k lo : Z) (s : list Z) : Prop :=
  b = pbuf q /\ pmask q = mask_of k /\ k <= K /\
  bufok (nth b (bufs q) []) k lo s false SNil /\
  pidx q = 2 * (lo + zlen s) /\ pidx q <= 2 * lo + cap q k /\ plimit q <= 2 * lo + cap q k.

Definition Inv (q : mpsc) (segs : list (list Z)) : Prop :=
  exists k C K,
    0 <= k /\ 0 <= C /\ cidx q = 2 * C /\ cmask q = mask_of k /\ maxcap q = 2 * 2 ^ K /\
    length (bufs q) = S (pbuf q) /\
    Forall (fun s => s <> []) (tl segs) /\
    chain (pbase q K) (bufs q) segs (cbuf q) k C /\
    plimit q <= cidx q + maxcap q /\ pidx q <= cidx q + maxcap q.

Lemma cap_cases q K k : maxcap q = 2 * 2 ^ K -> 0 <= k <= K ->
  (k = K /\ cap q k = 2 * 2 ^ K) \/ (k < K /\ cap q k = mask_of k /\ 2 * 2 ^ k <= 2 ^ K).
Proof.
  intros Hm Hk. unfold cap, cur_buf_capacity, mask_of. rewrite Hm.
  destruct (2 * (2 ^ k - 1) + 2 =? 2 * 2 ^ K) eqn:E.
  - left. split; [|reflexivity]. assert (2 ^ k = 2 ^ K) by lia. apply (Z.pow_inj_r 2); lia.
  - right. assert (k <> K) by (intros ->; lia). split; [lia|]. split; [reflexivity|].
    rewrite <- pow2_succ by lia. apply Z.pow_le_mono_r; lia.
Qed.

Lemma inv_total q segs : Inv q segs -> pidx q - cidx q = 2 * zlen (concat segs).
Proof.
  intros (k & C & K & Hk & HC & Hc & Hcm & Hmax & Hlen & Hne & Hch & Hl1 & Hl2).
  assert (pidx q / 2 = C + zlen (concat segs)) as E.
  { eapply chain_total; [|exact Hch]. intros b' k' lo' s (_ & _ & _ & _ & Hp & _). rewrite Hp.
    rewrite Z.mul_comm. apply Z.div_mul. lia. }
  assert (exists P, pidx q = 2 * P) as (P & HP).
  { destruct segs as [|s0 r0]; [destruct Hch|].
    destruct (exists_last (l := s0 :: r0) ltac:(discriminate)) as (front & sl & E').
    rewrite E' in Hch. destruct (chain_last _ _ _ _ _ _ _ Hch) as (lo' & _ & (_ & _ & _ & _ & Hp & _)).
    eexists; exact Hp. }
  rewrite HP in E. rewrite Z.mul_comm, Z.div_mul in E by lia. lia.
Qed.

Lemma mpsc_size_abs q segs : Inv q segs -> mpsc_size q = zlen (concat segs).
Proof.
  intros H. unfold mpsc_size. rewrite (inv_total q segs H).
  rewrite Z.shiftr_div_pow2 by lia. change (2 ^ 1) with 2. rewrite Z.mul_comm. apply Z.div_mul. lia.
Qed.

(* ------------------------------------------------------------------ *)
(* push *)

Lemma concat_snoc (front : list (list Z)) (sl : list Z) v :
  concat (front ++ [sl ++ [v]]) = concat (front ++ [sl]) ++ [v].
Proof. rewrite !concat_app. cbn [concat]. rewrite !app_nil_r. apply app_assoc. Qed.

Lemma concat_snoc2 (front : list (list Z)) (sl : list Z) v :
  concat (front ++ [sl; [v]]) = concat (front ++ [sl]) ++ [v].
Proof. rewrite !concat_app. cbn [concat]. rewrite !app_nil_r. apply app_assoc. Qed.

Lemma tl_nonempty_snoc (front : list (list Z)) (sl sl' : list Z) :
  Forall (fun s => s <> []) (tl (front ++ [sl])) -> sl' <> [] ->
  Forall (fun s => s <> []) (tl (front ++ [sl'])).
Proof.
  intros H Hs. destruct front as [|f0 f]; [constructor|].
  cbn [app tl] in *. apply Forall_app in H. destruct H as [H _].
  apply Forall_app. split; [assumption|]. constructor; [assumption|constructor].
Qed.

Lemma tl_nonempty_snoc2 (front : list (list Z)) (sl : list Z) v :
  Forall (fun s => s <> []) (tl (front ++ [sl])) ->
  Forall (fun s => s <> []) (tl (front ++ [sl; [v]])).
Proof.
  intros H. destruct front as [|f0 f].
  - cbn [app tl]. constructor; [discriminate|constructor].
  - cbn [app tl] in *. apply Forall_app in H. destruct H as [H H2].
    apply Forall_app. split; [assumption|].
    constructor; [inversion H2; assumption|]. constructor; [discriminate|constructor].
Qed.

Definition claimed (q : mpsc) (pl : Z) (v : Z) : mpsc :=
  push_publish (mkMpsc (pidx q + 2) pl (cidx q) (pmask q) (cmask q) (pbuf q) (cbuf q) (bufs q) (maxcap q))
    (pbuf q) (offset_of (pidx q) (pmask q)) v.

Lemma claim_inv q segs v pl :
  Inv q segs ->
  pl = plimit q \/ pl = cidx q + cur_buf_capacity q (pmask q) ->
  pidx q < pl ->
  exists segs', Inv (claimed q pl v) segs' /\ concat segs' = concat segs ++ [v].
Proof.
  intros (k & C & K & Hk & HC & Hc & Hcm & Hmax & Hlen & Hne & Hch & Hl1 & Hl2) Hpl Hlt.
  destruct segs as [|s0 r0]; [destruct Hch|].
  destruct (exists_last (l := s0 :: r0) ltac:(discriminate)) as (front & sl & E).
  rewrite E in *. clear E s0 r0.
  destruct (chain_last _ _ _ _ _ _ _ Hch) as (lo' & Hlo & (Hb1 & Hpm & HkK & Hbuf & Hp & Hp2 & Hp3)).
  set (kl := k + Z.of_nat (length front)) in *.
  set (bl := (cbuf q + length front)%nat) in *.
  assert (Hkl : 0 <= kl) by (unfold kl; lia).
  pose proof (zlen_nonneg sl) as Hzs.
  pose proof (pow2_pos K ltac:(lia)) as HpK.
  pose proof (pow2_pos kl Hkl) as Hpk.
  assert (Hcap : cur_buf_capacity q (pmask q) = cap q kl) by (unfold cap; rewrite Hpm; reflexivity).
  assert (Hpar : pidx q + 2 <= 2 * lo' + cap q kl /\ pl <= 2 * lo' + cap q kl /\
                 pl <= cidx q + maxcap q /\ pidx q + 2 <= cidx q + maxcap q /\ zlen sl + 1 <= 2 ^ kl).
  { destruct (cap_cases q K kl Hmax ltac:(lia)) as [(Ek & Ec)|(Ek & Ec & Ec2)]; rewrite Ec in *;
      unfold mask_of in *; destruct Hpl as [-> | ->]; try rewrite Hcap, Ec; try rewrite Ek in *; lia. }
  destruct Hpar as (A1 & A2 & A3 & A4 & A5).
  assert (Hoff : offset_of (pidx q) (pmask q) = Z.to_nat ((lo' + zlen sl) mod 2 ^ kl)).
  { rewrite Hp, Hpm. apply offset_of_half; lia. }
  exists (front ++ [sl ++ [v]]). split; [|apply concat_snoc].
  exists k, C, K.
  unfold claimed, push_publish, with_bufs, buf_set. cbn [pidx plimit cidx pmask cmask pbuf cbuf bufs maxcap].
  split; [assumption|]. split; [assumption|]. split; [assumption|]. split; [assumption|].
  split; [assumption|]. split; [rewrite upd_length; assumption|].
  split; [apply (tl_nonempty_snoc front sl); [assumption|destruct sl; discriminate]|].
  split; [|split; assumption].
  eapply chain_ext; [discriminate| | |exact Hch].
  - intros i Hi. apply nth_upd_other. fold bl in Hb1. lia.
  - intros lo'' Hlo'' (_ & _ & _ & _ & Hp' & _).
    assert (lo'' = lo') by lia. subst lo''. fold kl bl.
    cbn [chain]. unfold pbase. cbn [pidx plimit cidx pmask cmask pbuf cbuf bufs maxcap].
    split; [assumption|]. split; [assumption|]. split; [assumption|].
    split.
    { rewrite Hb1. rewrite nth_upd_same by lia. rewrite Hoff. rewrite <- Hb1.
      apply bufok_push; assumption. }
    rewrite zlen_app. change (zlen [v]) with 1.
    repeat match goal with |- context [cap ?x kl] => lazymatch x with q => fail | _ => change (cap x kl) with (cap q kl) end end.
    lia.
Qed.

Definition resized (q : mpsc) (v : Z) : mpsc :=
  let p := pidx q in
  let mask := pmask q in
  let buffer := pbuf q in
  let c := cidx q in
  let newlen := 2 * (buf_len q buffer - 1) + 1 in
  let newid := length (bufs q) in
  let newmask := Z.shiftl (newlen - 2) 1 in
  let newbuf := upd (offset_of p newmask) (SElem v) (repeat SNil (Z.to_nat newlen)) in
  let bs := bufs q ++ [newbuf] in
  let q1 := mkMpsc (pidx q) (plimit q) (cidx q) newmask (cmask q) newid (cbuf q) bs (maxcap q) in
  let bs1 := buf_set q1 buffer (next_array_offset mask) (SNext newid) in
  let avail := maxcap q - (p - c) in
  let bs2 := buf_set (with_bufs q1 bs1) buffer (offset_of p mask) SJump in
  mkMpsc (p + 2) (p + Z.min newmask avail) (cidx q) newmask (cmask q) newid (cbuf q) bs2 (maxcap q).

Lemma resize_inv q segs v :
  Inv q segs ->
  plimit q <= pidx q -> cidx q + cur_buf_capacity q (pmask q) <= pidx q ->
  0 < maxcap q - (pidx q - cidx q) ->
  exists segs', Inv (resized q v) segs' /\ concat segs' = concat segs ++ [v].
Proof.
  intros (k & C & K & Hk & HC & Hc & Hcm & Hmax & Hlen & Hne & Hch & Hl1 & Hl2) Hslow Hnoroom Havail.
  destruct segs as [|s0 r0]; [destruct Hch|].
  destruct (exists_last (l := s0 :: r0) ltac:(discriminate)) as (front & sl & E).
  rewrite E in *. clear E s0 r0.
  destruct (chain_last _ _ _ _ _ _ _ Hch) as (lo' & Hlo & (Hb1 & Hpm & HkK & Hbuf & Hp & Hp2 & Hp3)).
  set (kl := k + Z.of_nat (length front)) in *.
  set (bl := (cbuf q + length front)%nat) in *.
  assert (Hkl : 0 <= kl) by (unfold kl; lia).
  pose proof (zlen_nonneg sl) as Hzs.
  pose proof (pow2_pos K ltac:(lia)) as HpK.
  pose proof (pow2_pos kl Hkl) as Hpk.
  assert (Hcap : cur_buf_capacity q (pmask q) = cap q kl) by (unfold cap; rewrite Hpm; reflexivity).
  rewrite Hcap in Hnoroom.
  destruct (cap_cases q K kl Hmax ltac:(lia)) as [(Ek & Ec)|(Ek & Ec & Ec2)]; [rewrite Ec in *; lia|].
  rewrite Ec in *. unfold mask_of in Hp2, Hp3, Hnoroom.
  assert (Hroom : zlen sl + 1 <= 2 ^ kl) by lia.
  pose proof (pow2_succ kl Hkl) as Hsucc.
  assert (Hblen : buf_len q (pbuf q) = 2 ^ kl + 1).
  { unfold buf_len. rewrite <- Hb1. destruct Hbuf as (_ & Hl & _). exact Hl. }
  assert (Hnewlen : 2 * (buf_len q (pbuf q) - 1) + 1 = 2 ^ (kl + 1) + 1) by (rewrite Hblen; lia).
  assert (Hoff : offset_of (pidx q) (pmask q) = Z.to_nat ((lo' + zlen sl) mod 2 ^ kl)).
  { rewrite Hp, Hpm. apply offset_of_half; lia. }
  assert (Hoff2 : offset_of (pidx q) (mask_of (kl + 1)) = Z.to_nat ((lo' + zlen sl) mod 2 ^ (kl + 1))).
  { rewrite Hp. apply offset_of_half; lia. }
  assert (Hlk : next_array_offset (pmask q) = Z.to_nat (2 ^ kl)).
  { rewrite Hpm. apply next_array_offset_half; lia. }
  exists (front ++ [sl; [v]]). split; [|apply concat_snoc2].
  exists k, C, K.
  unfold resized. rewrite Hnewlen. rewrite (mask_of_len (kl + 1)) by lia.
  rewrite Hoff, Hoff2, Hlk.
  unfold buf_set, with_bufs. cbn [pidx plimit cidx pmask cmask pbuf cbuf bufs maxcap].
  set (newbuf := upd _ (SElem v) (repeat SNil _)).
  assert (Hpb : (pbuf q < length (bufs q))%nat) by lia.
  rewrite (nth_upd_same (pbuf q)) by (rewrite app_length; cbn [length]; lia).
  rewrite (app_nth1 (bufs q) [newbuf] [] Hpb).
  set (oldbuf := upd _ SJump (upd _ (SNext _) _)).
  split; [assumption|]. split; [assumption|]. split; [assumption|]. split; [assumption|].
  split; [assumption|].
  split; [rewrite !upd_length, app_length; cbn [length]; lia|].
  split; [apply (tl_nonempty_snoc2 front sl); assumption|].
  split; [|unfold mask_of; split; lia].
  eapply chain_ext; [discriminate| | |exact Hch].
  - intros i Hi. fold bl in Hb1. rewrite !nth_upd_other by lia. apply app_nth1. lia.
  - intros lo'' Hlo'' (_ & _ & _ & _ & Hp' & _).
    assert (lo'' = lo') by lia. subst lo''. fold kl bl.
    rewrite chain_cons. split.
    + rewrite Hb1. rewrite nth_upd_same by (rewrite upd_length, app_length; cbn [length]; lia).
      unfold oldbuf. rewrite Hlen. rewrite <- Hb1.
      apply bufok_jump; assumption.
    + cbn [chain]. unfold pbase. cbn [pidx plimit cidx pmask cmask pbuf cbuf bufs maxcap].
      split; [lia|]. split; [reflexivity|]. split; [lia|].
      split.
      { rewrite nth_upd_other by lia. rewrite nth_upd_other by lia.
        rewrite app_nth2 by lia. replace (S bl - length (bufs q))%nat with 0%nat by lia.
        cbn [nth]. unfold newbuf. apply bufok_fresh. lia. }
      change (zlen [v]) with 1.
      repeat match goal with |- context [cap ?x (kl + 1)] =>
        lazymatch x with q => fail | _ => change (cap x (kl + 1)) with (cap q (kl + 1)) end end.
      destruct (cap_cases q K (kl + 1) Hmax ltac:(lia)) as [(Ek' & Ec')|(Ek' & Ec' & Ec2')];
        rewrite Ec'; unfold mask_of; try rewrite <- Ek'; lia.
Qed.

Lemma inv_le q segs : Inv q segs ->
  exists K, 0 <= K /\ maxcap q = 2 * 2 ^ K /\ mpsc_capacity q = 2 ^ K /\ zlen (concat segs) <= 2 ^ K.
Proof.
  intros H. pose proof (inv_total q segs H) as Ht.
  destruct H as (k & C & K & Hk & HC & Hc & Hcm & Hmax & Hlen & Hne & Hch & Hl1 & Hl2).
  destruct segs as [|s0 r0]; [destruct Hch|].
  destruct (exists_last (l := s0 :: r0) ltac:(discriminate)) as (front & sl & E).
  rewrite E in *.
  destruct (chain_last _ _ _ _ _ _ _ Hch) as (lo' & Hlo & (Hb1 & Hpm & HkK & Hbuf & Hp & Hp2 & Hp3)).
  exists K. split; [lia|]. split; [assumption|]. split; [|lia].
  unfold mpsc_capacity. rewrite Hmax. rewrite Z.mul_comm. apply Z.div_mul. lia.
Qed.

Theorem push_spec q segs v : Inv q segs ->
  snd (try_push q v) = (zlen (concat segs) <? mpsc_capacity q) /\
  exists segs', Inv (fst (try_push q v)) segs' /\
                concat segs' = if snd (try_push q v) then concat segs ++ [v] else concat segs.
Proof.
  intros H. pose proof (inv_total q segs H) as Ht.
  destruct (inv_le q segs H) as (K & HK & Hmax & Hcapq & Hle).
  rewrite Hcapq.
  assert (Hsucc : forall q' segs', Inv q' segs' -> maxcap q' = maxcap q -> concat segs' = concat segs ++ [v] ->
                  true = (zlen (concat segs) <? 2 ^ K)).
  { intros q' segs' HI Hm HC. destruct (inv_le q' segs' HI) as (K' & HK' & Hmax' & _ & Hle').
    rewrite HC, zlen_app in Hle'. change (zlen [v]) with 1 in Hle'.
    assert (2 ^ K' = 2 ^ K) by lia. lia. }
  unfold try_push, push_reserve.
  destruct (plimit q <=? pidx q) eqn:E1.
  - destruct (cidx q + cur_buf_capacity q (pmask q) >? pidx q) eqn:E2.
    + destruct (claim_inv q segs v (cidx q + cur_buf_capacity q (pmask q)) H (or_intror eq_refl) ltac:(lia))
        as (segs' & HI & HC).
      cbn [fst snd]. split; [exact (Hsucc _ _ HI eq_refl HC)|]. exists segs'. split; [exact HI|exact HC].
    + destruct (maxcap q - (pidx q - cidx q) <=? 0) eqn:E3.
      * cbn [fst snd]. split; [lia|]. exists segs. split; [assumption|reflexivity].
      * destruct (resize_inv q segs v H ltac:(lia) ltac:(lia) ltac:(lia)) as (segs' & HI & HC).
        cbn [fst snd]. split; [exact (Hsucc _ _ HI eq_refl HC)|]. exists segs'. split; [exact HI|exact HC].
  - destruct (claim_inv q segs v (plimit q) H (or_introl eq_refl) ltac:(lia)) as (segs' & HI & HC).
    cbn [fst snd]. split; [exact (Hsucc _ _ HI eq_refl HC)|]. exists segs'. split; [exact HI|exact HC].
Qed.

(* ------------------------------------------------------------------ *)
(* pop *)

Definition popped (q : mpsc) : mpsc :=
  mkMpsc (pidx q) (plimit q) (cidx q + 2) (pmask q) (cmask q) (pbuf q) (cbuf q)
    (buf_set q (cbuf q) (offset_of (cidx q) (cmask q)) SNil) (maxcap q).

Lemma pop_elem_inv q v s' rest :
  Inv q ((v :: s') :: rest) ->
  buf_get q (cbuf q) (offset_of (cidx q) (cmask q)) = SElem v /\ Inv (popped q) (s' :: rest).
Proof.
  intros (k & C & K & Hk & HC & Hc & Hcm & Hmax & Hlen & Hne & Hch & Hl1 & Hl2).
  assert (Hoff : offset_of (cidx q) (cmask q) = Z.to_nat (C mod 2 ^ k)).
  { rewrite Hc, Hcm. apply offset_of_half; lia. }
  unfold buf_get, popped, buf_set. rewrite Hoff.
  destruct rest as [|s1 rest].
  - cbn [chain] in Hch. destruct Hch as (Hb1 & Hpm & HkK & Hbuf & Hp & Hp2 & Hp3).
    destruct (bufok_pop _ _ _ _ _ _ _ Hbuf) as [Hslot Hbuf'].
    split; [exact Hslot|].
    exists k, (C + 1), K. cbn [pidx plimit cidx pmask cmask pbuf cbuf bufs maxcap].
    split; [assumption|]. split; [lia|]. split; [lia|]. split; [assumption|]. split; [assumption|].
    split; [rewrite upd_length; assumption|]. split; [constructor|].
    split; [|split; lia].
    cbn [chain]. unfold pbase. cbn [pidx plimit cidx pmask cmask pbuf cbuf bufs maxcap].
    split; [assumption|]. split; [assumption|]. split; [assumption|].
    split; [rewrite nth_upd_same by lia; assumption|].
    unfold zlen in *. cbn [length] in Hp.
    repeat match goal with |- context [cap ?x k] =>
      lazymatch x with q => fail | _ => change (cap x k) with (cap q k) end end.
    lia.
  - rewrite chain_cons in Hch. destruct Hch as [Hbuf Hrest].
    destruct (bufok_pop _ _ _ _ _ _ _ Hbuf) as [Hslot Hbuf'].
    split; [exact Hslot|].
    assert (Hcb : (cbuf q < length (bufs q))%nat).
    { destruct (Nat.lt_ge_cases (cbuf q) (length (bufs q))) as [Hlt|Hge]; [assumption|].
      rewrite (nth_overflow (bufs q) [] Hge) in Hbuf. destruct Hbuf as (_ & Hl & _).
      cbn [length] in Hl. pose proof (pow2_pos k Hk). lia. }
    exists k, (C + 1), K. cbn [pidx plimit cidx pmask cmask pbuf cbuf bufs maxcap].
    split; [assumption|]. split; [lia|]. split; [lia|]. split; [assumption|]. split; [assumption|].
    split; [rewrite upd_length; assumption|]. split; [assumption|].
    split; [|split; lia].
    rewrite chain_cons. split.
    + rewrite nth_upd_same by assumption. assumption.
    + unfold zlen in *. cbn [length] in Hrest.
      replace (C + 1 + Z.of_nat (length s')) with (C + Z.of_nat (S (length s'))) by lia.
      eapply chain_frame; [| |exact Hrest].
      * intros i Hi. apply nth_upd_other. lia.
      * intros b' k' lo' s Hb' Hlo' (Hb1 & Hpm & HkK & Hbuf2 & Hp & Hp2 & Hp3).
        unfold pbase. cbn [pidx plimit cidx pmask cmask pbuf cbuf bufs maxcap].
        split; [assumption|]. split; [assumption|]. split; [assumption|].
        split; [rewrite nth_upd_other by lia; assumption|].
        repeat match goal with |- context [cap ?x k'] =>
          lazymatch x with q => fail | _ => change (cap x k') with (cap q k') end end.
        auto.
Qed.

(* following the jump: the consumer moves to the next buffer *)
Definition jumped (q : mpsc) : mpsc :=
  let bs1 := buf_set q (cbuf q) (next_array_offset (cmask q)) SNil in
  let nb := S (cbuf q) in
  mkMpsc (pidx q) (plimit q) (cidx q) (pmask q)
    (Z.shiftl (Z.of_nat (length (nth nb bs1 [])) - 2) 1) (pbuf q) nb bs1 (maxcap q).

Lemma chain_head_len (base : nat -> Z -> Z -> list Z -> Prop) bufs s rest b k lo :
  (forall b' k' lo' s', base b' k' lo' s' -> Z.of_nat (length (nth b' bufs [])) = 2 ^ k' + 1) ->
  chain base bufs (s :: rest) b k lo -> Z.of_nat (length (nth b bufs [])) = 2 ^ k + 1.
Proof.
  intros Hb H. destruct rest as [|s1 rest].
  - cbn [chain] in H. eapply Hb; eassumption.
  - rewrite chain_cons in H. destruct H as [(_ & Hl & _) _]. exact Hl.
Qed.

Lemma pop_jump_inv q s2 rest :
  Inv q ([] :: s2 :: rest) ->
  buf_get q (cbuf q) (offset_of (cidx q) (cmask q)) = SJump /\
  buf_get q (cbuf q) (next_array_offset (cmask q)) = SNext (S (cbuf q)) /\
  Inv (jumped q) (s2 :: rest) /\ s2 <> [].
Proof.
  intros (k & C & K & Hk & HC & Hc & Hcm & Hmax & Hlen & Hne & Hch & Hl1 & Hl2).
  assert (Hoff : offset_of (cidx q) (cmask q) = Z.to_nat (C mod 2 ^ k)).
  { rewrite Hc, Hcm. apply offset_of_half; lia. }
  assert (Hlk : next_array_offset (cmask q) = Z.to_nat (2 ^ k)).
  { rewrite Hcm. apply next_array_offset_half; lia. }
  pose proof (pow2_pos k Hk) as Hpk.
  rewrite chain_cons in Hch. destruct Hch as [Hbuf Hrest].
  change (zlen []) with 0 in Hrest. replace (C + 0) with C in Hrest by lia.
  cbn [tl] in Hne. inversion Hne as [|? ? Hs2 Hne']; subst.
  unfold buf_get. rewrite Hoff, Hlk.
  destruct Hbuf as (_ & Hl & Hlink & Hfit & Hw).
  split.
  { rewrite (Hw C) by lia. unfold want. change (zlen []) with 0.
    replace (C <? C + 0) with false by lia. replace (C =? C + 0) with true by lia. reflexivity. }
  split; [exact Hlink|]. split; [|assumption].
  assert (Hcb : (cbuf q < length (bufs q))%nat).
  { destruct (Nat.lt_ge_cases (cbuf q) (length (bufs q))) as [Hlt|Hge]; [assumption|].
    rewrite (nth_overflow (bufs q) [] Hge) in Hl. cbn [length] in Hl. lia. }
  assert (Hnl : Z.of_nat (length (nth (S (cbuf q)) (bufs q) [])) = 2 ^ (k + 1) + 1).
  { eapply chain_head_len; [|exact Hrest].
    intros b' k' lo' s' (_ & _ & _ & (_ & Hl' & _) & _). exact Hl'. }
  unfold jumped, buf_set. rewrite Hlk.
  rewrite (nth_upd_other (cbuf q) (S (cbuf q))) by lia. rewrite Hnl.
  rewrite (mask_of_len (k + 1)) by lia.
  exists (k + 1), C, K. cbn [pidx plimit cidx pmask cmask pbuf cbuf bufs maxcap].
  split; [lia|]. split; [assumption|]. split; [assumption|]. split; [reflexivity|]. split; [assumption|].
  split; [rewrite upd_length; assumption|]. split; [assumption|].
  split; [|split; assumption].
  eapply chain_frame; [| |exact Hrest].
  - intros i Hi. apply nth_upd_other. lia.
  - intros b' k' lo' s Hb' Hlo' (Hb1 & Hpm & HkK & Hbuf2 & Hp & Hp2 & Hp3).
    unfold pbase. cbn [pidx plimit cidx pmask cmask pbuf cbuf bufs maxcap].
    split; [assumption|]. split; [assumption|]. split; [assumption|].
    split; [rewrite nth_upd_other by lia; assumption|].
    repeat match goal with |- context [cap ?x k'] =>
      lazymatch x with q => fail | _ => change (cap x k') with (cap q k') end end.
    auto.
Qed.

Theorem pop_spec q segs : Inv q segs ->
  match concat segs with
  | [] => try_pop q = (q, PopEmpty)
  | v :: r => snd (try_pop q) = PopElem v /\ exists segs', Inv (fst (try_pop q)) segs' /\ concat segs' = r
  end.
Proof.
  intros H. destruct segs as [|s rest].
  { destruct H as (k & C & K & _ & _ & _ & _ & _ & _ & _ & Hch & _). destruct Hch. }
  destruct s as [|v s'].
  - destruct rest as [|s2 rest].
    + (* empty queue *)
      cbn [concat app]. pose proof (inv_total q _ H) as Ht. change (zlen (concat [[]])) with 0 in Ht.
      destruct H as (k & C & K & Hk & HC & Hc & Hcm & Hmax & Hlen & Hne & Hch & Hl1 & Hl2).
      cbn [chain] in Hch. destruct Hch as (Hb1 & Hpm & HkK & Hbuf & Hp & Hp2 & Hp3).
      assert (Hoff : offset_of (cidx q) (cmask q) = Z.to_nat (C mod 2 ^ k)).
      { rewrite Hc, Hcm. apply offset_of_half; lia. }
      pose proof (pow2_pos k Hk) as Hpk.
      destruct Hbuf as (_ & Hl & Hlink & Hfit & Hw).
      unfold try_pop, buf_get. rewrite Hoff. rewrite (Hw C) by lia.
      unfold want. change (zlen []) with 0. replace (C <? C + 0) with false by lia. cbn [andb].
      replace (cidx q =? pidx q) with true by lia. reflexivity.
    + (* jump *)
      destruct (pop_jump_inv q s2 rest H) as (Hslot & Hlink & HI & Hs2).
      destruct s2 as [|v2 s2']; [contradiction|].
      destruct (pop_elem_inv (jumped q) v2 s2' rest HI) as (Hslot2 & HI2).
      cbn [concat app].
      unfold try_pop. rewrite Hslot, Hlink.
      change (buf_get (with_bufs q (buf_set q (cbuf q) (next_array_offset (cmask q)) SNil)) (S (cbuf q))
                (offset_of (cidx q) (Z.shiftl (buf_len (with_bufs q (buf_set q (cbuf q) (next_array_offset (cmask q)) SNil)) (S (cbuf q)) - 2) 1)))
        with (buf_get (jumped q) (cbuf (jumped q)) (offset_of (cidx (jumped q)) (cmask (jumped q)))).
      rewrite Hslot2. cbn [fst snd]. split; [reflexivity|].
      exists (s2' :: rest). split; [exact HI2|reflexivity].
  - destruct (pop_elem_inv q v s' rest H) as (Hslot & HI).
    cbn [concat app]. unfold try_pop. rewrite Hslot. cbn [fst snd]. split; [reflexivity|].
    exists (s' :: rest). split; [exact HI|reflexivity].
Qed.

(* ------------------------------------------------------------------ *)
(* RoundUpPowerOf2 (uint32) and the initial state *)

Lemma roundup32_spec x : 1 < x <= 2 ^ 31 -> roundup32 x = 2 ^ Z.log2_up x.
Proof.
  intros Hx. unfold roundup32. replace (x =? 0) with false by lia.
  set (y := x - 1). assert (Hy : 0 < y) by (unfold y; lia).
  set (n := Z.log2 y).
  assert (Hn : 0 <= n) by apply Z.log2_nonneg.
  assert (Hn31 : n < 31).
  { unfold n. apply Z.log2_lt_pow2; [assumption|]. unfold y. lia. }
  assert (S0 : (forall i, 0 <= i -> n - 0 <= i <= n -> Z.testbit y i = true) /\
               (forall i, n < i -> Z.testbit y i = false)).
  { split.
    - intros i _ Hi. replace i with n by lia. apply Z.bit_log2. assumption.
    - intros i Hi. apply Z.bits_above_log2; [lia|assumption]. }
  destruct S0 as [A0 B0].
  destruct (smear_step y n 0 1 1 ltac:(lia) ltac:(lia) ltac:(lia) A0 B0) as [A1 B1].
  destruct (smear_step _ n 1 2 3 ltac:(lia) ltac:(lia) ltac:(lia) A1 B1) as [A2 B2].
  destruct (smear_step _ n 3 4 7 ltac:(lia) ltac:(lia) ltac:(lia) A2 B2) as [A3 B3].
  destruct (smear_step _ n 7 8 15 ltac:(lia) ltac:(lia) ltac:(lia) A3 B3) as [A4 B4].
  destruct (smear_step _ n 15 16 31 ltac:(lia) ltac:(lia) ltac:(lia) A4 B4) as [A5 B5].
  unfold smear1 in *.
  set (z := Z.lor _ (Z.shiftr _ 16)) in *.
  assert (Ez : z = Z.ones (n + 1)).
  { apply Z.bits_inj'. intros i Hi.
    destruct (Z_lt_ge_dec n i) as [Hgt|Hle].
    - rewrite B5 by assumption. rewrite Z.ones_spec_high by lia. reflexivity.
    - rewrite A5 by lia. rewrite Z.ones_spec_low by lia. reflexivity. }
  rewrite Ez. rewrite Z.ones_equiv.
  replace (Z.pred (2 ^ (n + 1)) + 1) with (2 ^ (n + 1)) by lia.
  assert (EL : Z.log2_up x = n + 1).
  { rewrite Z.log2_up_eqn by lia. unfold n, y. rewrite <- Z.sub_1_r. lia. }
  rewrite EL.
  apply Z.mod_small.
  assert (2 ^ (n + 1) <= 2 ^ 31) by (apply Z.pow_le_mono_r; lia).
  assert (0 < 2 ^ (n + 1)) by (apply Z.pow_pos_nonneg; lia).
  change (2 ^ 31) with 2147483648 in *. lia.
Qed.

Lemma inv_new initial maximum :
  2 <= initial <= 2 ^ 31 -> 4 <= maximum <= 2 ^ 31 -> roundup32 initial <= roundup32 maximum ->
  Inv (mpsc_new initial maximum) [[]] /\ mpsc_capacity (mpsc_new initial maximum) = roundup32 maximum.
Proof.
  intros Hi Hm Hle.
  rewrite (roundup32_spec initial) in * by lia. rewrite (roundup32_spec maximum) in * by lia.
  set (k := Z.log2_up initial) in *. set (K := Z.log2_up maximum) in *.
  assert (Hk : 0 < k) by (apply Z.log2_up_pos; lia).
  assert (HK : 0 < K) by (apply Z.log2_up_pos; lia).
  assert (HkK : k <= K) by (apply (Z.pow_le_mono_r_iff 2); lia).
  pose proof (pow2_pos k ltac:(lia)) as Hpk. pose proof (pow2_pos K ltac:(lia)) as HpK.
  unfold mpsc_new. rewrite (roundup32_spec initial) by lia. rewrite (roundup32_spec maximum) by lia.
  fold k K.
  assert (Em : Z.shiftl (2 ^ k - 1) 1 = mask_of k).
  { rewrite Z.shiftl_mul_pow2 by lia. change (2 ^ 1) with 2. unfold mask_of. lia. }
  assert (EM : Z.shiftl (2 ^ K) 1 = 2 * 2 ^ K).
  { rewrite Z.shiftl_mul_pow2 by lia. change (2 ^ 1) with 2. lia. }
  rewrite Em, EM. split.
  - exists k, 0, K. cbn [pidx plimit cidx pmask cmask pbuf cbuf bufs maxcap length tl].
    split; [lia|]. split; [lia|]. split; [reflexivity|]. split; [reflexivity|]. split; [reflexivity|].
    split; [reflexivity|]. split; [constructor|].
    assert (Hcapk : mask_of k <= cap (mkMpsc 0 (mask_of k) 0 (mask_of k) (mask_of k) 0 0
                                       [repeat SNil (Z.to_nat (2 ^ k + 1))] (2 * 2 ^ K)) k /\ 0 <= mask_of k).
    { unfold cap, cur_buf_capacity, mask_of. cbn [maxcap].
      destruct (2 * (2 ^ k - 1) + 2 =? 2 * 2 ^ K); lia. }
    split; [|unfold mask_of in *; split; lia].
    cbn [chain]. unfold pbase. cbn [pidx plimit cidx pmask cmask pbuf cbuf bufs maxcap nth].
    split; [reflexivity|]. split; [reflexivity|]. split; [assumption|].
    split; [apply bufok_empty; lia|]. change (zlen []) with 0. lia.
  - unfold mpsc_capacity. cbn [maxcap]. rewrite Z.mul_comm. apply Z.div_mul. lia.
Qed.

(* ------------------------------------------------------------------ *)
(* the queue against the FIFO specification, over operation sequences *)

Inductive qop := QPush (v : Z) | QPop.
Inductive qout := OPushed (ok : bool) | OPopped (r : popres).

Definition qstep (q : mpsc) (o : qop) : mpsc * qout :=
  match o with
  | QPush v => let '(q', ok) := try_push q v in (q', OPushed ok)
  | QPop => let '(q', r) := try_pop q in (q', OPopped r)
  end.

Fixpoint qrun (q : mpsc) (ops : list qop) : list qout :=
  match ops with
  | [] => []
  | o :: t => let '(q', out) := qstep q o in out :: qrun q' t
  end.

Definition fstep (capacity : Z) (l : list Z) (o : qop) : list Z * qout :=
  match o with
  | QPush v => if zlen l <? capacity then (l ++ [v], OPushed true) else (l, OPushed false)
  | QPop => match l with [] => ([], OPopped PopEmpty) | v :: r => (r, OPopped (PopElem v)) end
  end.

Fixpoint frun (capacity : Z) (l : list Z) (ops : list qop) : list qout :=
  match ops with
  | [] => []
  | o :: t => let '(l', out) := fstep capacity l o in out :: frun capacity l' t
  end.

Lemma push_maxcap q v : maxcap (fst (try_push q v)) = maxcap q.
Proof.
  unfold try_push, push_reserve.
  destruct (plimit q <=? pidx q); [|reflexivity].
  destruct (cidx q + cur_buf_capacity q (pmask q) >? pidx q); [reflexivity|].
  destruct (maxcap q - (pidx q - cidx q) <=? 0); reflexivity.
Qed.

Lemma pop_maxcap q : maxcap (fst (try_pop q)) = maxcap q.
Proof.
  unfold try_pop. destruct (buf_get q (cbuf q) (offset_of (cidx q) (cmask q))) as [|v| |b]; try reflexivity.
  - destruct (cidx q =? pidx q); reflexivity.
  - destruct (buf_get q (cbuf q) (next_array_offset (cmask q))) as [|?| |nb]; try reflexivity.
    destruct (buf_get _ nb _); reflexivity.
Qed.

Theorem fifo_refinement ops : forall q segs,
  Inv q segs -> qrun q ops = frun (mpsc_capacity q) (concat segs) ops.
Proof.
  induction ops as [|o t IH]; intros q segs H; [reflexivity|].
  cbn [qrun frun]. destruct o as [v|].
  - cbn [qstep fstep]. destruct (push_spec q segs v H) as (Hok & segs' & HI & HC).
    pose proof (push_maxcap q v) as Hm.
    destruct (try_push q v) as [q' ok]. cbn [fst snd] in *. subst ok.
    assert (Hc : mpsc_capacity q' = mpsc_capacity q) by (unfold mpsc_capacity; rewrite Hm; reflexivity).
    destruct (zlen (concat segs) <? mpsc_capacity q); rewrite <- HC, <- Hc; f_equal; apply IH; assumption.
  - cbn [qstep fstep]. pose proof (pop_spec q segs H) as Hp. pose proof (pop_maxcap q) as Hm.
    destruct (concat segs) as [|v r] eqn:EC.
    + rewrite Hp. f_equal. rewrite <- EC. apply IH. assumption.
    + destruct Hp as (Hr & segs' & HI & HC).
      destruct (try_pop q) as [q' r']. cbn [fst snd] in *. subst r'.
      assert (Hc : mpsc_capacity q' = mpsc_capacity q) by (unfold mpsc_capacity; rewrite Hm; reflexivity).
      rewrite <- HC, <- Hc. f_equal. apply IH. assumption.
Qed.

(* every state reached by complete pushes and pops satisfies the invariant *)
Definition qstate (q : mpsc) (ops : list qop) : mpsc := fold_left (fun q o => fst (qstep q o)) ops q.

Lemma inv_reachable ops : forall q segs, Inv q segs -> exists segs', Inv (qstate q ops) segs'.
Proof.
  induction ops as [|o t IH]; intros q segs H; [exists segs; exact H|].
  unfold qstate. cbn [fold_left]. destruct o as [v|]; cbn [qstep].
  - destruct (push_spec q segs v H) as (_ & segs' & HI & _).
    destruct (try_push q v) as [q' ok]. cbn [fst] in *. exact (IH q' segs' HI).
  - pose proof (pop_spec q segs H) as Hp. destruct (concat segs) as [|v r].
    + rewrite Hp. cbn [fst]. exact (IH q segs H).
    + destruct Hp as (_ & segs' & HI & _). destruct (try_pop q) as [q' r']. cbn [fst] in *. exact (IH q' segs' HI).
Qed.

Lemma size_bounded q segs : Inv q segs -> 0 <= mpsc_size q <= mpsc_capacity q.
Proof.
  intros H. rewrite (mpsc_size_abs q segs H). destruct (inv_le q segs H) as (K & _ & _ & -> & Hle).
  pose proof (zlen_nonneg (concat segs)). lia.
Qed.

Lemma refused_iff_full q segs v : Inv q segs ->
  (snd (try_push q v) = false <-> mpsc_size q = mpsc_capacity q).
Proof.
  intros H. destruct (push_spec q segs v H) as (Hok & _). rewrite Hok.
  pose proof (size_bounded q segs H). rewrite (mpsc_size_abs q segs H) in *. lia.
Qed.
